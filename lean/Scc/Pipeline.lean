/-
  Scc.Pipeline — the whole compiler as ONE function of the Lean models: the composition of the
  pass models exactly as /repo/lang/driver/src/lib.rs (`Driver::parsed`, `checked`, `compiled`,
  `focused` (Prog::focus calls uniquify), `shrunk`, `linearized`) and
  /repo/lang/driver/src/backends/x86_64.rs (`print_x86_64`: `compile::<axcut2x86_64::Backend>`,
  `into_x86_64_routine`, `print_to_string`) compose the real passes.

    text --parse--> S0 --check--> S1 --fun2core--> S2 --focus(=uniquify;focus)--> S3 --shrink--> S4
         --linearize--> S5 --compile::<x86>--> (code, number_of_arguments) --into_routine--> routine
         --print--> routine text (S7x)

  Every stage that can panic in Rust returns an explicit error here (the pass models' `Except`),
  prefixed with the name of the stage.  Also: the common observable type `Obs` with conversions from
  the behaviour type of every specification machine, and the model of the native execution
  (C driver + io.c runtime around the x86 machine) used by the end-to-end statement C01.

  Executable; imports model / spec files only (no Mathlib).  Tie: for every program of
  /repo/examples, /repo/testsuite, /verif/gen/corpus/*/*.sc and generated programs,
  `runLinePipeline <S1 dump>` = `OK <n>\n` ++ the harness' S7x text (hooks = true, counter 0),
  see /verif/gen/pipeline/check_pipeline.py.
-/
import Scc.Fun.Parse
import Scc.Fun.Check
import Scc.Fun.Sem
import Scc.Fun2Core.Model
import Scc.Core.Focus
import Scc.Core.Sem
import Scc.Core2AxCut.Model
import Scc.AxCut.Linearize
import Scc.AxCut.SemNamed
import Scc.AxCut.SemPos
import Scc.X86.Backend
import Scc.X86.Machine
import Scc.Runtime.Current

namespace Scc.Pipeline

open Scc

/-! ## front end: text ↦ S0 ↦ S1 -/

/-- outcome of `Driver::checked` on a source text -/
inductive Outcome where
  /-- parsed to `p`, accepted by the checker with output `p'` -/
  | ok (p : Fun.Program) (p' : Fun.CheckedProgram)
  /-- parser diagnostic `P-00x` -/
  | parseDiag (code : String)
  /-- type checker diagnostic `T-0xx` -/
  | checkDiag (code : String)
  /-- a Rust panic (parser: integer literal; checker: site) -/
  | panic (site : String)

/-- lib.rs: `Driver::parsed` then `Driver::checked`.  The parser model runs in the mode of the
    repaired code (`diagOnOverflow`: an out-of-range integer literal is a diagnostic, as in the
    current /repo; `Scc.Props.C18_literal_mode_current`). -/
def frontEnd (src : String) : Outcome :=
  match Fun.Parse.parse .diagOnOverflow src with
  | .diag c => .parseDiag c.show
  | .panic .literal => .panic "parser: literal"
  | .ok p =>
    match Fun.Check.checkProgram p with
    | .ok p' => .ok p p'
    | .diag c => .checkDiag c
    | .panic s => .panic ("checker: " ++ s)

/-! ## middle end: S1 ↦ S2 ↦ S3 ↦ S4 ↦ S5 -/

/-- the intermediate programs of one compilation -/
structure Stages where
  s2 : Core.Prog
  s3 : Core.FsProg
  s4 : AxCut.Prog
  s5 : AxCut.Prog

/-- prefix the message of a failing stage with the stage name -/
def tagErr {α : Type} (stage : String) : Except String α → Except String α
  | .ok a => .ok a
  | .error e => .error (stage ++ ": " ++ e)

/-- lib.rs: `Driver::compiled` (fun2core::program::compile_prog) -/
def stageS2 (p' : Fun.CheckedProgram) : Except String Core.Prog :=
  tagErr "S2 fun2core" (Fun2Core.compileProg p')

/-- lib.rs: `Driver::focused` (`compiled.focus()`; `Prog::focus` uniquifies first).  `focusProgE`
    reports the panics of `Xtor::focus` / `Op::focus` / `Term<Cns>` explicitly. -/
def stageS3 (q2 : Core.Prog) : Except String Core.FsProg :=
  tagErr "S3 focus" (Core.focusProgE q2)

/-- lib.rs: `Driver::shrunk` (core2axcut::program::shrink_prog) -/
def stageS4 (q3 : Core.FsProg) : Except String AxCut.Prog :=
  tagErr "S4 shrink" (Core2AxCut.shrinkProg q3)

/-- lib.rs: `Driver::linearized` (`shrunk.linearize()`) -/
def stageS5 (q4 : AxCut.Prog) : Except String AxCut.Prog :=
  tagErr "S5 linearize" (AxCut.linearizeProg q4)

/-- all intermediate programs, in the order in which the driver computes them -/
def stages (p' : Fun.CheckedProgram) : Except String Stages :=
  match stageS2 p' with
  | .error e => .error e
  | .ok q2 =>
    match stageS3 q2 with
    | .error e => .error e
    | .ok q3 =>
      match stageS4 q3 with
      | .error e => .error e
      | .ok q4 =>
        match stageS5 q4 with
        | .error e => .error e
        | .ok q5 => .ok ⟨q2, q3, q4, q5⟩

/-- lib.rs: `Driver::linearized` from a checked program -/
def middleEnd (p' : Fun.CheckedProgram) : Except String AxCut.Prog :=
  match stages p' with
  | .error e => .error e
  | .ok st => .ok st.s5

/-! ## back end (x86-64): S5 ↦ routine text -/

/-- backends/x86_64.rs: `print_x86_64` from the linearized program: `compile::<Backend>`
    (label counter starting at `counterStart`), `into_x86_64_routine`, `print_to_string`.
    Result: (`number_of_arguments`, text of the `.asm` file). -/
def backEndX86 (hooks : Bool) (counterStart : Nat) (q5 : AxCut.Prog) : Except String (Nat × String) :=
  match tagErr "S6x compile" (X86.compileX86 q5 hooks counterStart) with
  | .error e => .error e
  | .ok (body, nargs) =>
    match tagErr "S7x into_routine" (X86.intoRoutine body nargs) with
    | .error e => .error e
    | .ok routine => .ok (nargs, X86.printProg routine)

/-- the whole compiler from the checked program to the x86-64 routine text -/
def compileAllX86 (hooks : Bool) (counterStart : Nat) (p' : Fun.CheckedProgram) :
    Except String (Nat × String) :=
  match middleEnd p' with
  | .error e => .error e
  | .ok q5 => backEndX86 hooks counterStart q5

/-- from source text: `Driver::print_x86_64` -/
def compileTextX86 (hooks : Bool) (counterStart : Nat) (src : String) :
    Except String (Nat × String) :=
  match frontEnd src with
  | .ok _ p' => compileAllX86 hooks counterStart p'
  | .parseDiag c => .error ("S0 DIAG " ++ c)
  | .checkDiag c => .error ("S1 DIAG " ++ c)
  | .panic s => .error ("PANIC " ++ s)

/-! ## line functions -/

def readS1 (dumpS1 : String) : Except String Fun.CheckedProgram :=
  match Sexp.parse dumpS1 with
  | none => .error "ERR sexp"
  | some sx =>
    match Fun.readChecked (dumpS1.length + 10) sx with
    | none => .error "ERR read"
    | some p => .ok p

/-- input: the text of an S1 dump (the order of the type declarations in the checked program comes
    out of a Rust `HashMap`; the dump fixes it).  Output `OK <nargs>\n<routine text>` |
    `PANIC <stage>: <msg>` | `ERR ..`.  Hooks on, label counter 0 (a fresh harness process). -/
def runLinePipelineWith (hooks : Bool) (counterStart : Nat) (dumpS1 : String) : String :=
  match readS1 dumpS1 with
  | .error e => e
  | .ok p' =>
    match compileAllX86 hooks counterStart p' with
    | .error e => "PANIC " ++ e
    | .ok (nargs, text) => "OK " ++ toString nargs ++ "\n" ++ text

def runLinePipeline (dumpS1 : String) : String := runLinePipelineWith true 0 dumpS1

/-- input: SOURCE text; parse + check + everything else.  `OK <nargs>\n<text>` | `DIAG ..` | `PANIC ..`
    (the S1 type declarations are in the order produced by the checker model). -/
def runLineSource (src : String) : String :=
  match compileTextX86 true 0 src with
  | .error e => if e.startsWith "S0 DIAG" || e.startsWith "S1 DIAG" then e else "PANIC " ++ e
  | .ok (nargs, text) => "OK " ++ toString nargs ++ "\n" ++ text

/-- all stage dumps of one S1 dump, one per line (`S2 OK ..` … `S5 OK ..`), for debugging the tie -/
def runLineStages (dumpS1 : String) : String :=
  match readS1 dumpS1 with
  | .error e => e
  | .ok p' =>
    match stages p' with
    | .error e => "PANIC " ++ e
    | .ok st =>
      "S2 OK " ++ st.s2.toSexp.render ++ "\nS3 OK " ++ st.s3.toSexp.render ++
      "\nS4 OK " ++ st.s4.toSexp.render ++ "\nS5 OK " ++ st.s5.toSexp.render

/-! ## the common observable -/

abbrev Word := BitVec 64

inductive ObsRes where
  | done (v : Word)
  | stuck (why : String)
  | outOfFuel
  deriving DecidableEq, Repr, Inhabited

/-- what can be observed of a run of any of the machines: the print trace `(newline?, value)` in
    order of execution and how the run ended -/
structure Obs where
  out : List (Bool × Word)
  res : ObsRes
  deriving DecidableEq, Repr, Inhabited

def ofFun (b : Fun.Behaviour) : Obs :=
  ⟨b.out, match b.res with
    | .done v => .done v
    | .stuck w => .stuck w.toString
    | .outOfFuel => .outOfFuel⟩

def ofCore (b : Core.Behaviour) : Obs :=
  ⟨b.out, match b.res with
    | .done v => .done v
    | .stuck w => .stuck w.render
    | .outOfFuel => .outOfFuel⟩

def ofNamed (b : AxCut.Named.Behaviour) : Obs :=
  ⟨b.out, match b.res with
    | .done v => .done v
    | .stuck w => .stuck w
    | .outOfFuel => .outOfFuel⟩

def ofPos (b : AxCut.Pos.Behaviour) : Obs :=
  ⟨b.out, match b.res with
    | .done v => .done v
    | .stuck w => .stuck w.render
    | .outOfFuel => .outOfFuel⟩

/-- every abnormal end of the x86 machine (fault, calling-convention violation, invariant monitor,
    text that does not parse) is `stuck` -/
def ofX86 (r : X86.RunResult) : Obs :=
  ⟨r.out, match r.res with
    | .done v => .done v
    | .outOfFuel => .outOfFuel
    | other => .stuck (X86.renderRes other)⟩

def ObsRes.render : ObsRes → String
  | .done v => "done:" ++ toString v.toInt
  | .stuck w => "stuck:" ++ w
  | .outOfFuel => "outOfFuel"

def Obs.render (o : Obs) : String :=
  "out=[" ++ ",".intercalate (o.out.map fun (nl, v) => (if nl then "1:" else "0:") ++ toString v.toInt)
    ++ "] res=" ++ o.res.render

/-! ## the reference semantics of C01 -/

/-- DESIGN §4: the Fun machine on `Sequenced` programs, the Core ς-machine on the translation
    otherwise (a failing translation is `stuck`) -/
def srcRun (p' : Fun.CheckedProgram) (args : List Word) (fuel : Nat) : Obs :=
  if Fun.Sequenced p' then ofFun (Fun.run p' args fuel)
  else
    match Fun2Core.compileProg p' with
    | .ok q2 => ofCore (Core.run q2 args fuel)
    | .error e => ⟨[], .stuck ("fun2core: " ++ e)⟩

/-! ## valid `main` -/

def isI64 : Fun.Ty → Bool
  | .i64 => true
  | _ => false

/-- the signature the generated C driver can call: at most 5 parameters, all integer producers,
    integer result -/
def mainSigOk (d : Fun.Def) : Bool :=
  decide (d.ctx.length ≤ 5) && d.ctx.all (fun b => b.chi == .prd && isI64 b.ty) && isI64 d.retTy

/-- the definitions called `main` -/
def mainDefs (p' : Fun.CheckedProgram) : List Fun.Def := p'.defs.filter (fun d => d.name == "main")

/-- there is exactly one definition called `main`, and its signature is valid -/
def validMain (p' : Fun.CheckedProgram) : Bool :=
  match mainDefs p' with
  | [d] => mainSigOk d
  | _ => false

/-- number of parameters of `main` -/
def mainArity (p' : Fun.CheckedProgram) : Nat :=
  match mainDefs p' with
  | d :: _ => d.ctx.length
  | [] => 0

/-! ## native execution: C driver + io.c around the routine (runtime model of C20) -/

/-- the bytes that the calls `print_i64` / `println_i64` of a trace write (`none`: one of the calls
    has undefined behaviour in C) -/
def traceBytes : List (Bool × Word) → Option (List UInt8)
  | [] => some []
  | (nl, v) :: rest =>
    match (if nl then Runtime.printlnI64Cur v else Runtime.printI64Cur v), traceBytes rest with
    | .ok bs, some r => some (bs ++ r)
    | _, _ => none

/-- C20's decimal rendering of a trace -/
def renderTrace (t : List (Bool × Word)) : List UInt8 :=
  t.flatMap fun (nl, v) => Runtime.decSpec v.toInt ++ (if nl then [10] else [])

/-- result of running the linked binary: bytes on stdout, exit status (`none`: the run of `asm_main`
    did not return within the fuel, faulted, or a runtime call was undefined) -/
def nativeRun (text : String) (nParams : Nat) (argv : List (List UInt8)) (fuel : Nat)
    (cfg : X86.MonCfg) : Option (List UInt8 × Nat) :=
  if argv.length ≠ 1 + nParams then some (Runtime.errorBytes, 1)
  else
    let args : List Word := (argv.drop 1).map fun s => BitVec.ofInt 64 (Runtime.argToParamCur s)
    let r := X86.run text args fuel cfg
    match r.res, traceBytes r.out with
    | .done v, some bytes => some (bytes, Runtime.exitStatus v.toInt)
    | _, _ => none

/-- the command line `prog a1 .. an` for integer arguments -/
def argvOf (args : List Word) : List (List UInt8) :=
  [112] :: args.map fun a => Runtime.decSpec a.toInt

/-- `native <args> <fuel>` line: `OK <hex bytes> <status>` | `NONE` -/
def runLineNative (text : String) (nParams : Nat) (args : List Word) (fuel : Nat) : String :=
  match nativeRun text nParams (argvOf args) fuel {} with
  | some (bytes, st) => "OK " ++ Runtime.hexOfBytes bytes ++ " " ++ toString st
  | none => "NONE"

end Scc.Pipeline
