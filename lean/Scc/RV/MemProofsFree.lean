/-
  Scc.RV.MemProofsFree — everything memory.rs emits can be run item by item by the machine's loop
  (`Runnable`, MemProofsRun.lean): no instruction of `acquire_block`, `store`, `load`, `erase_block`,
  `share_block_n` uses its own code address (`PcFree`: the only jumps are `BEQ` and `JAL X0`), for ALL
  arguments and whatever the label counter — a syntactic invariant of the generators, proved by
  following their structure (`GenP`: a property of every successful run of a generator).
  With the fresh-label bookkeeping (`LabsIn`: the labels are `lab<n>`, never `cleanup`) this discharges
  the `Runnable` hypothesis of the bridge `run_fwd_block` for the memory contracts.
-/
import Scc.RV.MemProofsLoad
import Scc.RV.MemProofsRun

set_option linter.unusedSimpArgs false
set_option linter.unusedVariables false

namespace Scc.RV

open Scc.AxCut
open Scc.Backend (GenM TempNum freshLabel)

/-! ## properties of all successful runs of a generator -/

/-- every successful run of `m` yields a value with property `P` -/
def GenP {α : Type} (P : α → Prop) (m : GenM α) : Prop :=
  ∀ k a k', m.run k = .ok (a, k') → P a

theorem genm_bind_ok {α β : Type} {m : GenM α} {f : α → GenM β} {k : Nat} {r : β × Nat}
    (h : (m >>= f).run k = .ok r) : ∃ a k1, m.run k = .ok (a, k1) ∧ (f a).run k1 = .ok r := by
  rw [StateT.run_bind] at h
  cases hm : m.run k with
  | error e => rw [hm] at h; cases h
  | ok p =>
    obtain ⟨a, k1⟩ := p
    rw [hm] at h
    exact ⟨a, k1, rfl, h⟩

theorem GenP.pure {α : Type} {P : α → Prop} {a : α} (h : P a) : GenP P (pure a : GenM α) := by
  intro k b k' hr
  cases hr
  exact h

theorem GenP.triv {α : Type} (m : GenM α) : GenP (fun _ => True) m := fun _ _ _ _ => trivial

theorem GenP.bind {α β : Type} {P : α → Prop} {Q : β → Prop} {m : GenM α} {f : α → GenM β}
    (hm : GenP P m) (hf : ∀ a, P a → GenP Q (f a)) : GenP Q (m >>= f) := by
  intro k b k' hr
  obtain ⟨a, k1, h1, h2⟩ := genm_bind_ok hr
  exact hf a (hm k a k1 h1) k1 b k' h2

theorem GenP.throw {α : Type} {P : α → Prop} (e : String) : GenP P (throw e : GenM α) := by
  intro k b k' hr
  cases hr

theorem GenP.of_run {α : Type} {P : α → Prop} {m : GenM α} (g : Nat → α) (n : Nat → Nat)
    (hrun : ∀ k, m.run k = .ok (g k, n k)) (h : ∀ k, P (g k)) : GenP P m := by
  intro k a k' hr
  rw [hrun k] at hr
  cases hr
  exact h k

/-! ## code free of uses of the own code address -/

def MemFree (code : List Code) : Prop := ∀ c ∈ code, PcFree c = true

theorem MemFree.nil : MemFree [] := fun _ h => by simp at h

theorem MemFree.append {a b : List Code} (ha : MemFree a) (hb : MemFree b) : MemFree (a ++ b) :=
  fun c h => by
    rcases List.mem_append.1 h with h | h
    · exact ha c h
    · exact hb c h

theorem MemFree.cons {c : Code} {a : List Code} (hc : PcFree c = true) (ha : MemFree a) : MemFree (c :: a) :=
  fun d h => by
    rcases List.mem_cons.1 h with h | h
    · rw [h]; exact hc
    · exact ha d h

theorem memFree_of_all {l : List Code} (h : l.all PcFree = true) : MemFree l := by
  rw [List.all_eq_true] at h
  exact h

abbrev GenFree (m : GenM (List Code)) : Prop := GenP MemFree m

/-! ## the combinators, erase_block, share_block_n, acquire_block -/

theorem memFree_skip {r : Register} {body : List Code} {l : String} (hb : MemFree body) :
    MemFree ([.BEQ r ZERO l] ++ body ++ [.LAB l]) :=
  ((memFree_of_all rfl).append hb).append (memFree_of_all rfl)

theorem memFree_ite {r : Register} {thenB elseB : List Code} {lt le : String} (ht : MemFree thenB)
    (he : MemFree elseB) :
    MemFree ([.BEQ r ZERO lt] ++ elseB ++ [.JAL ZERO le, .LAB lt] ++ thenB ++ [.LAB le]) :=
  (((((memFree_of_all rfl).append he).append (memFree_of_all rfl)).append ht).append (memFree_of_all rfl))

theorem skipIfZero_free (r : Register) {body : List Code} (hb : MemFree body) : GenFree (skipIfZero r body) :=
  GenP.of_run _ _ (skipIfZero_run r body) (fun _ => memFree_skip hb)

theorem ifZeroThenElse_free (r : Register) {thenB elseB : List Code} (ht : MemFree thenB) (he : MemFree elseB) :
    GenFree (ifZeroThenElse r thenB elseB) :=
  GenP.of_run _ _ (ifZeroThenElse_run r thenB elseB) (fun _ => memFree_ite ht he)

theorem memFree_eraseBlockCode (r : Register) (l1 l2 l3 : String) : MemFree (eraseBlockCode r l1 l2 l3) :=
  memFree_of_all rfl

theorem eraseBlock_free (r : Register) : GenFree (eraseBlock r) :=
  GenP.of_run _ _ (eraseBlock_run r) (fun _ => memFree_eraseBlockCode r _ _ _)

theorem shareBlockN_free (r : Register) (n : Nat) : GenFree (shareBlockN r n) :=
  GenP.of_run _ _ (shareBlockN_run r n) (fun _ => memFree_of_all rfl)

theorem memFree_eraseFieldCode (blk at' : Register) (i k : Nat) : MemFree (eraseFieldCode blk at' i k) :=
  (memFree_of_all rfl).append (memFree_eraseBlockCode _ _ _ _)

theorem acquireBlock_free (nb at' : Register) : GenFree (acquireBlock nb at') := by
  refine GenP.of_run _ _ (acquireBlock_run nb at') (fun k => ?_)
  have hE : MemFree (eraseFieldCode HEAP at' 0 k ++ (eraseFieldCode HEAP at' 1 (k + 3) ++
      (eraseFieldCode HEAP at' 2 (k + 6) ++ []))) :=
    (memFree_eraseFieldCode _ _ _ _).append ((memFree_eraseFieldCode _ _ _ _).append
      ((memFree_eraseFieldCode _ _ _ _).append MemFree.nil))
  refine (memFree_of_all rfl).append ?_
  refine memFree_ite ?_ (memFree_of_all rfl)
  refine (memFree_of_all rfl).append ?_
  unfold acquireInner
  exact memFree_ite (memFree_of_all rfl) ((memFree_of_all rfl).append hE)

/-! ## store -/

theorem storeField_free (num : TempNum) (ctx : Ctx) (blk : Register) (off : Nat) :
    GenP (fun c => PcFree c = true) (storeField num ctx blk off) := by
  unfold storeField
  exact GenP.bind (GenP.triv _) (fun t _ => GenP.pure rfl)

theorem memFree_storeZero (blk : Register) (off : Nat) : MemFree (storeZero blk off) := memFree_of_all rfl

theorem memFree_storeZeros (n : Nat) (blk : Register) : MemFree (storeZeros n blk) := by
  intro c hc
  simp only [storeZeros, List.mem_flatMap] at hc
  obtain ⟨off, _, h⟩ := hc
  exact memFree_storeZero blk off c h

theorem storeValue_free (b : Binding) (ctx : Ctx) (blk : Register) (off : Nat) :
    GenFree (storeValue b ctx blk off) := by
  unfold storeValue
  refine GenP.bind (storeField_free _ _ _ _) (fun c1 h1 => ?_)
  split
  · exact GenP.pure (MemFree.cons h1 (memFree_storeZero _ _))
  · exact GenP.bind (storeField_free _ _ _ _) (fun c2 h2 => GenP.pure (MemFree.cons h1 (MemFree.cons h2 MemFree.nil)))

theorem pred1_triv (ff : Nat) : GenP (fun _ => True) (pred1 ff) := GenP.triv _

theorem storeValuesLoop_free (rem : Ctx) (blk : Register) : ∀ (bsRev : List Binding) (ff : Nat),
    GenP (fun r : List Code × Nat => MemFree r.1) (storeValuesLoop rem blk bsRev ff)
  | [], ff => GenP.pure MemFree.nil
  | b :: rest, ff => by
    unfold storeValuesLoop
    refine GenP.bind (GenP.triv _) (fun off _ => ?_)
    refine GenP.bind (storeValue_free _ _ _ _) (fun c hc => ?_)
    refine GenP.bind (storeValuesLoop_free rem blk rest off) (fun r hr => ?_)
    exact GenP.pure (hc.append hr)

theorem storeValues_free (toStore rem : Ctx) (blk : Register) (ff : Nat) :
    GenFree (storeValues toStore rem blk ff) := by
  unfold storeValues
  refine GenP.bind (storeValuesLoop_free rem blk _ ff) (fun r hr => ?_)
  refine GenP.pure ((((memFree_of_all rfl).append hr).append ?_).append (memFree_storeZeros _ _))
  split
  · exact memFree_of_all rfl
  · exact MemFree.nil

theorem storeFields_free : ∀ (n : Nat) (toStore rem : Ctx) (pos : BlockPosition), toStore.length < n →
    GenFree (storeFields toStore rem pos) := by
  intro n
  induction n with
  | zero => intro toStore _ _ hf; exact absurd hf (Nat.not_lt_zero _)
  | succ n ih =>
    intro toStore rem pos hfuel
    rw [storeFields]
    by_cases hne : toStore = []
    · subst hne
      simp only [List.isEmpty_nil, dite_true]
      split
      · exact GenP.bind (GenP.triv _) (fun t _ => GenP.pure (memFree_of_all rfl))
      · exact GenP.pure MemFree.nil
    · have hie : toStore.isEmpty = false := by cases toStore <;> simp_all
      have hpos : 0 < toStore.length := List.length_pos_iff.mpr hne
      have hrlt : restLength toStore.length pos < toStore.length := restLength_lt _ _ hpos
      simp only [hie, Bool.false_eq_true, dite_false]
      have hrec : GenFree (storeFields (toStore.take (restLength toStore.length pos)) rem .other) :=
        ih _ rem .other (by simp [List.length_take]; omega)
      have tail : ∀ c1 : List Code, MemFree c1 → GenFree (do
          let c3 ← storeValues (toStore.drop (restLength toStore.length pos))
            (rem ++ toStore.take (restLength toStore.length pos)) HEAP (fieldsPerBlock - pos.toNat)
          let nb ← freshTemporary .fst (rem ++ toStore.take (restLength toStore.length pos))
          let at' ← freshTemporary .snd (rem ++ toStore.take (restLength toStore.length pos))
          let c4 ← acquireBlock nb at'
          let c5 ← storeFields (toStore.take (restLength toStore.length pos)) rem .other
          pure (c1 ++ (if pos == .last then [Code.COMMENT "#allocate memory"] else []) ++ c3 ++
            [.COMMENT "##acquire free block from heap register"] ++ c4 ++ c5)) := by
        intro c1 h1
        refine GenP.bind (storeValues_free _ _ _ _) (fun c3 h3 => ?_)
        refine GenP.bind (GenP.triv _) (fun nb _ => ?_)
        refine GenP.bind (GenP.triv _) (fun at' _ => ?_)
        refine GenP.bind (acquireBlock_free nb at') (fun c4 h4 => ?_)
        refine GenP.bind hrec (fun c5 h5 => ?_)
        refine GenP.pure (((((h1.append ?_).append h3).append (memFree_of_all rfl)).append h4).append h5)
        split
        · exact memFree_of_all rfl
        · exact MemFree.nil
      split
      · refine GenP.bind (storeField_free _ _ _ _) (fun c hc => ?_)
        refine GenP.bind (GenP.pure (P := MemFree) (MemFree.cons rfl (MemFree.cons hc MemFree.nil)))
          (fun c1 h1 => tail c1 h1)
      · exact GenP.bind (GenP.pure (P := MemFree) MemFree.nil) (fun c1 h1 => tail c1 h1)

/-- `store` emits no instruction that uses its own code address -/
theorem store_free (toStore rem : Ctx) : GenFree (store toStore rem) :=
  storeFields_free (toStore.length + 1) toStore rem .last (Nat.lt_succ_self _)

/-! ## load -/

theorem loadField_free (num : TempNum) (ctx : Ctx) (mb : Register) (off : Nat) :
    GenP (fun c => PcFree c = true) (loadField num ctx mb off) := by
  unfold loadField
  exact GenP.bind (GenP.triv _) (fun t _ => GenP.pure rfl)

theorem loadValue_free (b : Binding) (ctx : Ctx) (mb : Register) (off : Nat) (mode : LoadMode) :
    GenFree (loadValue b ctx mb off mode) := by
  unfold loadValue
  refine GenP.bind (loadField_free _ _ _ _) (fun c1 h1 => ?_)
  split
  · refine GenP.bind (loadField_free _ _ _ _) (fun c2 h2 => ?_)
    have h12 : MemFree [c1, c2] := MemFree.cons h1 (MemFree.cons h2 MemFree.nil)
    split
    · refine GenP.bind (GenP.triv _) (fun t _ => ?_)
      exact GenP.bind (shareBlockN_free t 1) (fun c3 h3 => GenP.pure (h12.append h3))
    · exact GenP.pure h12
  · exact GenP.pure (MemFree.cons h1 MemFree.nil)

theorem loadValuesLoop_free (existing : Ctx) (mb : Register) (mode : LoadMode) :
    ∀ (bsRev : List Binding) (ff : Nat), GenFree (loadValuesLoop existing mb mode bsRev ff)
  | [], ff => GenP.pure MemFree.nil
  | b :: rest, ff => by
    unfold loadValuesLoop
    refine GenP.bind (GenP.triv _) (fun off _ => ?_)
    refine GenP.bind (loadValue_free _ _ _ _ _) (fun c hc => ?_)
    refine GenP.bind (loadValuesLoop_free existing mb mode rest off) (fun r hr => ?_)
    exact GenP.pure (hc.append hr)

theorem loadValues_free (toLoad existing : Ctx) (mb : Register) (ff : Nat) (mode : LoadMode) :
    GenFree (loadValues toLoad existing mb ff mode) := by
  unfold loadValues
  exact GenP.bind (loadValuesLoop_free _ _ _ _ _) (fun cs hcs => GenP.pure (MemFree.cons rfl hcs))

theorem loadLink_free (mb : Register) (ctxAll : Ctx) (pos : BlockPosition) : GenFree (loadLink mb ctxAll pos) := by
  unfold loadLink
  split
  · exact GenP.bind (loadField_free _ _ _ _) (fun c hc => GenP.pure (MemFree.cons rfl (MemFree.cons hc MemFree.nil)))
  · exact GenP.pure MemFree.nil

theorem loadFieldsBlock_free (mb : Register) (toLoadNext ctxAll ctxRest : Ctx) (pos : BlockPosition)
    (mode : LoadMode) : GenFree (loadFieldsBlock mb toLoadNext ctxAll ctxRest pos mode) := by
  unfold loadFieldsBlock
  refine GenP.bind (loadLink_free _ _ _) (fun c3 h3 => ?_)
  refine GenP.bind (loadValues_free _ _ _ _ _) (fun c4 h4 => ?_)
  refine GenP.pure ((MemFree.append ?_ h3).append h4)
  split
  · exact memFree_of_all rfl
  · exact MemFree.nil

theorem loadFields_free : ∀ (n : Nat) (toLoad existing : Ctx) (pos : BlockPosition) (mode : LoadMode),
    toLoad.length < n → GenFree (loadFields toLoad existing pos mode) := by
  intro n
  induction n with
  | zero => intro toLoad _ _ _ hf; exact absurd hf (Nat.not_lt_zero _)
  | succ n ih =>
    intro toLoad existing pos mode hfuel
    by_cases hne : toLoad = []
    · subst hne
      rw [loadFields_nil]
      exact GenP.pure MemFree.nil
    · have hpos : 0 < toLoad.length := List.length_pos_iff.mpr hne
      have hrlt : restLength toLoad.length pos < toLoad.length := restLength_lt _ _ hpos
      rw [loadFields_cons _ _ hne]
      refine GenP.bind (ih _ existing .other mode (by simp [List.length_take]; omega)) (fun c1 h1 => ?_)
      refine GenP.bind (GenP.triv _) (fun mb _ => ?_)
      exact GenP.bind (loadFieldsBlock_free _ _ _ _ _ _) (fun cb hb => GenP.pure (h1.append hb))

/-- `load` emits no instruction that uses its own code address -/
theorem load_free (toLoad existing : Ctx) : GenFree (load toLoad existing) := by
  unfold load
  split
  · exact GenP.pure MemFree.nil
  · refine GenP.bind (GenP.triv _) (fun mb _ => ?_)
    refine GenP.bind (loadFields_free (toLoad.length + 1) _ _ _ _ (Nat.lt_succ_self _)) (fun c1 h1 => ?_)
    refine GenP.bind (loadFields_free (toLoad.length + 1) _ _ _ _ (Nat.lt_succ_self _)) (fun c2 h2 => ?_)
    refine GenP.bind (ifZeroThenElse_free TEMP (MemFree.cons rfl h1) ((memFree_of_all rfl).append h2))
      (fun c3 h3 => ?_)
    exact GenP.pure (((memFree_of_all rfl).append (memFree_of_all rfl)).append h3)

/-! ## from `MemFree` and `LabsIn` to `Runnable` -/

theorem labName_ne_cleanup (n : Nat) : labName n ≠ "cleanup" := by
  intro h
  have h2 := congrArg String.toList h
  unfold labName at h2
  simp only [String.toList_append] at h2
  have h3 : ("lab" : String).toList = ['l', 'a', 'b'] := rfl
  have h4 : ("cleanup" : String).toList = ['c', 'l', 'e', 'a', 'n', 'u', 'p'] := rfl
  rw [h3, h4] at h2
  simp at h2

theorem mem_stripComments {c : Code} {codes : List Code} (h : c ∈ stripComments codes) :
    c ∈ codes ∧ c.isComment = false := by
  simp only [stripComments, List.mem_filter, Bool.not_eq_true'] at h
  exact h

/-- code of memory.rs — free of uses of the own address, its labels fresh — can be run item by item -/
theorem runnable_strip {codes : List Code} {lo hi : Nat} (hf : MemFree codes) (hl : LabsIn codes lo hi) :
    Runnable (stripComments codes) := by
  refine ⟨fun c hc => (mem_stripComments hc).2, fun c hc => hf c (mem_stripComments hc).1, fun hc => ?_⟩
  obtain ⟨n, e, _, _⟩ := hl _ (mem_stripComments hc).1
  exact labName_ne_cleanup n e.symm

/-- a block of memory.rs that `execFwd` runs to its end is run by the machine's loop -/
theorem mem_block_runs (p : Program) (cfg : MonCfg) {codes : List Code} {lo hi : Nat} {st s' : State}
    (hf : MemFree codes) (hl : LabsIn codes lo hi) (hb : BlockAt p st.pc (stripComments codes))
    (hx : execFwd cfg p.labelAddr codes st = .ok (s', .fall)) :
    ∃ n steps', ∀ fuel, runLoop p cfg (fuel + n) st =
      runLoop p cfg fuel (setPS s' (st.pc + (stripComments codes).length) steps') :=
  run_fwd_block p cfg codes st s' hb (runnable_strip hf hl) hx

end Scc.RV
