/-
  Scc.RV.ConcStep3 — THE THREE-WAY STEP FOR ALL STATEMENT FORMS (`Scc.RV.Ref.step3`, Scc/RV/RefRun.lean) with the
  bookkeeping of C10 and of the progress argument (the port of `step3P`, Scc/X86/ConcKStep.lean):
  * `FrPk`: the allocation frontier moves only when both free lists are exhausted afterwards;
  * the room a step needs and the distance the frontier may move are those of the CURRENT statement
    (`allocArity`, Scc/X86/ConcKStep.lean: the number of fields of a `let`, the number of variables of the
    environment of a `create`, 0 for every other statement) instead of the uniform 14 blocks of `step3`;
  * a `call` and an `invoke` (`IsJump`) make the machine consume at least one unit of fuel (`ReachP`,
    Scc/RV/ConcJump.lean).
  `allocArity`, `AllocLe`, `progMaxAlloc`, the hereditary predicates (`ValAll`, `Hered`, `hered_step`: bounds on
  statements have to be kept for the clauses of every closure inside every value of the environment, because
  `invoke` continues with a statement taken out of a closure value) are those of Scc/X86/ConcKStep.lean — they
  speak about AxCut statements and the positional machine only.
-/
import Scc.RV.ConcPeak
import Scc.RV.ConcJump
import Scc.X86.ConcKStep

set_option linter.unusedVariables false
set_option linter.unusedSimpArgs false

namespace Scc.RV.Ref

open Scc Scc.AxCut Scc.AxCut.Pos Scc.Backend Scc.Backend.Abs Scc.Backend.Sim Scc.Backend.Subst Scc.RV
open Scc.Backend.Sim2 Scc.Backend.Keys
open Scc.Props.C14Generic (LabelSafe)
open Scc.Props.C06Generic (outAfter WithinCapacity Reachable EnoughHeap CodeFits fits_of_codeFits
  kinds_of_fieldsTyped chiTys_fst fresh_of_nodup_snoc take_of_append clausesMatch_length)
open Scc.Heap (HState InvS InvW)
open Scc.Heap.Refine (HRef FrLe Room FrPk)
open Scc.X86.Ref.K (allocArity IsJump)

/-- the three-way simulation claim for one step of the positional machine, with the bookkeeping of C10 -/
def StepSim3P (mc : MonCfg) (pr : RV.Program) (ks : List Code) (P : Abs.Program) (hooks : Bool)
    (prog : AxCut.Prog) (st : Pos.State) (cfg : Config) (hs : HState) (X : State) : Prop :=
  match Pos.step prog st with
  | .next st' o =>
    WithinCapacity st'.ctx → st'.ctx.length ≤ 14 →
    ∃ cfg' hs' X', Reach pr mc X X' ∧ (IsJump st.stmt → ReachP pr mc X X') ∧ cfg'.next ≤ cfg.next + 1 ∧
      FrLe hs hs' (64 * allocArity st.stmt) ∧ FrPk hs hs' ∧ Rel3 mc ks P hooks prog st' cfg' hs' X'
  | .done v => ∃ XL, Reach pr mc X XL ∧ ∀ fuel, (runLoop pr mc (fuel + 1) XL).res = .done v
  | .stuck _ => True

section Run3P

variable {mc : MonCfg} {pr : RV.Program} {ks : List Code} (L : Loaded pr ks)
  (hndL : (labs ks).Nodup) (hheap : mc.heap = false) {ic : Nat} (hclean : labIdx ks "cleanup" = some ic)
  (hicl : ic + 1 = ks.length)
  (hfitX : codeBase + 4 * icount ks < 2 ^ 64)

include L hndL hheap hclean hicl hfitX in
/-- THE THREE-WAY STEP with the bookkeeping of C10: Theorem A's `TheoremA_full` with the RV64 machine carried along
(all statements; a `print` has no RV64 code, so it cannot be the current statement) -/
theorem step3P (hooks : Bool) (prog : AxCut.Prog) (c : Nat) (code : List MockOp) (nargs c' : Nat)
    (hcomp : (compile mockSym hooks prog).run c = .ok ((code, nargs), c'))
    (hsafe : LabelSafe prog = true) (htp : LinTypedProg prog) (hfit : CodeFits code)
    (DX : KDefsAt ks hooks prog)
    (st : Pos.State) (cfg : Config) (hs : HState) (X : State)
    (R : Rel3 mc ks (Program.ofOps code) hooks prog st cfg hs X)
    (T : Pos.StateTyped prog st) (hheapA : EnoughHeap cfg)
    (hroom : Room hs (64 * allocArity st.stmt + 64)) :
    StepSim3P mc pr ks (Program.ofOps code) hooks prog st cfg hs X := by
  have hnodup := Scc.Props.C14Generic.labels_unique hooks prog c code nargs c' hcomp hsafe
  have D := defsAt_of_compile hooks prog c code nargs c' hcomp hnodup
  have hfits := fits_of_codeFits hfit
  have hcl : ∀ t, t + 1 < ks.length → ks[t]? ≠ some (Code.LAB "cleanup") := by
    intro t ht e
    have := labIdx_of_nodup hndL e
    rw [hclean] at this
    injection this with this
    omega
  obtain ⟨Γ, ρ, s⟩ := st
  obtain ⟨Γ', ι, cw, τ, hk, RX, X3h, CVh, kx, kx', items, hrunX, hatX⟩ := R
  obtain ⟨hty, henv⟩ := T
  simp only at hk RX hty henv CVh
  have hlenk : Γ'.length = Γ.length := keys_length hk
  have hlenρ : ρ.length = Γ'.length := RX.len
  unfold StepSim3P
  have hcapX3 := X3h.cap
  cases hty with
  | lit hn hfr hnext =>
    rename_i x n next fv
    simp only [Pos.step]
    intro hcap hcap2
    obtain ⟨cfg', X', h1, hm, h2, h3, hF, h4, h5, h6⟩ := lit_x3 L hndL hheap RX (mem_ids_keys hk hfr)
      (by simp [WithinCapacity] at hcap; omega) X3h hrunX hatX
    exact ⟨cfg', hs, X', hm, (fun hj => False.elim hj), by omega, FrLe.refl' hs, FrPk.refl hs,
      ⟨Γ' ++ [⟨x, .ext, .i64⟩], ι, cw, τ, keys_append hk rfl, h4, h5, cvals_frame_int CVh hlenρ hF rfl h4, h6⟩⟩
  | op hn ha hb hfr hnext =>
    rename_i x a o b next fv
    simp only [Pos.step]
    cases hra : readInt Γ ρ a with
    | error e => simp
    | ok va =>
      cases hrb : readInt Γ ρ b with
      | error e => simp
      | ok vb =>
        cases hv : Pos.evalOp o va vb with
        | error e => simp [hv]
        | ok v =>
          simp only [hv]
          intro hcap hcap2
          obtain ⟨cfg', X', h1, hm, h2, h3, hF, h4, h5, h6⟩ := op_x3 L hndL hheap RX (mem_ids_keys hk hfr)
            (by simp [WithinCapacity] at hcap; omega)
            (by rw [readInt_keys hk]; exact hra) (by rw [readInt_keys hk]; exact hrb) hv X3h hrunX hatX
          exact ⟨cfg', hs, X', hm, (fun hj => False.elim hj), by omega, FrLe.refl' hs, FrPk.refl hs,
            ⟨Γ' ++ [⟨x, .ext, .i64⟩], ι, cw, τ, keys_append hk rfl, h4, h5,
              cvals_frame_int CVh hlenρ hF rfl h4, h6⟩⟩
  | print hn ha hnext =>
    -- the RV64 backend has no code for `print`
    exfalso
    simp only [codeStatementR, run_bind_ok, run_pure_ok] at hrunX
    obtain ⟨t, k1, _, c1, k2, h1, _⟩ := hrunX
    cases h1
  | ifc hn ha hb ht he =>
    rename_i srt a b t e
    simp only [Pos.step]
    cases hra : readInt Γ ρ a with
    | error err => simp
    | ok va =>
      cases b with
      | none =>
        simp only
        intro _ _
        obtain ⟨cfg', X', h1, hm, h2, h3, hF, h4, h5, h6⟩ := ifc_x3 L hndL hheap (b := none) (vb := 0) RX
          (by rw [readInt_keys hk]; exact hra) rfl X3h hrunX hatX
        exact ⟨cfg', hs, X', hm, (fun hj => False.elim hj), by omega, FrLe.refl' hs, FrPk.refl hs, ⟨Γ', ι, cw, τ, hk, h4, h5, cvals_frame CVh hF, h6⟩⟩
      | some b' =>
        simp only
        cases hrb : readInt Γ ρ b' with
        | error err => simp
        | ok vb =>
          simp only
          intro _ _
          obtain ⟨cfg', X', h1, hm, h2, h3, hF, h4, h5, h6⟩ := ifc_x3 L hndL hheap (b := some b') (vb := vb) RX
            (by rw [readInt_keys hk]; exact hra) (by simp only; rw [readInt_keys hk]; exact hrb)
            X3h hrunX hatX
          exact ⟨cfg', hs, X', hm, (fun hj => False.elim hj), by omega, FrLe.refl' hs, FrPk.refl hs, ⟨Γ', ι, cw, τ, hk, h4, h5, cvals_frame CVh hF, h6⟩⟩
  | exit hn ha =>
    rename_i a
    simp only [Pos.step]
    cases hra : readInt Γ ρ a with
    | error e => simp
    | ok v =>
      simp only
      exact exit_x3 L hndL hheap RX (by rw [readInt_keys hk]; exact hra) X3h hrunX hatX hclean
  | call hn hf hc =>
    rename_i l args params
    simp only [Pos.step]
    cases hd : Pos.findDef prog.defs l with
    | none => simp
    | some d =>
      simp only
      by_cases hsh : Pos.chiTys Γ ≠ Pos.chiTys d.ctx ∨ ρ.length ≠ Γ.length
      · simp [hsh]
      · simp only [hsh, if_false]
        intro _ _
        have hchi : Pos.chiTys Γ = Pos.chiTys d.ctx := by
          by_cases h : Pos.chiTys Γ = Pos.chiTys d.ctx
          · exact h
          · exact absurd (Or.inl h) hsh
        obtain ⟨cfg', X', h1, hmP, h2, h3, hF, h4, h5, h6⟩ := call_x3Q L hndL hheap RX D DX hd
          (by rw [keys_chiTys hk]; exact hchi) X3h hrunX hatX
        have hkeys : Γ'.map (·.chi) = d.ctx.map (·.chi) := by
          have := congrArg (List.map Prod.fst) ((keys_chiTys hk).trans hchi)
          simp only [Pos.chiTys, List.map_map] at this
          exact this
        exact ⟨cfg', hs, X', hmP.reach, (fun _ => hmP), by omega, FrLe.refl' hs, FrPk.refl hs,
          ⟨d.ctx, ι, cw, τ, rfl, h4, h5, (cvals_frame CVh hF).chi hkeys, h6⟩⟩
  | subst hn hhas hnew hnext =>
    rename_i pairs next
    simp only [Pos.step]
    cases hb : Pos.step.build Γ ρ pairs with
    | error e => simp
    | ok vs =>
      simp only
      intro hcap hcap2
      have hnew' : (pairs.map (·.1.var.id)).Nodup := by
        have : ((pairs.map (·.1)).map (·.var.id)).Nodup := hnew
        rw [List.map_map] at this
        exact this
      have hold : ∀ p ∈ pairs, ∃ b ∈ Γ', b.var.id = p.2.id ∧ b.chi = p.1.chi := by
        intro p hp
        obtain ⟨b, hb', hid, hchi, _⟩ := hasVar_keys hk (hhas p hp)
        exact ⟨b, hb', hid, hchi⟩
      have hpl : pairs.length ≤ 14 := by simpa using hcap2
      obtain ⟨k, cfg', X', hs', h1, hm, hfr, h2, h3, h4, h5, hcv, h6⟩ := subst_x3 L hndL hheap RX
        (nodup_keys hk hn) hnew' hold
        (by simpa [WithinCapacity] using hcap) (by rw [build_keys hk]; exact hb) X3h hrunX hatX hpl CVh
      exact ⟨cfg', hs', X', hm, (fun hj => False.elim hj), by omega, FrLe.mono' hfr (Nat.zero_le _), FrPk.of_frLe0 hfr,
        ⟨pairs.map (·.1), ι, _, τ, rfl, h4, h5, hcv, h6⟩⟩
  | @letS _ Γ0 Γa x ty tag args sig next fv hn hsplit hkeys hs hs' hfr hnext =>
    have hlenA : Γa.length = args.length := keys_length hkeys
    have hsplit' : Γ = Γ0 ++ Γa := hsplit
    have hkA : args.length ≤ Γ.length := by rw [hsplit']; simp; omega
    simp only [Pos.step]
    by_cases hsh : Γ.length < args.length ∨ ρ.length ≠ Γ.length
    · rw [if_pos hsh]; trivial
    · rw [if_neg hsh]
      cases hpos : Pos.tagPosition prog.types ty tag with
      | error e => trivial
      | ok pos =>
        simp only
        intro hcap hcap2
        have hn0 : Γ.length - args.length = Γ0.length := by rw [hsplit']; simp; omega
        have htake : Γ.take (Γ.length - args.length) = Γ0 := by
          rw [← hlenA]; exact take_of_append hsplit'
        have hkt : Ctx.keys (Γ'.take (Γ'.length - args.length)) = Γ0.keys := by
          rw [hlenk, keys_take hk, htake]
        have hargs14 : args.length ≤ 14 := by omega
        have hcapL : 2 * (Γ'.length - args.length + 1) + 2 < Mock.T_TEMP := by
          simp only [WithinCapacity, htake, List.length_append, List.length_singleton] at hcap
          rw [hlenk, hn0]; exact hcap
        obtain ⟨cfg', X', hs', ι', h1, hm, hfr', hpk', h2, h3, h4, h5, h6⟩ := let_x3P L hndL hheap RX
          (by rw [hlenk]; exact hkA) (mem_ids_keys hkt hfr) hpos hcapL hheapA X3h hrunX hatX
          hroom
        have hcv := let_cv RX CVh (by rw [hlenk]; exact hkA) (mem_ids_keys hkt hfr) hpos hcapL hheapA h1
        refine ⟨cfg', hs', X', hm, (fun hj => False.elim hj), h3, hfr', hpk',
          ⟨_, ι', cw, _, ?_, by rw [hlenk] at h4; exact h4, by rw [hlenk] at h5; exact h5,
            by rw [hlenk] at hcv; exact hcv, by rw [hlenk] at h6; exact h6⟩⟩
        show Ctx.keys (Γ'.take (Γ.length - args.length) ++ [_]) =
          Ctx.keys (Γ.take (Γ.length - args.length) ++ [_])
        rw [htake, ← hlenk]
        exact keys_append hkt rfl
  | @create _ Γn Γe Γc x ty clauses next fc fn d hn hsplit hkeys hd hm hcl' hfr hnext =>
    have hlenE : Γe.length = Γc.length := keys_length hkeys
    have hsplit' : Γ = Γn ++ Γe := hsplit
    have hkA : Γc.length ≤ Γ.length := by rw [hsplit']; simp; omega
    simp only [Pos.step]
    by_cases hsh : Γ.length < Γc.length ∨ ρ.length ≠ Γ.length
    · rw [if_pos hsh]; trivial
    · rw [if_neg hsh]
      simp only
      intro hcap hcap2
      have hn0 : Γ.length - Γc.length = Γn.length := by rw [hsplit']; simp; omega
      have htake : Γ.take (Γ.length - Γc.length) = Γn := by
        rw [← hlenE]; exact take_of_append hsplit'
      have hdrop : Γ.drop (Γ.length - Γc.length) = Γe := by
        rw [hn0, hsplit']; simp
      have hkt : Ctx.keys (Γ'.take (Γ'.length - Γc.length)) = Γn.keys := by
        rw [hlenk, keys_take hk, htake]
      have hkd : Ctx.keys (Γ'.drop (Γ'.length - Γc.length)) = Γc.keys := by
        rw [hlenk, keys_drop hk, hdrop]; exact hkeys
      have hc14 : Γc.length ≤ 14 := by omega
      have hcapL : 2 * (Γ'.length - Γc.length + 1) + 2 < Mock.T_TEMP := by
        simp only [WithinCapacity, htake, List.length_append, List.length_singleton] at hcap
        rw [hlenk, hn0]; exact hcap
      obtain ⟨cfg', X', hs', ι', m, h1, hmr, hfr', hpk', h2, h3, h4, hK, h5, h6⟩ := create_x3P L hndL hheap RX
        (by rw [hlenk]; exact hkA) hkd (mem_ids_keys hkt hfr) hcapL hheapA X3h hrunX hatX
        hroom
      have hcv := create_cv RX CVh (by rw [hlenk]; exact hkA) hkd (mem_ids_keys hkt hfr) hcapL hheapA hK h1
      refine ⟨cfg', hs', X', hmr, (fun hj => False.elim hj), h3, hfr', hpk',
        ⟨_, ι', _, _, ?_, by rw [hlenk] at h4; exact h4, by rw [hlenk] at h5; exact h5,
          by rw [hlenk] at hcv; exact hcv, by rw [hlenk] at h6; exact h6⟩⟩
      show Ctx.keys (Γ'.take (Γ.length - Γc.length) ++ [_]) =
        Ctx.keys (Γ.take (Γ.length - Γc.length) ++ [_])
      rw [htake, ← hlenk]
      exact keys_append hkt rfl
  | @switch _ Γ0 b x ty cs fv d hn hsplit hb hd hm hcl' =>
    subst hsplit
    obtain ⟨ρ', v, rfl, hρ', hv⟩ := Pos.env_last henv
    have hbid : b.var.id = x.id := congrArg (·.1) hb
    have hbchi : b.chi = .prd := congrArg (·.2.1) hb
    have hbty : b.ty = ty := congrArg (·.2.2) hb
    rw [hbchi, hbty] at hv
    have hlen : (ρ' ++ [v]).length = (Γ0 ++ [b]).length := by
      rw [henv.length_eq, Pos.chiTys_length]
    have hcnd : ¬ (b.var.id ≠ x.id ∨ (ρ' ++ [v]).length ≠ (Γ0 ++ [b]).length) := by
      simp [hbid, hlen]
    cases hv with
    | obj hd' hx hf =>
      rename_i d' tag xt fields
      have := Pos.lookupTypeDecl_unique hd hd'
      subst this
      obtain ⟨cl, hc1, hc2, hc3⟩ := Pos.nthClause_ok d.xtors cs tag xt hm hx
      have hfl : fields.length = cl.ctx.length := by
        rw [hf.length_eq, hc2, Pos.chiTys_length]
      simp only [Pos.step, List.getLast?_concat, if_neg hcnd, hc1, hfl, ne_eq, not_true_eq_false,
        if_false, List.dropLast_concat]
      intro hcap hcap2
      obtain ⟨Γ0', b', rfl, hk0, hkb⟩ := keys_snoc hk
      have hb'id : b'.var.id = x.id := by
        have := congrArg (·.1) hkb
        simp only [Binding.key] at this
        rw [this]; exact hbid
      have hkinds : fields.map Sim2.kindOf = Mock.kindsOf cl.ctx := by
        rw [kinds_of_fieldsTyped hf, hc2, chiTys_fst]
      have hfr : x.id ∉ Γ0.ids := by rw [← hbid]; exact fresh_of_nodup_snoc hn
      obtain ⟨k, cfg', X', hs', h1, hm, hfr', h2, h3, h4, ⟨r, _, h5, hcv⟩, h6⟩ := switch_x3 L hndL hheap hfitX RX
        hfits hb'id (mem_ids_keys hk0 hfr) hc1 hkinds
        (by
          simp only [WithinCapacity, List.length_append] at hcap
          rw [keys_length hk0]; exact hcap) X3h hrunX hatX
        (by
          simp only [List.length_append] at hcap2
          rw [keys_length hk0]; exact hcap2) CVh
      exact ⟨cfg', hs', X', hm, (fun hj => False.elim hj), by omega, FrLe.mono' hfr' (Nat.zero_le _), FrPk.of_frLe0 hfr',
        ⟨Γ0' ++ cl.ctx, ι, _, τ, keys_append hk0 rfl, h4, h5, hcv, h6⟩⟩
  | @invoke _ Γa b x tag ty args sig hn hsplit hb hs hs' =>
    subst hsplit
    obtain ⟨ρ', v, rfl, hρ', hv⟩ := Pos.env_last henv
    have hbid : b.var.id = x.id := congrArg (·.1) hb
    have hbchi : b.chi = .cns := congrArg (·.2.1) hb
    have hbty : b.ty = ty := congrArg (·.2.2) hb
    rw [hbchi, hbty] at hv
    have hlen : (ρ' ++ [v]).length = (Γa ++ [b]).length := by
      rw [henv.length_eq, Pos.chiTys_length]
    have hcnd : ¬ (b.var.id ≠ x.id ∨ (ρ' ++ [v]).length ≠ (Γa ++ [b]).length) := by
      simp [hbid, hlen]
    obtain ⟨d, xt, i, hd, hx, hxs, htp'⟩ := Pos.tagPosition_ok hs
    cases hv with
    | clo hd' hm hf hcl' =>
      rename_i d' Γc env cs
      have := Pos.lookupTypeDecl_unique hd hd'
      subst this
      obtain ⟨cl, hc1, hc2, hc3⟩ := Pos.nthClause_ok d.xtors cs i xt hm hx
      have hal : (Γa ++ [b]).length - 1 = cl.ctx.length := by
        have : Γa.length = cl.ctx.length := by
          rw [← Pos.chiTys_length Γa, hs', ← hxs, hc2, Pos.chiTys_length]
        simp [this]
      simp only [Pos.step, List.getLast?_concat, if_neg hcnd, htp', hc1, hal, ne_eq, not_true_eq_false,
        if_false, List.dropLast_concat]
      intro hcap hcap2
      obtain ⟨Γa', b', rfl, hk0, hkb⟩ := keys_snoc hk
      have hb'id : b'.var.id = x.id := by
        have := congrArg (·.1) hkb
        simp only [Binding.key] at this
        rw [this]; exact hbid
      have hkinds : env.map Sim2.kindOf = Mock.kindsOf Γc := by
        rw [kinds_of_fieldsTyped hf, chiTys_fst]
      have hfr : x.id ∉ Γa.ids := by rw [← hbid]; exact fresh_of_nodup_snoc hn
      have hargs : Γa'.map (·.chi) = cl.ctx.map (·.chi) := by
        rw [keys_chi hk0]
        have h1 : Ctx.chiTys Γa = Ctx.chiTys cl.ctx := by rw [hs', ← hxs, hc2]
        have := congrArg (List.map (·.1)) h1
        simpa [Ctx.chiTys, Function.comp_def] using this
      have hlenEnv : env.length = Γc.length := by
        have := congrArg List.length hkinds
        simpa [Mock.kindsOf] using this
      obtain ⟨k, cfg', X', hs', envCtx', hke, h1, hmr, hfr', h2, h3, h4, ⟨r, _, h5, hcv⟩, h6⟩ :=
        invoke_x3P L hndL hheap hfitX hcl RX hfits hb'id
          (mem_ids_keys hk0 hfr) htp' hc1
          (fun d0 hd0 => by
            have := Pos.lookupTypeDecl_unique hd hd0
            subst this
            exact clausesMatch_length _ _ hm)
          hargs hkinds
          (by simpa [WithinCapacity] using hcap) X3h hrunX hatX
          (by simpa using hcap2) CVh
      exact ⟨cfg', hs', X', hmr.reach, (fun _ => hmr), by omega, FrLe.mono' hfr' (Nat.zero_le _), FrPk.of_frLe0 hfr',
        ⟨cl.ctx ++ envCtx', ι, _, τ, keys_append rfl hke, h4, h5, hcv, h6⟩⟩

end Run3P

end Scc.RV.Ref
