/-
  Scc.RV.RefRun — THE RUN THEOREM on RV64: the three-way step (`step3`: Theorem A's `TheoremA_full` with the
  RV64 machine carried along), the three-way run (`run3_aux`), the definitions in the routine
  (`kdefsAt_of_compile`), and the composition with the initial state and the loader on parsed lines
  (`programs_lines`).
-/
import Scc.RV.RefInit
import Scc.RV.RefSwitch
import Scc.RV.RefInvoke
import Scc.Props.C06Generic

set_option linter.unusedVariables false
set_option linter.unusedSimpArgs false

namespace Scc.RV.Ref

open Scc Scc.AxCut Scc.AxCut.Pos Scc.Backend Scc.Backend.Abs Scc.Backend.Sim Scc.Backend.Subst Scc.RV
open Scc.Backend.Sim2 Scc.Backend.Keys
open Scc.Props.C14Generic (LabelSafe)
open Scc.Props.C06Generic (outAfter WithinCapacity Reachable EnoughHeap CodeFits fits_of_codeFits
  kinds_of_fieldsTyped chiTys_fst fresh_of_nodup_snoc take_of_append clausesMatch_length)
open Scc.Heap (HState InvS InvW)
open Scc.Heap.Refine (HRef FrLe Room)

theorem FrLe.refl' (s : HState) {δ : Nat} : FrLe s s δ :=
  ⟨rfl, rfl, fun _ _ _ _ _ _ _ _ _ _ J J' => by
    have := (Scc.Heap.InvS.witness_unique J J').2.2; omega⟩

theorem FrLe.mono' {s s' : HState} {a b : Nat} (h : FrLe s s' a) (hab : a ≤ b) : FrLe s s' b :=
  ⟨h.1, h.2.1, fun _ _ _ _ _ _ _ _ _ _ J J' => by have := h.2.2 _ _ _ _ _ _ _ _ _ _ J J'; omega⟩

/-- THE THREE-WAY RELATION at a statement boundary: Theorem A's relation, the representation relation of the
RV64 machine (with the machine words `cw`, `τ` of the closures), the representation of the values with the
machine words of the closures, and the RV64 code of the current statement at the program counter -/
def Rel3 (mc : MonCfg) (ks : List Code) (P : Abs.Program) (hooks : Bool) (prog : AxCut.Prog)
    (st : Pos.State) (cfg : Config) (hs : HState) (X : State) : Prop :=
  ∃ (Γ' : Ctx) (ι : Nat → Nat) (cw : Nat → Word) (τ : Nat → Nat → Word),
    Γ'.keys = st.ctx.keys ∧ RelX P hooks prog ⟨Γ', st.env, st.stmt⟩ cfg ∧
    X3 mc cw τ Γ' cfg hs ι X ∧
    CVals P hooks prog.types (KMethodsAt ks hooks prog.types) cw τ cfg.heap cfg.temps Γ' st.env ∧
    ∃ k k' items, (codeStatementR rvBackend hooks natRen prog.types st.stmt Γ').run k = .ok (items, k') ∧
      KAt ks X.pc items

/-- the three-way simulation claim for one step of the positional machine -/
def StepSim3 (mc : MonCfg) (pr : RV.Program) (ks : List Code) (P : Abs.Program) (hooks : Bool)
    (prog : AxCut.Prog) (st : Pos.State) (cfg : Config) (hs : HState) (X : State) : Prop :=
  match Pos.step prog st with
  | .next st' o =>
    WithinCapacity st'.ctx → st'.ctx.length ≤ 14 →
    ∃ cfg' hs' X', Reach pr mc X X' ∧ cfg'.next ≤ cfg.next + 1 ∧
      FrLe hs hs' (64 * 14) ∧ Rel3 mc ks P hooks prog st' cfg' hs' X'
  | .done v => ∃ XL, Reach pr mc X XL ∧ ∀ fuel, (runLoop pr mc (fuel + 1) XL).res = .done v
  | .stuck _ => True

/-- a context of integers: no closure to represent -/
theorem cvals_of_ints {P : Abs.Program} {hooks : Bool} {types : List TypeDecl} {Q : Word → Ctx → Clauses → Prop}
    {cw : Nat → Word} {τ : Nat → Nat → Word} {h : Heap} {σ : Temps} {Γ : Ctx} {ns : List Word}
    (V : ValsOK2 P hooks types h σ Γ (ns.map .int)) : CVals P hooks types Q cw τ h σ Γ (ns.map .int) := by
  intro i h1 h2
  have := (V i h1 h2).1
  have hg : (ns.map Value.int)[i] = .int (ns[i]'(by simpa using h2)) := by simp
  rw [hg] at this ⊢
  generalize (σ.get (2 * i + 1)).getD 0 = w at this ⊢
  generalize (if (Γ[i].chi == Chi.ext) = true then none else σ.get (2 * i)) = p at this ⊢
  cases this
  exact .int _ _ _

section Run3

variable {mc : MonCfg} {pr : RV.Program} {ks : List Code} (L : Loaded pr ks)
  (hndL : (labs ks).Nodup) (hheap : mc.heap = false) {ic : Nat} (hclean : labIdx ks "cleanup" = some ic)
  (hicl : ic + 1 = ks.length)
  (hfitX : codeBase + 4 * icount ks < 2 ^ 64)

include L hndL hheap hclean hicl hfitX in
/-- THE THREE-WAY STEP: Theorem A's `TheoremA_full` with the RV64 machine carried along (all statements; a
`print` has no RV64 code, so it cannot be the current statement) -/
theorem step3 (hooks : Bool) (prog : AxCut.Prog) (c : Nat) (code : List MockOp) (nargs c' : Nat)
    (hcomp : (compile mockSym hooks prog).run c = .ok ((code, nargs), c'))
    (hsafe : LabelSafe prog = true) (htp : LinTypedProg prog) (hfit : CodeFits code)
    (DX : KDefsAt ks hooks prog)
    (st : Pos.State) (cfg : Config) (hs : HState) (X : State)
    (R : Rel3 mc ks (Program.ofOps code) hooks prog st cfg hs X)
    (T : Pos.StateTyped prog st) (hheapA : EnoughHeap cfg)
    (hroom : Room hs (64 * 15)) :
    StepSim3 mc pr ks (Program.ofOps code) hooks prog st cfg hs X := by
  have hnodup := Scc.Props.C14Generic.labels_unique hooks prog c code nargs c' hcomp hsafe
  have D := defsAt_of_compile hooks prog c code nargs c' hcomp hnodup
  have hfits := fits_of_codeFits hfit
  have hcl : ∀ t, t + 1 < ks.length → ks[t]? ≠ some (Code.LAB "cleanup") := by
    intro t ht e
    have := labIdx_of_nodup hndL e
    rw [hclean] at this
    injection this with this
    omega
  obtain ⟨Γ, ρ, s⟩ := st
  obtain ⟨Γ', ι, cw, τ, hk, RX, X3h, CVh, kx, kx', items, hrunX, hatX⟩ := R
  obtain ⟨hty, henv⟩ := T
  simp only at hk RX hty henv CVh
  have hlenk : Γ'.length = Γ.length := keys_length hk
  have hlenρ : ρ.length = Γ'.length := RX.len
  unfold StepSim3
  have hcapX3 := X3h.cap
  cases hty with
  | lit hn hfr hnext =>
    rename_i x n next fv
    simp only [Pos.step]
    intro hcap hcap2
    obtain ⟨cfg', X', h1, hm, h2, h3, hF, h4, h5, h6⟩ := lit_x3 L hndL hheap RX (mem_ids_keys hk hfr)
      (by simp [WithinCapacity] at hcap; omega) X3h hrunX hatX
    exact ⟨cfg', hs, X', hm, by omega, FrLe.refl' hs,
      ⟨Γ' ++ [⟨x, .ext, .i64⟩], ι, cw, τ, keys_append hk rfl, h4, h5, cvals_frame_int CVh hlenρ hF rfl h4, h6⟩⟩
  | op hn ha hb hfr hnext =>
    rename_i x a o b next fv
    simp only [Pos.step]
    cases hra : readInt Γ ρ a with
    | error e => simp
    | ok va =>
      cases hrb : readInt Γ ρ b with
      | error e => simp
      | ok vb =>
        cases hv : Pos.evalOp o va vb with
        | error e => simp [hv]
        | ok v =>
          simp only [hv]
          intro hcap hcap2
          obtain ⟨cfg', X', h1, hm, h2, h3, hF, h4, h5, h6⟩ := op_x3 L hndL hheap RX (mem_ids_keys hk hfr)
            (by simp [WithinCapacity] at hcap; omega)
            (by rw [readInt_keys hk]; exact hra) (by rw [readInt_keys hk]; exact hrb) hv X3h hrunX hatX
          exact ⟨cfg', hs, X', hm, by omega, FrLe.refl' hs,
            ⟨Γ' ++ [⟨x, .ext, .i64⟩], ι, cw, τ, keys_append hk rfl, h4, h5,
              cvals_frame_int CVh hlenρ hF rfl h4, h6⟩⟩
  | print hn ha hnext =>
    -- the RV64 backend has no code for `print`
    exfalso
    simp only [codeStatementR, run_bind_ok, run_pure_ok] at hrunX
    obtain ⟨t, k1, _, c1, k2, h1, _⟩ := hrunX
    cases h1
  | ifc hn ha hb ht he =>
    rename_i srt a b t e
    simp only [Pos.step]
    cases hra : readInt Γ ρ a with
    | error err => simp
    | ok va =>
      cases b with
      | none =>
        simp only
        intro _ _
        obtain ⟨cfg', X', h1, hm, h2, h3, hF, h4, h5, h6⟩ := ifc_x3 L hndL hheap (b := none) (vb := 0) RX
          (by rw [readInt_keys hk]; exact hra) rfl X3h hrunX hatX
        exact ⟨cfg', hs, X', hm, by omega, FrLe.refl' hs, ⟨Γ', ι, cw, τ, hk, h4, h5, cvals_frame CVh hF, h6⟩⟩
      | some b' =>
        simp only
        cases hrb : readInt Γ ρ b' with
        | error err => simp
        | ok vb =>
          simp only
          intro _ _
          obtain ⟨cfg', X', h1, hm, h2, h3, hF, h4, h5, h6⟩ := ifc_x3 L hndL hheap (b := some b') (vb := vb) RX
            (by rw [readInt_keys hk]; exact hra) (by simp only; rw [readInt_keys hk]; exact hrb)
            X3h hrunX hatX
          exact ⟨cfg', hs, X', hm, by omega, FrLe.refl' hs, ⟨Γ', ι, cw, τ, hk, h4, h5, cvals_frame CVh hF, h6⟩⟩
  | exit hn ha =>
    rename_i a
    simp only [Pos.step]
    cases hra : readInt Γ ρ a with
    | error e => simp
    | ok v =>
      simp only
      exact exit_x3 L hndL hheap RX (by rw [readInt_keys hk]; exact hra) X3h hrunX hatX hclean
  | call hn hf hc =>
    rename_i l args params
    simp only [Pos.step]
    cases hd : Pos.findDef prog.defs l with
    | none => simp
    | some d =>
      simp only
      by_cases hsh : Pos.chiTys Γ ≠ Pos.chiTys d.ctx ∨ ρ.length ≠ Γ.length
      · simp [hsh]
      · simp only [hsh, if_false]
        intro _ _
        have hchi : Pos.chiTys Γ = Pos.chiTys d.ctx := by
          by_cases h : Pos.chiTys Γ = Pos.chiTys d.ctx
          · exact h
          · exact absurd (Or.inl h) hsh
        obtain ⟨cfg', X', h1, hm, h2, h3, hF, h4, h5, h6⟩ := call_x3 L hndL hheap RX D DX hd
          (by rw [keys_chiTys hk]; exact hchi) X3h hrunX hatX
        have hkeys : Γ'.map (·.chi) = d.ctx.map (·.chi) := by
          have := congrArg (List.map Prod.fst) ((keys_chiTys hk).trans hchi)
          simp only [Pos.chiTys, List.map_map] at this
          exact this
        exact ⟨cfg', hs, X', hm, by omega, FrLe.refl' hs,
          ⟨d.ctx, ι, cw, τ, rfl, h4, h5, (cvals_frame CVh hF).chi hkeys, h6⟩⟩
  | subst hn hhas hnew hnext =>
    rename_i pairs next
    simp only [Pos.step]
    cases hb : Pos.step.build Γ ρ pairs with
    | error e => simp
    | ok vs =>
      simp only
      intro hcap hcap2
      have hnew' : (pairs.map (·.1.var.id)).Nodup := by
        have : ((pairs.map (·.1)).map (·.var.id)).Nodup := hnew
        rw [List.map_map] at this
        exact this
      have hold : ∀ p ∈ pairs, ∃ b ∈ Γ', b.var.id = p.2.id ∧ b.chi = p.1.chi := by
        intro p hp
        obtain ⟨b, hb', hid, hchi, _⟩ := hasVar_keys hk (hhas p hp)
        exact ⟨b, hb', hid, hchi⟩
      have hpl : pairs.length ≤ 14 := by simpa using hcap2
      obtain ⟨k, cfg', X', hs', h1, hm, hfr, h2, h3, h4, h5, hcv, h6⟩ := subst_x3 L hndL hheap RX
        (nodup_keys hk hn) hnew' hold
        (by simpa [WithinCapacity] using hcap) (by rw [build_keys hk]; exact hb) X3h hrunX hatX hpl CVh
      exact ⟨cfg', hs', X', hm, by omega, FrLe.mono' hfr (by omega),
        ⟨pairs.map (·.1), ι, _, τ, rfl, h4, h5, hcv, h6⟩⟩
  | @letS _ Γ0 Γa x ty tag args sig next fv hn hsplit hkeys hs hs' hfr hnext =>
    have hlenA : Γa.length = args.length := keys_length hkeys
    have hsplit' : Γ = Γ0 ++ Γa := hsplit
    have hkA : args.length ≤ Γ.length := by rw [hsplit']; simp; omega
    simp only [Pos.step]
    by_cases hsh : Γ.length < args.length ∨ ρ.length ≠ Γ.length
    · rw [if_pos hsh]; trivial
    · rw [if_neg hsh]
      cases hpos : Pos.tagPosition prog.types ty tag with
      | error e => trivial
      | ok pos =>
        simp only
        intro hcap hcap2
        have hn0 : Γ.length - args.length = Γ0.length := by rw [hsplit']; simp; omega
        have htake : Γ.take (Γ.length - args.length) = Γ0 := by
          rw [← hlenA]; exact take_of_append hsplit'
        have hkt : Ctx.keys (Γ'.take (Γ'.length - args.length)) = Γ0.keys := by
          rw [hlenk, keys_take hk, htake]
        have hargs14 : args.length ≤ 14 := by omega
        have hcapL : 2 * (Γ'.length - args.length + 1) + 2 < Mock.T_TEMP := by
          simp only [WithinCapacity, htake, List.length_append, List.length_singleton] at hcap
          rw [hlenk, hn0]; exact hcap
        obtain ⟨cfg', X', hs', ι', h1, hm, hfr', h2, h3, h4, h5, h6⟩ := let_x3 L hndL hheap RX
          (by rw [hlenk]; exact hkA) (mem_ids_keys hkt hfr) hpos hcapL hheapA X3h hrunX hatX
          (hroom.mono (by omega))
        have hcv := let_cv RX CVh (by rw [hlenk]; exact hkA) (mem_ids_keys hkt hfr) hpos hcapL hheapA h1
        refine ⟨cfg', hs', X', hm, h3, FrLe.mono' hfr' (by omega),
          ⟨_, ι', cw, _, ?_, by rw [hlenk] at h4; exact h4, by rw [hlenk] at h5; exact h5,
            by rw [hlenk] at hcv; exact hcv, by rw [hlenk] at h6; exact h6⟩⟩
        show Ctx.keys (Γ'.take (Γ.length - args.length) ++ [_]) =
          Ctx.keys (Γ.take (Γ.length - args.length) ++ [_])
        rw [htake, ← hlenk]
        exact keys_append hkt rfl
  | @create _ Γn Γe Γc x ty clauses next fc fn d hn hsplit hkeys hd hm hcl' hfr hnext =>
    have hlenE : Γe.length = Γc.length := keys_length hkeys
    have hsplit' : Γ = Γn ++ Γe := hsplit
    have hkA : Γc.length ≤ Γ.length := by rw [hsplit']; simp; omega
    simp only [Pos.step]
    by_cases hsh : Γ.length < Γc.length ∨ ρ.length ≠ Γ.length
    · rw [if_pos hsh]; trivial
    · rw [if_neg hsh]
      simp only
      intro hcap hcap2
      have hn0 : Γ.length - Γc.length = Γn.length := by rw [hsplit']; simp; omega
      have htake : Γ.take (Γ.length - Γc.length) = Γn := by
        rw [← hlenE]; exact take_of_append hsplit'
      have hdrop : Γ.drop (Γ.length - Γc.length) = Γe := by
        rw [hn0, hsplit']; simp
      have hkt : Ctx.keys (Γ'.take (Γ'.length - Γc.length)) = Γn.keys := by
        rw [hlenk, keys_take hk, htake]
      have hkd : Ctx.keys (Γ'.drop (Γ'.length - Γc.length)) = Γc.keys := by
        rw [hlenk, keys_drop hk, hdrop]; exact hkeys
      have hc14 : Γc.length ≤ 14 := by omega
      have hcapL : 2 * (Γ'.length - Γc.length + 1) + 2 < Mock.T_TEMP := by
        simp only [WithinCapacity, htake, List.length_append, List.length_singleton] at hcap
        rw [hlenk, hn0]; exact hcap
      obtain ⟨cfg', X', hs', ι', m, h1, hmr, hfr', h2, h3, h4, hK, h5, h6⟩ := create_x3 L hndL hheap RX
        (by rw [hlenk]; exact hkA) hkd (mem_ids_keys hkt hfr) hcapL hheapA X3h hrunX hatX
        (hroom.mono (by omega))
      have hcv := create_cv RX CVh (by rw [hlenk]; exact hkA) hkd (mem_ids_keys hkt hfr) hcapL hheapA hK h1
      refine ⟨cfg', hs', X', hmr, h3, FrLe.mono' hfr' (by omega),
        ⟨_, ι', _, _, ?_, by rw [hlenk] at h4; exact h4, by rw [hlenk] at h5; exact h5,
          by rw [hlenk] at hcv; exact hcv, by rw [hlenk] at h6; exact h6⟩⟩
      show Ctx.keys (Γ'.take (Γ.length - Γc.length) ++ [_]) =
        Ctx.keys (Γ.take (Γ.length - Γc.length) ++ [_])
      rw [htake, ← hlenk]
      exact keys_append hkt rfl
  | @switch _ Γ0 b x ty cs fv d hn hsplit hb hd hm hcl' =>
    subst hsplit
    obtain ⟨ρ', v, rfl, hρ', hv⟩ := Pos.env_last henv
    have hbid : b.var.id = x.id := congrArg (·.1) hb
    have hbchi : b.chi = .prd := congrArg (·.2.1) hb
    have hbty : b.ty = ty := congrArg (·.2.2) hb
    rw [hbchi, hbty] at hv
    have hlen : (ρ' ++ [v]).length = (Γ0 ++ [b]).length := by
      rw [henv.length_eq, Pos.chiTys_length]
    have hcnd : ¬ (b.var.id ≠ x.id ∨ (ρ' ++ [v]).length ≠ (Γ0 ++ [b]).length) := by
      simp [hbid, hlen]
    cases hv with
    | obj hd' hx hf =>
      rename_i d' tag xt fields
      have := Pos.lookupTypeDecl_unique hd hd'
      subst this
      obtain ⟨cl, hc1, hc2, hc3⟩ := Pos.nthClause_ok d.xtors cs tag xt hm hx
      have hfl : fields.length = cl.ctx.length := by
        rw [hf.length_eq, hc2, Pos.chiTys_length]
      simp only [Pos.step, List.getLast?_concat, if_neg hcnd, hc1, hfl, ne_eq, not_true_eq_false,
        if_false, List.dropLast_concat]
      intro hcap hcap2
      obtain ⟨Γ0', b', rfl, hk0, hkb⟩ := keys_snoc hk
      have hb'id : b'.var.id = x.id := by
        have := congrArg (·.1) hkb
        simp only [Binding.key] at this
        rw [this]; exact hbid
      have hkinds : fields.map Sim2.kindOf = Mock.kindsOf cl.ctx := by
        rw [kinds_of_fieldsTyped hf, hc2, chiTys_fst]
      have hfr : x.id ∉ Γ0.ids := by rw [← hbid]; exact fresh_of_nodup_snoc hn
      obtain ⟨k, cfg', X', hs', h1, hm, hfr', h2, h3, h4, ⟨r, _, h5, hcv⟩, h6⟩ := switch_x3 L hndL hheap hfitX RX
        hfits hb'id (mem_ids_keys hk0 hfr) hc1 hkinds
        (by
          simp only [WithinCapacity, List.length_append] at hcap
          rw [keys_length hk0]; exact hcap) X3h hrunX hatX
        (by
          simp only [List.length_append] at hcap2
          rw [keys_length hk0]; exact hcap2) CVh
      exact ⟨cfg', hs', X', hm, by omega, FrLe.mono' hfr' (by omega),
        ⟨Γ0' ++ cl.ctx, ι, _, τ, keys_append hk0 rfl, h4, h5, hcv, h6⟩⟩
  | @invoke _ Γa b x tag ty args sig hn hsplit hb hs hs' =>
    subst hsplit
    obtain ⟨ρ', v, rfl, hρ', hv⟩ := Pos.env_last henv
    have hbid : b.var.id = x.id := congrArg (·.1) hb
    have hbchi : b.chi = .cns := congrArg (·.2.1) hb
    have hbty : b.ty = ty := congrArg (·.2.2) hb
    rw [hbchi, hbty] at hv
    have hlen : (ρ' ++ [v]).length = (Γa ++ [b]).length := by
      rw [henv.length_eq, Pos.chiTys_length]
    have hcnd : ¬ (b.var.id ≠ x.id ∨ (ρ' ++ [v]).length ≠ (Γa ++ [b]).length) := by
      simp [hbid, hlen]
    obtain ⟨d, xt, i, hd, hx, hxs, htp'⟩ := Pos.tagPosition_ok hs
    cases hv with
    | clo hd' hm hf hcl' =>
      rename_i d' Γc env cs
      have := Pos.lookupTypeDecl_unique hd hd'
      subst this
      obtain ⟨cl, hc1, hc2, hc3⟩ := Pos.nthClause_ok d.xtors cs i xt hm hx
      have hal : (Γa ++ [b]).length - 1 = cl.ctx.length := by
        have : Γa.length = cl.ctx.length := by
          rw [← Pos.chiTys_length Γa, hs', ← hxs, hc2, Pos.chiTys_length]
        simp [this]
      simp only [Pos.step, List.getLast?_concat, if_neg hcnd, htp', hc1, hal, ne_eq, not_true_eq_false,
        if_false, List.dropLast_concat]
      intro hcap hcap2
      obtain ⟨Γa', b', rfl, hk0, hkb⟩ := keys_snoc hk
      have hb'id : b'.var.id = x.id := by
        have := congrArg (·.1) hkb
        simp only [Binding.key] at this
        rw [this]; exact hbid
      have hkinds : env.map Sim2.kindOf = Mock.kindsOf Γc := by
        rw [kinds_of_fieldsTyped hf, chiTys_fst]
      have hfr : x.id ∉ Γa.ids := by rw [← hbid]; exact fresh_of_nodup_snoc hn
      have hargs : Γa'.map (·.chi) = cl.ctx.map (·.chi) := by
        rw [keys_chi hk0]
        have h1 : Ctx.chiTys Γa = Ctx.chiTys cl.ctx := by rw [hs', ← hxs, hc2]
        have := congrArg (List.map (·.1)) h1
        simpa [Ctx.chiTys, Function.comp_def] using this
      have hlenEnv : env.length = Γc.length := by
        have := congrArg List.length hkinds
        simpa [Mock.kindsOf] using this
      obtain ⟨k, cfg', X', hs', envCtx', hke, h1, hmr, hfr', h2, h3, h4, ⟨r, _, h5, hcv⟩, h6⟩ :=
        invoke_x3 L hndL hheap hfitX hcl RX hfits hb'id
          (mem_ids_keys hk0 hfr) htp' hc1
          (fun d0 hd0 => by
            have := Pos.lookupTypeDecl_unique hd hd0
            subst this
            exact clausesMatch_length _ _ hm)
          hargs hkinds
          (by simpa [WithinCapacity] using hcap) X3h hrunX hatX
          (by simpa using hcap2) CVh
      exact ⟨cfg', hs', X', hmr, by omega, FrLe.mono' hfr' (by omega),
        ⟨cl.ctx ++ envCtx', ι, _, τ, keys_append rfl hke, h4, h5, hcv, h6⟩⟩

theorem withinCapacity_of_le {Γ : Ctx} (h : Γ.length ≤ 14) : WithinCapacity Γ := by
  unfold WithinCapacity
  show 2 * Γ.length + 2 < 1000001
  omega

include L hndL hheap hclean hicl hfitX in
/-- THE THREE-WAY RUN: a terminating run of the positional machine from a represented state is reproduced
by the RV64 machine -/
theorem run3_aux (hooks : Bool) (prog : AxCut.Prog) (c : Nat) (code : List MockOp) (nargs c' : Nat)
    (hcomp : (compile mockSym hooks prog).run c = .ok ((code, nargs), c'))
    (hsafe : LabelSafe prog = true) (htp : LinTypedProg prog) (hfit : CodeFits code)
    (DX : KDefsAt ks hooks prog) :
    ∀ (fuel : Nat) (st : Pos.State) (acc : List (Bool × Word)) (cfg : Config) (hs : HState) (X : State)
      (v : Word),
      Pos.StateTyped prog st → (∀ st', Reachable prog st st' → st'.ctx.length ≤ 14) →
      Rel3 mc ks (Program.ofOps code) hooks prog st cfg hs X →
      cfg.next + fuel < 2 ^ 64 → Room hs (64 * 15 * fuel) →
      (Pos.runState prog fuel st acc).res = .done v →
      ∃ XL, Reach pr mc X XL ∧ ∀ fuel', (runLoop pr mc (fuel' + 1) XL).res = .done v
  | 0, st, acc, cfg, hs, X, v, _, _, _, _, _, h => by simp [Pos.runState] at h
  | fuel + 1, st, acc, cfg, hs, X, v, T, hcap, R, hnext, hroom, h => by
    have hsim := step3 L hndL hheap hclean hicl hfitX hooks prog c code nargs c' hcomp hsafe htp hfit
      DX st cfg hs X R T (by unfold EnoughHeap; omega) (hroom.mono (by omega))
    have hsafe' := Pos.step_safe htp st T
    have hw : ∃ rs lin lazy live F, InvS hs rs [] lin lazy live F := by
      obtain ⟨Γ', ι, cw, τ, _, _, X3h, _⟩ := R
      obtain ⟨lin, lazy, live, Fr, I⟩ := X3h.href.conc
      exact ⟨_, lin, lazy, live, Fr, I⟩
    unfold StepSim3 at hsim
    simp only [Pos.runState] at h
    cases hst : Pos.step prog st with
    | stuck w => simp [hst] at h
    | done v' =>
      simp only [hst] at h hsim
      obtain ⟨XL, h1, h2⟩ := hsim
      simp only [Pos.Result.done.injEq] at h
      subst h
      exact ⟨XL, h1, h2⟩
    | next st' o =>
      simp only [hst] at h hsim
      rw [hst] at hsafe'
      have hc' := hcap st' (Reachable.step Reachable.refl hst)
      obtain ⟨cfg', hs', X', h1, h3, hfr, R'⟩ := hsim (withinCapacity_of_le hc') hc'
      have hroom' : Room hs' (64 * 15 * fuel) :=
        (hroom.step hfr (by omega) hw).mono (by omega)
      obtain ⟨XL, g1, g2⟩ := run3_aux hooks prog c code nargs c' hcomp hsafe htp hfit DX fuel st'
        _ cfg' hs' X' v hsafe'
        (fun st'' hr => hcap st'' (Scc.Props.C06Generic.reachable_prepend hst hr)) R' (by omega)
        hroom' h
      exact ⟨XL, h1.trans g1, g2⟩

end Run3

/-! ## the definitions in the routine -/

theorem assemble_split_rv (hooks : Bool) (ren : Nat → String) (types : List TypeDecl) :
    ∀ (defs : List Def) (c : Nat) (blocks : List (List Code)) (c' : Nat),
      (translateR rvBackend hooks ren types defs).run c = .ok (blocks, c') →
      ∀ d ∈ defs, ∃ pre post ck ck' items,
        assemble rvBackend blocks (defs.map (·.name)) =
          pre ++ Code.LAB (d.name.print ++ "_") :: (items ++ post) ∧
        (codeStatementR rvBackend hooks ren types d.body d.ctx).run ck = .ok (items, ck')
  | [], c, blocks, c', _, d, hd => by simp at hd
  | d0 :: ds, c, blocks, c', h, d, hd => by
    simp only [translateR, run_bind_ok, run_pure_ok] at h
    obtain ⟨is, k1, h1, rest, k2, h2, rfl, rfl⟩ := h
    simp only [List.mem_cons] at hd
    rcases hd with rfl | hd
    · exact ⟨[], assemble rvBackend rest (ds.map (·.name)), c, k1, is, by simp [assemble]; rfl, h1⟩
    · obtain ⟨pre, post, ck, ck', items, e, hr⟩ := assemble_split_rv hooks ren types ds k1 rest _ h2 d hd
      refine ⟨Code.LAB (d0.name.print ++ "_") :: is ++ pre, post, ck, ck', items, ?_, hr⟩
      simp only [assemble, List.map_cons, e]
      simp
      rfl

/-- a label of the emitted code that lies in the kept codes -/
theorem kat_of_keeps {cs ks : List Code} (hk : Keeps cs ks) {pre items post : List Code}
    (e : cs = pre ++ items ++ post) : ∃ pc, KAt ks pc items ∧
      ∀ c rest, items = c :: rest → c.isComment = false → ks[pc]? = some c := by
  subst e
  obtain ⟨k12, k3, e1, h12, h3⟩ := hk.append_inv
  obtain ⟨k1, k2, e2, h1, h2⟩ := h12.append_inv
  refine ⟨k1.length, ⟨k1, k2, k3, by rw [e1, e2], rfl, h2⟩, ?_⟩
  intro c rest hi hc
  subst hi
  obtain ⟨k2', rfl, _⟩ := h2.cons_inv hc
  rw [e1, e2]
  simp

/-- every definition's code is in the kept codes behind its label -/
theorem kdefsAt_of_compile {hooks : Bool} {prog : AxCut.Prog} {c : Nat} {instrs : List Code} {nargs c' : Nat}
    (h : (compile rvBackend hooks prog).run c = .ok ((instrs, nargs), c')) {cs hdr post ks : List Code}
    (hcs : cs = hdr ++ instrs ++ post) (hk : Keeps cs ks) (hnd : (labs ks).Nodup) : KDefsAt ks hooks prog := by
  intro d hd
  unfold compile compileR at h
  cases hdefs : prog.defs with
  | nil => rw [hdefs] at hd; simp at hd
  | cons d0 ds =>
    simp only [hdefs, run_bind_ok, run_pure_ok] at h
    obtain ⟨blocks, k, h1, h2, rfl⟩ := h
    cases h2
    rw [hdefs] at hd
    obtain ⟨pre, post', ck, ck', items, e, hr⟩ := assemble_split_rv hooks natRen prog.types _ c blocks _ h1 d hd
    have hcs' : cs = (hdr ++ pre) ++ (Code.LAB (d.name.print ++ "_") :: items) ++ (post' ++ post) := by
      rw [hcs, e]; simp [List.append_assoc]
    obtain ⟨pc, hat, hget⟩ := kat_of_keeps hk hcs'
    have hg := hget _ _ rfl rfl
    obtain ⟨_, hat'⟩ := hat.head rfl
    exact ⟨pc, ck, ck', items, labIdx_of_nodup hnd hg, hg, hr, hat'⟩

/-! ## the machine on parsed lines -/

/-- the machine on parsed lines (what `run` does after `parseText`, without the `wf` monitor) -/
def runLines (lines : List (Nat × Code)) (args : List Word) (fuel : Nat) (cfg : MonCfg) : RunResult :=
  match layout lines with
  | .error e => ⟨[], .fault e 0, 0, 0, 0⟩
  | .ok p => runProgram p args fuel cfg

theorem run_eq_runLines {text : String} {lines : List (Nat × Code)} (h : parseText text = .ok lines)
    (args : List Word) (fuel : Nat) (cfg : MonCfg) (hwf : cfg.wf = false) :
    run text args fuel cfg = runLines lines args fuel cfg := by
  unfold run runLines parseProgram
  rw [h]
  simp only
  cases layout lines with
  | error e => rfl
  | ok p => simp [hwf]

theorem keeps_comments : ∀ {a ka : List Code}, Keeps a ka → (∀ c ∈ a, c.isComment = true) →
    ∀ c ∈ ka, c.isComment = true := by
  intro a ka h
  induction h with
  | nil => intro _ c hc; simp at hc
  | @keep c _ _ hc _ _ => intro hall; have := hall c (by simp); rw [hc] at this; cases this
  | drop _ ih => intro hall c hc; exact ih (fun x hx => hall x (by simp [hx])) c hc
  | keepC _ ih =>
    intro hall c hc
    rcases List.mem_cons.1 hc with rfl | hc
    · rfl
    · exact ih (fun x hx => hall x (by simp [hx])) c hc

theorem firstLab_append_comments {a b : List Code} (ha : ∀ c ∈ a, c.isComment = true) :
    firstLab (a ++ b) = (firstLab b).map (· + a.length) := by
  unfold firstLab
  rw [List.findIdx?_append]
  have : List.findIdx? isLab a = none := by
    rw [List.findIdx?_eq_none_iff]
    intro x hx
    have := ha x hx
    cases x <;> simp [Code.isComment] at this
    rfl
  rw [this]
  simp

/-- THEOREM A ∘ THEOREM B on the parsed LINES of the emitted routine: a terminating run of the AxCut
positional machine is reproduced by the RV64 machine on any line list that agrees with the emitted routine
(header comments, the instructions, `cleanup:`) up to the text of comments and has no malformed hook. -/
theorem programs_lines (p : AxCut.Prog) (args : List Word) (hooks : Bool) (instrs hdr : List Code)
    (nargs cX : Nat) (d0 : Def) (ops : List MockOp) (c' : Nat)
    (hsafe : LabelSafe p = true) (htp : LinTypedProg p)
    (hcompM : (compile mockSym hooks p).run 0 = .ok ((ops, nargs), c')) (hfit : CodeFits ops)
    {cX0 : Nat} (hcompX : (compile rvBackend hooks p).run cX0 = .ok ((instrs, nargs), cX))
    (hnd : (labs (instrs ++ [Code.LAB "cleanup"])).Nodup) (hfitX : codeBase + 4 * instrs.length < 2 ^ 64)
    (hd : p.defs.head? = some d0) (hentry : ∀ b ∈ d0.ctx, b.chi = .ext ∧ b.ty = .i64)
    (hcap : ∀ st, Reachable p ⟨d0.ctx, args.map .int, d0.body⟩ st → st.ctx.length ≤ 14)
    (fuel : Nat) (v : Word) (hfuel : fuel + 1 < 2 ^ 64)
    (hrun : (Pos.run p args fuel).res = .done v)
    (mc : MonCfg) (hheap : mc.heap = false) (htop : heapBase + mc.heapBytes ≤ 2 ^ 63)
    (hbytes : 128 + 64 * 15 * fuel ≤ mc.heapBytes)
    (lines : List (Nat × Code)) (hhdr : ∀ c ∈ hdr, c.isComment = true)
    (hlines : (lines.map (·.2)).map stripC = (hdr ++ instrs ++ [Code.LAB "cleanup"]).map stripC)
    (hhook : ∀ x ∈ lines, ¬ badHook x.2) :
    ∃ fuel', (runLines lines args fuel' mc).res = .done v := by
  have hmem : d0 ∈ p.defs := by
    cases hdefs : p.defs with
    | nil => rw [hdefs] at hd; simp at hd
    | cons d ds => rw [hdefs] at hd; simp at hd; subst hd; simp
  have hnodupD := Scc.Props.C14Generic.labels_unique hooks p 0 ops nargs c' hcompM hsafe
  -- the run of the positional machine
  have hlen : d0.ctx.length = args.length ∧
      (Pos.runState p fuel ⟨d0.ctx, args.map .int, d0.body⟩ []).res = .done v := by
    unfold Pos.run at hrun
    cases hdefs : p.defs with
    | nil => rw [hdefs] at hd; simp at hd
    | cons d ds =>
      rw [hdefs] at hd hrun
      simp only [List.head?_cons, Option.some.injEq] at hd
      subst hd
      simp only at hrun
      by_cases hl : d.ctx.length ≠ args.length
      · simp [hl] at hrun
      · simp only [hl, if_false] at hrun
        exact ⟨by omega, hrun⟩
  obtain ⟨hlen, hrun'⟩ := hlen
  have hc0 := hcap _ Reachable.refl
  simp only at hc0
  -- the loader
  obtain ⟨pr, hlay, L⟩ := loaded_layout lines hhook
  have hK : Keeps (hdr ++ instrs ++ [Code.LAB "cleanup"]) (keptOf lines) :=
    (keeps_filter (lines.map (·.2))).of_strip hlines
  generalize keptOf lines = ks at L hK
  have hlabs : labs ks = labs (instrs ++ [Code.LAB "cleanup"]) := by
    rw [hK.labs, List.append_assoc, labs_append]
    have : labs hdr = [] := by
      unfold labs
      rw [List.filterMap_eq_nil_iff]
      intro c hc
      have := hhdr c hc
      cases c <;> simp [Code.isComment] at this
      rfl
    rw [this]; rfl
  have hndL : (labs ks).Nodup := by rw [hlabs]; exact hnd
  -- the pieces of the kept codes
  obtain ⟨k12, k3, e1, h12, h3⟩ := hK.append_inv
  obtain ⟨k1, k2, e2, h1, h2⟩ := h12.append_inv
  obtain ⟨k3', rfl, h3'⟩ := h3.cons_inv (c := Code.LAB "cleanup") rfl
  have hk3 : k3' = [] := by cases h3'; rfl
  subst hk3
  have hclean : labIdx ks "cleanup" = some (k1 ++ k2).length := by
    apply labIdx_of_nodup hndL
    rw [e1, e2]; simp
  -- the definitions
  have DX : KDefsAt ks hooks p := kdefsAt_of_compile hcompX rfl hK hndL
  obtain ⟨i, kx, kx', ditems, hi, hget, hdrun, hdat⟩ := DX d0 hmem
  -- the entry label is the first label
  have hinstr : ∃ rest, instrs = Code.LAB (d0.name.print ++ "_") :: rest := by
    unfold compile compileR at hcompX
    cases hdefs : p.defs with
    | nil => rw [hdefs] at hd; simp at hd
    | cons d ds =>
      rw [hdefs] at hd hcompX
      simp only [List.head?_cons, Option.some.injEq] at hd
      subst hd
      simp only [run_bind_ok, run_pure_ok, translateR] at hcompX
      obtain ⟨blocks, c1, ⟨is, c2, h1, rest, c3, h2, rfl, rfl⟩, e, rfl⟩ := hcompX
      injection e with e1 e2
      exact ⟨is ++ assemble rvBackend rest (ds.map (·.name)), by rw [← e1]; rfl⟩
  obtain ⟨irest, hinstr⟩ := hinstr
  rw [hinstr] at h2
  obtain ⟨k2', rfl, h2'⟩ := h2.cons_inv (c := Code.LAB (d0.name.print ++ "_")) rfl
  have hk1c := keeps_comments h1 hhdr
  have hentryIdx : pr.entry = some k1.length := by
    rw [L.entry, e1, e2, List.append_assoc, firstLab_append_comments hk1c]
    simp [firstLab, isLab, List.findIdx?_cons]
  have hi0 : i = k1.length := by
    have hg : ks[k1.length]? = some (Code.LAB (d0.name.print ++ "_")) := by rw [e1, e2]; simp
    have := labIdx_of_nodup hndL hg
    rw [hi] at this
    exact Option.some.inj this
  subst hi0
  -- the entry state
  obtain ⟨regs, hregs, _⟩ := entryRegs_spec args (by omega)
  have hbytes' : 128 ≤ mc.heapBytes := by omega
  have X3i : X3 mc (fun _ => 0) (fun _ _ => 0) d0.ctx (initConfig 0 args)
      (Scc.Heap.init heapBase (heapBase + mc.heapBytes)) id { regs := regs, mem := ∅, pc := k1.length } :=
    x3_init hregs hlen (fun b hb => (hentry b hb).1) hc0 htop hbytes' id
  -- Theorem A at the entry
  obtain ⟨a, hlab, RX, hn1⟩ := init_relX hooks p 0 ops nargs c' hcompM hnodupD d0 hmem
    (fun b hb => (hentry b hb).1) args hlen (withinCapacity_of_le hc0)
  have T : Pos.StateTyped p ⟨d0.ctx, args.map .int, d0.body⟩ :=
    ⟨htp d0 hmem, Pos.ints_typed d0.ctx args hlen hentry⟩
  have X3a : X3 mc (fun _ => 0) (fun _ _ => 0) d0.ctx (initConfig a args)
      (Scc.Heap.init heapBase (heapBase + mc.heapBytes)) id { regs := regs, mem := ∅, pc := k1.length } :=
    X3i.absCongr (fun _ _ => rfl) rfl rfl
  -- over the entry label
  have hatL : KAt ks (State.pc { regs := regs, mem := ∅, pc := k1.length })
      (Code.LAB (d0.name.print ++ "_") :: ditems) := KAt.of_label hget hdat
  obtain ⟨hr1, hat1⟩ := pass_label L (cfg := mc) hatL (defLabel_ne_cleanup _)
  have R3 : Rel3 mc ks (Program.ofOps ops) hooks p ⟨d0.ctx, args.map .int, d0.body⟩ (initConfig a args)
      (Scc.Heap.init heapBase (heapBase + mc.heapBytes))
      (setPS { regs := regs, mem := ∅, pc := k1.length } (k1.length + 1) 0) :=
    ⟨d0.ctx, id, fun _ => 0, fun _ _ => 0, rfl, RX, X3R.setPS X3a _ _, cvals_of_ints RX.vals, kx, kx', ditems,
      hdrun, hat1⟩
  have hfitK : codeBase + 4 * icount ks < 2 ^ 64 := by
    have h1 : icount ks ≤ instrs.length := by
      rw [e1, e2, icount_append, icount_append, icount_single]
      have hz : icount k1 = 0 := by
        unfold icount
        rw [List.length_eq_zero_iff, List.filter_eq_nil_iff]
        intro y hy
        have := hk1c y hy
        cases y <;> simp [Code.isComment] at this
        simp [Code.isInstr]
      have hle : icount (Code.LAB (d0.name.print ++ "_") :: k2') ≤ (Code.LAB (d0.name.print ++ "_") :: k2').length := by
        unfold icount; exact List.length_filter_le _ _
      have hlen2 : (Code.LAB (d0.name.print ++ "_") :: k2').length ≤ instrs.length := by
        rw [hinstr]
        simp only [List.length_cons]
        have := h2'.length_le
        omega
      rw [hz]
      simp [Code.isInstr]
      omega
    omega
  have hicl : (k1 ++ Code.LAB (d0.name.print ++ "_") :: k2').length + 1 = ks.length := by
    rw [e1, e2]; simp only [List.length_append, List.length_cons, List.length_nil]
  obtain ⟨XL, g1, g2⟩ := run3_aux L hndL hheap hclean hicl hfitK hooks p 0 ops nargs c' hcompM hsafe htp hfit
    DX fuel _ [] (initConfig a args) _ _ v T hcap R3
    (by rw [hn1]; omega)
    (room_init (by decide) (by omega) (by omega)) hrun'
  obtain ⟨fuel', hf⟩ := (hr1.trans g1).done g2
  refine ⟨fuel', ?_⟩
  unfold runLines
  rw [hlay]
  simp only [runProgram, hentryIdx, hregs]
  exact hf

end Scc.RV.Ref
