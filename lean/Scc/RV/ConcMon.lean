/-
  Scc.RV.ConcMon — THE HEAP MONITOR IS AN OBSERVER (the port of `runLoop_monitor_indep`, Scc/X86/ConcCC.lean): the
  run of the RV64 SPEC machine with the heap monitor ON is, state by state and up to the monitor's counter
  `blocksBelow`, the run with the monitor OFF — until the monitor reports.  So for every amount of fuel the result
  with the monitor on is the result with the monitor off, or a report `inv:` of the monitor; and every state the
  monitored machine passes through is (up to `blocksBelow`) a state the unmonitored machine passes through.
-/
import Scc.RV.ConcMach

set_option linter.unusedVariables false
set_option linter.unusedSimpArgs false

namespace Scc.RV.Conc

open Scc.RV

/-- the configuration with the heap monitor switched off -/
def monOff (mc : MonCfg) : MonCfg := { mc with heap := false }

theorem monOff_heap (mc : MonCfg) : (monOff mc).heap = false := rfl
theorem monOff_heapBytes (mc : MonCfg) : (monOff mc).heapBytes = mc.heapBytes := rfl

/-- the state with another value of the monitor's counter -/
def setBB (s : State) (b : Nat) : State := { s with blocksBelow := b }

def mapBB (b : Nat) : Except String (State × Next) → Except String (State × Next)
  | .error e => .error e
  | .ok (s, n) => .ok (setBB s b, n)

theorem readReg_setBB (s : State) (b : Nat) (r : Register) : (setBB s b).readReg r = s.readReg r := rfl

theorem writeReg_setBB (s : State) (b : Nat) (r : Register) (v : Word) :
    (setBB s b).writeReg r v = setBB (s.writeReg r v) b := by
  unfold State.writeReg setBB; split <;> rfl

theorem copyReg_setBB (s : State) (b : Nat) (x y : Register) :
    (setBB s b).copyReg x y = setBB (s.copyReg x y) b := by
  unfold State.copyReg setBB; split
  · rfl
  · split <;> rfl

theorem load_setBB (cfg : MonCfg) (s : State) (b a : Nat) : (setBB s b).load cfg a = s.load cfg a := rfl

theorem store_setBB (cfg : MonCfg) (s : State) (b a : Nat) (v : Word) :
    (setBB s b).store cfg a v = match s.store cfg a v with
      | .error e => .error e
      | .ok s1 => .ok (setBB s1 b) := by
  unfold State.store
  cases checkAddr cfg a <;> rfl

/-- an instruction neither reads nor writes the monitor's counter -/
theorem exec_setBB (cfg : MonCfg) (la : String → Option Nat) (a b : Nat) (c : Code) (s : State) :
    exec cfg la a c (setBB s b) = mapBB b (exec cfg la a c s) := by
  have harith : ∀ x y z f, arith3 (setBB s b) x y z f = mapBB b (arith3 s x y z f) := by
    intro x y z f
    simp only [arith3, readReg_setBB]
    cases s.readReg y with
    | error e => rfl
    | ok a =>
      dsimp only
      cases s.readReg z with
      | error e => rfl
      | ok b' =>
        dsimp only
        cases f a b' with
        | error e => rfl
        | ok v => simp [mapBB, writeReg_setBB]
  have hbranch : ∀ x y l f, branch (setBB s b) x y l f = mapBB b (branch s x y l f) := by
    intro x y l f
    simp only [branch, readReg_setBB]
    cases s.readReg x with
    | error e => rfl
    | ok a =>
      cases s.readReg y with
      | error e => rfl
      | ok b' => rfl
  cases c <;> simp only [exec, harith, hbranch]
  case ADDI x y c =>
    simp only [readReg_setBB]
    cases s.readReg y with
    | error e => rfl
    | ok a => simp [mapBB, writeReg_setBB]
  case JAL x l => simp [mapBB, writeReg_setBB]
  case JALR x y c =>
    simp only [readReg_setBB]
    cases s.readReg y with
    | error e => rfl
    | ok a => simp [mapBB, writeReg_setBB]
  case LA x l =>
    cases la l with
    | none => rfl
    | some a => simp [mapBB, writeReg_setBB]
  case LI x c => simp [mapBB, writeReg_setBB]
  case MV x y => simp [mapBB, copyReg_setBB]
  case LW x y c =>
    simp only [readReg_setBB, load_setBB]
    cases s.readReg y with
    | error e => rfl
    | ok b' =>
      dsimp only
      cases s.load cfg (b' + imm c).toNat with
      | error e => rfl
      | ok v => simp [mapBB, writeReg_setBB]
  case SW x y c =>
    simp only [readReg_setBB, store_setBB]
    cases s.readReg x with
    | error e => rfl
    | ok v =>
      dsimp only
      cases s.readReg y with
      | error e => rfl
      | ok b' =>
        dsimp only
        cases s.store cfg (b' + imm c).toNat v with
        | error e => rfl
        | ok s1 => rfl
  case LAB l => rfl
  case COMMENT m => rfl

/-- `exec` does not look at the monitor flag of the configuration -/
theorem exec_monOff (mc : MonCfg) (la : String → Option Nat) (a : Nat) (c : Code) (s : State) :
    exec (monOff mc) la a c s = exec mc la a c s := by
  cases c <;> rfl

/-- two states that differ in the monitor's counter only -/
def SameBB (s t : State) : Prop := ∃ b, t = setBB s b

theorem SameBB.refl (s : State) : SameBB s s := ⟨s.blocksBelow, rfl⟩

theorem SameBB.pc {s t : State} (h : SameBB s t) : t.pc = s.pc := by obtain ⟨b, rfl⟩ := h; rfl
theorem SameBB.regs {s t : State} (h : SameBB s t) : t.regs = s.regs := by obtain ⟨b, rfl⟩ := h; rfl
theorem SameBB.mem {s t : State} (h : SameBB s t) : t.mem = s.mem := by obtain ⟨b, rfl⟩ := h; rfl
theorem SameBB.steps {s t : State} (h : SameBB s t) : t.steps = s.steps := by obtain ⟨b, rfl⟩ := h; rfl
theorem SameBB.mhw {s t : State} (h : SameBB s t) : t.maxHeapWritten = s.maxHeapWritten := by
  obtain ⟨b, rfl⟩ := h; rfl
theorem SameBB.readReg {s t : State} (h : SameBB s t) (r : Register) : t.readReg r = s.readReg r := by
  obtain ⟨b, rfl⟩ := h; rfl

/-- results that differ in the monitor's counter only -/
def SameRes (r r' : RunResult) : Prop :=
  r'.out = r.out ∧ r'.res = r.res ∧ r'.steps = r.steps ∧ r'.maxHeapWritten = r.maxHeapWritten

theorem sameRes_result {s t : State} (h : SameBB s t) (res : Res) : SameRes (s.result res) (t.result res) := by
  obtain ⟨b, rfl⟩ := h
  exact ⟨rfl, rfl, rfl, rfl⟩

/-- ONE STEP with the monitor on: the same step with the monitor off (up to the counter), or a report of the
monitor -/
theorem step_monOff (p : Program) (mc : MonCfg) {s t : State} (hst : SameBB s t) :
    (∃ s' t', step p mc s = .inl s' ∧ step p (monOff mc) t = .inl t' ∧ SameBB s' t') ∨
    (∃ r r', step p mc s = .inr r ∧ step p (monOff mc) t = .inr r' ∧ SameRes r r') ∨
    (∃ r e ln, step p mc s = .inr r ∧ r.res = .invFail e ln) := by
  obtain ⟨b, rfl⟩ := hst
  have hpc : (setBB s b).pc = s.pc := rfl
  cases hit : p.items[s.pc]? with
  | none =>
    right; left
    have hit' : p.items[(setBB s b).pc]? = none := hit
    exact ⟨_, _, step_none hit, step_none hit', sameRes_result ⟨b, rfl⟩ _⟩
  | some it =>
    have hit' : p.items[(setBB s b).pc]? = some it := hit
    rcases code_kind it.code with ⟨l, hc⟩ | ⟨m, hc⟩ | hi
    · rw [step_lab hit hc, step_lab hit' hc]
      unfold stepLab
      split
      · rw [readReg_setBB]
        cases s.readReg RETURN1 with
        | ok v => right; left; exact ⟨_, _, rfl, rfl, sameRes_result ⟨b, rfl⟩ _⟩
        | error e => right; left; exact ⟨_, _, rfl, rfl, sameRes_result ⟨b, rfl⟩ _⟩
      · left; exact ⟨_, _, rfl, rfl, ⟨b, rfl⟩⟩
    · rw [step_hook hit hc, step_hook hit' hc]
      unfold stepHook
      rw [monOff_heap]
      cases hr : it.roots with
      | none => left; exact ⟨_, _, rfl, rfl, ⟨b, rfl⟩⟩
      | some rs =>
        simp only [Bool.false_eq_true, if_false]
        cases hh : mc.heap with
        | false => left; exact ⟨_, _, rfl, rfl, ⟨b, rfl⟩⟩
        | true =>
          simp only [if_true]
          cases hm : heapMonitor mc s rs with
          | error e => right; right; exact ⟨_, e, it.line, rfl, rfl⟩
          | ok s1 =>
            left
            obtain ⟨b1, rfl⟩ := heapMonitor_frame hm
            exact ⟨_, _, rfl, rfl, ⟨b, rfl⟩⟩
    · rw [step_instr hit hi, step_instr hit' hi]
      unfold stepInstr
      rw [exec_monOff, exec_setBB]
      cases hx : exec mc p.labelAddr it.addr it.code s with
      | error e => right; left; exact ⟨_, _, rfl, rfl, sameRes_result ⟨b, rfl⟩ _⟩
      | ok r =>
        obtain ⟨s1, next⟩ := r
        simp only [mapBB]
        cases next with
        | fall => left; exact ⟨_, _, rfl, rfl, ⟨b, rfl⟩⟩
        | label l =>
          simp only
          cases p.labelIdx[l]? with
          | none => right; left; exact ⟨_, _, rfl, rfl, ⟨rfl, rfl, rfl, rfl⟩⟩
          | some i => left; exact ⟨_, _, rfl, rfl, ⟨b, rfl⟩⟩
        | addr a =>
          simp only
          cases p.addrIdx[a.toNat]? with
          | none => right; left; exact ⟨_, _, rfl, rfl, ⟨rfl, rfl, rfl, rfl⟩⟩
          | some i => left; exact ⟨_, _, rfl, rfl, ⟨b, rfl⟩⟩

/-- EVERY STATE THE MONITORED MACHINE PASSES THROUGH is, up to the monitor's counter, a state the unmonitored
machine passes through after the same number of units of fuel -/
theorem stepN_monOff (p : Program) (mc : MonCfg) : ∀ (k : Nat) {s t s' : State}, SameBB s t →
    stepN p mc k s = .inl s' → ∃ t', stepN p (monOff mc) k t = .inl t' ∧ SameBB s' t'
  | 0, s, t, s', hst, h => by
    simp only [stepN, Sum.inl.injEq] at h
    subst h
    exact ⟨t, rfl, hst⟩
  | k + 1, s, t, s', hst, h => by
    simp only [stepN] at h ⊢
    rcases step_monOff p mc hst with ⟨s1, t1, h1, h2, h3⟩ | ⟨r, r', h1, _, _⟩ | ⟨r, e, ln, h1, _⟩
    · rw [h1] at h
      rw [h2]
      exact stepN_monOff p mc k h3 h
    · rw [h1] at h; cases h
    · rw [h1] at h; cases h

/-- THE HEAP MONITOR IS AN OBSERVER: for every amount of fuel, the result with the monitor on is the result with
the monitor off, or a report of the monitor -/
theorem runLoop_monitor_indep (p : Program) (mc : MonCfg) : ∀ (f : Nat) {s t : State}, SameBB s t →
    SameRes (runLoop p mc f s) (runLoop p (monOff mc) f t) ∨ ∃ e ln, (runLoop p mc f s).res = .invFail e ln
  | 0, s, t, hst => by
    rw [runLoop_zero, runLoop_zero]
    exact Or.inl (sameRes_result hst _)
  | f + 1, s, t, hst => by
    rw [runLoop_succ, runLoop_succ]
    rcases step_monOff p mc hst with ⟨s1, t1, h1, h2, h3⟩ | ⟨r, r', h1, h2, h3⟩ | ⟨r, e, ln, h1, h2⟩
    · rw [h1, h2]
      exact runLoop_monitor_indep p mc f h3
    · rw [h1, h2]
      exact Or.inl h3
    · rw [h1]
      exact Or.inr ⟨e, ln, h2⟩

end Scc.RV.Conc
