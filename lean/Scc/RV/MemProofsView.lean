/-
  Scc.RV.MemProofsView — the MEMORY-LEVEL VIEW of the RV64 machine (Machine.lean) on which the
  contracts of memory.rs (`acquire_block`, `store`, `load`) are proved (same architecture as
  Scc/X86/MemProofsView.lean; there are no spill slots and no flags on RV64).

  A view state `MState` is: the contents of the registers X1..X31 (`none` = undefined) and the heap as
  a total function from byte addresses to words.  `mexec` gives the semantics of the instruction forms
  that memory.rs emits — `MV`, `LW`/`SW` through a register holding a heap address (`haddr`: aligned,
  inside the heap region), `ADDI`, labels, comments — `mexecC` adds `BEQ` and `JAL X0`, and `mFwd` runs
  a block with forward local labels exactly like `execFwd` (MemLemmas.lean).

  `msim_fwd`: whatever the view executes, the machine executes with the same effect (`MRep`), leaving
  pc, step counter and monitor counter unchanged (`Inert`).  So a contract proved on the view — plain
  functional states, no `Array`/`HashMap` — is a contract of the machine (`m_to_machine`).
-/
import Scc.RV.MemLemmas

set_option linter.unusedSimpArgs false
set_option linter.unusedVariables false

namespace Scc.RV

open Scc.AxCut Scc.Backend

@[simp] theorem ZERO_n : ZERO.n = 0 := rfl
@[simp] theorem TEMP_n : TEMP.n = 1 := rfl
@[simp] theorem HEAP_n : HEAP.n = 2 := rfl
@[simp] theorem FREE_n : FREE.n = 3 := rfl

/-! ## view states -/

structure MState where
  val : Nat → Option Word
  heap : Nat → Word

def MState.setT (μ : MState) (r : Nat) (v : Option Word) : MState :=
  { μ with val := fun u => if u = r then v else μ.val u }

def MState.setH (μ : MState) (a : Nat) (w : Word) : MState :=
  { μ with heap := fun b => if b = a then w else μ.heap b }

@[simp] theorem MState.setT_val (μ : MState) (r u : Nat) (v : Option Word) :
    (μ.setT r v).val u = if u = r then v else μ.val u := rfl
@[simp] theorem MState.setT_heap (μ : MState) (r : Nat) (v : Option Word) :
    (μ.setT r v).heap = μ.heap := rfl
@[simp] theorem MState.setH_val (μ : MState) (a : Nat) (w : Word) : (μ.setH a w).val = μ.val := rfl
@[simp] theorem MState.setH_heap (μ : MState) (a b : Nat) (w : Word) :
    (μ.setH a w).heap b = if b = a then w else μ.heap b := rfl

/-- operand read: `X0` reads 0, `X1..X31` their contents -/
def MState.rd (μ : MState) (r : Register) : Option Word :=
  if r.n = 0 then some 0 else if r.n < 32 then μ.val r.n else none

theorem MState.rd_zero (μ : MState) : μ.rd ZERO = some 0 := rfl

theorem MState.rd_of {μ : MState} {r : Register} (h1 : 1 ≤ r.n) (h2 : r.n < 32) : μ.rd r = μ.val r.n := by
  unfold MState.rd
  rw [if_neg (by omega), if_pos h2]

/-- `a` is the address of a heap word of the machine: aligned, inside the heap region -/
def OkAddr (cfg : MonCfg) (a : Nat) : Prop :=
  a % 8 = 0 ∧ heapBase ≤ a ∧ a + 8 ≤ heapBase + cfg.heapBytes

instance (cfg : MonCfg) (a : Nat) : Decidable (OkAddr cfg a) := by unfold OkAddr; infer_instance

theorem checkAddr_of_ok {cfg : MonCfg} {a : Nat} (h : OkAddr cfg a) : checkAddr cfg a = .ok () := by
  obtain ⟨h1, h2, h3⟩ := h
  simp [checkAddr, h1, h2, h3]

/-- the word `x + i` as a heap address -/
def haddr (cfg : MonCfg) (x : Word) (i : Int) : Option Nat :=
  if OkAddr cfg (x + imm i).toNat then some (x + imm i).toNat else none

/-- semantics of the fall-through instruction forms of memory.rs on the view -/
def mexec (cfg : MonCfg) (code : Code) (μ : MState) : Option MState :=
  match code with
  | .MV x y =>
    if 1 ≤ x.n ∧ x.n < 32 ∧ y.n < 32 then some (μ.setT x.n (μ.rd y)) else none
  | .LW x y c =>
    if 1 ≤ x.n ∧ x.n < 32 then
      match μ.rd y with
      | some b =>
        match haddr cfg b c with
        | some a => some (μ.setT x.n (some (μ.heap a)))
        | none => none
      | none => none
    else none
  | .SW x y c =>
    match μ.rd x, μ.rd y with
    | some v, some b =>
      match haddr cfg b c with
      | some a => some (μ.setH a v)
      | none => none
    | _, _ => none
  | .ADDI x y c =>
    if 1 ≤ x.n ∧ x.n < 32 then
      match μ.rd y with
      | some a => some (μ.setT x.n (some (a + imm c)))
      | none => none
    else none
  | .LAB _ | .COMMENT _ => some μ
  | _ => none

/-- … with the two jumps of memory.rs -/
def mexecC (cfg : MonCfg) (code : Code) (μ : MState) : Option (MState × Next) :=
  match code with
  | .BEQ x y l =>
    match μ.rd x, μ.rd y with
    | some a, some b => some (μ, if a = b then .label l else .fall)
    | _, _ => none
  | .JAL x l => if x.n = 0 then some (μ, .label l) else none
  | code => (mexec cfg code μ).map (fun μ' => (μ', Next.fall))

/-- blocks with forward local labels on the view (same recursion as `execFwd`) -/
def mFwd (cfg : MonCfg) (code : List Code) (μ : MState) : Option (MState × Next) :=
  match code with
  | [] => some (μ, .fall)
  | cd :: cs =>
    match mexecC cfg cd μ with
    | none => none
    | some (μ1, .fall) => mFwd cfg cs μ1
    | some (μ1, .label l) =>
      match _h : skipTo l cs with
      | some rest => mFwd cfg rest μ1
      | none => some (μ1, .label l)
    | some (μ1, .addr a) => some (μ1, .addr a)
termination_by code.length
decreasing_by
  · simp
  · have := skipTo_length _h; simp; omega

/-- how the continuation of a block is entered -/
def mcont (cfg : MonCfg) (b : List Code) : Option (MState × Next) → Option (MState × Next)
  | none => none
  | some (μ', .fall) => mFwd cfg b μ'
  | some (μ', .label l) =>
    match skipTo l b with
    | some rest => mFwd cfg rest μ'
    | none => some (μ', .label l)
  | some (μ', .addr a) => some (μ', .addr a)

section MFwd
variable (cfg : MonCfg)

theorem mFwd_nil (μ : MState) : mFwd cfg [] μ = some (μ, .fall) := by rw [mFwd]

theorem mFwd_cons (cd : Code) (cs : List Code) (μ : MState) :
    mFwd cfg (cd :: cs) μ = mcont cfg cs (mexecC cfg cd μ) := by
  rw [mFwd]
  cases h : mexecC cfg cd μ with
  | none => simp [mcont]
  | some r =>
    obtain ⟨μ1, n⟩ := r
    cases n with
    | fall => simp [mcont]
    | label l =>
      simp only [mcont]
      split <;> rename_i h2 <;> simp [h2]
    | addr a => simp [mcont]

/-- sequential composition of blocks -/
theorem mFwd_append (b : List Code) : ∀ (n : Nat) (a : List Code) (μ : MState), a.length ≤ n →
    mFwd cfg (a ++ b) μ = mcont cfg b (mFwd cfg a μ) := by
  intro n
  induction n with
  | zero =>
    intro a μ h
    have : a = [] := List.eq_nil_of_length_eq_zero (Nat.le_zero.mp h)
    subst this
    simp [mFwd_nil, mcont]
  | succ n ih =>
    intro a μ h
    cases a with
    | nil => simp [mFwd_nil, mcont]
    | cons cd cs =>
      have hcs : cs.length ≤ n := by simpa using h
      rw [List.cons_append, mFwd_cons, mFwd_cons]
      cases hex : mexecC cfg cd μ with
      | none => simp [mcont]
      | some r =>
        obtain ⟨μ1, nx⟩ := r
        cases nx with
        | fall => simp only [mcont]; exact ih cs μ1 hcs
        | addr x => simp [mcont]
        | label l =>
          simp only [mcont, skipTo_append]
          cases hsk : skipTo l cs with
          | none => simp
          | some r =>
            have := skipTo_length hsk
            simp only
            exact ih r μ1 (by omega)

/-- a block that runs to its end, followed by another block -/
theorem mFwd_seq {a b : List Code} {μ μ1 : MState} {r : Option (MState × Next)}
    (ha : mFwd cfg a μ = some (μ1, .fall)) (hb : mFwd cfg b μ1 = r) : mFwd cfg (a ++ b) μ = r := by
  rw [mFwd_append cfg b a.length a μ (Nat.le_refl _), ha]
  simpa only [mcont] using hb

theorem mFwd_pre {pre rest : List Code} {μ μ1 : MState}
    (h : mFwd cfg pre μ = some (μ1, .fall)) : mFwd cfg (pre ++ rest) μ = mFwd cfg rest μ1 :=
  mFwd_seq cfg h rfl

theorem mexecC_BEQ (x y : Register) (l : String) {μ : MState} {a b : Word} (hx : μ.rd x = some a)
    (hy : μ.rd y = some b) :
    mexecC cfg (.BEQ x y l) μ = some (μ, if a = b then .label l else .fall) := by
  simp [mexecC, hx, hy]

theorem mexecC_LAB (l : String) (μ : MState) : mexecC cfg (.LAB l) μ = some (μ, .fall) := rfl
theorem mexecC_COMMENT (m : String) (μ : MState) : mexecC cfg (.COMMENT m) μ = some (μ, .fall) := rfl
theorem mexecC_JAL (l : String) (μ : MState) : mexecC cfg (.JAL ZERO l) μ = some (μ, .label l) := rfl

theorem mFwd_comment (m : String) (μ : MState) : mFwd cfg [.COMMENT m] μ = some (μ, .fall) := by
  simp [mFwd_cons, mFwd_nil, mcont, mexecC_COMMENT]

/-- `beq r, x0, l; body; l:` with `r = 0`: the body is skipped -/
theorem mFwd_skip_taken (r : Register) (body : List Code) (l : String) (μ : MState)
    (hr : μ.rd r = some 0) (hfresh : skipTo l body = none) :
    mFwd cfg ([.BEQ r ZERO l] ++ body ++ [.LAB l]) μ = some (μ, .fall) := by
  rw [List.append_assoc, List.singleton_append, mFwd_cons, mexecC_BEQ cfg r ZERO l hr (μ.rd_zero)]
  simp [mcont, skipTo_append, hfresh, skipTo, mFwd_nil]

/-- `beq r, x0, l; body; l:` with `r ≠ 0`: the body runs -/
theorem mFwd_skip_not_taken (r : Register) (body : List Code) (l : String) (μ μ' : MState) {a : Word}
    (hr : μ.rd r = some a) (hne : a ≠ 0) (hbody : mFwd cfg body μ = some (μ', .fall)) :
    mFwd cfg ([.BEQ r ZERO l] ++ body ++ [.LAB l]) μ = some (μ', .fall) := by
  rw [List.append_assoc, List.singleton_append, mFwd_cons, mexecC_BEQ cfg r ZERO l hr (μ.rd_zero)]
  simp only [hne, if_false, mcont]
  rw [mFwd_append cfg _ body.length body μ (Nat.le_refl _), hbody]
  simp only [mcont]
  rw [mFwd_cons]
  simp [mexecC_LAB, mcont, mFwd_nil]

/-- `beq r, x0, lt; else; jal x0, le; lt: then; le:` with `r = 0`: exactly the then-branch runs -/
theorem mFwd_ite_then (r : Register) (thenB elseB : List Code) (lt le : String) (μ μ' : MState)
    (hr : μ.rd r = some 0) (hfresh : skipTo lt elseB = none)
    (hthen : mFwd cfg thenB μ = some (μ', .fall)) :
    mFwd cfg ([.BEQ r ZERO lt] ++ elseB ++ [.JAL ZERO le, .LAB lt] ++ thenB ++ [.LAB le]) μ =
      some (μ', .fall) := by
  simp only [List.append_assoc, List.singleton_append, List.cons_append, List.nil_append]
  rw [mFwd_cons, mexecC_BEQ cfg r ZERO lt hr (μ.rd_zero)]
  simp only [if_true, mcont, skipTo_append, hfresh]
  simp only [List.cons_append, List.nil_append, skipTo, if_true]
  rw [mFwd_append cfg _ thenB.length thenB μ (Nat.le_refl _), hthen]
  simp only [mcont]
  rw [mFwd_cons]
  simp [mexecC_LAB, mcont, mFwd_nil]

/-- … with `r ≠ 0`: exactly the else-branch runs -/
theorem mFwd_ite_else (r : Register) (thenB elseB : List Code) (lt le : String) (μ μ' : MState) {a : Word}
    (hr : μ.rd r = some a) (hne : a ≠ 0) (hlab : lt ≠ le) (hfresh : skipTo le thenB = none)
    (helse : mFwd cfg elseB μ = some (μ', .fall)) :
    mFwd cfg ([.BEQ r ZERO lt] ++ elseB ++ [.JAL ZERO le, .LAB lt] ++ thenB ++ [.LAB le]) μ =
      some (μ', .fall) := by
  simp only [List.append_assoc, List.singleton_append, List.cons_append, List.nil_append]
  rw [mFwd_cons, mexecC_BEQ cfg r ZERO lt hr (μ.rd_zero)]
  simp only [hne, if_false, mcont]
  rw [mFwd_append cfg _ elseB.length elseB μ (Nat.le_refl _), helse]
  simp only [mcont, List.cons_append, List.nil_append]
  rw [mFwd_cons]
  simp only [mexecC_JAL, mcont, skipTo, hlab, if_false, skipTo_append, hfresh, if_true]
  simp [mFwd_nil]

end MFwd

/-! ## the representation of view states by machine states -/

/-- machine state `st` is viewed as `μ` -/
structure MRep (st : State) (μ : MState) : Prop where
  wf : st.WF
  vals : ∀ r, 1 ≤ r → r < 32 → st.regs[r]? = some (μ.val r)
  heap : ∀ a, st.mem.getD a 0 = μ.heap a

/-- what no instruction of memory.rs touches: pc, step counter, monitor counter; the high-water mark of
the heap only grows -/
structure Inert (st st' : State) : Prop where
  pc : st'.pc = st.pc
  steps : st'.steps = st.steps
  blocksBelow : st'.blocksBelow = st.blocksBelow
  maxHeap : st.maxHeapWritten ≤ st'.maxHeapWritten

theorem Inert.refl (st : State) : Inert st st := ⟨rfl, rfl, rfl, Nat.le_refl _⟩

theorem Inert.trans {s1 s2 s3 : State} (h1 : Inert s1 s2) (h2 : Inert s2 s3) : Inert s1 s3 :=
  ⟨h2.pc.trans h1.pc, h2.steps.trans h1.steps, h2.blocksBelow.trans h1.blocksBelow,
   Nat.le_trans h1.maxHeap h2.maxHeap⟩

/-- the view of a machine state -/
def mview (st : State) : MState :=
  { val := fun r => (st.regs[r]?).join, heap := fun a => st.mem.getD a 0 }

theorem mrep_mview {st : State} (h : st.WF) : MRep st (mview st) := by
  refine ⟨h, fun r _ h2 => ?_, fun _ => rfl⟩
  unfold State.WF registerNum at h
  have hlt : r < st.regs.size := by omega
  simp [mview, Array.getElem?_eq_getElem hlt]

/-- a register of the view as the machine reads it -/
theorem mview_val_of_readReg {st : State} {r : Register} {v : Word} (h0 : r.n ≠ 0)
    (h : st.readReg r = .ok v) : (mview st).val r.n = some v := by
  unfold State.readReg at h
  rw [if_neg h0] at h
  simp only [mview]
  cases hv : st.regs[r.n]? with
  | none => simp [hv] at h
  | some o =>
    cases o with
    | none => simp [hv] at h
    | some w => simp [hv] at h; simp [h]

section Sim
variable {cfg : MonCfg} {st : State} {μ : MState}

theorem MRep.readReg (M : MRep st μ) {r : Register} {v : Word} (h : μ.rd r = some v) :
    st.readReg r = .ok v := by
  unfold MState.rd at h
  unfold State.readReg
  by_cases h0 : r.n = 0
  · rw [if_pos h0] at h ⊢
    cases h; rfl
  · rw [if_neg h0] at h ⊢
    by_cases h2 : r.n < 32
    · rw [if_pos h2] at h
      rw [M.vals r.n (by omega) h2, h]
    · rw [if_neg h2] at h; cases h

theorem MRep.writeReg (M : MRep st μ) {r : Register} (h1 : 1 ≤ r.n) (h2 : r.n < 32) (v : Word) :
    MRep (st.writeReg r v) (μ.setT r.n (some v)) ∧ Inert st (st.writeReg r v) := by
  have hwf := M.wf
  unfold State.WF registerNum at hwf
  have h0 : ¬ r.n = 0 := by omega
  refine ⟨⟨writeReg_wf M.wf r v, fun u hu1 hu2 => ?_, fun a => by rw [writeReg_mem]; exact M.heap a⟩, ?_⟩
  · simp only [State.writeReg, h0, if_false, MState.setT_val]
    rw [Array.getElem?_setIfInBounds]
    by_cases e : u = r.n
    · subst e; simp [hwf, h2]
    · have e' : ¬ r.n = u := fun x => e x.symm
      simp [e, e', M.vals u hu1 hu2]
  · unfold State.writeReg
    rw [if_neg h0]
    exact ⟨rfl, rfl, rfl, Nat.le_refl _⟩

theorem MRep.copyReg (M : MRep st μ) {x y : Register} (h1 : 1 ≤ x.n) (h2 : x.n < 32) (hy : y.n < 32) :
    MRep (st.copyReg x y) (μ.setT x.n (μ.rd y)) ∧ Inert st (st.copyReg x y) := by
  have hwf := M.wf
  unfold State.WF registerNum at hwf
  have h0 : ¬ x.n = 0 := by omega
  refine ⟨⟨copyReg_wf M.wf x y, fun u hu1 hu2 => ?_, fun a => by rw [copyReg_mem]; exact M.heap a⟩, ?_⟩
  · simp only [State.copyReg, h0, if_false, MState.setT_val, MState.rd]
    by_cases hy0 : y.n = 0
    · simp only [hy0, if_true]
      rw [Array.getElem?_setIfInBounds]
      by_cases e : u = x.n
      · subst e; simp [hwf, h2]
      · have e' : ¬ x.n = u := fun h => e h.symm
        simp [e, e', M.vals u hu1 hu2]
    · simp only [hy0, if_false, hy, if_true]
      rw [Array.getElem?_setIfInBounds]
      by_cases e : u = x.n
      · subst e; simp [hwf, h2, M.vals y.n (by omega) hy]
      · have e' : ¬ x.n = u := fun h => e h.symm
        simp [e, e', M.vals u hu1 hu2]
  · unfold State.copyReg
    rw [if_neg h0]
    split <;> exact ⟨rfl, rfl, rfl, Nat.le_refl _⟩

theorem MRep.storeRaw (M : MRep st μ) (a : Nat) (v : Word) :
    MRep (st.storeRaw a v) (μ.setH a v) ∧ Inert st (st.storeRaw a v) := by
  refine ⟨⟨M.wf, M.vals, fun b => ?_⟩, ⟨rfl, rfl, rfl, Nat.le_max_left _ _⟩⟩
  simp only [State.storeRaw, Std.HashMap.getD_insert, MState.setH_heap]
  by_cases e : a = b
  · subst e; simp
  · have : ¬ b = a := fun h => e h.symm
    have e' : (a == b) = false := by simpa using e
    rw [e', if_neg this]; exact M.heap b

theorem haddr_some {x : Word} {i : Int} {a : Nat} (h : haddr cfg x i = some a) :
    (x + imm i).toNat = a ∧ checkAddr cfg (x + imm i).toNat = .ok () := by
  unfold haddr at h
  split at h
  · rename_i ha
    cases h
    exact ⟨rfl, checkAddr_of_ok ha⟩
  · cases h

/-- SIMULATION, one fall-through instruction -/
theorem msim_exec (la : String → Option Nat) (M : MRep st μ) {code : Code} {μ' : MState}
    (hx : mexec cfg code μ = some μ') :
    ∃ st', exec cfg la 0 code st = .ok (st', .fall) ∧ MRep st' μ' ∧ Inert st st' := by
  cases code <;> simp only [mexec] at hx
  case MV x y =>
    split at hx
    · rename_i hc
      cases hx
      obtain ⟨m, i⟩ := M.copyReg hc.1 hc.2.1 hc.2.2
      exact ⟨_, exec_MV cfg la x y st, m, i⟩
    · cases hx
  case LW x y c =>
    split at hx
    · rename_i hc
      split at hx
      · rename_i b hb
        split at hx
        · rename_i a ha
          cases hx
          obtain ⟨e, hok⟩ := haddr_some ha
          obtain ⟨m, i⟩ := M.writeReg hc.1 hc.2 (μ.heap a)
          refine ⟨_, ?_, m, i⟩
          rw [exec_LW cfg la c (M.readReg hb) hok, e, M.heap]
        · cases hx
      · cases hx
    · cases hx
  case SW x y c =>
    split at hx
    · rename_i v b hv hb
      split at hx
      · rename_i a ha
        cases hx
        obtain ⟨e, hok⟩ := haddr_some ha
        obtain ⟨m, i⟩ := M.storeRaw a v
        refine ⟨_, ?_, m, i⟩
        rw [exec_SW cfg la c (M.readReg hv) (M.readReg hb) hok, e]
      · cases hx
    · cases hx
  case ADDI x y c =>
    split at hx
    · rename_i hc
      split at hx
      · rename_i a ha
        cases hx
        obtain ⟨m, i⟩ := M.writeReg hc.1 hc.2 (a + imm c)
        exact ⟨_, exec_ADDI cfg la 0 c (M.readReg ha), m, i⟩
      · cases hx
    · cases hx
  case LAB l => cases hx; exact ⟨st, rfl, M, Inert.refl st⟩
  case COMMENT l => cases hx; exact ⟨st, rfl, M, Inert.refl st⟩
  all_goals cases hx

/-- SIMULATION, one instruction with its control outcome -/
theorem msim_execC (la : String → Option Nat) (M : MRep st μ) {code : Code} {μ' : MState} {ctl : Next}
    (hx : mexecC cfg code μ = some (μ', ctl)) :
    ∃ st', exec cfg la 0 code st = .ok (st', ctl) ∧ MRep st' μ' ∧ Inert st st' := by
  have key : (mexec cfg code μ).map (fun μ' => (μ', Next.fall)) = some (μ', ctl) →
      ∃ st', exec cfg la 0 code st = .ok (st', ctl) ∧ MRep st' μ' ∧ Inert st st' := by
    intro h
    cases hm : mexec cfg code μ with
    | none => simp [hm] at h
    | some μ1 =>
      simp only [hm, Option.map_some, Option.some.injEq, Prod.mk.injEq] at h
      obtain ⟨rfl, rfl⟩ := h
      exact msim_exec la M hm
  cases code
  case BEQ x y l =>
    simp only [mexecC] at hx
    split at hx
    · rename_i a b ha hb
      simp only [Option.some.injEq, Prod.mk.injEq] at hx
      obtain ⟨rfl, rfl⟩ := hx
      refine ⟨st, ?_, M, Inert.refl st⟩
      simp only [exec, branch, M.readReg ha, M.readReg hb]
      by_cases e : a = b <;> simp [e]
    · cases hx
  case JAL x l =>
    simp only [mexecC] at hx
    split at hx
    · rename_i h0
      simp only [Option.some.injEq, Prod.mk.injEq] at hx
      obtain ⟨rfl, rfl⟩ := hx
      refine ⟨st, ?_, M, Inert.refl st⟩
      simp [exec, State.writeReg, h0]
    · cases hx
  all_goals exact key hx

/-- SIMULATION for blocks with forward local labels -/
theorem msim_fwd (la : String → Option Nat) : ∀ (n : Nat) (codes : List Code) (st : State) (μ : MState),
    codes.length ≤ n → MRep st μ → ∀ {μ' : MState} {ctl : Next}, mFwd cfg codes μ = some (μ', ctl) →
    ∃ st', execFwd cfg la codes st = .ok (st', ctl) ∧ MRep st' μ' ∧ Inert st st' := by
  intro n
  induction n with
  | zero =>
    intro codes st μ h M μ' ctl hx
    have : codes = [] := List.eq_nil_of_length_eq_zero (Nat.le_zero.mp h)
    subst this
    rw [mFwd_nil] at hx
    simp only [Option.some.injEq, Prod.mk.injEq] at hx
    obtain ⟨rfl, rfl⟩ := hx
    exact ⟨st, execFwd_nil cfg la st, M, Inert.refl st⟩
  | succ n ih =>
    intro codes st μ h M μ' ctl hx
    cases codes with
    | nil =>
      rw [mFwd_nil] at hx
      simp only [Option.some.injEq, Prod.mk.injEq] at hx
      obtain ⟨rfl, rfl⟩ := hx
      exact ⟨st, execFwd_nil cfg la st, M, Inert.refl st⟩
    | cons cd cs =>
      have hcs : cs.length ≤ n := by simpa using h
      rw [mFwd_cons] at hx
      cases hex : mexecC cfg cd μ with
      | none => simp [hex, mcont] at hx
      | some r =>
        obtain ⟨μ1, c1⟩ := r
        rw [hex] at hx
        obtain ⟨st1, e1, M1, I1⟩ := msim_execC la M hex
        rw [execFwd_cons, e1]
        cases c1 with
        | fall =>
          simp only [mcont] at hx
          obtain ⟨st', e, m, i⟩ := ih cs st1 μ1 hcs M1 hx
          exact ⟨st', by simpa only [contFwd] using e, m, I1.trans i⟩
        | label l =>
          simp only [mcont] at hx
          simp only [contFwd]
          cases hsk : skipTo l cs with
          | none =>
            simp only [hsk, Option.some.injEq, Prod.mk.injEq] at hx
            obtain ⟨rfl, rfl⟩ := hx
            exact ⟨st1, rfl, M1, I1⟩
          | some rest =>
            simp only [hsk] at hx
            have := skipTo_length hsk
            obtain ⟨st', e, m, i⟩ := ih rest st1 μ1 (by omega) M1 hx
            exact ⟨st', e, m, I1.trans i⟩
        | addr a =>
          simp only [mcont, Option.some.injEq, Prod.mk.injEq] at hx
          obtain ⟨rfl, rfl⟩ := hx
          exact ⟨st1, rfl, M1, I1⟩

end Sim

/-! ## boundary states, frames, the transfer -/

/-- a statement-boundary state of the RV64 machine: the register file has its 32 entries, and the heap
region of the configuration lies below 2^63 (so heap addresses never wrap).  (There is no stack on
RV64: the backend has no spills.) -/
structure Boundary (cfg : MonCfg) (st : State) : Prop where
  wf : st.WF
  top : heapBase + cfg.heapBytes ≤ 2 ^ 63

/-- what a memory operation leaves alone: pc, step counter, monitor counter, and every register not in
`changed` (including its being undefined); the high-water mark of the heap only grows -/
structure FrameR (st st' : State) (changed : Nat → Prop) : Prop where
  pc : st'.pc = st.pc
  steps : st'.steps = st.steps
  blocksBelow : st'.blocksBelow = st.blocksBelow
  maxHeap : st.maxHeapWritten ≤ st'.maxHeapWritten
  regs : ∀ r, 1 ≤ r → r < 32 → ¬ changed r → st'.regs[r]? = st.regs[r]?

/-- the frame condition as the machine reads registers -/
theorem FrameR.readReg {st st' : State} {changed : Nat → Prop} (F : FrameR st st' changed) (r : Register)
    (h : ¬ changed r.n) (h32 : r.n < 32) : st'.readReg r = st.readReg r := by
  unfold State.readReg
  by_cases h0 : r.n = 0
  · simp [h0]
  · simp only [h0, if_false]
    rw [F.regs r.n (by omega) h32 h]

section Transfer
variable {cfg : MonCfg} {st : State}

/-- a run of the view from the view of a boundary state, with its frame, on the machine -/
theorem m_to_machine (la : String → Option Nat) (B : Boundary cfg st) {codes : List Code} {μ' : MState}
    (hx : mFwd cfg codes (mview st) = some (μ', .fall)) {changed : Nat → Prop}
    (hfr : ∀ u, ¬ changed u → μ'.val u = (mview st).val u) :
    ∃ st', execFwd cfg la codes st = .ok (st', .fall) ∧ Boundary cfg st' ∧ MRep st' μ' ∧
      FrameR st st' changed := by
  obtain ⟨st', e, M, I⟩ := msim_fwd la codes.length codes st _ (Nat.le_refl _) (mrep_mview B.wf) hx
  refine ⟨st', e, ⟨M.wf, B.top⟩, M, ⟨I.pc, I.steps, I.blocksBelow, I.maxHeap, fun r h1 h2 hc => ?_⟩⟩
  rw [M.vals r h1 h2, hfr r hc, (mrep_mview B.wf).vals r h1 h2]

end Transfer

end Scc.RV
