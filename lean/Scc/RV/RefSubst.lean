/-
  Scc.RV.RefSubst — `erase` and `share` of the abstract machine against the RV64 code of
  `Memory::erase_block` / `share_block_n` (weakening and contraction of object variables): composition of
  the machine contracts (Scc/RV/RefMem.lean) with the heap refinement (`href_erase`, `href_share`,
  Scc/Heap/RefineOps.lean); the "no overflow" side condition of `share_block_n` is discharged from the
  counting invariant.  THREE-WAY SIMULATION of `subst` (`subst_x3`): Theorem A's `sim2_subst` with the RV64
  machine carried along (erase / share, then the parallel moves through a shadow configuration).
-/
import Scc.RV.RefMoves
import Scc.RV.RefMem
import Scc.RV.RefCloHeap
import Scc.Heap.RefineBound
import Scc.Heap.RefineFrontier
import Scc.Backend.ProofsSubstObj

set_option linter.unusedVariables false
set_option linter.unusedSimpArgs false

namespace Scc.RV.Ref

open Scc.AxCut Scc.AxCut.Pos Scc.Backend Scc.Backend.Abs Scc.Backend.Sim Scc.Backend.Sim2 Scc.RV
open Scc.Backend.Subst (rp)
open Scc.Heap (HState InvS InvW)
open Scc.Heap.Refine (HRef imgW fieldImg kindB href_erase href_share live_header_add_lt FrLe frLe_erase frLe_share)

/-- `FrameR` on registers other than those of positions keeps the registers of positions -/
theorem frameR_rv {st st' : State} {ch : Nat → Prop} (F : FrameR st st' ch) {t : Nat} (ht : t < 28)
    (h : ¬ ch (posReg t)) : rv st' t = rv st t := by
  unfold Ref.rv mview
  simp only
  rw [F.regs (posReg t) (by unfold posReg; omega) (by unfold posReg; omega) h]

theorem noCleanup_of_labsIn {code : List Code} {lo hi : Nat} (h : LabsIn code lo hi) :
    Code.LAB "cleanup" ∉ code := by
  intro hm
  obtain ⟨n, e, _, _⟩ := h _ hm
  exact labName_ne_cleanup n e.symm

section Ops

variable {mc : MonCfg} {cw : Nat → Word} {τ : Nat → Nat → Word} {la : String → Option Nat}

/-- THE ABSTRACT `erase` AGAINST `Memory::erase_block` -/
theorem erase_x3 {Γ : Ctx} {cfg cfg1 : Config} {rsKeep : List Nat} {hs : HState} {ι : Nat → Nat} {st : State}
    {i : Nat} (hi : i < Γ.length) (hc : Γ[i].chi ≠ .ext) {p : Word}
    (X : X3R mc cw τ Γ cfg (rsKeep ++ rp p) hs ι st)
    (hp : cfg.temps.get (2 * i) = some p) {h' : Heap} (he : cfg.heap.erase p = .ok h')
    (hcfg1 : cfg1 =
      { cfg with pc := cfg.pc + 1, temps := (clobberTemp cfg.temps).unset (2 * i), heap := h' })
    (kk : Nat) :
    ∃ code, (eraseBlock (posTemp (2 * i))).run kk = .ok (code, kk + 3) ∧ MemFree code ∧
      Code.LAB "cleanup" ∉ code ∧
      ∃ st' hs', execFwd mc la code st = .ok (st', .fall) ∧
        X3R mc cw τ Γ cfg1 rsKeep hs' ι st' ∧ FrLe hs hs' 0 := by
  have hcap := X.cap
  have hlim := X.limit_le
  have hplt : p ≠ 0 → ι p.toNat < 2 ^ 64 := by
    intro h0
    have hm : p.toNat ∈ rsKeep ++ rp p := by
      apply List.mem_append.2; right
      have : (p != 0) = true := by rw [bne_iff_ne]; exact h0
      simp only [rp, this, if_true, List.mem_singleton]
    obtain ⟨o, ho⟩ := href_root_mem X.href hm
    have h1 := href_head_lt X.href ho
    simp only at h1
    omega
  obtain ⟨h'', hs', he', hop, R1⟩ := href_erase p X.href
  have hh'' : h'' = trHeap τ h' := by
    have := trHeap_erase (τ := τ) he
    rw [he'] at this
    injection this
  subst hh''
  have hpw := X.ptrs i hi hc p hp
  obtain ⟨code, hrun, hlab, hfree, st', hx, B', HR', FH⟩ :=
    eraseBlock_contract (la := la) X.bnd X.hrel (r := posTemp (2 * i)) (by simp [posReg])
      (by simp [posReg]; omega) hpw (by rw [imgWord_toNat hplt]; exact hop) kk
  refine ⟨code, hrun, hfree, noCleanup_of_labsIn hlab, st', hs', hx, ?_, frLe_erase p X.href hop⟩
  refine X.heapStep B' (fun t ht => frameR_rv FH ht (by simp [posReg])) HR' ?_ ?_
  · intro t v ht hg
    rw [hcfg1] at hg
    simp only at hg
    by_cases e : t = 2 * i
    · subst e; rw [get_unset_same] at hg; cases hg
    · rw [get_unset_other _ e, get_clobberTemp _ (by unfold Mock.T_TEMP; omega)] at hg
      exact hg
  · rw [hcfg1]; exact R1

/-- THE ABSTRACT `share` AGAINST `Memory::share_block_n` -/
theorem share_x3 {Γ : Ctx} {cfg cfg1 : Config} {rs : List Nat} {hs : HState} {ι : Nat → Nat} {st : State}
    {i : Nat} (hi : i < Γ.length) (hc : Γ[i].chi ≠ .ext) {p : Word}
    (X : X3R mc cw τ Γ cfg rs hs ι st) (hmem : p ≠ 0 → p.toNat ∈ rs) (hrs : rs.length ≤ 2 ^ 40)
    (hp : cfg.temps.get (2 * i) = some p) {k : Nat} (hk : k < 2 ^ 31) {h' : Heap}
    (he : cfg.heap.share p k = .ok h')
    (hcfg1 : cfg1 = { cfg with pc := cfg.pc + 1, temps := clobberTemp cfg.temps, heap := h' })
    (kk : Nat) :
    ∃ code, (shareBlockN (posTemp (2 * i)) k).run kk = .ok (code, kk + 1) ∧ MemFree code ∧
      Code.LAB "cleanup" ∉ code ∧
      ∃ st' hs', execFwd mc la code st = .ok (st', .fall) ∧
        X3R mc cw τ Γ cfg1 (rs ++ (List.replicate k (rp p)).flatten) hs' ι st' ∧ FrLe hs hs' 0 := by
  have hcap := X.cap
  have hlim := X.limit_le
  obtain ⟨h'', hs', he', hop, R1⟩ := href_share X.href p k hmem
  have hh'' : h'' = trHeap τ h' := by
    have := trHeap_share (τ := τ) he
    rw [he'] at this
    injection this
  subst hh''
  have hpw := X.ptrs i hi hc p hp
  have htemps : ∀ t v, t < 2 * Γ.length → cfg1.temps.get t = some v → cfg.temps.get t = some v := by
    intro t v ht hg
    rw [hcfg1] at hg
    simp only at hg
    rw [get_clobberTemp _ (by unfold Mock.T_TEMP; omega)] at hg
    exact hg
  have hplt : p ≠ 0 → ι p.toNat < 2 ^ 64 := by
    intro h0
    obtain ⟨o, ho⟩ := href_root_mem X.href (hmem h0)
    have h1 := href_head_lt X.href ho
    simp only at h1
    omega
  have hno : imgWord ι p ≠ 0 → hs.mem.get (imgWord ι p).toNat + k < 2 ^ 64 := by
    intro hne
    have h0 : p ≠ 0 := by
      intro e; apply hne; simp [imgWord, e]
    have htn : (imgWord ι p).toNat = ι p.toNat := by
      rw [imgWord_toNat hplt]; unfold imgW; rw [if_neg h0]
    obtain ⟨o, ho⟩ := href_root_mem X.href (hmem h0)
    obtain ⟨lin, lazy, live, Fr, I⟩ := X.href.conc
    have hlive : ι p.toNat ∈ live :=
      Scc.Heap.Refine.C09R_chains_live X.href I _ ho _ (Scc.Heap.Refine.head_mem_blocksOf (X.href.shape _ ho))
    rw [htn]
    exact live_header_add_lt I hlim (by rw [List.length_map]; exact hrs) hlive (by omega)
  obtain ⟨code, hrun, hlab, hfree, st', hx, B', HR', FH⟩ :=
    shareBlockN_contract (la := la) X.bnd X.hrel (r := posTemp (2 * i)) (by simp [posReg])
      (by simp [posReg]; omega) hpw (n := k) (by rw [imgWord_toNat hplt]; exact hop) hno kk
  refine ⟨code, hrun, hfree, noCleanup_of_labsIn hlab, st', hs', hx, ?_, frLe_share X.href p k hmem hop⟩
  exact X.heapStep B' (fun t ht => frameR_rv FH ht (by simp [posReg])) HR' htemps (by rw [hcfg1]; exact R1)

end Ops

/-! ## `update_reference_count` for one binding, three-way -/

section Urc

variable {mc : MonCfg} {cw : Nat → Word} {τ : Nat → Nat → Word} {pr : RV.Program} {ks : List Code} (L : Loaded pr ks)
  (hndL : (labs ks).Nodup) (hheap : mc.heap = false)

theorem x_urc_run_ok (var : Ident) (Γ : Ctx) (n : Nat) (c : Nat) (code : List Code) (c' : Nat) :
    (updateReferenceCount rvBackend var Γ n).run c = .ok (code, c') →
    ∃ pos, Pos.posOf Γ var.id = some pos ∧ 2 * pos < 28 ∧
      match n with
        | 0 => ∃ ecode, (eraseBlock (posTemp (2 * pos))).run c = .ok (ecode, c') ∧
            code = Code.COMMENT ("#erase " ++ var.print) :: ecode
        | 1 => code = [] ∧ c = c'
        | m + 2 => ∃ scode, (shareBlockN (posTemp (2 * pos)) (m + 1)).run c = .ok (scode, c') ∧
            code = Code.COMMENT ("#share " ++ var.print) :: scode := by
  intro h
  unfold updateReferenceCount at h
  simp only [run_bind_ok] at h
  obtain ⟨t, c1, ht, h⟩ := h
  obtain ⟨pos, hpos, hlt, rfl, rfl⟩ := (rv_vt_run_ok _ _ _ _ _ _).1 ht
  simp only [TempNum.toNat, Nat.add_zero] at hlt h
  refine ⟨pos, hpos, hlt, ?_⟩
  match n with
  | 0 =>
    simp only [run_bind_ok, run_pure_ok] at h
    obtain ⟨cd, c2, hcd, rfl, rfl⟩ := h
    exact ⟨cd, hcd, rfl⟩
  | 1 =>
    simp only [run_pure_ok] at h
    exact ⟨h.1.symm, h.2⟩
  | m + 2 =>
    simp only [run_bind_ok, run_pure_ok] at h
    obtain ⟨cd, c2, hcd, rfl, rfl⟩ := h
    exact ⟨cd, hcd, rfl⟩

include L hndL hheap in
theorem urc_step3 {P : Abs.Program} {hooks : Bool} {types : List TypeDecl} {Γ : Ctx} {b : Binding} (tl : Nat)
    (cfg : Config) (code : List MockOp) (c c' : Nat)
    (hrun : (updateReferenceCount mockSym b.var Γ tl).run c = .ok (code, c'))
    (hat : CodeAt P cfg.pc code)
    (p : Word) (hp : cfg.temps.get (2 * Scc.Backend.Subst.posIn Γ b.var.id) = some p)
    (hcap : 2 * Scc.Backend.Subst.posIn Γ b.var.id ≠ Mock.T_TEMP)
    (acc rs : List Nat) (Hh : HeapOK cfg.heap (acc ++ rp p ++ rs) cfg.next)
    (hi : Scc.Backend.Subst.posIn Γ b.var.id < Γ.length)
    (hchi : Γ[Scc.Backend.Subst.posIn Γ b.var.id].chi ≠ .ext)
    {hs : HState} {ι : Nat → Nat} {st : State} (X : X3R mc cw τ Γ cfg (acc ++ rp p ++ rs) hs ι st)
    {kx kx' : Nat} {xcode more : List Code}
    (hrunX : (updateReferenceCount rvBackend b.var Γ tl).run kx = .ok (xcode, kx'))
    (hatX : KAt ks st.pc (xcode ++ more))
    (hlen : (acc ++ rp p ++ rs).length ≤ 2 ^ 40) (htl : tl < 2 ^ 31) :
    ∃ k cfg1, stepsTo P k cfg cfg1 ∧ cfg1.pc = cfg.pc + instrCount code ∧ cfg1.out = cfg.out ∧
      cfg1.next = cfg.next ∧ c = c' ∧
      HeapOK cfg1.heap (acc ++ (List.replicate tl (rp p)).flatten ++ rs) cfg1.next ∧
      (∀ t, t ≠ Mock.T_TEMP → (t ≠ 2 * Scc.Backend.Subst.posIn Γ b.var.id ∨ 0 < tl) →
        cfg1.temps.get t = cfg.temps.get t) ∧
      (∀ (v : Value) (p' : Option Word) (w : Word), RepV P hooks types cfg.heap v p' w →
        (tl = 0 → ∀ r, p' = some r → r ≠ 0 → r.toNat ∈ acc ++ rs) →
        RepV P hooks types cfg1.heap v p' w) ∧
      (∀ (v : Value) (p' : Option Word) (w m : Word), CV P hooks types Q τ cfg.heap v p' w m →
        (tl = 0 → ∀ r, p' = some r → r ≠ 0 → r.toNat ∈ acc ++ rs) →
        CV P hooks types Q τ cfg1.heap v p' w m) ∧
      ∃ st1 hs1, Reach pr mc st st1 ∧ KAt ks st1.pc more ∧
        X3R mc cw τ Γ cfg1 (acc ++ (List.replicate tl (rp p)).flatten ++ rs) hs1 ι st1 ∧ FrLe hs hs1 0 := by
  obtain ⟨pos, hpos, hcc, hcode⟩ := Scc.Backend.Subst.urc_run_ok _ _ _ _ _ _ hrun
  have hposIn : Scc.Backend.Subst.posIn Γ b.var.id = pos := by
    unfold Scc.Backend.Subst.posIn; rw [hpos]; rfl
  obtain ⟨posX, hposX, hltX, hcodeX⟩ := x_urc_run_ok _ _ _ _ _ _ hrunX
  have hpx : posX = pos := by
    rw [ctxPosition_eq_posOf] at hpos
    rw [hpos] at hposX
    exact (Option.some.inj hposX).symm
  subst hpx
  generalize hpi : Scc.Backend.Subst.posIn Γ b.var.id = pi at *
  have hposIn' := hposIn.symm
  subst hposIn'
  cases tl with
  | zero =>
    simp only at hcode hcodeX
    subst hcode
    obtain ⟨ecode, hrunE, rfl⟩ := hcodeX
    simp only [CodeAt] at hat
    obtain ⟨hc, _⟩ := hat
    have H' : HeapOK cfg.heap ((acc ++ rs) ++ (if p != 0 then [p.toNat] else [])) cfg.next := by
      apply heapOK_count_congr Hh
      intro x
      simp only [rp, List.count_append]
      omega
    obtain ⟨h', he, Hh', hrep⟩ := erase_ok (P := P) (hooks := hooks) (types := types) p H'
    -- the machine
    have hatX' : KAt ks st.pc ([Code.COMMENT ("#erase " ++ b.var.print)] ++ (ecode ++ more)) := by
      simpa using hatX
    obtain ⟨pc0, k0, hr0, hat0⟩ := pass_comments L hndL hheap hatX' (fun y hy => by simp at hy; exact ⟨_, hy⟩)
    have Xe : X3R mc cw τ Γ cfg ((acc ++ rs) ++ rp p) hs ι (setPS st pc0 k0) :=
      X3R.setPS (X.roots_congr (fun x => by simp only [List.count_append]; omega)) _ _
    obtain ⟨code2, hrun2, hfree, hncl, st', hs', hx, X', hfrE⟩ :=
      erase_x3 (la := pr.labelAddr) hi hchi Xe hp he rfl kx
    have hce : code2 = ecode := by
      rw [hrunE] at hrun2
      injection hrun2 with hrun2
      injection hrun2 with e1 _
      exact e1.symm
    subst hce
    obtain ⟨pc1, k1, hr1, hat1⟩ := exec_block L hndL hheap (s := setPS st pc0 k0) hat0 hfree hncl hx
    refine ⟨1, _, stepsTo_one P _ _ (step_erase P cfg _ p h' hc hp he), by simp [instrCount], rfl, rfl,
      hcc, by simpa using Hh', ?_, fun v p' w hv hcond => hrep v p' w hv (hcond rfl),
      fun v p' w m hv hcond => erase_cv p H' he v p' w m hv (hcond rfl), ?_⟩
    · intro t ht hor
      have htp : t ≠ 2 * posX := by
        rcases hor with h | h
        · exact h
        · omega
      show ((clobberTemp cfg.temps).unset (2 * posX)).get t = _
      rw [get_unset_other _ htp, get_clobberTemp _ ht]
    · refine ⟨setPS st' pc1 k1, hs', hr0.trans hr1, hat1, ?_, hfrE⟩
      simp only [List.replicate_zero, List.flatten_nil, List.append_nil]
      exact X3R.setPS X' _ _
  | succ n =>
  cases n with
  | zero =>
    simp only at hcode hcodeX
    subst hcode
    obtain ⟨rfl, rfl⟩ := hcodeX
    refine ⟨0, cfg, rfl, by simp [instrCount], rfl, rfl, hcc, by simpa using Hh, fun _ _ _ => rfl,
      fun _ _ _ hv _ => hv, fun _ _ _ _ hv _ => hv, st, hs, Reach.refl _ _ _, by simpa using hatX, ?_,
      Scc.Heap.Refine.FrLe.refl hs⟩
    simpa using X
  | succ m =>
    simp only at hcode hcodeX
    subst hcode
    obtain ⟨scode, hrunS, rfl⟩ := hcodeX
    simp only [CodeAt] at hat
    obtain ⟨hc, _⟩ := hat
    have hmem : p ≠ 0 → p.toNat ∈ acc ++ rp p ++ rs := by
      intro h0
      have : (p != 0) = true := by rw [bne_iff_ne]; exact h0
      simp only [rp, this, if_true, List.mem_append, List.mem_singleton]
      exact Or.inl (Or.inr trivial)
    obtain ⟨h', he, Hh', hk⟩ := share_heapOK p (m + 1) hmem Hh
    -- the machine
    have hatX' : KAt ks st.pc ([Code.COMMENT ("#share " ++ b.var.print)] ++ (scode ++ more)) := by
      simpa using hatX
    obtain ⟨pc0, k0, hr0, hat0⟩ := pass_comments L hndL hheap hatX' (fun y hy => by simp at hy; exact ⟨_, hy⟩)
    have Xe : X3R mc cw τ Γ cfg (acc ++ rp p ++ rs) hs ι (setPS st pc0 k0) := X3R.setPS X _ _
    obtain ⟨code2, hrun2, hfree, hncl, st', hs', hx, X', hfrS⟩ :=
      share_x3 (la := pr.labelAddr) hi hchi Xe hmem hlen hp (k := m + 1) (by omega) he rfl kx
    have hce : code2 = scode := by
      rw [hrunS] at hrun2
      injection hrun2 with hrun2
      injection hrun2 with e1 _
      exact e1.symm
    subst hce
    obtain ⟨pc1, k1, hr1, hat1⟩ := exec_block L hndL hheap (s := setPS st pc0 k0) hat0 hfree hncl hx
    have hcount : ∀ x, (acc ++ (List.replicate (m + 1 + 1) (rp p)).flatten ++ rs).count x =
        (acc ++ rp p ++ rs ++ (List.replicate (m + 1) (rp p)).flatten).count x := by
      intro x
      simp only [List.count_append, Scc.Backend.Subst.count_replicate_flatten]
      rw [show m + 1 + 1 = (m + 1) + 1 by omega, Nat.succ_mul]
      omega
    refine ⟨1, _, stepsTo_one P _ _ (step_share P cfg _ _ p h' hc hp he), by simp [instrCount], rfl, rfl,
      hcc, ?_, ?_, fun v p' w hv _ => RepV.kept hk hv,
      fun v p' w m hv _ => CV.kept hk (fun _ _ _ => rfl) hv, ?_⟩
    · apply heapOK_count_congr Hh'
      intro x
      have e : (if p != 0 then [p.toNat] else []) = rp p := rfl
      rw [e]
      exact hcount x
    · intro t ht _
      show (clobberTemp cfg.temps).get t = _
      exact get_clobberTemp _ ht
    · refine ⟨setPS st' pc1 k1, hs', hr0.trans hr1, hat1, ?_, hfrS⟩
      exact (X3R.setPS X' _ _).roots_congr hcount

open Scc.Backend.Subst in
include L hndL hheap in
theorem run_cwc3 {P : Abs.Program} {hooks : Bool} {types : List TypeDecl} {Γ : Ctx} {ρ : List Value}
    {pairs : List (Binding × Ident)} {σ0 : Temps}
    (hΓ : (Γ.map (·.var.id)).Nodup) (hcap : 2 * Γ.length + 2 < Mock.T_TEMP)
    (hptr : ∀ i (hi : i < Γ.length), Γ[i].chi ≠ .ext → (σ0.get (2 * i)).isSome)
    (hpl : pairs.length < 2 ^ 31) {ι : Nat → Nat} :
    ∀ (rest : List (Binding × List Nat)) (acc : List Nat) (cfg : Config) (code : List MockOp) (c c' : Nat),
    (codeWeakeningContraction mockSym rest Γ).run c = .ok (code, c') → CodeAt P cfg.pc code →
    (∀ e ∈ rest, e.1 ∈ Γ ∧ e.2 = targetsOf pairs e.1) → (rest.map (·.1.var.id)).Nodup →
    HeapOK cfg.heap (acc ++ rootsT σ0 Γ rest) cfg.next →
    (∀ i (hi : i < Γ.length), targetsOf pairs Γ[i] ≠ [] → Γ[i].chi ≠ .ext →
      (∃ e ∈ rest, e.1 = Γ[i]) ∨ (∀ y ∈ rootOf σ0 Γ[i] i, y ∈ acc)) →
    (∀ i (hi : i < Γ.length), (targetsOf pairs Γ[i] ≠ [] ∨ ∃ e ∈ rest, e.1 = Γ[i]) →
      cfg.temps.get (2 * i) = σ0.get (2 * i) ∧ cfg.temps.get (2 * i + 1) = σ0.get (2 * i + 1)) →
    (∀ i (hi : i < Γ.length) (hi2 : i < ρ.length), targetsOf pairs Γ[i] ≠ [] →
      RepV P hooks types cfg.heap ρ[i] (if Γ[i].chi == .ext then none else σ0.get (2 * i))
        ((σ0.get (2 * i + 1)).getD 0)) →
    (∀ i (hi : i < Γ.length) (hi2 : i < ρ.length), targetsOf pairs Γ[i] ≠ [] →
      CV P hooks types Q τ cfg.heap ρ[i] (if Γ[i].chi == .ext then none else σ0.get (2 * i))
        ((σ0.get (2 * i + 1)).getD 0) (cw i)) →
    ∀ (st : State) (hs : HState) (kx : Nat) (xcode more : List Code) (kx' : Nat),
    (codeWeakeningContraction rvBackend rest Γ).run kx = .ok (xcode, kx') → KAt ks st.pc (xcode ++ more) →
    X3R mc cw τ Γ cfg (acc ++ rootsT σ0 Γ rest) hs ι st →
    (acc ++ rootsT σ0 Γ rest).length + rest.length * pairs.length ≤ 2 ^ 40 →
    ∃ k cfg1, stepsTo P k cfg cfg1 ∧ cfg1.pc = cfg.pc + instrCount code ∧ cfg1.out = cfg.out ∧
      cfg1.next = cfg.next ∧ c = c' ∧
      HeapOK cfg1.heap (acc ++ rootsDone σ0 Γ rest) cfg1.next ∧
      (∀ i (hi : i < Γ.length), targetsOf pairs Γ[i] ≠ [] →
        cfg1.temps.get (2 * i) = σ0.get (2 * i) ∧ cfg1.temps.get (2 * i + 1) = σ0.get (2 * i + 1)) ∧
      (∀ i (hi : i < Γ.length) (hi2 : i < ρ.length), targetsOf pairs Γ[i] ≠ [] →
        RepV P hooks types cfg1.heap ρ[i] (if Γ[i].chi == .ext then none else σ0.get (2 * i))
          ((σ0.get (2 * i + 1)).getD 0)) ∧
      (∀ i (hi : i < Γ.length) (hi2 : i < ρ.length), targetsOf pairs Γ[i] ≠ [] →
        CV P hooks types Q τ cfg1.heap ρ[i] (if Γ[i].chi == .ext then none else σ0.get (2 * i))
          ((σ0.get (2 * i + 1)).getD 0) (cw i)) ∧
      ∃ st1 hs1, Reach pr mc st st1 ∧ KAt ks st1.pc more ∧
        X3R mc cw τ Γ cfg1 (acc ++ rootsDone σ0 Γ rest) hs1 ι st1 ∧ FrLe hs hs1 0
  | [], acc, cfg, code, c, c', hrun, _, _, _, H, _, T, Vv, Vc, st, hs, kx, xcode, more, kx', hrunX, hatX, X, _ => by
    simp only [codeWeakeningContraction, run_pure_ok] at hrun hrunX
    obtain ⟨rfl, rfl⟩ := hrun
    obtain ⟨rfl, rfl⟩ := hrunX
    refine ⟨0, cfg, rfl, by simp [instrCount], rfl, rfl, rfl, ?_, ?_, Vv, Vc, st, hs, Reach.refl _ _ _,
      by simpa using hatX, ?_, Scc.Heap.Refine.FrLe.refl hs⟩
    · simpa [rootsT, rootsDone] using H
    · intro i hi hS; exact T i hi (Or.inl hS)
    · simpa [rootsT, rootsDone] using X
  | (b, targets) :: rest', acc, cfg, code, c, c', hrun, hat, hent, hnd, H, J, T, Vv, Vc, st, hs, kx, xcode, more, kx',
      hrunX, hatX, X, hlen => by
    unfold codeWeakeningContraction at hrun hrunX
    simp only [run_bind_ok, run_pure_ok] at hrun hrunX
    obtain ⟨code1, c1, h1, code2, c2, h2, rfl, rfl⟩ := hrun
    obtain ⟨code1X, k1X, h1X, code2X, k2X, h2X, rfl, rfl⟩ := hrunX
    have htl_le : targets.length ≤ pairs.length := by
      have := (hent (b, targets) (by simp)).2
      simp only at this
      rw [this]
      unfold targetsOf
      rw [List.length_map]
      exact List.length_filter_le _ _
    rw [CodeAt_append] at hat
    obtain ⟨hat1, hat2⟩ := hat
    obtain ⟨hbΓ, htg⟩ := hent (b, targets) (by simp)
    simp only at hbΓ htg
    obtain ⟨i, hi, hgi, hposi⟩ := posIn_of_mem hΓ hbΓ
    have hent' : ∀ e ∈ rest', e.1 ∈ Γ ∧ e.2 = targetsOf pairs e.1 := fun e he => hent e (by simp [he])
    simp only [List.map_cons, List.nodup_cons] at hnd
    -- an entry of the rest is at another position
    have hother : ∀ e ∈ rest', e.1 ≠ b := by
      intro e he hc
      exact hnd.1 (List.mem_map.mpr ⟨e, he, by rw [hc]⟩)
    by_cases hext : b.chi = .ext
    · -- `ext`: no code, no root
      have hbne : (b.chi != .ext) = false := (Sim2.chi_bne_ext_false _).mpr hext
      simp only [hbne, Bool.false_eq_true, if_false, run_pure_ok] at h1 h1X
      obtain ⟨rfl, rfl⟩ := h1
      obtain ⟨rfl, rfl⟩ := h1X
      have hroot : rootAt σ0 Γ b = [] := rootOf_ext σ0 hext _
      have H' : HeapOK cfg.heap (acc ++ rootsT σ0 Γ rest') cfg.next := by
        simpa [rootsT, hroot] using H
      have J' : ∀ i' (hi' : i' < Γ.length), targetsOf pairs Γ[i'] ≠ [] → Γ[i'].chi ≠ .ext →
          (∃ e ∈ rest', e.1 = Γ[i']) ∨ (∀ y ∈ rootOf σ0 Γ[i'] i', y ∈ acc) := by
        intro i' hi' hS hne
        rcases J i' hi' hS hne with ⟨e, he, hee⟩ | h
        · rcases List.mem_cons.mp he with rfl | he'
          · simp only at hee
            rw [← hee] at hne
            exact absurd hext hne
          · exact Or.inl ⟨e, he', hee⟩
        · exact Or.inr h
      have T' : ∀ i' (hi' : i' < Γ.length), (targetsOf pairs Γ[i'] ≠ [] ∨ ∃ e ∈ rest', e.1 = Γ[i']) →
          cfg.temps.get (2 * i') = σ0.get (2 * i') ∧ cfg.temps.get (2 * i' + 1) = σ0.get (2 * i' + 1) := by
        intro i' hi' h
        apply T i' hi'
        rcases h with h | ⟨e, he, hee⟩
        · exact Or.inl h
        · exact Or.inr ⟨e, by simp [he], hee⟩
      have hrT : rootsT σ0 Γ ((b, targets) :: rest') = rootsT σ0 Γ rest' := by simp [rootsT, hroot]
      obtain ⟨k, cfg1, hs', hpc, hout, hnext, hcc, H1, T1, V1, C1, st1, hs1, hn1, hat1', X1, hfr1⟩ :=
        run_cwc3 hΓ hcap hptr hpl rest' acc cfg code2 _ _ h2 (by simpa [instrCount] using hat2) hent' hnd.2 H' J'
          T' Vv Vc st hs _ code2X more _ h2X (by simpa using hatX) (by rw [← hrT]; exact X)
          (by
            rw [hrT] at hlen
            simp only [List.length_cons] at hlen
            have : rest'.length * pairs.length ≤ (rest'.length + 1) * pairs.length :=
              Nat.mul_le_mul_right _ (Nat.le_succ _)
            omega)
      refine ⟨k, cfg1, hs', by simpa [instrCount] using hpc, hout, hnext, hcc, ?_, T1, V1, C1, st1, hs1, hn1,
        hat1', ?_, hfr1⟩
      · simpa [rootsDone, hroot, flatten_replicate_nil] using H1
      · have : rootsDone σ0 Γ ((b, targets) :: rest') = rootsDone σ0 Γ rest' := by
          simp [rootsDone, hroot, flatten_replicate_nil]
        rw [this]; exact X1
    · -- an object or closure variable
      have hbne : (b.chi != .ext) = true := (Sim2.chi_bne_ext _).mpr hext
      simp only [hbne, if_true] at h1 h1X
      have hci : Γ[i].chi ≠ .ext := by rw [hgi]; exact hext
      obtain ⟨hT0, _⟩ := T i hi (Or.inr ⟨(b, targets), by simp, hgi.symm⟩)
      obtain ⟨p, hp0⟩ := Option.isSome_iff_exists.mp (hptr i hi hci)
      have hp : cfg.temps.get (2 * posIn Γ b.var.id) = some p := by rw [hposi, hT0, hp0]
      have hroot : rootAt σ0 Γ b = rp p := by
        unfold rootAt; rw [hposi]; exact rootOf_nonext hext hp0
      have hrooti : rootOf σ0 Γ[i] i = rp p := rootOf_nonext hci hp0
      have H0 : HeapOK cfg.heap (acc ++ rp p ++ rootsT σ0 Γ rest') cfg.next := by
        have : rootsT σ0 Γ ((b, targets) :: rest') = rp p ++ rootsT σ0 Γ rest' := by
          simp [rootsT, hroot]
        rw [this, ← List.append_assoc] at H
        exact H
      have hrT : rootsT σ0 Γ ((b, targets) :: rest') = rp p ++ rootsT σ0 Γ rest' := by
        simp [rootsT, hroot]
      have X0 : X3R mc cw τ Γ cfg (acc ++ rp p ++ rootsT σ0 Γ rest') hs ι st := by
        rw [hrT, ← List.append_assoc] at X; exact X
      have hlen0 : (acc ++ rp p ++ rootsT σ0 Γ rest').length ≤ 2 ^ 40 := by
        rw [hrT, ← List.append_assoc] at hlen; omega
      obtain ⟨k1, cfg1, hs1, hpc1, hout1, hnext1, hcc1, H1, ht1, hr1, hr1c, stA, hsA, hnA, hatA, XA, hfrA⟩ :=
        urc_step3 L hndL hheap (P := P) (hooks := hooks) (types := types) (Q := Q) targets.length cfg code1 c c1 h1
          hat1 p hp (by rw [hposi]; omega) acc (rootsT σ0 Γ rest') H0 (by rw [hposi]; exact hi)
          (by
            have e : Γ[posIn Γ b.var.id]'(by rw [hposi]; exact hi) = Γ[i] := by
              congr 1
            rw [e]; exact hci)
          X0 h1X (more := code2X ++ more) (by simpa [List.append_assoc] using hatX) hlen0 (by omega)
      subst hcc1
      have hS_tl : targetsOf pairs Γ[i] ≠ [] → 0 < targets.length := by
        intro h
        rw [hgi, ← htg] at h
        exact List.length_pos_iff.mpr h
      -- the invariants after this binding
      have J' : ∀ i' (hi' : i' < Γ.length), targetsOf pairs Γ[i'] ≠ [] → Γ[i'].chi ≠ .ext →
          (∃ e ∈ rest', e.1 = Γ[i']) ∨
            (∀ y ∈ rootOf σ0 Γ[i'] i', y ∈ acc ++ (List.replicate targets.length (rp p)).flatten) := by
        intro i' hi' hS hne
        rcases J i' hi' hS hne with ⟨e, he, hee⟩ | h
        · rcases List.mem_cons.mp he with rfl | he'
          · simp only at hee
            have hii : i' = i := getElem_inj_ids hΓ hi' hi (by rw [← hee, hgi])
            subst hii
            right
            intro y hy
            rw [hrooti] at hy
            exact List.mem_append.mpr (Or.inr (mem_replicate_flatten (hS_tl hS) hy))
          · exact Or.inl ⟨e, he', hee⟩
        · exact Or.inr (fun y hy => List.mem_append.mpr (Or.inl (h y hy)))
      have T' : ∀ i' (hi' : i' < Γ.length), (targetsOf pairs Γ[i'] ≠ [] ∨ ∃ e ∈ rest', e.1 = Γ[i']) →
          cfg1.temps.get (2 * i') = σ0.get (2 * i') ∧ cfg1.temps.get (2 * i' + 1) = σ0.get (2 * i' + 1) := by
        intro i' hi' h
        have hold' := T i' hi' (by
          rcases h with h | ⟨e, he, hee⟩
          · exact Or.inl h
          · exact Or.inr ⟨e, by simp [he], hee⟩)
        have hcond : 2 * i' ≠ 2 * posIn Γ b.var.id ∨ 0 < targets.length := by
          rw [hposi]
          by_cases hii : i' = i
          · subst hii
            rcases h with h | ⟨e, he, hee⟩
            · exact Or.inr (hS_tl h)
            · exact absurd (hee.trans hgi) (hother e he)
          · left; omega
        refine ⟨?_, ?_⟩
        · rw [ht1 _ (by omega) hcond]; exact hold'.1
        · rw [ht1 _ (by omega) (Or.inl (by omega))]; exact hold'.2
      have hcondV : ∀ i' (hi' : i' < Γ.length), targetsOf pairs Γ[i'] ≠ [] →
          targets.length = 0 → ∀ r, (if Γ[i'].chi == .ext then none else σ0.get (2 * i')) = some r → r ≠ 0 →
          r.toNat ∈ acc ++ rootsT σ0 Γ rest' := by
        intro i' hi' hS
        intro htl0 r hr hr0
        by_cases hce : (Γ[i'].chi == .ext) = true
        · simp [hce] at hr
        · simp only [hce, Bool.false_eq_true, if_false] at hr
          have hne : Γ[i'].chi ≠ .ext := fun e => hce ((Sim2.chi_beq_ext _).mpr e)
          have hroot' : rootOf σ0 Γ[i'] i' = [r.toNat] := by
            rw [rootOf_nonext hne hr]
            have : (r != 0) = true := by rw [bne_iff_ne]; exact hr0
            simp only [rp, this, if_true]
          rcases J i' hi' hS hne with ⟨e, he, hee⟩ | h
          · rcases List.mem_cons.mp he with rfl | he'
            · simp only at hee
              have hii : i' = i := getElem_inj_ids hΓ hi' hi (by rw [← hee, hgi])
              subst hii
              have := hS_tl hS
              omega
            · apply List.mem_append.mpr
              right
              unfold rootsT
              rw [List.mem_flatMap]
              refine ⟨e, he', ?_⟩
              unfold rootAt
              rw [hee, posIn_getElem hΓ hi', hroot']
              simp
          · exact List.mem_append.mpr (Or.inl (h _ (by rw [hroot']; simp)))
      have V' : ∀ i' (hi' : i' < Γ.length) (hi2 : i' < ρ.length), targetsOf pairs Γ[i'] ≠ [] →
          RepV P hooks types cfg1.heap ρ[i'] (if Γ[i'].chi == .ext then none else σ0.get (2 * i'))
            ((σ0.get (2 * i' + 1)).getD 0) :=
        fun i' hi' hi2 hS => hr1 _ _ _ (Vv i' hi' hi2 hS) (hcondV i' hi' hS)
      have C' : ∀ i' (hi' : i' < Γ.length) (hi2 : i' < ρ.length), targetsOf pairs Γ[i'] ≠ [] →
          CV P hooks types Q τ cfg1.heap ρ[i'] (if Γ[i'].chi == .ext then none else σ0.get (2 * i'))
            ((σ0.get (2 * i' + 1)).getD 0) (cw i') :=
        fun i' hi' hi2 hS => hr1c _ _ _ _ (Vc i' hi' hi2 hS) (hcondV i' hi' hS)
      have H1' : HeapOK cfg1.heap ((acc ++ (List.replicate targets.length (rp p)).flatten) ++
          rootsT σ0 Γ rest') cfg1.next := H1
      have hflen : ((List.replicate targets.length (rp p)).flatten).length ≤ targets.length := by
        have : ∀ k : Nat, ((List.replicate k (rp p)).flatten).length ≤ k := by
          intro k
          induction k with
          | zero => simp
          | succ k ih =>
            simp only [List.replicate_succ, List.flatten_cons, List.length_append]
            have : (rp p).length ≤ 1 := by unfold rp; split <;> simp
            omega
        exact this _
      obtain ⟨k2, cfg2, hs2, hpc2, hout2, hnext2, hcc2, H2, T2, V2, C2, stB, hsB, hnB, hatB, XB, hfrB⟩ :=
        run_cwc3 hΓ hcap hptr hpl rest' _ cfg1 code2 _ _ h2 (by rw [hpc1]; exact hat2) hent' hnd.2 H1' J' T' V' C'
          stA hsA _ code2X more _ h2X hatA XA
          (by
            rw [hrT] at hlen
            simp only [List.length_append, List.length_cons] at hlen ⊢
            have h1 : rest'.length * pairs.length + pairs.length = (rest'.length + 1) * pairs.length := by
              rw [Nat.succ_mul]
            omega)
      have hfrAB : FrLe hs hsB 0 := by
        obtain ⟨l1, l2, l3, f1, I1⟩ := XA.href.conc
        have := Scc.Heap.Refine.FrLe.trans hfrA hfrB ⟨_, l1, l2, l3, f1, I1⟩
        simpa using this
      refine ⟨k1 + k2, cfg2, stepsTo_trans P _ _ _ _ _ hs1 hs2, ?_, by rw [hout2, hout1],
        by rw [hnext2, hnext1], hcc2, ?_, T2, V2, C2, stB, hsB, hnA.trans hnB, hatB, ?_,
        hfrAB⟩
      · rw [hpc2, hpc1, instrCount_append]; omega
      · have : rootsDone σ0 Γ ((b, targets) :: rest') =
            (List.replicate targets.length (rp p)).flatten ++ rootsDone σ0 Γ rest' := by
          simp [rootsDone, hroot]
        rw [this, ← List.append_assoc]
        exact H2
      · have : rootsDone σ0 Γ ((b, targets) :: rest') =
            (List.replicate targets.length (rp p)).flatten ++ rootsDone σ0 Γ rest' := by
          simp [rootsDone, hroot]
        rw [this, ← List.append_assoc]
        exact XB


end Urc

/-! ## the shadow configuration: the abstract temporaries := what the machine holds -/

/-- the temporaries of all positions as the machine holds them -/
def shadowTemps (st : State) : Temps :=
  (List.range 28).filterMap fun t => (rv st t).map fun v => (t, v)

theorem get_shadowTemps (st : State) (t : Nat) :
    (shadowTemps st).get t = if t < 28 then rv st t else none := by
  unfold shadowTemps Temps.get
  have key : ∀ n, ((List.range n).filterMap fun t' => (rv st t').map fun v => (t', v)).find?
      (fun e => e.1 == t) = if t < n then (rv st t).map (fun v => (t, v)) else none := by
    intro n
    induction n with
    | zero => simp
    | succ n ih =>
      rw [List.range_succ, List.filterMap_append, List.find?_append, ih]
      by_cases h1 : t < n
      · have : t < n + 1 := by omega
        simp only [h1, this, if_true]
        cases hv : rv st t with
        | none =>
          simp only [Option.map_none, Option.none_or]
          simp only [List.filterMap_cons, List.filterMap_nil]
          cases hn : rv st n with
          | none => simp
          | some w =>
            simp only [Option.map_some]
            have : (n == t) = false := by simp; omega
            simp [this]
        | some w => simp
      · simp only [h1, if_false, Option.none_or, List.filterMap_cons, List.filterMap_nil]
        by_cases h2 : t = n
        · subst h2
          simp only [Nat.lt_succ_self, if_true]
          cases hn : rv st t with
          | none => simp
          | some w => simp
        · have : ¬ t < n + 1 := by omega
          simp only [this, if_false]
          cases hn : rv st n with
          | none => simp
          | some w =>
            simp only [Option.map_some]
            have : (n == t) = false := by simp; omega
            simp [this]
  rw [key 28]
  by_cases h : t < 28
  · simp only [h, if_true]
    cases rv st t <;> rfl
  · simp only [h, if_false]

theorem stepsTo_det (P : Abs.Program) : ∀ (k : Nat) (c c1 c2 : Config), stepsTo P k c c1 → stepsTo P k c c2 → c1 = c2
  | 0, c, c1, c2, h1, h2 => by
    have e1 : c = c1 := h1
    have e2 : c = c2 := h2
    rw [← e1, ← e2]
  | k + 1, c, c1, c2, h1, h2 => by
    obtain ⟨a, ha, h1'⟩ := h1
    obtain ⟨b, hb, h2'⟩ := h2
    rw [ha] at hb
    injection hb with hb
    subst hb
    exact stepsTo_det P k a c1 c2 h1' h2'

theorem keep_refl {st : State} (hwf : st.WF) (ch : Nat → Prop) : Keep st st ch := ⟨hwf, rfl, fun _ _ _ _ => rfl⟩

theorem not_moveReg_2 : ¬ MoveReg 2 := by
  rintro (h | ⟨t, _, h⟩)
  · omega
  · unfold posReg at h; omega

theorem not_moveReg_3 : ¬ MoveReg 3 := by
  rintro (h | ⟨t, _, h⟩)
  · omega
  · unfold posReg at h; omega

/-! ## `subst`, three-way -/

/-- the closure words of the positions after a substitution: position `j` gets the word of its source -/
def cwSubst (cw : Nat → Word) (Γ : Ctx) (pairs : List (Binding × Ident)) : Nat → Word :=
  fun j => match pairs[j]? with
    | some p => cw (Scc.Backend.Subst.posIn Γ p.2.id)
    | none => 0

theorem cwSubst_eq (cw : Nat → Word) (Γ : Ctx) (pairs : List (Binding × Ident)) {j : Nat} (hj : j < pairs.length) :
    cwSubst cw Γ pairs j = cw (Scc.Backend.Subst.posIn Γ pairs[j].2.id) := by
  unfold cwSubst
  rw [List.getElem?_eq_getElem hj]

section Subst3

variable {mc : MonCfg} {cw : Nat → Word} {τ : Nat → Nat → Word} {pr : RV.Program} {ks : List Code} (L : Loaded pr ks)
  (hndL : (labs ks).Nodup) (hheap : mc.heap = false)

open Scc.Backend.Subst Scc.Backend.PM in
include L hndL hheap in
/-- THREE-WAY SIMULATION OF `subst` (weakening, contraction and exchange of integer AND object
variables): the proof of Theorem A's `sim2_subst` with the machine carried along -/
theorem subst_x3 {P : Abs.Program} {hooks : Bool} {prog : AxCut.Prog} {Γ : Ctx} {ρ : List Value}
    {pairs : List (Binding × Ident)} {next : Stmt} {cfg : Config} {vs : List Value}
    (R : RelX P hooks prog ⟨Γ, ρ, .subst pairs next⟩ cfg)
    (hΓ : (Γ.map (·.var.id)).Nodup)
    (hnew : (pairs.map (·.1.var.id)).Nodup)
    (hold : ∀ p ∈ pairs, ∃ b ∈ Γ, b.var.id = p.2.id ∧ b.chi = p.1.chi)
    (hcap : 2 * pairs.length + 2 < Mock.T_TEMP)
    (hvs : Pos.step.build Γ ρ pairs = .ok vs)
    {hsX : HState} {ι : Nat → Nat} {st : State} (X : X3 mc cw τ Γ cfg hsX ι st)
    {kx kx' : Nat} {items : List Code}
    (hrunX : (codeStatementR rvBackend hooks natRen prog.types (.subst pairs next) Γ).run kx = .ok (items, kx'))
    (hatX : KAt ks st.pc items)
    (hcapX : pairs.length ≤ 14)
    {Q : Word → Ctx → Clauses → Prop} (CVh : CVals P hooks prog.types Q cw τ cfg.heap cfg.temps Γ ρ) :
    ∃ k cfg' st' hs', stepsTo P k cfg cfg' ∧ Reach pr mc st st' ∧ FrLe hsX hs' 0 ∧
      cfg'.out = cfg.out ∧ cfg'.next = cfg.next ∧
      RelX P hooks prog ⟨pairs.map (·.1), vs, next⟩ cfg' ∧
      X3 mc (cwSubst cw Γ pairs) τ (pairs.map (·.1)) cfg' hs' ι st' ∧
      CVals P hooks prog.types Q (cwSubst cw Γ pairs) τ cfg'.heap cfg'.temps (pairs.map (·.1)) vs ∧
      ∃ k1 k1' items', (codeStatementR rvBackend hooks natRen prog.types next (pairs.map (·.1))).run k1 =
          .ok (items', k1') ∧ KAt ks st'.pc items' := by
  have hpl : pairs.length < 2 ^ 31 := by omega
  obtain ⟨c, c', ops, hrun, hat⟩ := R.code
  simp only [codeStatementR, run_bind_ok, run_pure_ok] at hrun hrunX
  obtain ⟨c1, k1, h1, c2, k2, h2, c3, k3, h3, rfl, rfl⟩ := hrun
  obtain ⟨c1X, k1X, h1X, c2X, k2X, h2X, c3X, k3X, h3X, rfl, rfl⟩ := hrunX
  -- the RV layout: comments, weakening/contraction, moves, the next statement
  generalize hc0 : hookCode rvBackend hooks Γ ++ [rvBackend.comment (substComment pairs)] = c0X at hatX
  have hc0c : ∀ y ∈ c0X, ∃ m', y = Code.COMMENT m' := by rw [← hc0]; exact hook_comments hooks Γ _
  have hatA : KAt ks st.pc (c0X ++ (c1X ++ (c2X ++ c3X))) := by simpa [List.append_assoc] using hatX
  obtain ⟨pc0, kc0, hkc0, hatB⟩ := pass_comments L hndL hheap hatA hc0c
  have Xa : X3 mc cw τ Γ cfg hsX ι (setPS st pc0 kc0) := X3R.setPS X _ _
  replace hatB : KAt ks (setPS st pc0 kc0).pc (c1X ++ (c2X ++ c3X)) := hatB
  generalize setPS st pc0 kc0 = sta at hkc0 Xa hatB
  have hcapΓ := R.cap
  have hlenρ := R.len
  simp only at hcapΓ hlenρ
  -- code layout
  simp only [mockSym_comment, List.append_assoc, CodeAt_hook] at hat
  simp only [List.cons_append, List.nil_append, CodeAt] at hat
  rw [CodeAt_append] at hat
  obtain ⟨hat1, hat23⟩ := hat
  rw [CodeAt_append] at hat23
  obtain ⟨hat2, hat3⟩ := hat23
  -- the transposed map
  have hperm := transpose_perm pairs Γ hΓ
  have hent : ∀ e ∈ transpose pairs Γ, e.1 ∈ Γ ∧ e.2 = targetsOf pairs e.1 := by
    intro e he
    obtain ⟨b, hb, rfl⟩ := (transpose_spec pairs Γ hΓ e).mp he
    exact ⟨hb, rfl⟩
  have hndtm : ((transpose pairs Γ).map (·.1.var.id)).Nodup := by
    have := (hperm.map (·.1.var.id))
    rw [this.nodup_iff, List.map_map]
    exact hΓ
  have hmemtm : ∀ i (hi : i < Γ.length), ∃ e ∈ transpose pairs Γ, e.1 = Γ[i] := by
    intro i hi
    exact ⟨(Γ[i], targetsOf pairs Γ[i]),
      (transpose_spec pairs Γ hΓ _).mpr ⟨Γ[i], List.getElem_mem hi, rfl⟩, rfl⟩
  have hptr : ∀ i (hi : i < Γ.length), Γ[i].chi ≠ .ext → (cfg.temps.get (2 * i)).isSome := by
    intro i hi hc
    exact (R.vals i hi (by rw [hlenρ]; exact hi)).2.2.2 ((Sim2.chi_bne_ext _).mpr hc)
  -- 1: erase / share
  have hlenTm : (transpose pairs Γ).length = Γ.length := by
    have := hperm.length_eq
    simpa using this
  have hrT_len : (rootsT cfg.temps Γ (transpose pairs Γ)).length ≤ (transpose pairs Γ).length := by
    unfold rootsT
    generalize transpose pairs Γ = tm
    induction tm with
    | nil => simp
    | cons e tm ih =>
      simp only [List.flatMap_cons, List.length_append, List.length_cons]
      have : (rootAt cfg.temps Γ e.1).length ≤ 1 := rootOf_length_le _ _ _
      omega
  obtain ⟨ka, cfg1, hs1, hpc1, hout1, hnext1, _, H1, T1, V1, C1, st1, hsA, hnA, hatC, X1, hfrC⟩ :=
    run_cwc3 L hndL hheap (P := P) (hooks := hooks) (types := prog.types) (Q := Q) (ρ := ρ) (pairs := pairs)
      (σ0 := cfg.temps) hΓ hcapΓ hptr hpl (ι := ι) (transpose pairs Γ) [] cfg c1 _ _ h1 hat1 hent hndtm
      (by
        apply heapOK_count_congr R.heap
        intro x
        simp only [List.nil_append]
        exact roots_count_transpose cfg.temps Γ pairs hΓ x)
      (fun i hi _ _ => Or.inl (hmemtm i hi))
      (fun i hi _ => ⟨rfl, rfl⟩)
      (fun i hi hi2 _ => (R.vals i hi hi2).1)
      (fun i hi hi2 _ => CVh i hi hi2)
      sta hsX _ c1X (c2X ++ c3X) _ h1X hatB
      (Xa.roots_congr (fun x => by
        simp only [List.nil_append]
        exact roots_count_transpose cfg.temps Γ pairs hΓ x))
      (by
        simp only [List.nil_append]
        have h1' := Xa.cap
        have : (transpose pairs Γ).length * pairs.length ≤ 14 * 2 ^ 31 := by
          rw [hlenTm]
          exact Nat.mul_le_mul (by omega) (by omega)
        omega)
  -- 2: the moves
  unfold codeExchange connections at h2
  simp only [run_bind_ok] at h2
  obtain ⟨conns, k4, h4, h5⟩ := h2
  obtain ⟨rfl, _, _⟩ := connections_go_spec Γ (pairs.map (·.1)) _ _ _ _ _ h4
  have W := conns_wf2 Γ pairs hΓ hnew hold
  obtain ⟨aops, haops, hsem⟩ := PMoves.parallelMovesFuel_correct (V := Option Word)
    (insertAll ((transpose pairs Γ).flatMap (entriesOf Γ (pairs.map (·.1)))) []) W.keys W.targets
    W.functional (fun _ => false)
    (PMoves.fuelFor (insertAll ((transpose pairs Γ).flatMap (entriesOf Γ (pairs.map (·.1)))) []))
    (by unfold PMoves.fuelFor; omega)
  have hmine := parallelMoves_eq _ aops haops
  rw [hmine] at h5
  simp only [run_pure_ok] at h5
  obtain ⟨rfl, rfl⟩ := h5
  have hne : ∀ x ∈ codeTemps (aops.map aopToMock), x ≠ Mock.T_TEMP := by
    intro x hx
    rcases W.range x (parallelMoves_temps _ _ hmine x hx) with h | h <;> omega
  obtain ⟨cfg2, hs2, hpc2, hheap2, hnext2, hout2, hag, _⟩ :=
    run_moves P aops cfg1 (fun t => cfg1.temps.get t) cfg1.scratch (by rw [hpc1]; exact hat2) hne
      (fun _ _ => rfl) rfl
  -- the moves on the machine: through a shadow configuration that holds the machine's words
  obtain ⟨opsS, hopsS, SS⟩ := mseg_codeExchange (transpose pairs Γ) Γ (pairs.map (·.1)) h2X
  have hopsE : opsS = aops.map aopToMock := by
    unfold codeExchange connections at hopsS
    simp only [run_bind_ok] at hopsS
    obtain ⟨connsS, k4S, h4S, h5S⟩ := hopsS
    obtain ⟨rfl, _, _⟩ := connections_go_spec Γ (pairs.map (·.1)) _ _ _ _ _ h4S
    rw [hmine] at h5S
    simp only [run_pure_ok] at h5S
    exact h5S.1.symm
  subst hopsE
  have hRS : MRel st1 { cfg1 with temps := shadowTemps st1, scratch := none } st1 :=
    ⟨(fun t v ht hg => by rw [get_shadowTemps, if_pos (show t < 28 from ht)] at hg; exact hg),
     (fun w hw => by cases hw), keep_refl X1.bnd.wf _⟩
  obtain ⟨cfgS2, st2, hsS, hnB, hatD, RS2, _⟩ :=
    mseg_follow L hndL hheap (P := P) SS c3X { cfg1 with temps := shadowTemps st1, scratch := none } st1
      (by rw [hpc1]; exact hat2) hatC hRS
  obtain ⟨cfgS2', hsS', _, _, _, _, hagS, _⟩ :=
    run_moves P aops { cfg1 with temps := shadowTemps st1, scratch := none }
      (fun t => (shadowTemps st1).get t) none (by rw [hpc1]; exact hat2) hne (fun _ _ => rfl) rfl
  have hdet : cfgS2' = cfgS2 := stepsTo_det P _ _ _ _ hsS' hsS
  subst hdet
  have hsemS := (hsem (fun t => (shadowTemps st1).get t) none).1
  -- a target of an edge holds, on the machine, what the source held before the moves
  have hedge : ∀ s t, PMoves.Edge
      (insertAll ((transpose pairs Γ).flatMap (entriesOf Γ (pairs.map (·.1)))) []) s t → t < 28 → s < 28 →
      ∀ v, rv st1 s = some v → rv st2 t = some v := by
    intro s t he ht hs' v hv
    apply RS2.temps t v ht
    rw [hagS t (by unfold Mock.T_TEMP; omega), hsemS _ _ he, get_shadowTemps, if_pos hs']
    exact hv
  have hsem' := (hsem (fun t => cfg1.temps.get t) cfg1.scratch).1
  obtain ⟨hlen, hbuild⟩ := build_spec Γ ρ pairs vs hvs
  -- the source of a new position
  have hsrc : ∀ j (hj : j < pairs.length) (hv : j < vs.length),
      ∃ i, ∃ hi : i < Γ.length, posIn Γ pairs[j].2.id = i ∧ ρ[i]? = some vs[j] ∧
        targetsOf pairs Γ[i] ≠ [] ∧ Γ[i].chi = pairs[j].1.chi := by
    intro j hj hv
    obtain ⟨i, hpos, hval⟩ := hbuild j hj hv
    have hi := posOf_lt hpos
    obtain ⟨_, hid⟩ := posOf_getElem hpos
    refine ⟨i, hi, posIn_eq hpos, hval, ?_, ?_⟩
    · intro hnil
      have : pairs[j].1.var.id ∈ targetsOf pairs Γ[i] :=
        mem_targetsOf.mpr ⟨pairs[j], List.getElem_mem hj, hid, rfl⟩
      rw [hnil] at this
      cases this
    · obtain ⟨b, hb, hbid, hbchi⟩ := hold pairs[j] (List.getElem_mem hj)
      obtain ⟨i', hi', hgi', hposi'⟩ := posIn_of_mem hΓ hb
      have : i' = i := by rw [← hposi', hbid]; exact posIn_eq hpos
      subst this
      rw [hgi']; exact hbchi
  have hget1 : ∀ j (hj : j < pairs.length) (hv : j < vs.length) (i : Nat) (hi : i < Γ.length),
      posIn Γ pairs[j].2.id = i → targetsOf pairs Γ[i] ≠ [] →
      cfg2.temps.get (2 * j + 1) = cfg.temps.get (2 * i + 1) := by
    intro j hj hv i hi hpi hS
    rw [hag _ (by omega)]
    have := hsem' _ _ (W.edgeSnd j hj)
    rw [hpi] at this
    rw [this]
    exact (T1 i hi hS).2
  have hget0 : ∀ j (hj : j < pairs.length) (i : Nat) (hi : i < Γ.length),
      posIn Γ pairs[j].2.id = i → targetsOf pairs Γ[i] ≠ [] → pairs[j].1.chi ≠ .ext →
      cfg2.temps.get (2 * j) = cfg.temps.get (2 * i) := by
    intro j hj i hi hpi hS hne'
    rw [hag _ (by omega)]
    have := hsem' _ _ (W.edgeFst j hj hne')
    rw [hpi] at this
    rw [this]
    exact (T1 i hi hS).1
  have hRelX : RelX P hooks prog ⟨pairs.map (·.1), vs, next⟩ cfg2 := by
    exact {
      len := by simp [hlen]
      cap := by simpa using hcap
      vals := by
        intro j h1' h2'
        have hj : j < pairs.length := by simpa using h1'
        obtain ⟨i, hi, hpi, hval, hS, hchi⟩ := hsrc j hj h2'
        have hi2 : i < ρ.length := by rw [hlenρ]; exact hi
        have hv : vs[j] = ρ[i] := by
          rw [List.getElem?_eq_getElem hi2] at hval
          exact (Option.some.inj hval).symm
        obtain ⟨_, hsome, hkind, hptr'⟩ := R.vals i hi hi2
        have hrep := V1 i hi hi2 hS
        have hcj : ((List.map (fun p : Binding × Ident => p.1) pairs)[j]'h1').chi = Γ[i].chi := by
          simp [hchi]
        rw [hcj, hget1 j hj h2' i hi hpi hS, hv, hheap2]
        refine ⟨?_, hsome, hkind, ?_⟩
        · by_cases hce : (Γ[i].chi == .ext) = true
          · simpa [hce] using hrep
          · have hne' : pairs[j].1.chi ≠ .ext := by
              rw [← hchi]; exact fun e => hce ((Sim2.chi_beq_ext _).mpr e)
            simp only [hce, Bool.false_eq_true, if_false] at hrep ⊢
            rw [hget0 j hj i hi hpi hS hne']
            exact hrep
        · intro hc
          have hne' : pairs[j].1.chi ≠ .ext := by
            rw [← hchi]; exact (Sim2.chi_bne_ext _).mp hc
          rw [hget0 j hj i hi hpi hS hne']
          exact hptr' hc
      heap := by
        rw [hheap2, hnext2]
        apply heapOK_count_congr H1
        intro x
        simp only [List.nil_append]
        apply roots_new_count cfg.temps cfg2.temps Γ pairs hΓ hold
        intro j hj hne'
        obtain ⟨b, hb, hbid, hbchi⟩ := hold pairs[j] (List.getElem_mem hj)
        obtain ⟨i, hi, hgi, hposi⟩ := posIn_of_mem hΓ hb
        have hpi : posIn Γ pairs[j].2.id = i := by rw [← hbid]; exact hposi
        have hS : targetsOf pairs Γ[i] ≠ [] := by
          intro hnil
          have : pairs[j].1.var.id ∈ targetsOf pairs Γ[i] :=
            mem_targetsOf.mpr ⟨pairs[j], List.getElem_mem hj, by rw [hgi]; exact hbid, rfl⟩
          rw [hnil] at this
          cases this
        rw [hpi]
        exact hget0 j hj i hi hpi hS hne'
      code := ⟨_, _, c3, h3, by rw [hpc2, hpc1]; simpa [Nat.add_assoc] using hat3⟩ }
  refine ⟨ka + instrCount (aops.map aopToMock), cfg2, st2, hsA, stepsTo_trans P _ _ _ _ _ hs1 hs2,
    hkc0.trans (hnA.trans hnB), hfrC, by rw [hout2, hout1], by rw [hnext2, hnext1],
    hRelX, ?_, ?_, _, _, c3X, h3X, hatD⟩
  rotate_left
  · -- the closures of the new context
    intro j h1' h2'
    have hj : j < pairs.length := by simpa using h1'
    obtain ⟨i, hi, hpi, hval, hS, hchi⟩ := hsrc j hj h2'
    have hi2 : i < ρ.length := by rw [hlenρ]; exact hi
    have hv : vs[j] = ρ[i] := by
      rw [List.getElem?_eq_getElem hi2] at hval
      exact (Option.some.inj hval).symm
    have hrep := C1 i hi hi2 hS
    have hcj : ((List.map (fun p : Binding × Ident => p.1) pairs)[j]'h1').chi = Γ[i].chi := by
      simp [hchi]
    rw [hcj, hget1 j hj h2' i hi hpi hS, hv, hheap2, cwSubst_eq cw Γ pairs hj, hpi]
    by_cases hce : (Γ[i].chi == .ext) = true
    · simpa [hce] using hrep
    · have hne' : pairs[j].1.chi ≠ .ext := by
        rw [← hchi]; exact fun e => hce ((Sim2.chi_beq_ext _).mpr e)
      simp only [hce, Bool.false_eq_true, if_false] at hrep ⊢
      rw [hget0 j hj i hi hpi hS hne']
      exact hrep
  -- the relation for the new context
  have hlenP : (pairs.map (·.1)).length = pairs.length := by simp
  refine ⟨⟨RS2.keep.wf, X1.bnd.top⟩, by rw [hlenP]; exact hcapX, ?_, ?_, ?_, ?_⟩
  · intro j hj a ha
    rw [hlenP] at hj
    have hv : j < vs.length := by rw [hlen]; exact hj
    obtain ⟨i, hi, hpi, hval, hS, hchi⟩ := hsrc j hj hv
    rw [hget1 j hj hv i hi hpi hS] at ha
    have hcj : ((List.map (fun p : Binding × Ident => p.1) pairs)[j]'(by rw [hlenP]; exact hj)).chi = Γ[i].chi := by
      simp [hchi]
    rw [hcj, cwSubst_eq cw Γ pairs hj, hpi]
    have h1' := X1.words i hi a (by rw [(T1 i hi hS).2]; exact ha)
    have hcapΓ' := X1.cap
    refine hedge _ _ ?_ (by omega) (by omega) _ h1'
    have := W.edgeSnd j hj
    rw [hpi] at this
    exact this
  · intro j hj hc r hr
    rw [hlenP] at hj
    have hv : j < vs.length := by rw [hlen]; exact hj
    obtain ⟨i, hi, hpi, hval, hS, hchi⟩ := hsrc j hj hv
    have hcj : ((List.map (fun p : Binding × Ident => p.1) pairs)[j]'(by rw [hlenP]; exact hj)).chi = Γ[i].chi := by
      simp [hchi]
    rw [hcj] at hc
    have hne' : pairs[j].1.chi ≠ .ext := by rw [← hchi]; exact hc
    rw [hget0 j hj i hi hpi hS hne'] at hr
    have h1' := X1.ptrs i hi hc r (by rw [(T1 i hi hS).1]; exact hr)
    have hcapΓ' := X1.cap
    refine hedge _ _ ?_ (by omega) (by omega) _ h1'
    have := W.edgeFst j hj hne'
    rw [hpi] at this
    exact this
  · exact RS2.keep.heapRel X1.hrel not_moveReg_2 not_moveReg_3
  · rw [hheap2, hnext2]
    refine HRef.roots_congr X1.href (fun x => ?_)
    simp only [List.nil_append]
    apply roots_new_count cfg.temps cfg2.temps Γ pairs hΓ hold
    intro j hj hne'
    obtain ⟨b, hb, hbid, hbchi⟩ := hold pairs[j] (List.getElem_mem hj)
    obtain ⟨i, hi, hgi, hposi⟩ := posIn_of_mem hΓ hb
    have hpi : posIn Γ pairs[j].2.id = i := by rw [← hbid]; exact hposi
    have hS : targetsOf pairs Γ[i] ≠ [] := by
      intro hnil
      have : pairs[j].1.var.id ∈ targetsOf pairs Γ[i] :=
        mem_targetsOf.mpr ⟨pairs[j], List.getElem_mem hj, by rw [hgi]; exact hbid, rfl⟩
      rw [hnil] at this
      cases this
    rw [hpi]
    exact hget0 j hj i hi hpi hS hne'

end Subst3

end Scc.RV.Ref
