/-
  Scc.RV.RefX3 — basic facts about the relation `X3R` (RefDefs.lean): it does not look at the program
  counter / step counter of the machine nor at the abstract program counter; the roots of `HRef` matter only
  as a multiset; heads of represented objects are addresses inside the heap; what a change of registers
  (`Keep`) preserves of it; a new integer position (`X3R.snoc`).
-/
import Scc.RV.RefTr
import Scc.RV.RefBridge
import Scc.Props.C09Refine
import Scc.Backend.ProofsRep2
import Scc.Backend.ProofsSim2
import Scc.Backend.ProofsSim
import Scc.Backend.ProofsSubstRoots

set_option linter.unusedVariables false
set_option linter.unusedSimpArgs false

namespace Scc.RV.Ref

open Scc.AxCut Scc.Backend Scc.Backend.Abs Scc.Backend.Sim Scc.RV
open Scc.Heap (HState InvS InvW)
open Scc.Heap.Refine (HRef imgW fieldImg kindB)

/-! ## roots as a multiset; heads of objects are heap addresses -/

theorem HRef.roots_congr {h : Heap} {rs rs' : List Nat} {next : Nat} {s : HState} {ι : Nat → Nat}
    (R : HRef h rs next s ι) (hc : ∀ x, rs'.count x = rs.count x) : HRef h rs' next s ι := by
  have hp : rs'.Perm rs := List.perm_iff_count.2 hc
  obtain ⟨lin, lazy, live, F, I⟩ := R.conc
  refine ⟨Scc.Backend.Sim2.heapOK_count_congr R.abs hc, R.ord, ⟨lin, lazy, live, F, ?_⟩, R.shape, R.disj⟩
  exact InvW.roots_congr I (fun b _ => (hp.map ι).count_eq b)

theorem href_head_lt {h : Heap} {rs : List Nat} {next : Nat} {s : HState} {ι : Nat → Nat}
    (R : HRef h rs next s ι) {e : Nat × Obj} (he : e ∈ h) : ι e.1 + 64 ≤ s.limit := by
  obtain ⟨lin, lazy, live, F, I⟩ := R.conc
  have hl := Scc.Heap.Refine.C09R_chains_live R I e he _ (Scc.Heap.Refine.head_mem_blocksOf (R.shape e he))
  have h1 := I.live_block hl
  have h2 := I.frontier_room
  have h3 := I.frontier_block
  unfold Scc.Heap.IsBlock at h1 h3
  omega

/-- a live reference (a root) -/
theorem href_root_mem {h : Heap} {rs : List Nat} {next : Nat} {s : HState} {ι : Nat → Nat}
    (R : HRef h rs next s ι) {r : Nat} (hr : r ∈ rs) : ∃ o, (r, o) ∈ h := by
  have hrl : (h.get r).isSome := by
    apply R.abs.live
    have : 0 < rs.count r := List.count_pos_iff.mpr hr
    rw [Scc.Backend.Sim2.refCount_eq]; omega
  exact Scc.Backend.Sim.heap_get_isSome_mem hrl

theorem imgWord_toNat {ι : Nat → Nat} {r : Word} (h : r ≠ 0 → ι r.toNat < 2 ^ 64) :
    (imgWord ι r).toNat = imgW ι r := by
  unfold imgWord imgW
  by_cases h0 : r = 0
  · simp [h0]
  · rw [if_neg h0, if_neg h0]
    simp [BitVec.toNat_ofNat, Nat.mod_eq_of_lt (h h0)]

/-! ## registers of positions -/

theorem rv_setPS (st : State) (pc k t : Nat) : rv (setPS st pc k) t = rv st t := rfl

theorem mview_setPS (st : State) (pc k : Nat) : mview (setPS st pc k) = mview st := rfl

theorem readReg_of_val {st : State} {r : Register} {v : Word} (h0 : r.n ≠ 0)
    (h : (mview st).val r.n = some v) : st.readReg r = .ok v := by
  unfold State.readReg
  rw [if_neg h0]
  simp only [mview] at h
  cases hv : st.regs[r.n]? with
  | none => simp [hv] at h
  | some o =>
    cases o with
    | none => simp [hv] at h
    | some w => simp [hv] at h; simp [h]

theorem readReg_of_rv {st : State} {t : Nat} {v : Word} (h : rv st t = some v) :
    st.readReg (posTemp t) = .ok v :=
  readReg_of_val (by simp [posReg]) h

theorem rv_of_readReg {st : State} {t : Nat} {v : Word} (h : st.readReg (posTemp t) = .ok v) :
    rv st t = some v :=
  mview_val_of_readReg (by simp [posReg]) h

/-- what a change of registers leaves alone -/
structure Keep (st st' : State) (changed : Nat → Prop) : Prop where
  wf : st'.WF
  mem : st'.mem = st.mem
  regs : ∀ r, 1 ≤ r → r < 32 → ¬ changed r → st'.regs[r]? = st.regs[r]?

theorem Keep.rv {st st' : State} {ch : Nat → Prop} (K : Keep st st' ch) {t : Nat} (ht : t < 28)
    (h : ¬ ch (posReg t)) : rv st' t = rv st t := by
  unfold Ref.rv mview
  simp only
  rw [K.regs (posReg t) (by unfold posReg; omega) (by unfold posReg; omega) h]

theorem Keep.readReg {st st' : State} {ch : Nat → Prop} (K : Keep st st' ch) (r : Register)
    (h : ¬ ch r.n) (h32 : r.n < 32) : st'.readReg r = st.readReg r := by
  unfold State.readReg
  by_cases h0 : r.n = 0
  · simp [h0]
  · simp only [h0, if_false]
    rw [K.regs r.n (by omega) h32 h]

theorem Keep.heapRel {mc : MonCfg} {st st' : State} {ch : Nat → Prop} {hs : HState} (K : Keep st st' ch)
    (R : HeapRel mc st hs) (h2 : ¬ ch 2) (h3 : ¬ ch 3) : HeapRel mc st' hs := by
  refine ⟨R.base, R.limit, fun a => by rw [K.mem]; exact R.mem a, ?_, ?_⟩
  · obtain ⟨w, hw, e⟩ := R.heap
    exact ⟨w, by rw [K.readReg HEAP h2 (by decide)]; exact hw, e⟩
  · obtain ⟨w, hw, e⟩ := R.free
    exact ⟨w, by rw [K.readReg FREE h3 (by decide)]; exact hw, e⟩

theorem Keep.trans {s1 s2 s3 : State} {c1 c2 : Nat → Prop} (K1 : Keep s1 s2 c1) (K2 : Keep s2 s3 c2) :
    Keep s1 s3 (fun u => c1 u ∨ c2 u) :=
  ⟨K2.wf, K2.mem.trans K1.mem, fun r h1 h2 hc => by
    rw [K2.regs r h1 h2 (fun h => hc (Or.inr h)), K1.regs r h1 h2 (fun h => hc (Or.inl h))]⟩

theorem Keep.setPS {st st' : State} {ch : Nat → Prop} (K : Keep st st' ch) (pc k : Nat) :
    Keep st (setPS st' pc k) ch := ⟨K.wf, K.mem, K.regs⟩

theorem keep_writeReg {st : State} (hwf : st.WF) (r : Register) (v : Word) :
    Keep st (st.writeReg r v) (fun u => u = r.n) := by
  refine ⟨writeReg_wf hwf r v, writeReg_mem st r v, fun u h1 h2 hne => ?_⟩
  unfold State.writeReg
  split
  · rfl
  · simp only
    rw [Array.getElem?_setIfInBounds]
    have : ¬ r.n = u := fun e => hne e.symm
    simp [this]

theorem keep_copyReg {st : State} (hwf : st.WF) (x y : Register) :
    Keep st (st.copyReg x y) (fun u => u = x.n) := by
  refine ⟨copyReg_wf hwf x y, copyReg_mem st x y, fun u h1 h2 hne => ?_⟩
  have hxu : ¬ x.n = u := fun e => hne e.symm
  unfold State.copyReg
  split
  · rfl
  · split
    · simp only; rw [Array.getElem?_setIfInBounds]; simp [hxu]
    · simp only; rw [Array.getElem?_setIfInBounds]; simp [hxu]

theorem rv_writeReg_same {st : State} (hwf : st.WF) {t : Nat} (ht : t < 28) (v : Word) :
    rv (st.writeReg (posTemp t) v) t = some v := by
  apply rv_of_readReg
  exact readReg_writeReg_same hwf ⟨by simp [posReg], by simp [posReg, registerNum]; omega⟩ v

/-- `MV`: the target gets the content of the source, defined or not -/
theorem val_copyReg_same {st : State} (hwf : st.WF) {x y : Register} (hx1 : 1 ≤ x.n) (hx2 : x.n < 32)
    (hy1 : 1 ≤ y.n) (hy2 : y.n < 32) : (mview (st.copyReg x y)).val x.n = (mview st).val y.n := by
  have := (MRep.copyReg (mrep_mview hwf) hx1 hx2 hy2).1
  have h1 := this.vals x.n hx1 hx2
  simp only [MState.setT_val, if_true] at h1
  simp only [mview]
  rw [h1]
  simp only [Option.join_some]
  rw [MState.rd_of hy1 hy2]
  rfl

/-! ## the relation does not see counters -/

theorem heapRel_setPS {mc : MonCfg} {st : State} {hs : HState} (R : HeapRel mc st hs) (pc k : Nat) :
    HeapRel mc (setPS st pc k) hs := ⟨R.base, R.limit, R.mem, R.heap, R.free⟩

variable {mc : MonCfg} {cw : Nat → Word} {τ : Nat → Nat → Word}

theorem X3R.setPS {Γ : Ctx} {cfg : Config} {rs : List Nat} {hs : HState} {ι : Nat → Nat}
    {st : State} (X : X3R mc cw τ Γ cfg rs hs ι st) (pc k : Nat) : X3R mc cw τ Γ cfg rs hs ι (setPS st pc k) :=
  ⟨⟨X.bnd.wf, X.bnd.top⟩, X.cap, X.words, X.ptrs, heapRel_setPS X.hrel pc k, X.href⟩

/-- `X3R` does not look at the abstract program counter -/
theorem X3R.setPc {Γ : Ctx} {cfg : Config} {rs : List Nat} {hs : HState} {ι : Nat → Nat}
    {st : State} (X : X3R mc cw τ Γ cfg rs hs ι st) (pc : Nat) : X3R mc cw τ Γ { cfg with pc := pc } rs hs ι st :=
  ⟨X.bnd, X.cap, X.words, X.ptrs, X.hrel, X.href⟩

theorem X3R.roots_congr {Γ : Ctx} {cfg : Config} {rs rs' : List Nat} {hs : HState}
    {ι : Nat → Nat} {st : State} (X : X3R mc cw τ Γ cfg rs hs ι st) (hc : ∀ x, rs'.count x = rs.count x) :
    X3R mc cw τ Γ cfg rs' hs ι st :=
  ⟨X.bnd, X.cap, X.words, X.ptrs, X.hrel, HRef.roots_congr X.href hc⟩

/-- a change of registers other than those of the context, HEAP and FREE keeps the relation -/
theorem X3R.keep {Γ : Ctx} {cfg : Config} {rs : List Nat} {hs : HState} {ι : Nat → Nat} {st st' : State}
    {ch : Nat → Prop} (X : X3R mc cw τ Γ cfg rs hs ι st) (K : Keep st st' ch)
    (hch : ∀ t, t < 2 * Γ.length → ¬ ch (posReg t)) (h2 : ¬ ch 2) (h3 : ¬ ch 3) :
    X3R mc cw τ Γ cfg rs hs ι st' := by
  have hcap := X.cap
  refine ⟨⟨K.wf, X.bnd.top⟩, X.cap, ?_, ?_, K.heapRel X.hrel h2 h3, X.href⟩
  · intro i hi a ha
    rw [K.rv (by omega) (hch _ (by omega))]
    exact X.words i hi a ha
  · intro i hi hc r hr
    rw [K.rv (by omega) (hch _ (by omega))]
    exact X.ptrs i hi hc r hr

/-- the relation does not look at the abstract program counter, `TEMP`, or temporaries beyond the context -/
theorem X3.absCongr {Γ : Ctx} {cfg cfg' : Config} {hs : HState} {ι : Nat → Nat} {st : State}
    (X : X3 mc cw τ Γ cfg hs ι st) (ht : ∀ t, t < 2 * Γ.length → cfg'.temps.get t = cfg.temps.get t)
    (hh : cfg'.heap = cfg.heap) (hn : cfg'.next = cfg.next) : X3 mc cw τ Γ cfg' hs ι st := by
  refine ⟨X.bnd, X.cap, ?_, ?_, X.hrel, ?_⟩
  · intro i hi a ha
    rw [ht _ (by omega)] at ha
    exact X.words i hi a ha
  · intro i hi hc r hr
    rw [ht _ (by omega)] at hr
    exact X.ptrs i hi hc r hr
  · rw [hh, hn, roots_congr _ _ _ (fun i hi => ht (2 * i) (by omega))]
    exact X.href

/-- the relation depends on the context only through its kinds -/
theorem X3.ctxCongr {Γ Δ : Ctx} {cfg : Config} {hs : HState} {ι : Nat → Nat} {st : State}
    (X : X3 mc cw τ Γ cfg hs ι st) (hc : Γ.map (·.chi) = Δ.map (·.chi)) : X3 mc cw τ Δ cfg hs ι st := by
  have hlen : Γ.length = Δ.length := by simpa using congrArg List.length hc
  have hchi : ∀ i (h1 : i < Γ.length) (h2 : i < Δ.length), Δ[i].chi = Γ[i].chi := by
    intro i h1 h2
    have := congrArg (fun l => l[i]?) hc
    simp only [List.getElem?_map, List.getElem?_eq_getElem h1, List.getElem?_eq_getElem h2,
      Option.map_some, Option.some.injEq] at this
    exact this.symm
  refine ⟨X.bnd, by rw [← hlen]; exact X.cap, ?_, ?_, X.hrel, ?_⟩
  · intro i hi a ha
    rw [hchi i (by omega) hi]
    exact X.words i (by omega) a ha
  · intro i hi hcx r hr
    exact X.ptrs i (by omega) (by rw [← hchi i (by omega) hi]; exact hcx) r hr
  · have : roots Δ cfg.temps = roots Γ cfg.temps := by
      unfold roots
      exact (roots_go_chi _ Γ Δ 0 hc).symm
    rw [this]
    exact X.href

/-- a new position whose word part has just been written -/
theorem X3R.snoc {Γ0 : Ctx} {b : Binding} {cfg1 cfg2 : Config} {rs : List Nat}
    {hs : HState} {ι : Nat → Nat} {st1 st2 : State}
    (X : X3R mc cw τ Γ0 cfg1 rs hs ι st1) (hcap : Γ0.length < 14)
    (K : Keep st1 st2 (fun u => u = posReg (2 * Γ0.length + 1)))
    {a : Word} (hv : rv st2 (2 * Γ0.length + 1) = some (trW b.chi a (cw Γ0.length)))
    (htemps : cfg2.temps = (clobberTemp cfg1.temps).set (2 * Γ0.length + 1) a)
    (hheap : cfg2.heap = cfg1.heap) (hnext : cfg2.next = cfg1.next)
    (hptr : b.chi ≠ .ext → ∀ r, cfg1.temps.get (2 * Γ0.length) = some r →
      rv st1 (2 * Γ0.length) = some (imgWord ι r)) :
    X3R mc cw τ (Γ0 ++ [b]) cfg2 rs hs ι st2 := by
  have hkeep : ∀ t, t < 28 → t ≠ 2 * Γ0.length + 1 → rv st2 t = rv st1 t := by
    intro t ht hne
    exact K.rv ht (fun e => hne (posReg_inj.1 e))
  have hget : ∀ t, t ≠ 2 * Γ0.length + 1 → t < 28 → cfg2.temps.get t = cfg1.temps.get t := by
    intro t hne ht
    rw [htemps, get_set_other _ _ hne, get_clobberTemp _ (by unfold Mock.T_TEMP; omega)]
  refine ⟨⟨K.wf, X.bnd.top⟩, by simp; omega, ?_, ?_, ?_, ?_⟩
  · intro i hi a' ha'
    simp only [List.length_append, List.length_cons, List.length_nil] at hi
    by_cases hin : i < Γ0.length
    · rw [hget _ (by omega) (by omega)] at ha'
      rw [hkeep _ (by omega) (by omega), List.getElem_append_left hin]
      exact X.words i hin a' ha'
    · have hie : i = Γ0.length := by omega
      subst hie
      rw [htemps, get_set_same] at ha'
      injection ha' with ha'
      subst ha'
      rw [hv]
      simp
  · intro i hi hc r hr
    simp only [List.length_append, List.length_cons, List.length_nil] at hi
    by_cases hin : i < Γ0.length
    · rw [hget _ (by omega) (by omega)] at hr
      rw [hkeep _ (by omega) (by omega)]
      rw [List.getElem_append_left hin] at hc
      exact X.ptrs i hin hc r hr
    · have hie : i = Γ0.length := by omega
      subst hie
      have hc' : b.chi ≠ .ext := by simpa using hc
      rw [hget _ (by omega) (by omega)] at hr
      rw [hkeep _ (by omega) (by omega)]
      exact hptr hc' r hr
  · exact K.heapRel X.hrel (by simp [posReg]) (by simp [posReg])
  · rw [hheap, hnext]
    exact X.href

/-- the relation after a heap operation that leaves the registers of all positions alone -/
theorem X3R.heapStep {Γ : Ctx} {cfg cfg1 : Config} {rs rs1 : List Nat} {hs hs1 : HState}
    {ι : Nat → Nat} {st st1 : State} (X : X3R mc cw τ Γ cfg rs hs ι st)
    (B1 : Boundary mc st1) (hkeep : ∀ t, t < 28 → rv st1 t = rv st t)
    (HR1 : HeapRel mc st1 hs1)
    (htemps : ∀ t v, t < 2 * Γ.length → cfg1.temps.get t = some v → cfg.temps.get t = some v)
    (R1 : HRef (trHeap τ cfg1.heap) rs1 cfg1.next hs1 ι) : X3R mc cw τ Γ cfg1 rs1 hs1 ι st1 := by
  have hcap := X.cap
  refine ⟨B1, X.cap, ?_, ?_, HR1, R1⟩
  · intro i hi a ha
    rw [hkeep _ (by omega)]
    exact X.words i hi a (htemps _ _ (by omega) ha)
  · intro i hi hc r hr
    rw [hkeep _ (by omega)]
    exact X.ptrs i hi hc r (htemps _ _ (by omega) hr)

/-- the references held by the variables of a related context are addresses inside the heap -/
theorem X3R.ref_lt {Γ : Ctx} {cfg : Config} {hs : HState} {ι : Nat → Nat} {st : State}
    (X : X3 mc cw τ Γ cfg hs ι st) {i : Nat} (hi : i < Γ.length) (hc : Γ[i].chi ≠ .ext) {r : Word}
    (hr : cfg.temps.get (2 * i) = some r) (h0 : r ≠ 0) :
    ι r.toNat < 2 ^ 64 ∧ r.toNat < cfg.next := by
  have hm := Scc.Backend.Sim2.mem_roots hi hc hr h0
  obtain ⟨o, ho⟩ := href_root_mem X.href hm
  have h1 := href_head_lt X.href ho
  have h2 := X.hrel.limit
  have h3 := X.bnd.top
  have h7 := (X.href.abs.ids _ ho).2.1
  simp only at h1 h7
  constructor
  · omega
  · exact h7

theorem X3R.limit_le {Γ : Ctx} {cfg : Config} {rs : List Nat} {hs : HState} {ι : Nat → Nat} {st : State}
    (X : X3R mc cw τ Γ cfg rs hs ι st) : hs.limit ≤ 2 ^ 63 := by
  have h2 := X.hrel.limit
  have h3 := X.bnd.top
  omega

/-- hook and statement comment -/
theorem hook_comments (hooks : Bool) (Γ : Ctx) (m : String) :
    ∀ y ∈ hookCode rvBackend hooks Γ ++ [rvBackend.comment m], ∃ m', y = Code.COMMENT m' := by
  intro y hy
  unfold hookCode at hy
  cases hooks <;> simp at hy
  · exact ⟨_, hy⟩
  · rcases hy with rfl | rfl <;> exact ⟨_, rfl⟩

/-! ## how many roots there are -/

theorem rootOf_length_le (σ : Temps) (b : Binding) (k : Nat) : (Scc.Backend.Sim2.rootOf σ b k).length ≤ 1 := by
  unfold Scc.Backend.Sim2.rootOf
  split
  · split
    · split <;> simp
    · simp
  · simp

theorem roots_go_length_le (σ : Temps) : ∀ (Γ : Ctx) (k : Nat), (roots.go σ Γ k).length ≤ Γ.length
  | [], _ => by simp [roots.go]
  | b :: bs, k => by
    rw [Scc.Backend.Subst.roots_go_cons, List.length_append, List.length_cons]
    have ih := roots_go_length_le σ bs (k + 1)
    have := rootOf_length_le σ b k
    omega

theorem roots_length_le (σ : Temps) (Γ : Ctx) : (roots Γ σ).length ≤ Γ.length := roots_go_length_le σ Γ 0

theorem children_length_le (o : Obj) : o.children.length ≤ o.fields.length := by
  unfold Obj.children
  exact List.length_filterMap_le _ _

end Scc.RV.Ref
