/-
  Scc.RV.RefCall — THREE-WAY SIMULATION of `call` (jump to a definition) and `exit` (result into `X10`, jump
  to `cleanup`, where the machine's run ends) under the typed relation `X3`.
  * `KDefsAt ks hooks prog`: the RV code of every definition is in the kept codes behind its label.
-/
import Scc.RV.RefInt

set_option linter.unusedVariables false
set_option linter.unusedSimpArgs false

namespace Scc.RV.Ref

open Scc.AxCut Scc.AxCut.Pos Scc.Backend Scc.Backend.Abs Scc.Backend.Sim Scc.Backend.Sim2 Scc.RV
open Scc.Heap (HState InvS InvW)
open Scc.Heap.Refine (HRef)

/-- every definition's RV code is in the kept codes, behind its label -/
def KDefsAt (ks : List Code) (hooks : Bool) (prog : AxCut.Prog) : Prop :=
  ∀ d ∈ prog.defs, ∃ i k k' items, labIdx ks (d.name.print ++ "_") = some i ∧
    ks[i]? = some (Code.LAB (d.name.print ++ "_")) ∧
    (codeStatementR rvBackend hooks natRen prog.types d.body d.ctx).run k = .ok (items, k') ∧
    KAt ks (i + 1) items

/-- a definition label is not the exit label -/
theorem defLabel_ne_cleanup (s : String) : s ++ "_" ≠ "cleanup" := by
  intro h
  have h2 := congrArg (fun x => x.toList.reverse) h
  simp only [String.toList_append, List.reverse_append] at h2
  have h3 : ("_" : String).toList = ['_'] := rfl
  have h4 : ("cleanup" : String).toList = ['c', 'l', 'e', 'a', 'n', 'u', 'p'] := rfl
  rw [h3, h4] at h2
  simp at h2

theorem exec_JAL_zero (mc : MonCfg) (la : String → Option Nat) (a : Nat) (l : String) (s : State) :
    exec mc la a (.JAL ZERO l) s = .ok (s, .label l) := by
  simp [exec, State.writeReg, ZERO]

/-- the code at the index of a label, behind the label -/
theorem KAt.of_label {ks : List Code} {i : Nat} {l : String} {items : List Code}
    (hg : ks[i]? = some (Code.LAB l)) (h : KAt ks (i + 1) items) : KAt ks i (Code.LAB l :: items) := by
  obtain ⟨k1, ki, rest, e, hl, hk⟩ := h
  have hilt : i < k1.length := by omega
  refine ⟨k1.take i, Code.LAB l :: ki, rest, ?_, by simp; omega, .keep rfl hk⟩
  have hk1 : k1 = k1.take i ++ [Code.LAB l] := by
    have h1 : k1[i]? = some (Code.LAB l) := by
      rw [e, List.append_assoc, List.getElem?_append_left hilt] at hg; exact hg
    conv => lhs; rw [← List.take_append_drop i k1]
    congr 1
    rw [List.drop_eq_getElem_cons hilt]
    rw [List.getElem?_eq_getElem hilt] at h1
    injection h1 with h1
    rw [h1, List.drop_eq_nil_of_le (by omega)]
  rw [e]
  conv => lhs; rw [hk1]
  simp [List.append_assoc]

section Call3

variable {mc : MonCfg} {cw : Nat → Word} {τ : Nat → Nat → Word} {p : RV.Program} {ks : List Code} (L : Loaded p ks)
  (hndL : (labs ks).Nodup) (hheap : mc.heap = false)

include L hndL hheap in
/-- THREE-WAY SIMULATION OF `call` -/
theorem call_x3 {P : Abs.Program} {hooks : Bool} {prog : AxCut.Prog} {Γ : Ctx} {ρ : List Value} {l : Ident}
    {args : Ctx} {cfg : Config} {d : Def}
    (R : RelX P hooks prog ⟨Γ, ρ, .call l args⟩ cfg) (D : DefsAt P hooks prog) (DX : KDefsAt ks hooks prog)
    (hd : Pos.findDef prog.defs l = some d) (hchi : Pos.chiTys Γ = Pos.chiTys d.ctx)
    {hs : HState} {ι : Nat → Nat} {st : State} (X : X3 mc cw τ Γ cfg hs ι st)
    {kx kx' : Nat} {items : List Code}
    (hrunX : (codeStatementR rvBackend hooks natRen prog.types (.call l args) Γ).run kx = .ok (items, kx'))
    (hatX : KAt ks st.pc items) :
    ∃ cfg' st', stepsTo P 1 cfg cfg' ∧ Reach p mc st st' ∧
      cfg'.out = cfg.out ∧ cfg'.next = cfg.next ∧ FrameFacts cfg cfg' Γ.length ∧
      RelX P hooks prog ⟨d.ctx, ρ, d.body⟩ cfg' ∧ X3 mc cw τ d.ctx cfg' hs ι st' ∧
      ∃ k1 k1' items', (codeStatementR rvBackend hooks natRen prog.types d.body d.ctx).run k1 = .ok (items', k1') ∧
        KAt ks st'.pc items' := by
  obtain ⟨cfg', hst, hout, hnext, R'⟩ := sim2_call R D hd hchi
  have hstep := stepsTo_one_inv hst
  have J : JumpFacts cfg cfg' := by
    obtain ⟨c, c', ops, hrun, hat⟩ := R.code
    simp only [codeStatementR, run_pure_ok] at hrun
    obtain ⟨rfl, rfl⟩ := hrun
    simp only [mockSym_comment, mockSym_jumpLabel, List.append_assoc, CodeAt_hook] at hat
    simp only [List.cons_append, List.nil_append, CodeAt] at hat
    exact step_jumpLabel_facts hat.1 hstep
  have hmem : d ∈ prog.defs := List.mem_of_find?_eq_some hd
  have hname : d.name = l := by
    have := List.find?_some hd
    exact Ident.eq_of_beq this
  obtain ⟨i, k1, k1', ditems, hidx, hlab, hdrun, hdat⟩ := DX d hmem
  -- the RV code
  simp only [codeStatementR, run_pure_ok] at hrunX
  obtain ⟨rfl, rfl⟩ := hrunX
  generalize hc0 : hookCode rvBackend hooks Γ ++ [rvBackend.comment (l.print ++ "(...)")] = c0 at hatX
  have hc0c : ∀ y ∈ c0, ∃ m', y = Code.COMMENT m' := by rw [← hc0]; exact hook_comments hooks Γ _
  replace hatX : KAt ks st.pc (c0 ++ [Code.JAL ZERO (l.print ++ "_")]) := hatX
  obtain ⟨pc0, k0, hr0, hat0⟩ := pass_comments L hndL hheap hatX hc0c
  have X0 : X3 mc cw τ Γ cfg hs ι (setPS st pc0 k0) := X3R.setPS X _ _
  have hr1 := step_label L (cfg := mc) (s := setPS st pc0 k0) (s1 := setPS st pc0 k0) (l := l.print ++ "_")
    (i := i) hat0 rfl (fun a => exec_JAL_zero mc _ a _ _) (by rw [← hname]; exact hidx)
  -- the label of the definition
  have hkeys : Γ.map (·.chi) = d.ctx.map (·.chi) := by
    have := congrArg (List.map Prod.fst) hchi
    simp only [Pos.chiTys, List.map_map] at this
    exact this
  have X1 : X3 mc cw τ d.ctx cfg' hs ι (setPS (setPS st pc0 k0) i ((setPS st pc0 k0).steps + 1)) :=
    X3R.setPS ((X0.jump J).ctxCongr hkeys) _ _
  have hati : KAt ks (setPS (setPS st pc0 k0) i ((setPS st pc0 k0).steps + 1)).pc
      (Code.LAB (d.name.print ++ "_") :: ditems) := KAt.of_label hlab hdat
  generalize setPS (setPS st pc0 k0) i ((setPS st pc0 k0).steps + 1) = s1 at hr1 X1 hati
  obtain ⟨hr2, hat2⟩ := pass_label L (cfg := mc) hati (defLabel_ne_cleanup _)
  exact ⟨cfg', _, hst, hr0.trans (hr1.trans hr2), hout, hnext,
    J.frame (by have := X.cap; unfold Mock.T_TEMP; omega), R', X3R.setPS X1 _ _, _, _, ditems, hdrun, hat2⟩

include L hndL hheap in
/-- THREE-WAY SIMULATION OF `exit`: the result goes to `X10`, the jump goes to `cleanup`, where the run ends
with the result -/
theorem exit_x3 {P : Abs.Program} {hooks : Bool} {prog : AxCut.Prog} {Γ : Ctx} {ρ : List Value} {a : Ident}
    {cfg : Config} {v : Word}
    (R : RelX P hooks prog ⟨Γ, ρ, .exit a⟩ cfg) (ha : readInt Γ ρ a = .ok v)
    {hs : HState} {ι : Nat → Nat} {st : State} (X : X3 mc cw τ Γ cfg hs ι st)
    {kx kx' : Nat} {items : List Code}
    (hrunX : (codeStatementR rvBackend hooks natRen prog.types (.exit a) Γ).run kx = .ok (items, kx'))
    (hatX : KAt ks st.pc items) {ic : Nat} (hclean : labIdx ks "cleanup" = some ic) :
    ∃ stL, Reach p mc st stL ∧ ∀ fuel, (runLoop p mc (fuel + 1) stL).res = .done v := by
  obtain ⟨i, hi, hl, hg, hchi⟩ := readInt_facts R ha
  simp only [codeStatementR, run_bind_ok, run_pure_ok] at hrunX
  obtain ⟨tX, _, htX, rfl, rfl⟩ := hrunX
  obtain ⟨pX, hpX, hltX, rfl, rfl⟩ := (rv_vt_run_ok _ _ _ _ _ _).1 htX
  rw [hi] at hpX
  injection hpX with hpX
  subst hpX
  simp only [TempNum.toNat] at hltX
  generalize hc0 : hookCode rvBackend hooks Γ ++ [rvBackend.comment ("exit " ++ a.print)] = c0 at hatX
  have hc0c : ∀ y ∈ c0, ∃ m', y = Code.COMMENT m' := by rw [← hc0]; exact hook_comments hooks Γ _
  replace hatX : KAt ks st.pc (c0 ++ ([Code.MV RETURN1 (posTemp (2 * i + 1))] ++ [Code.JAL ZERO "cleanup"])) := by
    have : rvBackend.mov rvBackend.return1 (posTemp (2 * i + TempNum.snd.toNat)) ++
        rvBackend.jumpLabel "cleanup" = [Code.MV RETURN1 (posTemp (2 * i + 1))] ++ [Code.JAL ZERO "cleanup"] := rfl
    rw [← this]
    simpa [List.append_assoc] using hatX
  obtain ⟨pc0, k0, hr0, hat0⟩ := pass_comments L hndL hheap hatX hc0c
  have X0 : X3 mc cw τ Γ cfg hs ι (setPS st pc0 k0) := X3R.setPS X _ _
  have hw := X0.words i hl v hg
  rw [hchi] at hw
  obtain ⟨hr1, hat1⟩ := step_fall L (cfg := mc) (s := setPS st pc0 k0)
    (s1 := (setPS st pc0 k0).copyReg RETURN1 (posTemp (2 * i + 1))) hat0 rfl (fun a => rfl)
  have hv1 : ((setPS st pc0 k0).copyReg RETURN1 (posTemp (2 * i + 1))).readReg RETURN1 = .ok v :=
    readReg_copyReg_same X0.bnd.wf return1_usable (readReg_of_rv hw)
  generalize hS1 : setPS ((setPS st pc0 k0).copyReg RETURN1 (posTemp (2 * i + 1))) ((setPS st pc0 k0).pc + 1)
    ((setPS st pc0 k0).steps + 1) = s1 at hr1 hat1
  have hv1' : s1.readReg RETURN1 = .ok v := by rw [← hS1]; exact hv1
  have hat1' : KAt ks s1.pc [Code.JAL ZERO "cleanup"] := by rw [← hS1]; exact hat1
  have hr2 := step_label L (cfg := mc) (s := s1) (s1 := s1) (l := "cleanup") (i := ic) hat1' rfl
    (fun a => exec_JAL_zero mc _ a _ _) hclean
  have hgc : ks[ic]? = some (Code.LAB "cleanup") := by
    unfold labIdx at hclean
    obtain ⟨hlt, hp, _⟩ := List.findIdx?_eq_some_iff_getElem.1 hclean
    rw [List.getElem?_eq_getElem hlt]
    simpa using hp
  refine ⟨setPS s1 ic (s1.steps + 1), hr0.trans (hr1.trans hr2), fun fuel => ?_⟩
  exact run_done L (s := setPS s1 ic (s1.steps + 1)) hgc hv1' fuel

end Call3

end Scc.RV.Ref
