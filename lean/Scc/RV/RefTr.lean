/-
  Scc.RV.RefTr — the translation `trHeap` of the word parts of an abstract heap (RefDefs.lean) commutes with
  every heap operation of the abstract machine (`get`, `remove`, `set`, `share`, `shareAll`, `erase`,
  allocation, the abstract `load`): the operations look at ids, counts, kinds and pointer parts only, and the
  translation of an object depends on its id and its fields only.
-/
import Scc.RV.RefDefs
import Scc.Heap.RefineLoad

set_option linter.unusedVariables false
set_option linter.unusedSimpArgs false

namespace Scc.RV.Ref

open Scc.AxCut Scc.Backend Scc.Backend.Abs Scc.Backend.Sim Scc.RV
open Scc.Heap.Refine (loadAbs)

variable {τ : Nat → Nat → Abs.Word}

theorem trF_chi (m : Abs.Word) (f : Abs.Field) : (trF m f).chi = f.chi := rfl
theorem trF_ptr (m : Abs.Word) (f : Abs.Field) : (trF m f).ptr = f.ptr := rfl

theorem trFieldsP_length (mw : Nat → Abs.Word) : ∀ (k : Nat) (fs : List Abs.Field),
    (trFieldsP mw k fs).length = fs.length
  | _, [] => rfl
  | k, f :: fs => by simp [trFieldsP, trFieldsP_length mw (k + 1) fs]

theorem trFieldsP_getElem (mw : Nat → Abs.Word) : ∀ (k : Nat) (fs : List Abs.Field) (j : Nat)
    (hj : j < fs.length), (trFieldsP mw k fs)[j]'(by rw [trFieldsP_length]; exact hj) = trF (mw (k + j)) fs[j]
  | k, f :: fs, 0, _ => by simp [trFieldsP]
  | k, f :: fs, j + 1, hj => by
    simp only [trFieldsP, List.getElem_cons_succ]
    rw [trFieldsP_getElem mw (k + 1) fs j (by simpa using hj)]
    congr 2; omega

theorem trFieldsP_chi (mw : Nat → Abs.Word) : ∀ (k : Nat) (fs : List Abs.Field),
    (trFieldsP mw k fs).map (·.chi) = fs.map (·.chi)
  | _, [] => rfl
  | k, f :: fs => by simp [trFieldsP, trFieldsP_chi mw (k + 1) fs, trF_chi]

theorem trFieldsP_congr {mw mw' : Nat → Abs.Word} : ∀ (k : Nat) (fs : List Abs.Field),
    (∀ j, j < fs.length → mw (k + j) = mw' (k + j)) → trFieldsP mw k fs = trFieldsP mw' k fs
  | _, [], _ => rfl
  | k, f :: fs, h => by
    have h0 : mw k = mw' k := by
      have := h 0 (by simp)
      simpa using this
    have hrest : ∀ j, j < fs.length → mw (k + 1 + j) = mw' (k + 1 + j) := by
      intro j hj
      have := h (j + 1) (by simp; omega)
      rw [show k + (j + 1) = k + 1 + j by omega] at this
      exact this
    have ih := trFieldsP_congr (mw := mw) (mw' := mw') (k + 1) fs hrest
    simp only [trFieldsP, h0, ih]

theorem filterMap_trFieldsP {β : Type} (g : Chi → Abs.Word → Option β) (mw : Nat → Abs.Word) :
    ∀ (k : Nat) (fs : List Abs.Field),
    (trFieldsP mw k fs).filterMap (fun f => g f.chi f.ptr) = fs.filterMap (fun f => g f.chi f.ptr)
  | _, [] => rfl
  | k, f :: fs => by
    simp only [trFieldsP, List.filterMap_cons, trF_chi, trF_ptr, filterMap_trFieldsP g mw (k + 1) fs]

theorem trFieldsP_children (mw : Nat → Abs.Word) (c : Nat) (k : Nat) (fs : List Abs.Field) :
    Obj.children ⟨c, trFieldsP mw k fs⟩ = Obj.children ⟨c, fs⟩ := by
  unfold Obj.children
  exact filterMap_trFieldsP (fun chi ptr => if chi != .ext && ptr != 0 then some ptr.toNat else none) mw k fs

theorem trO_count (id : Nat) (o : Obj) : (trO τ id o).count = o.count := rfl

theorem trO_fields (id : Nat) (o : Obj) : (trO τ id o).fields = trFieldsP (τ id) 0 o.fields := rfl

theorem trO_fields_length (id : Nat) (o : Obj) : (trO τ id o).fields.length = o.fields.length :=
  trFieldsP_length _ _ _

theorem trO_chi (id : Nat) (o : Obj) : (trO τ id o).fields.map (·.chi) = o.fields.map (·.chi) :=
  trFieldsP_chi _ _ _

theorem trO_children (id : Nat) (o : Obj) : (trO τ id o).children = o.children :=
  trFieldsP_children (τ id) o.count 0 o.fields

theorem trO_with_count (id : Nat) (o : Obj) (c : Nat) :
    trO τ id { o with count := c } = { trO τ id o with count := c } := rfl

theorem trHeap_nil : trHeap τ [] = [] := rfl

theorem trHeap_cons (id : Nat) (o : Obj) (h : Heap) :
    trHeap τ ((id, o) :: h) = (id, trO τ id o) :: trHeap τ h := rfl

theorem trHeap_get (h : Heap) (id : Nat) : (trHeap τ h).get id = (h.get id).map (trO τ id) := by
  induction h with
  | nil => rfl
  | cons e h ih =>
    unfold Heap.get at ih ⊢
    rw [show e :: h = (e.1, e.2) :: h from rfl, trHeap_cons]
    simp only [List.find?_cons]
    by_cases he : (e.1 == id) = true
    · have : e.1 = id := by simpa using he
      simp [he, this]
    · simp only [he]
      exact ih

theorem trHeap_remove (h : Heap) (id : Nat) : (trHeap τ h).remove id = trHeap τ (h.remove id) := by
  unfold Heap.remove trHeap
  rw [List.filter_map]
  rfl

theorem trHeap_set (h : Heap) (id : Nat) (o : Obj) :
    (trHeap τ h).set id (trO τ id o) = trHeap τ (h.set id o) := by
  unfold Heap.set
  rw [trHeap_remove]
  rfl

theorem trHeap_share {h h' : Heap} {ref : Word} {k : Nat} (hs : h.share ref k = .ok h') :
    (trHeap τ h).share ref k = .ok (trHeap τ h') := by
  unfold Heap.share at hs ⊢
  by_cases h0 : (ref == 0) = true
  · rw [if_pos h0] at hs ⊢
    injection hs with hs; rw [hs]
  · rw [if_neg h0] at hs ⊢
    rw [trHeap_get]
    cases hg : h.get ref.toNat with
    | none => rw [hg] at hs; cases hs
    | some o =>
      rw [hg] at hs
      simp only [Option.map_some]
      injection hs with hs
      rw [← hs, ← trHeap_set]
      rfl

theorem trHeap_shareAll : ∀ (ids : List Nat) {h h' : Heap}, h.shareAll ids = .ok h' →
    (trHeap τ h).shareAll ids = .ok (trHeap τ h')
  | [], h, h', hs => by
    simp only [Heap.shareAll] at hs ⊢
    injection hs with hs; rw [hs]
  | id :: ids, h, h', hs => by
    simp only [Heap.shareAll] at hs ⊢
    cases h1 : h.share (BitVec.ofNat 64 id) 1 with
    | error e => rw [h1] at hs; cases hs
    | ok h1' =>
      rw [h1] at hs
      rw [trHeap_share h1]
      exact trHeap_shareAll ids hs

theorem trHeap_totalFields (h : Heap) : (trHeap τ h).totalFields = h.totalFields := by
  unfold Heap.totalFields trHeap
  rw [List.map_map]
  congr 1
  apply List.map_congr_left
  intro e _
  simp [trO, trFieldsP_length]

theorem trHeap_eraseLoop : ∀ (fuel : Nat) (work : List Nat) {h h' : Heap},
    Heap.eraseLoop fuel work h = .ok h' → Heap.eraseLoop fuel work (trHeap τ h) = .ok (trHeap τ h')
  | 0, [], h, h', hs => by
    simp only [Heap.eraseLoop] at hs ⊢
    injection hs with hs; rw [hs]
  | 0, _ :: _, h, h', hs => by simp [Heap.eraseLoop] at hs
  | _ + 1, [], h, h', hs => by
    simp only [Heap.eraseLoop] at hs ⊢
    injection hs with hs; rw [hs]
  | fuel + 1, id :: work, h, h', hs => by
    simp only [Heap.eraseLoop] at hs ⊢
    rw [trHeap_get]
    cases hg : h.get id with
    | none => rw [hg] at hs; cases hs
    | some o =>
      rw [hg] at hs
      simp only [Option.map_some, trO_count, trO_children] at hs ⊢
      by_cases hc : o.count > 0
      · rw [if_pos hc] at hs ⊢
        have := trHeap_eraseLoop fuel work hs
        rw [← trHeap_set] at this
        exact this
      · rw [if_neg hc] at hs ⊢
        have := trHeap_eraseLoop fuel (o.children ++ work) hs
        rw [← trHeap_remove] at this
        exact this

theorem trHeap_erase {h h' : Heap} {ref : Word} (hs : h.erase ref = .ok h') :
    (trHeap τ h).erase ref = .ok (trHeap τ h') := by
  unfold Heap.erase at hs ⊢
  by_cases h0 : (ref == 0) = true
  · rw [if_pos h0] at hs ⊢
    injection hs with hs; rw [hs]
  · rw [if_neg h0] at hs ⊢
    rw [trHeap_totalFields]
    exact trHeap_eraseLoop _ _ hs

theorem trHeap_loadAbs {h h' : Heap} {id : Nat} {o : Obj} (hs : loadAbs h id o = .ok h') :
    loadAbs (trHeap τ h) id (trO τ id o) = .ok (trHeap τ h') := by
  unfold loadAbs at hs ⊢
  rw [trO_count, trO_children]
  by_cases hc : (o.count == 0) = true
  · rw [if_pos hc] at hs ⊢
    injection hs with hs
    rw [← hs, trHeap_remove]
  · rw [if_neg hc] at hs ⊢
    have := trHeap_shareAll (τ := τ) _ hs
    rw [← trHeap_set] at this
    exact this

/-- the translation of the old objects does not see a change of `τ` at other ids -/
theorem trHeap_congr {τ τ' : Nat → Nat → Abs.Word} (h : Heap)
    (hτ : ∀ e ∈ h, ∀ j, j < e.2.fields.length → τ e.1 j = τ' e.1 j) : trHeap τ h = trHeap τ' h := by
  unfold trHeap
  apply List.map_congr_left
  intro e he
  simp only [trO]
  rw [trFieldsP_congr 0 e.2.fields (fun j hj => by simpa using hτ e he j hj)]

/-- the closure words of the positions after `load`: the remaining variables keep theirs, the loaded
variables get those of the fields of the loaded object -/
def loadCw (cw : Nat → Abs.Word) (n : Nat) (mw : Nat → Abs.Word) : Nat → Abs.Word :=
  fun i => if i < n then cw i else mw (i - n)

end Scc.RV.Ref
