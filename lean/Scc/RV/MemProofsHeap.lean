/-
  Scc.RV.MemProofsHeap — the view (MemProofsView.lean) against the heap model Scc/Heap/Model.lean:
  `HeapRel` / `HRelM` (a machine state / view state represents an abstract heap), the primitive accesses
  (`rd`/`wr` of the model = heap loads / stores of the view), fresh-label bookkeeping, and the contracts
  of `erase_block` for an arbitrary register, `erase_fields`, and `acquire_block` (memory.rs) — first on
  the view, then on the machine.
-/
import Scc.RV.MemProofsView

set_option linter.unusedSimpArgs false
set_option linter.unusedVariables false

namespace Scc.RV

open Scc.AxCut
open Scc.Backend (GenM TempNum freshLabel)

/-! ## the model's primitive accesses -/

/-- `a` is the address of a word of the abstract heap -/
def HOk (h : Scc.Heap.HState) (a : Nat) : Prop :=
  h.base ≤ a ∧ a + 8 ≤ h.limit ∧ (a - h.base) % 8 = 0

theorem rd_eq_ok {s : Scc.Heap.HState} {a v : Nat} :
    Scc.Heap.rd s a = .ok v ↔ HOk s a ∧ v = s.mem.get a := by
  unfold Scc.Heap.rd HOk
  by_cases h1 : s.base ≤ a ∧ a + 8 ≤ s.limit
  · by_cases h2 : (a - s.base) % 8 = 0
    · simp [h1, h2, eq_comm]
    · simp [h1, h2]
  · simp only [h1, if_false]
    constructor
    · intro h; cases h
    · intro h; exact absurd ⟨h.1.1, h.1.2.1⟩ h1

theorem wr_eq_ok {s s' : Scc.Heap.HState} {a v : Nat} :
    Scc.Heap.wr s a v = .ok s' ↔ HOk s a ∧ s' = { s with mem := s.mem.set a v } := by
  unfold Scc.Heap.wr HOk
  by_cases h1 : s.base ≤ a ∧ a + 8 ≤ s.limit
  · by_cases h2 : (a - s.base) % 8 = 0
    · simp [h1, h2, eq_comm]
    · simp [h1, h2]
  · simp only [h1, if_false]
    constructor
    · intro h; cases h
    · intro h; exact absurd ⟨h.1.1, h.1.2.1⟩ h1

/-- the heap region lies below 2^63 (so heap addresses never wrap); `heapBase` is 8-aligned -/
def CfgOK (cfg : MonCfg) : Prop := heapBase + cfg.heapBytes ≤ 2 ^ 63

theorem heapBase_mod8 : heapBase % 8 = 0 := by decide

/-- machine state `st` represents the abstract heap `h` -/
structure HeapRel (cfg : MonCfg) (st : State) (h : Scc.Heap.HState) : Prop where
  base : h.base = heapBase
  limit : h.limit = heapBase + cfg.heapBytes
  mem : ∀ a, h.mem.get a = (st.mem.getD a 0).toNat
  heap : ∃ w, st.readReg HEAP = .ok w ∧ w.toNat = h.heap
  free : ∃ w, st.readReg FREE = .ok w ∧ w.toNat = h.free

/-- view state `μ` represents the abstract heap `h` -/
structure HRelM (cfg : MonCfg) (μ : MState) (h : Scc.Heap.HState) : Prop where
  base : h.base = heapBase
  limit : h.limit = heapBase + cfg.heapBytes
  mem : ∀ a, h.mem.get a = (μ.heap a).toNat
  heap : ∃ w, μ.val 2 = some w ∧ w.toNat = h.heap
  free : ∃ w, μ.val 3 = some w ∧ w.toNat = h.free

theorem heapRel_mview {cfg : MonCfg} {st : State} {h : Scc.Heap.HState} (R : HeapRel cfg st h) :
    HRelM cfg (mview st) h := by
  obtain ⟨wh, hwh, ewh⟩ := R.heap
  obtain ⟨wf, hwf, ewf⟩ := R.free
  exact ⟨R.base, R.limit, R.mem, ⟨wh, mview_val_of_readReg (r := HEAP) (by decide) hwh, ewh⟩,
    ⟨wf, mview_val_of_readReg (r := FREE) (by decide) hwf, ewf⟩⟩

theorem heapRel_of_mrep {cfg : MonCfg} {st : State} {μ : MState} {h : Scc.Heap.HState}
    (M : MRep st μ) (H : HRelM cfg μ h) : HeapRel cfg st h := by
  obtain ⟨wh, hwh, ewh⟩ := H.heap
  obtain ⟨wf, hwf, ewf⟩ := H.free
  refine ⟨H.base, H.limit, fun a => by rw [M.heap]; exact H.mem a,
    ⟨wh, M.readReg (r := HEAP) (by simpa [MState.rd] using hwh), ewh⟩,
    ⟨wf, M.readReg (r := FREE) (by simpa [MState.rd] using hwf), ewf⟩⟩

theorem toNat_add_imm_nat (w : Word) (n : Nat) (h : w.toNat + n < 2 ^ 64) :
    (w + imm (n : Int)).toNat = w.toNat + n := by
  rw [imm_natCast, BitVec.toNat_add, BitVec.toNat_ofNat]
  omega

theorem toNat_add_neg_one (w : Word) (h : w ≠ 0) : (w + imm (-1)).toNat = w.toNat - 1 := by
  have h0 : w.toNat ≠ 0 := fun e => h (BitVec.eq_of_toNat_eq (by simpa using e))
  have hlt : w.toNat < 2 ^ 64 := w.isLt
  have : (imm (-1)).toNat = 2 ^ 64 - 1 := by decide
  rw [BitVec.toNat_add, this]
  omega

@[simp] theorem refcount_zero : referenceCountOffset = 0 := by decide
@[simp] theorem next_zero : nextElementOffset = 0 := by decide

section Prim
variable {cfg : MonCfg} {μ : MState} {h : Scc.Heap.HState}

/-- a valid address of the model is a heap address of the view -/
theorem haddr_ok (C : CfgOK cfg) (H : HRelM cfg μ h) {x : Word} {off : Nat}
    (hok : HOk h (x.toNat + off)) : haddr cfg x (off : Int) = some (x.toNat + off) := by
  obtain ⟨h1, h2, h3⟩ := hok
  rw [H.base] at h1 h3
  rw [H.limit] at h2
  have hb := heapBase_mod8
  unfold CfgOK at C
  have hsum : (x + imm (off : Int)).toNat = x.toNat + off := toNat_add_imm_nat x off (by omega)
  unfold haddr
  rw [hsum, if_pos]
  exact ⟨by omega, h1, h2⟩

theorem haddr_ok0 (C : CfgOK cfg) (H : HRelM cfg μ h) {x : Word} (hok : HOk h x.toNat) :
    haddr cfg x 0 = some x.toNat := by
  have := haddr_ok C H (x := x) (off := 0) (by simpa using hok)
  simpa using this

theorem HRelM.setH (H : HRelM cfg μ h) (a : Nat) (w : Word) :
    HRelM cfg (μ.setH a w) { h with mem := h.mem.set a w.toNat } := by
  refine ⟨H.base, H.limit, fun b => ?_, H.heap, H.free⟩
  simp only [Scc.Heap.Mem.get_set, MState.setH_heap]
  by_cases e : a = b
  · subst e; simp
  · have : ¬ b = a := fun h => e h.symm
    simp [e, this, H.mem b]

theorem HRelM.setT (H : HRelM cfg μ h) {t : Nat} (h1 : t ≠ 2) (h2 : t ≠ 3) (v : Option Word) :
    HRelM cfg (μ.setT t v) h := by
  obtain ⟨wh, hwh, ewh⟩ := H.heap
  obtain ⟨wf, hwf, ewf⟩ := H.free
  exact ⟨H.base, H.limit, H.mem, ⟨wh, by simp [Ne.symm h1, hwh], ewh⟩, ⟨wf, by simp [Ne.symm h2, hwf], ewf⟩⟩

theorem HRelM.of_frame {μ' : MState} (H : HRelM cfg μ h) (hh : μ'.heap = μ.heap)
    (h1 : μ'.val 2 = μ.val 2) (h2 : μ'.val 3 = μ.val 3) : HRelM cfg μ' h := by
  obtain ⟨wh, hwh, ewh⟩ := H.heap
  obtain ⟨wf, hwf, ewf⟩ := H.free
  exact ⟨H.base, H.limit, fun a => by rw [hh]; exact H.mem a, ⟨wh, by rw [h1]; exact hwh, ewh⟩,
    ⟨wf, by rw [h2]; exact hwf, ewf⟩⟩

end Prim

/-! ## erase_block -/

section Erase
variable {cfg : MonCfg} {μ : MState} {h h' : Scc.Heap.HState}

/-- CONTRACT of `erase_block` on the view, pointer in any register `r` other than TEMP: the code runs
to its end, the result represents `Scc.Heap.eraseBlock`; only TEMP, FREE and the header word change -/
theorem m_erase (C : CfgOK cfg) (H : HRelM cfg μ h) {r : Register} (h1 : 1 ≤ r.n) (h2 : r.n < 32)
    (hT : r.n ≠ 1) {p : Word} (hv : μ.val r.n = some p)
    (hop : Scc.Heap.eraseBlock h p.toNat = .ok h')
    (l1 l2 l3 : String) (h12 : l1 ≠ l2) (h13 : l1 ≠ l3) (h23 : l2 ≠ l3) :
    ∃ μ', mFwd cfg (eraseBlockCode r l1 l2 l3) μ = some (μ', .fall) ∧ HRelM cfg μ' h' ∧
      (∀ u, u ≠ 3 → u ≠ 1 → μ'.val u = μ.val u) := by
  have h0 : ¬ r.n = 0 := by omega
  have hrd : ∀ ν : MState, ν.rd r = ν.val r.n := fun ν => MState.rd_of h1 h2
  by_cases hp : p = 0
  · subst hp
    have : h' = h := by
      simp [Scc.Heap.eraseBlock] at hop
      exact hop.symm
    subst this
    refine ⟨μ, ?_, H, fun _ _ _ => rfl⟩
    unfold eraseBlockCode
    refine mFwd_skip_taken cfg r _ _ μ (by rw [hrd, hv]) ?_
    simp [skipTo, h13, h23]
  · have hp' : p.toNat ≠ 0 := fun e => hp (BitVec.eq_of_toNat_eq (by simpa using e))
    unfold Scc.Heap.eraseBlock at hop
    rw [if_neg hp'] at hop
    cases hrdc : Scc.Heap.rd h p.toNat with
    | error f => simp [hrdc] at hop
    | ok cnt =>
      simp only [hrdc] at hop
      obtain ⟨hok, hcnt⟩ := rd_eq_ok.1 hrdc
      have ha : haddr cfg p 0 = some p.toNat := haddr_ok0 C H hok
      obtain ⟨wf, hwf, ewf⟩ := H.free
      obtain ⟨wh, hwh, ewh⟩ := H.heap
      have hr1 : ¬ r.n = 1 := hT
      by_cases hc0 : cnt = 0
      · subst hc0
        have hw0 : μ.heap p.toNat = 0#64 := BitVec.eq_of_toNat_eq (by rw [← H.mem, ← hcnt]; rfl)
        simp only [if_true] at hop
        cases hwr : Scc.Heap.wr h p.toNat h.free with
        | error e => simp [hwr] at hop
        | ok hh =>
          simp only [hwr, Except.ok.injEq] at hop
          obtain ⟨_, rfl⟩ := wr_eq_ok.1 hwr
          subst hop
          refine ⟨((μ.setT 1 (some 0#64)).setH p.toNat wf).setT 3 (some p), ?_, ?_, ?_⟩
          · unfold eraseBlockCode
            refine mFwd_skip_not_taken cfg r _ _ μ _ (by rw [hrd, hv]) hp ?_
            have x1 : mFwd cfg [.COMMENT "######check refcount", .LW TEMP r referenceCountOffset] μ =
                some (μ.setT 1 (some 0#64), .fall) := by
              simp [mFwd_cons, mFwd_nil, mcont, mexecC, mexec, hrd, hv, ha, hw0]
            refine mFwd_seq cfg x1 ?_
            refine mFwd_ite_then cfg TEMP _ _ _ _ _ _ (by simp [MState.rd]) (by simp [skipTo]) ?_
            simp [mFwd_cons, mFwd_nil, mcont, mexecC, mexec, MState.rd, h0, h2, hr1, hv, ha, hwf]
          · have := (H.setT (t := 1) (by decide) (by decide) (some 0#64)).setH p.toNat wf
            rw [ewf] at this
            exact ⟨this.base, this.limit, this.mem, ⟨wh, by simp [hwh], ewh⟩, ⟨p, by simp, rfl⟩⟩
          · intro u hu3 hu1
            simp [hu3, hu1]
      · have hw0 : ¬ μ.heap p.toNat = 0#64 := fun e => hc0 (by rw [hcnt, H.mem, e]; rfl)
        rw [if_neg hc0] at hop
        obtain ⟨_, rfl⟩ := wr_eq_ok.1 hop
        have hw : (μ.heap p.toNat + imm (-1)).toNat = cnt - 1 := by
          rw [toNat_add_neg_one _ hw0, hcnt, H.mem]
        refine ⟨((μ.setT 1 (some (μ.heap p.toNat))).setT 1 (some (μ.heap p.toNat + imm (-1)))).setH p.toNat
          (μ.heap p.toNat + imm (-1)), ?_, ?_, ?_⟩
        · unfold eraseBlockCode
          refine mFwd_skip_not_taken cfg r _ _ μ _ (by rw [hrd, hv]) hp ?_
          have x1 : mFwd cfg [.COMMENT "######check refcount", .LW TEMP r referenceCountOffset] μ =
              some (μ.setT 1 (some (μ.heap p.toNat)), .fall) := by
            simp [mFwd_cons, mFwd_nil, mcont, mexecC, mexec, hrd, hv, ha]
          refine mFwd_seq cfg x1 ?_
          refine mFwd_ite_else cfg TEMP _ _ _ _ _ _ (a := μ.heap p.toNat) (by simp [MState.rd]) hw0 h12
            (by simp [skipTo]) ?_
          simp [mFwd_cons, mFwd_nil, mcont, mexecC, mexec, MState.rd, h0, h2, hr1, hv, ha]
        · have := ((H.setT (t := 1) (by decide) (by decide) (some (μ.heap p.toNat))).setT (t := 1) (by decide)
            (by decide) (some (μ.heap p.toNat + imm (-1)))).setH p.toNat (μ.heap p.toNat + imm (-1))
          rw [hw] at this
          exact this
        · intro u hu3 hu1
          simp [hu1]

end Erase

/-! ## fresh labels -/

/-- every label defined in `code` is one of the fresh labels `lo+1 … hi` -/
def LabsIn (code : List Code) (lo hi : Nat) : Prop :=
  ∀ l, Code.LAB l ∈ code → ∃ n, l = labName n ∧ lo < n ∧ n ≤ hi

theorem skipTo_none_of_not_mem {l : String} : ∀ {code : List Code}, Code.LAB l ∉ code → skipTo l code = none
  | [], _ => rfl
  | cd :: cs, h => by
    have h1 : cd ≠ Code.LAB l := fun e => h (by simp [e])
    have h2 : Code.LAB l ∉ cs := fun e => h (by simp [e])
    cases cd <;> simp only [skipTo] <;> try exact skipTo_none_of_not_mem h2
    case LAB l' =>
      have : l' ≠ l := fun e => h1 (by rw [e])
      rw [if_neg this]
      exact skipTo_none_of_not_mem h2

theorem LabsIn.skipTo_none {code : List Code} {lo hi n : Nat} (L : LabsIn code lo hi)
    (hn : n ≤ lo ∨ hi < n) : skipTo (labName n) code = none := by
  apply skipTo_none_of_not_mem
  intro hm
  obtain ⟨m, e, h1, h2⟩ := L _ hm
  have := labName_inj.1 e
  omega

theorem LabsIn.nil (lo hi : Nat) : LabsIn [] lo hi := fun _ h => by simp at h

theorem LabsIn.append {a b : List Code} {lo hi : Nat} (ha : LabsIn a lo hi) (hb : LabsIn b lo hi) :
    LabsIn (a ++ b) lo hi := fun l h => by
  rcases List.mem_append.1 h with h | h
  · exact ha l h
  · exact hb l h

theorem LabsIn.mono {a : List Code} {lo hi lo' hi' : Nat} (ha : LabsIn a lo hi) (h1 : lo' ≤ lo)
    (h2 : hi ≤ hi') : LabsIn a lo' hi' := fun l h => by
  obtain ⟨n, e, a1, a2⟩ := ha l h
  exact ⟨n, e, by omega, by omega⟩

theorem LabsIn.of_noLab {a : List Code} (lo hi : Nat) (h : ∀ l, Code.LAB l ∉ a) : LabsIn a lo hi :=
  fun l hl => absurd hl (h l)

theorem LabsIn.cons_lab {a : List Code} {lo hi n : Nat} (ha : LabsIn a lo hi) (h1 : lo < n) (h2 : n ≤ hi) :
    LabsIn (.LAB (labName n) :: a) lo hi := fun l h => by
  rcases List.mem_cons.1 h with h | h
  · injection h with h; exact ⟨n, h, h1, h2⟩
  · exact ha l h

theorem LabsIn.cons_other {a : List Code} {lo hi : Nat} {cd : Code} (ha : LabsIn a lo hi)
    (h : ∀ l, cd ≠ .LAB l) : LabsIn (cd :: a) lo hi := fun l hl => by
  rcases List.mem_cons.1 hl with e | e
  · exact absurd e.symm (h l)
  · exact ha l e

/-- no label is defined in the code -/
def NoLab (code : List Code) : Prop := ∀ l, Code.LAB l ∉ code

theorem NoLab.append {a b : List Code} (ha : NoLab a) (hb : NoLab b) : NoLab (a ++ b) := fun l h => by
  rcases List.mem_append.1 h with h | h
  · exact ha l h
  · exact hb l h

theorem NoLab.labsIn {a : List Code} (h : NoLab a) (lo hi : Nat) : LabsIn a lo hi := LabsIn.of_noLab lo hi h

theorem noLab_nil : NoLab [] := fun _ h => by simp at h

theorem noLab_comment (m : String) : NoLab [.COMMENT m] := fun l => by simp

theorem labsIn_eraseBlockCode (r : Register) (k : Nat) :
    LabsIn (eraseBlockCode r (labName (k + 1)) (labName (k + 2)) (labName (k + 3))) k (k + 3) := by
  intro l h
  simp only [eraseBlockCode, List.mem_cons, List.mem_append, reduceCtorEq, false_or, or_false,
    Code.LAB.injEq, List.not_mem_nil] at h
  rcases h with (h | h) | h
  · exact ⟨k + 1, h, by omega, by omega⟩
  · exact ⟨k + 2, h, by omega, by omega⟩
  · exact ⟨k + 3, h, by omega, by omega⟩

/-! ## erase_fields -/

theorem fieldOffset_nat (n i : Nat) : fieldOffset n i = ((Scc.Heap.fieldOffset n i : Nat) : Int) := by
  simp [fieldOffset, address, fieldSlotSize, Scc.Heap.fieldOffset]

theorem fieldOffset_fst (i : Nat) : fieldOffset 0 i = ((Scc.Heap.fstOff i : Nat) : Int) :=
  fieldOffset_nat 0 i

theorem fieldOffset_snd (i : Nat) : fieldOffset 1 i = ((Scc.Heap.sndOff i : Nat) : Int) :=
  fieldOffset_nat 1 i

/-- the code that erases child `i` of the block in register `blk` through the register `at'`
(labels `k+1 … k+3`) -/
def eraseFieldCode (blk at' : Register) (i k : Nat) : List Code :=
  [.COMMENT ("#####check child " ++ toString (i + 1) ++ " for erasure"),
   .LW at' blk (fieldOffset 0 i)] ++
    eraseBlockCode at' (labName (k + 1)) (labName (k + 2)) (labName (k + 3))

/-- memory.rs erase_fields: shape of the code -/
theorem eraseFields_run (blk at' : Register) (k : Nat) :
    (eraseFields blk at' fieldsPerBlock 0).run k =
      .ok (eraseFieldCode blk at' 0 k ++ (eraseFieldCode blk at' 1 (k + 3) ++
        (eraseFieldCode blk at' 2 (k + 6) ++ [])), k + 9) := rfl

theorem labsIn_eraseFieldCode (blk at' : Register) (i k : Nat) :
    LabsIn (eraseFieldCode blk at' i k) k (k + 3) :=
  (labsIn_eraseBlockCode at' k).cons_other (by simp) |>.cons_other (by simp)

section EraseFields
variable {cfg : MonCfg} {μ : MState} {h h' : Scc.Heap.HState}

/-- one child: `at := [blk + fst i]; erase at` -/
theorem m_eraseField (C : CfgOK cfg) (H : HRelM cfg μ h) {blk at' : Register} (hb1 : 1 ≤ blk.n)
    (hb2 : blk.n < 32) (ha1 : 4 ≤ at'.n) (ha2 : at'.n < 32)
    {b : Word} (hv : μ.val blk.n = some b) {i : Nat} {c0 : Nat}
    (hrd : Scc.Heap.rd h (b.toNat + Scc.Heap.fstOff i) = .ok c0)
    (hop : Scc.Heap.eraseBlock h c0 = .ok h') (k : Nat) :
    ∃ μ', mFwd cfg (eraseFieldCode blk at' i k) μ = some (μ', .fall) ∧ HRelM cfg μ' h' ∧
      (∀ u, u ≠ 3 → u ≠ 1 → u ≠ at'.n → μ'.val u = μ.val u) := by
  obtain ⟨hok, hc0⟩ := rd_eq_ok.1 hrd
  have ha := haddr_ok C H hok
  let μ1 := μ.setT at'.n (some (μ.heap (b.toNat + Scc.Heap.fstOff i)))
  have e1 : mFwd cfg [.COMMENT ("#####check child " ++ toString (i + 1) ++ " for erasure"),
      .LW at' blk (fieldOffset 0 i)] μ = some (μ1, .fall) := by
    have ha1' : 1 ≤ at'.n := by omega
    simp [mFwd_cons, mFwd_nil, mcont, mexecC, mexec, MState.rd_of hb1 hb2, hv, fieldOffset_fst, ha, ha1', ha2, μ1]
  have H1 : HRelM cfg μ1 h := H.setT (by omega) (by omega) _
  have hv1 : μ1.val at'.n = some (μ.heap (b.toNat + Scc.Heap.fstOff i)) := by simp [μ1]
  have hop1 : Scc.Heap.eraseBlock h (μ.heap (b.toNat + Scc.Heap.fstOff i)).toNat = .ok h' := by
    rw [← H.mem, ← hc0]; exact hop
  have l12 : labName (k + 1) ≠ labName (k + 2) := fun e => by have := labName_inj.mp e; omega
  have l13 : labName (k + 1) ≠ labName (k + 3) := fun e => by have := labName_inj.mp e; omega
  have l23 : labName (k + 2) ≠ labName (k + 3) := fun e => by have := labName_inj.mp e; omega
  obtain ⟨μ', e2, H2, F2⟩ := m_erase C H1 (r := at') (by omega) ha2 (by omega) hv1 hop1 _ _ _ l12 l13 l23
  refine ⟨μ', mFwd_seq cfg e1 e2, H2, fun u hF hT hA => ?_⟩
  rw [F2 u hF hT]
  simp [μ1, hA]

/-- CONTRACT of `erase_fields` (the three children of the block in register `blk`, e.g. HEAP) -/
theorem m_eraseFields (C : CfgOK cfg) (H : HRelM cfg μ h) {blk at' : Register} (hb1 : 1 ≤ blk.n)
    (hb2 : blk.n < 32) (hbT : blk.n ≠ 1) (hbF : blk.n ≠ 3) (ha1 : 4 ≤ at'.n) (ha2 : at'.n < 32)
    (hba : blk.n ≠ at'.n) {b : Word} (hv : μ.val blk.n = some b)
    (hop : Scc.Heap.eraseFields h b.toNat = .ok h') (k : Nat) :
    ∃ code, (eraseFields blk at' fieldsPerBlock 0).run k = .ok (code, k + 9) ∧ LabsIn code k (k + 9) ∧
      ∃ μ', mFwd cfg code μ = some (μ', .fall) ∧ HRelM cfg μ' h' ∧
        (∀ u, u ≠ 3 → u ≠ 1 → u ≠ at'.n → μ'.val u = μ.val u) := by
  refine ⟨_, eraseFields_run blk at' k, ?_, ?_⟩
  · exact ((labsIn_eraseFieldCode blk at' 0 k).mono (Nat.le_refl _) (by omega)).append
      (((labsIn_eraseFieldCode blk at' 1 (k + 3)).mono (by omega) (by omega)).append
        (((labsIn_eraseFieldCode blk at' 2 (k + 6)).mono (by omega) (by omega)).append (LabsIn.nil _ _)))
  · unfold Scc.Heap.eraseFields at hop
    cases hr0 : Scc.Heap.rd h (b.toNat + Scc.Heap.fstOff 0) with
    | error f => simp [hr0] at hop
    | ok c0 =>
      simp only [hr0] at hop
      cases he0 : Scc.Heap.eraseBlock h c0 with
      | error f => simp [he0] at hop
      | ok s1 =>
        simp only [he0] at hop
        obtain ⟨μ1, x1, H1, F1⟩ := m_eraseField C H hb1 hb2 ha1 ha2 hv hr0 he0 k
        have hv1 : μ1.val blk.n = some b := by rw [F1 _ hbF hbT hba]; exact hv
        cases hr1 : Scc.Heap.rd s1 (b.toNat + Scc.Heap.fstOff 1) with
        | error f => simp [hr1] at hop
        | ok c1 =>
          simp only [hr1] at hop
          cases he1 : Scc.Heap.eraseBlock s1 c1 with
          | error f => simp [he1] at hop
          | ok s2 =>
            simp only [he1] at hop
            obtain ⟨μ2, x2, H2, F2⟩ := m_eraseField C H1 hb1 hb2 ha1 ha2 hv1 hr1 he1 (k + 3)
            have hv2 : μ2.val blk.n = some b := by rw [F2 _ hbF hbT hba]; exact hv1
            cases hr2 : Scc.Heap.rd s2 (b.toNat + Scc.Heap.fstOff 2) with
            | error f => simp [hr2] at hop
            | ok c2 =>
              simp only [hr2] at hop
              obtain ⟨μ3, x3, H3, F3⟩ := m_eraseField C H2 hb1 hb2 ha1 ha2 hv2 hr2 hop (k + 6)
              refine ⟨μ3, mFwd_seq cfg x1 (mFwd_seq cfg x2 (mFwd_seq cfg x3 (mFwd_nil cfg μ3))), H3,
                fun u hF hT hA => ?_⟩
              rw [F3 u hF hT hA, F2 u hF hT hA, F1 u hF hT hA]

end EraseFields

/-! ## acquire_block -/

/-- case (2)/(3) of acquire_block: the inner `if_zero_then_else FREE` -/
def acquireInner (erased : List Code) (k : Nat) : List Code :=
  [.BEQ FREE ZERO (labName (k + 10))] ++
    ([.COMMENT "####mark linear free list empty", .SW ZERO HEAP nextElementOffset,
      .COMMENT "####erase children of next block"] ++ erased) ++
    [.JAL ZERO (labName (k + 11)), .LAB (labName (k + 10))] ++
    [.COMMENT "###(3) fall back to bump allocation",
     .ADDI FREE HEAP (fieldOffset 0 fieldsPerBlock)] ++ [.LAB (labName (k + 11))]

/-- memory.rs acquire_block: shape of the code -/
theorem acquireBlock_run (nb at' : Register) (k : Nat) :
    (acquireBlock nb at').run k =
      .ok ([.MV nb HEAP, .COMMENT "##get next free block into heap register",
          .COMMENT "###(1) check linear free list for next block", .LW HEAP HEAP nextElementOffset] ++
        ([.BEQ HEAP ZERO (labName (k + 12))] ++
          [.COMMENT "####initialize refcount of just acquired block",
           .SW ZERO nb referenceCountOffset] ++
          [.JAL ZERO (labName (k + 13)), .LAB (labName (k + 12))] ++
          ([.COMMENT "###(2) check non-linear lazy free list for next block", .MV HEAP FREE,
            .LW FREE FREE nextElementOffset] ++
            acquireInner (eraseFieldCode HEAP at' 0 k ++ (eraseFieldCode HEAP at' 1 (k + 3) ++
              (eraseFieldCode HEAP at' 2 (k + 6) ++ []))) k) ++
          [.LAB (labName (k + 13))]), k + 13) := rfl

theorem labsIn_acquireInner {erased : List Code} {k : Nat} (L : LabsIn erased k (k + 9)) :
    LabsIn (acquireInner erased k) k (k + 11) := by
  unfold acquireInner
  refine LabsIn.append (LabsIn.append (LabsIn.append (LabsIn.append ?_ ?_) ?_) ?_) ?_
  · exact LabsIn.of_noLab _ _ (by simp)
  · exact (LabsIn.of_noLab _ _ (by simp)).append (L.mono (Nat.le_refl _) (by omega))
  · exact ((LabsIn.nil _ _).cons_lab (n := k + 10) (by omega) (by omega)).cons_other (by simp)
  · exact LabsIn.of_noLab _ _ (by simp)
  · exact (LabsIn.nil _ _).cons_lab (by omega) (by omega)

section Acquire
variable {cfg : MonCfg} {μ : MState} {h h' : Scc.Heap.HState}

theorem fieldOffset_block : fieldOffset 0 fieldsPerBlock = ((64 : Nat) : Int) := by decide

/-- CONTRACT of `acquire_block` on the view: whenever the heap model acquires a block, the emitted
code runs to its end, the result represents the model's result, the target `nb` holds the acquired
block; only `nb`, the additional temporary `at'`, TEMP, HEAP, FREE and the heap change. -/
theorem m_acquire (C : CfgOK cfg) (H : HRelM cfg μ h) {nb at' : Register} (hn1 : 4 ≤ nb.n) (hn2 : nb.n < 32)
    (ha1 : 4 ≤ at'.n) (ha2 : at'.n < 32) (hna : nb.n ≠ at'.n) {new : Nat}
    (hop : Scc.Heap.acquire h = .ok (h', new)) (k : Nat) :
    ∃ code, (acquireBlock nb at').run k = .ok (code, k + 13) ∧ LabsIn code k (k + 13) ∧
      ∃ μ', mFwd cfg code μ = some (μ', .fall) ∧ HRelM cfg μ' h' ∧
        (∃ w, μ'.val nb.n = some w ∧ w.toNat = new) ∧
        (∀ u, u ≠ nb.n → u ≠ at'.n → u ≠ 1 → u ≠ 2 → u ≠ 3 → μ'.val u = μ.val u) := by
  have LE : LabsIn (eraseFieldCode HEAP at' 0 k ++ (eraseFieldCode HEAP at' 1 (k + 3) ++
      (eraseFieldCode HEAP at' 2 (k + 6) ++ []))) k (k + 9) :=
    ((labsIn_eraseFieldCode HEAP at' 0 k).mono (Nat.le_refl _) (by omega)).append
      (((labsIn_eraseFieldCode HEAP at' 1 (k + 3)).mono (by omega) (by omega)).append
        (((labsIn_eraseFieldCode HEAP at' 2 (k + 6)).mono (by omega) (by omega)).append (LabsIn.nil _ _)))
  have LI := labsIn_acquireInner LE
  refine ⟨_, acquireBlock_run nb at' k, ?_, ?_⟩
  · refine LabsIn.append (LabsIn.of_noLab _ _ (by simp)) ?_
    refine LabsIn.append (LabsIn.append (LabsIn.append (LabsIn.append ?_ ?_) ?_) ?_) ?_
    · exact LabsIn.of_noLab _ _ (by simp)
    · exact LabsIn.of_noLab _ _ (by simp)
    · exact ((LabsIn.nil _ _).cons_lab (n := k + 12) (by omega) (by omega)).cons_other (by simp)
    · exact (LabsIn.of_noLab _ _ (by simp)).append (LI.mono (Nat.le_refl _) (by omega))
    · exact (LabsIn.nil _ _).cons_lab (by omega) (by omega)
  obtain ⟨wH, hH, eH⟩ := H.heap
  obtain ⟨wF, hF, eF⟩ := H.free
  have n0 : ¬ nb.n = 0 := by omega
  have n1 : ¬ nb.n = 1 := by omega
  have n2 : ¬ nb.n = 2 := by omega
  have n3 : ¬ nb.n = 3 := by omega
  have n2' : ¬ 2 = nb.n := by omega
  have n3' : ¬ 3 = nb.n := by omega
  have nle : 1 ≤ nb.n := by omega
  have l1213 : labName (k + 12) ≠ labName (k + 13) := fun e => by have := labName_inj.mp e; omega
  have l1011 : labName (k + 10) ≠ labName (k + 11) := fun e => by have := labName_inj.mp e; omega
  unfold Scc.Heap.acquire at hop
  cases hrd : Scc.Heap.rd h h.heap with
  | error f => simp [hrd] at hop
  | ok h0 =>
    simp only [hrd] at hop
    obtain ⟨hok, hh0⟩ := rd_eq_ok.1 hrd
    rw [← eH] at hok hh0
    have aH : haddr cfg wH 0 = some wH.toNat := haddr_ok0 C H hok
    -- the prefix: `mv nb, HEAP`, `lw HEAP, 0(HEAP)`
    have xpre : mFwd cfg [.MV nb HEAP, .COMMENT "##get next free block into heap register",
        .COMMENT "###(1) check linear free list for next block", .LW HEAP HEAP nextElementOffset] μ =
        some ((μ.setT nb.n (some wH)).setT 2 (some (μ.heap wH.toNat)), .fall) := by
      simp [mFwd_cons, mFwd_nil, mcont, mexecC, mexec, MState.rd, nle, hn2, hH, n2', aH]
    rw [mFwd_pre cfg xpre]
    by_cases hz : h0 = 0
    · -- (2) / (3): the linear free list is exhausted
      subst hz
      have hx0 : μ.heap wH.toNat = 0#64 := BitVec.eq_of_toNat_eq (by rw [← H.mem, ← hh0]; rfl)
      rw [hx0]
      simp only [ne_eq, not_true_eq_false, if_false] at hop
      cases hrf : Scc.Heap.rd h h.free with
      | error f => simp [hrf] at hop
      | ok f' =>
        simp only [hrf] at hop
        obtain ⟨hokF, hf'⟩ := rd_eq_ok.1 hrf
        rw [← eF] at hokF hf'
        have aF : haddr cfg wF 0 = some wF.toNat := haddr_ok0 C H hokF
        -- the then-branch of the outer test up to the inner test
        have xthen : mFwd cfg [.COMMENT "###(2) check non-linear lazy free list for next block",
            .MV HEAP FREE, .LW FREE FREE nextElementOffset]
            ((μ.setT nb.n (some wH)).setT 2 (some 0#64)) =
            some ((((μ.setT nb.n (some wH)).setT 2 (some 0#64)).setT 2 (some wF)).setT 3
              (some (μ.heap wF.toNat)), .fall) := by
          simp [mFwd_cons, mFwd_nil, mcont, mexecC, mexec, MState.rd, hF, n3', aF]
        by_cases hfz : f' = 0
        · -- (3) bump allocation
          subst hfz
          have hy0 : μ.heap wF.toNat = 0#64 := BitVec.eq_of_toNat_eq (by rw [← H.mem, ← hf']; rfl)
          simp only [if_true, Except.ok.injEq, Prod.mk.injEq] at hop
          obtain ⟨rfl, rfl⟩ := hop
          have hno : wF.toNat + 64 < 2 ^ 64 := by
            have h2 := hokF.2.1
            unfold CfgOK at C
            rw [H.limit] at h2
            omega
          refine ⟨((((μ.setT nb.n (some wH)).setT 2 (some 0#64)).setT 2 (some wF)).setT 3
              (some 0#64)).setT 3 (some (wF + imm ((64 : Nat) : Int))), ?_, ?_, ?_, ?_⟩
          · refine mFwd_ite_then cfg HEAP _ _ _ _ _ _ (by simp [MState.rd]) (by simp [skipTo, l1213]) ?_
            rw [mFwd_pre cfg xthen, hy0]
            unfold acquireInner
            refine mFwd_ite_then cfg FREE _ _ _ _ _ _ (by simp [MState.rd]) ?_ ?_
            · rw [skipTo_append]
              simp only [skipTo]
              exact LE.skipTo_none (Or.inr (by omega))
            · simp [mFwd_cons, mFwd_nil, mcont, mexecC, mexec, MState.rd, fieldOffset_block]
          · refine ⟨H.base, H.limit, fun a => by simp [H.mem], ⟨wF, by simp, eF⟩,
              ⟨wF + imm ((64 : Nat) : Int), by simp, ?_⟩⟩
            rw [toNat_add_imm_nat _ _ hno, eF]; rfl
          · exact ⟨wH, by simp [n2, n3], eH⟩
          · intro u hu _ _ h2 h3
            simp [hu, h2, h3]
        · -- (2) the head of the lazy free list; its children are erased
          have hy0 : ¬ μ.heap wF.toNat = 0#64 := fun e => hfz (by rw [hf', H.mem, e]; rfl)
          rw [if_neg hfz] at hop
          cases hwr : Scc.Heap.wr { h with heap := h.free, free := f' } h.free 0 with
          | error e => simp [hwr] at hop
          | ok s1 =>
            simp only [hwr] at hop
            obtain ⟨_, rfl⟩ := wr_eq_ok.1 hwr
            cases hef : Scc.Heap.eraseFields { h with heap := h.free, free := f', mem := h.mem.set h.free 0 }
                h.free with
            | error e => simp [hef] at hop
            | ok s2 =>
              simp only [hef, Except.ok.injEq, Prod.mk.injEq] at hop
              obtain ⟨rfl, rfl⟩ := hop
              -- the state in which `erase_fields` starts
              let μ6 : MState := ((((μ.setT nb.n (some wH)).setT 2 (some 0#64)).setT 2 (some wF)).setT 3
                (some (μ.heap wF.toNat))).setH wF.toNat 0#64
              have H6 : HRelM cfg μ6 { h with heap := h.free, free := f', mem := h.mem.set h.free 0 } := by
                refine ⟨H.base, H.limit, fun a => ?_, ⟨wF, by simp [μ6], eF⟩,
                  ⟨μ.heap wF.toNat, by simp [μ6], by rw [hf', H.mem]⟩⟩
                simp only [Scc.Heap.Mem.get_set, μ6, MState.setH_heap, MState.setT_heap, ← eF]
                by_cases e : wF.toNat = a
                · subst e; simp
                · have : ¬ a = wF.toNat := fun x => e x.symm
                  simp [e, this, H.mem a]
              have v6H : μ6.val HEAP.n = some wF := by simp [μ6]
              have hef' : Scc.Heap.eraseFields
                  { h with heap := h.free, free := f', mem := h.mem.set h.free 0 } wF.toNat = .ok s2 := by
                rw [eF]; exact hef
              obtain ⟨code', hrun', _, μ7, x7, H7, F7⟩ := m_eraseFields C H6 (blk := HEAP) (at' := at')
                (by decide) (by decide) (by decide) (by decide) ha1 ha2 (by simp; omega) v6H hef' k
              rw [eraseFields_run] at hrun'
              simp only [Except.ok.injEq, Prod.mk.injEq, and_true] at hrun'
              subst hrun'
              refine ⟨μ7, ?_, H7, ?_, ?_⟩
              · refine mFwd_ite_then cfg HEAP _ _ _ _ _ _ (by simp [MState.rd]) (by simp [skipTo, l1213]) ?_
                rw [mFwd_pre cfg xthen]
                unfold acquireInner
                refine mFwd_ite_else cfg FREE _ _ _ _ _ _ (a := μ.heap wF.toNat) (by simp [MState.rd]) hy0 l1011
                  (by simp [skipTo]) ?_
                have x6 : mFwd cfg [.COMMENT "####mark linear free list empty", .SW ZERO HEAP nextElementOffset,
                    .COMMENT "####erase children of next block"]
                    ((((μ.setT nb.n (some wH)).setT 2 (some 0#64)).setT 2 (some wF)).setT 3
                      (some (μ.heap wF.toNat))) = some (μ6, .fall) := by
                  simp [mFwd_cons, mFwd_nil, mcont, mexecC, mexec, MState.rd, aF, μ6]
                exact mFwd_seq cfg x6 x7
              · refine ⟨wH, ?_, eH⟩
                rw [F7 nb.n n3 n1 hna]
                simp [μ6, n2, n3]
              · intro u hu hA h1 h2 h3
                rw [F7 u h3 h1 hA]
                simp [μ6, hu, h2, h3]
    · -- (1) the linear free list has another element
      have hx0 : ¬ μ.heap wH.toNat = 0#64 := fun e => hz (by rw [hh0, H.mem, e]; rfl)
      simp only [ne_eq, hz, not_false_eq_true, if_true] at hop
      cases hwr : Scc.Heap.wr { h with heap := h0 } h.heap 0 with
      | error e => simp [hwr] at hop
      | ok s1 =>
        simp only [hwr, Except.ok.injEq, Prod.mk.injEq] at hop
        obtain ⟨rfl, rfl⟩ := hop
        obtain ⟨_, rfl⟩ := wr_eq_ok.1 hwr
        refine ⟨((μ.setT nb.n (some wH)).setT 2 (some (μ.heap wH.toNat))).setH wH.toNat 0#64, ?_, ?_, ?_, ?_⟩
        · refine mFwd_ite_else cfg HEAP _ _ _ _ _ _ (a := μ.heap wH.toNat) (by simp [MState.rd]) hx0 l1213 ?_ ?_
          · rw [skipTo_append]
            simp only [skipTo]
            exact LI.skipTo_none (Or.inr (by omega))
          · simp [mFwd_cons, mFwd_nil, mcont, mexecC, mexec, MState.rd, n0, hn2, n2, aH]
        · refine ⟨H.base, H.limit, fun a => ?_, ⟨μ.heap wH.toNat, by simp, by rw [hh0, H.mem]⟩,
            ⟨wF, by simp [n3', hF], eF⟩⟩
          simp only [Scc.Heap.Mem.get_set, MState.setH_heap, MState.setT_heap, ← eH]
          by_cases e : wH.toNat = a
          · subst e; simp
          · have : ¬ a = wH.toNat := fun x => e x.symm
            simp [e, this, H.mem a]
        · exact ⟨wH, by simp [n2], eH⟩
        · intro u hu _ _ h2 _
          simp [hu, h2]

end Acquire

/-! ## acquire_block on the machine -/

/-- CONTRACT of `acquire_block` (memory.rs) on the RV64 machine: from every boundary state that
represents an abstract heap on which `Scc.Heap.acquire` succeeds — (1) next block of the linear free
list, (2) head of the lazy free list with deferred erasure of its three children, (3) bump of the
frontier — the emitted code runs to its end; the final state is a boundary state, represents the
model's result heap, and holds the acquired block in the target `nb`.  Only `nb`, the additional
temporary `at'` (the register through which the children are erased in case (2)), TEMP, HEAP, FREE and
the heap change. -/
theorem acquireBlock_contract {cfg : MonCfg} {la : String → Option Nat} {st : State}
    (B : Boundary cfg st) {h h' : Scc.Heap.HState} (R : HeapRel cfg st h)
    {nb at' : Register} (hn1 : 4 ≤ nb.n) (hn2 : nb.n < 32) (ha1 : 4 ≤ at'.n) (ha2 : at'.n < 32)
    (hna : nb.n ≠ at'.n) {new : Nat} (hop : Scc.Heap.acquire h = .ok (h', new)) (k : Nat) :
    ∃ code, (acquireBlock nb at').run k = .ok (code, k + 13) ∧ LabsIn code k (k + 13) ∧
      ∃ st', execFwd cfg la code st = .ok (st', .fall) ∧ Boundary cfg st' ∧ HeapRel cfg st' h' ∧
        (∃ w, st'.readReg nb = .ok w ∧ w.toNat = new) ∧
        FrameR st st' (fun u => u = nb.n ∨ u = at'.n ∨ u = TEMP.n ∨ u = HEAP.n ∨ u = FREE.n) := by
  obtain ⟨code, hrun, hl, μ', hx, H', ⟨w, hw, ew⟩, hfr⟩ :=
    m_acquire B.top (heapRel_mview R) hn1 hn2 ha1 ha2 hna hop k
  obtain ⟨st', e, B', M', F⟩ := m_to_machine la B hx
    (changed := fun u => u = nb.n ∨ u = at'.n ∨ u = TEMP.n ∨ u = HEAP.n ∨ u = FREE.n)
    (fun u hu => hfr u (fun e => hu (Or.inl e)) (fun e => hu (Or.inr (Or.inl e)))
      (fun e => hu (Or.inr (Or.inr (Or.inl e)))) (fun e => hu (Or.inr (Or.inr (Or.inr (Or.inl e)))))
      (fun e => hu (Or.inr (Or.inr (Or.inr (Or.inr e))))))
  exact ⟨code, hrun, hl, st', e, B', heapRel_of_mrep M' H',
    ⟨w, M'.readReg (by rw [MState.rd_of (by omega) hn2]; exact hw), ew⟩, F⟩

end Scc.RV
