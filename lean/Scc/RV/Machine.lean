/-
  Scc.RV.Machine — SPEC: a machine that executes the instruction TEXT emitted by the RISC-V backend
  of /repo (harness line `S7r`; printed by /repo/lang/axcut2rv64/src/code.rs `impl Display for
  Code` and into_routine.rs), following /verif/lean/MACHINES.md.  Core/Std imports only; executable;
  total (fuel).  No RISC-V toolchain was available: the semantics below is RV64IM as specified in
  the unprivileged ISA manual for the forms that are printed, with the deviations listed here.

  Text format read (exactly the printed forms; anything else is `PARSE-ERROR line <n>: <text>`):
    `ADD rd rs1 rs2` | `ADD rd rs1 <imm>` (= ADDI; also accepted under its real name `ADDI`) |
    `SUB|MUL|DIV|REM rd rs1 rs2` | `JAL rd label` | `JALR rd rs <imm>` | `LA rd label` | `LI rd <imm>` |
    `MV rd rs` | `LW rd <imm> rs` | `SW rs2 <imm> rs1` | `BEQ|BNE|BLT|BLE|BGT|BGE rs1 rs2 label` |
    `label:` | `// comment` | blank line.    Registers are `X0` .. `X31`.

  Deviations from a real RV64 machine, all deliberate:
  * `LW`/`SW` are executed as 64-BIT loads and stores (what `LD`/`SD` do).  On real RV64 `LW` loads
    32 bits (sign-extended) and `SW` stores 32 bits, so the emitted text would truncate every
    pointer and every integer outside the i32 range; property C08 says "read with 64-bit loads and
    stores" for exactly this reason.
  * `DIV`/`REM` with divisor 0 fault `div-by-zero`, MIN / -1 faults `div-overflow` (RISC-V does not
    trap: x div 0 = -1, x rem 0 = x, MIN div -1 = MIN, MIN rem -1 = 0; the property excludes these inputs and the
    fault makes the exclusion explicit).
  * `LI rd imm` loads any 64-bit immediate in one step, `LA rd label` the absolute address of the
    label (both are assembler pseudo-instructions expanding to several instructions; every item is
    nevertheless given size 4 — only the stride of the jump tables, which consist of `JAL` only,
    matters).  `BLE a b l` = `BGE b a l`, `BGT a b l` = `BLT b a l` (standard pseudo-instructions).
  * undefined-value tracking: every register except `X0` and the entry registers starts undefined;
    USING an undefined register (ALU operand, branch operand, address, jump target, value stored
    into the heap, result) is the fault `read-undefined X<n>`; `MV` (pure data movement) copies
    undefinedness instead of faulting (poison rule of MACHINES.md).  There is no stack (the
    backend has no spills): the only data region is the heap, zero-filled (defined) initially.

  Entry (no routine wrapper exists for RV64): control starts at the FIRST label of the text with
  `X2 = heapBase`, `X3 = heapBase + 64`, argument i in `X(2i + 1 + 4)` (the second temporary of the
  variable at position i).  The run ends when control reaches the label `cleanup`; result = `X10`.

  Code addresses: labels and comments have size 0, every instruction size 4, first instruction at
  `codeBase`.  An indirect jump (`JALR`) to an address that is not the address of an instruction or
  of a label at the end of the text is the fault `jump-to-non-instruction`; it lands on the first
  label standing at that address if there is one (so that `#ctx` hooks after the label are seen),
  otherwise on the instruction.

  Monitors (`mon` = words separated by `,` or blanks): `heap` — at every `// #ctx [x:prd y:ext …]`
  hook comment, run `Scc.Heap.invCheckFn` with roots = first temporaries `X(2i + 4)` of the non-`ext`
  variables, HEAP = X2, FREE = X3; `wf` — `wfCheck` on the text before running;
  `heapbytes=<n>` — size of the heap region (default 32 MiB, as on the other machine models).
-/
import Std.Data.HashMap
import Scc.Heap.Model
import Scc.RV.Instr

namespace Scc.RV

abbrev Word := BitVec 64

/-! ## Parser -/

def digitsToNat? (cs : List Char) : Option Nat :=
  if cs.isEmpty || !cs.all Char.isDigit then none
  else some (cs.foldl (fun n c => 10 * n + (c.toNat - '0'.toNat)) 0)

/-- signed decimal as printed by Rust for `i64`: optional `-`, digits -/
def parseImm? (s : String) : Option Int :=
  match s.toList with
  | '-' :: cs => (digitsToNat? cs).map (fun n => - (n : Int))
  | cs => (digitsToNat? cs).map (fun n => (n : Int))

/-- `X<n>` with n < 32, no leading zeros -/
def parseReg? (s : String) : Option Register :=
  match s.toList with
  | 'X' :: cs =>
    match digitsToNat? cs with
    | some n => if n < registerNum && toString n == String.ofList cs then some ⟨n⟩ else none
    | none => none
  | _ => none

def parseLabelRef? (s : String) : Option String :=
  if s.isEmpty then none else some s

def words (s : String) : List String := (s.splitOn " ").filter (· ≠ "")

def parseRRR (mk : Register → Register → Register → Code) (a b c : String) : Option Code :=
  match parseReg? a, parseReg? b, parseReg? c with
  | some x, some y, some z => some (mk x y z)
  | _, _, _ => none

def parseRRL (mk : Register → Register → String → Code) (a b c : String) : Option Code :=
  match parseReg? a, parseReg? b, parseLabelRef? c with
  | some x, some y, some l => some (mk x y l)
  | _, _, _ => none

/-- One line of the text. `some none` = blank line; `none` = does not parse. -/
def parseLine (line : String) : Option (Option Code) :=
  let t := line.trimAscii.toString
  if t.isEmpty then some none
  else if t.startsWith "// " then some (some (.COMMENT (t.drop 3).toString))
  else if t.startsWith "//" then some (some (.COMMENT (t.drop 2).toString))
  else
    match words t with
    | [l] =>
      if l.endsWith ":" && l.length > 1 then some (some (.LAB (l.dropEnd 1).toString)) else none
    | ["ADD", a, b, c] =>
      match parseReg? a, parseReg? b with
      | some x, some y =>
        match parseReg? c with
        | some z => some (some (.ADD x y z))
        | none => (parseImm? c).map (fun i => some (.ADDI x y i))
      | _, _ => none
    | ["ADDI", a, b, c] =>
      match parseReg? a, parseReg? b, parseImm? c with
      | some x, some y, some i => some (some (.ADDI x y i))
      | _, _, _ => none
    | ["SUB", a, b, c] => (parseRRR .SUB a b c).map some
    | ["MUL", a, b, c] => (parseRRR .MUL a b c).map some
    | ["DIV", a, b, c] => (parseRRR .DIV a b c).map some
    | ["REM", a, b, c] => (parseRRR .REM a b c).map some
    | ["JAL", a, l] =>
      match parseReg? a, parseLabelRef? l with
      | some x, some l => some (some (.JAL x l))
      | _, _ => none
    | ["JALR", a, b, c] =>
      match parseReg? a, parseReg? b, parseImm? c with
      | some x, some y, some i => some (some (.JALR x y i))
      | _, _, _ => none
    | ["LA", a, l] =>
      match parseReg? a, parseLabelRef? l with
      | some x, some l => some (some (.LA x l))
      | _, _ => none
    | ["LI", a, c] =>
      match parseReg? a, parseImm? c with
      | some x, some i => some (some (.LI x i))
      | _, _ => none
    | ["MV", a, b] =>
      match parseReg? a, parseReg? b with
      | some x, some y => some (some (.MV x y))
      | _, _ => none
    | ["LW", a, c, b] =>
      match parseReg? a, parseImm? c, parseReg? b with
      | some x, some i, some y => some (some (.LW x y i))
      | _, _, _ => none
    | ["SW", a, c, b] =>
      match parseReg? a, parseImm? c, parseReg? b with
      | some x, some i, some y => some (some (.SW x y i))
      | _, _, _ => none
    | ["BEQ", a, b, l] => (parseRRL .BEQ a b l).map some
    | ["BNE", a, b, l] => (parseRRL .BNE a b l).map some
    | ["BLT", a, b, l] => (parseRRL .BLT a b l).map some
    | ["BLE", a, b, l] => (parseRRL .BLE a b l).map some
    | ["BGT", a, b, l] => (parseRRL .BGT a b l).map some
    | ["BGE", a, b, l] => (parseRRL .BGE a b l).map some
    | _ => none

/-- All lines with their 1-based line numbers; blank lines dropped. -/
def parseLines : Nat → List String → Except String (List (Nat × Code))
  | _, [] => .ok []
  | n, l :: ls =>
    match parseLine l with
    | none => .error s!"PARSE-ERROR line {n}: {l}"
    | some none => parseLines (n + 1) ls
    | some (some c) =>
      match parseLines (n + 1) ls with
      | .error e => .error e
      | .ok cs => .ok ((n, c) :: cs)

def parseText (text : String) : Except String (List (Nat × Code)) :=
  parseLines 1 (text.splitOn "\n")

/-- The verification hook `#ctx [x_1:prd y_2:ext …]` (axcut2backend code_statement.rs, feature
`verif_hooks`): `some kinds` with `true` = the variable holds a heap pointer in its first temporary
(chirality prd or cns), `false` = `ext`.  `none` = not a hook.  `some none` inside = malformed. -/
def parseHook (msg : String) : Option (Option (List Bool)) :=
  if msg.startsWith "#ctx [" && msg.endsWith "]" then
    let inner := ((msg.drop 6).dropEnd 1).toString
    some ((words inner).mapM (fun w =>
      match (w.splitOn ":").getLast? with
      | some "prd" => some true
      | some "cns" => some true
      | some "ext" => some false
      | _ => none))
  else none

/-! ## Program layout -/

def codeBase : Nat := 0x400000
def heapBase : Nat := 0x10000000
def blockBytes : Nat := 64

structure Item where
  line : Nat                      -- 1-based source line
  code : Code                     -- an instruction, a label, or a hook comment
  addr : Nat                      -- byte address (of the next instruction for zero-size items)
  roots : Option (List Nat) := none   -- hook: registers holding the root pointers

structure Program where
  items : Array Item
  labelIdx : Std.HashMap String Nat   -- label ↦ index of its item (first definition)
  addrIdx : Std.HashMap Nat Nat       -- code address ↦ item index an indirect jump lands on
  entry : Option Nat                  -- index of the first label

/-- registers of the first temporaries of the pointer variables: position i ↦ `2 i + 0 + RESERVED` -/
def hookRoots (kinds : List Bool) : List Nat :=
  let rec go : List Bool → Nat → List Nat
    | [], _ => []
    | true :: ks, i => (2 * i + reserved) :: go ks (i + 1)
    | false :: ks, i => go ks (i + 1)
  go kinds 0

structure LayoutSt where
  items : Array Item := #[]
  labelIdx : Std.HashMap String Nat := ∅
  addrIdx : Std.HashMap Nat Nat := ∅
  entry : Option Nat := none
  addr : Nat := codeBase
  pendingLabel : Option Nat := none   -- first label since the last instruction

/-- Lay out the parsed lines.  Plain comments are dropped (hooks are kept). -/
def layoutStep (st : LayoutSt) (lc : Nat × Code) : Except String LayoutSt :=
  let (line, c) := lc
  let idx := st.items.size
  match c with
  | .COMMENT msg =>
    match parseHook msg with
    | none => .ok st
    | some none => .error s!"PARSE-ERROR line {line}: // {msg}"
    | some (some kinds) =>
      .ok { st with items := st.items.push ⟨line, c, st.addr, some (hookRoots kinds)⟩ }
  | .LAB l =>
    .ok { st with
      items := st.items.push ⟨line, c, st.addr, none⟩
      labelIdx := if st.labelIdx.contains l then st.labelIdx else st.labelIdx.insert l idx
      entry := match st.entry with | none => some idx | e => e
      pendingLabel := match st.pendingLabel with | none => some idx | p => p }
  | _ =>
    .ok { st with
      items := st.items.push ⟨line, c, st.addr, none⟩
      addrIdx := st.addrIdx.insert st.addr (st.pendingLabel.getD idx)
      addr := st.addr + 4
      pendingLabel := none }

def layoutLoop : LayoutSt → List (Nat × Code) → Except String LayoutSt
  | st, [] => .ok st
  | st, lc :: rest =>
    match layoutStep st lc with
    | .error e => .error e
    | .ok st1 => layoutLoop st1 rest

def layout (lines : List (Nat × Code)) : Except String Program :=
  match layoutLoop {} lines with
  | .error e => .error e
  | .ok st =>
    let addrIdx := match st.pendingLabel with
      | some i => st.addrIdx.insert st.addr i     -- labels at the very end (`cleanup`)
      | none => st.addrIdx
    .ok ⟨st.items, st.labelIdx, addrIdx, st.entry⟩

def parseProgram (text : String) : Except String Program :=
  match parseText text with
  | .error e => .error e
  | .ok lines => layout lines

/-! ## State -/

structure MonCfg where
  heap : Bool := false
  wf : Bool := false
  heapBytes : Nat := 0x2000000

structure State where
  regs : Array (Option Word)          -- 32 entries; entry 0 is never read
  mem : Std.HashMap Nat Word          -- written heap words (unwritten heap words are 0)
  pc : Nat                            -- item index
  steps : Nat := 0
  maxHeapWritten : Nat := 0           -- heap bytes used: (highest byte offset stored to) + 1, 0 if none
  blocksBelow : Nat := 0              -- max over hooks of the number of blocks below the frontier

/-- X0 reads 0; an undefined register is a fault. -/
def State.readReg (s : State) (r : Register) : Except String Word :=
  if r.n = 0 then .ok 0
  else match s.regs[r.n]? with
    | some (some v) => .ok v
    | _ => .error s!"read-undefined {r.print}"

/-- Writes to X0 are discarded. -/
def State.writeReg (s : State) (r : Register) (v : Word) : State :=
  if r.n = 0 then s else { s with regs := s.regs.setIfInBounds r.n (some v) }

/-- `MV`: pure data movement copies the content INCLUDING undefinedness (the poison rule of
MACHINES.md: dead temporaries may be moved; only a USE of an undefined value is a fault). -/
def State.copyReg (s : State) (x y : Register) : State :=
  if x.n = 0 then s
  else if y.n = 0 then { s with regs := s.regs.setIfInBounds x.n (some 0) }
  else { s with regs := s.regs.setIfInBounds x.n ((s.regs[y.n]?).join) }

def checkAddr (cfg : MonCfg) (a : Nat) : Except String Unit :=
  if a % 8 ≠ 0 then .error "unaligned"
  else if heapBase ≤ a ∧ a + 8 ≤ heapBase + cfg.heapBytes then .ok ()
  else .error s!"oob {a}"

def State.load (s : State) (cfg : MonCfg) (a : Nat) : Except String Word :=
  match checkAddr cfg a with
  | .error e => .error e
  | .ok () => .ok (s.mem.getD a 0)

def State.store (s : State) (cfg : MonCfg) (a : Nat) (v : Word) : Except String State :=
  match checkAddr cfg a with
  | .error e => .error e
  | .ok () =>
    .ok { s with mem := s.mem.insert a v, maxHeapWritten := max s.maxHeapWritten (a + 8 - heapBase) }

/-! ## Instruction semantics -/

/-- where control goes after an instruction -/
inductive Next where
  | fall
  | label (l : String)
  | addr (a : Word)

def imm (c : Int) : Word := BitVec.ofInt 64 c

def INT64_MIN : Word := 0x8000000000000000#64

/-- RV64M `DIV` (signed, rounds towards zero); the two non-trapping special cases are faults here -/
def divW (a b : Word) : Except String Word :=
  if b = 0 then .error "div-by-zero"
  else if a = INT64_MIN ∧ b = -1 then .error "div-overflow"
  else .ok (BitVec.sdiv a b)

/-- RV64M `REM` (sign of the dividend) -/
def remW (a b : Word) : Except String Word :=
  if b = 0 then .error "div-by-zero"
  else if a = INT64_MIN ∧ b = -1 then .error "div-overflow"
  else .ok (BitVec.srem a b)

def arith3 (s : State) (x y z : Register) (f : Word → Word → Except String Word) :
    Except String (State × Next) :=
  match s.readReg y with
  | .error e => .error e
  | .ok a =>
    match s.readReg z with
    | .error e => .error e
    | .ok b =>
      match f a b with
      | .error e => .error e
      | .ok v => .ok (s.writeReg x v, .fall)

def branch (s : State) (x y : Register) (l : String) (cond : Word → Word → Bool) :
    Except String (State × Next) :=
  match s.readReg x with
  | .error e => .error e
  | .ok a =>
    match s.readReg y with
    | .error e => .error e
    | .ok b => .ok (s, if cond a b then .label l else .fall)

/-- Execute one instruction at byte address `pcAddr`.  `labelAddr` resolves labels for `LA`. -/
def exec (cfg : MonCfg) (labelAddr : String → Option Nat) (pcAddr : Nat) (c : Code) (s : State) :
    Except String (State × Next) :=
  match c with
  | .ADD x y z => arith3 s x y z (fun a b => .ok (a + b))
  | .SUB x y z => arith3 s x y z (fun a b => .ok (a - b))
  | .MUL x y z => arith3 s x y z (fun a b => .ok (a * b))
  | .DIV x y z => arith3 s x y z divW
  | .REM x y z => arith3 s x y z remW
  | .ADDI x y c =>
    match s.readReg y with
    | .error e => .error e
    | .ok a => .ok (s.writeReg x (a + imm c), .fall)
  | .LI x c => .ok (s.writeReg x (imm c), .fall)
  | .MV x y => .ok (s.copyReg x y, .fall)      -- pure data movement: copies undefinedness
  | .LA x l =>
    match labelAddr l with
    | none => .error s!"undefined-label {l}"
    | some a => .ok (s.writeReg x (BitVec.ofNat 64 a), .fall)
  | .LW x y c =>
    match s.readReg y with
    | .error e => .error e
    | .ok b =>
      match s.load cfg (b + imm c).toNat with
      | .error e => .error e
      | .ok v => .ok (s.writeReg x v, .fall)
  | .SW x y c =>
    match s.readReg x with
    | .error e => .error e
    | .ok v =>
      match s.readReg y with
      | .error e => .error e
      | .ok b =>
        match s.store cfg (b + imm c).toNat v with
        | .error e => .error e
        | .ok s1 => .ok (s1, .fall)
  | .JAL x l => .ok (s.writeReg x (BitVec.ofNat 64 (pcAddr + 4)), .label l)
  | .JALR x y c =>
    match s.readReg y with
    | .error e => .error e
    | .ok b =>
      let target := (b + imm c) &&& ~~~(1#64)
      .ok (s.writeReg x (BitVec.ofNat 64 (pcAddr + 4)), .addr target)
  | .BEQ x y l => branch s x y l (fun a b => a == b)
  | .BNE x y l => branch s x y l (fun a b => a != b)
  | .BLT x y l => branch s x y l (fun a b => a.slt b)
  | .BGE x y l => branch s x y l (fun a b => !(a.slt b))
  | .BLE x y l => branch s x y l (fun a b => !(b.slt a))      -- pseudo: BGE y x l
  | .BGT x y l => branch s x y l (fun a b => b.slt a)         -- pseudo: BLT y x l
  | .LAB _ => .ok (s, .fall)
  | .COMMENT _ => .ok (s, .fall)

/-! ## Running -/

inductive Res where
  | done (v : Word)
  | fault (why : String) (pcLine : Nat)
  | ccViolation (what : String)
  | invFail (what : String) (pcLine : Nat)
  | outOfFuel

structure RunResult where
  out : List (Bool × Word)          -- always [] : the RV backend cannot print
  res : Res
  steps : Nat
  maxHeapWritten : Nat
  heapBlocksBelowFrontier : Nat

def State.result (s : State) (res : Res) : RunResult :=
  ⟨[], res, s.steps, s.maxHeapWritten, s.blocksBelow⟩

def Program.labelAddr (p : Program) (l : String) : Option Nat :=
  match p.labelIdx[l]? with
  | none => none
  | some i => (p.items[i]?).map (·.addr)

/-- The heap monitor at a hook: roots from the registers, then `Scc.Heap.invCheckFn`. -/
def heapMonitor (cfg : MonCfg) (s : State) (rootRegs : List Nat) : Except String State :=
  match rootRegs.mapM (fun r => s.readReg ⟨r⟩) with
  | .error e => .error s!"root {e}"
  | .ok roots =>
    match s.readReg HEAP, s.readReg FREE with
    | .ok h, .ok f =>
      -- words never stored to are zero, so it suffices to inspect the heap up to a few blocks
      -- above the highest word written
      let ext := (s.maxHeapWritten + 63) / 64 * 64 + 8 * 64
      let limit := heapBase + min cfg.heapBytes ext
      match Scc.Heap.invCheckFn (fun a => (s.mem.getD a 0).toNat) heapBase limit
          h.toNat f.toNat (roots.map (·.toNat)) [] with
      | .error e => .error e
      | .ok (_, _, _, frontier) =>
        .ok { s with blocksBelow := max s.blocksBelow ((frontier - heapBase) / blockBytes) }
    | _, _ => .error "HEAP or FREE register undefined"

/-- One unit of fuel per item traversed (instructions, labels and hooks); `steps` counts
instructions only. -/
def runLoop (p : Program) (cfg : MonCfg) : Nat → State → RunResult
  | 0, s => s.result .outOfFuel
  | fuel + 1, s =>
    match p.items[s.pc]? with
    | none => s.result (.fault "fell-off-end" 0)
    | some it =>
      match it.code with
      | .LAB l =>
        if l == "cleanup" then
          match s.readReg RETURN1 with
          | .ok v => s.result (.done v)
          | .error e => s.result (.fault e it.line)
        else runLoop p cfg fuel { s with pc := s.pc + 1 }
      | .COMMENT _ =>
        match it.roots with
        | some rs =>
          if cfg.heap then
            match heapMonitor cfg s rs with
            | .error e => s.result (.invFail e it.line)
            | .ok s1 => runLoop p cfg fuel { s1 with pc := s.pc + 1 }
          else runLoop p cfg fuel { s with pc := s.pc + 1 }
        | none => runLoop p cfg fuel { s with pc := s.pc + 1 }
      | c =>
        match exec cfg p.labelAddr it.addr c s with
        | .error e => s.result (.fault e it.line)
        | .ok (s1, next) =>
          let s2 := { s1 with steps := s1.steps + 1 }
          match next with
          | .fall => runLoop p cfg fuel { s2 with pc := s.pc + 1 }
          | .label l =>
            match p.labelIdx[l]? with
            | none => s2.result (.fault s!"undefined-label {l}" it.line)
            | some i => runLoop p cfg fuel { s2 with pc := i }
          | .addr a =>
            match p.addrIdx[a.toNat]? with
            | none => s2.result (.fault "jump-to-non-instruction" it.line)
            | some i => runLoop p cfg fuel { s2 with pc := i }

/-- Entry state: `X2 = heapBase`, `X3 = heapBase + 64`, argument i in `X(2 i + 1 + RESERVED)`. -/
def entryRegs (args : List Word) : Option (Array (Option Word)) :=
  let base : Array (Option Word) := (Array.replicate registerNum none)
  let base := base.setIfInBounds HEAP.n (some (BitVec.ofNat 64 heapBase))
  let base := base.setIfInBounds FREE.n (some (BitVec.ofNat 64 (heapBase + blockBytes)))
  let rec go : List Word → Nat → Array (Option Word) → Option (Array (Option Word))
    | [], _, r => some r
    | a :: as, i, r =>
      if 2 * i + 1 + reserved < registerNum then go as (i + 1) (r.setIfInBounds (2 * i + 1 + reserved) (some a))
      else none
  go args 0 base

def runProgram (p : Program) (args : List Word) (fuel : Nat) (cfg : MonCfg) : RunResult :=
  match p.entry, entryRegs args with
  | none, _ => ⟨[], .fault "no-label" 0, 0, 0, 0⟩
  | _, none => ⟨[], .fault "too-many-arguments" 0, 0, 0, 0⟩
  | some e, some regs => runLoop p cfg fuel { regs := regs, mem := ∅, pc := e }

/-! ## Well-formedness of the text (C14) -/

def fitsI12 (c : Int) : Bool := decide (-2048 ≤ c) && decide (c ≤ 2047)
def fitsI64 (c : Int) : Bool := decide (-9223372036854775808 ≤ c) && decide (c ≤ 9223372036854775807)

/-- the label an instruction refers to -/
def Code.labelRef? : Code → Option String
  | .JAL _ l | .LA _ l | .BEQ _ _ l | .BNE _ _ l | .BLT _ _ l | .BLE _ _ l | .BGT _ _ l | .BGE _ _ l =>
    some l
  | _ => none

/-- operand ranges of one instruction: 12-bit signed immediates for `ADDI`, `JALR`, `LW`, `SW`
(I- and S-type), 64-bit for the pseudo-instruction `LI` -/
def Code.operandsOk : Code → Bool
  | .ADDI _ _ c | .JALR _ _ c | .LW _ _ c | .SW _ _ c => fitsI12 c
  | .LI _ c => fitsI64 c
  | _ => true

def firstDuplicate : List String → Option String
  | [] => none
  | x :: xs => if xs.contains x then some x else firstDuplicate xs

/-- The entries directly after a table label `l`: the maximal run of `JAL X0 l_…` (comments skipped). -/
def tableRun (l : String) : List (Nat × Code) → List String
  | [] => []
  | (_, c) :: rest =>
    match c with
    | .COMMENT _ => tableRun l rest
    | .JAL ⟨0⟩ t => if t.startsWith (l ++ "_") then t :: tableRun l rest else []
    | _ => []

/-- Jump tables: a label `l` whose address is taken by `LA` is a table base; its clause labels are
the labels `l_…` defined in the text (in order).  Either there is at most one clause and no table,
or the run of `JAL X0 l_…` entries directly after `l:` lists exactly the clause labels in order —
then the entries are contiguous and entry k is at `address(l) + 4 k`. -/
def tablesOk (labels taken : List String) : List (Nat × Code) → Except String Unit
  | [] => .ok ()
  | (line, c) :: rest =>
    match c with
    | .LAB l =>
      if taken.contains l then
        let run := tableRun l rest
        let clauseLabels := labels.filter (fun x => x.startsWith (l ++ "_"))
        if (run.isEmpty && decide (clauseLabels.length ≤ 1)) || run == clauseLabels then
          tablesOk labels taken rest
        else .error s!"line {line}: jump table {l}: entries {run} but clause labels {clauseLabels}"
      else tablesOk labels taken rest
    | _ => tablesOk labels taken rest

def wfLines (lines : List (Nat × Code)) : Except String Unit :=
  let labels := lines.filterMap (fun lc => match lc.2 with | .LAB l => some l | _ => none)
  match firstDuplicate labels with
  | some l => .error s!"label {l} defined twice"
  | none =>
    match lines.find? (fun lc => match lc.2.labelRef? with
        | some l => !labels.contains l | none => false) with
    | some (line, c) => .error s!"line {line}: undefined label in {printCode c}"
    | none =>
      match lines.find? (fun lc => !lc.2.operandsOk) with
      | some (line, c) => .error s!"line {line}: operand out of range in {printCode c}"
      | none =>
        let taken := lines.filterMap (fun lc => match lc.2 with | .LA _ l => some l | _ => none)
        tablesOk labels taken lines

/-- C14 validator on the raw text -/
def wfCheck (text : String) : Except String Unit :=
  match parseText text with
  | .error e => .error e
  | .ok lines => wfLines lines

/-! ## Line protocol -/

def parseMon (mon : String) : MonCfg :=
  let ws := (mon.splitOn ",").flatMap words
  ws.foldl (fun cfg w =>
    if w == "heap" then { cfg with heap := true }
    else if w == "wf" then { cfg with wf := true }
    else if w.startsWith "heapbytes=" then
      match digitsToNat? (w.drop 10).toString.toList with
      | some n => { cfg with heapBytes := n }
      | none => cfg
    else cfg) {}

/-- arguments: signed decimals separated by blanks or commas -/
def parseArgs (args : String) : Option (List Word) :=
  ((args.splitOn ",").flatMap words).mapM (fun w => (parseImm? w).map imm)

def renderRes : Res → String
  | .done v => s!"done:{v.toInt}"
  | .fault why line => s!"fault:{why}@{line}"
  | .ccViolation what => s!"cc:{what}"
  | .invFail what line => s!"inv:{what}@{line}"
  | .outOfFuel => "outOfFuel"

def renderOut (out : List (Bool × Word)) : String :=
  "[" ++ ",".intercalate (out.map (fun (nl, v) => s!"{if nl then 1 else 0}:{v.toInt}")) ++ "]"

def RunResult.render (r : RunResult) (cfg : MonCfg) : String :=
  s!"OK out={renderOut r.out} res={renderRes r.res} steps={r.steps} maxheap={r.maxHeapWritten}" ++
    (if cfg.heap then s!" blocks={r.heapBlocksBelowFrontier}" else "")

/-- Structured API.  A text that does not parse is reported as a fault at line 0 (use `runLine` or
`parseProgram` to see the message). -/
def run (text : String) (args : List Word) (fuel : Nat) (cfg : MonCfg) : RunResult :=
  match parseProgram text with
  | .error e => ⟨[], .fault e 0, 0, 0, 0⟩
  | .ok p =>
    if cfg.wf then
      match wfCheck text with
      | .error e => ⟨[], .invFail s!"wf {e}" 0, 0, 0, 0⟩
      | .ok () => runProgram p args fuel cfg
    else runProgram p args fuel cfg

/-- `OK out=[] res=done:<v> steps=<n> maxheap=<bytes>[ blocks=<n>]` | `… res=fault:<why>@<line> …`
| `… res=inv:<clause>@<line> …` | `… res=outOfFuel …` | `PARSE-ERROR line <n>: <text>` | `BAD-ARGS` -/
def runLine (asmText args : String) (fuel : Nat) (mon : String) : String :=
  let cfg := parseMon mon
  match parseProgram asmText with
  | .error e => e
  | .ok _ =>
    match parseArgs args with
    | none => "BAD-ARGS"
    | some as => (run asmText as fuel cfg).render cfg

end Scc.RV
