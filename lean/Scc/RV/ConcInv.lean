/-
  Scc.RV.ConcInv — the heap invariant of C09 ON THE CONCRETE RV64 MACHINE STATE, derived from the three-way
  relation at a statement boundary (the port of Scc/X86/ConcInv.lean / ConcKInv.lean).

  `HeapInvAt s kinds limit` is the predicate of the executable heap monitor (`heapMonitor` of
  Scc/RV/Machine.lean) with the decision procedure `Scc.Heap.invCheckFn` replaced by what it decides, the
  invariant `Scc.Heap.InvW` (Scc/Heap/Inv.lean), on the raw machine components:
    * memory    = the machine's heap words (unwritten words read 0), as naturals;
    * heap/free = the contents of the registers HEAP (X2) and FREE (X3);
    * roots     = the contents of the FIRST temporaries `X(2i + 4)` of the non-`ext` variables of the context,
                  read exactly as the monitor reads them (`readReg`: in particular they are DEFINED);
    * region    = `[heapBase, limit)`.
  `heapInvAt_of_x3`: a machine state in the right half `X3` of the three-way relation (with the left half
  `RelX`, which makes the pointer temporaries of non-`ext` variables defined) satisfies `HeapInvAt` with
  `limit = heapBase + heapBytes`: `HeapRel` (machine memory = block-level state) ∘ `HRef.conc` (the block-level
  state satisfies `InvS` w.r.t. the images of the abstract roots) ∘ agreement of the roots up to null pointers
  (`InvW.roots_congr`).  A closure is a heap object like a constructor object: its pointer part (the
  environment block) is a root, its word part (the address of the method table) is not looked at.
  `ctxKinds` (the kinds a `#ctx […]` hook lists) and the counting lemmas are those of Scc/X86/ConcInv.lean (they do
  not mention the machine).  There is no stack on RV64 and no tolerance: an indirect jump lands ON the label (Machine.lean `addrIdx`).
-/
import Scc.RV.RefRun
import Scc.X86.ConcInv

set_option linter.unusedVariables false
set_option linter.unusedSimpArgs false

namespace Scc.RV.Conc

open Scc Scc.AxCut Scc.Backend Scc.Backend.Abs Scc.Backend.Sim Scc.RV Scc.RV.Ref
open Scc.Backend.Sim2
open Scc.Heap (HState InvS InvW)
open Scc.Heap.Refine (HRef imgW)
open Scc.X86.Conc (ctxKinds mapM_ok zipIdx_filter_kinds count_roots)

/-- the machine's heap memory as the invariant sees it (`heapMonitor`: `fun a => (s.mem.getD a 0).toNat`) -/
def memFn (s : State) : Nat → Nat := fun a => (s.mem.getD a 0).toNat

/-- THE MONITOR'S PREDICATE on a machine state (with `invCheckFn` replaced by `InvW`): the roots, HEAP and FREE
are readable (defined), and the invariant holds for the raw machine memory in `[heapBase, limit)` -/
def HeapInvAt (s : State) (kinds : List Bool) (limit : Nat) : Prop :=
  ∃ (roots : List Word) (h f : Word) (lin lazy live : List Nat) (F : Nat),
    (hookRoots kinds).mapM (fun r => s.readReg ⟨r⟩) = .ok roots ∧
    s.readReg HEAP = .ok h ∧ s.readReg FREE = .ok f ∧
    InvW (memFn s) heapBase limit h.toNat f.toNat (roots.map (·.toNat)) [] lin lazy live F

/-! ## the registers the monitor reads -/

theorem hookRoots_go (kinds : List Bool) : ∀ (k : Nat),
    hookRoots.go kinds k = ((kinds.zipIdx k).filter (·.1)).map (fun (ki : Bool × Nat) => 2 * ki.2 + reserved) := by
  induction kinds with
  | nil => intro k; rfl
  | cons b ks ih =>
    intro k
    cases b with
    | true =>
      simp only [hookRoots.go, List.zipIdx_cons, List.filter_cons, if_true, List.map_cons, ih]
    | false =>
      simp only [hookRoots.go, List.zipIdx_cons, List.filter_cons, Bool.false_eq_true, if_false, ih]

theorem hookRoots_eq (kinds : List Bool) :
    hookRoots kinds = ((kinds.zipIdx 0).filter (·.1)).map (fun (ki : Bool × Nat) => 2 * ki.2 + reserved) :=
  hookRoots_go kinds 0

/-! ## the invariant on the machine state -/

variable {mc : MonCfg} {cw : Nat → Word} {τ : Nat → Nat → Word}

/-- THE HEAP INVARIANT ON THE CONCRETE MACHINE STATE at a statement boundary -/
theorem heapInvAt_of_x3 {P : Abs.Program} {hooks : Bool} {prog : AxCut.Prog} {Γ : Ctx} {ρ : List Pos.Value}
    {s : Stmt} {cfg : Config} {hs : HState} {ι : Nat → Nat} {st : State}
    (R : RelX P hooks prog ⟨Γ, ρ, s⟩ cfg) (X : X3 mc cw τ Γ cfg hs ι st) :
    HeapInvAt st (ctxKinds Γ) (heapBase + mc.heapBytes) ∧ hs.limit = heapBase + mc.heapBytes := by
  obtain ⟨w, hw, ew⟩ := X.hrel.heap
  obtain ⟨f, hf, ef⟩ := X.hrel.free
  obtain ⟨lin, lazy, live, Fr, I⟩ := X.href.conc
  -- the pointer parts on the abstract machine
  let val : Nat → Word := fun i => imgWord ι ((cfg.temps.get (2 * i)).getD 0)
  have hlen : ρ.length = Γ.length := R.len
  have hdef : ∀ i (hi : i < Γ.length), Γ[i].chi ≠ .ext → ∃ r, cfg.temps.get (2 * i) = some r ∧
      rv st (2 * i) = some (val i) ∧ (val i).toNat = imgW ι r := by
    intro i hi hc
    have hv := (R.vals i hi (by rw [hlen]; exact hi)).2.2.2 ((chi_bne_ext _).mpr hc)
    cases hg : cfg.temps.get (2 * i) with
    | none => rw [hg] at hv; cases hv
    | some r =>
      refine ⟨r, rfl, ?_, ?_⟩
      · have := X.ptrs i hi hc r hg
        simpa [val, hg] using this
      · simp only [val, hg, Option.getD_some]
        exact imgWord_toNat (fun h0 => (X3R.ref_lt X hi hc hg h0).1)
  -- what the monitor reads
  have hread : (hookRoots (ctxKinds Γ)).mapM (fun r => st.readReg ⟨r⟩) =
      .ok ((((ctxKinds Γ).zipIdx 0).filter (·.1)).map (fun (ki : Bool × Nat) => val ki.2)) := by
    rw [hookRoots_eq]
    have := mapM_ok (fun (ki : Bool × Nat) => st.readReg ⟨2 * ki.2 + reserved⟩)
      (fun (ki : Bool × Nat) => val ki.2) (((ctxKinds Γ).zipIdx 0).filter (·.1)) (by
        intro ki hki
        rw [List.mem_filter] at hki
        obtain ⟨hmem, hk1⟩ := hki
        obtain ⟨hidx, hlt, hget⟩ := List.mem_zipIdx hmem
        simp only [Nat.zero_add, Nat.sub_zero] at hlt hget
        have hlt' : ki.2 < Γ.length := by simpa [ctxKinds] using hlt
        have hc : Γ[ki.2].chi ≠ .ext := by
          have : (ctxKinds Γ)[ki.2] = true := by rw [← hget]; exact hk1
          apply (chi_bne_ext _).mp
          simpa [ctxKinds] using this
        obtain ⟨r, _, hv, _⟩ := hdef ki.2 hlt' hc
        exact readReg_of_rv hv)
    rw [List.mapM_map]
    exact this
  refine ⟨⟨_, w, f, lin, lazy, live, Fr, hread, hw, hf, ?_⟩, X.hrel.limit⟩
  have hmem : memFn st = hs.mem.get := by
    funext a; exact (X.hrel.mem a).symm
  rw [hmem, ew, ef, ← X.hrel.limit, ← X.hrel.base]
  refine InvW.roots_congr I (fun b hb => ?_)
  rw [List.map_map]
  have e1 := zipIdx_filter_kinds Γ 0 (fun i => (val i).toNat)
  have e1' : List.map ((fun (x : Word) => x.toNat) ∘ fun (ki : Bool × Nat) => val ki.2)
      (List.filter (fun x => x.1) ((ctxKinds Γ).zipIdx 0)) =
      (((ctxKinds Γ).zipIdx 0).filter (·.1)).map (fun (ki : Bool × Nat) => (val ki.2).toNat) := rfl
  rw [e1', e1]
  have := count_roots cfg.temps ι (fun i => (val i).toNat) b hb Γ 0 (by
    intro j hj hc
    obtain ⟨r, hr, _, hv⟩ := hdef j hj hc
    exact ⟨r, by rw [Nat.zero_add]; exact hr, by rw [Nat.zero_add]; exact hv⟩)
  rw [this]
  rfl

/-! ## states that differ in the program counter only -/

theorem heapInvAt_setPS {s : State} {kinds : List Bool} {limit : Nat} (pc k : Nat)
    (h : HeapInvAt s kinds limit) : HeapInvAt (setPS s pc k) kinds limit := h

end Scc.RV.Conc
