/-
  Scc.RV.ConcData — THE PEAK HYPOTHESIS FROM THE SIZE OF THE SOURCE-LEVEL DATA, on RV64 (the port of
  `peakFrom_of_data`, Scc/X86/ConcKAllFuel.lean): at a statement boundary whose deferred free list is empty, the
  blocks in use are at most the fields of the objects of the abstract heap (NO GARBAGE, Scc/Heap/RefineNoGarb.lean)
  and these are at most the fields of the object AND CLOSURE nodes of the values of the environment
  (`valsFields`, `heapFields_le_vals`, Scc/X86/ConcData.lean — backend-independent: they speak about Theorem A's
  relation only; a closure environment is an object of the abstract heap like the fields of a constructor).
  `PeakHyp`: the peak hypothesis at the entry, from any source; `programs_peak_gen`, `programs_prefix_gen`: the
  runs of ConcC10.lean for any source of the peak hypothesis.
-/
import Scc.RV.ConcC10
import Scc.X86.ConcData

set_option linter.unusedVariables false
set_option linter.unusedSimpArgs false

namespace Scc.RV.Conc

open Scc Scc.AxCut Scc.AxCut.Pos Scc.Backend Scc.Backend.Abs Scc.Backend.Sim Scc.Backend.Subst Scc.RV Scc.RV.Ref
open Scc.Backend.Sim2 Scc.Backend.Keys
open Scc.Props.C14Generic (LabelSafe)
open Scc.Props.C06Generic (outAfter WithinCapacity Reachable EnoughHeap CodeFits statesOf stopsWithin)
open Scc.Heap (HState InvS InvW Exhausted)
open Scc.Heap.Refine (HRef FrLe Room FrPk heapFields live_le_heapFields)
open Scc.X86.Conc (FrBound LiveLe LiveLe0 valsFields heapFields_le_vals)
open Scc.X86.Ref.K (allocArity AllocLe AllocLeClauses ValAll valAll_ints)

theorem heapFields_trHeap (τ : Nat → Nat → Word) (h : Heap) : heapFields (trHeap τ h) = heapFields h := by
  unfold heapFields trHeap
  rw [List.map_map]
  congr 1
  apply List.map_congr_left
  intro e _
  simp [Function.comp, trO_fields_length]

/-- THE PEAK HYPOTHESIS FROM THE SIZE OF THE SOURCE-LEVEL DATA, all programs -/
theorem peakFrom_of_data {mc : MonCfg} {pr : RV.Program} {ks : List Code} {P : Abs.Program} {hooks : Bool}
    {prog : AxCut.Prog} {st : Pos.State} {X : State} {D C : Nat}
    (hD : ∀ st', Reachable prog st st' → valsFields st'.env ≤ D) :
    PeakFrom mc pr ks P hooks prog st X D C := by
  intro n X' st' cfg' hs' hr hn R hC rs lin live Fr I
  obtain ⟨Γ', ι, cw, τ, _, RX, X3h, _⟩ := R
  have h1 := live_le_heapFields X3h.href I
  rw [heapFields_trHeap] at h1
  have hord : ∀ e ∈ cfg'.heap, ∀ c ∈ e.2.children, c < e.1 := by
    intro e he c hc
    have hm : (e.1, trO τ e.1 e.2) ∈ trHeap τ cfg'.heap := List.mem_map.2 ⟨e, he, rfl⟩
    have := X3h.href.ord _ hm c (by rw [trO_children]; exact hc)
    exact this
  have h2 := heapFields_le_vals RX hord
  have h3 := hD st' hr
  omega

/-- the peak hypothesis at the entry: whatever first boundary the entry establishes -/
def PeakHyp (p : AxCut.Prog) (hooks : Bool) (ks : List Code) (ops : List MockOp) (mc : MonCfg)
    (pr : RV.Program) (X00 : State) (d0 : Def) (args : List Word) (Pk C : Nat) : Prop :=
  ∀ (n0 : Nat) (X0 : State), stepN pr mc n0 X00 = .inl X0 →
    PeakFrom mc pr ks (Program.ofOps ops) hooks p ⟨d0.ctx, args.map .int, d0.body⟩ X0 Pk C

theorem peakHyp_of_data {p : AxCut.Prog} {hooks : Bool} {ks : List Code} {ops : List MockOp} {mc : MonCfg}
    {pr : RV.Program} {X00 : State} {d0 : Def} {args : List Word} {D C : Nat}
    (hD : ∀ st, Reachable p ⟨d0.ctx, args.map .int, d0.body⟩ st → valsFields st.env ≤ D) :
    PeakHyp p hooks ks ops mc pr X00 d0 args D C :=
  fun _ _ _ => peakFrom_of_data hD

theorem peakHyp_of_peakAtMost {p : AxCut.Prog} {hooks : Bool} {ks : List Code} {ops : List MockOp}
    {mc : MonCfg} {pr : RV.Program} {X00 : State} {d0 : Def} {args : List Word} {Pk C : Nat}
    (hP : PeakAtMost p hooks ks ops mc pr X00 Pk C) :
    PeakHyp p hooks ks ops mc pr X00 d0 args Pk C :=
  fun n0 X0 h0 => peakFrom_of_peakAtMost hP h0 _

/-- the chain of block-level facts as a chain of facts about the raw machine states (no peak hypothesis on
machine states needed: the number of blocks in use is not reported) -/
theorem bchain_frontier {p : AxCut.Prog} {hooks : Bool} {ks : List Code} {ops : List MockOp} {mc : MonCfg}
    {pr : RV.Program} {Pk C : Nat} :
    ∀ (sts : List Pos.State) (X : State),
      BChain pr mc (ChainRel mc ks (Program.ofOps ops) hooks p Pk C) sts X →
      BChain pr mc (fun st X => BoundaryOf p hooks ks ops mc st X ∧
        ∃ below inUse, HeapShapeAt mc X below inUse ∧ below ≤ Pk + 1) sts X := by
  intro sts
  induction sts with
  | nil => intro X _; trivial
  | cons st rest ih =>
    intro X hc
    obtain ⟨⟨cfgA, hs, R, hfb, hcC⟩, hrest⟩ := hc
    have hB : BoundaryOf p hooks ks ops mc st X := ⟨cfgA, hs, R⟩
    have hX3 : ∃ Γ' ι cw τ, X3 mc cw τ Γ' cfgA hs ι X := by
      obtain ⟨Γ', ι, cw, τ, _, _, X3h, _⟩ := R
      exact ⟨Γ', ι, cw, τ, X3h⟩
    obtain ⟨Γ', ι, cw, τ, X3h⟩ := hX3
    obtain ⟨lin, lazy, live, Fr, I⟩ := X3h.href.conc
    have hsh := heapShapeAt_of_rel X3h.hrel I
    refine ⟨⟨hB, _, _, hsh, hfb _ _ _ _ _ I⟩, ?_⟩
    rcases hrest with e | ⟨n', X', hn', hc'⟩
    · exact Or.inl e
    · exact Or.inr ⟨n', X', hn', ih X' hc'⟩

/-- EVERY PREFIX OF EVERY RUN, for any source of the peak hypothesis -/
theorem programs_prefix_gen (p : AxCut.Prog) (args : List Word) (hooks : Bool) (instrs hdr : List Code)
    (nargs cX : Nat) (d0 : Def) (ops : List MockOp) (c' : Nat)
    (hsafe : LabelSafe p = true) (htp : LinTypedProg p)
    (hcompM : (compile mockSym hooks p).run 0 = .ok ((ops, nargs), c')) (hfit : CodeFits ops)
    {cX0 : Nat} (hcompX : (compile rvBackend hooks p).run cX0 = .ok ((instrs, nargs), cX))
    (hnd : (labs (instrs ++ [Code.LAB "cleanup"])).Nodup) (hfitX : codeBase + 4 * instrs.length < 2 ^ 64)
    (hd : p.defs.head? = some d0) (hentry : ∀ b ∈ d0.ctx, b.chi = .ext ∧ b.ty = .i64)
    (hlen : d0.ctx.length = args.length)
    (hcap : ∀ st, Reachable p ⟨d0.ctx, args.map .int, d0.body⟩ st → st.ctx.length ≤ 14)
    (fuel : Nat) (hfuel : fuel + 1 < 2 ^ 64)
    (mc : MonCfg) (hheap : mc.heap = false) (htop : heapBase + mc.heapBytes ≤ 2 ^ 63)
    (Pk A : Nat) (hA : ∀ d ∈ p.defs, AllocLe A d.body) (hbytes : 64 * (Pk + A + 2) ≤ mc.heapBytes)
    (lines : List (Nat × Code)) (hhdr : ∀ c ∈ hdr, c.isComment = true)
    (hlines : (lines.map (·.2)).map stripC = (hdr ++ instrs ++ [Code.LAB "cleanup"]).map stripC)
    (hhook : ∀ x ∈ lines, ¬ badHook x.2)
    (hP : ∀ pr e regs, layout lines = .ok pr → pr.entry = some e → entryRegs args = some regs →
      PeakHyp p hooks (keptOf lines) ops mc pr (initState regs e) d0 args Pk (A * fuel + 1)) :
    ∃ pr e regs, layout lines = .ok pr ∧ pr.entry = some e ∧ entryRegs args = some regs ∧
      ∃ X0, stepN pr mc 1 (initState regs e) = .inl X0 ∧
        BChain pr mc
          (fun st X => BoundaryOf p hooks (keptOf lines) ops mc st X ∧
            ∃ below inUse, HeapShapeAt mc X below inUse ∧ below ≤ Pk + 1)
          (statesOf p fuel ⟨d0.ctx, args.map .int, d0.body⟩) X0 := by
  have hmem : d0 ∈ p.defs := by
    cases hdefs : p.defs with
    | nil => rw [hdefs] at hd; simp at hd
    | cons d ds => rw [hdefs] at hd; simp at hd; subst hd; simp
  have hc0 := hcap _ Reachable.refl
  simp only at hc0
  obtain ⟨pr, ic, e, regs, X0, a, En⟩ := entry_setup p args hooks instrs hdr nargs cX d0 ops c' hsafe htp hcompM
    hcompX hnd hfitX hd hentry hlen hc0 mc htop (by omega) lines hhdr hlines hhook
  have hPF := hP pr e regs En.lay En.entry En.hregs 1 X0 En.steps
  have hfb0 : FrBound (Scc.Heap.init heapBase (heapBase + mc.heapBytes)) (Pk + 1) :=
    frBound_init (by decide) (by omega) (by omega)
  have hcb0 : FrBound (Scc.Heap.init heapBase (heapBase + mc.heapBytes)) 1 :=
    frBound_init (by decide) (by omega) (Nat.le_refl _)
  have hch := run3_prefix En.loaded En.nd hheap En.clean En.icl En.fit hooks p 0 ops nargs
    c' hcompM hsafe htp hfit En.defs Pk (A * fuel + 1) A hA hbytes fuel _ (initConfig a args) _ X0 1 En.typed
    hcap En.rel (hA d0 hmem) (valAll_ints _ args) (by rw [En.next1]; omega) hfb0 hcb0 (by omega) hPF
  exact ⟨pr, e, regs, En.lay, En.entry, En.hregs, X0, En.steps, bchain_frontier _ X0 hch⟩

/-- A TERMINATING RUN, for any source of the peak hypothesis: the boundaries, the result, the highest heap
address written -/
theorem programs_peak_gen (p : AxCut.Prog) (args : List Word) (hooks : Bool) (instrs hdr : List Code)
    (nargs cX : Nat) (d0 : Def) (ops : List MockOp) (c' : Nat)
    (hsafe : LabelSafe p = true) (htp : LinTypedProg p)
    (hcompM : (compile mockSym hooks p).run 0 = .ok ((ops, nargs), c')) (hfit : CodeFits ops)
    {cX0 : Nat} (hcompX : (compile rvBackend hooks p).run cX0 = .ok ((instrs, nargs), cX))
    (hnd : (labs (instrs ++ [Code.LAB "cleanup"])).Nodup) (hfitX : codeBase + 4 * instrs.length < 2 ^ 64)
    (hd : p.defs.head? = some d0) (hentry : ∀ b ∈ d0.ctx, b.chi = .ext ∧ b.ty = .i64)
    (hcap : ∀ st, Reachable p ⟨d0.ctx, args.map .int, d0.body⟩ st → st.ctx.length ≤ 14)
    (fuel : Nat) (v : Word) (hfuel : fuel + 1 < 2 ^ 64)
    (hrun : (Pos.run p args fuel).res = .done v)
    (mc : MonCfg) (hheap : mc.heap = false) (htop : heapBase + mc.heapBytes ≤ 2 ^ 63)
    (Pk A : Nat) (hA : ∀ d ∈ p.defs, AllocLe A d.body) (hbytes : 64 * (Pk + A + 2) ≤ mc.heapBytes)
    (lines : List (Nat × Code)) (hhdr : ∀ c ∈ hdr, c.isComment = true)
    (hlines : (lines.map (·.2)).map stripC = (hdr ++ instrs ++ [Code.LAB "cleanup"]).map stripC)
    (hhook : ∀ x ∈ lines, ¬ badHook x.2)
    (hP : ∀ pr e regs, layout lines = .ok pr → pr.entry = some e → entryRegs args = some regs →
      PeakHyp p hooks (keptOf lines) ops mc pr (initState regs e) d0 args Pk (A * fuel + 1)) :
    ∃ pr e regs, layout lines = .ok pr ∧ pr.entry = some e ∧ entryRegs args = some regs ∧
      ∃ X0 n XL r, stepN pr mc 1 (initState regs e) = .inl X0 ∧
        BChain pr mc
          (fun st X => BoundaryOf p hooks (keptOf lines) ops mc st X ∧
            ∃ below inUse, HeapShapeAt mc X below inUse ∧ below ≤ Pk + 1)
          (statesOf p fuel ⟨d0.ctx, args.map .int, d0.body⟩) X0 ∧
        stepN pr mc n X0 = .inl XL ∧ step pr mc XL = .inr r ∧ r.res = .done v ∧
        XL.maxHeapWritten ≤ mc.heapBytes := by
  have hmem : d0 ∈ p.defs := by
    cases hdefs : p.defs with
    | nil => rw [hdefs] at hd; simp at hd
    | cons d ds => rw [hdefs] at hd; simp at hd; subst hd; simp
  obtain ⟨hlen, hrun'⟩ := run_entry hd hrun
  have hc0 := hcap _ Reachable.refl
  simp only at hc0
  obtain ⟨pr, ic, e, regs, X0, a, En⟩ := entry_setup p args hooks instrs hdr nargs cX d0 ops c' hsafe htp hcompM
    hcompX hnd hfitX hd hentry hlen hc0 mc htop (by omega) lines hhdr hlines hhook
  have hPF := hP pr e regs En.lay En.entry En.hregs 1 X0 En.steps
  have hfb0 : FrBound (Scc.Heap.init heapBase (heapBase + mc.heapBytes)) (Pk + 1) :=
    frBound_init (by decide) (by omega) (by omega)
  have hcb0 : FrBound (Scc.Heap.init heapBase (heapBase + mc.heapBytes)) 1 :=
    frBound_init (by decide) (by omega) (Nat.le_refl _)
  obtain ⟨⟨n, XL, r, g1, g2, g3⟩, hch⟩ := run3_peak En.loaded En.nd hheap En.clean En.icl En.fit hooks p 0 ops nargs
    c' hcompM hsafe htp hfit En.defs Pk (A * fuel + 1) A hA hbytes fuel _ [] (initConfig a args) _ X0 v 1 En.typed
    hcap En.rel (hA d0 hmem) (valAll_ints _ args) (by rw [En.next1]; omega) hfb0 hcb0 (by omega) hPF hrun'
  refine ⟨pr, e, regs, En.lay, En.entry, En.hregs, X0, n, XL, r, En.steps,
    bchain_frontier _ X0 hch, g1, g2, g3, ?_⟩
  exact (stepN_mhw hheap (1 + n) (stepN_trans pr mc En.steps g1)).2 (mhwOK_init mc regs e)

/-- … on the run loop: result and the highest heap address written -/
theorem programs_peak_gen_lines (p : AxCut.Prog) (args : List Word) (hooks : Bool) (instrs hdr : List Code)
    (nargs cX : Nat) (d0 : Def) (ops : List MockOp) (c' : Nat)
    (hsafe : LabelSafe p = true) (htp : LinTypedProg p)
    (hcompM : (compile mockSym hooks p).run 0 = .ok ((ops, nargs), c')) (hfit : CodeFits ops)
    {cX0 : Nat} (hcompX : (compile rvBackend hooks p).run cX0 = .ok ((instrs, nargs), cX))
    (hnd : (labs (instrs ++ [Code.LAB "cleanup"])).Nodup) (hfitX : codeBase + 4 * instrs.length < 2 ^ 64)
    (hd : p.defs.head? = some d0) (hentry : ∀ b ∈ d0.ctx, b.chi = .ext ∧ b.ty = .i64)
    (hcap : ∀ st, Reachable p ⟨d0.ctx, args.map .int, d0.body⟩ st → st.ctx.length ≤ 14)
    (fuel : Nat) (v : Word) (hfuel : fuel + 1 < 2 ^ 64)
    (hrun : (Pos.run p args fuel).res = .done v)
    (mc : MonCfg) (hheap : mc.heap = false) (htop : heapBase + mc.heapBytes ≤ 2 ^ 63)
    (Pk A : Nat) (hA : ∀ d ∈ p.defs, AllocLe A d.body) (hbytes : 64 * (Pk + A + 2) ≤ mc.heapBytes)
    (lines : List (Nat × Code)) (hhdr : ∀ c ∈ hdr, c.isComment = true)
    (hlines : (lines.map (·.2)).map stripC = (hdr ++ instrs ++ [Code.LAB "cleanup"]).map stripC)
    (hhook : ∀ x ∈ lines, ¬ badHook x.2)
    (hP : ∀ pr e regs, layout lines = .ok pr → pr.entry = some e → entryRegs args = some regs →
      PeakHyp p hooks (keptOf lines) ops mc pr (initState regs e) d0 args Pk (A * fuel + 1)) :
    ∃ fuel', (runLines lines args fuel' mc).res = .done v ∧
      (runLines lines args fuel' mc).maxHeapWritten ≤ mc.heapBytes := by
  obtain ⟨pr, e, regs, hlay, he, hregs, X0, n, XL, r, h0, _, g1, g2, g3, hm⟩ := programs_peak_gen p args hooks instrs
    hdr nargs cX d0 ops c' hsafe htp hcompM hfit hcompX hnd hfitX hd hentry hcap fuel v hfuel hrun mc hheap htop
    Pk A hA hbytes lines hhdr hlines hhook hP
  refine ⟨(1 + n) + 1, ?_⟩
  rw [runLines_eq hlay he hregs]
  have hN : stepN pr mc ((1 + n) + 1) (initState regs e) = .inr r :=
    stepN_trans_inr pr mc (stepN_trans pr mc h0 g1) (by rw [stepN_one]; exact g2)
  have hrl := runLoop_stepN_inr pr mc ((1 + n) + 1) 0 hN
  rw [Nat.zero_add] at hrl
  rw [hrl]
  exact ⟨g3, by rw [step_done_mhw g2 g3]; exact hm⟩

end Scc.RV.Conc
