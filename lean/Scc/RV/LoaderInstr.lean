/-
  Scc.RV.LoaderInstr — the loader `parseLine` (Scc/RV/Machine.lean) reads every line that the printer
  `printCode` (Scc/RV/Instr.lean) produces back, for EVERY constructor of `Scc.RV.Code`:

  * `regsOf c` (the register operands), `RegsOK c` (all are `X0 .. X31`), `LabelOK l` (a referenced label: not
    empty, no white space), `LabelDefOK l` (a defined label: moreover not starting with `//`);
  * `reads_instr`: every INSTRUCTION `c` (19 forms; `ADDI` is printed `ADD rd rs imm` and told from `ADD` by its
    third operand) with `RegsOK c` and a text-safe label is read back as `c`:
    `parseLine (printCode c) = some (some c)`, and its printed form is one line;
  * `reads_label`: `LAB l` prints as an empty line (read as a blank line) and `l:` (read as `LAB l`);
  * `reads_comment`: `COMMENT m` is read as `COMMENT (rtrim m)` for EVERY `m` (the loader trims the line);
    `parsedCode c` = what an item is read as; `stripC (parsedCode c) = stripC c`;
  * `parseLine_blank`.
  Proof file: core imports only.
-/
import Scc.RV.LoaderLemmas
import Scc.RV.RefLayout

namespace Scc.RV.Loader

open Scc.RV Scc.RV.Ref Scc.Str

set_option linter.unusedSimpArgs false
set_option linter.unusedVariables false

/-! ## the operands of an item -/

/-- the register operands -/
def regsOf : Code → List Register
  | .ADD x y z | .SUB x y z | .MUL x y z | .DIV x y z | .REM x y z => [x, y, z]
  | .ADDI x y _ | .JALR x y _ | .MV x y | .LW x y _ | .SW x y _ => [x, y]
  | .BEQ x y _ | .BNE x y _ | .BLT x y _ | .BLE x y _ | .BGT x y _ | .BGE x y _ => [x, y]
  | .JAL x _ | .LA x _ | .LI x _ => [x]
  | .LAB _ | .COMMENT _ => []

/-- every register operand is one of `X0 .. X31` -/
def RegsOK (c : Code) : Prop := ∀ r ∈ regsOf c, r.n < registerNum

/-- a referenced label: not empty, no white space -/
def LabelOK (l : String) : Prop := Tok l.toList

/-- a defined label: moreover it does not start with `//` -/
def LabelDefOK (l : String) : Prop := Tok l.toList ∧ NoSlash l.toList

/-! ## tokens -/

theorem forall_tok_nil : ∀ w ∈ ([] : List (List Char)), Tok w := fun _ h => by simp at h

theorem forall_tok_cons {a : List Char} {l : List (List Char)} (ha : Tok a) (hl : ∀ w ∈ l, Tok w) :
    ∀ w ∈ a :: l, Tok w := by
  intro w hw
  simp only [List.mem_cons] at hw
  rcases hw with rfl | hw
  · exact ha
  · exact hl w hw

theorem tok_of_check {w : List Char} (h : (!w.isEmpty && w.all (fun c => !c.isWhitespace)) = true) : Tok w := by
  simp only [Bool.and_eq_true, Bool.not_eq_true', List.all_eq_true] at h
  exact ⟨fun e => by rw [e] at h; simp at h, h.2⟩

/-! ## the printed forms as token lines -/

section Printed

variable (x y z : Register) (c : Int) (l : String)

local macro "pr" : tactic =>
  `(tactic| (apply String.ext
             simp [printCode, toString_str, print_eq, toList_repr_int, String.toList_append, tokLine_cons,
               tokLine_single]))

theorem p_ADD : printCode (.ADD x y z) = String.ofList (tokLine "ADD".toList [regC x, regC y, regC z]) := by pr
theorem p_ADDI : printCode (.ADDI x y c) = String.ofList (tokLine "ADD".toList [regC x, regC y, immC c]) := by pr
theorem p_SUB : printCode (.SUB x y z) = String.ofList (tokLine "SUB".toList [regC x, regC y, regC z]) := by pr
theorem p_MUL : printCode (.MUL x y z) = String.ofList (tokLine "MUL".toList [regC x, regC y, regC z]) := by pr
theorem p_DIV : printCode (.DIV x y z) = String.ofList (tokLine "DIV".toList [regC x, regC y, regC z]) := by pr
theorem p_REM : printCode (.REM x y z) = String.ofList (tokLine "REM".toList [regC x, regC y, regC z]) := by pr
theorem p_JAL : printCode (.JAL x l) = String.ofList (tokLine "JAL".toList [regC x, l.toList]) := by pr
theorem p_JALR : printCode (.JALR x y c) = String.ofList (tokLine "JALR".toList [regC x, regC y, immC c]) := by pr
theorem p_LA : printCode (.LA x l) = String.ofList (tokLine "LA".toList [regC x, l.toList]) := by pr
theorem p_LI : printCode (.LI x c) = String.ofList (tokLine "LI".toList [regC x, immC c]) := by pr
theorem p_MV : printCode (.MV x y) = String.ofList (tokLine "MV".toList [regC x, regC y]) := by pr
theorem p_LW : printCode (.LW x y c) = String.ofList (tokLine "LW".toList [regC x, immC c, regC y]) := by pr
theorem p_SW : printCode (.SW x y c) = String.ofList (tokLine "SW".toList [regC x, immC c, regC y]) := by pr
theorem p_BEQ : printCode (.BEQ x y l) = String.ofList (tokLine "BEQ".toList [regC x, regC y, l.toList]) := by pr
theorem p_BNE : printCode (.BNE x y l) = String.ofList (tokLine "BNE".toList [regC x, regC y, l.toList]) := by pr
theorem p_BLT : printCode (.BLT x y l) = String.ofList (tokLine "BLT".toList [regC x, regC y, l.toList]) := by pr
theorem p_BLE : printCode (.BLE x y l) = String.ofList (tokLine "BLE".toList [regC x, regC y, l.toList]) := by pr
theorem p_BGT : printCode (.BGT x y l) = String.ofList (tokLine "BGT".toList [regC x, regC y, l.toList]) := by pr
theorem p_BGE : printCode (.BGE x y l) = String.ofList (tokLine "BGE".toList [regC x, regC y, l.toList]) := by pr

end Printed

/-! ## instructions -/

theorem parseLabelRef?_tok {l : String} (h : LabelOK l) : parseLabelRef? l = some l := by
  have := parseLabelRef?_ofList h.1
  rwa [String.ofList_toList] at this

/-- what reading an instruction back means: the line is read as the instruction, and it is one line -/
abbrev Reads (code : Code) : Prop :=
  parseLine (printCode code) = some (some code) ∧ '\n' ∉ (printCode code).toList

/-- the tokens of a printed instruction are tokens -/
local macro "toks" : tactic =>
  `(tactic| (
      repeat (first
        | exact forall_tok_nil
        | (refine forall_tok_cons ?_ ?_; rotate_left))
      all_goals first
        | exact tok_regC _
        | exact tok_immC _
        | assumption
        | exact tok_of_check (by decide)))

/-- reading a line of tokens whose first token is the mnemonic `mn` -/
theorem reads_of (code : Code) (mn : String) (ws : List (List Char))
    (hp : printCode code = String.ofList (tokLine mn.toList ws))
    (hall : ∀ w ∈ mn.toList :: ws, Tok w) (hs : mn.toList.head? ≠ some '/')
    (hm : ∀ t : String, t.trimAscii.toString = t → t.isEmpty = false → t.startsWith "// " = false →
      t.startsWith "//" = false → words t = mn :: ws.map String.ofList → parseLine t = some (some code)) :
    Reads code := by
  obtain ⟨h1, h2, h3, h4, h5⟩ := tokLine_facts mn.toList ws hall (noSlash_of_head hs)
  refine ⟨?_, ?_⟩
  · rw [hp]
    refine hm _ h1 h2 h3 h4 ?_
    rw [h5, List.map_cons, String.ofList_toList]
  · rw [hp, String.toList_ofList]
    exact tokLine_no_nl _ _ hall

/-- evaluate `parseLine` on a line whose words are known -/
local macro "rd" "[" extra:Lean.Parser.Tactic.simpLemma,* "]" : tactic =>
  `(tactic| (
      intro t h1 h2 h3 h4 h5
      unfold parseLine
      simp only [h1, h2, h3, h4, h5, Bool.false_eq_true, if_false, List.map_cons, List.map_nil,
        parseReg?_immC, parseImm?_immC, Option.map_some, parseRRR, parseRRL, String.ofList_toList, $extra,*]))

section Reads

variable {x y z : Register} {c : Int} {l : String}

theorem r_ADD (hx : x.n < registerNum) (hy : y.n < registerNum) (hz : z.n < registerNum) : Reads (.ADD x y z) := by
  refine reads_of _ "ADD" [regC x, regC y, regC z] (p_ADD x y z) (by toks) (by decide) ?_
  rd [parseReg?_regC _ hx, parseReg?_regC _ hy, parseReg?_regC _ hz]

theorem r_SUB (hx : x.n < registerNum) (hy : y.n < registerNum) (hz : z.n < registerNum) : Reads (.SUB x y z) := by
  refine reads_of _ "SUB" [regC x, regC y, regC z] (p_SUB x y z) (by toks) (by decide) ?_
  rd [parseReg?_regC _ hx, parseReg?_regC _ hy, parseReg?_regC _ hz]

theorem r_MUL (hx : x.n < registerNum) (hy : y.n < registerNum) (hz : z.n < registerNum) : Reads (.MUL x y z) := by
  refine reads_of _ "MUL" [regC x, regC y, regC z] (p_MUL x y z) (by toks) (by decide) ?_
  rd [parseReg?_regC _ hx, parseReg?_regC _ hy, parseReg?_regC _ hz]

theorem r_DIV (hx : x.n < registerNum) (hy : y.n < registerNum) (hz : z.n < registerNum) : Reads (.DIV x y z) := by
  refine reads_of _ "DIV" [regC x, regC y, regC z] (p_DIV x y z) (by toks) (by decide) ?_
  rd [parseReg?_regC _ hx, parseReg?_regC _ hy, parseReg?_regC _ hz]

theorem r_REM (hx : x.n < registerNum) (hy : y.n < registerNum) (hz : z.n < registerNum) : Reads (.REM x y z) := by
  refine reads_of _ "REM" [regC x, regC y, regC z] (p_REM x y z) (by toks) (by decide) ?_
  rd [parseReg?_regC _ hx, parseReg?_regC _ hy, parseReg?_regC _ hz]

/-- `ADDI` is printed with the mnemonic `ADD`; the loader tells it from `ADD` by its third operand -/
theorem r_ADDI (hx : x.n < registerNum) (hy : y.n < registerNum) : Reads (.ADDI x y c) := by
  refine reads_of _ "ADD" [regC x, regC y, immC c] (p_ADDI x y c) (by toks) (by decide) ?_
  rd [parseReg?_regC _ hx, parseReg?_regC _ hy]

theorem r_JALR (hx : x.n < registerNum) (hy : y.n < registerNum) : Reads (.JALR x y c) := by
  refine reads_of _ "JALR" [regC x, regC y, immC c] (p_JALR x y c) (by toks) (by decide) ?_
  rd [parseReg?_regC _ hx, parseReg?_regC _ hy]

theorem r_MV (hx : x.n < registerNum) (hy : y.n < registerNum) : Reads (.MV x y) := by
  refine reads_of _ "MV" [regC x, regC y] (p_MV x y) (by toks) (by decide) ?_
  rd [parseReg?_regC _ hx, parseReg?_regC _ hy]

theorem r_LW (hx : x.n < registerNum) (hy : y.n < registerNum) : Reads (.LW x y c) := by
  refine reads_of _ "LW" [regC x, immC c, regC y] (p_LW x y c) (by toks) (by decide) ?_
  rd [parseReg?_regC _ hx, parseReg?_regC _ hy]

theorem r_SW (hx : x.n < registerNum) (hy : y.n < registerNum) : Reads (.SW x y c) := by
  refine reads_of _ "SW" [regC x, immC c, regC y] (p_SW x y c) (by toks) (by decide) ?_
  rd [parseReg?_regC _ hx, parseReg?_regC _ hy]

theorem r_LI (hx : x.n < registerNum) : Reads (.LI x c) := by
  refine reads_of _ "LI" [regC x, immC c] (p_LI x c) (by toks) (by decide) ?_
  rd [parseReg?_regC _ hx]

theorem r_JAL (hx : x.n < registerNum) (hl : LabelOK l) : Reads (.JAL x l) := by
  have hlt : Tok l.toList := hl
  refine reads_of _ "JAL" [regC x, l.toList] (p_JAL x l) (by toks) (by decide) ?_
  rd [parseReg?_regC _ hx, parseLabelRef?_tok hl]

theorem r_LA (hx : x.n < registerNum) (hl : LabelOK l) : Reads (.LA x l) := by
  have hlt : Tok l.toList := hl
  refine reads_of _ "LA" [regC x, l.toList] (p_LA x l) (by toks) (by decide) ?_
  rd [parseReg?_regC _ hx, parseLabelRef?_tok hl]

theorem r_BEQ (hx : x.n < registerNum) (hy : y.n < registerNum) (hl : LabelOK l) : Reads (.BEQ x y l) := by
  have hlt : Tok l.toList := hl
  refine reads_of _ "BEQ" [regC x, regC y, l.toList] (p_BEQ x y l) (by toks) (by decide) ?_
  rd [parseReg?_regC _ hx, parseReg?_regC _ hy, parseLabelRef?_tok hl]

theorem r_BNE (hx : x.n < registerNum) (hy : y.n < registerNum) (hl : LabelOK l) : Reads (.BNE x y l) := by
  have hlt : Tok l.toList := hl
  refine reads_of _ "BNE" [regC x, regC y, l.toList] (p_BNE x y l) (by toks) (by decide) ?_
  rd [parseReg?_regC _ hx, parseReg?_regC _ hy, parseLabelRef?_tok hl]

theorem r_BLT (hx : x.n < registerNum) (hy : y.n < registerNum) (hl : LabelOK l) : Reads (.BLT x y l) := by
  have hlt : Tok l.toList := hl
  refine reads_of _ "BLT" [regC x, regC y, l.toList] (p_BLT x y l) (by toks) (by decide) ?_
  rd [parseReg?_regC _ hx, parseReg?_regC _ hy, parseLabelRef?_tok hl]

theorem r_BLE (hx : x.n < registerNum) (hy : y.n < registerNum) (hl : LabelOK l) : Reads (.BLE x y l) := by
  have hlt : Tok l.toList := hl
  refine reads_of _ "BLE" [regC x, regC y, l.toList] (p_BLE x y l) (by toks) (by decide) ?_
  rd [parseReg?_regC _ hx, parseReg?_regC _ hy, parseLabelRef?_tok hl]

theorem r_BGT (hx : x.n < registerNum) (hy : y.n < registerNum) (hl : LabelOK l) : Reads (.BGT x y l) := by
  have hlt : Tok l.toList := hl
  refine reads_of _ "BGT" [regC x, regC y, l.toList] (p_BGT x y l) (by toks) (by decide) ?_
  rd [parseReg?_regC _ hx, parseReg?_regC _ hy, parseLabelRef?_tok hl]

theorem r_BGE (hx : x.n < registerNum) (hy : y.n < registerNum) (hl : LabelOK l) : Reads (.BGE x y l) := by
  have hlt : Tok l.toList := hl
  refine reads_of _ "BGE" [regC x, regC y, l.toList] (p_BGE x y l) (by toks) (by decide) ?_
  rd [parseReg?_regC _ hx, parseReg?_regC _ hy, parseLabelRef?_tok hl]

end Reads

/-- **every instruction the printer can print is read back**, provided its registers exist and its label (if
    any) is text-safe -/
theorem reads_instr (c : Code) (hi : c.isInstr = true) (hr : RegsOK c)
    (hl : ∀ l, c.labelRef? = some l → LabelOK l) : Reads c := by
  cases c with
  | ADD x y z => exact r_ADD (hr x (by simp [regsOf])) (hr y (by simp [regsOf])) (hr z (by simp [regsOf]))
  | SUB x y z => exact r_SUB (hr x (by simp [regsOf])) (hr y (by simp [regsOf])) (hr z (by simp [regsOf]))
  | MUL x y z => exact r_MUL (hr x (by simp [regsOf])) (hr y (by simp [regsOf])) (hr z (by simp [regsOf]))
  | DIV x y z => exact r_DIV (hr x (by simp [regsOf])) (hr y (by simp [regsOf])) (hr z (by simp [regsOf]))
  | REM x y z => exact r_REM (hr x (by simp [regsOf])) (hr y (by simp [regsOf])) (hr z (by simp [regsOf]))
  | ADDI x y c => exact r_ADDI (hr x (by simp [regsOf])) (hr y (by simp [regsOf]))
  | JALR x y c => exact r_JALR (hr x (by simp [regsOf])) (hr y (by simp [regsOf]))
  | MV x y => exact r_MV (hr x (by simp [regsOf])) (hr y (by simp [regsOf]))
  | LW x y c => exact r_LW (hr x (by simp [regsOf])) (hr y (by simp [regsOf]))
  | SW x y c => exact r_SW (hr x (by simp [regsOf])) (hr y (by simp [regsOf]))
  | LI x c => exact r_LI (hr x (by simp [regsOf]))
  | JAL x l => exact r_JAL (hr x (by simp [regsOf])) (hl l rfl)
  | LA x l => exact r_LA (hr x (by simp [regsOf])) (hl l rfl)
  | BEQ x y l => exact r_BEQ (hr x (by simp [regsOf])) (hr y (by simp [regsOf])) (hl l rfl)
  | BNE x y l => exact r_BNE (hr x (by simp [regsOf])) (hr y (by simp [regsOf])) (hl l rfl)
  | BLT x y l => exact r_BLT (hr x (by simp [regsOf])) (hr y (by simp [regsOf])) (hl l rfl)
  | BLE x y l => exact r_BLE (hr x (by simp [regsOf])) (hr y (by simp [regsOf])) (hl l rfl)
  | BGT x y l => exact r_BGT (hr x (by simp [regsOf])) (hr y (by simp [regsOf])) (hl l rfl)
  | BGE x y l => exact r_BGE (hr x (by simp [regsOf])) (hr y (by simp [regsOf])) (hl l rfl)
  | LAB l => cases hi
  | COMMENT m => cases hi

/-! ## blank lines -/

/-- a line of white space only is skipped -/
theorem parseLine_blank {raw : String} (h : trimList raw.toList = []) : parseLine raw = some none := by
  have ht : raw.trimAscii.toString = "" := by rw [trimAscii_eq, h]
  have he : ("" : String).isEmpty = true := rfl
  unfold parseLine
  simp only [ht, he, if_true]

theorem parseLine_empty : parseLine "" = some none := parseLine_blank rfl

/-! ## labels -/

theorem noSlash_snoc {l : List Char} (hne : l ≠ []) (hs : NoSlash l) (c : Char) (hc : c ≠ '/') :
    NoSlash (l ++ [c]) := by
  rintro ⟨t, ht⟩
  match l, hne, hs with
  | [x], _, _ =>
    simp only [List.cons_append, List.nil_append, List.cons.injEq] at ht
    exact hc ht.2.1.symm
  | x :: y :: r, _, hs =>
    simp only [List.cons_append, List.nil_append, List.cons.injEq] at ht
    exact hs ⟨r, by rw [← ht.1, ← ht.2.1]; rfl⟩

/-- the line `l:` is read as the label `l` -/
theorem parseLine_label {l : String} (h : LabelDefOK l) : parseLine (l ++ ":") = some (some (.LAB l)) := by
  have htok : Tok (l.toList ++ [':']) := by
    refine ⟨by simp, ?_⟩
    intro c hc
    simp only [List.mem_append, List.mem_singleton] at hc
    rcases hc with hc | rfl
    · exact h.1.2 c hc
    · decide
  have hall : ∀ w ∈ (l.toList ++ [':']) :: [], Tok w := forall_tok_cons htok forall_tok_nil
  have hs : NoSlash (l.toList ++ [':']) := noSlash_snoc h.1.1 h.2 ':' (by decide)
  obtain ⟨h1, h2, h3, h4, h5⟩ := tokLine_facts (l.toList ++ [':']) [] hall hs
  have e : l ++ ":" = String.ofList (tokLine (l.toList ++ [':']) []) := by
    apply String.ext
    rw [tokLine_single, String.toList_ofList, String.toList_append]; rfl
  rw [e]
  rw [tokLine_single] at h1 h2 h3 h4 h5 ⊢
  have hend : (String.ofList (l.toList ++ [':'])).endsWith ":" = true := by
    rw [colon_eq, ew_singleton, String.toList_ofList]; simp
  have hlen : decide ((String.ofList (l.toList ++ [':'])).length > 1) = true := by
    have hne := h.1.1
    rw [String.length_ofList]
    cases hl : l.toList with
    | nil => exact absurd hl hne
    | cons _ _ => simp
  have hdrop : ((String.ofList (l.toList ++ [':'])).dropEnd 1).toString = l := by
    apply String.ext
    rw [toList_dropEnd, String.toList_ofList]; simp
  unfold parseLine
  simp only [h1, h2, h3, h4, h5, Bool.false_eq_true, if_false, List.map_cons, List.map_nil, hend, hlen,
    Bool.and_self, if_true, hdrop]

/-- `LAB l` prints as an empty line and the line `l:` -/
theorem printCode_LAB (l : String) : printCode (.LAB l) = "\n" ++ (l ++ ":") := by
  apply String.ext
  simp [printCode, toString_str, String.toList_append]

theorem label_no_nl {l : String} (h : LabelDefOK l) : '\n' ∉ (l ++ ":").toList := by
  rw [String.toList_append]
  intro hm
  simp only [List.mem_append] at hm
  rcases hm with hm | hm
  · exact tok_no_nl h.1 hm
  · revert hm; decide

/-! ## comments -/

theorem printCode_COMMENT (m : String) : printCode (.COMMENT m) = "// " ++ m := by
  apply String.ext
  simp [printCode, toString_str, String.toList_append]

/-- the text of a comment as the loader reads it: without its trailing white space -/
def rtrimS (m : String) : String := String.ofList (rtrimList m.toList)

/-- a comment line is read as the comment without its trailing white space — for EVERY comment text -/
theorem parseLine_comment (m : String) : parseLine ("// " ++ m) = some (some (.COMMENT (rtrimS m))) := by
  have hl : ("// " ++ m).toList = ['/', '/', ' '] ++ m.toList := by rw [String.toList_append]; rfl
  have ht : ("// " ++ m).trimAscii.toString.toList = rtrimList (['/', '/', ' '] ++ m.toList) := by
    rw [toList_trimAscii, hl]
    exact trimList_of_head (by intro c hc; simp at hc; subst hc; decide)
  unfold rtrimList at ht
  rw [dropEndWhileList_append] at ht
  by_cases hm : dropEndWhileList Char.isWhitespace m.toList = []
  · -- the comment text is white space only: the trimmed line is `//`
    simp only [hm, if_true] at ht
    have ht' : ("// " ++ m).trimAscii.toString = "//" := by
      apply String.ext; rw [ht]; decide
    have hr : rtrimS m = "" := by unfold rtrimS rtrimList; rw [hm]
    have e1 : ("//" : String).isEmpty = false := by decide
    have e2 : ("//" : String).startsWith "// " = false := sw_false (by decide)
    have e3 : ("//" : String).startsWith "//" = true := sw_true (by decide)
    have e4 : (("//" : String).drop 2).toString = "" := by
      apply String.ext; rw [toList_drop]; rfl
    unfold parseLine
    simp only [ht', e1, e2, e3, e4, hr, Bool.false_eq_true, if_false, if_true]
  · simp only [hm, if_false] at ht
    have hne : ("// " ++ m).trimAscii.toString.isEmpty = false := by
      cases hb : ("// " ++ m).trimAscii.toString.isEmpty with
      | false => rfl
      | true =>
        have := (isEmpty_iff_toList _).1 hb
        rw [ht] at this; simp at this
    have hsw : ("// " ++ m).trimAscii.toString.startsWith "// " = true :=
      sw_true (by rw [ht]; exact ⟨_, rfl⟩)
    have hd : (("// " ++ m).trimAscii.toString.drop 3).toString = rtrimS m := by
      apply String.ext
      rw [toList_drop, ht]
      unfold rtrimS rtrimList
      rw [String.toList_ofList]; rfl
    unfold parseLine
    simp only [hne, hsw, hd, Bool.false_eq_true, if_false, if_true]

/-! ## what an item is read as -/

/-- what the loader reads an item as: a comment loses its trailing white space, everything else is itself -/
def parsedCode : Code → Code
  | .COMMENT m => .COMMENT (rtrimS m)
  | c => c

theorem stripC_parsedCode (c : Code) : stripC (parsedCode c) = stripC c := by
  cases c <;> rfl

end Scc.RV.Loader
