/-
  Scc.RV.MemProofsRun — THE BRIDGE from the block semantics with forward local labels (`execFwd`,
  MemLemmas.lean) to the machine's run loop (`runLoop`, Machine.lean): if the laid-out program contains
  the block at the current item index and the labels the block defines resolve into the block, then
  whenever `execFwd` runs the block to its end, `runLoop` does the same and arrives just behind it.

  The layout drops plain comments (`layoutStep`), and `execFwd` executes an instruction with code
  address 0 while `runLoop` passes the real address, so the bridge is stated for the comment-free part
  `stripComments codes` of a block whose instructions do not use their own address (`PcFree`: no `JALR`,
  no `JAL` with a link register other than `X0` — true of everything memory.rs emits).
-/
import Scc.RV.MemLemmas

set_option linter.unusedSimpArgs false
set_option linter.unusedVariables false

namespace Scc.RV

open Scc.AxCut Scc.Backend

/-! ## comments are no-ops -/

def Code.isComment : Code → Bool
  | .COMMENT _ => true
  | _ => false

/-- the block without its comments (what `layout` keeps of a block without hooks) -/
def stripComments (codes : List Code) : List Code := codes.filter (fun c => !c.isComment)

theorem skipTo_stripComments (l : String) : ∀ (cs : List Code),
    skipTo l (stripComments cs) = (skipTo l cs).map stripComments
  | [] => rfl
  | c :: cs => by
    by_cases hc : c.isComment = true
    · have e1 : stripComments (c :: cs) = stripComments cs := by simp [stripComments, hc]
      rw [e1]
      cases c <;> simp [Code.isComment] at hc
      simp only [skipTo]
      exact skipTo_stripComments l cs
    · have e1 : stripComments (c :: cs) = c :: stripComments cs := by simp [stripComments, hc]
      rw [e1]
      cases c <;> simp only [skipTo]
      case LAB l' =>
        split
        · simp
        · exact skipTo_stripComments l cs
      all_goals exact skipTo_stripComments l cs

/-- comments do not matter for `execFwd` -/
theorem execFwd_stripComments (cfg : MonCfg) (la : String → Option Nat) : ∀ (n : Nat) (cs : List Code)
    (s : State), cs.length ≤ n → execFwd cfg la (stripComments cs) s = execFwd cfg la cs s := by
  intro n
  induction n with
  | zero =>
    intro cs s h
    have : cs = [] := List.eq_nil_of_length_eq_zero (Nat.le_zero.mp h)
    subst this; rfl
  | succ n ih =>
    intro cs s h
    cases cs with
    | nil => rfl
    | cons c cs =>
      have hcs : cs.length ≤ n := by simpa using h
      by_cases hc : c.isComment = true
      · have e1 : stripComments (c :: cs) = stripComments cs := by simp [stripComments, hc]
        rw [e1, execFwd_cons]
        cases c <;> simp [Code.isComment] at hc
        simp only [exec, contFwd]
        exact ih cs s hcs
      · have e1 : stripComments (c :: cs) = c :: stripComments cs := by simp [stripComments, hc]
        rw [e1, execFwd_cons, execFwd_cons]
        cases hex : exec cfg la 0 c s with
        | error e => simp [contFwd]
        | ok r =>
          obtain ⟨s1, nx⟩ := r
          cases nx with
          | fall => simp only [contFwd]; exact ih cs s1 hcs
          | addr x => simp [contFwd]
          | label l =>
            simp only [contFwd, skipTo_stripComments]
            cases hsk : skipTo l cs with
            | none => simp
            | some r =>
              have := skipTo_length hsk
              simp only [Option.map_some]
              exact ih r s1 (by omega)

/-! ## `exec` does not look at pc / step counter, and (for `PcFree` code) not at the code address -/

def setPS (s : State) (pc steps : Nat) : State := { s with pc := pc, steps := steps }

def mapPS (pc steps : Nat) : Except String (State × Next) → Except String (State × Next)
  | .error e => .error e
  | .ok (s, n) => .ok (setPS s pc steps, n)

theorem readReg_setPS (s : State) (p k : Nat) (r : Register) : (setPS s p k).readReg r = s.readReg r := rfl

theorem writeReg_setPS (s : State) (p k : Nat) (r : Register) (v : Word) :
    (setPS s p k).writeReg r v = setPS (s.writeReg r v) p k := by
  unfold State.writeReg setPS; split <;> rfl

theorem copyReg_setPS (s : State) (p k : Nat) (x y : Register) :
    (setPS s p k).copyReg x y = setPS (s.copyReg x y) p k := by
  unfold State.copyReg setPS; split
  · rfl
  · split <;> rfl

theorem load_setPS (cfg : MonCfg) (s : State) (p k a : Nat) : (setPS s p k).load cfg a = s.load cfg a := rfl

theorem store_setPS (cfg : MonCfg) (s : State) (p k a : Nat) (v : Word) :
    (setPS s p k).store cfg a v = match s.store cfg a v with
      | .error e => .error e
      | .ok s1 => .ok (setPS s1 p k) := by
  unfold State.store
  cases checkAddr cfg a <;> rfl

theorem exec_setPS (cfg : MonCfg) (la : String → Option Nat) (a p k : Nat) (c : Code) (s : State) :
    exec cfg la a c (setPS s p k) = mapPS p k (exec cfg la a c s) := by
  have harith : ∀ x y z f, arith3 (setPS s p k) x y z f = mapPS p k (arith3 s x y z f) := by
    intro x y z f
    simp only [arith3, readReg_setPS]
    cases s.readReg y with
    | error e => rfl
    | ok a =>
      dsimp only
      cases s.readReg z with
      | error e => rfl
      | ok b =>
        dsimp only
        cases f a b with
        | error e => rfl
        | ok v => simp [mapPS, writeReg_setPS]
  have hbranch : ∀ x y l f, branch (setPS s p k) x y l f = mapPS p k (branch s x y l f) := by
    intro x y l f
    simp only [branch, readReg_setPS]
    cases s.readReg x with
    | error e => rfl
    | ok a =>
      cases s.readReg y with
      | error e => rfl
      | ok b => rfl
  cases c <;> simp only [exec, harith, hbranch]
  case ADDI x y c =>
    simp only [readReg_setPS]
    cases s.readReg y with
    | error e => rfl
    | ok a => simp [mapPS, writeReg_setPS]
  case JAL x l => simp [mapPS, writeReg_setPS]
  case JALR x y c =>
    simp only [readReg_setPS]
    cases s.readReg y with
    | error e => rfl
    | ok a => simp [mapPS, writeReg_setPS]
  case LA x l =>
    cases la l with
    | none => rfl
    | some a => simp [mapPS, writeReg_setPS]
  case LI x c => simp [mapPS, writeReg_setPS]
  case MV x y => simp [mapPS, copyReg_setPS]
  case LW x y c =>
    simp only [readReg_setPS, load_setPS]
    cases s.readReg y with
    | error e => rfl
    | ok b =>
      dsimp only
      cases s.load cfg (b + imm c).toNat with
      | error e => rfl
      | ok v => simp [mapPS, writeReg_setPS]
  case SW x y c =>
    simp only [readReg_setPS, store_setPS]
    cases s.readReg x with
    | error e => rfl
    | ok v =>
      dsimp only
      cases s.readReg y with
      | error e => rfl
      | ok b =>
        dsimp only
        cases s.store cfg (b + imm c).toNat v with
        | error e => rfl
        | ok s1 => rfl
  case LAB l => rfl
  case COMMENT m => rfl

theorem execFwd_setPS (cfg : MonCfg) (la : String → Option Nat) (p k : Nat) :
    ∀ (n : Nat) (codes : List Code) (s : State), codes.length ≤ n →
      execFwd cfg la codes (setPS s p k) = mapPS p k (execFwd cfg la codes s) := by
  intro n
  induction n with
  | zero =>
    intro codes s h
    have : codes = [] := List.eq_nil_of_length_eq_zero (Nat.le_zero.mp h)
    subst this
    simp [execFwd_nil, mapPS]
  | succ n ih =>
    intro codes s h
    cases codes with
    | nil => simp [execFwd_nil, mapPS]
    | cons cd cs =>
      have hcs : cs.length ≤ n := by simpa using h
      rw [execFwd_cons, execFwd_cons, exec_setPS]
      cases hex : exec cfg la 0 cd s with
      | error e => simp [mapPS, contFwd]
      | ok r =>
        obtain ⟨s1, ctl⟩ := r
        cases ctl with
        | fall => simp only [mapPS, contFwd]; exact ih cs s1 hcs
        | addr a => simp [mapPS, contFwd]
        | label l =>
          simp only [mapPS, contFwd]
          cases hsk : skipTo l cs with
          | none => simp [mapPS]
          | some rest =>
            have := skipTo_length hsk
            simp only
            exact ih rest s1 (by omega)

/-- the instruction does not use its own code address -/
def PcFree : Code → Bool
  | .JAL x _ => x.n == 0
  | .JALR _ _ _ => false
  | _ => true

theorem exec_pcFree (cfg : MonCfg) (la : String → Option Nat) (a : Nat) {c : Code} (h : PcFree c = true)
    (s : State) : exec cfg la a c s = exec cfg la 0 c s := by
  cases c <;> simp only [exec] <;> simp [PcFree] at h
  case JAL x l => simp [State.writeReg, h]

/-! ## the run loop, one item at a time -/

theorem exec_pc_steps {cfg : MonCfg} {la : String → Option Nat} {a : Nat} {c : Code} {s s1 : State} {n : Next}
    (h : exec cfg la a c s = .ok (s1, n)) : s1.pc = s.pc ∧ s1.steps = s.steps := by
  have := exec_setPS cfg la a s.pc s.steps c s
  have e : setPS s s.pc s.steps = s := rfl
  rw [e, h] at this
  simp only [mapPS, Except.ok.injEq, Prod.mk.injEq, and_true] at this
  rw [this]
  exact ⟨rfl, rfl⟩

section Loop
variable (p : Program) (cfg : MonCfg)

/-- a label other than `cleanup` is passed -/
theorem runLoop_label (fuel : Nat) (s : State) {it : Item} {l : String} (hit : p.items[s.pc]? = some it)
    (hc : it.code = .LAB l) (hl : l ≠ "cleanup") :
    runLoop p cfg (fuel + 1) s = runLoop p cfg fuel { s with pc := s.pc + 1 } := by
  have : (l == "cleanup") = false := by simpa using hl
  simp only [runLoop, hit, hc, this, Bool.false_eq_true, if_false]

/-- an instruction that falls through -/
theorem runLoop_fall (fuel : Nat) (s s1 : State) {it : Item} (hit : p.items[s.pc]? = some it)
    (hi : it.code.isInstr = true)
    (hx : exec cfg p.labelAddr it.addr it.code s = .ok (s1, .fall)) :
    runLoop p cfg (fuel + 1) s = runLoop p cfg fuel (setPS s1 (s.pc + 1) (s.steps + 1)) := by
  obtain ⟨_, hst⟩ := exec_pc_steps hx
  obtain ⟨line, code, addr, roots⟩ := it
  simp only at hi hx
  cases code <;> simp [Code.isInstr] at hi <;> simp only [runLoop, hit, hx, setPS, hst]

/-- an instruction that jumps to a label -/
theorem runLoop_jump (fuel : Nat) (s s1 : State) {it : Item} {l : String} {i : Nat}
    (hit : p.items[s.pc]? = some it) (hi : it.code.isInstr = true)
    (hx : exec cfg p.labelAddr it.addr it.code s = .ok (s1, .label l)) (hl : p.labelIdx[l]? = some i) :
    runLoop p cfg (fuel + 1) s = runLoop p cfg fuel (setPS s1 i (s.steps + 1)) := by
  obtain ⟨_, hst⟩ := exec_pc_steps hx
  obtain ⟨line, code, addr, roots⟩ := it
  simp only at hi hx
  cases code <;> simp [Code.isInstr] at hi <;> simp only [runLoop, hit, hx, hl, setPS, hst]

end Loop

/-! ## the bridge -/

theorem skipTo_spec {l : String} : ∀ {cs rest : List Code}, skipTo l cs = some rest →
    ∃ j, cs[j]? = some (.LAB l) ∧ rest = cs.drop (j + 1)
  | [], _, h => by simp [skipTo] at h
  | cd :: cs, rest, h => by
    have key : skipTo l cs = some rest → ∃ j, (cd :: cs)[j]? = some (.LAB l) ∧ rest = (cd :: cs).drop (j + 1) := by
      intro h'
      obtain ⟨j, h1, h2⟩ := skipTo_spec h'
      exact ⟨j + 1, by simpa using h1, by simpa using h2⟩
    cases cd <;> simp only [skipTo] at h
    case LAB l' =>
      split at h
      · rename_i e
        injection h with h
        exact ⟨0, by simp [e], by simp [h]⟩
      · exact key h
    all_goals exact key h

/-- the laid-out program contains the comment-free block `cs` at item index `pc0`, and every label the
block defines resolves to its position in the block (i.e. it is defined nowhere earlier in the text;
with unique labels, C14-T3, nowhere else) -/
structure BlockAt (p : Program) (pc0 : Nat) (cs : List Code) : Prop where
  code : ∀ i (h : i < cs.length), ∃ it, p.items[pc0 + i]? = some it ∧ it.code = cs[i]
  labels : ∀ j l, cs[j]? = some (.LAB l) → p.labelIdx[l]? = some (pc0 + j)

/-- the conditions under which a block can be run item by item: no comments (the layout has dropped
them), no use of the own code address, and the label `cleanup` (where the run ends) is not defined -/
structure Runnable (cs : List Code) : Prop where
  noComment : ∀ c ∈ cs, c.isComment = false
  pcFree : ∀ c ∈ cs, PcFree c = true
  noCleanup : Code.LAB "cleanup" ∉ cs

theorem exec_LAB' (cfg : MonCfg) (la : String → Option Nat) (a : Nat) (l : String) (s : State) :
    exec cfg la a (.LAB l) s = .ok (s, .fall) := rfl

/-- THE BRIDGE: whenever `execFwd` runs the block (from offset `off`) to its end, `runLoop` does the
same — it consumes `k` units of fuel and continues just behind the block with the same registers and
memory. -/
theorem run_fwd (p : Program) (cfg : MonCfg) (pc0 : Nat) (cs : List Code) (hb : BlockAt p pc0 cs)
    (hr : Runnable cs) :
    ∀ (n off : Nat) (s s' : State), cs.length - off ≤ n → off ≤ cs.length → s.pc = pc0 + off →
      execFwd cfg p.labelAddr (cs.drop off) s = .ok (s', .fall) →
      ∃ k steps', ∀ fuel, runLoop p cfg (fuel + k) s = runLoop p cfg fuel (setPS s' (pc0 + cs.length) steps') := by
  intro n
  induction n with
  | zero =>
    intro off s s' hn hoff hpc hx
    have : off = cs.length := by omega
    subst this
    rw [List.drop_length, execFwd_nil] at hx
    simp only [Except.ok.injEq, Prod.mk.injEq, and_true] at hx
    subst hx
    exact ⟨0, s.steps, fun fuel => by simp only [Nat.add_zero, setPS, ← hpc]⟩
  | succ n ih =>
    intro off s s' hn hoff hpc hx
    by_cases hlt : off < cs.length
    · have hdrop : cs.drop off = cs[off] :: cs.drop (off + 1) := by
        rw [List.drop_eq_getElem_cons hlt]
      obtain ⟨it, hit, hcode⟩ := hb.code off hlt
      rw [← hpc] at hit
      have hmem : cs[off] ∈ cs := List.getElem_mem hlt
      have hfree := hr.pcFree _ hmem
      have hncom := hr.noComment _ hmem
      rw [hdrop, execFwd_cons] at hx
      cases hex : exec cfg p.labelAddr 0 cs[off] s with
      | error e => simp [hex, contFwd] at hx
      | ok r =>
        obtain ⟨s1, ctl⟩ := r
        rw [hex] at hx
        have hex' : exec cfg p.labelAddr it.addr it.code s = .ok (s1, ctl) := by
          rw [hcode, exec_pcFree cfg _ _ hfree]; exact hex
        by_cases hlab : ∃ l, cs[off] = .LAB l
        · -- a label of the block: passed
          obtain ⟨l, hl⟩ := hlab
          rw [hl] at hex
          simp only [exec_LAB', Except.ok.injEq, Prod.mk.injEq] at hex
          obtain ⟨rfl, rfl⟩ := hex
          simp only [contFwd] at hx
          have hne : l ≠ "cleanup" := fun e => hr.noCleanup (by rw [← e, ← hl]; exact hmem)
          have hx' := execFwd_setPS cfg p.labelAddr (s.pc + 1) s.steps _ (cs.drop (off + 1)) s (Nat.le_refl _)
          rw [hx] at hx'
          obtain ⟨k, st, hk⟩ := ih (off + 1) _ _ (by omega) (by omega) (by simp only [setPS]; omega) hx'
          refine ⟨k + 1, st, fun fuel => ?_⟩
          rw [← Nat.add_assoc, runLoop_label p cfg (fuel + k) s hit (by rw [hcode, hl]) hne]
          exact hk fuel
        · -- an instruction
          have hins : it.code.isInstr = true := by
            rw [hcode]
            cases hc : cs[off] <;> simp [Code.isInstr]
            · exact hlab ⟨_, hc⟩
            · rw [hc] at hncom; simp [Code.isComment] at hncom
          cases ctl with
          | fall =>
            simp only [contFwd] at hx
            have hx' := execFwd_setPS cfg p.labelAddr (s.pc + 1) (s.steps + 1) _ (cs.drop (off + 1)) s1
              (Nat.le_refl _)
            rw [hx] at hx'
            obtain ⟨k, st, hk⟩ := ih (off + 1) _ _ (by omega) (by omega) (by simp only [setPS]; omega) hx'
            refine ⟨k + 1, st, fun fuel => ?_⟩
            rw [← Nat.add_assoc, runLoop_fall p cfg (fuel + k) s s1 hit hins hex']
            exact hk fuel
          | label l =>
            simp only [contFwd] at hx
            cases hsk : skipTo l (cs.drop (off + 1)) with
            | none => simp [hsk] at hx
            | some rest =>
              simp only [hsk] at hx
              obtain ⟨j, hj, hrest⟩ := skipTo_spec hsk
              have hj' : cs[off + 1 + j]? = some (.LAB l) := by
                rw [List.getElem?_drop] at hj; exact hj
              obtain ⟨hjlt, hjeq⟩ := List.getElem?_eq_some_iff.1 hj'
              have hl := hb.labels _ _ hj'
              have hdrop2 : cs.drop (off + 1 + j) = .LAB l :: rest := by
                rw [List.drop_eq_getElem_cons hjlt, hrest, List.drop_drop, hjeq]
                rfl
              have hx2 : execFwd cfg p.labelAddr (cs.drop (off + 1 + j)) s1 = .ok (s', .fall) := by
                rw [hdrop2, execFwd_cons, exec_LAB']
                simp only [contFwd]
                exact hx
              have hx' := execFwd_setPS cfg p.labelAddr (pc0 + (off + 1 + j)) (s.steps + 1) _
                (cs.drop (off + 1 + j)) s1 (Nat.le_refl _)
              rw [hx2] at hx'
              obtain ⟨k, st, hk⟩ := ih (off + 1 + j) _ _ (by omega) (by omega) (by simp only [setPS]) hx'
              refine ⟨k + 1, st, fun fuel => ?_⟩
              rw [← Nat.add_assoc, runLoop_jump p cfg (fuel + k) s s1 hit hins hex' hl]
              exact hk fuel
          | addr a => simp [contFwd] at hx
    · have : off = cs.length := by omega
      subst this
      rw [List.drop_length, execFwd_nil] at hx
      simp only [Except.ok.injEq, Prod.mk.injEq, and_true] at hx
      subst hx
      exact ⟨0, s.steps, fun fuel => by simp only [Nat.add_zero, setPS, ← hpc]⟩

/-- THE BRIDGE for a block WITH comments: the laid-out program contains its comment-free part -/
theorem run_fwd_block (p : Program) (cfg : MonCfg) (codes : List Code) (s s' : State)
    (hb : BlockAt p s.pc (stripComments codes)) (hr : Runnable (stripComments codes))
    (hx : execFwd cfg p.labelAddr codes s = .ok (s', .fall)) :
    ∃ k steps', ∀ fuel, runLoop p cfg (fuel + k) s =
      runLoop p cfg fuel (setPS s' (s.pc + (stripComments codes).length) steps') := by
  rw [← execFwd_stripComments cfg p.labelAddr codes.length codes s (Nat.le_refl _)] at hx
  exact run_fwd p cfg s.pc _ hb hr (stripComments codes).length 0 s s' (by omega) (by omega) rfl
    (by simpa using hx)

/-- `Runnable` is decidable: the check on a concrete block -/
def runnableB (cs : List Code) : Bool :=
  cs.all (fun c => !c.isComment && PcFree c && !(decide (c = Code.LAB "cleanup")))

theorem runnable_of_B {cs : List Code} (h : runnableB cs = true) : Runnable cs := by
  unfold runnableB at h
  rw [List.all_eq_true] at h
  refine ⟨fun c hc => ?_, fun c hc => ?_, fun hc => ?_⟩
  · have := h c hc
    simp only [Bool.and_eq_true, Bool.not_eq_true'] at this
    exact this.1.1
  · have := h c hc
    simp only [Bool.and_eq_true] at this
    exact this.1.2
  · have := h _ hc
    simp at this

end Scc.RV
