/-
  Scc.RV.ConcPeakRun — THE THREE-WAY RUN WITH THE FOOTPRINT BOUND OF C10 on RV64, ALL PROGRAMS (integers, data
  types, closures): the port of Scc/X86/ConcKPeakRun.lean.
  If at no statement boundary of the run more than `Pk` blocks are in use (`PeakFrom`), the allocation frontier
  never rises above `Pk + 1` blocks, so a heap of `64·(Pk + A + 2)` bytes is enough for a run of ANY length,
  `A` = the largest number of fields of a `let` / of variables captured by a `create` of the program
  (`AllocLe A`: a closure environment is stored by the same `Memory::store` as the fields of an object).
  The bound `AllocLe A` is kept for the current statement AND for the clauses of every closure inside the
  values of the environment (`ValAll`, `hered_step`): `invoke` continues with a statement taken out of a
  closure value.  `FrBound`, `LiveLe0`, `FrBound.step`, `Room.of_frBound` are those of Scc/X86/ConcPeakRun.lean
  (block level, backend-independent).
-/
import Scc.RV.ConcRun
import Scc.RV.ConcStep3
import Scc.X86.ConcPeakRun

set_option linter.unusedVariables false
set_option linter.unusedSimpArgs false

namespace Scc.RV.Conc

open Scc Scc.AxCut Scc.AxCut.Pos Scc.Backend Scc.Backend.Abs Scc.Backend.Sim Scc.Backend.Subst Scc.RV Scc.RV.Ref
open Scc.Backend.Sim2 Scc.Backend.Keys
open Scc.Props.C14Generic (LabelSafe)
open Scc.Props.C06Generic (outAfter WithinCapacity Reachable EnoughHeap CodeFits statesOf stopsWithin)
open Scc.Heap (HState InvS InvW Exhausted)
open Scc.Heap.Refine (HRef FrLe Room FrPk)
open Scc.X86.Conc (FrBound LiveLe LiveLe0)
open Scc.X86.Ref.K (allocArity AllocLe AllocLeClauses ValAll hered_step hered_allocLe allocArity_le)

/-- THE PEAK HYPOTHESIS from the machine state `X` on: at every statement boundary the machine reaches from `X`
(with at most `C` blocks below the frontier), at most `Pk` blocks are in use -/
def PeakFrom (mc : MonCfg) (pr : RV.Program) (ks : List Code) (P : Abs.Program) (hooks : Bool)
    (prog : AxCut.Prog) (st : Pos.State) (X : State) (Pk C : Nat) : Prop :=
  ∀ n X' st' cfg' hs', Reachable prog st st' → stepN pr mc n X = .inl X' →
    Rel3 mc ks P hooks prog st' cfg' hs' X' → FrBound hs' C → LiveLe0 hs' Pk

theorem PeakFrom.step {mc : MonCfg} {pr : RV.Program} {ks : List Code} {P : Abs.Program} {hooks : Bool}
    {prog : AxCut.Prog} {st st1 : Pos.State} {o : Option (Bool × Word)} {X X' : State} {Pk C n : Nat}
    (h : PeakFrom mc pr ks P hooks prog st X Pk C) (hs : Pos.step prog st = .next st1 o)
    (hn : stepN pr mc n X = .inl X') : PeakFrom mc pr ks P hooks prog st1 X' Pk C :=
  fun n' X'' st' cfg' hs' hr hn' R =>
    h (n + n') X'' st' cfg' hs' (Scc.Props.C06Generic.reachable_prepend hs hr) (stepN_trans pr mc hn hn') R

/-- the relation of the chains of this file: a boundary state, with the two bounds on the frontier -/
def ChainRel (mc : MonCfg) (ks : List Code) (P : Abs.Program) (hooks : Bool) (prog : AxCut.Prog) (Pk C : Nat)
    (st : Pos.State) (X : State) : Prop :=
  ∃ cfg hs, Rel3 mc ks P hooks prog st cfg hs X ∧ FrBound hs (Pk + 1) ∧ FrBound hs C

section Run3P

variable {mc : MonCfg} {pr : RV.Program} {ks : List Code} (L : Loaded pr ks)
  (hndL : (labs ks).Nodup) (hheap : mc.heap = false) {ic : Nat} (hclean : labIdx ks "cleanup" = some ic)
  (hicl : ic + 1 = ks.length)
  (hfitX : codeBase + 4 * icount ks < 2 ^ 64)

include L hndL hheap hclean hicl hfitX in
/-- THE THREE-WAY RUN UNDER THE FOOTPRINT BOUND, all programs: a heap of `64·(Pk + A + 2)` bytes is enough for a
terminating run of any length whose boundaries have at most `Pk` blocks in use; the frontier stays below
`Pk + 1` blocks at every boundary -/
theorem run3_peak (hooks : Bool) (prog : AxCut.Prog) (c : Nat) (code : List MockOp) (nargs c' : Nat)
    (hcomp : (compile mockSym hooks prog).run c = .ok ((code, nargs), c'))
    (hsafe : LabelSafe prog = true) (htp : LinTypedProg prog) (hfit : CodeFits code)
    (DX : KDefsAt ks hooks prog) (Pk C A : Nat)
    (hA : ∀ d ∈ prog.defs, AllocLe A d.body)
    (hbytes : 64 * (Pk + A + 2) ≤ mc.heapBytes) :
    ∀ (fuel : Nat) (st : Pos.State) (acc : List (Bool × Word)) (cfg : Config) (hs : HState) (X : State)
      (v : Word) (Cb : Nat),
      Pos.StateTyped prog st → (∀ st', Reachable prog st st' → st'.ctx.length ≤ 14) →
      Rel3 mc ks (Program.ofOps code) hooks prog st cfg hs X → AllocLe A st.stmt →
      (∀ w ∈ st.env, ValAll (AllocLeClauses A) w) →
      cfg.next + fuel < 2 ^ 64 → FrBound hs (Pk + 1) →
      FrBound hs Cb → Cb + A * fuel ≤ C →
      PeakFrom mc pr ks (Program.ofOps code) hooks prog st X Pk C →
      (Pos.runState prog fuel st acc).res = .done v →
      (∃ n XL r, stepN pr mc n X = .inl XL ∧ step pr mc XL = .inr r ∧ r.res = .done v) ∧
      BChain pr mc (ChainRel mc ks (Program.ofOps code) hooks prog Pk C) (statesOf prog fuel st) X
  | 0, st, acc, cfg, hs, X, v, Cb, _, _, _, _, _, _, _, _, _, _, h => by
    simp [Pos.runState] at h
  | fuel + 1, st, acc, cfg, hs, X, v, Cb, T, hcap, R, hlet, hvals, hnext, hfb, hcb, hC, hP, h => by
    have hcC : FrBound hs C := fun rs lin lazy live F J => by have := hcb rs lin lazy live F J; omega
    have hX3 : ∃ Γ' ι cw τ, X3 mc cw τ Γ' cfg hs ι X := by
      obtain ⟨Γ', ι, cw, τ, _, _, X3h, _⟩ := R
      exact ⟨Γ', ι, cw, τ, X3h⟩
    obtain ⟨Γ0, ι0, cw0, τ0, X3h⟩ := hX3
    have hbase := X3h.hrel.base
    have hlimit := X3h.hrel.limit
    have hAr := allocArity_le hlet
    have hCm : Cb + A ≤ C := by
      have : A ≤ A * (fuel + 1) := Nat.le_mul_of_pos_right A (by omega)
      omega
    have hroom : Room hs (64 * allocArity st.stmt + 64) :=
      Scc.X86.Conc.Room.of_frBound hfb (by rw [hbase, hlimit]; omega)
    have hsim := step3P L hndL hheap hclean hicl hfitX hooks prog c code nargs c' hcomp hsafe htp hfit
      DX st cfg hs X R T (by unfold EnoughHeap; omega) hroom
    have hsafe' := Pos.step_safe htp st T
    have hw : ∃ rs lin lazy live F, InvS hs rs [] lin lazy live F := by
      obtain ⟨lin, lazy, live, Fr, I⟩ := X3h.href.conc
      exact ⟨_, lin, lazy, live, Fr, I⟩
    unfold StepSim3P at hsim
    simp only [Pos.runState] at h
    simp only [statesOf]
    cases hst : Pos.step prog st with
    | stuck w => simp [hst] at h
    | done v' =>
      simp only [hst] at h hsim
      obtain ⟨XL, ⟨n, h1⟩, h2⟩ := hsim
      simp only [Pos.Result.done.injEq] at h
      subst h
      obtain ⟨r, hr, hres⟩ := step_done_of_runLoop (h2 0)
      exact ⟨⟨n, XL, r, h1, hr, hres⟩, ⟨cfg, hs, R, hfb, hcC⟩, Or.inl rfl⟩
    | next st' o =>
      simp only [hst] at h hsim
      rw [hst] at hsafe'
      have hc' := hcap st' (Reachable.step Reachable.refl hst)
      obtain ⟨cfg', hs', X', ⟨k, hk⟩, _, h3, hfr, hpk, R'⟩ := hsim (withinCapacity_of_le hc') hc'
      obtain ⟨hlet', hvals'⟩ := hered_step (hered_allocLe A) hA hst hlet hvals
      have hcb' : FrBound hs' (Cb + A) := hcb.of_frLe (FrLe.mono' hfr (by omega)) hw
      have hlive' : LiveLe0 hs' Pk := hP k X' st' cfg' hs' (Reachable.step Reachable.refl hst) hk R'
        (fun rs lin lazy live F J => by have := hcb' rs lin lazy live F J; omega)
      have hfb' : FrBound hs' (Pk + 1) := hfb.step hfr.2.1 hpk hw hlive'
      have hC' : Cb + A + A * fuel ≤ C := by
        have : A * (fuel + 1) = A * fuel + A := Nat.mul_succ A fuel
        omega
      obtain ⟨⟨n', XL, r, g1, g2, g3⟩, hch⟩ := run3_peak hooks prog c code nargs c' hcomp hsafe htp hfit DX Pk C A
        hA hbytes fuel st' _ cfg' hs' X' v (Cb + A) hsafe'
        (fun st'' hr => hcap st'' (Scc.Props.C06Generic.reachable_prepend hst hr)) R' hlet' hvals'
        (by omega) hfb' hcb' hC' (hP.step hst hk) h
      exact ⟨⟨k + n', XL, r, stepN_trans pr mc hk g1, g2, g3⟩, ⟨cfg, hs, R, hfb, hcC⟩,
        Or.inr ⟨k, X', hk, hch⟩⟩

include L hndL hheap hclean hicl hfitX in
/-- THE THREE-WAY RUN, EVERY PREFIX (terminating or not), all programs: for ANY number `fuel` of steps of the
positional machine from a represented state, the machine passes — without fault — through a boundary state
for every state `statesOf prog fuel st` the positional machine goes through, under the footprint bound -/
theorem run3_prefix (hooks : Bool) (prog : AxCut.Prog) (c : Nat) (code : List MockOp) (nargs c' : Nat)
    (hcomp : (compile mockSym hooks prog).run c = .ok ((code, nargs), c'))
    (hsafe : LabelSafe prog = true) (htp : LinTypedProg prog) (hfit : CodeFits code)
    (DX : KDefsAt ks hooks prog) (Pk C A : Nat)
    (hA : ∀ d ∈ prog.defs, AllocLe A d.body)
    (hbytes : 64 * (Pk + A + 2) ≤ mc.heapBytes) :
    ∀ (fuel : Nat) (st : Pos.State) (cfg : Config) (hs : HState) (X : State) (Cb : Nat),
      Pos.StateTyped prog st → (∀ st', Reachable prog st st' → st'.ctx.length ≤ 14) →
      Rel3 mc ks (Program.ofOps code) hooks prog st cfg hs X → AllocLe A st.stmt →
      (∀ w ∈ st.env, ValAll (AllocLeClauses A) w) →
      cfg.next + fuel < 2 ^ 64 → FrBound hs (Pk + 1) →
      FrBound hs Cb → Cb + A * fuel ≤ C →
      PeakFrom mc pr ks (Program.ofOps code) hooks prog st X Pk C →
      BChain pr mc (ChainRel mc ks (Program.ofOps code) hooks prog Pk C) (statesOf prog fuel st) X
  | 0, st, cfg, hs, X, Cb, _, _, R, _, _, _, hfb, hcb, hC, _ =>
    ⟨⟨cfg, hs, R, hfb, fun rs lin lazy live F J => by have := hcb rs lin lazy live F J; omega⟩, Or.inl rfl⟩
  | fuel + 1, st, cfg, hs, X, Cb, T, hcap, R, hlet, hvals, hnext, hfb, hcb, hC, hP => by
    have hcC : FrBound hs C := fun rs lin lazy live F J => by have := hcb rs lin lazy live F J; omega
    have hX3 : ∃ Γ' ι cw τ, X3 mc cw τ Γ' cfg hs ι X := by
      obtain ⟨Γ', ι, cw, τ, _, _, X3h, _⟩ := R
      exact ⟨Γ', ι, cw, τ, X3h⟩
    obtain ⟨Γ0, ι0, cw0, τ0, X3h⟩ := hX3
    have hbase := X3h.hrel.base
    have hlimit := X3h.hrel.limit
    have hAr := allocArity_le hlet
    have hCm : Cb + A ≤ C := by
      have : A ≤ A * (fuel + 1) := Nat.le_mul_of_pos_right A (by omega)
      omega
    have hroom : Room hs (64 * allocArity st.stmt + 64) :=
      Scc.X86.Conc.Room.of_frBound hfb (by rw [hbase, hlimit]; omega)
    have hsim := step3P L hndL hheap hclean hicl hfitX hooks prog c code nargs c' hcomp hsafe htp hfit
      DX st cfg hs X R T (by unfold EnoughHeap; omega) hroom
    have hsafe' := Pos.step_safe htp st T
    have hw : ∃ rs lin lazy live F, InvS hs rs [] lin lazy live F := by
      obtain ⟨lin, lazy, live, Fr, I⟩ := X3h.href.conc
      exact ⟨_, lin, lazy, live, Fr, I⟩
    unfold StepSim3P at hsim
    simp only [statesOf]
    cases hst : Pos.step prog st with
    | stuck w => exact ⟨⟨cfg, hs, R, hfb, hcC⟩, Or.inl rfl⟩
    | done v' => exact ⟨⟨cfg, hs, R, hfb, hcC⟩, Or.inl rfl⟩
    | next st' o =>
      simp only [hst] at hsim
      rw [hst] at hsafe'
      have hc' := hcap st' (Reachable.step Reachable.refl hst)
      obtain ⟨cfg', hs', X', ⟨k, hk⟩, _, h3, hfr, hpk, R'⟩ := hsim (withinCapacity_of_le hc') hc'
      obtain ⟨hlet', hvals'⟩ := hered_step (hered_allocLe A) hA hst hlet hvals
      have hcb' : FrBound hs' (Cb + A) := hcb.of_frLe (FrLe.mono' hfr (by omega)) hw
      have hlive' : LiveLe0 hs' Pk := hP k X' st' cfg' hs' (Reachable.step Reachable.refl hst) hk R'
        (fun rs lin lazy live F J => by have := hcb' rs lin lazy live F J; omega)
      have hfb' : FrBound hs' (Pk + 1) := hfb.step hfr.2.1 hpk hw hlive'
      have hC' : Cb + A + A * fuel ≤ C := by
        have : A * (fuel + 1) = A * fuel + A := Nat.mul_succ A fuel
        omega
      have hch := run3_prefix hooks prog c code nargs c' hcomp hsafe htp hfit DX Pk C A
        hA hbytes fuel st' cfg' hs' X' (Cb + A) hsafe'
        (fun st'' hr => hcap st'' (Scc.Props.C06Generic.reachable_prepend hst hr)) R' hlet' hvals'
        (by omega) hfb' hcb' hC' (hP.step hst hk)
      exact ⟨⟨cfg, hs, R, hfb, hcC⟩, Or.inr ⟨k, X', hk, hch⟩⟩

end Run3P

end Scc.RV.Conc
