/-
  Scc.RV.Backend — model of the RISC-V backend crate /repo/lang/axcut2rv64/src/
  {config.rs, code.rs, memory.rs, utils.rs, parallel_moves.rs, into_routine.rs, lib.rs}:
  the instance `rvBackend` of the backend record (Scc/Backend/Interface.lean) used by the generic
  code generator (Scc/Backend/Generic.lean), `intoRoutine`, and the line function `runLineCodegen`
  compared with the harness line `S7r`.   Core imports only; executable.

  Transcription conventions (Interface.lean): a Rust function pushing onto `instructions` returns
  the pushed codes; `fresh_label()` is `freshLabel` in `GenM`; Rust panic sites are `throw`s:
    "Out of registers"                        utils.rs  assert!(register_number < REGISTER_NUM)
    "Variable <id> not found in context"      utils.rs  get_position
    "not implemented in RISC-V backend"       code.rs   print_i64
    "attempt to subtract with overflow"       memory.rs `free_fields - 1` (unreachable from store/load)
  There are no spills: a context of more than 14 variables is a panic, never different code.
-/
import Scc.Backend.Generic
import Scc.RV.Instr

namespace Scc.RV

open Scc.AxCut Scc.Backend

/-! ## utils.rs -/

/-- utils.rs: fn get_position (`iter().position(|binding| binding.var.id == variable_id)`) -/
def getPosition (context : Ctx) (variableId : Nat) : Option Nat :=
  let rec go : Ctx → Nat → Option Nat
    | [], _ => none
    | b :: bs, i => if b.var.id == variableId then some i else go bs (i + 1)
  go context 0

/-- the register of temporary `number` of the variable at `position`, or the "Out of registers" panic -/
def positionRegister (number : TempNum) (position : Nat) : GenM Register :=
  let registerNumber := 2 * position + number.toNat + reserved
  if registerNumber < registerNum then pure ⟨registerNumber⟩ else throw "Out of registers"

/-- utils.rs: Utils::variable_temporary -/
def variableTemporary (number : TempNum) (context : Ctx) (variableId : Nat) : GenM Register :=
  match getPosition context variableId with
  | none => throw ("Variable " ++ toString variableId ++ " not found in context")
  | some variablePosition => positionRegister number variablePosition

/-- utils.rs: Utils::fresh_temporary -/
def freshTemporary (number : TempNum) (context : Ctx) : GenM Register :=
  positionRegister number context.length

/-! ## code.rs: impl Instructions -/

/-- code.rs: jump_label_if_{equal,not_equal,less,less_or_equal,greater,greater_or_equal} -/
def jumpLabelIf (sort : IfSort) (fst snd : Register) (name : String) : List Code :=
  match sort with
  | .eq => [.BEQ fst snd name]
  | .ne => [.BNE fst snd name]
  | .lt => [.BLT fst snd name]
  | .le => [.BLE fst snd name]
  | .gt => [.BGT fst snd name]
  | .ge => [.BGE fst snd name]

/-- code.rs: jump_label_if_{zero,not_zero,less_zero,…}: the same branches against `ZERO` -/
def jumpLabelIfZero (sort : IfSort) (temporary : Register) (name : String) : List Code :=
  jumpLabelIf sort temporary ZERO name

/-- code.rs: add / sub / mul / div / rem -/
def binop (o : BinOp) (target source1 source2 : Register) : List Code :=
  match o with
  | .sum => [.ADD target source1 source2]
  | .sub => [.SUB target source1 source2]
  | .prod => [.MUL target source1 source2]
  | .div => [.DIV target source1 source2]
  | .rem => [.REM target source1 source2]

/-- code.rs: add_and_jump -/
def addAndJump (temporary : Register) (immediate : Int) : List Code :=
  [.ADDI TEMP temporary immediate, .JALR ZERO TEMP 0]

/-! ## memory.rs -/

def labName (n : Nat) : String := "lab" ++ toString n

/-- memory.rs: fn skip_if_zero -/
def skipIfZero (condition : Register) (toSkip : List Code) : GenM (List Code) := do
  let freshLbl := labName (← freshLabel)
  pure ([.BEQ condition ZERO freshLbl] ++ toSkip ++ [.LAB freshLbl])

/-- memory.rs: fn if_zero_then_else -/
def ifZeroThenElse (condition : Register) (thenBranch elseBranch : List Code) : GenM (List Code) := do
  let freshLabelThen := labName (← freshLabel)
  let freshLabelElse := labName (← freshLabel)
  pure ([.BEQ condition ZERO freshLabelThen] ++ elseBranch ++
    [.JAL ZERO freshLabelElse, .LAB freshLabelThen] ++ thenBranch ++ [.LAB freshLabelElse])

/-- memory.rs: Memory::erase_block -/
def eraseBlock (toErase : Register) : GenM (List Code) := do
  let toSkip : List Code :=
    [.COMMENT "######check refcount", .LW TEMP toErase referenceCountOffset]
  let thenBranch : List Code :=
    [.COMMENT "######... or add block to lazy free list",
     .SW FREE toErase nextElementOffset, .MV FREE toErase]
  let elseBranch : List Code :=
    [.COMMENT "######either decrement refcount ...",
     .ADDI TEMP TEMP (-1), .SW TEMP toErase referenceCountOffset]
  let c ← ifZeroThenElse TEMP thenBranch elseBranch
  skipIfZero toErase (toSkip ++ c)

/-- memory.rs: Memory::share_block_n -/
def shareBlockN (toShare : Register) (n : Nat) : GenM (List Code) :=
  skipIfZero toShare
    [.COMMENT "####increment refcount", .LW TEMP toShare referenceCountOffset,
     .ADDI TEMP TEMP (n : Int), .SW TEMP toShare referenceCountOffset]

/-- memory.rs (axcut2backend): Memory::share_block -/
def shareBlock (toShare : Register) : GenM (List Code) := shareBlockN toShare 1

/-- memory.rs: fn acquire_block :: fn erase_fields (`for offset in 0..FIELDS_PER_BLOCK`) -/
def eraseFields (toErase additionalTemp : Register) : Nat → Nat → GenM (List Code)
  | 0, _ => pure []
  | k + 1, offset => do
    let c ← eraseBlock additionalTemp
    let rest ← eraseFields toErase additionalTemp k (offset + 1)
    pure ([.COMMENT ("#####check child " ++ toString (offset + 1) ++ " for erasure"),
           .LW additionalTemp toErase (fieldOffset 0 offset)] ++ c ++ rest)

/-- memory.rs: fn acquire_block -/
def acquireBlock (newBlock additionalTemp : Register) : GenM (List Code) := do
  let c0 : List Code :=
    [.MV newBlock HEAP,
     .COMMENT "##get next free block into heap register",
     .COMMENT "###(1) check linear free list for next block",
     .LW HEAP HEAP nextElementOffset]
  let thenBranchFree : List Code :=
    [.COMMENT "###(3) fall back to bump allocation",
     .ADDI FREE HEAP (fieldOffset 0 fieldsPerBlock)]
  let erase ← eraseFields HEAP additionalTemp fieldsPerBlock 0
  let elseBranchFree : List Code :=
    [.COMMENT "####mark linear free list empty", .SW ZERO HEAP nextElementOffset,
     .COMMENT "####erase children of next block"] ++ erase
  let inner ← ifZeroThenElse FREE thenBranchFree elseBranchFree
  let thenBranch : List Code :=
    [.COMMENT "###(2) check non-linear lazy free list for next block",
     .MV HEAP FREE, .LW FREE FREE nextElementOffset] ++ inner
  let elseBranch : List Code :=
    [.COMMENT "####initialize refcount of just acquired block",
     .SW ZERO newBlock referenceCountOffset]
  let outer ← ifZeroThenElse HEAP thenBranch elseBranch
  pure (c0 ++ outer)

/-- memory.rs: fn release_block -/
def releaseBlock (toRelease : Register) : List Code :=
  [.SW HEAP toRelease nextElementOffset, .MV HEAP toRelease]

/-- memory.rs: fn store_zero -/
def storeZero (memoryBlock : Register) (offset : Nat) : List Code :=
  [.SW ZERO memoryBlock (fieldOffset 0 offset)]

/-- memory.rs: fn store_zeros (`for offset in 0..free_fields`) -/
def storeZeros (freeFields : Nat) (memoryBlock : Register) : List Code :=
  (List.range freeFields).flatMap (storeZero memoryBlock)

/-- memory.rs: fn store_field -/
def storeField (number : TempNum) (context : Ctx) (memoryBlock : Register) (offset : Nat) :
    GenM Code := do
  let t ← freshTemporary number context
  pure (.SW t memoryBlock (fieldOffset number.toNat offset))

/-- memory.rs: fn load_field -/
def loadField (number : TempNum) (context : Ctx) (memoryBlock : Register) (offset : Nat) :
    GenM Code := do
  let t ← freshTemporary number context
  pure (.LW t memoryBlock (fieldOffset number.toNat offset))

/-- memory.rs: fn store_value -/
def storeValue (toStore : Binding) (remainingContext : Ctx) (memoryBlock : Register) (offset : Nat) :
    GenM (List Code) := do
  let c1 ← storeField .snd remainingContext memoryBlock offset
  if toStore.chi == .ext then
    pure (c1 :: storeZero memoryBlock offset)
  else do
    let c2 ← storeField .fst remainingContext memoryBlock offset
    pure [c1, c2]

/-- memory.rs: enum LoadMode -/
inductive LoadMode where
  | release | share
  deriving DecidableEq, Repr

/-- memory.rs: fn load_value -/
def loadValue (toLoad : Binding) (existingContext : Ctx) (memoryBlock : Register) (offset : Nat)
    (loadMode : LoadMode) : GenM (List Code) := do
  let c1 ← loadField .snd existingContext memoryBlock offset
  if toLoad.chi != .ext then do
    let c2 ← loadField .fst existingContext memoryBlock offset
    if loadMode == .share then do
      let t ← freshTemporary .fst existingContext
      let c3 ← shareBlock t
      pure ([c1, c2] ++ c3)
    else pure [c1, c2]
  else pure [c1]

/-- `free_fields - 1` on `usize` -/
def pred1 (freeFields : Nat) : GenM Nat :=
  match freeFields with
  | 0 => throw "attempt to subtract with overflow"
  | k + 1 => pure k

/-- memory.rs: fn store_values, the `while let Some(binding) = to_store.bindings.pop()` loop.
`toStoreRev` = the bindings still to store, LAST first. Returns the code and the final `free_fields`. -/
def storeValuesLoop (remainingContext : Ctx) (memoryBlock : Register) :
    List Binding → Nat → GenM (List Code × Nat)
  | [], freeFields => pure ([], freeFields)
  | binding :: restRev, freeFields => do
    let remainingPlusRest := remainingContext ++ restRev.reverse
    let off ← pred1 freeFields
    let c ← storeValue binding remainingPlusRest memoryBlock off
    let (cs, ff) ← storeValuesLoop remainingContext memoryBlock restRev off
    pure (c ++ cs, ff)

/-- memory.rs: fn store_values -/
def storeValues (toStore : Ctx) (remainingContext : Ctx) (memoryBlock : Register) (freeFields : Nat) :
    GenM (List Code) := do
  let (cs, ff) ← storeValuesLoop remainingContext memoryBlock toStore.reverse freeFields
  pure ([.COMMENT "##store values"] ++ cs ++
    (if ff > 0 then [.COMMENT "##mark unused fields with null"] else []) ++
    storeZeros ff memoryBlock)

/-- memory.rs: fn load_values, the `while let` loop (`toLoadRev` = LAST first) -/
def loadValuesLoop (existingContext : Ctx) (memoryBlock : Register) (loadMode : LoadMode) :
    List Binding → Nat → GenM (List Code)
  | [], _ => pure []
  | binding :: restRev, freeFields => do
    let existingPlusRest := existingContext ++ restRev.reverse
    let off ← pred1 freeFields
    let c ← loadValue binding existingPlusRest memoryBlock off loadMode
    let cs ← loadValuesLoop existingContext memoryBlock loadMode restRev off
    pure (c ++ cs)

/-- memory.rs: fn load_values -/
def loadValues (toLoad : Ctx) (existingContext : Ctx) (memoryBlock : Register) (freeFields : Nat)
    (loadMode : LoadMode) : GenM (List Code) := do
  let cs ← loadValuesLoop existingContext memoryBlock loadMode toLoad.reverse freeFields
  pure (.COMMENT "###load values" :: cs)

/-- memory.rs: enum BlockPosition (`Last = 0`, `Other = 1`) -/
inductive BlockPosition where
  | last | other
  deriving DecidableEq, Repr

def BlockPosition.toNat : BlockPosition → Nat
  | .last => 0
  | .other => 1

/-- `if len <= FIELDS_PER_BLOCK - block_position { 0 } else { len - (FIELDS_PER_BLOCK - block_position) }` -/
def restLength (len : Nat) (blockPosition : BlockPosition) : Nat :=
  if len ≤ fieldsPerBlock - blockPosition.toNat then 0
  else len - (fieldsPerBlock - blockPosition.toNat)

theorem restLength_lt (len : Nat) (bp : BlockPosition) (h : 0 < len) : restLength len bp < len := by
  unfold restLength fieldsPerBlock
  cases bp <;> simp only [BlockPosition.toNat] <;> (by_cases hl : len ≤ 3 - 0 <;> by_cases hl2 : len ≤ 3 - 1 <;> simp [*] <;> omega)

/-- memory.rs: fn store_fields -/
def storeFields (toStore : Ctx) (remainingContext : Ctx) (blockPosition : BlockPosition) :
    GenM (List Code) :=
  if h : toStore.isEmpty then
    if blockPosition == .last then do
      let t ← freshTemporary .fst remainingContext
      pure [.COMMENT "#mark no allocation", .MV t ZERO]
    else pure []
  else do
    let remainingPlusToStore := remainingContext ++ toStore
    let c1 ← if blockPosition == .other then do
        let c ← storeField .fst remainingPlusToStore HEAP (fieldsPerBlock - 1)
        pure [.COMMENT "##store link to previous block", c]
      else pure []
    let rl := restLength toStore.length blockPosition
    let toStoreNext := toStore.drop rl       -- `split_off(rest_length)`
    let toStore' := toStore.take rl
    let remainingPlusRest := remainingContext ++ toStore'
    let c2 : List Code := if blockPosition == .last then [.COMMENT "#allocate memory"] else []
    let c3 ← storeValues toStoreNext remainingPlusRest HEAP (fieldsPerBlock - blockPosition.toNat)
    let nb ← freshTemporary .fst remainingPlusRest
    let at' ← freshTemporary .snd remainingPlusRest
    let c4 ← acquireBlock nb at'
    let c5 ← storeFields toStore' remainingContext .other
    pure (c1 ++ c2 ++ c3 ++ [.COMMENT "##acquire free block from heap register"] ++ c4 ++ c5)
termination_by toStore.length
decreasing_by
  have hpos : 0 < toStore.length := by
    cases toStore with
    | nil => simp at h
    | cons _ _ => simp
  have := restLength_lt toStore.length blockPosition hpos
  simp [List.length_take]
  omega

set_option linter.unusedVariables false in
/-- memory.rs: fn load_fields -/
def loadFields (toLoad : Ctx) (existingContext : Ctx) (blockPosition : BlockPosition)
    (loadMode : LoadMode) : GenM (List Code) :=
  if h : toLoad.isEmpty then pure []
  else do
    let existingPlusToLoad := existingContext ++ toLoad
    let rl := restLength toLoad.length blockPosition
    let toLoadNext := toLoad.drop rl
    let toLoad' := toLoad.take rl
    let existingPlusRest := existingContext ++ toLoad'
    let c1 ← loadFields toLoad' existingContext .other loadMode
    let memoryBlock ← freshTemporary .fst existingPlusRest
    let c2 : List Code :=
      if loadMode == .release then .COMMENT "###release block" :: releaseBlock memoryBlock else []
    let c3 ← if blockPosition == .other then do
        let c ← loadField .fst existingPlusToLoad memoryBlock (fieldsPerBlock - 1)
        pure [.COMMENT "###load link to next block", c]
      else pure []
    let c4 ← loadValues toLoadNext existingPlusRest memoryBlock
      (fieldsPerBlock - blockPosition.toNat) loadMode
    pure (c1 ++ c2 ++ c3 ++ c4)
termination_by toLoad.length
decreasing_by
  have hpos : 0 < toLoad.length := by
    cases toLoad with
    | nil => simp at h
    | cons _ _ => simp
  have := restLength_lt toLoad.length blockPosition hpos
  simp [List.length_take]
  omega

/-- memory.rs: Memory::store -/
def store (toStore : Ctx) (remainingContext : Ctx) : GenM (List Code) :=
  storeFields toStore remainingContext .last

/-- memory.rs: Memory::load -/
def load (toLoad : Ctx) (existingContext : Ctx) : GenM (List Code) :=
  if toLoad.isEmpty then pure []
  else do
    let memoryBlock ← freshTemporary .fst existingContext
    let c0 : List Code :=
      [.COMMENT "#load from memory", .LW TEMP memoryBlock referenceCountOffset]
    let c1 ← loadFields toLoad existingContext .last .release
    let thenBranch : List Code :=
      .COMMENT "##... or release blocks onto linear free list when loading" :: c1
    let c2 ← loadFields toLoad existingContext .last .share
    let elseBranch : List Code :=
      [.COMMENT "##either decrement refcount and share children...",
       .ADDI TEMP TEMP (-1), .SW TEMP memoryBlock referenceCountOffset] ++ c2
    let c3 ← ifZeroThenElse TEMP thenBranch elseBranch
    pure (c0 ++ [.COMMENT "##check refcount"] ++ c3)

/-! ## the instance -/

/-- lib.rs: `struct Backend` with its impls of Config, Instructions, Memory, ParallelMoves, Utils -/
def rvBackend : Scc.Backend.Backend Code Register where
  -- config.rs
  temp := TEMP
  heap := HEAP
  free := FREE
  return1 := RETURN1
  return2 := RETURN2
  jumpLength := jumpLength
  -- utils.rs
  variableTemporary := variableTemporary
  freshTemporary := freshTemporary
  -- code.rs
  comment := .COMMENT
  label := .LAB
  jump := fun temporary => [.JALR ZERO temporary 0]
  jumpLabel := fun name => [.JAL ZERO name]
  jumpLabelFixed := fun name => [.JAL ZERO name]
  jumpLabelIf := jumpLabelIf
  jumpLabelIfZero := jumpLabelIfZero
  loadImmediate := fun temporary immediate => [.LI temporary immediate]
  loadLabel := fun temporary name => [.LA temporary name]
  addAndJump := addAndJump
  binop := binop
  mov := fun target source => [.MV target source]
  printI64 := fun _ _ _ => throw "not implemented in RISC-V backend"
  -- memory.rs
  eraseBlock := eraseBlock
  shareBlockN := shareBlockN
  store := store
  load := load
  -- parallel_moves.rs
  containsSpillEdge := fun _ => false
  storeTemporary := fun temporary _ => [.MV TEMP temporary]
  restoreTemporary := fun temporary _ => [.MV temporary TEMP]
  -- config.rs: #[derive(PartialOrd, Ord)] on Register(usize)
  tempLt := fun a b => decide (a.n < b.n)
  tempEq := fun a b => a == b

/-- into_routine.rs: fn into_rv64_routine -/
def intoRoutine (instructions : List Code) : String :=
  let program := "\n".intercalate (instructions.map printCode)
  "\n\n".intercalate ["// actual code" ++ program, "cleanup:"]

/-- `compile::<axcut2rv64::Backend>` followed by `into_rv64_routine` -/
def compileRoutine (p : Prog) (hooks : Bool) (counterStart : Nat) : Except String (Nat × String) :=
  match (Scc.Backend.compile rvBackend hooks p).run counterStart with
  | .error e => .error e
  | .ok ((instructions, numberOfArguments), _) => .ok (numberOfArguments, intoRoutine instructions)

/-- The line function compared with the harness line `S7r`:
`OK <nargs>\n<routine text>` | `PANIC <msg>` | `ERR sexp` | `ERR read`. -/
def runLineCodegen (dumpS5 : String) (hooks : Bool) (counterStart : Nat) : String :=
  match Sexp.parse dumpS5 with
  | none => "ERR sexp"
  | some sx =>
    match readProg (dumpS5.length + 10) sx with
    | none => "ERR read"
    | some p =>
      match compileRoutine p hooks counterStart with
      | .error e => "PANIC " ++ e
      | .ok (n, text) => "OK " ++ toString n ++ "\n" ++ text

end Scc.RV
