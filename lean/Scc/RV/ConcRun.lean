/-
  Scc.RV.ConcRun — the STATEMENT BOUNDARIES of the RV64 run of ANY program (integers, data types, closures),
  made explicit (the port of Scc/X86/ConcRun.lean / ConcKRun.lean).

  * `BChain pr mc Q sts X` — from `X` the machine passes (by `stepN`, Scc/RV/ConcStep.lean: without fault, without
    ending the run) through a chain of states, one for each positional-machine state of the list `sts`, each in
    relation `Q` to it.
  * `run3_chain` — the induction of `run3_aux` (Scc/RV/RefRun.lean) keeping every intermediate boundary: along a
    terminating run of the positional machine, the machine passes through states related by `Rel3` to EVERY state
    `statesOf` of the run, in order.
  * `entry_setup` — the part of `programs_lines` before the run: loader, the entry state, Theorem A at the entry,
    the first `Rel3` (behind the entry label).
  * `BoundaryOf`, `heapInvAt_of_boundary`, `programs_chain`.
  No tolerance is needed on RV64: an indirect jump lands ON the label standing at the target address, so the
  machine IS at the boundary state the relation speaks about.
-/
import Scc.RV.ConcInv
import Scc.X86.ConcRun

set_option linter.unusedVariables false
set_option linter.unusedSimpArgs false

namespace Scc.RV.Conc

open Scc Scc.AxCut Scc.AxCut.Pos Scc.Backend Scc.Backend.Abs Scc.Backend.Sim Scc.Backend.Subst Scc.RV Scc.RV.Ref
open Scc.Backend.Sim2 Scc.Backend.Keys
open Scc.Props.C14Generic (LabelSafe)
open Scc.Props.C06Generic (outAfter WithinCapacity Reachable EnoughHeap CodeFits statesOf stopsWithin
  reachable_mem_statesOf)
open Scc.Heap (HState InvS InvW)
open Scc.Heap.Refine (HRef FrLe Room)
open Scc.X86.Conc (ctxKinds ctxKinds_keys)

/-- from `X` the machine passes through a chain of states (by `stepN`: no fault, no end of the run in
between), one for each positional state of the list, each in relation `Q` to it -/
def BChain (pr : RV.Program) (mc : MonCfg) (Q : Pos.State → State → Prop) : List Pos.State → State → Prop
  | [], _ => True
  | st :: rest, X => Q st X ∧ (rest = [] ∨ ∃ n X', stepN pr mc n X = .inl X' ∧ BChain pr mc Q rest X')

theorem BChain.mem {pr : RV.Program} {mc : MonCfg} {Q : Pos.State → State → Prop} :
    ∀ {sts : List Pos.State} {X : State}, BChain pr mc Q sts X → ∀ st ∈ sts,
      ∃ n X', stepN pr mc n X = .inl X' ∧ Q st X'
  | [], _, _, st, h => by simp at h
  | s0 :: rest, X, hc, st, h => by
    rcases List.mem_cons.1 h with rfl | h
    · exact ⟨0, X, rfl, hc.1⟩
    · rcases hc.2 with e | ⟨n, X', hn, hc'⟩
      · subst e; simp at h
      · obtain ⟨n', X'', hn', hq⟩ := BChain.mem hc' st h
        exact ⟨n + n', X'', stepN_trans pr mc hn hn', hq⟩

theorem BChain.mono {pr : RV.Program} {mc : MonCfg} {Q Q' : Pos.State → State → Prop}
    (hq : ∀ st X, Q st X → Q' st X) :
    ∀ {sts : List Pos.State} {X : State}, BChain pr mc Q sts X → BChain pr mc Q' sts X
  | [], _, _ => trivial
  | s0 :: rest, X, hc => by
    refine ⟨hq _ _ hc.1, ?_⟩
    rcases hc.2 with e | ⟨n, X', hn, hc'⟩
    · exact Or.inl e
    · exact Or.inr ⟨n, X', hn, BChain.mono hq hc'⟩

/-- prefixing a chain by machine steps -/
theorem BChain.prepend {pr : RV.Program} {mc : MonCfg} {Q : Pos.State → State → Prop} {n : Nat} {X0 X : State}
    (h0 : stepN pr mc n X0 = .inl X) :
    ∀ {sts : List Pos.State}, BChain pr mc Q sts X → ∀ st ∈ sts, ∃ n' X', stepN pr mc n' X0 = .inl X' ∧ Q st X' := by
  intro sts hc st hm
  obtain ⟨n', X', h1, h2⟩ := hc.mem st hm
  exact ⟨n + n', X', stepN_trans pr mc h0 h1, h2⟩

section Run3

variable {mc : MonCfg} {pr : RV.Program} {ks : List Code} (L : Loaded pr ks)
  (hndL : (labs ks).Nodup) (hheap : mc.heap = false) {ic : Nat} (hclean : labIdx ks "cleanup" = some ic)
  (hicl : ic + 1 = ks.length)
  (hfitX : codeBase + 4 * icount ks < 2 ^ 64)

include L hndL hheap hclean hicl hfitX in
/-- THE THREE-WAY RUN WITH ALL ITS BOUNDARIES: along a terminating run of the positional machine from a
represented state the machine passes through a state related by `Rel3` to EVERY state of the run, and ends the
run with the result of the positional machine -/
theorem run3_chain (hooks : Bool) (prog : AxCut.Prog) (c : Nat) (code : List MockOp) (nargs c' : Nat)
    (hcomp : (compile mockSym hooks prog).run c = .ok ((code, nargs), c'))
    (hsafe : LabelSafe prog = true) (htp : LinTypedProg prog) (hfit : CodeFits code)
    (DX : KDefsAt ks hooks prog) :
    ∀ (fuel : Nat) (st : Pos.State) (acc : List (Bool × Word)) (cfg : Config) (hs : HState) (X : State)
      (v : Word),
      Pos.StateTyped prog st → (∀ st', Reachable prog st st' → st'.ctx.length ≤ 14) →
      Rel3 mc ks (Program.ofOps code) hooks prog st cfg hs X →
      cfg.next + fuel < 2 ^ 64 → Room hs (64 * 15 * fuel) →
      (Pos.runState prog fuel st acc).res = .done v →
      (∃ n XL r, stepN pr mc n X = .inl XL ∧ step pr mc XL = .inr r ∧ r.res = .done v) ∧
      BChain pr mc (fun st X => ∃ cfg hs, Rel3 mc ks (Program.ofOps code) hooks prog st cfg hs X)
        (statesOf prog fuel st) X
  | 0, st, acc, cfg, hs, X, v, _, _, _, _, _, h => by simp [Pos.runState] at h
  | fuel + 1, st, acc, cfg, hs, X, v, T, hcap, R, hnext, hroom, h => by
    have hsim := step3 L hndL hheap hclean hicl hfitX hooks prog c code nargs c' hcomp hsafe htp hfit
      DX st cfg hs X R T (by unfold EnoughHeap; omega) (hroom.mono (by omega))
    have hsafe' := Pos.step_safe htp st T
    have hw : ∃ rs lin lazy live F, InvS hs rs [] lin lazy live F := by
      obtain ⟨Γ', ι, cw, τ, _, _, X3h, _⟩ := R
      obtain ⟨lin, lazy, live, Fr, I⟩ := X3h.href.conc
      exact ⟨_, lin, lazy, live, Fr, I⟩
    unfold StepSim3 at hsim
    simp only [Pos.runState] at h
    simp only [statesOf]
    cases hst : Pos.step prog st with
    | stuck w => simp [hst] at h
    | done v' =>
      simp only [hst] at h hsim
      obtain ⟨XL, ⟨n, h1⟩, h2⟩ := hsim
      simp only [Pos.Result.done.injEq] at h
      subst h
      obtain ⟨r, hr, hres⟩ := step_done_of_runLoop (h2 0)
      exact ⟨⟨n, XL, r, h1, hr, hres⟩, ⟨cfg, hs, R⟩, Or.inl rfl⟩
    | next st' o =>
      simp only [hst] at h hsim
      rw [hst] at hsafe'
      have hc' := hcap st' (Reachable.step Reachable.refl hst)
      obtain ⟨cfg', hs', X', ⟨n, h1⟩, h3, hfr, R'⟩ := hsim (withinCapacity_of_le hc') hc'
      have hroom' : Room hs' (64 * 15 * fuel) :=
        (hroom.step hfr (by omega) hw).mono (by omega)
      obtain ⟨⟨n', XL, r, g1, g2, g3⟩, ih⟩ := run3_chain hooks prog c code nargs c' hcomp hsafe htp hfit DX fuel st'
        _ cfg' hs' X' v hsafe'
        (fun st'' hr => hcap st'' (Scc.Props.C06Generic.reachable_prepend hst hr)) R' (by omega)
        hroom' h
      exact ⟨⟨n + n', XL, r, stepN_trans pr mc h1 g1, g2, g3⟩, ⟨cfg, hs, R⟩, Or.inr ⟨n, X', h1, ih⟩⟩

end Run3

/-- a terminating run stops within its fuel -/
theorem stopsWithin_of_done (prog : AxCut.Prog) : ∀ (fuel : Nat) (st : Pos.State) (acc : List (Bool × Word))
    (v : Word), (Pos.runState prog fuel st acc).res = .done v → stopsWithin prog fuel st = true
  | 0, _, _, _, h => by simp [Pos.runState] at h
  | fuel + 1, st, acc, v, h => by
    simp only [Pos.runState] at h
    simp only [stopsWithin]
    cases hst : Pos.step prog st with
    | stuck w => rfl
    | done v' => rfl
    | next st' o =>
      simp only [hst] at h
      exact stopsWithin_of_done prog fuel st' _ v h

/-! ## the entry: everything `programs_lines` establishes before the run -/

/-- the machine's initial state: the entry registers, an empty memory, the program counter at the first label -/
def initState (regs : Array (Option Word)) (e : Nat) : State := { regs := regs, mem := ∅, pc := e }

/-- what the loader and the entry establish: the loaded program, its kept codes, the first boundary (behind the
entry label) -/
structure Entry (p : AxCut.Prog) (args : List Word) (hooks : Bool) (d0 : Def) (ops : List MockOp) (mc : MonCfg)
    (lines : List (Nat × Code)) (pr : RV.Program) (ic e : Nat) (regs : Array (Option Word)) (X0 : State)
    (a : Nat) : Prop where
  lay : layout lines = .ok pr
  loaded : Loaded pr (keptOf lines)
  nd : (labs (keptOf lines)).Nodup
  clean : labIdx (keptOf lines) "cleanup" = some ic
  icl : ic + 1 = (keptOf lines).length
  fit : codeBase + 4 * icount (keptOf lines) < 2 ^ 64
  defs : KDefsAt (keptOf lines) hooks p
  entry : pr.entry = some e
  hregs : entryRegs args = some regs
  steps : stepN pr mc 1 (initState regs e) = .inl X0
  rel : Rel3 mc (keptOf lines) (Program.ofOps ops) hooks p ⟨d0.ctx, args.map .int, d0.body⟩ (initConfig a args)
    (Scc.Heap.init heapBase (heapBase + mc.heapBytes)) X0
  next1 : (initConfig a args).next = 1
  typed : Pos.StateTyped p ⟨d0.ctx, args.map .int, d0.body⟩

theorem entry_setup (p : AxCut.Prog) (args : List Word) (hooks : Bool) (instrs hdr : List Code)
    (nargs cX : Nat) (d0 : Def) (ops : List MockOp) (c' : Nat)
    (hsafe : LabelSafe p = true) (htp : LinTypedProg p)
    (hcompM : (compile mockSym hooks p).run 0 = .ok ((ops, nargs), c'))
    {cX0 : Nat} (hcompX : (compile rvBackend hooks p).run cX0 = .ok ((instrs, nargs), cX))
    (hnd : (labs (instrs ++ [Code.LAB "cleanup"])).Nodup) (hfitX : codeBase + 4 * instrs.length < 2 ^ 64)
    (hd : p.defs.head? = some d0) (hentry : ∀ b ∈ d0.ctx, b.chi = .ext ∧ b.ty = .i64)
    (hlen : d0.ctx.length = args.length) (hc0 : d0.ctx.length ≤ 14)
    (mc : MonCfg) (htop : heapBase + mc.heapBytes ≤ 2 ^ 63) (hbytes : 128 ≤ mc.heapBytes)
    (lines : List (Nat × Code)) (hhdr : ∀ c ∈ hdr, c.isComment = true)
    (hlines : (lines.map (·.2)).map stripC = (hdr ++ instrs ++ [Code.LAB "cleanup"]).map stripC)
    (hhook : ∀ x ∈ lines, ¬ badHook x.2) :
    ∃ pr ic e regs X0 a, Entry p args hooks d0 ops mc lines pr ic e regs X0 a := by
  have hmem : d0 ∈ p.defs := by
    cases hdefs : p.defs with
    | nil => rw [hdefs] at hd; simp at hd
    | cons d ds => rw [hdefs] at hd; simp at hd; subst hd; simp
  have hnodupD := Scc.Props.C14Generic.labels_unique hooks p 0 ops nargs c' hcompM hsafe
  -- the loader
  obtain ⟨pr, hlay, L⟩ := loaded_layout lines hhook
  have hK : Keeps (hdr ++ instrs ++ [Code.LAB "cleanup"]) (keptOf lines) :=
    (keeps_filter (lines.map (·.2))).of_strip hlines
  generalize hks : keptOf lines = ks at L hK
  have hlabs : labs ks = labs (instrs ++ [Code.LAB "cleanup"]) := by
    rw [hK.labs, List.append_assoc, labs_append]
    have : labs hdr = [] := by
      unfold labs
      rw [List.filterMap_eq_nil_iff]
      intro c hc
      have := hhdr c hc
      cases c <;> simp [Code.isComment] at this
      rfl
    rw [this]; rfl
  have hndL : (labs ks).Nodup := by rw [hlabs]; exact hnd
  -- the pieces of the kept codes
  obtain ⟨k12, k3, e1, h12, h3⟩ := hK.append_inv
  obtain ⟨k1, k2, e2, h1, h2⟩ := h12.append_inv
  obtain ⟨k3', rfl, h3'⟩ := h3.cons_inv (c := Code.LAB "cleanup") rfl
  have hk3 : k3' = [] := by cases h3'; rfl
  subst hk3
  have hclean : labIdx ks "cleanup" = some (k1 ++ k2).length := by
    apply labIdx_of_nodup hndL
    rw [e1, e2]; simp
  -- the definitions
  have DX : KDefsAt ks hooks p := kdefsAt_of_compile hcompX rfl hK hndL
  obtain ⟨i, kx, kx', ditems, hi, hget, hdrun, hdat⟩ := DX d0 hmem
  -- the entry label is the first label
  have hinstr : ∃ rest, instrs = Code.LAB (d0.name.print ++ "_") :: rest := by
    unfold compile compileR at hcompX
    cases hdefs : p.defs with
    | nil => rw [hdefs] at hd; simp at hd
    | cons d ds =>
      rw [hdefs] at hd hcompX
      simp only [List.head?_cons, Option.some.injEq] at hd
      subst hd
      simp only [run_bind_ok, run_pure_ok, translateR] at hcompX
      obtain ⟨blocks, c1, ⟨is, c2, h1, rest, c3, h2, rfl, rfl⟩, e, rfl⟩ := hcompX
      injection e with e1 e2
      exact ⟨is ++ assemble rvBackend rest (ds.map (·.name)), by rw [← e1]; rfl⟩
  obtain ⟨irest, hinstr⟩ := hinstr
  rw [hinstr] at h2
  obtain ⟨k2', rfl, h2'⟩ := h2.cons_inv (c := Code.LAB (d0.name.print ++ "_")) rfl
  have hk1c := keeps_comments h1 hhdr
  have hentryIdx : pr.entry = some k1.length := by
    rw [L.entry, e1, e2, List.append_assoc, firstLab_append_comments hk1c]
    simp [firstLab, isLab, List.findIdx?_cons]
  have hi0 : i = k1.length := by
    have hg : ks[k1.length]? = some (Code.LAB (d0.name.print ++ "_")) := by rw [e1, e2]; simp
    have := labIdx_of_nodup hndL hg
    rw [hi] at this
    exact Option.some.inj this
  subst hi0
  -- the entry state
  obtain ⟨regs, hregs, _⟩ := entryRegs_spec args (by omega)
  have X3i : X3 mc (fun _ => 0) (fun _ _ => 0) d0.ctx (initConfig 0 args)
      (Scc.Heap.init heapBase (heapBase + mc.heapBytes)) id { regs := regs, mem := ∅, pc := k1.length } :=
    x3_init hregs hlen (fun b hb => (hentry b hb).1) hc0 htop hbytes id
  -- Theorem A at the entry
  obtain ⟨a, hlab, RX, hn1⟩ := init_relX hooks p 0 ops nargs c' hcompM hnodupD d0 hmem
    (fun b hb => (hentry b hb).1) args hlen (withinCapacity_of_le hc0)
  have T : Pos.StateTyped p ⟨d0.ctx, args.map .int, d0.body⟩ :=
    ⟨htp d0 hmem, Pos.ints_typed d0.ctx args hlen hentry⟩
  have X3a : X3 mc (fun _ => 0) (fun _ _ => 0) d0.ctx (initConfig a args)
      (Scc.Heap.init heapBase (heapBase + mc.heapBytes)) id { regs := regs, mem := ∅, pc := k1.length } :=
    X3i.absCongr (fun _ _ => rfl) rfl rfl
  -- over the entry label
  have hatL : KAt ks (State.pc { regs := regs, mem := ∅, pc := k1.length })
      (Code.LAB (d0.name.print ++ "_") :: ditems) := KAt.of_label hget hdat
  obtain ⟨hg0, hat1⟩ := hatL.head rfl
  obtain ⟨it, hit1, hit2, _⟩ := loaded_item L hg0
  have hstep1 : step pr mc { regs := regs, mem := ∅, pc := k1.length } =
      .inl (setPS { regs := regs, mem := ∅, pc := k1.length } (k1.length + 1) 0) :=
    step_of_label pr mc _ hit1 hit2 (defLabel_ne_cleanup _)
  have R3 : Rel3 mc ks (Program.ofOps ops) hooks p ⟨d0.ctx, args.map .int, d0.body⟩ (initConfig a args)
      (Scc.Heap.init heapBase (heapBase + mc.heapBytes))
      (setPS { regs := regs, mem := ∅, pc := k1.length } (k1.length + 1) 0) :=
    ⟨d0.ctx, id, fun _ => 0, fun _ _ => 0, rfl, RX, X3R.setPS X3a _ _, cvals_of_ints RX.vals, kx, kx', ditems,
      hdrun, hat1⟩
  have hfitK : codeBase + 4 * icount ks < 2 ^ 64 := by
    have h1 : icount ks ≤ instrs.length := by
      rw [e1, e2, icount_append, icount_append, icount_single]
      have hz : icount k1 = 0 := by
        unfold icount
        rw [List.length_eq_zero_iff, List.filter_eq_nil_iff]
        intro y hy
        have := hk1c y hy
        cases y <;> simp [Code.isComment] at this
        simp [Code.isInstr]
      have hle : icount (Code.LAB (d0.name.print ++ "_") :: k2') ≤ (Code.LAB (d0.name.print ++ "_") :: k2').length := by
        unfold icount; exact List.length_filter_le _ _
      have hlen2 : (Code.LAB (d0.name.print ++ "_") :: k2').length ≤ instrs.length := by
        rw [hinstr]
        simp only [List.length_cons]
        have := h2'.length_le
        omega
      rw [hz]
      simp [Code.isInstr]
      omega
    omega
  have hicl : (k1 ++ Code.LAB (d0.name.print ++ "_") :: k2').length + 1 = ks.length := by
    rw [e1, e2]; simp only [List.length_append, List.length_cons, List.length_nil]
  subst hks
  exact ⟨pr, _, k1.length, regs, _, a, hlay, L, hndL, hclean, hicl, hfitK, DX, hentryIdx, hregs,
    by rw [stepN_one]; exact hstep1, R3, hn1, T⟩

/-! ## composition -/

/-- a machine state at a STATEMENT BOUNDARY of the run of the routine: related by the three-way relation `Rel3`
(Scc/RV/RefRun.lean: Theorem A's relation, the representation relation `X3` of the RV64 machine with the machine
words of the closures, the RV64 code of the current statement at the program counter) to a state of the
positional machine.  `ks`: the kept codes of the loaded lines -/
def BoundaryOf (p : AxCut.Prog) (hooks : Bool) (ks : List Code) (ops : List MockOp) (mc : MonCfg)
    (st : Pos.State) (X : State) : Prop :=
  ∃ (cfgA : Config) (hs : HState), Rel3 mc ks (Program.ofOps ops) hooks p st cfgA hs X

/-- THE HEAP INVARIANT AT EVERY STATEMENT BOUNDARY: a machine state related by `Rel3` to a positional state
satisfies the monitor's predicate for the kinds of that state's context -/
theorem heapInvAt_of_boundary {p : AxCut.Prog} {hooks : Bool} {ks : List Code} {ops : List MockOp}
    {mc : MonCfg} {st : Pos.State} {X : State} (B : BoundaryOf p hooks ks ops mc st X) :
    HeapInvAt X (ctxKinds st.ctx) (heapBase + mc.heapBytes) := by
  obtain ⟨cfgA, hs, Γ', ι, cw, τ, hkeys, RX, X3h, _⟩ := B
  have := (heapInvAt_of_x3 RX X3h).1
  rw [ctxKinds_keys hkeys] at this
  exact this

/-- the run of the positional machine from the entry -/
theorem run_entry {p : AxCut.Prog} {args : List Word} {d0 : Def} (hd : p.defs.head? = some d0) {fuel : Nat}
    {v : Word} (hrun : (Pos.run p args fuel).res = .done v) :
    d0.ctx.length = args.length ∧
      (Pos.runState p fuel ⟨d0.ctx, args.map .int, d0.body⟩ []).res = .done v := by
  unfold Pos.run at hrun
  cases hdefs : p.defs with
  | nil => rw [hdefs] at hd; simp at hd
  | cons d ds =>
    rw [hdefs] at hd hrun
    simp only [List.head?_cons, Option.some.injEq] at hd
    subst hd
    simp only at hrun
    by_cases hl : d.ctx.length ≠ args.length
    · simp [hl] at hrun
    · simp only [hl, if_false] at hrun
      exact ⟨by omega, hrun⟩

/-- the whole run from the machine's initial state: the machine passes through a boundary state for EVERY
state of the terminating run of the positional machine, in order, and ends the run with its result -/
theorem programs_chain (p : AxCut.Prog) (args : List Word) (hooks : Bool) (instrs hdr : List Code)
    (nargs cX : Nat) (d0 : Def) (ops : List MockOp) (c' : Nat)
    (hsafe : LabelSafe p = true) (htp : LinTypedProg p)
    (hcompM : (compile mockSym hooks p).run 0 = .ok ((ops, nargs), c')) (hfit : CodeFits ops)
    {cX0 : Nat} (hcompX : (compile rvBackend hooks p).run cX0 = .ok ((instrs, nargs), cX))
    (hnd : (labs (instrs ++ [Code.LAB "cleanup"])).Nodup) (hfitX : codeBase + 4 * instrs.length < 2 ^ 64)
    (hd : p.defs.head? = some d0) (hentry : ∀ b ∈ d0.ctx, b.chi = .ext ∧ b.ty = .i64)
    (hcap : ∀ st, Reachable p ⟨d0.ctx, args.map .int, d0.body⟩ st → st.ctx.length ≤ 14)
    (fuel : Nat) (v : Word) (hfuel : fuel + 1 < 2 ^ 64)
    (hrun : (Pos.run p args fuel).res = .done v)
    (mc : MonCfg) (hheap : mc.heap = false) (htop : heapBase + mc.heapBytes ≤ 2 ^ 63)
    (hbytes : 128 + 64 * 15 * fuel ≤ mc.heapBytes)
    (lines : List (Nat × Code)) (hhdr : ∀ c ∈ hdr, c.isComment = true)
    (hlines : (lines.map (·.2)).map stripC = (hdr ++ instrs ++ [Code.LAB "cleanup"]).map stripC)
    (hhook : ∀ x ∈ lines, ¬ badHook x.2) :
    ∃ pr e regs, layout lines = .ok pr ∧ pr.entry = some e ∧ entryRegs args = some regs ∧
      ∃ X0, stepN pr mc 1 (initState regs e) = .inl X0 ∧
        BChain pr mc (BoundaryOf p hooks (keptOf lines) ops mc)
          (statesOf p fuel ⟨d0.ctx, args.map .int, d0.body⟩) X0 ∧
        stopsWithin p fuel ⟨d0.ctx, args.map .int, d0.body⟩ = true ∧
        ∃ n XL r, stepN pr mc n X0 = .inl XL ∧ step pr mc XL = .inr r ∧ r.res = .done v := by
  obtain ⟨hlen, hrun'⟩ := run_entry hd hrun
  have hc0 := hcap _ Reachable.refl
  simp only at hc0
  obtain ⟨pr, ic, e, regs, X0, a, En⟩ := entry_setup p args hooks instrs hdr nargs cX d0 ops c' hsafe htp hcompM
    hcompX hnd hfitX hd hentry hlen hc0 mc htop (by omega) lines hhdr hlines hhook
  obtain ⟨hdone, hch⟩ := run3_chain En.loaded En.nd hheap En.clean En.icl En.fit hooks p 0 ops nargs c' hcompM
    hsafe htp hfit En.defs fuel _ [] (initConfig a args) _ X0 v En.typed hcap En.rel
    (by rw [En.next1]; omega) (room_init (by decide) (by omega) (by omega)) hrun'
  exact ⟨pr, e, regs, En.lay, En.entry, En.hregs, X0, En.steps, BChain.mono (fun st X ⟨cfgA, hs, R⟩ => ⟨cfgA, hs, R⟩) hch,
    stopsWithin_of_done p fuel _ _ _ hrun', hdone⟩

end Scc.RV.Conc
