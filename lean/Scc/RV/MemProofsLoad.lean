/-
  Scc.RV.MemProofsLoad — the contract of `load` (memory.rs: release_block, load_field,
  load_value(s), load_fields, Memory::load) against `Scc.Heap.loadObj`: unique branch (count 0: the
  blocks go back onto the linear free list, the children move into the environment) and shared branch
  (count > 0: decrement, every pointer child is shared), for objects of ANY number of fields (one block
  or a chain).  The memory block of each level is the first register of the first variable loaded from
  it (there are no spills on RV64).
-/
import Scc.RV.MemProofsStore

set_option linter.unusedSimpArgs false
set_option linter.unusedVariables false

namespace Scc.RV

open Scc.AxCut
open Scc.Backend (GenM TempNum freshLabel)

/-! ## load_field, share_block -/

theorem loadField_run (num : TempNum) (ctx : Ctx) (mb : Register) (off k : Nat)
    (h : 2 * ctx.length + num.toNat < 28) :
    (loadField num ctx mb off).run k =
      .ok (.LW (posTemp (2 * ctx.length + num.toNat)) mb (fieldOffset num.toNat off), k) := by
  unfold loadField
  rw [genm_bind (freshTemporary_run k h)]
  rfl

section Prim
variable {cfg : MonCfg} {μ : MState} {h h' : Scc.Heap.HState}

/-- `t := [mb + off]` is the model's `rd` -/
theorem m_loadFieldCode (C : CfgOK cfg) (H : HRelM cfg μ h) {n : Nat} (hn : n < 28)
    {mb : Register} {b : Word} (hvb : μ.rd mb = some b)
    {off : Nat} {v : Nat} (hrd : Scc.Heap.rd h (b.toNat + off) = .ok v) :
    ∃ w, mFwd cfg [.LW (posTemp n) mb (off : Int)] μ = some (μ.setT (posReg n) (some w), .fall) ∧
      w.toNat = v := by
  obtain ⟨hok, hv⟩ := rd_eq_ok.1 hrd
  have ha := haddr_ok C H hok
  have h1 : 1 ≤ posReg n := by unfold posReg; omega
  have h2 : posReg n < 32 := by unfold posReg; omega
  refine ⟨μ.heap (b.toNat + off), ?_, by rw [hv, H.mem]⟩
  simp [mFwd_cons, mFwd_nil, mcont, mexecC, mexec, h1, h2, hvb, ha]

/-- the code of `share_block` for a pointer in register `r` (label `l`) -/
def shareCode (r : Register) (l : String) : List Code :=
  [.BEQ r ZERO l] ++
    [.COMMENT "####increment refcount", .LW TEMP r referenceCountOffset,
     .ADDI TEMP TEMP ((1 : Nat) : Int), .SW TEMP r referenceCountOffset] ++ [.LAB l]

theorem shareBlock_run (r : Register) (k : Nat) :
    (shareBlock r).run k = .ok (shareCode r (labName (k + 1)), k + 1) := rfl

theorem labsIn_shareCode (r : Register) (k : Nat) : LabsIn (shareCode r (labName (k + 1))) k (k + 1) := by
  intro l hl
  simp only [shareCode, List.mem_cons, List.mem_append, reduceCtorEq, false_or, Code.LAB.injEq,
    List.not_mem_nil, or_false] at hl
  exact ⟨k + 1, hl, by omega, by omega⟩

/-- `share_block` on the view, pointer in any variable register: one more reference -/
theorem m_share1 (C : CfgOK cfg) (H : HRelM cfg μ h) {r : Register} (h1 : 4 ≤ r.n) (h2 : r.n < 32) {p : Word}
    (hv : μ.val r.n = some p) (hop : Scc.Heap.shareBlock h p.toNat 1 = .ok h')
    (hno : p ≠ 0 → h.mem.get p.toNat + 1 < 2 ^ 64) (l : String) :
    ∃ μ', mFwd cfg (shareCode r l) μ = some (μ', .fall) ∧ HRelM cfg μ' h' ∧
      (∀ u, u ≠ 1 → μ'.val u = μ.val u) := by
  have hrd : ∀ ν : MState, ν.rd r = ν.val r.n := fun ν => MState.rd_of (by omega) h2
  have h0 : ¬ r.n = 0 := by omega
  have hr1 : ¬ r.n = 1 := by omega
  by_cases hp : p = 0
  · subst hp
    have : h' = h := by
      simp [Scc.Heap.shareBlock] at hop
      exact hop.symm
    subst this
    refine ⟨μ, ?_, H, fun _ _ => rfl⟩
    unfold shareCode
    exact mFwd_skip_taken cfg r _ _ μ (by rw [hrd, hv]) (by simp [skipTo])
  · have hp' : p.toNat ≠ 0 := fun e => hp (BitVec.eq_of_toNat_eq (by simpa using e))
    unfold Scc.Heap.shareBlock at hop
    rw [if_neg hp'] at hop
    cases hrdc : Scc.Heap.rd h p.toNat with
    | error f => simp [hrdc] at hop
    | ok cnt =>
      simp only [hrdc] at hop
      obtain ⟨hok, hcnt⟩ := rd_eq_ok.1 hrdc
      obtain ⟨_, rfl⟩ := wr_eq_ok.1 hop
      have ha : haddr cfg p 0 = some p.toNat := haddr_ok0 C H hok
      have hw : (μ.heap p.toNat + imm ((1 : Nat) : Int)).toNat = cnt + 1 := by
        have := toNat_add_imm_nat (μ.heap p.toNat) 1 (by rw [← H.mem]; exact hno hp)
        rw [hcnt, H.mem]; exact this
      refine ⟨((μ.setT 1 (some (μ.heap p.toNat))).setT 1 (some (μ.heap p.toNat + imm ((1 : Nat) : Int)))).setH
        p.toNat (μ.heap p.toNat + imm ((1 : Nat) : Int)), ?_, ?_, fun u hu => by simp [hu]⟩
      · unfold shareCode
        refine mFwd_skip_not_taken cfg r _ _ μ _ (by rw [hrd, hv]) hp ?_
        simp [mFwd_cons, mFwd_nil, mcont, mexecC, mexec, MState.rd, h0, h2, hr1, hv, ha]
      · have := ((H.setT (t := 1) (by decide) (by decide) (some (μ.heap p.toNat))).setT (t := 1) (by decide)
          (by decide) (some (μ.heap p.toNat + imm ((1 : Nat) : Int)))).setH p.toNat
            (μ.heap p.toNat + imm ((1 : Nat) : Int))
        rw [hw] at this
        exact this

end Prim

/-! ## load_value -/

/-- memory.rs LoadMode ↦ the model's -/
def modeMap : LoadMode → Scc.Heap.LoadMode
  | .release => .release
  | .share => .share

/-- the model's kind of a variable: `true` = it has a pointer part (not `ext`) -/
def kindOf (b : Binding) : Bool := b.chi != .ext

section Value
variable {cfg : MonCfg} {μ : MState} {h h' : Scc.Heap.HState}

/-- CONTRACT of `load_value`: field `off` of the block in register `mb` (an even register ≥ 4: the
memory-block register of a context position) is loaded into the registers of the variable `b` at
position `|ctx|`; in share mode a pointer child gets one more reference.  The first register of `b` may
be `mb` itself (then this is the last access to the block). -/
theorem m_loadValue (C : CfgOK cfg) (H : HRelM cfg μ h) {b : Binding} {ctx : Ctx}
    (hcap : 2 * ctx.length + 1 < 28) {mb : Register} (hm1 : 4 ≤ mb.n) (hm2 : mb.n < 32) (hme : mb.n % 2 = 0)
    {bw : Word} (hvb : μ.val mb.n = some bw) {off : Nat} {mode : LoadMode}
    {v : Scc.Heap.Field} (hop : Scc.Heap.loadValue h (kindOf b) bw.toNat off (modeMap mode) = .ok (h', v))
    (hno : mode = .share → ∀ a, h'.mem.get a < 2 ^ 64) (k : Nat) :
    ∃ code k', (loadValue b ctx mb off mode).run k = .ok (code, k') ∧ k ≤ k' ∧ LabsIn code k k' ∧
      ∃ μ', mFwd cfg code μ = some (μ', .fall) ∧ HRelM cfg μ' h' ∧ FieldAt μ' ctx.length b v ∧
        (∀ u, u ≠ 1 → u ≠ posReg (2 * ctx.length) → u ≠ posReg (2 * ctx.length + 1) →
          μ'.val u = μ.val u) := by
  have hrdm : ∀ ν : MState, ν.rd mb = ν.val mb.n := fun ν => MState.rd_of (by omega) hm2
  have hmS : mb.n ≠ posReg (2 * ctx.length + 1) := by unfold posReg; omega
  obtain ⟨s1, s2, s3, _⟩ := posReg_ne_low (2 * ctx.length + 1)
  obtain ⟨f1, f2, f3, _⟩ := posReg_ne_low (2 * ctx.length)
  have hsf : posReg (2 * ctx.length + 1) ≠ posReg (2 * ctx.length) := by unfold posReg; omega
  unfold loadValue
  rw [genm_bind (loadField_run .snd ctx mb off k (by simpa [TempNum.toNat] using hcap))]
  simp only [Scc.Heap.loadValue] at hop
  cases hr1 : Scc.Heap.rd h (bw.toNat + Scc.Heap.sndOff off) with
  | error e => simp [hr1] at hop
  | ok wv =>
    simp only [hr1] at hop
    obtain ⟨w, x1, ew⟩ := m_loadFieldCode C H hcap (mb := mb) (by rw [hrdm]; exact hvb) hr1
    have H1 : HRelM cfg (μ.setT (posReg (2 * ctx.length + 1)) (some w)) h := H.setT s2 s3 _
    simp only [TempNum.toNat]
    rw [fieldOffset_snd]
    by_cases hχ : (b.chi == .ext) = true
    · -- an integer
      have hk : kindOf b = false := by simp [kindOf, bne, hχ]
      have hne : (b.chi != .ext) = false := hk
      simp only [hk, Bool.false_eq_true, if_false, Except.ok.injEq, Prod.mk.injEq] at hop
      obtain ⟨rfl, rfl⟩ := hop
      simp only [hne, Bool.false_eq_true, if_false]
      refine ⟨_, k, genm_pure _ k, Nat.le_refl _, LabsIn.of_noLab _ _ (fun l => by simp), _, x1, H1, ?_,
        fun u _ _ hs => by simp [hs]⟩
      unfold FieldAt
      rw [if_pos hχ]
      exact ⟨w, by rw [ew], by simp⟩
    · -- a pointer and a word
      have hk : kindOf b = true := by
        simp only [kindOf, bne]
        cases hb : (b.chi == .ext)
        · rfl
        · exact absurd hb hχ
      have hne : (b.chi != .ext) = true := hk
      simp only [hk, if_true] at hop
      simp only [hne, if_true]
      rw [genm_bind (loadField_run .fst ctx mb off k (by simp [TempNum.toNat]; omega))]
      simp only [TempNum.toNat, Nat.add_zero]
      rw [fieldOffset_fst]
      cases hr2 : Scc.Heap.rd h (bw.toNat + Scc.Heap.fstOff off) with
      | error e => simp [hr2] at hop
      | ok pv =>
        simp only [hr2] at hop
        have hvb1 : (μ.setT (posReg (2 * ctx.length + 1)) (some w)).rd mb = some bw := by
          rw [hrdm]; simp [hmS, hvb]
        obtain ⟨p, x2, ep⟩ := m_loadFieldCode C H1 (n := 2 * ctx.length) (by omega) hvb1 hr2
        have H2 : HRelM cfg ((μ.setT (posReg (2 * ctx.length + 1)) (some w)).setT (posReg (2 * ctx.length))
            (some p)) h := H1.setT f2 f3 _
        have x12 := mFwd_seq cfg (a := [_]) (b := [_]) x1 x2
        have hFA : ∀ μ' : MState, (∀ u, u ≠ 1 → μ'.val u =
            ((μ.setT (posReg (2 * ctx.length + 1)) (some w)).setT (posReg (2 * ctx.length)) (some p)).val u) →
            FieldAt μ' ctx.length b (.ptr pv wv) := by
          intro μ' e
          unfold FieldAt
          rw [if_neg hχ, e _ f1, e _ s1]
          exact ⟨p, w, by rw [ep, ew], by simp, by simp [hsf]⟩
        cases mode with
        | release =>
          simp only [modeMap, Except.ok.injEq, Prod.mk.injEq] at hop
          obtain ⟨rfl, rfl⟩ := hop
          have : (LoadMode.release == LoadMode.share) = false := rfl
          simp only [this, Bool.false_eq_true, if_false]
          exact ⟨_, k, genm_pure _ k, Nat.le_refl _, LabsIn.of_noLab _ _ (fun l => by simp), _, x12, H2,
            hFA _ (fun _ _ => rfl), fun u _ hf hs => by simp [hf, hs]⟩
        | share =>
          simp only [modeMap] at hop
          cases hsh : Scc.Heap.shareBlock h pv 1 with
          | error e => simp [hsh] at hop
          | ok s1 =>
            simp only [hsh, Except.ok.injEq, Prod.mk.injEq] at hop
            obtain ⟨rfl, rfl⟩ := hop
            simp only [beq_self_eq_true, if_true]
            rw [genm_bind (freshTemporary_run k (by simp [TempNum.toNat]; omega))]
            simp only [TempNum.toNat, Nat.add_zero]
            rw [genm_bind (shareBlock_run _ k)]
            rw [← ep] at hsh
            have hno' : p ≠ 0 → h.mem.get p.toNat + 1 < 2 ^ 64 := by
              intro hp
              have hp' : p.toNat ≠ 0 := fun e => hp (BitVec.eq_of_toNat_eq (by simpa using e))
              have hb := hno rfl p.toNat
              unfold Scc.Heap.shareBlock at hsh
              rw [if_neg hp'] at hsh
              cases hrd : Scc.Heap.rd h p.toNat with
              | error f => simp [hrd] at hsh
              | ok cnt =>
                simp only [hrd] at hsh
                obtain ⟨_, hc⟩ := rd_eq_ok.1 hrd
                obtain ⟨_, rfl⟩ := wr_eq_ok.1 hsh
                simp only [Scc.Heap.Mem.get_set, if_true] at hb
                omega
            obtain ⟨μ3, x3, H3, F3⟩ := m_share1 C H2 (r := posTemp (2 * ctx.length)) (by simp [posReg])
              (by simp [posReg]; omega) (by simp) hsh hno' (labName (k + 1))
            refine ⟨_, k + 1, genm_pure _ _, by omega, ?_, μ3, mFwd_seq cfg x12 x3, H3,
              hFA μ3 F3, fun u hT hf hs => by rw [F3 u hT]; simp [hf, hs]⟩
            exact (LabsIn.of_noLab _ _ (fun l => by simp)).append (labsIn_shareCode _ k)

end Value

/-! ## load_values -/

/-- in share mode the model only increments words -/
theorem shareBlock_mono {s s' : Scc.Heap.HState} {p n : Nat} (h : Scc.Heap.shareBlock s p n = .ok s') :
    ∀ a, s.mem.get a ≤ s'.mem.get a := by
  intro a
  unfold Scc.Heap.shareBlock at h
  split at h
  · cases h; exact Nat.le_refl _
  · cases hrd : Scc.Heap.rd s p with
    | error f => simp [hrd] at h
    | ok cnt =>
      simp only [hrd] at h
      obtain ⟨_, hc⟩ := rd_eq_ok.1 hrd
      obtain ⟨_, rfl⟩ := wr_eq_ok.1 h
      simp only [Scc.Heap.Mem.get_set]
      split
      · rename_i e; subst e; omega
      · exact Nat.le_refl _

theorem loadValue_mono {s s' : Scc.Heap.HState} {kd : Bool} {blk off : Nat} {v : Scc.Heap.Field}
    (h : Scc.Heap.loadValue s kd blk off .share = .ok (s', v)) : ∀ a, s.mem.get a ≤ s'.mem.get a := by
  simp only [Scc.Heap.loadValue] at h
  cases hr1 : Scc.Heap.rd s (blk + Scc.Heap.sndOff off) with
  | error e => simp [hr1] at h
  | ok w =>
    simp only [hr1] at h
    cases kd with
    | false =>
      simp only [Bool.false_eq_true, if_false, Except.ok.injEq, Prod.mk.injEq] at h
      obtain ⟨rfl, _⟩ := h
      exact fun _ => Nat.le_refl _
    | true =>
      simp only [if_true] at h
      cases hr2 : Scc.Heap.rd s (blk + Scc.Heap.fstOff off) with
      | error e => simp [hr2] at h
      | ok p =>
        simp only [hr2] at h
        cases hsh : Scc.Heap.shareBlock s p 1 with
        | error e => simp [hsh] at h
        | ok s1 =>
          simp only [hsh, Except.ok.injEq, Prod.mk.injEq] at h
          obtain ⟨rfl, _⟩ := h
          exact shareBlock_mono hsh

theorem loadValuesRev_mono {blk : Nat} : ∀ (ks : List Bool) (ff : Nat) (acc : List Scc.Heap.Field)
    (s s' : Scc.Heap.HState) (vs : List Scc.Heap.Field),
    Scc.Heap.loadValuesRev s blk .share ks ff acc = .ok (s', vs) → ∀ a, s.mem.get a ≤ s'.mem.get a := by
  intro ks
  induction ks with
  | nil =>
    intro ff acc s s' vs h
    simp only [Scc.Heap.loadValuesRev, Except.ok.injEq, Prod.mk.injEq] at h
    obtain ⟨rfl, _⟩ := h
    exact fun _ => Nat.le_refl _
  | cons kd rest ih =>
    intro ff acc s s' vs h
    cases ff with
    | zero => simp [Scc.Heap.loadValuesRev] at h
    | succ ff =>
      simp only [Scc.Heap.loadValuesRev] at h
      cases hlv : Scc.Heap.loadValue s kd blk ff .share with
      | error e => simp [hlv] at h
      | ok r =>
        obtain ⟨s1, v⟩ := r
        simp only [hlv] at h
        exact fun a => Nat.le_trans (loadValue_mono hlv a) (ih ff (v :: acc) s1 s' vs h a)

theorem loadValues_mono {s s' : Scc.Heap.HState} {ks : List Bool} {blk ff : Nat} {vs : List Scc.Heap.Field}
    (h : Scc.Heap.loadValues s ks blk ff .share = .ok (s', vs)) : ∀ a, s.mem.get a ≤ s'.mem.get a :=
  loadValuesRev_mono _ _ _ _ _ _ h

section Values
variable {cfg : MonCfg}

/-- the `pop` loop of `load_values`, on the reversed list -/
theorem m_loadValuesLoop (C : CfgOK cfg) {existing : Ctx} {mb : Register} (hm1 : 4 ≤ mb.n) (hm2 : mb.n < 32)
    (hme : mb.n % 2 = 0) {bw : Word} {mode : LoadMode}
    (hmb : ∀ j, 1 ≤ j → posReg (2 * (existing.length + j)) ≠ mb.n) :
    ∀ (bsRev : List Binding) (ff : Nat) (acc : List Scc.Heap.Field) (μ : MState) (h h' : Scc.Heap.HState)
      (vs : List Scc.Heap.Field) (k : Nat), HRelM cfg μ h → (bsRev ≠ [] → μ.val mb.n = some bw) →
    2 * (existing.length + bsRev.length) ≤ 28 →
    Scc.Heap.loadValuesRev h bw.toNat (modeMap mode) (bsRev.map kindOf) ff acc = .ok (h', vs) →
    (mode = .share → ∀ a, h'.mem.get a < 2 ^ 64) →
    ∃ code k', (loadValuesLoop existing mb mode bsRev ff).run k = .ok (code, k') ∧ k ≤ k' ∧
      LabsIn code k k' ∧
      ∃ μ' valsRev, mFwd cfg code μ = some (μ', .fall) ∧ HRelM cfg μ' h' ∧ vs = valsRev.reverse ++ acc ∧
        EnvFieldsRev μ' existing.length bsRev valsRev ∧
        (∀ u, u ≠ 1 →
          (∀ m, 2 * existing.length ≤ m → m < 2 * (existing.length + bsRev.length) → u ≠ posReg m) →
          μ'.val u = μ.val u) := by
  intro bsRev
  induction bsRev with
  | nil =>
    intro ff acc μ h h' vs k H _ _ hop _
    simp only [List.map_nil, Scc.Heap.loadValuesRev, Except.ok.injEq, Prod.mk.injEq] at hop
    obtain ⟨rfl, rfl⟩ := hop
    exact ⟨[], k, rfl, Nat.le_refl _, LabsIn.nil _ _, μ, [], mFwd_nil cfg μ, H, rfl, trivial, fun _ _ _ => rfl⟩
  | cons b rest ih =>
    intro ff acc μ h h' vs k H hvb hcap hop hno
    simp only [List.length_cons] at hcap
    cases ff with
    | zero => simp [Scc.Heap.loadValuesRev] at hop
    | succ ff =>
      simp only [List.map_cons, Scc.Heap.loadValuesRev] at hop
      cases hlv : Scc.Heap.loadValue h (kindOf b) bw.toNat ff (modeMap mode) with
      | error e => simp [hlv] at hop
      | ok r =>
        obtain ⟨s1, v⟩ := r
        simp only [hlv] at hop
        have hlen : (existing ++ rest.reverse).length = existing.length + rest.length := by simp
        have hno1 : mode = .share → ∀ a, s1.mem.get a < 2 ^ 64 := by
          intro hm a
          subst hm
          exact Nat.lt_of_le_of_lt (loadValuesRev_mono _ _ _ _ _ _ hop a) (hno rfl a)
        obtain ⟨c1, k1, hr1, hk1, hl1, μ1, x1, H1, hFA, F1⟩ := m_loadValue C H (b := b)
          (ctx := existing ++ rest.reverse) (by rw [hlen]; omega) hm1 hm2 hme (hvb (by simp)) hlv hno1 k
        rw [hlen] at hFA F1
        have hvb1 : rest ≠ [] → μ1.val mb.n = some bw := by
          intro hr
          have hpos : 1 ≤ rest.length := List.length_pos_iff.mpr hr
          rw [F1 _ (by omega) (Ne.symm (hmb _ hpos)) (by unfold posReg; omega)]
          exact hvb (by simp)
        obtain ⟨c2, k2, hr2, hk2, hl2, μ2, valsRev, x2, H2, hvs, hE2, F2⟩ :=
          ih ff (v :: acc) μ1 s1 h' vs k1 H1 hvb1 (by omega) hop hno
        refine ⟨c1 ++ c2, k2, ?_, by omega, (hl1.mono (Nat.le_refl _) hk2).append (hl2.mono hk1 (Nat.le_refl _)),
          μ2, v :: valsRev, mFwd_seq cfg x1 x2, H2, ?_, ⟨?_, hE2⟩, ?_⟩
        · simp only [loadValuesLoop]
          rw [genm_bind (show (pred1 (ff + 1)).run k = .ok (ff, k) from rfl), genm_bind hr1, genm_bind hr2]
          rfl
        · rw [hvs]; simp
        · refine hFA.congr ?_ ?_
          · exact F2 _ (posReg_ne_low _).1 (fun m _ h2 e => by have := posReg_inj.1 e; omega)
          · exact F2 _ (posReg_ne_low _).1 (fun m _ h2 e => by have := posReg_inj.1 e; omega)
        · intro u hT hu
          simp only [List.length_cons] at hu
          rw [F2 u hT (fun m h1 h2 => hu m h1 (by omega)),
            F1 u hT (hu _ (by omega) (by omega)) (hu _ (by omega) (by omega))]

theorem envFields_of_rev_aux {μ : MState} (base : Nat) : ∀ (n : Nat) (Γ : Ctx) (fsRev : List Scc.Heap.Field),
    Γ.length = n → EnvFieldsRev μ base Γ.reverse fsRev → EnvFields μ base Γ fsRev.reverse := by
  intro n
  induction n with
  | zero =>
    intro Γ fsRev hn h
    have : Γ = [] := List.eq_nil_of_length_eq_zero hn
    subst this
    cases fsRev with
    | nil => trivial
    | cons _ _ => exact h.elim
  | succ n ih =>
    intro Γ fsRev hn h
    rcases List.eq_nil_or_concat Γ with rfl | ⟨bs, b, rfl⟩
    · simp at hn
    rw [List.concat_eq_append] at h hn ⊢
    rw [List.reverse_append] at h
    cases fsRev with
    | nil => exact h.elim
    | cons f fs =>
      obtain ⟨h1, h2⟩ := h
      rw [List.reverse_cons]
      exact EnvFields.snoc (ih bs fs (by simpa using hn) h2) (by simpa using h1)

theorem envFields_of_rev {μ : MState} (base : Nat) (Γ : Ctx) (fsRev : List Scc.Heap.Field)
    (h : EnvFieldsRev μ base Γ.reverse fsRev) : EnvFields μ base Γ fsRev.reverse :=
  envFields_of_rev_aux base Γ.length Γ fsRev rfl h

theorem EnvFields.append {μ : MState} : ∀ {n : Nat} {Γ1 Γ2 : Ctx} {f1 f2 : List Scc.Heap.Field},
    EnvFields μ n Γ1 f1 → EnvFields μ (n + Γ1.length) Γ2 f2 → EnvFields μ n (Γ1 ++ Γ2) (f1 ++ f2)
  | _, [], _, [], _, _, h2 => by simpa using h2
  | _, [], _, _ :: _, _, h1, _ => h1.elim
  | _, _ :: _, _, [], _, h1, _ => h1.elim
  | n, _ :: bs, _, _ :: _, _, h1, h2 =>
    ⟨h1.1, EnvFields.append h1.2 (by
      rw [List.length_cons, show n + (bs.length + 1) = n + 1 + bs.length by omega] at h2; exact h2)⟩

/-- CONTRACT of `load_values` -/
theorem m_loadValues (C : CfgOK cfg) {μ : MState} {h h' : Scc.Heap.HState} (H : HRelM cfg μ h)
    {toLoad existing : Ctx} {mb : Register} (hm1 : 4 ≤ mb.n) (hm2 : mb.n < 32) (hme : mb.n % 2 = 0) {bw : Word}
    (hvb : μ.val mb.n = some bw) {mode : LoadMode}
    (hmb : ∀ j, 1 ≤ j → posReg (2 * (existing.length + j)) ≠ mb.n)
    (hcap : 2 * (existing.length + toLoad.length) ≤ 28) {ff : Nat}
    {vs : List Scc.Heap.Field}
    (hop : Scc.Heap.loadValues h (toLoad.map kindOf) bw.toNat ff (modeMap mode) = .ok (h', vs))
    (hno : mode = .share → ∀ a, h'.mem.get a < 2 ^ 64) (k : Nat) :
    ∃ code k', (loadValues toLoad existing mb ff mode).run k = .ok (code, k') ∧ k ≤ k' ∧
      LabsIn code k k' ∧
      ∃ μ', mFwd cfg code μ = some (μ', .fall) ∧ HRelM cfg μ' h' ∧ EnvFields μ' existing.length toLoad vs ∧
        (∀ u, u ≠ 1 →
          (∀ m, 2 * existing.length ≤ m → m < 2 * (existing.length + toLoad.length) → u ≠ posReg m) →
          μ'.val u = μ.val u) := by
  unfold Scc.Heap.loadValues at hop
  rw [← List.map_reverse] at hop
  obtain ⟨cs, k', hr, hk, hl, μ', valsRev, x, H', hvs, hE, F⟩ := m_loadValuesLoop C (existing := existing) hm1 hm2
    hme hmb toLoad.reverse ff [] μ h h' vs k H (fun _ => hvb) (by simpa using hcap) hop hno
  rw [List.append_nil] at hvs
  subst hvs
  refine ⟨.COMMENT "###load values" :: cs, k', ?_, hk, hl.cons_other (by simp), μ',
    mFwd_seq cfg (a := [_]) (mFwd_comment cfg _ μ) x, H', envFields_of_rev _ _ _ hE,
    fun u hT hu => F u hT (by simpa using hu)⟩
  unfold loadValues
  rw [genm_bind hr]
  rfl

end Values

/-! ## the block part of load_fields -/

/-- the block part of `load_fields`: release the block / load the link / load the values -/
def loadLink (mb : Register) (ctxAll : Ctx) (pos : BlockPosition) : GenM (List Code) :=
  if pos == .other then do
    let c ← loadField .fst ctxAll mb (fieldsPerBlock - 1)
    pure [.COMMENT "###load link to next block", c]
  else pure []

def loadFieldsBlock (mb : Register) (toLoadNext ctxAll ctxRest : Ctx) (pos : BlockPosition)
    (mode : LoadMode) : GenM (List Code) := do
  let c3 ← loadLink mb ctxAll pos
  let c4 ← loadValues toLoadNext ctxRest mb (fieldsPerBlock - pos.toNat) mode
  pure ((if mode == .release then .COMMENT "###release block" :: releaseBlock mb else []) ++ c3 ++ c4)

theorem loadFields_nil (existing : Ctx) (pos : BlockPosition) (mode : LoadMode) :
    loadFields [] existing pos mode = pure [] := by
  rw [loadFields]; simp

/-- memory.rs load_fields, one level of the recursion -/
theorem loadFields_cons (toLoad existing : Ctx) (hne : toLoad ≠ []) (pos : BlockPosition) (mode : LoadMode) :
    loadFields toLoad existing pos mode = (do
      let c1 ← loadFields (toLoad.take (restLength toLoad.length pos)) existing .other mode
      let mb ← freshTemporary .fst (existing ++ toLoad.take (restLength toLoad.length pos))
      let cb ← loadFieldsBlock mb (toLoad.drop (restLength toLoad.length pos)) (existing ++ toLoad)
        (existing ++ toLoad.take (restLength toLoad.length pos)) pos mode
      pure (c1 ++ cb)) := by
  have hie : toLoad.isEmpty = false := by cases toLoad <;> simp_all
  rw [loadFields]
  simp only [hie, Bool.false_eq_true, dite_false, loadFieldsBlock, loadLink, bind_assoc, pure_bind,
    List.append_assoc]
  cases pos <;> simp

/-- the number of extra registers a block of position `pos` writes beyond its values: the link -/
def linkSlot (pos : BlockPosition) : Nat := if pos = .other then 1 else 0

section Block
variable {cfg : MonCfg}

/-- CONTRACT of the block part of `load_fields` (release the block / load the link / load the values)
for the memory block in register `mb` -/
theorem m_loadFieldsBlock (C : CfgOK cfg) {μ : MState} {s1 s2 s3 : Scc.Heap.HState} (H : HRelM cfg μ s1)
    {mb : Register} (hm1 : 4 ≤ mb.n) (hm2 : mb.n < 32) (hme : mb.n % 2 = 0) {wb : Word}
    (hvb : μ.val mb.n = some wb) {toLoadNext ctxAll ctxRest : Ctx}
    (hlenAll : ctxAll.length = ctxRest.length + toLoadNext.length) (hne : toLoadNext ≠ [])
    (hcap : 2 * ctxAll.length ≤ 28) {pos : BlockPosition} {mode : LoadMode}
    (hcapO : pos = .other → 2 * ctxAll.length < 28)
    (hmb : ∀ j, 1 ≤ j → posReg (2 * (ctxRest.length + j)) ≠ mb.n)
    (hrel : (match modeMap mode with
      | .release => Scc.Heap.releaseBlock s1 wb.toNat
      | .share => .ok s1) = .ok s2) {link : Nat}
    (hlink : (if posMap pos = .other then Scc.Heap.rd s2 (wb.toNat + Scc.Heap.fstOff (Scc.Heap.fieldsPerBlock - 1))
      else .ok 0) = .ok link) {vals2 : List Scc.Heap.Field}
    (hlv : Scc.Heap.loadValues s2 (toLoadNext.map kindOf) wb.toNat
      (Scc.Heap.fieldsPerBlock - (posMap pos).toNat) (modeMap mode) = .ok (s3, vals2))
    (hno : mode = .share → ∀ a, s3.mem.get a < 2 ^ 64) (k : Nat) :
    ∃ code k', (loadFieldsBlock mb toLoadNext ctxAll ctxRest pos mode).run k = .ok (code, k') ∧ k ≤ k' ∧
      LabsIn code k k' ∧
      ∃ μ', mFwd cfg code μ = some (μ', .fall) ∧ HRelM cfg μ' s3 ∧
        EnvFields μ' ctxRest.length toLoadNext vals2 ∧
        (pos = .other → ∃ lw, μ'.val (posReg (2 * ctxAll.length)) = some lw ∧ lw.toNat = link) ∧
        (∀ u, u ≠ 1 → u ≠ 2 →
          (∀ m, 2 * ctxRest.length ≤ m → m < 2 * ctxAll.length + linkSlot pos → u ≠ posReg m) →
          μ'.val u = μ.val u) := by
  have hrdm : ∀ ν : MState, ν.rd mb = ν.val mb.n := fun ν => MState.rd_of (by omega) hm2
  have hm0 : ¬ mb.n = 0 := by omega
  have hmH : mb.n ≠ 2 := by omega
  have hnpos : 1 ≤ toLoadNext.length := List.length_pos_iff.mpr hne
  -- (1) release
  have step1 : ∃ c1 μ1, c1 = (if mode == .release then Code.COMMENT "###release block" :: releaseBlock mb else []) ∧
      NoLab c1 ∧ mFwd cfg c1 μ = some (μ1, .fall) ∧ HRelM cfg μ1 s2 ∧
      (∀ u, u ≠ 2 → μ1.val u = μ.val u) := by
    cases mode with
    | share =>
      simp only [modeMap, Except.ok.injEq] at hrel
      subst hrel
      exact ⟨[], μ, rfl, noLab_nil, mFwd_nil cfg μ, H, fun _ _ => rfl⟩
    | release =>
      simp only [modeMap, Scc.Heap.releaseBlock] at hrel
      cases hw : Scc.Heap.wr s1 wb.toNat s1.heap with
      | error e => simp [hw] at hrel
      | ok sx =>
        simp only [hw, Except.ok.injEq] at hrel
        subst hrel
        obtain ⟨hok, rfl⟩ := wr_eq_ok.1 hw
        obtain ⟨wH, hH, eH⟩ := H.heap
        have ha : haddr cfg wb 0 = some wb.toNat := haddr_ok0 C H hok
        refine ⟨Code.COMMENT "###release block" :: releaseBlock mb,
          (μ.setH wb.toNat wH).setT 2 (some wb), rfl, ?_, ?_, ?_, ?_⟩
        · intro l; simp [releaseBlock]
        · simp [releaseBlock, mFwd_cons, mFwd_nil, mcont, mexecC, mexec, MState.rd, hm0, hm2, hvb, ha, hH]
        · obtain ⟨wf, hwf, ewf⟩ := H.free
          have := H.setH wb.toNat wH
          rw [eH] at this
          exact ⟨this.base, this.limit, this.mem, ⟨wb, by simp, rfl⟩, ⟨wf, by simp [hwf], ewf⟩⟩
        · intro u hu; simp [hu]
  obtain ⟨c1, μ1, hc1, hn1, x1, H1, F1⟩ := step1
  have hvb1 : μ1.val mb.n = some wb := by rw [F1 _ hmH]; exact hvb
  -- (2) the link
  have hlt : posReg (2 * ctxAll.length) ≠ mb.n := by
    have := hmb toLoadNext.length hnpos
    rwa [← hlenAll] at this
  obtain ⟨l1, l2, l3, _⟩ := posReg_ne_low (2 * ctxAll.length)
  have step2 : ∃ c2 μ2, (loadLink mb ctxAll pos).run k = .ok (c2, k) ∧
      NoLab c2 ∧ mFwd cfg c2 μ1 = some (μ2, .fall) ∧ HRelM cfg μ2 s2 ∧
      (pos = .other → ∃ lw, μ2.val (posReg (2 * ctxAll.length)) = some lw ∧ lw.toNat = link) ∧
      (∀ u, (pos = .other → u ≠ posReg (2 * ctxAll.length)) → μ2.val u = μ1.val u) := by
    cases pos with
    | last =>
      exact ⟨[], μ1, rfl, noLab_nil, mFwd_nil cfg μ1, H1, (fun e => by cases e), fun _ _ => rfl⟩
    | other =>
      simp only [posMap, if_true] at hlink
      have hcl := hcapO rfl
      obtain ⟨lw, x2, elw⟩ := m_loadFieldCode C H1 (n := 2 * ctxAll.length) hcl (mb := mb)
        (by rw [hrdm]; exact hvb1) (off := Scc.Heap.fstOff (Scc.Heap.fieldsPerBlock - 1)) hlink
      refine ⟨[Code.COMMENT "###load link to next block",
          .LW (posTemp (2 * ctxAll.length)) mb ((Scc.Heap.fstOff (Scc.Heap.fieldsPerBlock - 1) : Nat) : Int)],
        μ1.setT (posReg (2 * ctxAll.length)) (some lw), ?_, (fun l => by simp), ?_, H1.setT l2 l3 _,
        fun _ => ⟨lw, by simp, elw⟩, fun u hu => by simp [hu rfl]⟩
      · simp only [loadLink, beq_self_eq_true, if_true]
        rw [genm_bind (loadField_run .fst ctxAll mb (fieldsPerBlock - 1) k (by simp [TempNum.toNat]; omega))]
        simp only [TempNum.toNat, Nat.add_zero]
        rw [fieldOffset_fst]
        rfl
      · exact mFwd_seq cfg (a := [_]) (mFwd_comment cfg _ μ1) x2
  obtain ⟨c2, μ2, hr2, hn2, x2, H2, hlk, F2⟩ := step2
  have hvb2 : μ2.val mb.n = some wb := by rw [F2 _ (fun _ => Ne.symm hlt)]; exact hvb1
  -- (3) the values
  rw [← fpb_eq] at hlv
  obtain ⟨c3, k', hr3, hk3, hl3, μ3, x3, H3, hE3, F3⟩ := m_loadValues C H2 (existing := ctxRest) hm1 hm2 hme hvb2 hmb
    (by rw [← hlenAll]; exact hcap) (ff := fieldsPerBlock - pos.toNat) hlv hno k
  refine ⟨c1 ++ c2 ++ c3, k', ?_, hk3, ((hn1.labsIn _ _).append (hn2.labsIn _ _)).append hl3, μ3,
    mFwd_seq cfg (mFwd_seq cfg x1 x2) x3, H3, hE3, ?_, ?_⟩
  · unfold loadFieldsBlock
    rw [genm_bind hr2, genm_bind hr3, hc1]
    rfl
  · intro hp
    obtain ⟨lw, hlw, elw⟩ := hlk hp
    refine ⟨lw, ?_, elw⟩
    rw [F3 _ l1 (fun m _ h2 e => by have := posReg_inj.1 e; omega)]
    exact hlw
  · intro u hT hH hu
    rw [F3 u hT (fun m h1 h2 => hu m h1 (by omega)), F2 u (fun hp => hu _ (by omega) (by simp [linkSlot, hp])),
      F1 u hH]

end Block

/-! ## load_fields: the recursion over the blocks of a chain -/

theorem heap_loadFields_nil (s : Scc.Heap.HState) (pos : Scc.Heap.BlockPosition) (mode : Scc.Heap.LoadMode)
    (p : Nat) : Scc.Heap.loadFields s [] pos mode p = .ok (s, [], p) := by
  rw [Scc.Heap.loadFields]; simp

theorem heap_loadFields_cons (s : Scc.Heap.HState) (kinds : List Bool) (hne : kinds ≠ [])
    (pos : Scc.Heap.BlockPosition) (mode : Scc.Heap.LoadMode) (p : Nat) :
    Scc.Heap.loadFields s kinds pos mode p =
      match Scc.Heap.loadFields s (kinds.take (Scc.Heap.restLength kinds.length pos)) .other mode p with
      | .error e => .error e
      | .ok (s1, vals1, blk) =>
        match (match mode with
               | .release => Scc.Heap.releaseBlock s1 blk
               | .share => .ok s1) with
        | .error e => .error e
        | .ok s2 =>
          match (if pos = .other then Scc.Heap.rd s2 (blk + Scc.Heap.fstOff (Scc.Heap.fieldsPerBlock - 1))
                 else .ok 0) with
          | .error e => .error e
          | .ok link =>
            match Scc.Heap.loadValues s2 (kinds.drop (Scc.Heap.restLength kinds.length pos)) blk
                (Scc.Heap.fieldsPerBlock - pos.toNat) mode with
            | .error e => .error e
            | .ok (s3, vals2) => .ok (s3, vals1 ++ vals2, link) := by
  rw [Scc.Heap.loadFields]; simp only [dif_neg hne]; rfl

section Fields
variable {cfg : MonCfg}

/-- CONTRACT of `load_fields` on the view: ANY number of fields (the recursion goes down the chain of
blocks first), release and share mode. -/
theorem m_loadFields (C : CfgOK cfg) : ∀ (n : Nat) (toLoad existing : Ctx) (pos : BlockPosition)
    (mode : LoadMode) (p : Nat) (μ : MState) (h h' : Scc.Heap.HState)
    (vals : List Scc.Heap.Field) (link k : Nat),
    toLoad.length < n → HRelM cfg μ h → 2 * (existing.length + toLoad.length) ≤ 28 →
    (pos = .other → 2 * (existing.length + toLoad.length) < 28) →
    (∃ pw, μ.val (posReg (2 * existing.length)) = some pw ∧ pw.toNat = p) →
    Scc.Heap.loadFields h (toLoad.map kindOf) (posMap pos) (modeMap mode) p = .ok (h', vals, link) →
    (mode = .share → ∀ a, h'.mem.get a < 2 ^ 64) →
    ∃ code k', (loadFields toLoad existing pos mode).run k = .ok (code, k') ∧ k ≤ k' ∧
      LabsIn code k k' ∧
      ∃ μ', mFwd cfg code μ = some (μ', .fall) ∧ HRelM cfg μ' h' ∧
        EnvFields μ' existing.length toLoad vals ∧
        (pos = .other → ∃ lw, μ'.val (posReg (2 * (existing.length + toLoad.length))) = some lw ∧
          lw.toNat = link) ∧
        (∀ u, u ≠ 1 → u ≠ 2 →
          (∀ m, 2 * existing.length ≤ m → m < 2 * (existing.length + toLoad.length) + linkSlot pos →
            u ≠ posReg m) →
          μ'.val u = μ.val u) := by
  intro n
  induction n with
  | zero => intro toLoad _ _ _ _ _ _ _ _ _ _ hf; exact absurd hf (Nat.not_lt_zero _)
  | succ n ih =>
    intro toLoad existing pos mode p μ h h' vals link k hfuel H hcap hcapO hp hop hno
    by_cases hne : toLoad = []
    · -- nothing (more) to load
      subst hne
      simp only [List.map_nil, heap_loadFields_nil, Except.ok.injEq, Prod.mk.injEq] at hop
      obtain ⟨rfl, rfl, rfl⟩ := hop
      rw [loadFields_nil]
      exact ⟨[], k, genm_pure _ k, Nat.le_refl _, LabsIn.nil _ _, μ, mFwd_nil cfg μ, H,
        trivial, fun _ => by simpa using hp, fun _ _ _ _ => rfl⟩
    · have hpos : 0 < toLoad.length := List.length_pos_iff.mpr hne
      have hkne : toLoad.map kindOf ≠ [] := by simpa using hne
      rw [heap_loadFields_cons _ _ hkne, List.length_map, ← restLength_eq] at hop
      have hrlt : restLength toLoad.length pos < toLoad.length := by
        rw [restLength_eq]; exact Scc.Heap.restLength_lt _ _ hpos
      rw [loadFields_cons _ _ hne]
      generalize restLength toLoad.length pos = rl at hop hrlt ⊢
      have hlt2 : (toLoad.take rl).length = rl := by simp [List.length_take]; omega
      have hlt : (existing ++ toLoad.take rl).length = existing.length + rl := by simp [hlt2]
      have hla : (existing ++ toLoad).length = existing.length + toLoad.length := by simp
      have hdl : (toLoad.drop rl).length = toLoad.length - rl := by simp
      have hdne : toLoad.drop rl ≠ [] := fun e => by
        have := congrArg List.length e; simp at this; omega
      -- the deeper blocks
      cases hdeep : Scc.Heap.loadFields h ((toLoad.map kindOf).take rl) .other (modeMap mode) p with
      | error e => simp [hdeep] at hop
      | ok r1 =>
        obtain ⟨s1, vals1, blk⟩ := r1
        simp only [hdeep] at hop
        cases hrel : (match modeMap mode with
            | .release => Scc.Heap.releaseBlock s1 blk
            | .share => .ok s1) with
        | error e => simp [hrel] at hop
        | ok s2 =>
          simp only [hrel] at hop
          cases hlk : (if posMap pos = .other then
              Scc.Heap.rd s2 (blk + Scc.Heap.fstOff (Scc.Heap.fieldsPerBlock - 1)) else .ok 0) with
          | error e => simp [hlk] at hop
          | ok link' =>
            simp only [hlk] at hop
            cases hlv : Scc.Heap.loadValues s2 ((toLoad.map kindOf).drop rl) blk
                (Scc.Heap.fieldsPerBlock - (posMap pos).toNat) (modeMap mode) with
            | error e => simp [hlv] at hop
            | ok r3 =>
              obtain ⟨s3, vals2⟩ := r3
              simp only [hlv, Except.ok.injEq, Prod.mk.injEq] at hop
              obtain ⟨rfl, rfl, rfl⟩ := hop
              rw [← List.map_take] at hdeep
              rw [← List.map_drop] at hlv
              have hno1 : mode = .share → ∀ a, s1.mem.get a < 2 ^ 64 := by
                intro hm a
                subst hm
                simp only [modeMap, Except.ok.injEq] at hrel
                subst hrel
                exact Nat.lt_of_le_of_lt (loadValues_mono hlv a) (hno rfl a)
              obtain ⟨c0, k1, hr0, hk1, hl0, μa, xa, Ha, Ea, La, Fa⟩ :=
                ih (toLoad.take rl) existing .other mode p μ h s1 vals1 blk k (by rw [hlt2]; omega) H
                  (by rw [hlt2]; omega) (fun _ => by rw [hlt2]; omega) hp hdeep hno1
              rw [hlt2] at La Fa
              obtain ⟨wb, hwb, ewb⟩ := La rfl
              subst ewb
              rw [genm_bind hr0, genm_bind (freshTemporary_run k1 (by rw [hlt]; simp [TempNum.toNat]; omega))]
              simp only [TempNum.toNat, Nat.add_zero, hlt]
              obtain ⟨cb, k', hrb, hkb, hlb, μ', xb, H', Eb, Lb, Fb⟩ := m_loadFieldsBlock C Ha
                (mb := posTemp (2 * (existing.length + rl))) (by simp [posReg]) (by simp [posReg]; omega)
                (by show (2 * (existing.length + rl) + 4) % 2 = 0; omega) (by simpa using hwb)
                (toLoadNext := toLoad.drop rl) (ctxAll := existing ++ toLoad)
                (ctxRest := existing ++ toLoad.take rl) (by rw [hla, hlt, hdl]; omega) hdne
                (by rw [hla]; exact hcap) (pos := pos) (mode := mode) (by rw [hla]; exact hcapO)
                (fun j hj => by rw [hlt]; simp only [posTemp_n]; intro e; have := posReg_inj.1 e; omega)
                hrel hlk hlv hno k1
              rw [genm_bind hrb]
              refine ⟨c0 ++ cb, k', genm_pure _ _, by omega,
                (hl0.mono (Nat.le_refl _) hkb).append (hlb.mono hk1 (Nat.le_refl _)),
                μ', mFwd_seq cfg xa xb, H', ?_, ?_, ?_⟩
              · have e1 : EnvFields μ' existing.length (toLoad.take rl) vals1 :=
                  Ea.congr (fun m h1 h2 => by
                    rw [hlt2] at h2
                    obtain ⟨n1, n2, _, _⟩ := posReg_ne_low m
                    exact Fb _ n1 n2 (fun m' h1' _ e => by have := posReg_inj.1 e; rw [hlt] at h1'; omega))
                have := e1.append (by rw [hlt2, ← hlt]; exact Eb)
                rwa [List.take_append_drop] at this
              · intro hp'
                obtain ⟨lw, hlw, elw⟩ := Lb hp'
                rw [← hla]
                exact ⟨lw, hlw, elw⟩
              · intro u hT hH hu
                rw [Fb u hT hH (fun m' h1' h2' => hu m' (by rw [hlt] at h1'; omega) (by rw [hla] at h2'; exact h2'))]
                exact Fa u hT hH (fun m' h1' h2' => hu m' h1' (by simp [linkSlot] at h2'; omega))

end Fields

/-! ## the generators succeed within the capacity (needed for the branch that does not run) -/

theorem loadValue_gen (b : Binding) (ctx : Ctx) (mb : Register) (off : Nat) (mode : LoadMode) (k : Nat)
    (hcap : 2 * ctx.length + 1 < 28) :
    ∃ code k', (loadValue b ctx mb off mode).run k = .ok (code, k') ∧ k ≤ k' ∧ LabsIn code k k' := by
  unfold loadValue
  rw [genm_bind (loadField_run .snd ctx mb off k (by simpa [TempNum.toNat] using hcap))]
  by_cases hχ : (b.chi != .ext) = true
  · simp only [hχ, if_true]
    rw [genm_bind (loadField_run .fst ctx mb off k (by simp [TempNum.toNat]; omega))]
    cases mode with
    | release =>
      have : (LoadMode.release == LoadMode.share) = false := rfl
      simp only [this, Bool.false_eq_true, if_false]
      exact ⟨_, k, genm_pure _ k, Nat.le_refl _, LabsIn.of_noLab _ _ (fun l => by simp)⟩
    | share =>
      simp only [beq_self_eq_true, if_true]
      rw [genm_bind (freshTemporary_run k (by simp [TempNum.toNat]; omega)), genm_bind (shareBlock_run _ k)]
      exact ⟨_, k + 1, genm_pure _ _, by omega,
        (LabsIn.of_noLab _ _ (fun l => by simp)).append (labsIn_shareCode _ k)⟩
  · simp only [hχ, Bool.false_eq_true, if_false]
    exact ⟨_, k, genm_pure _ k, Nat.le_refl _, LabsIn.of_noLab _ _ (fun l => by simp)⟩

theorem loadValuesLoop_gen (existing : Ctx) (mb : Register) (mode : LoadMode) :
    ∀ (bsRev : List Binding) (ff k : Nat),
    2 * (existing.length + bsRev.length) ≤ 28 → bsRev.length ≤ ff →
    ∃ code k', (loadValuesLoop existing mb mode bsRev ff).run k = .ok (code, k') ∧ k ≤ k' ∧ LabsIn code k k' := by
  intro bsRev
  induction bsRev with
  | nil => intro ff k _ _; exact ⟨[], k, rfl, Nat.le_refl _, LabsIn.nil _ _⟩
  | cons b rest ih =>
    intro ff k hcap hff
    simp only [List.length_cons] at hcap hff
    cases ff with
    | zero => omega
    | succ ff =>
      obtain ⟨c1, k1, hr1, hk1, hl1⟩ := loadValue_gen b (existing ++ rest.reverse) mb ff mode k (by simp; omega)
      obtain ⟨c2, k2, hr2, hk2, hl2⟩ := ih ff k1 (by omega) (by omega)
      refine ⟨c1 ++ c2, k2, ?_, by omega, (hl1.mono (Nat.le_refl _) hk2).append (hl2.mono hk1 (Nat.le_refl _))⟩
      simp only [loadValuesLoop]
      rw [genm_bind (show (pred1 (ff + 1)).run k = .ok (ff, k) from rfl), genm_bind hr1, genm_bind hr2]
      rfl

theorem loadValues_gen (toLoad existing : Ctx) (mb : Register) (ff : Nat) (mode : LoadMode) (k : Nat)
    (hcap : 2 * (existing.length + toLoad.length) ≤ 28) (hff : toLoad.length ≤ ff) :
    ∃ code k', (loadValues toLoad existing mb ff mode).run k = .ok (code, k') ∧ k ≤ k' ∧ LabsIn code k k' := by
  obtain ⟨cs, k', hr, hk, hl⟩ := loadValuesLoop_gen existing mb mode toLoad.reverse ff k (by simpa using hcap)
    (by simpa using hff)
  refine ⟨.COMMENT "###load values" :: cs, k', ?_, hk, hl.cons_other (by simp)⟩
  unfold loadValues
  rw [genm_bind hr]
  rfl

theorem loadFieldsBlock_gen (mb : Register) (toLoadNext ctxAll ctxRest : Ctx) (pos : BlockPosition)
    (mode : LoadMode) (k : Nat) (hlenAll : ctxAll.length = ctxRest.length + toLoadNext.length)
    (hcap : 2 * ctxAll.length ≤ 28) (hcapO : pos = .other → 2 * ctxAll.length < 28)
    (hff : toLoadNext.length ≤ fieldsPerBlock - pos.toNat) :
    ∃ code k', (loadFieldsBlock mb toLoadNext ctxAll ctxRest pos mode).run k = .ok (code, k') ∧ k ≤ k' ∧
      LabsIn code k k' := by
  obtain ⟨c3, k', hr3, hk3, hl3⟩ := loadValues_gen toLoadNext ctxRest mb (fieldsPerBlock - pos.toNat) mode k
    (by omega) hff
  have hn1 : NoLab (if mode == LoadMode.release then Code.COMMENT "###release block" :: releaseBlock mb else []) := by
    intro l; split <;> simp [releaseBlock]
  unfold loadFieldsBlock loadLink
  cases pos with
  | last =>
    have : (BlockPosition.last == BlockPosition.other) = false := rfl
    simp only [this, Bool.false_eq_true, if_false]
    rw [genm_bind (genm_pure _ k), genm_bind hr3]
    exact ⟨_, k', genm_pure _ _, hk3, ((hn1.labsIn _ _).append (LabsIn.nil _ _)).append hl3⟩
  | other =>
    simp only [beq_self_eq_true, if_true]
    have := hcapO rfl
    rw [genm_bind (genm_bind (loadField_run .fst ctxAll mb (fieldsPerBlock - 1) k
      (by simp [TempNum.toNat]; omega))), genm_bind hr3]
    exact ⟨_, k', genm_pure _ _, hk3, ((hn1.labsIn _ _).append
      (LabsIn.of_noLab _ _ (fun l => by simp))).append hl3⟩

theorem sub_restLength_le (m : Nat) (pos : BlockPosition) :
    m - restLength m pos ≤ fieldsPerBlock - pos.toNat := by
  unfold restLength
  split <;> omega

theorem loadFields_gen : ∀ (n : Nat) (toLoad existing : Ctx) (pos : BlockPosition) (mode : LoadMode)
    (k : Nat), toLoad.length < n → 2 * (existing.length + toLoad.length) ≤ 28 →
    (pos = .other → 2 * (existing.length + toLoad.length) < 28) →
    ∃ code k', (loadFields toLoad existing pos mode).run k = .ok (code, k') ∧ k ≤ k' ∧
      LabsIn code k k' := by
  intro n
  induction n with
  | zero => intro toLoad _ _ _ _ hf; exact absurd hf (Nat.not_lt_zero _)
  | succ n ih =>
    intro toLoad existing pos mode k hfuel hcap hcapO
    by_cases hne : toLoad = []
    · subst hne
      rw [loadFields_nil]
      exact ⟨[], k, genm_pure _ k, Nat.le_refl _, LabsIn.nil _ _⟩
    · have hpos : 0 < toLoad.length := List.length_pos_iff.mpr hne
      have hrlt : restLength toLoad.length pos < toLoad.length := by
        rw [restLength_eq]; exact Scc.Heap.restLength_lt _ _ hpos
      have hsub := sub_restLength_le toLoad.length pos
      rw [loadFields_cons _ _ hne]
      generalize restLength toLoad.length pos = rl at hrlt hsub ⊢
      have hlt2 : (toLoad.take rl).length = rl := by simp [List.length_take]; omega
      have hlt : (existing ++ toLoad.take rl).length = existing.length + rl := by simp [hlt2]
      have hla : (existing ++ toLoad).length = existing.length + toLoad.length := by simp
      have hdl : (toLoad.drop rl).length = toLoad.length - rl := by simp
      obtain ⟨c0, k1, hr0, hk1, hl0⟩ := ih (toLoad.take rl) existing .other mode k (by rw [hlt2]; omega)
        (by rw [hlt2]; omega) (fun _ => by rw [hlt2]; omega)
      rw [genm_bind hr0, genm_bind (freshTemporary_run k1 (by rw [hlt]; simp [TempNum.toNat]; omega))]
      obtain ⟨cb, k', hrb, hkb, hlb⟩ := loadFieldsBlock_gen
        (posTemp (2 * (existing ++ toLoad.take rl).length + TempNum.fst.toNat)) (toLoad.drop rl) (existing ++ toLoad)
        (existing ++ toLoad.take rl) pos mode k1 (by rw [hla, hlt, hdl]; omega) (by rw [hla]; exact hcap)
        (by rw [hla]; exact hcapO) (by rw [hdl]; exact hsub)
      rw [genm_bind hrb]
      exact ⟨_, k', genm_pure _ _, by omega, (hl0.mono (Nat.le_refl _) hkb).append (hlb.mono hk1 (Nat.le_refl _))⟩

/-! ## Memory::load -/

/-- memory.rs load: shape of the code, given the two runs of `load_fields` -/
theorem load_run (toLoad existing : Ctx) (hne : toLoad ≠ []) (hcap : 2 * existing.length < 28)
    {k kT kE : Nat} {cT cE : List Code}
    (hT : (loadFields toLoad existing .last .release).run k = .ok (cT, kT))
    (hE : (loadFields toLoad existing .last .share).run kT = .ok (cE, kE)) :
    (load toLoad existing).run k =
      .ok ([.COMMENT "#load from memory", .LW TEMP (posTemp (2 * existing.length)) referenceCountOffset] ++
        [.COMMENT "##check refcount"] ++
        ([.BEQ TEMP ZERO (labName (kE + 1))] ++
          ([.COMMENT "##either decrement refcount and share children...", .ADDI TEMP TEMP (-1),
            .SW TEMP (posTemp (2 * existing.length)) referenceCountOffset] ++ cE) ++
          [.JAL ZERO (labName (kE + 2)), .LAB (labName (kE + 1))] ++
          (.COMMENT "##... or release blocks onto linear free list when loading" :: cT) ++
          [.LAB (labName (kE + 2))]), kE + 2) := by
  have hie : toLoad.isEmpty = false := by cases toLoad <;> simp_all
  unfold load
  simp only [hie, Bool.false_eq_true, if_false]
  rw [genm_bind (freshTemporary_run k (by simpa [TempNum.toNat] using hcap))]
  simp only [TempNum.toNat, Nat.add_zero]
  rw [genm_bind hT, genm_bind hE, genm_bind (ifZeroThenElse_run TEMP _ _ kE)]
  rfl

section Load
variable {cfg : MonCfg}

/-- CONTRACT of `load` on the view: unique branch (count 0) and shared branch (count > 0), ANY number
of fields -/
theorem m_load (C : CfgOK cfg) {μ : MState} {h h' : Scc.Heap.HState} (H : HRelM cfg μ h)
    {toLoad existing : Ctx} (hcap : 2 * (existing.length + toLoad.length) ≤ 28) {pw : Word}
    (hp : μ.val (posReg (2 * existing.length)) = some pw) {vals : List Scc.Heap.Field}
    (hop : Scc.Heap.loadObj h pw.toNat (toLoad.map kindOf) = .ok (h', vals))
    (hno : h.mem.get pw.toNat ≠ 0 → ∀ a, h'.mem.get a < 2 ^ 64) (k : Nat) :
    ∃ code k', (load toLoad existing).run k = .ok (code, k') ∧ k ≤ k' ∧ LabsIn code k k' ∧
      ∃ μ', mFwd cfg code μ = some (μ', .fall) ∧ HRelM cfg μ' h' ∧ EnvFields μ' existing.length toLoad vals ∧
        (∀ u, u ≠ 1 → u ≠ 2 →
          (∀ m, 2 * existing.length ≤ m → m < 2 * (existing.length + toLoad.length) → u ≠ posReg m) →
          μ'.val u = μ.val u) := by
  by_cases hne : toLoad = []
  · subst hne
    simp only [List.map_nil, Scc.Heap.loadObj, if_true, Except.ok.injEq, Prod.mk.injEq] at hop
    obtain ⟨rfl, rfl⟩ := hop
    exact ⟨[], k, rfl, Nat.le_refl _, LabsIn.nil _ _, μ, mFwd_nil cfg μ, H, trivial, fun _ _ _ _ => rfl⟩
  · have hkne : toLoad.map kindOf ≠ [] := by simpa using hne
    have hpos : 0 < toLoad.length := List.length_pos_iff.mpr hne
    have hc0 : 2 * existing.length < 28 := by omega
    obtain ⟨t1, t2, t3, t0⟩ := posReg_ne_low (2 * existing.length)
    have ht32 : posReg (2 * existing.length) < 32 := by unfold posReg; omega
    -- the two runs of load_fields
    obtain ⟨cT, kT, hrT, hkT, hlT⟩ := loadFields_gen (toLoad.length + 1) toLoad existing .last .release k
      (Nat.lt_succ_self _) hcap (fun e => by cases e)
    obtain ⟨cE, kE, hrE, hkE, hlE⟩ := loadFields_gen (toLoad.length + 1) toLoad existing .last .share kT
      (Nat.lt_succ_self _) hcap (fun e => by cases e)
    have hrun := load_run toLoad existing hne hc0 hrT hrE
    have l12 : labName (kE + 1) ≠ labName (kE + 2) := fun e => by have := labName_inj.mp e; omega
    simp only [Scc.Heap.loadObj, hkne, if_false] at hop
    cases hrd : Scc.Heap.rd h pw.toNat with
    | error e => simp [hrd] at hop
    | ok cnt =>
      simp only [hrd] at hop
      obtain ⟨hok, hcnt⟩ := rd_eq_ok.1 hrd
      have ha : haddr cfg pw 0 = some pw.toNat := haddr_ok0 C H hok
      -- the count is fetched into TEMP
      have e1 : mFwd cfg ([.COMMENT "#load from memory",
          .LW TEMP (posTemp (2 * existing.length)) referenceCountOffset] ++ [.COMMENT "##check refcount"]) μ =
          some (μ.setT 1 (some (μ.heap pw.toNat)), .fall) := by
        simp [mFwd_cons, mFwd_nil, mcont, mexecC, mexec, MState.rd, t0, ht32, hp, ha]
      have H1 : HRelM cfg (μ.setT 1 (some (μ.heap pw.toNat))) h := H.setT (by decide) (by decide) _
      have hp1 : (μ.setT 1 (some (μ.heap pw.toNat))).val (posReg (2 * existing.length)) = some pw := by
        simp [t1, hp]
      refine ⟨_, kE + 2, hrun, by omega, ?_, ?_⟩
      · refine LabsIn.append (LabsIn.of_noLab _ _ (by simp)) ?_
        refine LabsIn.append (LabsIn.append (LabsIn.append (LabsIn.append (LabsIn.of_noLab _ _ (by simp)) ?_) ?_) ?_) ?_
        · exact (LabsIn.of_noLab _ _ (by simp)).append (hlE.mono hkT (by omega))
        · exact ((LabsIn.nil _ _).cons_lab (n := kE + 1) (by omega) (by omega)).cons_other (by simp)
        · exact (hlT.mono (Nat.le_refl _) (by omega)).cons_other (by simp)
        · exact (LabsIn.nil _ _).cons_lab (by omega) (by omega)
      · rw [mFwd_pre cfg e1]
        by_cases hz : cnt = 0
        · -- unique: release the blocks, move the children
          subst hz
          have hx0 : μ.heap pw.toNat = 0#64 := BitVec.eq_of_toNat_eq (by rw [← H.mem, ← hcnt]; rfl)
          simp only [if_true] at hop
          cases hlf : Scc.Heap.loadFields h (toLoad.map kindOf) .last .release pw.toNat with
          | error e => simp [hlf] at hop
          | ok r =>
            obtain ⟨s1, vs, lk⟩ := r
            simp only [hlf, Except.ok.injEq, Prod.mk.injEq] at hop
            obtain ⟨rfl, rfl⟩ := hop
            rw [hx0] at H1 hp1 ⊢
            obtain ⟨code, k', hr, _, _, μ', x, H', E', _, F'⟩ := m_loadFields C (toLoad.length + 1) toLoad existing
              .last .release pw.toNat _ h s1 vs lk k (Nat.lt_succ_self _) H1 hcap (fun e => by cases e)
              ⟨pw, hp1, rfl⟩ hlf (fun e => by cases e)
            rw [hrT] at hr
            simp only [Except.ok.injEq, Prod.mk.injEq] at hr
            obtain ⟨rfl, rfl⟩ := hr
            refine ⟨μ', ?_, H', E', fun u hT hH hu => ?_⟩
            · refine mFwd_ite_then cfg TEMP _ _ _ _ _ _ (by simp [MState.rd]) ?_
                (mFwd_seq cfg (a := [_]) (mFwd_comment cfg _ _) x)
              rw [skipTo_append]
              simp only [skipTo]
              exact hlE.skipTo_none (Or.inr (by omega))
            · rw [F' u hT hH (fun m h1 h2 => hu m h1 (by simpa [linkSlot] using h2))]
              simp [hT]
        · -- shared: decrement, share the children
          have hx0 : ¬ μ.heap pw.toNat = 0#64 := fun e => hz (by rw [hcnt, H.mem, e]; rfl)
          rw [if_neg hz] at hop
          cases hwr : Scc.Heap.wr h pw.toNat (cnt - 1) with
          | error e => simp [hwr] at hop
          | ok s0 =>
            simp only [hwr] at hop
            obtain ⟨_, rfl⟩ := wr_eq_ok.1 hwr
            cases hlf : Scc.Heap.loadFields { h with mem := h.mem.set pw.toNat (cnt - 1) } (toLoad.map kindOf)
                .last .share pw.toNat with
            | error e => simp [hlf] at hop
            | ok r =>
              obtain ⟨s1, vs, lk⟩ := r
              simp only [hlf, Except.ok.injEq, Prod.mk.injEq] at hop
              obtain ⟨rfl, rfl⟩ := hop
              have hw : (μ.heap pw.toNat + imm (-1)).toNat = cnt - 1 := by
                rw [toNat_add_neg_one _ hx0, hcnt, H.mem]
              let μ2 : MState := ((μ.setT 1 (some (μ.heap pw.toNat))).setT 1
                (some (μ.heap pw.toNat + imm (-1)))).setH pw.toNat (μ.heap pw.toNat + imm (-1))
              have H2 : HRelM cfg μ2 { h with mem := h.mem.set pw.toNat (cnt - 1) } := by
                have := (H1.setT (t := 1) (by decide) (by decide) (some (μ.heap pw.toNat + imm (-1)))).setH
                  pw.toNat (μ.heap pw.toNat + imm (-1))
                rw [hw] at this
                exact this
              have hp2 : μ2.val (posReg (2 * existing.length)) = some pw := by
                simp [μ2, t1, hp]
              have x2 : mFwd cfg [.COMMENT "##either decrement refcount and share children...",
                  .ADDI TEMP TEMP (-1), .SW TEMP (posTemp (2 * existing.length)) referenceCountOffset]
                  (μ.setT 1 (some (μ.heap pw.toNat))) = some (μ2, .fall) := by
                simp [mFwd_cons, mFwd_nil, mcont, mexecC, mexec, MState.rd, t0, t1, ht32, hp, ha, μ2]
              obtain ⟨code, k', hr, _, _, μ', x, H', E', _, F'⟩ := m_loadFields C (toLoad.length + 1) toLoad
                existing .last .share pw.toNat μ2 _ s1 vs lk kT (Nat.lt_succ_self _) H2 hcap
                (fun e => by cases e) ⟨pw, hp2, rfl⟩ hlf (fun _ => hno (by rw [← hcnt]; exact hz))
              rw [hrE] at hr
              simp only [Except.ok.injEq, Prod.mk.injEq] at hr
              obtain ⟨rfl, rfl⟩ := hr
              refine ⟨μ', ?_, H', E', fun u hT hH hu => ?_⟩
              · refine mFwd_ite_else cfg TEMP _ _ _ _ _ _ (a := μ.heap pw.toNat) (by simp [MState.rd]) hx0 l12 ?_
                  (mFwd_seq cfg x2 x)
                simp only [skipTo]
                exact hlT.skipTo_none (Or.inr (by omega))
              · rw [F' u hT hH (fun m h1 h2 => hu m h1 (by simpa [linkSlot] using h2))]
                simp [μ2, hT]

end Load

/-! ## Memory::load on the machine -/

/-- CONTRACT of `load` (memory.rs Memory::load) on the RV64 machine, for ANY number of fields: the
object whose pointer is in the first register of position `|existing|` is unpacked into the variables
`toLoad` (positions `|existing| …`) exactly as `Scc.Heap.loadObj` does on the abstract heap — unique
branch (count 0): the blocks of the chain go back onto the linear free list, the children move; shared
branch (count > 0): the count is decremented and every pointer child gets one more reference.  From
every boundary state representing a heap on which the model succeeds, the code runs to its end; the
final state is a boundary state, represents the model's result heap, and the variables hold the loaded
fields (`EnvFieldsM`).
Changed: TEMP, HEAP, the heap, the registers of the loaded positions; preserved: FREE, every variable of
`existing`, every register beyond the loaded positions.
`hno` (shared branch only): the incremented counts of the model (unbounded naturals) fit in 64 bits. -/
theorem load_contract {cfg : MonCfg} {la : String → Option Nat} {st : State}
    (B : Boundary cfg st) {h h' : Scc.Heap.HState} (R : HeapRel cfg st h)
    {toLoad existing : Ctx} (hcap : 2 * (existing.length + toLoad.length) ≤ 28) {pw : Word}
    (hp : st.readReg (posTemp (2 * existing.length)) = .ok pw) {vals : List Scc.Heap.Field}
    (hop : Scc.Heap.loadObj h pw.toNat (toLoad.map kindOf) = .ok (h', vals))
    (hno : h.mem.get pw.toNat ≠ 0 → ∀ a, h'.mem.get a < 2 ^ 64) (k : Nat) :
    ∃ code k', (load toLoad existing).run k = .ok (code, k') ∧ k ≤ k' ∧ LabsIn code k k' ∧
      ∃ st', execFwd cfg la code st = .ok (st', .fall) ∧ Boundary cfg st' ∧ HeapRel cfg st' h' ∧
        EnvFieldsM st' existing.length toLoad vals ∧
        FrameR st st' (fun u => u = TEMP.n ∨ u = HEAP.n ∨
          ∃ m, 2 * existing.length ≤ m ∧ m < 2 * (existing.length + toLoad.length) ∧ u = posReg m) := by
  have hp' : (mview st).val (posReg (2 * existing.length)) = some pw :=
    mview_val_of_readReg (r := posTemp (2 * existing.length)) (by simp [posReg]) hp
  obtain ⟨code, k', hrun, hk, hl, μ', hx, H', E', hfr⟩ :=
    m_load B.top (heapRel_mview R) hcap (μ := mview st) hp' hop hno k
  obtain ⟨st', e, B', M', F⟩ := m_to_machine la B hx
    (changed := fun u => u = TEMP.n ∨ u = HEAP.n ∨
      ∃ m, 2 * existing.length ≤ m ∧ m < 2 * (existing.length + toLoad.length) ∧ u = posReg m)
    (fun u hu => hfr u (fun e => hu (Or.inl e)) (fun e => hu (Or.inr (Or.inl e)))
      (fun m h1 h2 e => hu (Or.inr (Or.inr ⟨m, h1, h2, e⟩))))
  refine ⟨code, k', hrun, hk, hl, st', e, B', heapRel_of_mrep M' H', ?_, F⟩
  refine E'.congr (fun m _ h2 => ?_)
  have h32 : posReg m < 32 := by unfold posReg; omega
  have := M'.vals (posReg m) (by unfold posReg; omega) h32
  simp [mview, this]

end Scc.RV
