/-
  Scc.RV.RefLand — Theorem B (RV64), CLOSURES: where an indirect jump to THE ADDRESS OF A LABEL lands.  The
  address table of the machine (`layout`, Machine.lean) maps the address of the next instruction after a label
  to the FIRST label standing before that instruction (`pendOf`), and the address after the last instruction to
  the first label at the very end; so a jump to the address of the label at index `i` lands at an index
  `m ≤ i`, and only labels and hook comments stand between `m` and `i` (`Loaded.land`).
-/
import Scc.RV.RefLayout

set_option linter.unusedVariables false
set_option linter.unusedSimpArgs false

namespace Scc.RV.Ref

open Scc.RV

/-- a label followed by labels and comments only is pending, or an earlier one is -/
theorem pendOf_le : ∀ (ks : List Code) (i : Nat), (∃ l, ks[i]? = some (.LAB l)) →
    (∀ t, i ≤ t → t < ks.length → ∀ c, ks[t]? = some c → c.isInstr = false) →
    ∃ m, pendOf ks = some m ∧ m ≤ i := by
  refine snoc_ind (fun i h _ => by simp at h) ?_
  intro ks c ih i hl hn
  rw [pendOf_snoc]
  obtain ⟨l, hl⟩ := hl
  by_cases hi : i < ks.length
  · rw [List.getElem?_append_left hi] at hl
    obtain ⟨m, hm, hmi⟩ := ih i ⟨l, hl⟩ (fun t h1 h2 c' hc' => hn t h1 (by simp; omega) c' (by
      rw [List.getElem?_append_left h2]; exact hc'))
    have hc : c.isInstr = false := hn ks.length (by omega) (by simp) c (by simp)
    refine ⟨m, ?_, hmi⟩
    rw [hm]
    cases c <;> first | rfl | (simp [Code.isInstr] at hc)
  · have hie : i = ks.length := by
      rcases Nat.lt_or_ge i (ks ++ [c]).length with h | h
      · simp at h; omega
      · rw [List.getElem?_eq_none h] at hl; cases hl
    subst hie
    simp at hl
    subst hl
    cases hp : pendOf ks with
    | none => exact ⟨ks.length, rfl, Nat.le_refl _⟩
    | some p =>
      have := (pendOf_spec ks p hp).1
      exact ⟨p, rfl, by omega⟩

/-- the number of instructions does not grow along items that are no instructions -/
theorem icount_take_stable (ks : List Code) (i : Nat) : ∀ (d : Nat), i + d ≤ ks.length →
    (∀ t, i ≤ t → t < i + d → ∀ c, ks[t]? = some c → c.isInstr = false) →
    icount (ks.take (i + d)) = icount (ks.take i)
  | 0, _, _ => rfl
  | d + 1, hle, hn => by
    have hlt : i + d < ks.length := by omega
    rw [show i + (d + 1) = (i + d) + 1 by omega, List.take_succ_eq_append_getElem hlt, icount_append,
      icount_single, icount_take_stable ks i d (by omega) (fun t h1 h2 => hn t h1 (by omega))]
    have := hn (i + d) (by omega) (by omega) _ (List.getElem?_eq_getElem hlt)
    rw [this]
    simp

/-- from index `i` on: the first instruction, or none at all -/
theorem first_instr (ks : List Code) : ∀ (d i : Nat), i + d = ks.length →
    (∃ j, i ≤ j ∧ ∃ h : j < ks.length, ks[j].isInstr = true ∧
      ∀ t, i ≤ t → t < j → ∀ c, ks[t]? = some c → c.isInstr = false) ∨
    (∀ t, i ≤ t → t < ks.length → ∀ c, ks[t]? = some c → c.isInstr = false)
  | 0, i, h => Or.inr (fun t h1 h2 => by omega)
  | d + 1, i, h => by
    have hlt : i < ks.length := by omega
    by_cases hi : ks[i].isInstr = true
    · exact Or.inl ⟨i, Nat.le_refl _, hlt, hi, fun t h1 h2 => by omega⟩
    · have hi' : ks[i].isInstr = false := by simpa using hi
      rcases first_instr ks d (i + 1) (by omega) with ⟨j, hj, hjl, hji, hall⟩ | hall
      · refine Or.inl ⟨j, by omega, hjl, hji, fun t h1 h2 c hc => ?_⟩
        by_cases ht : t = i
        · subst ht
          rw [List.getElem?_eq_getElem hlt] at hc
          injection hc with hc
          rw [← hc]; exact hi'
        · exact hall t (by omega) h2 c hc
      · refine Or.inr (fun t h1 h2 c hc => ?_)
        by_cases ht : t = i
        · subst ht
          rw [List.getElem?_eq_getElem hlt] at hc
          injection hc with hc
          rw [← hc]; exact hi'
        · exact hall t (by omega) h2 c hc

/-- WHERE A JUMP TO THE ADDRESS OF A LABEL LANDS -/
theorem Loaded.land {p : Program} {ks : List Code} (L : Loaded p ks) {i : Nat} {l : String}
    (hl : ks[i]? = some (.LAB l)) :
    ∃ m, p.addrIdx[codeBase + 4 * icount (ks.take i)]? = some m ∧ m ≤ i ∧
      ∀ t, m ≤ t → t < i → ∀ c, ks[t]? = some c → c.isInstr = false := by
  have hi : i < ks.length := by
    rcases Nat.lt_or_ge i ks.length with h | h
    · exact h
    · rw [List.getElem?_eq_none h] at hl; cases hl
  rcases first_instr ks (ks.length - i) i (by omega) with ⟨j, hij, hjl, hji, hall⟩ | hall
  · -- an instruction follows: its address is the address of the label
    have hne : j ≠ i := by
      intro e
      subst e
      rw [List.getElem?_eq_getElem hi] at hl
      injection hl with hl
      rw [hl] at hji
      simp [Code.isInstr] at hji
    have hic : icount (ks.take j) = icount (ks.take i) := by
      have := icount_take_stable ks i (j - i) (by omega) (fun t h1 h2 => hall t h1 (by omega))
      rw [show i + (j - i) = j by omega] at this
      exact this
    have hget : ∀ t, t < j → (ks.take j)[t]? = ks[t]? := fun t ht => by
      rw [List.getElem?_take]; simp [ht]
    obtain ⟨m, hm, hmi⟩ := pendOf_le (ks.take j) i ⟨l, by rw [hget i (by omega)]; exact hl⟩
      (fun t h1 h2 c hc => by
        have htj : t < j := by simp at h2; omega
        rw [hget t htj] at hc
        exact hall t h1 htj c hc)
    have hspec := pendOf_spec (ks.take j) m hm
    refine ⟨m, ?_, hmi, fun t h1 h2 c hc => ?_⟩
    · rw [← hic, L.addrs j hjl hji, hm]
      rfl
    · have htj : t < j := by omega
      exact hspec.2.2 t h1 (by simp; omega) c (by rw [hget t htj]; exact hc)
  · -- no instruction follows: the address is the end of the code
    have hic : icount ks = icount (ks.take i) := by
      have := icount_take_stable ks i (ks.length - i) (by omega) (fun t h1 h2 => hall t h1 (by omega))
      rw [show i + (ks.length - i) = ks.length by omega, List.take_length] at this
      exact this
    obtain ⟨m, hm, hmi⟩ := pendOf_le ks i ⟨l, hl⟩ hall
    have hspec := pendOf_spec ks m hm
    refine ⟨m, ?_, hmi, fun t h1 h2 c hc => hspec.2.2 t h1 (by omega) c hc⟩
    rw [← hic]
    exact L.endAddr m hm

end Scc.RV.Ref
