/-
  Scc.RV.RefSwitch — THREE-WAY SIMULATION of `switch` (pattern matching on an object) on RV64:
  positional machine ⟷ abstract backend machine ⟷ RV64 machine.  The left half follows Theorem A's
  `sim2_switch` (Scc/Backend/ProofsLoad.lean: the jump through the table, `load_enter`); the right half runs
  `LA TEMP table; ADD TEMP TEMP tag; JALR X0 TEMP 0; JAL X0 clause` (or falls through for a single clause) and
  the emitted `Memory::load` (`load_x3`, RefLoad.lean) on the machine and re-establishes `X3`.  The computed
  jump lands on the `pos`-th `JAL` of the table: its address is `address(table) + 4·pos` (`Loaded.addrs`;
  for `pos = 0` the machine lands on the table label standing before the instruction).
-/
import Scc.RV.RefLet
import Scc.RV.RefCloHeap

set_option linter.unusedVariables false
set_option linter.unusedSimpArgs false

namespace Scc.RV.Ref

open Scc.AxCut Scc.AxCut.Pos Scc.Backend Scc.Backend.Abs Scc.Backend.Sim Scc.Backend.Sim2 Scc.RV
open Scc.Heap (HState InvS InvW)
open Scc.Heap.Refine (HRef imgW fieldImg kindB loadAbs FrLe)

/-! ## the RV code of the table and of the clauses -/

theorem rv_codeTable_nth (base : String) : ∀ (clauses : Clauses) (i : Nat) (c : Clause),
    nthClause clauses i = some c →
    (codeTable rvBackend clauses base)[i]? = some (.JAL ZERO (clauseLabel base c.xtor))
  | .nil, _, _, h => by simp [nthClause] at h
  | .cons x ctx body r, 0, c, h => by
    simp only [nthClause, Option.some.injEq] at h
    subst h
    rfl
  | .cons x ctx body r, i + 1, c, h => by
    simp only [nthClause] at h
    have := rv_codeTable_nth base r i c h
    show (Code.JAL ZERO _ :: codeTable rvBackend r base)[i + 1]? = _
    simpa using this

theorem rv_codeTable_length (base : String) : ∀ (clauses : Clauses),
    (codeTable rvBackend clauses base).length = clauses.length
  | .nil => rfl
  | .cons x ctx body r => by
    show (Code.JAL ZERO _ :: codeTable rvBackend r base).length = _
    simp [Clauses.length, rv_codeTable_length base r]

theorem rv_codeTable_instr (base : String) : ∀ (clauses : Clauses),
    ∀ c ∈ codeTable rvBackend clauses base, c.isInstr = true
  | .nil => fun c hc => by simp [codeTable] at hc
  | .cons x ctx body r => fun c hc => by
    have hc' : c ∈ Code.JAL ZERO (clauseLabel base x) :: codeTable rvBackend r base := hc
    rcases List.mem_cons.1 hc' with rfl | h
    · rfl
    · exact rv_codeTable_instr base r c h

theorem rv_codeClauses_nth (hooks : Bool) (ren : Nat → String) (types : List TypeDecl) (Γ : Ctx) :
    ∀ (clauses : Clauses) (base : String) (i : Nat) (c : Clause) (k : Nat) (code : List Code) (k' : Nat),
    (codeClausesR rvBackend hooks ren types Γ clauses base).run k = .ok (code, k') →
    nthClause clauses i = some c →
    ∃ pre post kl kl' lcode kb' body,
      code = pre ++ Code.LAB (clauseLabel base c.xtor) :: (lcode ++ (body ++ post)) ∧
      (load c.ctx Γ).run kl = .ok (lcode, kl') ∧
      (codeStatementR rvBackend hooks ren types c.body (Γ ++ c.ctx)).run kl' = .ok (body, kb')
  | .nil, _, _, _, _, _, _, _, h => by simp [nthClause] at h
  | .cons x ctx body rest, base, i, c, k, code, k', hrun, h => by
    simp only [codeClausesR, run_bind_ok, run_pure_ok] at hrun
    obtain ⟨c1, k1, h1, c2, k2, h2, c3, k3, h3, rfl, rfl⟩ := hrun
    cases i with
    | zero =>
      simp only [nthClause, Option.some.injEq] at h
      subst h
      exact ⟨[], c3, k, k1, c1, k2, c2, by simp; rfl, h1, h2⟩
    | succ i =>
      simp only [nthClause] at h
      obtain ⟨pre, post, kl, kl', lcode, kb', b, e, hl, hb⟩ :=
        rv_codeClauses_nth hooks ren types Γ rest base i c _ _ _ h3 h
      refine ⟨Code.LAB (clauseLabel base x) :: (c1 ++ c2) ++ pre, post, kl, kl', lcode, kb', b, ?_, hl, hb⟩
      rw [e]
      show Code.LAB _ :: (c1 ++ c2 ++ _) = _
      simp

theorem rv_codeClauses_head (hooks : Bool) (ren : Nat → String) (types : List TypeDecl) (Γ : Ctx)
    (clauses : Clauses) (base : String) (c : Clause) (k : Nat) (code : List Code) (k' : Nat)
    (hrun : (codeClausesR rvBackend hooks ren types Γ clauses base).run k = .ok (code, k'))
    (h : nthClause clauses 0 = some c) :
    ∃ post kl' lcode kb' body,
      code = Code.LAB (clauseLabel base c.xtor) :: (lcode ++ (body ++ post)) ∧
      (load c.ctx Γ).run k = .ok (lcode, kl') ∧
      (codeStatementR rvBackend hooks ren types c.body (Γ ++ c.ctx)).run kl' = .ok (body, kb') := by
  cases clauses with
  | nil => simp [nthClause] at h
  | cons x ctx body rest =>
    simp only [codeClausesR, run_bind_ok, run_pure_ok] at hrun
    obtain ⟨c1, k1, h1, c2, k2, h2, c3, k3, h3, rfl, rfl⟩ := hrun
    simp only [nthClause, Option.some.injEq] at h
    subst h
    exact ⟨c3, k1, c1, k2, c2, by simp; rfl, h1, h2⟩

/-! ## the abstract machine up to the `load` of the clause (the first part of `sim2_switch`) -/

theorem switch_nav_abs {P : Abs.Program} {hooks : Bool} {prog : AxCut.Prog} {Γ' : Ctx} {b : Binding}
    {ρ' : List Value} {pos : Nat} {fields : List Value} {x : Ident} {ty : Ty} {clauses : Clauses}
    {fv : FV} {cfg : Config} {c : Clause}
    (R : RelX P hooks prog ⟨Γ' ++ [b], ρ' ++ [.obj pos fields], .switch x ty clauses fv⟩ cfg)
    (hfits : Fits P)
    (hb : b.var.id = x.id) (hfresh : ∀ b' ∈ Γ', b'.var.id ≠ x.id)
    (hclause : nthClause clauses pos = some c) :
    ∃ k4 cfg4 r, stepsTo P k4 cfg cfg4 ∧ cfg4.heap = cfg.heap ∧ cfg4.next = cfg.next ∧ cfg4.out = cfg.out ∧
      (∀ t, t < 2 * (Γ'.length + 1) → cfg4.temps.get t = cfg.temps.get t) ∧
      P.code[cfg4.pc]? = some (.load (Mock.kindsOf c.ctx) Γ'.length) ∧
      (∃ c0 c0' ops, (codeStatementR mockSym hooks natRen prog.types c.body (Γ' ++ c.ctx)).run c0 = .ok (ops, c0') ∧
        CodeAt P (cfg4.pc + 1) ops) ∧
      cfg.temps.get (2 * Γ'.length) = some r ∧ RepB P hooks prog.types cfg.heap fields r ∧
      cfg.temps.get (2 * Γ'.length + 1) = some (BitVec.ofNat 64 pos) ∧ b.chi = .prd := by
  obtain ⟨k0, k0', ops, hrun, hat⟩ := R.code
  have hlen : ρ'.length = Γ'.length := by have := R.len; simpa using this
  -- the scrutinee position
  have hn1 : Γ'.length < (Γ' ++ [b]).length := by simp
  have hn2 : Γ'.length < (ρ' ++ [Value.obj pos fields]).length := by simp [hlen]
  obtain ⟨hrep, hsome, hkind, hptr⟩ := R.vals Γ'.length hn1 hn2
  have g1 : (Γ' ++ [b])[Γ'.length] = b := by simp
  have g2 : (ρ' ++ [Value.obj pos fields])[Γ'.length] = .obj pos fields := by
    rw [List.getElem_append_right (by omega)]; simp [hlen]
  simp only [g1, g2] at hrep hkind hptr
  have hbchi : b.chi = .prd := hkind
  have hbne : b.chi ≠ .ext := by rw [hbchi]; decide
  have hbe : (b.chi == .ext) = false := (chi_beq_ext_false _).mpr hbne
  simp only [hbe, Bool.false_eq_true, if_false] at hrep
  obtain ⟨r, hr, hB, hw⟩ := hrep.obj_inv
  have hword : cfg.temps.get (2 * Γ'.length + 1) = some (BitVec.ofNat 64 pos) := by
    cases hg : cfg.temps.get (2 * Γ'.length + 1) with
    | none => simp [hg] at hsome
    | some w => simp only [hg, Option.getD_some] at hw; rw [hw]
  -- decode the code
  simp only [codeStatementR, run_bind_ok, run_pure_ok, freshLabelStr_run_ok] at hrun
  obtain ⟨num, k1, ⟨rfl, rfl⟩, c1, k2, h1, c3, k3, h3, rfl, rfl⟩ := hrun
  obtain ⟨pre, post, kb, kb', body, hc3, hbody⟩ :=
    codeClauses_nth hooks natRen prog.types _ clauses _ pos c _ _ _ h3 hclause
  have hdl : (Γ' ++ [b]).dropLast = Γ' := by simp
  rw [hdl] at hc3 hbody
  simp only [mockSym_comment, mockSym_label, List.append_assoc, CodeAt_hook] at hat
  simp only [List.cons_append, List.nil_append, CodeAt] at hat
  rw [CodeAt_append] at hat
  obtain ⟨hat1, hat2⟩ := hat
  simp only [CodeAt] at hat2
  obtain ⟨hlab, hat2⟩ := hat2
  have hposlt := nthClause_lt clauses pos c hclause
  by_cases hle : clauses.length ≤ 1
  · -- a single clause: fall through (comments and labels occupy no space)
    have hpos0 : pos = 0 := by omega
    subst hpos0
    obtain ⟨post0, kb0, kb0', body0, hc30, hbody0⟩ :=
      codeClauses_head hooks natRen prog.types _ clauses _ c _ _ _ h3 hclause
    rw [hdl] at hc30 hbody0
    simp only [hle, if_true, run_pure_ok] at h1
    obtain ⟨rfl, rfl⟩ := h1
    have hgt : ¬ (clauses.length > 1) := by omega
    simp only [hgt, if_false, List.nil_append, CodeAt, instrCount, Nat.add_zero, mockSym_comment] at hat2 hlab
    rw [hc30] at hat2
    obtain ⟨_, hload, hatb⟩ := clause_at hat2
    simp only [instrCount, Nat.add_zero] at hload hatb
    exact ⟨0, cfg, r, rfl, rfl, rfl, rfl, fun _ _ => rfl, hload, ⟨_, _, body0, hbody0, hatb⟩, hr, hB, hword, hbchi⟩
  · -- a jump table
    have hgt : clauses.length > 1 := by omega
    simp only [hle, if_false, run_bind_ok, run_pure_ok, mockSym_variableTemporary, vt_run_ok] at h1
    obtain ⟨tt, k4, ⟨p, hp, rfl, rfl⟩, rfl, rfl⟩ := h1
    have hp' : p = Γ'.length := by
      rw [ctxPosition_eq_posOf] at hp
      have := posOf_append_fresh Γ' b (fun b' hb' => by rw [hb]; exact hfresh b' hb')
      rw [hb] at this
      rw [this] at hp
      exact (Option.some.inj hp).symm
    subst hp'
    simp only [mockSym_loadLabel, mockSym_binop, mockSym_jump, mockSym_temp, List.cons_append,
      List.nil_append, CodeAt, instrCount, TempNum.toNat] at hat1 hat2 hlab
    obtain ⟨hll, hadd, hjmp, _⟩ := hat1
    simp only [hgt, if_true] at hat2
    generalize cfg.pc + (0 + 1 + 1 + 1) = a at hlab hat2
    -- the table entry and the clause
    have htab := codeTable_nth P _ clauses pos c _ _ hclause hat2
    rw [CodeAt_append] at hat2
    obtain ⟨_, hat3⟩ := hat2
    rw [hc3] at hat3
    obtain ⟨hclab, hload, hatb⟩ := clause_at hat3
    generalize a + instrCount (codeTable mockSym clauses (mangleTy ty ++ "_" ++ natRen (k0 + 1))) +
      instrCount pre = ca at hclab hload hatb
    have hcapR := R.cap
    simp only [List.length_append, List.length_singleton] at hcapR
    -- 1: ll
    let σ1 : Temps := cfg.temps.set Mock.T_TEMP (BitVec.ofNat 64 a)
    let cfg1 : Config := { cfg with pc := cfg.pc + 1, temps := σ1 }
    have hs1 : Abs.step P cfg = .next cfg1 := step_ll_temp P cfg _ _ hll hlab
    -- 2: add
    let σ2 : Temps := σ1.set Mock.T_TEMP (BitVec.ofNat 64 a + BitVec.ofNat 64 pos)
    let cfg2 : Config := { cfg1 with pc := cfg.pc + 1 + 1, temps := σ2 }
    have hs2 : Abs.step P cfg1 = .next cfg2 :=
      step_binop_temp P cfg1 BinOp.sum (2 * Γ'.length + 1) (BitVec.ofNat 64 a) (BitVec.ofNat 64 pos) _
        hadd (get_set_same _ _ _) (by
          show σ1.get (2 * Γ'.length + 1) = _
          rw [get_set_other _ _ (by omega)]; exact hword) rfl
    -- 3: jump
    have haddr : (BitVec.ofNat 64 a + BitVec.ofNat 64 pos).toNat = a + pos := by
      apply toNat_add_ofNat
      have := code_lt_size htab
      unfold Fits at hfits
      omega
    let cfg3 : Config := { cfg2 with pc := a + pos, temps := clobberTemp σ2 }
    have hs3 : Abs.step P cfg2 = .next cfg3 := by
      have := Scc.Backend.Sim2.step_jump P cfg2 Mock.T_TEMP _ hjmp (get_set_same _ _ _)
      rw [haddr] at this
      exact this
    -- 4: the table entry
    let cfg4 : Config := { cfg3 with pc := ca, temps := clobberTemp (clobberTemp σ2) }
    have hs4 : Abs.step P cfg3 = .next cfg4 := step_jumpFixed P cfg3 _ _ htab hclab
    refine ⟨4, cfg4, r, ⟨cfg1, hs1, cfg2, hs2, cfg3, hs3, stepsTo_one P _ _ hs4⟩, rfl, rfl, rfl, ?_, hload,
      ⟨_, _, body, hbody, hatb⟩, hr, hB, hword, hbchi⟩
    intro t ht
    show (clobberTemp (clobberTemp σ2)).get t = _
    rw [get_clobberTemp _ (by omega), get_clobberTemp _ (by omega), get_set_other _ _ (by omega),
      get_set_other _ _ (by omega)]



/-! ## the machine up to the `load` of the clause -/

theorem getElem?_mid {β : Type} (l : List β) (a : β) (r : List β) : (l ++ a :: r)[l.length]? = some a := by
  rw [List.getElem?_append_right (Nat.le_refl _), Nat.sub_self]
  rfl

/-- a label containing an underscore is not the exit label -/
theorem underscore_ne_cleanup {s : String} (h : '_' ∈ s.toList) : s ≠ "cleanup" := by
  intro e
  rw [e] at h
  have h4 : ("cleanup" : String).toList = ['c', 'l', 'e', 'a', 'n', 'u', 'p'] := rfl
  rw [h4] at h
  simp at h

theorem tableLabel_ne_cleanup (a b : String) : a ++ "_" ++ b ≠ "cleanup" := by
  apply underscore_ne_cleanup
  simp only [String.toList_append]
  have : ("_" : String).toList = ['_'] := rfl
  rw [this]
  simp

/-- code without comments is kept as it is -/
theorem Keeps.noncomments : ∀ {a ka : List Code}, Keeps a ka → (∀ c ∈ a, c.isComment = false) → ka = a := by
  intro a ka h
  induction h with
  | nil => intro _; rfl
  | keep _ _ ih => intro hall; rw [ih (fun x hx => hall x (by simp [hx]))]
  | @drop m _ _ _ _ => intro hall; have := hall (.COMMENT m) (by simp); simp [Code.isComment] at this
  | @keepC m _ _ _ _ _ => intro hall; have := hall (.COMMENT m) (by simp); simp [Code.isComment] at this

theorem icount_all_instr {l : List Code} (h : ∀ c ∈ l, c.isInstr = true) : icount l = l.length := by
  unfold icount
  rw [List.filter_eq_self.2 h]

theorem execFwd_two {mc : MonCfg} {la : String → Option Nat} {c1 c2 : Code} {s s1 s2 : State}
    (h1 : exec mc la 0 c1 s = .ok (s1, .fall)) (h2 : exec mc la 0 c2 s1 = .ok (s2, .fall)) :
    execFwd mc la [c1, c2] s = .ok (s2, .fall) := by
  rw [execFwd_cons, h1]
  simp only [contFwd]
  exact execFwd_single h2

theorem toNat_table_addr {n pos : Nat} (h : n + 4 * pos < 2 ^ 64) :
    BitVec.ofNat 64 n + BitVec.ofNat 64 pos * 4#64 = BitVec.ofNat 64 (n + 4 * pos) := by
  apply BitVec.eq_of_toNat_eq
  simp only [BitVec.toNat_add, BitVec.toNat_mul, BitVec.toNat_ofNat]
  have h1 : n % 2 ^ 64 = n := Nat.mod_eq_of_lt (by omega)
  have h2 : pos % 2 ^ 64 = pos := Nat.mod_eq_of_lt (by omega)
  have h3 : (4 : Nat) % 2 ^ 64 = 4 := by decide
  rw [h1, h2, h3, Nat.mod_eq_of_lt (show pos * 4 < 2 ^ 64 by omega)]
  rw [Nat.mod_eq_of_lt (by omega), Nat.mod_eq_of_lt (by omega)]
  omega

section Switch3

variable {mc : MonCfg} {cw : Nat → Word} {τ : Nat → Nat → Word} {pr : RV.Program} {ks : List Code} (L : Loaded pr ks)
  (hnd : (labs ks).Nodup) (hheap : mc.heap = false) (hfitX : codeBase + 4 * icount ks < 2 ^ 64)

include L hnd hheap hfitX in
/-- the machine from the `switch` to the `load` of the selected clause -/
theorem switch_nav_rv {hooks : Bool} {types : List TypeDecl} {Γ' : Ctx} {b : Binding} {cfg : Config}
    {hs : HState} {ι : Nat → Nat} {st : State} {x : Ident} {ty : Ty} {clauses : Clauses} {fv : FV}
    {pos : Nat} {c : Clause}
    (X : X3 mc cw τ (Γ' ++ [b]) cfg hs ι st)
    (hb : b.var.id = x.id) (hfresh : ∀ b' ∈ Γ', b'.var.id ≠ x.id)
    (hclause : nthClause clauses pos = some c)
    (hword : cfg.temps.get (2 * Γ'.length + 1) = some (BitVec.ofNat 64 pos)) (hbchi : b.chi = .prd)
    {k k' : Nat} {items : List Code}
    (hrun : (codeStatementR rvBackend hooks natRen types (.switch x ty clauses fv) (Γ' ++ [b])).run k =
      .ok (items, k'))
    (hat : KAt ks st.pc items) :
    ∃ st4 kl kl' lcode kb' body, Reach pr mc st st4 ∧ X3 mc cw τ (Γ' ++ [b]) cfg hs ι st4 ∧
      (load c.ctx Γ').run kl = .ok (lcode, kl') ∧
      (codeStatementR rvBackend hooks natRen types c.body (Γ' ++ c.ctx)).run kl' = .ok (body, kb') ∧
      KAt ks st4.pc (lcode ++ body) := by
  simp only [codeStatementR, run_bind_ok, run_pure_ok, freshLabelStr_run_ok] at hrun
  obtain ⟨num, k1, ⟨rfl, rfl⟩, c1, k2, h1, c3, k3, h3, rfl, rfl⟩ := hrun
  have hdl : (Γ' ++ [b]).dropLast = Γ' := by simp
  rw [hdl] at h3
  obtain ⟨pre, post, kl, kl', lcode, kb', body, hc3, hload, hbody⟩ :=
    rv_codeClauses_nth hooks natRen types Γ' clauses _ pos c _ _ _ h3 hclause
  have hposlt := nthClause_lt clauses pos c hclause
  generalize hc0 : hookCode rvBackend hooks (Γ' ++ [b]) ++
      [rvBackend.comment ("switch " ++ x.print ++ " \\{ ... \\};")] = c0 at hat
  have hc0c : ∀ y ∈ c0, ∃ m', y = Code.COMMENT m' := by rw [← hc0]; exact hook_comments hooks _ _
  have hlblne : mangleTy ty ++ "_" ++ natRen (k + 1) ≠ "cleanup" := tableLabel_ne_cleanup _ _
  have hclne : clauseLabel (mangleTy ty ++ "_" ++ natRen (k + 1)) c.xtor ≠ "cleanup" := by
    unfold clauseLabel; exact tableLabel_ne_cleanup _ _
  generalize hlbl : mangleTy ty ++ "_" ++ natRen (k + 1) = lbl at *
  have hxl : rvBackend.label lbl = Code.LAB lbl := rfl
  rw [hxl] at hat
  by_cases hle : clauses.length ≤ 1
  · -- a single clause: comments and labels only
    have hpos0 : pos = 0 := by omega
    subst hpos0
    simp only [hle, if_true, run_pure_ok] at h1
    obtain ⟨rfl, rfl⟩ := h1
    have hgt : ¬ (clauses.length > 1) := by omega
    simp only [hgt, if_false] at hat
    obtain ⟨post0, kl0', lcode0, kb0', body0, hc30, hload0, hbody0⟩ :=
      rv_codeClauses_head hooks natRen types Γ' clauses lbl c _ _ _ h3 hclause
    rw [hc30] at hat
    have hxc : rvBackend.comment "#there is only one clause, so we can just fall through" =
        Code.COMMENT "#there is only one clause, so we can just fall through" := rfl
    rw [hxc] at hat
    have hatN : KAt ks st.pc ((c0 ++ [Code.COMMENT "#there is only one clause, so we can just fall through"]) ++
        (Code.LAB lbl :: (Code.LAB (clauseLabel lbl c.xtor) :: ((lcode0 ++ body0) ++ post0)))) := by
      simpa [List.append_assoc] using hat
    obtain ⟨pc0, k0, hr0, hat0⟩ := pass_comments L hnd hheap hatN (by
      intro y hy
      simp only [List.mem_append, List.mem_cons, List.not_mem_nil, or_false] at hy
      rcases hy with hy | rfl
      · exact hc0c y hy
      · exact ⟨_, rfl⟩)
    obtain ⟨hr1, hat1⟩ := pass_label L (cfg := mc) (s := setPS st pc0 k0) hat0 hlblne
    obtain ⟨hr2, hat2⟩ := pass_label L (cfg := mc)
      (s := setPS (setPS st pc0 k0) ((setPS st pc0 k0).pc + 1) (setPS st pc0 k0).steps) hat1 hclne
    exact ⟨_, _, _, lcode0, _, body0, hr0.trans (hr1.trans hr2), X3R.setPS (X3R.setPS (X3R.setPS X _ _) _ _) _ _,
      hload0, hbody0, hat2.left⟩
  · -- a jump table
    have hgt : clauses.length > 1 := by omega
    simp only [hle, if_false, run_bind_ok, run_pure_ok] at h1
    obtain ⟨tt, k4, htt, rfl, rfl⟩ := h1
    obtain ⟨q, hq, hlt, rfl, rfl⟩ := (rv_vt_run_ok _ _ _ _ _ _).1 htt
    have hq' : q = Γ'.length := by
      have := posOf_append_fresh Γ' b (fun b' hb' => by rw [hb]; exact hfresh b' hb')
      rw [hb] at this
      rw [this] at hq
      exact (Option.some.inj hq).symm
    subst hq'
    simp only [TempNum.toNat] at hlt
    simp only [hgt, if_true] at hat
    have hBe : rvBackend.loadLabel rvBackend.temp lbl ++
        rvBackend.binop BinOp.sum rvBackend.temp rvBackend.temp (posTemp (2 * Γ'.length + TempNum.snd.toNat)) ++
        rvBackend.jump rvBackend.temp =
        [Code.LA TEMP lbl, Code.ADD TEMP TEMP (posTemp (2 * Γ'.length + 1))] ++ [Code.JALR ZERO TEMP 0] := rfl
    rw [hBe] at hat
    generalize hT : codeTable rvBackend clauses lbl = table at hat
    have htab : table[pos]? = some (.JAL ZERO (clauseLabel lbl c.xtor)) := by
      rw [← hT]; exact rv_codeTable_nth lbl clauses pos c hclause
    have htlen : table.length = clauses.length := by rw [← hT]; exact rv_codeTable_length lbl clauses
    have htins : ∀ y ∈ table, y.isInstr = true := by rw [← hT]; exact rv_codeTable_instr lbl clauses
    rw [hc3] at hat
    have hatA : KAt ks st.pc (c0 ++ ([Code.LA TEMP lbl, Code.ADD TEMP TEMP (posTemp (2 * Γ'.length + 1))] ++
        (Code.JALR ZERO TEMP 0 :: (Code.LAB lbl :: (table ++ (pre ++ Code.LAB (clauseLabel lbl c.xtor) ::
          (lcode ++ (body ++ post)))))))) := by
      simpa [List.append_assoc] using hat
    -- (i) the comments
    obtain ⟨pca, ka, hra, hata⟩ := pass_comments L hnd hheap hatA hc0c
    have Xa : X3 mc cw τ (Γ' ++ [b]) cfg hs ι (setPS st pca ka) := X3R.setPS X _ _
    replace hata : KAt ks (setPS st pca ka).pc ([Code.LA TEMP lbl, Code.ADD TEMP TEMP (posTemp (2 * Γ'.length + 1))] ++
        (Code.JALR ZERO TEMP 0 :: (Code.LAB lbl :: (table ++ (pre ++ Code.LAB (clauseLabel lbl c.xtor) ::
          (lcode ++ (body ++ post))))))) := hata
    generalize setPS st pca ka = sa at hra Xa hata
    -- the positions of the jump, the table label and the table
    obtain ⟨kab, _, hkab, hatJ⟩ := hata.split
    have hkab' : kab = [Code.LA TEMP lbl, Code.ADD TEMP TEMP (posTemp (2 * Γ'.length + 1))] :=
      hkab.noncomments (fun y hy => by simp at hy; rcases hy with rfl | rfl <;> rfl)
    subst hkab'
    simp only [List.length_cons, List.length_nil] at hatJ
    obtain ⟨hgJ, hatL⟩ := hatJ.head rfl
    obtain ⟨hgL, hatT⟩ := hatL.head rfl
    generalize hiJ : sa.pc + (0 + 1 + 1) = iJ at hgJ hatL hgL hatT
    -- the table itself
    obtain ⟨kt, ⟨kT1, kTrest, ekT, hkT1⟩, hkt, hatC⟩ := hatT.split
    have hkt' : table = kt := (hkt.noncomments (fun y hy => by
      have := htins y hy
      cases y <;> first | rfl | (simp [Code.isInstr] at this))).symm
    subst hkt'
    have hiL := labIdx_of_nodup hnd hgL
    have hlA := L.labelAddr hiL
    generalize hA : codeBase + 4 * icount (ks.take (iJ + 1)) = A at hlA
    have hAeven : A % 2 = 0 := by rw [← hA]; unfold codeBase; omega
    -- the prefix of the kept codes up to the table
    have hk1 : kT1 = ks.take (iJ + 1 + 1) := by
      rw [ekT, List.append_assoc, List.take_left' hkT1]
    have htakeL : ks.take (iJ + 1 + 1) = ks.take (iJ + 1) ++ [Code.LAB lbl] := by
      have hlt' : iJ + 1 < ks.length := (List.getElem?_eq_some_iff.1 hgL).1
      rw [List.take_succ_eq_append_getElem hlt']
      rw [List.getElem?_eq_getElem hlt'] at hgL
      injection hgL with hgL
      rw [hgL]
    have htakeJ : ks.take (iJ + 1) = ks.take iJ ++ [Code.JALR ZERO TEMP 0] := by
      have hlt' : iJ < ks.length := (List.getElem?_eq_some_iff.1 hgJ).1
      rw [List.take_succ_eq_append_getElem hlt']
      rw [List.getElem?_eq_getElem hlt'] at hgJ
      injection hgJ with hgJ
      rw [hgJ]
    have hj : iJ + 1 + 1 + pos < ks.length := by
      rw [ekT]; simp [hkT1]; omega
    have hgj : ks[iJ + 1 + 1 + pos]? = some (Code.JAL ZERO (clauseLabel lbl c.xtor)) := by
      rw [ekT, List.append_assoc, List.getElem?_append_right (by omega), hkT1]
      simp only [Nat.add_sub_cancel_left]
      rw [List.getElem?_append_left (by omega)]
      exact htab
    have htakej : ks.take (iJ + 1 + 1 + pos) = ks.take (iJ + 1 + 1) ++ table.take pos := by
      rw [← hk1]
      conv => lhs; rw [ekT, List.append_assoc, ← hkT1, List.take_length_add_append]
      rw [List.take_append_of_le_length (by omega)]
    have hicj : icount (ks.take (iJ + 1 + 1 + pos)) = icount (ks.take (iJ + 1)) + pos := by
      rw [htakej, htakeL, icount_append, icount_append, icount_single,
        icount_all_instr (fun y hy => htins y (List.mem_of_mem_take hy))]
      simp [Code.isInstr]
      omega
    have hbound : A + 4 * pos < 2 ^ 64 := by
      have := icount_take_le ks (iJ + 1 + 1 + pos)
      rw [hicj] at this
      omega
    -- (ii) the address computation
    have hxw : rv sa (2 * Γ'.length + 1) = some (BitVec.ofNat 64 pos * 4#64) := by
      have := Xa.words Γ'.length (by simp) _ hword
      simpa [hbchi, trW] using this
    have hwf := Xa.bnd.wf
    have hex1 : exec mc pr.labelAddr 0 (Code.LA TEMP lbl) sa =
        .ok (sa.writeReg TEMP (BitVec.ofNat 64 A), .fall) := exec_LA mc pr.labelAddr 0 sa hlA
    have hr1 : (sa.writeReg TEMP (BitVec.ofNat 64 A)).readReg TEMP = .ok (BitVec.ofNat 64 A) :=
      readReg_writeReg_same hwf temp_usable _
    have hr1t : (sa.writeReg TEMP (BitVec.ofNat 64 A)).readReg (posTemp (2 * Γ'.length + 1)) =
        .ok (BitVec.ofNat 64 pos * 4#64) := by
      rw [readReg_writeReg_other sa (by simp [posReg])]
      exact readReg_of_rv hxw
    have hex2 := exec_ADD mc pr.labelAddr 0 (x := TEMP) hr1 hr1t
    rw [toNat_table_addr hbound] at hex2
    generalize hsb : (sa.writeReg TEMP (BitVec.ofNat 64 A)).writeReg TEMP (BitVec.ofNat 64 (A + 4 * pos)) = sb at hex2
    have hKb : Keep sa sb (fun u => u = 1) := by
      rw [← hsb]
      have := (keep_writeReg hwf TEMP (BitVec.ofNat 64 A)).trans
        (keep_writeReg (writeReg_wf hwf TEMP _) TEMP (BitVec.ofNat 64 (A + 4 * pos)))
      exact ⟨this.wf, this.mem, fun r h1 h2 hc => this.regs r h1 h2 (fun h => hc (by rcases h with h | h <;> exact h))⟩
    have hrb : sb.readReg TEMP = .ok (BitVec.ofNat 64 (A + 4 * pos)) := by
      rw [← hsb]; exact readReg_writeReg_same (writeReg_wf hwf TEMP _) temp_usable _
    obtain ⟨pcb, kb, hrb', hatb⟩ := exec_block L hnd hheap hata
      (fun y hy => by simp at hy; rcases hy with rfl | rfl <;> rfl) (by simp) (execFwd_two hex1 hex2)
    have Xb : X3 mc cw τ (Γ' ++ [b]) cfg hs ι (setPS sb pcb kb) :=
      X3R.setPS (X3R.keep Xa hKb (fun t _ => by simp [posReg]) (by decide) (by decide)) _ _
    -- (iii) the jump through TEMP lands on the table entry
    have hjx : ∀ a', exec mc pr.labelAddr a' (Code.JALR ZERO TEMP 0) (setPS sb pcb kb) =
        .ok (setPS sb pcb kb, .addr (BitVec.ofNat 64 (A + 4 * pos))) := fun a' =>
      exec_JALR_zero mc pr.labelAddr a' (s := setPS sb pcb kb) hrb (by omega)
    have hji : ks[iJ + 1 + 1 + pos].isInstr = true := by
      rw [List.getElem?_eq_getElem hj] at hgj
      injection hgj with hgj
      rw [hgj]; rfl
    have hrc := step_addr L (cfg := mc) (s := setPS sb pcb kb) hatb rfl hjx hj hji
      (by rw [ofNat_toNat_lt hbound, hicj, ← hA]; omega)
    -- from the landing item to the table entry
    have hland : Reach pr mc
        (setPS (setPS sb pcb kb) ((pendOf (ks.take (iJ + 1 + 1 + pos))).getD (iJ + 1 + 1 + pos))
          ((setPS sb pcb kb).steps + 1))
        (setPS (setPS sb pcb kb) (iJ + 1 + 1 + pos) ((setPS sb pcb kb).steps + 1)) := by
      cases pos with
      | zero =>
        have hp : pendOf (ks.take (iJ + 1 + 1 + 0)) = some (iJ + 1) := by
          rw [Nat.add_zero, htakeL, pendOf_snoc, htakeJ, pendOf_snoc]
          simp [pendStep, List.length_take]
          have hlt' : iJ < ks.length := (List.getElem?_eq_some_iff.1 hgJ).1
          omega
        rw [hp]
        simp only [Option.getD_some, Nat.add_zero]
        have hatL' : KAt ks (setPS (setPS sb pcb kb) (iJ + 1) ((setPS sb pcb kb).steps + 1)).pc
            (Code.LAB lbl :: (table ++ (pre ++ Code.LAB (clauseLabel lbl c.xtor) :: (lcode ++ (body ++ post))))) :=
          hatL
        exact (pass_label L (cfg := mc) hatL' hlblne).1
      | succ p' =>
        have hp : pendOf (ks.take (iJ + 1 + 1 + (p' + 1))) = none := by
          have hlt' : iJ + 1 + 1 + p' < ks.length := by omega
          rw [show iJ + 1 + 1 + (p' + 1) = (iJ + 1 + 1 + p') + 1 by omega, List.take_succ_eq_append_getElem hlt',
            pendOf_snoc]
          have hg' : ks[iJ + 1 + 1 + p']? = table[p']? := by
            rw [ekT, List.append_assoc, List.getElem?_append_right (by omega), hkT1]
            simp only [Nat.add_sub_cancel_left]
            rw [List.getElem?_append_left (by omega)]
          have hin : (ks[iJ + 1 + 1 + p']).isInstr = true := by
            have h1 : p' < table.length := by omega
            rw [List.getElem?_eq_getElem hlt', List.getElem?_eq_getElem h1] at hg'
            injection hg' with hg'
            rw [hg']
            exact htins _ (List.getElem_mem h1)
          cases hc : ks[iJ + 1 + 1 + p'] <;> rw [hc] at hin <;> first | rfl | (simp [Code.isInstr] at hin)
        rw [hp]
        exact Reach.refl _ _ _
    generalize hsc : setPS (setPS sb pcb kb) (iJ + 1 + 1 + pos) ((setPS sb pcb kb).steps + 1) = sc at hland
    have Xc : X3 mc cw τ (Γ' ++ [b]) cfg hs ι sc := by rw [← hsc]; exact X3R.setPS Xb _ _
    have hscpc : sc.pc = iJ + 1 + 1 + pos := by rw [← hsc]; rfl
    -- (iv) the table entry jumps to the clause
    have hatE : KAt ks sc.pc (Code.JAL ZERO (clauseLabel lbl c.xtor) :: []) := by
      rw [hscpc]
      refine ⟨ks.take (iJ + 1 + 1 + pos), [Code.JAL ZERO (clauseLabel lbl c.xtor)], ks.drop (iJ + 1 + 1 + pos + 1),
        ?_, by simp [List.length_take]; omega, .keep rfl .nil⟩
      rw [List.append_assoc, List.singleton_append]
      have := List.getElem?_eq_getElem hj
      rw [hgj] at this
      injection this with this
      rw [this, ← List.drop_eq_getElem_cons hj, List.take_append_drop]
    obtain ⟨iC, hgC, hatB⟩ := hatC.lab_at
    have hrd := step_label L (cfg := mc) (s := sc) (s1 := sc) (l := clauseLabel lbl c.xtor) (i := iC) hatE rfl
      (fun a' => exec_JAL_zero mc _ a' _ _) (labIdx_of_nodup hnd hgC)
    -- (v) the label of the clause
    have hatCl : KAt ks (setPS sc iC (sc.steps + 1)).pc
        (Code.LAB (clauseLabel lbl c.xtor) :: (lcode ++ (body ++ post))) := KAt.of_label hgC hatB
    obtain ⟨hre, hatF⟩ := pass_label L (cfg := mc) hatCl hclne
    refine ⟨_, kl, kl', lcode, kb', body,
      hra.trans (hrb'.trans (hrc.trans (hland.trans (hrd.trans hre)))),
      X3R.setPS (X3R.setPS Xc _ _) _ _, hload, hbody, ?_⟩
    have : KAt ks (setPS (setPS sc iC (sc.steps + 1)) ((setPS sc iC (sc.steps + 1)).pc + 1)
        (setPS sc iC (sc.steps + 1)).steps).pc ((lcode ++ body) ++ post) := by
      rw [List.append_assoc]; exact hatF
    exact this.left

include L hnd hheap hfitX in
/-- THREE-WAY SIMULATION OF `switch` -/
theorem switch_x3 {P : Abs.Program} {hooks : Bool} {prog : AxCut.Prog} {Γ' : Ctx} {b : Binding}
    {ρ' : List Value} {pos : Nat} {fields : List Value} {x : Ident} {ty : Ty} {clauses : Clauses}
    {fv : FV} {cfg : Config} {c : Clause}
    (R : RelX P hooks prog ⟨Γ' ++ [b], ρ' ++ [.obj pos fields], .switch x ty clauses fv⟩ cfg)
    (hfits : Fits P)
    (hb : b.var.id = x.id) (hfresh : ∀ b' ∈ Γ', b'.var.id ≠ x.id)
    (hclause : nthClause clauses pos = some c)
    (hkinds : fields.map Sim2.kindOf = Mock.kindsOf c.ctx)
    (hcap : 2 * (Γ'.length + c.ctx.length) + 2 < Mock.T_TEMP)
    {hs : HState} {ι : Nat → Nat} {st : State} (X : X3 mc cw τ (Γ' ++ [b]) cfg hs ι st)
    {k k' : Nat} {items : List Code}
    (hrun : (codeStatementR rvBackend hooks natRen prog.types (.switch x ty clauses fv) (Γ' ++ [b])).run k =
      .ok (items, k'))
    (hat : KAt ks st.pc items)
    (hcapX : Γ'.length + c.ctx.length ≤ 14)
    {Q : Word → Ctx → Clauses → Prop}
    (CVh : CVals P hooks prog.types Q cw τ cfg.heap cfg.temps (Γ' ++ [b]) (ρ' ++ [.obj pos fields])) :
    ∃ kk cfg' st' hs', stepsTo P kk cfg cfg' ∧ Reach pr mc st st' ∧ FrLe hs hs' 0 ∧
      cfg'.out = cfg.out ∧ cfg'.next = cfg.next ∧
      RelX P hooks prog ⟨Γ' ++ c.ctx, ρ' ++ fields, c.body⟩ cfg' ∧
      (∃ r, cfg.temps.get (2 * Γ'.length) = some r ∧
        X3 mc (loadCw cw Γ'.length (τ r.toNat)) τ (Γ' ++ c.ctx) cfg' hs' ι st' ∧
        CVals P hooks prog.types Q (loadCw cw Γ'.length (τ r.toNat)) τ cfg'.heap cfg'.temps (Γ' ++ c.ctx)
          (ρ' ++ fields)) ∧
      ∃ k1 k1' items', (codeStatementR rvBackend hooks natRen prog.types c.body (Γ' ++ c.ctx)).run k1 =
          .ok (items', k1') ∧ KAt ks st'.pc items' := by
  obtain ⟨k4, cfg4, r, hst4, h4heap, h4next, h4out, h4temps, hloadM, hcode, hr, hB, hword, hbchi⟩ :=
    switch_nav_abs R hfits hb hfresh hclause
  obtain ⟨st4, kl, kl', lcode, kb', body, hn4, X4, hload, hbody, hat4⟩ :=
    switch_nav_rv L hnd hheap hfitX X hb hfresh hclause hword hbchi hrun hat
  have hbne : b.chi ≠ .ext := by rw [hbchi]; decide
  obtain ⟨cfg', hstep, hout', hnext', R'⟩ := load_enter (Γ'' := Γ') (s' := c.body) (cfg4 := cfg4) R rfl hbne hr
    hB hkinds hcap h4heap h4next h4out h4temps hloadM hcode
  have hn1 : Γ'.length < (Γ' ++ [b]).length := by simp
  have hlenρ : ρ'.length = Γ'.length := by have := R.len; simpa using this
  -- the closures of the remaining positions
  have CV0 : CVals P hooks prog.types Q cw τ cfg.heap cfg.temps Γ' ρ' := by
    have := CVh.take Γ'.length
    rw [List.take_left' rfl, List.take_left' hlenρ] at this
    exact this
  cases hctx : c.ctx with
  | nil =>
    -- no field: nothing is loaded, no code
    have hf0 : fields = [] := by
      have := congrArg List.length hkinds
      rw [hctx] at this
      simpa [Mock.kindsOf] using this
    subst hf0
    have hr0 : r = 0 := by cases hB; rfl
    subst hr0
    rw [hctx] at hloadM hload
    have hA := step_load_empty P cfg4 _ hloadM
    rw [hstep] at hA
    injection hA with hA
    have hl0 : lcode = [] := by
      have : (load [] Γ').run kl = .ok ([], kl) := rfl
      rw [this] at hload
      injection hload with hload
      injection hload with e1 _
      exact e1.symm
    subst hl0
    rw [hctx] at hbody R' hcapX
    rw [List.nil_append] at hat4
    refine ⟨k4 + 1, cfg', st4, hs, stepsTo_trans P _ _ _ _ _ hst4 (stepsTo_one P _ _ hstep), hn4,
      Scc.Heap.Refine.FrLe.refl hs, hout', hnext', ?_, ?_, kl', kb', body, hbody, hat4⟩
    · exact R'
    · have hlow : ∀ t, t < 2 * (Γ'.length + 1) → cfg'.temps.get t = cfg.temps.get t := by
        intro t ht
        rw [hA]
        simp only
        rw [get_clobberTemp _ (by unfold Mock.T_TEMP; omega), h4temps t ht]
      rw [List.append_nil, List.append_nil]
      refine ⟨_, hr, ⟨X4.bnd, by omega, ?_, ?_, X4.hrel, ?_⟩, ?_⟩
      rotate_right
      · have e1 : cfg'.heap = cfg.heap := by rw [hA]; exact h4heap
        rw [e1]
        exact CV0.congr (fun t ht => hlow t (by omega)) (fun i hi => by simp only [loadCw]; rw [if_pos hi])
      · intro i hi a ha
        rw [hlow _ (by omega)] at ha
        have := X4.words i (by simp; omega) a ha
        rw [List.getElem_append_left hi] at this
        simp only [loadCw]
        rw [if_pos hi]
        exact this
      · intro i hi hc r' hr'
        rw [hlow _ (by omega)] at hr'
        exact X4.ptrs i (by simp; omega) (by rw [List.getElem_append_left hi]; exact hc) r' hr'
      · have e1 : cfg'.heap = cfg.heap := by rw [hA]; exact h4heap
        have e2 : cfg'.next = cfg.next := by rw [hA]; exact h4next
        have e3 : roots (Γ' ++ [b]) cfg.temps = roots Γ' cfg'.temps := by
          rw [roots_snoc]
          have : rootOf cfg.temps b Γ'.length = [] := by
            unfold rootOf; rw [hr]; simp
          rw [this, List.append_nil]
          exact (roots_congr _ _ _ (fun i hi => hlow (2 * i) (by omega))).symm
        rw [e1, e2, ← e3]
        exact X4.href
  | cons b0 Δ =>
    rw [hctx] at hkinds
    cases hB with
    | empty => simp [Mock.kindsOf] at hkinds
    | block v vs _ o hr0 hg hF =>
      have hk : o.fields.map (·.chi) = Mock.kindsOf c.ctx := by
        rw [RepF.kinds hF, hctx]; exact hkinds
      have hne : o.fields ≠ [] := by
        intro e
        rw [e, hctx] at hk
        simp [Mock.kindsOf] at hk
      have hr4 : cfg4.temps.get (2 * Γ'.length) = some r := by rw [h4temps _ (by omega)]; exact hr
      have hg4 : cfg4.heap.get r.toNat = some o := by rw [h4heap]; exact hg
      have hk4 : o.fields.map (·.chi) = b0.chi :: Mock.kindsOf Δ := by rw [hk, hctx]; rfl
      have hloadM' : P.code[cfg4.pc]? = some (.load (b0.chi :: Mock.kindsOf Δ) Γ'.length) := by
        rw [hloadM, hctx]; rfl
      -- the abstract step, explicitly
      have hexp : ∃ h', loadAbs cfg.heap r.toNat o = .ok h' ∧ cfg' =
          { cfg4 with pc := cfg4.pc + 1, temps := writeFields (clobberTemp cfg4.temps) o.fields Γ'.length, heap := h' } := by
        by_cases hc0 : o.count = 0
        · have hA := step_load_unique P cfg4 _ _ _ r o hloadM' hr4 hr0 hg4 hk4 hc0
          rw [hstep] at hA
          injection hA with hA
          refine ⟨cfg.heap.remove r.toNat, ?_, by rw [hA, h4heap]⟩
          unfold loadAbs
          simp [hc0]
        · cases hsh : (cfg4.heap.set r.toNat { o with count := o.count - 1 }).shareAll o.children with
          | error e =>
            exfalso
            have h1 : (r == 0) = false := by rw [beq_eq_false_iff_ne]; exact hr0
            have h2 : (o.fields.map (·.chi) != b0.chi :: Mock.kindsOf Δ) = false := by rw [hk4]; exact kinds_bne_self _
            have h3 : (o.count == 0) = false := by rw [beq_eq_false_iff_ne]; exact hc0
            simp only [Abs.step, hloadM', getT, hr4, h1, hg4, h2, h3, hsh, Bool.false_eq_true, if_false,
              stuck] at hstep
            cases hstep
          | ok h' =>
            have hA := step_load_shared P cfg4 _ _ _ r o h' hloadM' hr4 hr0 hg4 hk4 hc0 hsh
            rw [hstep] at hA
            injection hA with hA
            refine ⟨h', ?_, hA⟩
            unfold loadAbs
            have : (o.count == 0) = false := by rw [beq_eq_false_iff_ne]; exact hc0
            rw [if_neg (by rw [this]; simp), ← h4heap]
            exact hsh
      obtain ⟨h', hlo, hcfg'⟩ := hexp
      obtain ⟨code, kk', hrunL, hfree, hncl, st5, hs', hx, X5, hfrL⟩ :=
        load_x3 (la := pr.labelAddr) X4 hbne hr hr0 hg hk hne hcapX h4next h4temps hlo hcfg' kl
      have hcode' : code = lcode := by
        rw [hload] at hrunL
        injection hrunL with hrunL
        injection hrunL with e1 _
        exact e1.symm
      subst hcode'
      obtain ⟨pc5, steps5, hn5, hat5⟩ := exec_block L hnd hheap hat4 hfree hncl hx
      refine ⟨k4 + 1, cfg', setPS st5 pc5 steps5, hs', stepsTo_trans P _ _ _ _ _ hst4 (stepsTo_one P _ _ hstep),
        hn4.trans hn5, hfrL, hout', hnext', ?_, ?_, kl', kb', body, ?_, hat5⟩
      · rw [← hctx]; exact R'
      · rw [← hctx]
        refine ⟨r, hr, X3R.setPS X5 _ _, ?_⟩
        -- the closures: those of the remaining positions, and those of the fields loaded
        have hcv := CVh Γ'.length hn1 (by simp [hlenρ])
        have g1 : (Γ' ++ [b])[Γ'.length] = b := by simp
        have g2 : (ρ' ++ [Value.obj pos (v :: vs)])[Γ'.length]'(by simp [hlenρ]) = .obj pos (v :: vs) := by
          rw [List.getElem_append_right (by omega)]; simp [hlenρ]
        simp only [g1, g2] at hcv
        have hbe : (b.chi == .ext) = false := (Scc.Backend.Sim2.chi_beq_ext_false _).mpr hbne
        simp only [hbe, Bool.false_eq_true, if_false, hr] at hcv
        obtain ⟨r', hr', hCB, _⟩ := hcv.obj_inv
        injection hr' with hr'
        subst hr'
        cases hCB with
        | block _ _ _ o' _ hg' hF' =>
          rw [hg] at hg'
          injection hg' with hg'
          subst hg'
          have hroots : roots (Γ' ++ [b]) cfg.temps = roots Γ' cfg.temps ++ [r.toNat] := by
            rw [Scc.Backend.Sim2.roots_snoc]
            congr 1
            unfold Scc.Backend.Sim2.rootOf
            have h1 : (b.chi != Chi.ext) = true := (Scc.Backend.Sim2.chi_bne_ext _).mpr hbne
            have h2 : (r != 0) = true := by rw [bne_iff_ne]; exact hr0
            simp only [h1, hr, h2, if_true]
          have H0 := R.heap
          simp only at H0
          rw [hroots] at H0
          have := load_cv (Δ := c.ctx) (σ4 := cfg4.temps) CV0 hlenρ hcap hr0 hg hF' hk H0
            (fun t ht => h4temps t (by omega)) hlo
          rw [hcfg']
          exact this
      · rw [← hctx]; exact hbody

end Switch3

end Scc.RV.Ref
