/-
  Scc.RV.RefBridge — Theorem B (RV64): from executions of emitted code (`exec`, `execFwd`) to the run loop
  of the machine on a LOADED program (`Loaded p ks`, RefLayout.lean) whose hook monitor is switched off
  (`cfg.heap = false`: a kept hook comment is an item that does nothing).
  * `Reach p cfg s s'`: the run loop gets from `s` to `s'` (it consumes some fuel) — stated with the
    transition function `step` of the loop (Scc/RV/ConcStep.lean): the machine PASSES THROUGH `s'`
    (`stepN p cfg k s = .inl s'`); `Reach.loop`: the loop started in `s` continues as from `s'`;
  * `KAt ks pc items`: the emitted code `items` lies in the kept codes from item index `pc` on, up to the
    comments that the layout dropped (`Keeps`);
  * `exec_block`: a block with forward local labels that `execFwd` runs to its end (the code of the memory
    operations, straight-line code) is run by the loop, wherever it lies;
  * `step_fall`, `step_label`, `step_addr`, `pass_label`, `pass_items`, `run_done`: single items.
-/
import Scc.RV.RefLayout
import Scc.RV.MemProofsFree
import Scc.RV.ConcStep

set_option linter.unusedVariables false
set_option linter.unusedSimpArgs false

namespace Scc.RV.Ref

open Scc.RV

/-! ## reachability in the run loop -/

/-- the run loop gets from `s` to `s'`: after some units of fuel (items traversed) the machine is in state `s'` -/
def Reach (p : Program) (cfg : MonCfg) (s s' : State) : Prop :=
  ∃ k, stepN p cfg k s = .inl s'

theorem Reach.refl (p : Program) (cfg : MonCfg) (s : State) : Reach p cfg s s := ⟨0, rfl⟩

theorem Reach.trans {p : Program} {cfg : MonCfg} {s1 s2 s3 : State} (h1 : Reach p cfg s1 s2)
    (h2 : Reach p cfg s2 s3) : Reach p cfg s1 s3 := by
  obtain ⟨k1, h1⟩ := h1
  obtain ⟨k2, h2⟩ := h2
  exact ⟨k1 + k2, stepN_trans p cfg h1 h2⟩

/-- the run loop started in `s` continues as from `s'` -/
theorem Reach.loop {p : Program} {cfg : MonCfg} {s s' : State} (h : Reach p cfg s s') :
    ∃ k, ∀ fuel, runLoop p cfg (fuel + k) s = runLoop p cfg fuel s' := by
  obtain ⟨k, hk⟩ := h
  exact ⟨k, fun fuel => runLoop_stepN p cfg k fuel hk⟩

/-- one step -/
theorem Reach.of_step {p : Program} {cfg : MonCfg} {s s' : State} (h : step p cfg s = .inl s') :
    Reach p cfg s s' := ⟨1, by rw [stepN_one]; exact h⟩

theorem Reach.of_eq {p : Program} {cfg : MonCfg} {s s' : State} (h : s = s') : Reach p cfg s s' := by
  subst h; exact Reach.refl p cfg s

/-! ## single items -/

section Items

variable (p : Program) (cfg : MonCfg)

/-- a kept comment (a hook) does nothing when the heap monitor is off -/
theorem runLoop_comment (hheap : cfg.heap = false) (fuel : Nat) (s : State) {it : Item} {m : String}
    (hit : p.items[s.pc]? = some it) (hc : it.code = .COMMENT m) :
    runLoop p cfg (fuel + 1) s = runLoop p cfg fuel (setPS s (s.pc + 1) s.steps) := by
  simp only [runLoop, hit, hc, hheap]
  cases it.roots <;> simp [setPS]

/-- an instruction that jumps through a register -/
theorem runLoop_addr (fuel : Nat) (s s1 : State) {it : Item} {a : Word} {i : Nat}
    (hit : p.items[s.pc]? = some it) (hi : it.code.isInstr = true)
    (hx : exec cfg p.labelAddr it.addr it.code s = .ok (s1, .addr a)) (hl : p.addrIdx[a.toNat]? = some i) :
    runLoop p cfg (fuel + 1) s = runLoop p cfg fuel (setPS s1 i (s.steps + 1)) := by
  obtain ⟨_, hst⟩ := exec_pc_steps hx
  obtain ⟨line, code, addr, roots⟩ := it
  simp only at hi hx
  cases code <;> simp [Code.isInstr] at hi <;> simp only [runLoop, hit, hx, hl, setPS, hst]

/-- the label `cleanup`: the run ends with the result in the return register -/
theorem runLoop_cleanup (fuel : Nat) (s : State) {it : Item} {v : Word}
    (hit : p.items[s.pc]? = some it) (hc : it.code = .LAB "cleanup") (hv : s.readReg RETURN1 = .ok v) :
    (runLoop p cfg (fuel + 1) s).res = .done v := by
  simp only [runLoop, hit, hc, hv]
  rfl

end Items

/-! ## blocks with forward local labels, kept comments allowed -/

/-- the conditions under which a kept block can be run item by item: no use of the own code address, the
label `cleanup` (where the run ends) is not defined -/
structure RunnableK (cs : List Code) : Prop where
  pcFree : ∀ c ∈ cs, PcFree c = true
  noCleanup : Code.LAB "cleanup" ∉ cs

/-- THE BRIDGE, with kept comments: whenever `execFwd` runs the block (from offset `off`) to its end,
`runLoop` does the same -/
theorem run_fwdK (p : Program) (cfg : MonCfg) (hheap : cfg.heap = false) (pc0 : Nat) (cs : List Code)
    (hb : BlockAt p pc0 cs) (hr : RunnableK cs) :
    ∀ (n off : Nat) (s s' : State), cs.length - off ≤ n → off ≤ cs.length → s.pc = pc0 + off →
      execFwd cfg p.labelAddr (cs.drop off) s = .ok (s', .fall) →
      ∃ k steps', stepN p cfg k s = .inl (setPS s' (pc0 + cs.length) steps') := by
  intro n
  induction n with
  | zero =>
    intro off s s' hn hoff hpc hx
    have : off = cs.length := by omega
    subst this
    rw [List.drop_length, execFwd_nil] at hx
    simp only [Except.ok.injEq, Prod.mk.injEq, and_true] at hx
    subst hx
    exact ⟨0, s.steps, by simp only [stepN, setPS, ← hpc]⟩
  | succ n ih =>
    intro off s s' hn hoff hpc hx
    by_cases hlt : off < cs.length
    · have hdrop : cs.drop off = cs[off] :: cs.drop (off + 1) := by
        rw [List.drop_eq_getElem_cons hlt]
      obtain ⟨it, hit, hcode⟩ := hb.code off hlt
      rw [← hpc] at hit
      have hmem : cs[off] ∈ cs := List.getElem_mem hlt
      have hfree := hr.pcFree _ hmem
      rw [hdrop, execFwd_cons] at hx
      cases hex : exec cfg p.labelAddr 0 cs[off] s with
      | error e => simp [hex, contFwd] at hx
      | ok r =>
        obtain ⟨s1, ctl⟩ := r
        rw [hex] at hx
        have hex' : exec cfg p.labelAddr it.addr it.code s = .ok (s1, ctl) := by
          rw [hcode, exec_pcFree cfg _ _ hfree]; exact hex
        by_cases hlab : ∃ l, cs[off] = .LAB l
        · -- a label of the block: passed
          obtain ⟨l, hl⟩ := hlab
          rw [hl] at hex
          simp only [exec_LAB', Except.ok.injEq, Prod.mk.injEq] at hex
          obtain ⟨rfl, rfl⟩ := hex
          simp only [contFwd] at hx
          have hne : l ≠ "cleanup" := fun e => hr.noCleanup (by rw [← e, ← hl]; exact hmem)
          have hx' := execFwd_setPS cfg p.labelAddr (s.pc + 1) s.steps _ (cs.drop (off + 1)) s (Nat.le_refl _)
          rw [hx] at hx'
          obtain ⟨k, st, hk⟩ := ih (off + 1) _ _ (by omega) (by omega) (by simp only [setPS]; omega) hx'
          refine ⟨k + 1, st, ?_⟩
          rw [stepN_succ_of_step (Scc.RV.step_of_label p cfg s hit (by rw [hcode, hl]) hne)]
          exact hk
        · by_cases hcom : ∃ m, cs[off] = .COMMENT m
          · -- a kept comment: passed
            obtain ⟨m, hm⟩ := hcom
            rw [hm] at hex
            simp only [exec, Except.ok.injEq, Prod.mk.injEq] at hex
            obtain ⟨rfl, rfl⟩ := hex
            simp only [contFwd] at hx
            have hx' := execFwd_setPS cfg p.labelAddr (s.pc + 1) s.steps _ (cs.drop (off + 1)) s (Nat.le_refl _)
            rw [hx] at hx'
            obtain ⟨k, st, hk⟩ := ih (off + 1) _ _ (by omega) (by omega) (by simp only [setPS]; omega) hx'
            refine ⟨k + 1, st, ?_⟩
            rw [stepN_succ_of_step (Scc.RV.step_of_comment p cfg hheap s hit (by rw [hcode, hm]))]
            exact hk
          · -- an instruction
            have hins : it.code.isInstr = true := by
              rw [hcode]
              cases hc : cs[off] <;> simp [Code.isInstr]
              · exact hlab ⟨_, hc⟩
              · exact hcom ⟨_, hc⟩
            cases ctl with
            | fall =>
              simp only [contFwd] at hx
              have hx' := execFwd_setPS cfg p.labelAddr (s.pc + 1) (s.steps + 1) _ (cs.drop (off + 1)) s1
                (Nat.le_refl _)
              rw [hx] at hx'
              obtain ⟨k, st, hk⟩ := ih (off + 1) _ _ (by omega) (by omega) (by simp only [setPS]; omega) hx'
              refine ⟨k + 1, st, ?_⟩
              rw [stepN_succ_of_step (Scc.RV.step_of_fall p cfg s s1 hit hins hex')]
              exact hk
            | label l =>
              simp only [contFwd] at hx
              cases hsk : skipTo l (cs.drop (off + 1)) with
              | none => simp [hsk] at hx
              | some rest =>
                simp only [hsk] at hx
                obtain ⟨j, hj, hrest⟩ := skipTo_spec hsk
                have hj' : cs[off + 1 + j]? = some (.LAB l) := by
                  rw [List.getElem?_drop] at hj; exact hj
                obtain ⟨hjlt, hjeq⟩ := List.getElem?_eq_some_iff.1 hj'
                have hl := hb.labels _ _ hj'
                have hdrop2 : cs.drop (off + 1 + j) = .LAB l :: rest := by
                  rw [List.drop_eq_getElem_cons hjlt, hrest, List.drop_drop, hjeq]
                  rfl
                have hx2 : execFwd cfg p.labelAddr (cs.drop (off + 1 + j)) s1 = .ok (s', .fall) := by
                  rw [hdrop2, execFwd_cons, exec_LAB']
                  simp only [contFwd]
                  exact hx
                have hx' := execFwd_setPS cfg p.labelAddr (pc0 + (off + 1 + j)) (s.steps + 1) _
                  (cs.drop (off + 1 + j)) s1 (Nat.le_refl _)
                rw [hx2] at hx'
                obtain ⟨k, st, hk⟩ := ih (off + 1 + j) _ _ (by omega) (by omega) (by simp only [setPS]) hx'
                refine ⟨k + 1, st, ?_⟩
                rw [stepN_succ_of_step (Scc.RV.step_of_jump p cfg s s1 hit hins hex' hl)]
                exact hk
            | addr a => simp [contFwd] at hx
    · have : off = cs.length := by omega
      subst this
      rw [List.drop_length, execFwd_nil] at hx
      simp only [Except.ok.injEq, Prod.mk.injEq, and_true] at hx
      subst hx
      exact ⟨0, s.steps, by simp only [stepN, setPS, ← hpc]⟩

/-! ## code at an index of the kept codes -/

/-- the emitted code `items` lies in the kept codes `ks` from index `pc` on (some comments dropped) -/
def KAt (ks : List Code) (pc : Nat) (items : List Code) : Prop :=
  ∃ k1 ki rest, ks = k1 ++ ki ++ rest ∧ k1.length = pc ∧ Keeps items ki

theorem KAt.split {ks : List Code} {pc : Nat} {a b : List Code} (h : KAt ks pc (a ++ b)) :
    ∃ ka, (∃ k1 rest, ks = k1 ++ ka ++ rest ∧ k1.length = pc) ∧ Keeps a ka ∧ KAt ks (pc + ka.length) b := by
  obtain ⟨k1, ki, rest, e, hl, hk⟩ := h
  obtain ⟨ka, kb, e2, h1, h2⟩ := hk.append_inv
  refine ⟨ka, ⟨k1, kb ++ rest, by rw [e, e2]; simp, hl⟩, h1, k1 ++ ka, kb, rest, by rw [e, e2]; simp, by simp [hl], h2⟩

theorem KAt.left {ks : List Code} {pc : Nat} {a b : List Code} (h : KAt ks pc (a ++ b)) : KAt ks pc a := by
  obtain ⟨ka, ⟨k1, rest, e, hl⟩, hk, _⟩ := h.split
  exact ⟨k1, ka, rest, e, hl, hk⟩

/-- a non-comment at the front is the item at `pc` -/
theorem KAt.head {ks : List Code} {pc : Nat} {c : Code} {b : List Code} (h : KAt ks pc (c :: b))
    (hc : c.isComment = false) : ks[pc]? = some c ∧ KAt ks (pc + 1) b := by
  obtain ⟨k1, ki, rest, e, hl, hk⟩ := h
  obtain ⟨ki', rfl, hk'⟩ := hk.cons_inv hc
  refine ⟨by rw [e, ← hl]; simp, k1 ++ [c], ki', rest, by rw [e]; simp, by simp [hl], hk'⟩

/-- the labels of the kept codes are those of the emitted code -/
theorem kat_lab_mem {ks : List Code} {pc : Nat} {items : List Code} (h : KAt ks pc items) {l : String}
    (hl : l ∈ labs items) : l ∈ labs ks := by
  obtain ⟨k1, ki, rest, e, _, hk⟩ := h
  rw [e, labs_append, labs_append, hk.labs]
  simp [hl]

section Bridge

variable {p : Program} {cfg : MonCfg} {ks : List Code} (L : Loaded p ks) (hnd : (labs ks).Nodup)
  (hheap : cfg.heap = false)

include L in
theorem loaded_item {i : Nat} {c : Code} (h : ks[i]? = some c) :
    ∃ it, p.items[i]? = some it ∧ it.code = c ∧ it.addr = codeBase + 4 * icount (ks.take i) := by
  obtain ⟨hlt, e⟩ := List.getElem?_eq_some_iff.1 h
  obtain ⟨it, h1, h2, h3⟩ := L.code i hlt
  exact ⟨it, h1, by rw [h2, e], h3⟩

include L hnd in
/-- a segment of the kept codes is a block of the program -/
theorem blockAt_of_loaded {k1 ki rest : List Code} (e : ks = k1 ++ ki ++ rest) : BlockAt p k1.length ki := by
  refine ⟨fun i h => ?_, fun j l hj => ?_⟩
  · have hg : ks[k1.length + i]? = some ki[i] := by
      rw [e, List.append_assoc, List.getElem?_append_right (by omega)]
      simp only [Nat.add_sub_cancel_left]
      rw [List.getElem?_append_left h, List.getElem?_eq_getElem h]
    obtain ⟨it, h1, h2, _⟩ := loaded_item L hg
    exact ⟨it, h1, h2⟩
  · have hjlt : j < ki.length := by
      rcases Nat.lt_or_ge j ki.length with h | h
      · exact h
      · rw [List.getElem?_eq_none h] at hj; cases hj
    have hg : ks[k1.length + j]? = some (.LAB l) := by
      rw [e, List.append_assoc, List.getElem?_append_right (by omega)]
      simp only [Nat.add_sub_cancel_left]
      rw [List.getElem?_append_left hjlt]
      exact hj
    rw [L.labels]
    exact labIdx_of_nodup hnd hg

include L hnd hheap in
/-- THE BRIDGE for an emitted block with forward local labels that lies at the program counter: whenever
`execFwd` runs it to its end, so does the machine, and it continues with the code that follows -/
theorem exec_block {blk more : List Code} {s s' : State} (hat : KAt ks s.pc (blk ++ more))
    (hfree : MemFree blk) (hclean : Code.LAB "cleanup" ∉ blk)
    (hx : execFwd cfg p.labelAddr blk s = .ok (s', .fall)) :
    ∃ pc' steps', Reach p cfg s (setPS s' pc' steps') ∧ KAt ks pc' more := by
  obtain ⟨ka, ⟨k1, rest, e, hl⟩, hk, hmore⟩ := hat.split
  have hb : BlockAt p k1.length ka := blockAt_of_loaded L hnd e
  have hr : RunnableK ka := by
    refine ⟨fun c hc => ?_, fun hc => hclean (hk.mem_noncomment _ hc rfl)⟩
    by_cases hcc : c.isComment = true
    · cases c <;> simp [Code.isComment] at hcc; rfl
    · exact hfree c (hk.mem_noncomment c hc (by simpa using hcc))
  have hx' : execFwd cfg p.labelAddr ka s = .ok (s', .fall) := by
    rw [← execFwd_stripComments cfg p.labelAddr ka.length ka s (Nat.le_refl _), hk.strip,
      execFwd_stripComments cfg p.labelAddr blk.length blk s (Nat.le_refl _)]
    exact hx
  obtain ⟨k, steps', hk'⟩ := run_fwdK p cfg hheap k1.length ka hb hr ka.length 0 s s' (by omega) (by omega)
    (by rw [hl]; rfl) (by simpa using hx')
  exact ⟨k1.length + ka.length, steps', ⟨k, hk'⟩, by rw [hl]; exact hmore⟩

include L hnd hheap in
/-- comments at the program counter are passed -/
theorem pass_comments {c0 more : List Code} {s : State} (hat : KAt ks s.pc (c0 ++ more))
    (hc0 : ∀ y ∈ c0, ∃ m, y = Code.COMMENT m) :
    ∃ pc' steps', Reach p cfg s (setPS s pc' steps') ∧ KAt ks pc' more := by
  refine exec_block L hnd hheap hat (fun c hc => ?_) (fun hc => ?_) ?_
  · obtain ⟨m, rfl⟩ := hc0 c hc; rfl
  · obtain ⟨m, e⟩ := hc0 _ hc; cases e
  · clear hat
    induction c0 generalizing s with
    | nil => exact execFwd_nil cfg _ s
    | cons y c0 ih =>
      obtain ⟨m, rfl⟩ := hc0 y (by simp)
      rw [execFwd_cons]
      simp only [exec, contFwd]
      exact ih (fun y hy => hc0 y (by simp [hy]))

include L in
/-- an instruction at the program counter that falls through -/
theorem step_fall {c : Code} {more : List Code} {s s1 : State} (hat : KAt ks s.pc (c :: more))
    (hi : c.isInstr = true) (hx : ∀ a, exec cfg p.labelAddr a c s = .ok (s1, .fall)) :
    Reach p cfg s (setPS s1 (s.pc + 1) (s.steps + 1)) ∧ KAt ks (s.pc + 1) more := by
  have hc : c.isComment = false := by cases c <;> first | rfl | (simp [Code.isInstr] at hi)
  obtain ⟨hg, hm⟩ := hat.head hc
  obtain ⟨it, h1, h2, _⟩ := loaded_item L hg
  refine ⟨Reach.of_step ?_, hm⟩
  exact Scc.RV.step_of_fall p cfg s s1 h1 (by rw [h2]; exact hi) (by rw [h2]; exact hx _)

include L in
/-- an instruction at the program counter that jumps to a label -/
theorem step_label {c : Code} {more : List Code} {s s1 : State} {l : String} {i : Nat}
    (hat : KAt ks s.pc (c :: more)) (hi : c.isInstr = true)
    (hx : ∀ a, exec cfg p.labelAddr a c s = .ok (s1, .label l)) (hl : labIdx ks l = some i) :
    Reach p cfg s (setPS s1 i (s.steps + 1)) := by
  have hc : c.isComment = false := by cases c <;> first | rfl | (simp [Code.isInstr] at hi)
  obtain ⟨hg, _⟩ := hat.head hc
  obtain ⟨it, h1, h2, _⟩ := loaded_item L hg
  refine Reach.of_step ?_
  exact Scc.RV.step_of_jump p cfg s s1 h1 (by rw [h2]; exact hi) (by rw [h2]; exact hx _)
    (by rw [L.labels]; exact hl)

include L in
/-- an instruction at the program counter that jumps to the address of instruction `j` -/
theorem step_addr {c : Code} {more : List Code} {s s1 : State} {a : Word} {j : Nat}
    (hat : KAt ks s.pc (c :: more)) (hi : c.isInstr = true)
    (hx : ∀ a', exec cfg p.labelAddr a' c s = .ok (s1, .addr a)) (hj : j < ks.length)
    (hji : ks[j].isInstr = true) (ha : a.toNat = codeBase + 4 * icount (ks.take j)) :
    Reach p cfg s (setPS s1 ((pendOf (ks.take j)).getD j) (s.steps + 1)) := by
  have hc : c.isComment = false := by cases c <;> first | rfl | (simp [Code.isInstr] at hi)
  obtain ⟨hg, _⟩ := hat.head hc
  obtain ⟨it, h1, h2, _⟩ := loaded_item L hg
  refine Reach.of_step ?_
  exact Scc.RV.step_of_addr p cfg s s1 h1 (by rw [h2]; exact hi) (by rw [h2]; exact hx _)
    (by rw [ha]; exact L.addrs j hj hji)

include L in
/-- a label (not `cleanup`) at the program counter is passed -/
theorem pass_label {l : String} {more : List Code} {s : State} (hat : KAt ks s.pc (Code.LAB l :: more))
    (hl : l ≠ "cleanup") : Reach p cfg s (setPS s (s.pc + 1) s.steps) ∧ KAt ks (s.pc + 1) more := by
  obtain ⟨hg, hm⟩ := hat.head rfl
  obtain ⟨it, h1, h2, _⟩ := loaded_item L hg
  refine ⟨Reach.of_step ?_, hm⟩
  exact Scc.RV.step_of_label p cfg s h1 h2 hl

include L hheap in
/-- items that are no instructions (labels other than `cleanup`, hooks) are passed -/
theorem pass_items (s : State) : ∀ (n i : Nat), s.pc = i → i + n ≤ ks.length →
    (∀ m, i ≤ m → m < i + n → ∀ c, ks[m]? = some c → c.isInstr = false ∧ c ≠ Code.LAB "cleanup") →
    Reach p cfg s (setPS s (i + n) s.steps)
  | 0, i, hpc, _, _ => by
    exact Reach.of_eq (by subst hpc; rfl)
  | n + 1, i, hpc, hle, hall => by
    have hlt : i < ks.length := by omega
    have hg : ks[i]? = some ks[i] := List.getElem?_eq_getElem hlt
    obtain ⟨hni, hnc⟩ := hall i (Nat.le_refl _) (by omega) _ hg
    obtain ⟨it, h1, h2, _⟩ := loaded_item L hg
    have h1' : p.items[s.pc]? = some it := by rw [hpc]; exact h1
    have hstep : Reach p cfg s (setPS s (i + 1) s.steps) := by
      refine Reach.of_step ?_
      cases hc : ks[i] with
      | LAB l =>
        rw [hc] at h2 hnc
        rw [Scc.RV.step_of_label p cfg s h1' h2 (fun e => hnc (by rw [e])), hpc]
        rfl
      | COMMENT m =>
        rw [hc] at h2
        rw [Scc.RV.step_of_comment p cfg hheap s h1' h2, hpc]
      | _ => rw [hc] at hni; simp [Code.isInstr] at hni
    have := pass_items (setPS s (i + 1) s.steps) n (i + 1) rfl (by omega)
      (fun m h1 h2 c hc => hall m (by omega) (by omega) c hc)
    have e : i + 1 + n = i + (n + 1) := by omega
    rw [e] at this
    exact hstep.trans this

include L in
/-- at the label `cleanup` the run ends with the content of the return register -/
theorem run_done {s : State} {v : Word} (hg : ks[s.pc]? = some (Code.LAB "cleanup"))
    (hv : s.readReg RETURN1 = .ok v) (fuel : Nat) : (runLoop p cfg (fuel + 1) s).res = .done v := by
  obtain ⟨it, h1, h2, _⟩ := loaded_item L hg
  exact runLoop_cleanup p cfg fuel s h1 h2 hv

end Bridge

/-- reaching a state from which the run ends -/
theorem Reach.done {p : Program} {cfg : MonCfg} {s s' : State} {v : Word} (h : Reach p cfg s s')
    (hd : ∀ fuel, (runLoop p cfg (fuel + 1) s').res = .done v) : ∃ fuel, (runLoop p cfg fuel s).res = .done v := by
  obtain ⟨k, hk⟩ := h.loop
  exact ⟨1 + k, by rw [hk]; exact hd 0⟩

end Scc.RV.Ref
