/-
  Scc.RV.Lemmas — proof file: register-file lemmas and one-instruction contracts of the RV64
  machine (Scc/RV/Machine.lean) for the instruction lists emitted by the backend model
  (Scc/RV/Backend.lean).  Used by Scc/Props/C08RV.lean and C14RV.lean.
-/
import Scc.RV.Machine
import Scc.RV.Backend
import Scc.AxCut.SemPos

set_option linter.unusedSimpArgs false

namespace Scc.RV

open Scc.AxCut Scc.Backend

/-! ## register file -/

/-- the register file has its 32 entries -/
def State.WF (s : State) : Prop := s.regs.size = registerNum

/-- a register that can be written and read back: X1 .. X31 -/
def Register.Usable (r : Register) : Prop := r.n ≠ 0 ∧ r.n < registerNum

theorem writeReg_wf {s : State} (h : s.WF) (r : Register) (v : Word) : (s.writeReg r v).WF := by
  unfold State.writeReg State.WF at *
  split <;> simp_all

theorem copyReg_wf {s : State} (h : s.WF) (x y : Register) : (s.copyReg x y).WF := by
  unfold State.copyReg State.WF at *
  split
  · exact h
  · split <;> simp_all

theorem readReg_zero (s : State) : s.readReg ZERO = .ok 0 := by
  simp [State.readReg, ZERO]

theorem readReg_writeReg_same {s : State} (h : s.WF) {r : Register} (hr : r.Usable) (v : Word) :
    (s.writeReg r v).readReg r = .ok v := by
  obtain ⟨h0, h32⟩ := hr
  unfold State.WF at h
  simp [State.readReg, State.writeReg, h0, Array.getElem?_setIfInBounds, h, h32]

theorem readReg_writeReg_other (s : State) {r r' : Register} (hne : r'.n ≠ r.n) (v : Word) :
    (s.writeReg r v).readReg r' = s.readReg r' := by
  unfold State.readReg State.writeReg
  by_cases h0 : r.n = 0
  · simp [h0]
  · by_cases h0' : r'.n = 0
    · simp [h0']
    · simp [h0, h0', Array.getElem?_setIfInBounds, Ne.symm hne]

theorem readReg_copyReg_same {s : State} (h : s.WF) {x y : Register} (hx : x.Usable) {v : Word}
    (hy : s.readReg y = .ok v) : (s.copyReg x y).readReg x = .ok v := by
  obtain ⟨h0, h32⟩ := hx
  unfold State.WF at h
  unfold State.readReg at hy
  unfold State.copyReg State.readReg
  by_cases hy0 : y.n = 0
  · simp [hy0] at hy
    simp [h0, hy0, h, h32, hy]
  · simp only [hy0, if_false] at hy
    simp only [h0, hy0, if_false]
    cases hyv : s.regs[y.n]? with
    | none => simp [hyv] at hy
    | some o =>
      cases o with
      | none => simp [hyv] at hy
      | some w =>
        simp [hyv] at hy
        simp [h, h32, hy]

theorem readReg_copyReg_other (s : State) {x y r : Register} (hne : r.n ≠ x.n) :
    (s.copyReg x y).readReg r = s.readReg r := by
  unfold State.copyReg State.readReg
  by_cases h0 : x.n = 0
  · simp [h0]
  · by_cases hr : r.n = 0
    · simp [hr]
    · by_cases hy : y.n = 0 <;> simp [h0, hr, hy, Ne.symm hne]

theorem writeReg_mem (s : State) (r : Register) (v : Word) : (s.writeReg r v).mem = s.mem := by
  unfold State.writeReg; split <;> rfl

theorem copyReg_mem (s : State) (a b : Register) : (s.copyReg a b).mem = s.mem := by
  unfold State.copyReg; split; rfl; split <;> rfl

/-! ## straight-line blocks -/

/-- Execution of a straight-line block starting at byte address `pc`: instructions are executed
in order as long as they fall through; the first jump taken ends the block.  (This is what
`runLoop` does on consecutive items; labels and comments are skipped and have size 0.) -/
def execList (cfg : MonCfg) (la : String → Option Nat) : Nat → List Code → State →
    Except String (State × Next)
  | _, [], s => .ok (s, .fall)
  | pc, c :: cs, s =>
    match exec cfg la pc c s with
    | .error e => .error e
    | .ok (s1, .fall) => execList cfg la (if c.isInstr then pc + 4 else pc) cs s1
    | .ok (s1, n) => .ok (s1, n)

variable (cfg : MonCfg) (la : String → Option Nat) (pc : Nat)

theorem execList_singleton (c : Code) (s : State) :
    execList cfg la pc [c] s = exec cfg la pc c s := by
  unfold execList
  cases h : exec cfg la pc c s with
  | error e => rfl
  | ok r =>
    obtain ⟨s1, n⟩ := r
    cases n <;> simp [execList]

/-! ## operators (code.rs add/sub/mul/div/rem against the positional machine's `evalOp`) -/

theorem int64Min_eq : INT64_MIN = Pos.minInt := by decide

/-- Every operator, all operand values: where the AxCut machine computes `v`, the emitted
instruction writes `v` into the target and falls through. -/
theorem exec_binop (o : BinOp) (t a b : Register) (s : State) (va vb v : Word)
    (ha : s.readReg a = .ok va) (hb : s.readReg b = .ok vb) (hv : Pos.evalOp o va vb = .ok v) :
    execList cfg la pc (rvBackend.binop o t a b) s = .ok (s.writeReg t v, .fall) := by
  cases o
  case sum => simp_all [rvBackend, binop, execList, exec, arith3, Pos.evalOp]
  case sub => simp_all [rvBackend, binop, execList, exec, arith3, Pos.evalOp]
  case prod => simp_all [rvBackend, binop, execList, exec, arith3, Pos.evalOp]
  case div =>
    by_cases h0 : vb = 0#64
    · simp [Pos.evalOp, h0] at hv
    · by_cases h1 : va = Pos.minInt ∧ vb = 18446744073709551615#64
      · simp [Pos.evalOp, h0, h1] at hv
      · simp [Pos.evalOp, h0, h1] at hv
        subst hv
        simp [rvBackend, binop, execList, exec, arith3, ha, hb, divW, int64Min_eq, h0, h1]
  case rem =>
    by_cases h0 : vb = 0#64
    · simp [Pos.evalOp, h0] at hv
    · by_cases h1 : va = Pos.minInt ∧ vb = 18446744073709551615#64
      · simp [Pos.evalOp, h0, h1] at hv
      · simp [Pos.evalOp, h0, h1] at hv
        subst hv
        simp [rvBackend, binop, execList, exec, arith3, ha, hb, remW, int64Min_eq, h0, h1]

/-- … and where the AxCut machine is stuck (division by zero, MIN / -1) the machine faults. -/
theorem exec_binop_fault (o : BinOp) (t a b : Register) (s : State) (va vb : Word) (w : Pos.Why)
    (ha : s.readReg a = .ok va) (hb : s.readReg b = .ok vb) (hv : Pos.evalOp o va vb = .error w) :
    ∃ e, execList cfg la pc (rvBackend.binop o t a b) s = .error e := by
  cases o
  case sum => simp [Pos.evalOp] at hv
  case sub => simp [Pos.evalOp] at hv
  case prod => simp [Pos.evalOp] at hv
  case div =>
    by_cases h0 : vb = 0#64
    · simp [rvBackend, binop, execList, exec, arith3, ha, hb, divW, h0]
    · by_cases h1 : va = Pos.minInt ∧ vb = 18446744073709551615#64
      · simp [rvBackend, binop, execList, exec, arith3, ha, hb, divW, int64Min_eq, h0, h1]
      · simp [Pos.evalOp, h0, h1] at hv
  case rem =>
    by_cases h0 : vb = 0#64
    · simp [rvBackend, binop, execList, exec, arith3, ha, hb, remW, h0]
    · by_cases h1 : va = Pos.minInt ∧ vb = 18446744073709551615#64
      · simp [rvBackend, binop, execList, exec, arith3, ha, hb, remW, int64Min_eq, h0, h1]
      · simp [Pos.evalOp, h0, h1] at hv

/-! ## comparisons + branch (code.rs jump_label_if_* against the positional machine's `evalCmp`)

`BEQ BNE BLT BGE` are real RV64 branches; `BLE a b` and `BGT a b` are assembler pseudo-instructions
(`BGE b a`, `BLT b a`: the operands are swapped), which is how the machine executes them. -/

theorem sle_eq_not_slt (a b : Word) : a.sle b = !(b.slt a) := by
  simp only [BitVec.sle, BitVec.slt]
  by_cases h : a.toInt ≤ b.toInt
  · simp [h, Int.not_lt.mpr h]
  · simp [h, Int.not_le.mp h]

/-- two-operand form: the branch is taken iff the AxCut comparison holds -/
theorem exec_jumpLabelIf (sort : IfSort) (a b : Register) (l : String) (s : State) (va vb : Word)
    (ha : s.readReg a = .ok va) (hb : s.readReg b = .ok vb) :
    execList cfg la pc (rvBackend.jumpLabelIf sort a b l) s =
      .ok (s, if Pos.evalCmp sort va vb then .label l else .fall) := by
  cases sort <;>
    simp [rvBackend, jumpLabelIf, execList_singleton, exec, branch, ha, hb, Pos.evalCmp,
      sle_eq_not_slt] <;>
    (try (cases BitVec.slt va vb <;> rfl)) <;> (try (cases BitVec.slt vb va <;> rfl))

/-- zero form: the second operand is the hard-wired `X0` -/
theorem exec_jumpLabelIfZero (sort : IfSort) (a : Register) (l : String) (s : State) (va : Word)
    (ha : s.readReg a = .ok va) :
    execList cfg la pc (rvBackend.jumpLabelIfZero sort a l) s =
      .ok (s, if Pos.evalCmp sort va 0 then .label l else .fall) :=
  exec_jumpLabelIf cfg la pc sort a ZERO l s va 0 ha (readReg_zero s)

/-! ## mov, load_immediate, load_label, jumps -/

theorem exec_mov (t a : Register) (s : State) :
    execList cfg la pc (rvBackend.mov t a) s = .ok (s.copyReg t a, .fall) := by
  simp [rvBackend, execList, exec]

/-- `mov`: the target holds the source value afterwards, every other register is unchanged -/
theorem exec_mov_spec (t a : Register) (s : State) (hs : s.WF) (ht : t.Usable) (v : Word)
    (ha : s.readReg a = .ok v) :
    ∃ s', execList cfg la pc (rvBackend.mov t a) s = .ok (s', .fall) ∧ s'.WF ∧
      s'.readReg t = .ok v ∧ (∀ r : Register, r.n ≠ t.n → s'.readReg r = s.readReg r) ∧
      s'.mem = s.mem :=
  ⟨s.copyReg t a, exec_mov cfg la pc t a s, copyReg_wf hs t a, readReg_copyReg_same hs ht ha,
    fun _ hne => readReg_copyReg_other s hne, copyReg_mem s t a⟩

/-- `load_immediate` (`LI`): ANY 64-bit literal in one instruction, the value the AxCut machine
uses for `lit` (`BitVec.ofInt 64 n`) -/
theorem exec_loadImmediate (t : Register) (n : Int) (s : State) :
    execList cfg la pc (rvBackend.loadImmediate t n) s = .ok (s.writeReg t (BitVec.ofInt 64 n), .fall) := by
  simp [rvBackend, execList, exec, imm]

theorem exec_loadLabel (t : Register) (l : String) (a : Nat) (s : State) (hl : la l = some a) :
    execList cfg la pc (rvBackend.loadLabel t l) s = .ok (s.writeReg t (BitVec.ofNat 64 a), .fall) := by
  simp [rvBackend, execList, exec, hl]

theorem exec_jumpLabel (l : String) (s : State) :
    execList cfg la pc (rvBackend.jumpLabel l) s = .ok (s, .label l) := by
  simp [rvBackend, execList, exec, State.writeReg, ZERO]

theorem exec_jumpLabelFixed (l : String) (s : State) :
    execList cfg la pc (rvBackend.jumpLabelFixed l) s = .ok (s, .label l) := by
  simp [rvBackend, execList, exec, State.writeReg, ZERO]

/-- clearing bit 0 of an even address does nothing (`JALR` clears bit 0 of the target) -/
theorem and_not_one_of_even (n : Nat) (h : n % 2 = 0) :
    BitVec.ofNat 64 n &&& ~~~(1#64) = BitVec.ofNat 64 n := by
  apply BitVec.eq_of_getLsbD_eq
  intro i hi
  simp only [BitVec.getLsbD_and, BitVec.getLsbD_not, BitVec.getLsbD_ofNat]
  by_cases h0 : i = 0
  · subst h0
    simp [Nat.testBit_zero, h]
  · simp
    intro _ _
    refine ⟨hi, Or.inr ?_⟩
    cases i with
    | zero => contradiction
    | succ j => simp [Nat.testBit_succ]

theorem exec_jump (t : Register) (s : State) (n : Nat) (ht : s.readReg t = .ok (BitVec.ofNat 64 n))
    (heven : n % 2 = 0) :
    execList cfg la pc (rvBackend.jump t) s = .ok (s, .addr (BitVec.ofNat 64 n)) := by
  have h := and_not_one_of_even n heven
  simp [rvBackend, execList, exec, ht, State.writeReg, ZERO, imm]
  simpa using h

theorem temp_usable : TEMP.Usable := ⟨by decide, by decide⟩

theorem return1_usable : RETURN1.Usable := ⟨by decide, by decide⟩

theorem imm_natCast (n : Nat) : imm (n : Int) = BitVec.ofNat 64 n := by
  simp [imm]

theorem writeReg_zero (s : State) (v : Word) : s.writeReg ZERO v = s := by
  simp [State.writeReg, ZERO]

theorem execList_cons_fall {c : Code} {cs : List Code} {s s1 : State}
    (h : exec cfg la pc c s = .ok (s1, .fall)) :
    execList cfg la pc (c :: cs) s = execList cfg la (if c.isInstr then pc + 4 else pc) cs s1 := by
  simp [execList, h]

theorem exec_LA {x : Register} {l : String} {a : Nat} (s : State) (hl : la l = some a) :
    exec cfg la pc (.LA x l) s = .ok (s.writeReg x (BitVec.ofNat 64 a), .fall) := by
  simp [exec, hl]

theorem exec_ADD {x y z : Register} {s : State} {a b : Word} (hy : s.readReg y = .ok a)
    (hz : s.readReg z = .ok b) :
    exec cfg la pc (.ADD x y z) s = .ok (s.writeReg x (a + b), .fall) := by
  simp [exec, arith3, hy, hz]

theorem exec_ADDI {x y : Register} {s : State} {a : Word} (c : Int) (hy : s.readReg y = .ok a) :
    exec cfg la pc (.ADDI x y c) s = .ok (s.writeReg x (a + imm c), .fall) := by
  simp [exec, hy]

theorem exec_JALR_zero {y : Register} {s : State} {n : Nat} (hy : s.readReg y = .ok (BitVec.ofNat 64 n))
    (heven : n % 2 = 0) :
    exec cfg la pc (.JALR ZERO y 0) s = .ok (s, .addr (BitVec.ofNat 64 n)) := by
  have h := and_not_one_of_even n heven
  simp only [exec, hy, writeReg_zero, imm]
  simp
  simpa using h

/-- `add_and_jump` with the stride of the jump tables: from the address `A` of a table the jump
goes to `A + 4 k`, the address of the k-th entry (every entry is one 4-byte `JAL`).  Only the
scratch register `TEMP` changes. -/
theorem exec_addAndJump (t : Register) (k : Nat) (s : State) (hs : s.WF) (A : Nat)
    (ht : s.readReg t = .ok (BitVec.ofNat 64 A)) (hA : A % 2 = 0) :
    ∃ s', execList cfg la pc (rvBackend.addAndJump t (rvBackend.jumpLength k)) s =
        .ok (s', .addr (BitVec.ofNat 64 (A + 4 * k))) ∧
      (∀ r : Register, r.n ≠ TEMP.n → s'.readReg r = s.readReg r) ∧ s'.mem = s.mem := by
  have hk : jumpLength k = ((4 * k : Nat) : Int) := by simp [jumpLength]
  have hsum : BitVec.ofNat 64 A + imm (jumpLength k) = BitVec.ofNat 64 (A + 4 * k) := by
    rw [hk, imm_natCast]; simp [BitVec.ofNat_add]
  have heven : (A + 4 * k) % 2 = 0 := by omega
  refine ⟨s.writeReg TEMP (BitVec.ofNat 64 (A + 4 * k)), ?_, ?_, writeReg_mem _ _ _⟩
  · have hr := readReg_writeReg_same hs temp_usable (BitVec.ofNat 64 (A + 4 * k))
    show execList cfg la pc [.ADDI TEMP t (jumpLength k), .JALR ZERO TEMP 0] s = _
    rw [execList_cons_fall cfg la pc (exec_ADDI cfg la pc _ ht), hsum, execList_singleton,
      exec_JALR_zero cfg la _ hr heven]
  · intro r hne
    exact readReg_writeReg_other s hne _

/-- the dispatch of `switch`: `LA TEMP table; ADD TEMP TEMP tag; JALR X0 TEMP 0` with the tag
`jump_length k` that `let` put into the second temporary goes to the k-th table entry -/
theorem exec_switch_dispatch (tag : Register) (L : String) (A k : Nat) (s : State) (hs : s.WF)
    (hl : la L = some A) (hA : A % 2 = 0) (htag : tag.n ≠ TEMP.n)
    (hv : s.readReg tag = .ok (BitVec.ofInt 64 (rvBackend.jumpLength k))) :
    ∃ s', execList cfg la pc (rvBackend.loadLabel rvBackend.temp L ++
          rvBackend.binop .sum rvBackend.temp rvBackend.temp tag ++ rvBackend.jump rvBackend.temp) s =
        .ok (s', .addr (BitVec.ofNat 64 (A + 4 * k))) ∧
      (∀ r : Register, r.n ≠ TEMP.n → s'.readReg r = s.readReg r) ∧ s'.mem = s.mem := by
  have hk : BitVec.ofInt 64 (jumpLength k) = BitVec.ofNat 64 (4 * k) := by
    rw [show jumpLength k = ((4 * k : Nat) : Int) by simp [jumpLength], BitVec.ofInt_natCast]
  have hsum : BitVec.ofNat 64 A + BitVec.ofNat 64 (4 * k) = BitVec.ofNat 64 (A + 4 * k) := by
    simp [BitVec.ofNat_add]
  have heven : (A + 4 * k) % 2 = 0 := by omega
  have hs1 : (s.writeReg TEMP (BitVec.ofNat 64 A)).WF := writeReg_wf hs _ _
  have hr1 : (s.writeReg TEMP (BitVec.ofNat 64 A)).readReg TEMP = .ok (BitVec.ofNat 64 A) :=
    readReg_writeReg_same hs temp_usable _
  have ht1 : (s.writeReg TEMP (BitVec.ofNat 64 A)).readReg tag = .ok (BitVec.ofNat 64 (4 * k)) := by
    rw [readReg_writeReg_other s htag, hv]
    show Except.ok (BitVec.ofInt 64 (jumpLength k)) = _
    rw [hk]
  have hr2 := readReg_writeReg_same hs1 temp_usable (BitVec.ofNat 64 (A + 4 * k))
  refine ⟨(s.writeReg TEMP (BitVec.ofNat 64 A)).writeReg TEMP (BitVec.ofNat 64 (A + 4 * k)),
    ?_, ?_, ?_⟩
  · show execList cfg la pc [.LA TEMP L, .ADD TEMP TEMP tag, .JALR ZERO TEMP 0] s = _
    rw [execList_cons_fall cfg la pc (exec_LA cfg la pc s hl),
      execList_cons_fall cfg la _ (exec_ADD cfg la _ hr1 ht1), hsum, execList_singleton,
      exec_JALR_zero cfg la _ hr2 heven]
  · intro r hne
    rw [readReg_writeReg_other _ hne, readReg_writeReg_other _ hne]
  · rw [writeReg_mem, writeReg_mem]

/-! ## parallel moves through `TEMP` (parallel_moves.rs) -/

theorem exec_storeTemporary (t : Register) (spill : Bool) (s : State) :
    execList cfg la pc (rvBackend.storeTemporary t spill) s = .ok (s.copyReg TEMP t, .fall) := by
  simp [rvBackend, execList, exec]

theorem exec_restoreTemporary (t : Register) (spill : Bool) (s : State) :
    execList cfg la pc (rvBackend.restoreTemporary t spill) s = .ok (s.copyReg t TEMP, .fall) := by
  simp [rvBackend, execList, exec]

/-- The code of a two-cycle `x ↦ y, y ↦ x` as `root_moves` emits it (save `y` in `TEMP`, move
`x` to `y`, restore `TEMP` into `x`) exchanges the two registers and changes nothing else but
`TEMP`. -/
theorem exec_swap_through_temp (x y : Register) (spill : Bool) (s : State) (hs : s.WF)
    (hx : x.Usable) (hy : y.Usable) (hxy : x.n ≠ y.n) (hxt : x.n ≠ TEMP.n) (hyt : y.n ≠ TEMP.n)
    (vx vy : Word) (hvx : s.readReg x = .ok vx) (hvy : s.readReg y = .ok vy) :
    ∃ s', execList cfg la pc (rvBackend.storeTemporary y spill ++ rvBackend.mov y x ++
          rvBackend.restoreTemporary x spill) s = .ok (s', .fall) ∧
      s'.readReg x = .ok vy ∧ s'.readReg y = .ok vx ∧
      (∀ r : Register, r.n ≠ x.n → r.n ≠ y.n → r.n ≠ TEMP.n → s'.readReg r = s.readReg r) ∧
      s'.mem = s.mem := by
  let s1 := s.copyReg TEMP y
  let s2 := s1.copyReg y x
  let s3 := s2.copyReg x TEMP
  have hs1 : s1.WF := copyReg_wf hs _ _
  have hs2 : s2.WF := copyReg_wf hs1 _ _
  have h1t : s1.readReg TEMP = .ok vy := readReg_copyReg_same hs temp_usable hvy
  have h1x : s1.readReg x = .ok vx := by rw [readReg_copyReg_other s hxt]; exact hvx
  have h2y : s2.readReg y = .ok vx := readReg_copyReg_same hs1 hy h1x
  have h2t : s2.readReg TEMP = .ok vy := by
    rw [readReg_copyReg_other s1 (Ne.symm hyt)]; exact h1t
  have h3x : s3.readReg x = .ok vy := readReg_copyReg_same hs2 hx h2t
  have h3y : s3.readReg y = .ok vx := by
    rw [readReg_copyReg_other s2 (Ne.symm hxy)]; exact h2y
  refine ⟨s3, ?_, h3x, h3y, ?_, ?_⟩
  · simp [rvBackend, execList, exec, s3, s2, s1]
  · intro r h1 h2 h3
    simp only [s3, s2, s1]
    rw [readReg_copyReg_other _ h1, readReg_copyReg_other _ h2, readReg_copyReg_other _ h3]
  · simp only [s3, s2, s1, copyReg_mem]

/-! ## exit (statements/exit.rs): `MV X10 t; JAL X0 cleanup`

`RETURN1 = X10` is ALSO the first temporary of the variable at position 3 (and `X11`, the second
temporary of that position, may be the operand `t`): the contract holds for EVERY operand
register, because the move into `X10` is the last thing the program does. -/
theorem exec_exit (t : Register) (s : State) (hs : s.WF) (v : Word) (ht : s.readReg t = .ok v) :
    ∃ s', execList cfg la pc (rvBackend.mov rvBackend.return1 t ++ rvBackend.jumpLabel "cleanup") s =
        .ok (s', .label "cleanup") ∧ s'.readReg RETURN1 = .ok v := by
  refine ⟨s.copyReg RETURN1 t, ?_, readReg_copyReg_same hs return1_usable ht⟩
  simp [rvBackend, execList, exec, State.writeReg, ZERO]

/-! ## capacity (utils.rs): 14 variables -/

theorem getPosition_go_ge (context : Ctx) (id i p : Nat) (h : getPosition.go id context i = some p) :
    i ≤ p := by
  induction context generalizing i with
  | nil => simp [getPosition.go] at h
  | cons b bs ih =>
    simp only [getPosition.go] at h
    split at h
    · injection h with h; omega
    · have := ih (i + 1) h; omega

theorem TempNum.toNat_le_one (number : TempNum) : number.toNat ≤ 1 := by
  cases number <;> simp [TempNum.toNat]

/-- `positionRegister` succeeds iff the position is at most 13, and then yields `X(2 pos + number + 4)` -/
theorem positionRegister_ok_iff (number : TempNum) (pos c : Nat) (r : Register) :
    (positionRegister number pos).run c = .ok (r, c) ↔
      pos ≤ 13 ∧ r = ⟨2 * pos + number.toNat + reserved⟩ := by
  have hn := TempNum.toNat_le_one number
  unfold positionRegister
  simp only [reserved, registerNum]
  by_cases h : 2 * pos + number.toNat + 4 < 32
  · simp only [h, if_true]
    show Except.ok ((⟨2 * pos + number.toNat + 4⟩ : Register), c) = Except.ok (r, c) ↔ _
    constructor
    · intro he
      injection he with he
      injection he with he _
      exact ⟨by omega, he.symm⟩
    · rintro ⟨_, rfl⟩; rfl
  · simp only [h, if_false]
    show (Except.error "Out of registers" : Except String (Register × Nat)) = Except.ok (r, c) ↔ _
    constructor
    · intro he; cases he
    · rintro ⟨hp, _⟩; omega

/-- `positionRegister` either succeeds or panics with "Out of registers" -/
theorem positionRegister_error_iff (number : TempNum) (pos c : Nat) :
    (positionRegister number pos).run c = .error "Out of registers" ↔ 14 ≤ pos := by
  have hn := TempNum.toNat_le_one number
  unfold positionRegister
  simp only [reserved, registerNum]
  by_cases h : 2 * pos + number.toNat + 4 < 32
  · simp only [h, if_true]
    show Except.ok ((⟨2 * pos + number.toNat + 4⟩ : Register), c) = Except.error _ ↔ _
    constructor
    · intro he; cases he
    · intro; omega
  · simp only [h, if_false]
    show (Except.error "Out of registers" : Except String (Register × Nat)) = Except.error _ ↔ _
    constructor
    · intro _; omega
    · intro _; rfl

end Scc.RV
