/-
  Scc.RV.LoaderLemmas — lemmas about the pieces of the RISC-V loader (Scc/RV/Machine.lean: `words`,
  `digitsToNat?`, `parseReg?`, `parseImm?`, `parseLabelRef?`, `parseHook`) on the texts that the printer
  (Scc/RV/Instr.lean `printCode`) produces, stated on character lists with the string libraries
  Scc/StringLemmas.lean, Scc/StringLemmasAscii.lean (nothing about core `String` is assumed):

  * `wordsL` and `words_eq : words s = (wordsL s.toList).map String.ofList` (EVERY string);
    `Tok w` (non-empty, no white space), `wordsL_intercalate`: blank-separated tokens are the words;
  * `tokLine_*`: a line of blank-separated tokens is trimmed, not empty, and starts with `//` only if its
    first token does;
  * `parseReg?_print` (`X<n>`, n < 32), `parseImm?_toString` (EVERY `Int`), `parseReg?_imm` (the text of
    an immediate is no register name — this is what tells `ADD rd rs imm` from `ADD rd rs1 rs2`);
  * `parseHookL` (the hook reader on character lists) and `parseHook_eq : parseHook s = parseHookL s.toList`
    (EVERY string).
  Proof file: core imports only.
-/
import Scc.RV.Machine
import Scc.StringLemmasAscii

namespace Scc.RV.Loader

open Scc.RV Scc.Str

set_option linter.unusedSimpArgs false

/-! ## strings and character lists -/

theorem toString_str (s : String) : toString s = s := rfl

theorem ofList_eq_iff {cs : List Char} {s : String} : String.ofList cs = s ↔ cs = s.toList := by
  constructor
  · intro h; rw [← h, String.toList_ofList]
  · intro h; rw [h, String.ofList_toList]

theorem ofList_inj {a b : List Char} (h : String.ofList a = String.ofList b) : a = b := by
  have := congrArg String.toList h
  simpa using this

theorem sw_false {s pat : String} (h : ¬ pat.toList <+: s.toList) : s.startsWith pat = false := by
  rw [startsWith_eq_decide]; simpa using h

theorem sw_true {s pat : String} (h : pat.toList <+: s.toList) : s.startsWith pat = true := by
  rw [startsWith_eq_decide]; simpa using h

theorem ew_singleton (s : String) (c : Char) :
    s.endsWith (String.singleton c) = decide (s.toList.getLast? = some c) := by
  rw [Bool.eq_iff_iff, endsWith_singleton_iff]; simp

theorem getLast?_append_ne_nil {a b : List Char} (hb : b ≠ []) : (a ++ b).getLast? = b.getLast? := by
  rw [List.getLast?_append]
  cases h : b.getLast? with
  | none => exact absurd (List.getLast?_eq_none_iff.1 h) hb
  | some c => rfl

/-! ## `words` -/

/-- the non-empty pieces of a text between blanks -/
def wordsL (l : List Char) : List (List Char) := (splitList ' ' l).filter (fun w => !w.isEmpty)

theorem ofList_ne_empty_iff (w : List Char) : decide (String.ofList w ≠ "") = !w.isEmpty := by
  cases w with
  | nil => simp [String.ofList_nil]
  | cons x xs =>
    have : String.ofList (x :: xs) ≠ "" := by
      intro e
      have := congrArg String.toList e
      simp at this
    simp [this]

/-- `words`, for every string -/
theorem words_eq (s : String) : words s = (wordsL s.toList).map String.ofList := by
  unfold words wordsL
  rw [splitOn_space, List.filter_map]
  congr 1
  apply List.filter_congr
  intro w _
  exact ofList_ne_empty_iff w

/-- a token: non-empty, without white space -/
def Tok (w : List Char) : Prop := w ≠ [] ∧ ∀ c ∈ w, c.isWhitespace = false

theorem tok_no_blank {w : List Char} (h : Tok w) : ' ' ∉ w := fun hm => absurd (h.2 _ hm) (by decide)

theorem tok_no_nl {w : List Char} (h : Tok w) : '\n' ∉ w := fun hm => absurd (h.2 _ hm) (by decide)

theorem tok_trimmed {w : List Char} (h : Tok w) : Trimmed w :=
  ⟨fun c hc => h.2 c (List.mem_of_mem_head? hc), fun c hc => h.2 c (List.mem_of_getLast? hc)⟩

theorem wordsL_intercalate (w : List Char) (ws : List (List Char)) (h : ∀ x ∈ w :: ws, Tok x) :
    wordsL ([' '].intercalate (w :: ws)) = w :: ws := by
  unfold wordsL
  rw [splitList_intercalate ' ' w ws (fun x hx => tok_no_blank (h x hx))]
  apply List.filter_eq_self.2
  intro x hx
  have := (h x hx).1
  cases x with
  | nil => exact absurd rfl this
  | cons _ _ => rfl

/-! ## a line of blank-separated tokens -/

/-- the line: the tokens joined by single blanks -/
def tokLine (w : List Char) (ws : List (List Char)) : List Char := [' '].intercalate (w :: ws)

theorem tokLine_cons (w w2 : List Char) (ws : List (List Char)) :
    tokLine w (w2 :: ws) = w ++ ' ' :: tokLine w2 ws := by
  unfold tokLine
  rw [intercalate_cons_cons']; simp

theorem tokLine_single (w : List Char) : tokLine w [] = w := by
  unfold tokLine; exact intercalate_singleton' _ _

theorem tokLine_head {w : List Char} (ws : List (List Char)) (hw : w ≠ []) :
    (tokLine w ws).head? = w.head? := by
  cases ws with
  | nil => rw [tokLine_single]
  | cons w2 ws =>
    rw [tokLine_cons]
    cases w with
    | nil => exact absurd rfl hw
    | cons x xs => rfl

theorem tokLine_ne_nil {w : List Char} (ws : List (List Char)) (hw : w ≠ []) : tokLine w ws ≠ [] := by
  intro e
  have := tokLine_head ws hw
  rw [e] at this
  cases w with
  | nil => exact absurd rfl hw
  | cons x xs => simp at this

theorem tokLine_last (w : List Char) (ws : List (List Char)) (h : ∀ x ∈ w :: ws, Tok x) :
    ∀ c, (tokLine w ws).getLast? = some c → c.isWhitespace = false := by
  induction ws generalizing w with
  | nil =>
    intro c hc
    rw [tokLine_single] at hc
    exact (h w (by simp)).2 c (List.mem_of_getLast? hc)
  | cons w2 ws ih =>
    intro c hc
    have hne : tokLine w2 ws ≠ [] := tokLine_ne_nil ws (h w2 (by simp)).1
    have e : w ++ ' ' :: tokLine w2 ws = (w ++ [' ']) ++ tokLine w2 ws := by simp
    rw [tokLine_cons, e, getLast?_append_ne_nil hne] at hc
    exact ih w2 (fun x hx => h x (by simp at hx ⊢; right; exact hx)) c hc

theorem tokLine_trimmed (w : List Char) (ws : List (List Char)) (h : ∀ x ∈ w :: ws, Tok x) :
    Trimmed (tokLine w ws) := by
  refine ⟨?_, tokLine_last w ws h⟩
  intro c hc
  rw [tokLine_head ws (h w (by simp)).1] at hc
  exact (h w (by simp)).2 c (List.mem_of_mem_head? hc)

theorem tokLine_no_nl (w : List Char) (ws : List (List Char)) (h : ∀ x ∈ w :: ws, Tok x) :
    '\n' ∉ tokLine w ws := by
  induction ws generalizing w with
  | nil => rw [tokLine_single]; exact tok_no_nl (h w (by simp))
  | cons w2 ws ih =>
    rw [tokLine_cons]
    intro hm
    simp only [List.mem_append, List.mem_cons] at hm
    rcases hm with hm | hm | hm
    · exact tok_no_nl (h w (by simp)) hm
    · exact absurd hm (by decide)
    · exact ih w2 (fun x hx => h x (by simp at hx ⊢; right; exact hx)) hm

/-- a token that does not start with `//` -/
def NoSlash (w : List Char) : Prop := ¬ ['/', '/'] <+: w

theorem tokLine_not_slash {w : List Char} (ws : List (List Char)) (hw : Tok w) (hs : NoSlash w) :
    ¬ ['/', '/'] <+: tokLine w ws := by
  cases ws with
  | nil => rw [tokLine_single]; exact hs
  | cons w2 ws =>
    rw [tokLine_cons]
    rintro ⟨t, ht⟩
    match w, hw, hs with
    | [], hw, _ => exact hw.1 rfl
    | [x], hw, _ =>
      simp only [List.cons_append, List.nil_append, List.cons.injEq] at ht
      exact absurd ht.2.1 (by decide)
    | x :: y :: r, _, hs =>
      simp only [List.cons_append, List.nil_append, List.cons.injEq] at ht
      exact hs ⟨r, by rw [← ht.1, ← ht.2.1]; rfl⟩

theorem noSlash_of_head {w : List Char} (h : w.head? ≠ some '/') : NoSlash w := by
  rintro ⟨t, rfl⟩
  exact h rfl

theorem prefix_slash_of_slash_blank {l : List Char} (h : ['/', '/', ' '] <+: l) : ['/', '/'] <+: l := by
  obtain ⟨t, rfl⟩ := h
  exact ⟨' ' :: t, rfl⟩

/-- what `parseLine` sees of a line of tokens: it is its own trimmed form, it is not empty, it is no
    comment, and its words are the tokens -/
theorem tokLine_facts (w : List Char) (ws : List (List Char)) (h : ∀ x ∈ w :: ws, Tok x) (hs : NoSlash w) :
    let t := String.ofList (tokLine w ws)
    t.trimAscii.toString = t ∧ t.isEmpty = false ∧ t.startsWith "// " = false ∧ t.startsWith "//" = false ∧
      words t = (w :: ws).map String.ofList := by
  have hw := h w (by simp)
  have he : (String.ofList (tokLine w ws)).toList = tokLine w ws := String.toList_ofList
  refine ⟨?_, ?_, ?_, ?_, ?_⟩
  · rw [trimAscii_eq, String.toList_ofList, trimList_of_trimmed (tokLine_trimmed w ws h)]
  · rw [isEmpty_ofList]
    cases hl : tokLine w ws with
    | nil => exact absurd hl (tokLine_ne_nil ws hw.1)
    | cons _ _ => rfl
  · apply sw_false
    rw [he]
    exact fun hp => tokLine_not_slash ws hw hs (prefix_slash_of_slash_blank hp)
  · apply sw_false
    rw [he]
    exact tokLine_not_slash ws hw hs
  · rw [words_eq, String.toList_ofList]
    unfold tokLine
    rw [wordsL_intercalate w ws h]

/-! ## digits -/

theorem isDigit_toDigits (n : Nat) : ∀ c ∈ Nat.toDigits 10 n, c.isDigit = true :=
  fun _ hc => Nat.isDigit_of_mem_toDigits (by decide) (by decide) hc

theorem toString_nat (n : Nat) : toString n = String.ofList (Nat.toDigits 10 n) := by
  show Nat.repr n = _
  apply String.ext; rw [Nat.toList_repr, String.toList_ofList]

theorem toList_toString_nat (n : Nat) : (toString n).toList = Nat.toDigits 10 n := by
  rw [toString_nat, String.toList_ofList]

theorem isDigit_facts {c : Char} (h : c.isDigit = true) :
    c.isWhitespace = false ∧ c ≠ 'X' ∧ c ≠ '-' ∧ c ≠ '/' := by
  have hr : 48 ≤ c.val ∧ c.val ≤ 57 := by simpa [Char.isDigit] using h
  have key : ∀ d : Char, (d.val < 48 ∨ 57 < d.val) → c ≠ d := by
    intro d hd e; subst e
    rcases hd with hd | hd
    · exact absurd hr.1 (by simpa using hd)
    · exact absurd hr.2 (by simpa using hd)
  refine ⟨?_, key _ (by decide), key _ (by decide), key _ (by decide)⟩
  simp only [Char.isWhitespace, Bool.or_eq_false_iff, decide_eq_false_iff_not]
  exact ⟨⟨⟨key _ (by decide), key _ (by decide)⟩, key _ (by decide)⟩, key _ (by decide)⟩

theorem toDigits_head (n : Nat) : ∃ d ds, Nat.toDigits 10 n = d :: ds ∧ d.isDigit = true := by
  have hne : Nat.toDigits 10 n ≠ [] := Nat.toDigits_ne_nil
  cases h : Nat.toDigits 10 n with
  | nil => exact absurd h hne
  | cons d ds => exact ⟨d, ds, rfl, isDigit_toDigits n d (by rw [h]; simp)⟩

theorem foldl_digits' (l : List Char) (init : Nat) :
    l.foldl (fun n c => 10 * n + (c.toNat - '0'.toNat)) init = Nat.ofDigitChars 10 l init := by
  unfold Nat.ofDigitChars
  induction l generalizing init with
  | nil => rfl
  | cons c cs ih => simp only [List.foldl_cons]

theorem digitsToNat?_toDigits (n : Nat) : digitsToNat? (Nat.toDigits 10 n) = some n := by
  unfold digitsToNat?
  have hne : (Nat.toDigits 10 n).isEmpty = false := by
    obtain ⟨d, ds, hd, _⟩ := toDigits_head n
    rw [hd]; rfl
  have hall : (Nat.toDigits 10 n).all Char.isDigit = true := by
    rw [List.all_eq_true]; exact isDigit_toDigits n
  simp only [hne, hall, Bool.not_true, Bool.or_self, Bool.false_eq_true, if_false]
  rw [foldl_digits', Nat.ofDigitChars_ten_toDigits]

/-! ## registers -/

/-- the printed form of a register -/
def regC (r : Register) : List Char := 'X' :: Nat.toDigits 10 r.n

theorem print_eq (r : Register) : r.print = String.ofList (regC r) := by
  apply String.ext
  simp [Register.print, regC, String.toList_append, toList_toString_nat]

theorem tok_regC (r : Register) : Tok (regC r) := by
  refine ⟨by simp [regC], ?_⟩
  intro c hc
  simp only [regC, List.mem_cons] at hc
  rcases hc with rfl | hc
  · decide
  · exact (isDigit_facts (isDigit_toDigits _ c hc)).1

theorem parseReg?_regC (r : Register) (h : r.n < registerNum) : parseReg? (String.ofList (regC r)) = some r := by
  unfold parseReg?
  simp only [String.toList_ofList, regC, digitsToNat?_toDigits, h, toString_nat, beq_self_eq_true,
    Bool.and_self, decide_true, if_true]

theorem parseReg?_print (r : Register) (h : r.n < registerNum) : parseReg? r.print = some r := by
  rw [print_eq]; exact parseReg?_regC r h

/-! ## immediates -/

/-- the printed form of an immediate (Rust `Display for i64` = Lean `toString` on `Int`) -/
def immC : Int → List Char
  | .ofNat n => Nat.toDigits 10 n
  | .negSucc n => '-' :: Nat.toDigits 10 (n + 1)

theorem toString_int (i : Int) : toString i = String.ofList (immC i) := by
  apply String.ext
  rw [String.toList_ofList]
  cases i with
  | ofNat n => show (Nat.repr n).toList = _; exact Nat.toList_repr
  | negSucc n =>
    show ("-" ++ Nat.repr (n + 1)).toList = _
    rw [String.toList_append, Nat.toList_repr]; rfl

theorem toList_repr_int (i : Int) : i.repr.toList = immC i := by
  have := toString_int i
  rw [← String.toList_ofList (l := immC i), ← this]; rfl

theorem tok_immC (i : Int) : Tok (immC i) := by
  cases i with
  | ofNat n =>
    exact ⟨Nat.toDigits_ne_nil, fun c hc => (isDigit_facts (isDigit_toDigits _ c hc)).1⟩
  | negSucc n =>
    refine ⟨by simp [immC], ?_⟩
    intro c hc
    simp only [immC, List.mem_cons] at hc
    rcases hc with rfl | hc
    · decide
    · exact (isDigit_facts (isDigit_toDigits _ c hc)).1

theorem parseImm?_immC (i : Int) : parseImm? (String.ofList (immC i)) = some i := by
  unfold parseImm?
  rw [String.toList_ofList]
  cases i with
  | ofNat n =>
    obtain ⟨d, ds, hd, hdig⟩ := toDigits_head n
    have hm : d ≠ '-' := (isDigit_facts hdig).2.2.1
    simp only [immC, hd]
    split
    · rename_i heq; injection heq with h _; exact absurd h hm
    · rw [← hd, digitsToNat?_toDigits]; rfl
  | negSucc n =>
    simp only [immC, digitsToNat?_toDigits, Option.map_some]
    rw [Int.negSucc_eq]; rfl

theorem parseImm?_toString (i : Int) : parseImm? (toString i) = some i := by
  rw [toString_int]; exact parseImm?_immC i

/-- the text of an immediate is not a register name -/
theorem parseReg?_immC (i : Int) : parseReg? (String.ofList (immC i)) = none := by
  have hhead : ∃ d ds, immC i = d :: ds ∧ d ≠ 'X' := by
    cases i with
    | ofNat n =>
      obtain ⟨d, ds, hd, hdig⟩ := toDigits_head n
      exact ⟨d, ds, hd, (isDigit_facts hdig).2.1⟩
    | negSucc n => exact ⟨'-', _, rfl, by decide⟩
  obtain ⟨d, ds, hd, hX⟩ := hhead
  unfold parseReg?
  rw [String.toList_ofList, hd]
  split
  · rename_i heq; injection heq with h _; exact absurd h hX
  · rfl

/-! ## labels -/

theorem parseLabelRef?_ofList {l : List Char} (h : l ≠ []) :
    parseLabelRef? (String.ofList l) = some (String.ofList l) := by
  unfold parseLabelRef?
  have : (String.ofList l).isEmpty = false := by
    rw [isEmpty_ofList]
    cases l with
    | nil => exact absurd rfl h
    | cons _ _ => rfl
  simp [this]

/-! ## hooks -/

/-- the kind word of a hook binding -/
def kindL (k : List Char) : Option Bool :=
  if k = ['p', 'r', 'd'] then some true else if k = ['c', 'n', 's'] then some true
  else if k = ['e', 'x', 't'] then some false else none

/-- one binding of a hook: the kind after the last colon -/
def hookKindL (w : List Char) : Option Bool :=
  match (splitList ':' w).getLast? with
  | some k => kindL k
  | none => none

/-- `parseHook` on character lists -/
def parseHookL (l : List Char) : Option (Option (List Bool)) :=
  if "#ctx [".toList.isPrefixOf l && l.getLast? == some ']' then
    some ((wordsL ((l.drop 6).dropLast)).mapM hookKindL)
  else none

theorem kind_match (w : String) :
    (match (w.splitOn ":").getLast? with
      | some "prd" => some true
      | some "cns" => some true
      | some "ext" => some false
      | _ => none)
    = hookKindL w.toList := by
  unfold hookKindL
  rw [splitOn_colon, List.getLast?_map]
  cases (splitList ':' w.toList).getLast? with
  | none => rfl
  | some k =>
    simp only [Option.map_some]
    unfold kindL
    by_cases h1 : k = ['p', 'r', 'd']
    · subst h1; rfl
    · by_cases h2 : k = ['c', 'n', 's']
      · subst h2; rfl
      · by_cases h3 : k = ['e', 'x', 't']
        · subst h3; rfl
        · have e1 : String.ofList k ≠ "prd" := fun e => h1 (ofList_eq_iff.1 e)
          have e2 : String.ofList k ≠ "cns" := fun e => h2 (ofList_eq_iff.1 e)
          have e3 : String.ofList k ≠ "ext" := fun e => h3 (ofList_eq_iff.1 e)
          simp only [h1, h2, h3, if_false]
          split <;> first | rfl | (rename_i heq; injection heq with heq; first | exact absurd heq e1 | exact absurd heq e2 | exact absurd heq e3)

theorem mapM_option_map {α β γ : Type} (f : α → β) (g : β → Option γ) (l : List α) :
    (l.map f).mapM g = l.mapM (fun a => g (f a)) := by
  induction l with
  | nil => rfl
  | cons a as ih => simp only [List.map_cons, List.mapM_cons, ih]

/-- `parseHook`, for every string -/
theorem parseHook_eq (s : String) : parseHook s = parseHookL s.toList := by
  unfold parseHook parseHookL
  have hsw : s.startsWith "#ctx [" = "#ctx [".toList.isPrefixOf s.toList := by
    rw [startsWith_eq_decide, Bool.eq_iff_iff]; simp [List.isPrefixOf_iff_prefix]
  have hew : s.endsWith "]" = (s.toList.getLast? == some ']') := by
    have : "]" = String.singleton ']' := rfl
    rw [this, ew_singleton, Bool.eq_iff_iff]; simp
  rw [hsw, hew]
  split
  · dsimp only
    congr 1
    rw [words_eq, toList_drop_dropEnd, mapM_option_map]
    have e : (List.drop 6 s.toList).take ((List.drop 6 s.toList).length - 1) = (List.drop 6 s.toList).dropLast := by
      rw [List.dropLast_eq_take]
    rw [e]
    congr 1
    funext w
    have := kind_match (String.ofList w)
    rw [String.toList_ofList] at this
    exact this
  · rfl

end Scc.RV.Loader
