/-
  Scc.RV.RefLayout — Theorem B (RV64), THE LOADER at the level of parsed lines: what the machine's
  `layout` (Machine.lean) builds from a list of lines.
  * `keptC`: the lines that become items (instructions, labels, hook comments; plain comments are dropped);
  * `Loaded p ks`: the program `p` holds the kept codes `ks` (item i has code `ks[i]` and byte address
    `codeBase + 4·(instructions before i)`), its label table maps a label to the index of its FIRST
    definition, its address table maps the address of an instruction to the first label standing directly
    before it (`pendOf`), otherwise to the instruction itself, the entry is the first label;
  * `loaded_layout`: `layout lines` succeeds whenever no hook comment is malformed, and its result is
    `Loaded` with the kept codes of the lines;
  * `Keeps cs ks`: `ks` is `cs` without some of its comments, comments compared up to their text
    (`stripC`): the relation between the emitted code and the kept codes of the parsed text.
-/
import Scc.RV.LayoutLemmas
import Scc.RV.MemProofsRun

set_option linter.unusedVariables false
set_option linter.unusedSimpArgs false

namespace Scc.RV.Ref

open Scc.RV

/-- the line becomes an item of the program -/
def keptC : Code → Bool
  | .COMMENT m => (parseHook m).isSome
  | _ => true

/-- a malformed hook comment: `layout` fails -/
def badHook : Code → Prop
  | .COMMENT m => parseHook m = some none
  | _ => False

/-- number of instructions (4 bytes each) -/
def icount (ks : List Code) : Nat := (ks.filter Code.isInstr).length

/-- index of the first definition of a label -/
def labIdx (ks : List Code) (l : String) : Option Nat := ks.findIdx? (fun c => decide (c = Code.LAB l))

def isLab : Code → Bool
  | .LAB _ => true
  | _ => false

/-- index of the first label -/
def firstLab (ks : List Code) : Option Nat := ks.findIdx? isLab

/-- `pendingLabel` of `layoutStep` -/
def pendStep (i : Nat) (pend : Option Nat) (c : Code) : Option Nat :=
  match c with
  | .LAB _ => (match pend with | none => some i | p => p)
  | .COMMENT _ => pend
  | _ => none

def pendFold (ks : List Code) : Nat × Option Nat :=
  ks.foldl (fun s c => (s.1 + 1, pendStep s.1 s.2 c)) (0, none)

/-- the first label since the last instruction -/
def pendOf (ks : List Code) : Option Nat := (pendFold ks).2

theorem snoc_ind {α : Type} {P : List α → Prop} (h0 : P []) (h1 : ∀ l a, P l → P (l ++ [a])) : ∀ l, P l := by
  intro l
  have key : ∀ r : List α, P r.reverse := by
    intro r
    induction r with
    | nil => exact h0
    | cons a r ih => rw [List.reverse_cons]; exact h1 _ _ ih
  have := key l.reverse
  rwa [List.reverse_reverse] at this

theorem pendFold_snoc (ks : List Code) (c : Code) :
    pendFold (ks ++ [c]) = ((pendFold ks).1 + 1, pendStep (pendFold ks).1 (pendFold ks).2 c) := by
  unfold pendFold
  rw [List.foldl_append]
  rfl

theorem pendFold_fst : ∀ (ks : List Code), (pendFold ks).1 = ks.length := by
  refine snoc_ind rfl ?_
  intro ks c ih
  rw [pendFold_snoc]; simp [ih]

theorem pendOf_nil : pendOf [] = none := rfl

theorem pendOf_snoc (ks : List Code) (c : Code) : pendOf (ks ++ [c]) = pendStep ks.length (pendOf ks) c := by
  unfold pendOf
  rw [pendFold_snoc, pendFold_fst]

/-- what a pending label is: a label at index `i`, followed by labels and comments only -/
theorem pendOf_spec : ∀ (ks : List Code) (i : Nat), pendOf ks = some i →
    i < ks.length ∧ (∃ l, ks[i]? = some (.LAB l)) ∧ ∀ m, i ≤ m → m < ks.length → ∀ c, ks[m]? = some c → c.isInstr = false := by
  refine snoc_ind (fun i h => by simp [pendOf_nil] at h) ?_
  · intro ks c ih
    intro i h
    rw [pendOf_snoc] at h
    cases c
    case LAB l =>
      simp only [pendStep] at h
      cases hp : pendOf ks with
      | none =>
        rw [hp] at h
        simp only [Option.some.injEq] at h
        subst h
        refine ⟨by simp, ⟨l, by simp⟩, ?_⟩
        intro m hm1 hm2 c hc
        have : m = ks.length := by simp at hm2; omega
        subst this
        simp at hc
        subst hc; rfl
      | some i' =>
        rw [hp] at h
        simp only [Option.some.injEq] at h
        subst h
        obtain ⟨h1, ⟨l', h2⟩, h3⟩ := ih i' hp
        refine ⟨by simp; omega, ⟨l', by rw [List.getElem?_append_left h1]; exact h2⟩, ?_⟩
        intro m hm1 hm2 c hc
        by_cases hm : m < ks.length
        · rw [List.getElem?_append_left hm] at hc
          exact h3 m hm1 hm c hc
        · have : m = ks.length := by simp at hm2; omega
          subst this
          simp at hc
          subst hc; rfl
    case COMMENT msg =>
      simp only [pendStep] at h
      obtain ⟨h1, ⟨l', h2⟩, h3⟩ := ih i h
      refine ⟨by simp; omega, ⟨l', by rw [List.getElem?_append_left h1]; exact h2⟩, ?_⟩
      intro m hm1 hm2 c hc
      by_cases hm : m < ks.length
      · rw [List.getElem?_append_left hm] at hc
        exact h3 m hm1 hm c hc
      · have : m = ks.length := by simp at hm2; omega
        subst this
        simp at hc
        subst hc; rfl
    all_goals (simp [pendStep] at h)

/-! ## counting instructions -/

theorem icount_nil : icount [] = 0 := rfl

theorem icount_append (a b : List Code) : icount (a ++ b) = icount a + icount b := by
  simp [icount, List.filter_append]

theorem icount_single (c : Code) : icount [c] = if c.isInstr then 1 else 0 := by
  unfold icount
  by_cases h : c.isInstr = true <;> simp [h]

theorem icount_take_lt {ks : List Code} {j : Nat} (h : j < ks.length) (hi : ks[j].isInstr = true) :
    icount (ks.take j) < icount ks := by
  have e : ks = ks.take j ++ ks[j] :: ks.drop (j + 1) := by
    conv => lhs; rw [← List.take_append_drop j ks, List.drop_eq_getElem_cons h]
  conv => rhs; rw [e]
  rw [icount_append, show ks[j] :: ks.drop (j + 1) = [ks[j]] ++ ks.drop (j + 1) from rfl, icount_append,
    icount_single, if_pos hi]
  omega

theorem icount_take_le (ks : List Code) (j : Nat) : icount (ks.take j) ≤ icount ks := by
  conv => rhs; rw [← List.take_append_drop j ks]
  rw [icount_append]; omega

/-! ## labels -/

theorem labIdx_snoc (ks : List Code) (c : Code) (l : String) :
    labIdx (ks ++ [c]) l = (labIdx ks l).or (if c = Code.LAB l then some ks.length else none) := by
  unfold labIdx
  rw [List.findIdx?_append]
  congr 1
  by_cases h : c = Code.LAB l <;> simp [h]

theorem firstLab_snoc (ks : List Code) (c : Code) :
    firstLab (ks ++ [c]) = (firstLab ks).or (if isLab c then some ks.length else none) := by
  unfold firstLab
  rw [List.findIdx?_append]
  congr 1
  by_cases h : isLab c = true <;> simp [h]

/-! ## the invariant of `layoutLoop` -/

structure LInv (st : LayoutSt) (ks : List Code) : Prop where
  size : st.items.size = ks.length
  code : ∀ i (h : i < ks.length), ∃ it, st.items[i]? = some it ∧ it.code = ks[i] ∧
    it.addr = codeBase + 4 * icount (ks.take i)
  addr : st.addr = codeBase + 4 * icount ks
  labels : ∀ l, st.labelIdx[l]? = labIdx ks l
  addrs : ∀ j (h : j < ks.length), ks[j].isInstr = true →
    st.addrIdx[codeBase + 4 * icount (ks.take j)]? = some ((pendOf (ks.take j)).getD j)
  pend : st.pendingLabel = pendOf ks
  entry : st.entry = firstLab ks

theorem linv_init : LInv {} [] :=
  ⟨rfl, fun i h => by simp at h, rfl, fun l => by simp [labIdx], fun j h => by simp at h, rfl, rfl⟩

/-- pushing an item that is no instruction and no label -/
theorem LInv.push_code {st : LayoutSt} {ks : List Code} (I : LInv st ks) (it : Item) (c : Code)
    (hc : it.code = c) (ha : it.addr = st.addr) :
    ∀ i (h : i < (ks ++ [c]).length), ∃ it', (st.items.push it)[i]? = some it' ∧ it'.code = (ks ++ [c])[i] ∧
      it'.addr = codeBase + 4 * icount ((ks ++ [c]).take i) := by
  intro i h
  by_cases hi : i < ks.length
  · obtain ⟨it', h1, h2, h3⟩ := I.code i hi
    refine ⟨it', ?_, ?_, ?_⟩
    · rw [Array.getElem?_push, if_neg (by rw [I.size]; omega)]; exact h1
    · rw [List.getElem_append_left hi]; exact h2
    · rw [List.take_append_of_le_length (Nat.le_of_lt hi)]; exact h3
  · have : i = ks.length := by simp at h; omega
    subst this
    refine ⟨it, ?_, ?_, ?_⟩
    · rw [Array.getElem?_push, if_pos I.size.symm]
    · simp [hc]
    · rw [ha, I.addr, List.take_append_of_le_length (Nat.le_refl _), List.take_length]

theorem LInv.addrs_snoc_noninstr {st : LayoutSt} {ks : List Code} (I : LInv st ks) {c : Code}
    (hc : c.isInstr = false) :
    ∀ j (h : j < (ks ++ [c]).length), (ks ++ [c])[j].isInstr = true →
      st.addrIdx[codeBase + 4 * icount ((ks ++ [c]).take j)]? = some ((pendOf ((ks ++ [c]).take j)).getD j) := by
  intro j h hj
  by_cases hi : j < ks.length
  · rw [List.getElem_append_left hi] at hj
    rw [List.take_append_of_le_length (Nat.le_of_lt hi)]
    exact I.addrs j hi hj
  · have : j = ks.length := by simp at h; omega
    subst this
    simp [hc] at hj

/-- one step of the layout -/
theorem linv_step {st : LayoutSt} {ks : List Code} (I : LInv st ks) (n : Nat) (c : Code) (hb : ¬ badHook c) :
    ∃ st', layoutStep st (n, c) = .ok st' ∧ LInv st' (if keptC c then ks ++ [c] else ks) := by
  by_cases hins : c.isInstr = true
  · -- an instruction
    have hk : keptC c = true := by cases c <;> simp [Code.isInstr] at hins <;> rfl
    rw [layoutStep_instr st n c hins, hk, if_pos rfl]
    refine ⟨_, rfl, ?_⟩
    have hic : icount (ks ++ [c]) = icount ks + 1 := by rw [icount_append, icount_single, if_pos hins]
    refine ⟨by simp [I.size], I.push_code ⟨n, c, st.addr, none⟩ c rfl rfl, by simp only; rw [I.addr, hic]; omega,
      ?_, ?_, ?_, ?_⟩
    · intro l
      rw [labIdx_snoc, if_neg (by intro e; rw [e] at hins; simp [Code.isInstr] at hins)]
      simp only [Option.or_none]
      exact I.labels l
    · intro j h hj
      simp only
      rw [Std.HashMap.getElem?_insert]
      by_cases hi : j < ks.length
      · rw [List.getElem_append_left hi] at hj
        rw [List.take_append_of_le_length (Nat.le_of_lt hi)]
        have hlt := icount_take_lt hi hj
        have hne : (st.addr == codeBase + 4 * icount (ks.take j)) = false := by
          rw [I.addr]; simp; omega
        rw [hne]
        simp only [Bool.false_eq_true, if_false]
        exact I.addrs j hi hj
      · have : j = ks.length := by simp at h; omega
        subst this
        rw [List.take_append_of_le_length (Nat.le_refl _), List.take_length, I.addr]
        simp [I.pend, I.size]
    · simp only
      rw [pendOf_snoc]
      cases c <;> simp [Code.isInstr] at hins <;> rfl
    · simp only
      rw [firstLab_snoc, if_neg (by cases c <;> simp [Code.isInstr] at hins <;> simp [isLab])]
      simp only [Option.or_none]
      exact I.entry
  · have hins' : c.isInstr = false := by simpa using hins
    cases c with
    | LAB l =>
      simp only [keptC, if_true]
      refine ⟨_, rfl, ?_⟩
      have hic : icount (ks ++ [Code.LAB l]) = icount ks := by rw [icount_append, icount_single]; simp [Code.isInstr]
      refine ⟨by simp [I.size], I.push_code ⟨n, .LAB l, st.addr, none⟩ (.LAB l) rfl rfl,
        by simp only; rw [I.addr, hic], ?_, I.addrs_snoc_noninstr rfl, ?_, ?_⟩
      · intro l'
        simp only
        rw [labIdx_snoc]
        by_cases hcon : st.labelIdx.contains l = true
        · rw [if_pos hcon, I.labels l']
          by_cases e : l = l'
          · subst e
            rw [Std.HashMap.contains_eq_isSome_getElem?, I.labels l] at hcon
            cases hl : labIdx ks l with
            | none => rw [hl] at hcon; simp at hcon
            | some i => simp
          · have : ¬ (Code.LAB l = Code.LAB l') := fun h => e (by injection h)
            rw [if_neg this]; simp
        · rw [if_neg hcon, Std.HashMap.getElem?_insert]
          by_cases e : l = l'
          · subst e
            rw [Std.HashMap.contains_eq_isSome_getElem?, I.labels l] at hcon
            cases hl : labIdx ks l with
            | none => simp [I.size]
            | some i => rw [hl] at hcon; simp at hcon
          · have : ¬ (Code.LAB l = Code.LAB l') := fun h => e (by injection h)
            have e' : (l == l') = false := by simpa using e
            rw [if_neg this, e']
            simp only [Bool.false_eq_true, if_false, Option.or_none]
            exact I.labels l'
      · simp only
        rw [pendOf_snoc, I.pend, I.size]
        rfl
      · simp only
        rw [firstLab_snoc, I.entry, I.size]
        cases firstLab ks <;> simp [isLab]
    | COMMENT msg =>
      cases hp : parseHook msg with
      | none =>
        have e : layoutStep st (n, .COMMENT msg) = .ok st := by simp [layoutStep, hp]
        simp only [keptC, hp, Option.isSome_none, Bool.false_eq_true, if_false]
        exact ⟨st, e, I⟩
      | some o =>
        cases o with
        | none => exact absurd hp hb
        | some kinds =>
          have e : layoutStep st (n, .COMMENT msg) =
              .ok ⟨st.items.push ⟨n, .COMMENT msg, st.addr, some (hookRoots kinds)⟩, st.labelIdx, st.addrIdx,
                st.entry, st.addr, st.pendingLabel⟩ := by simp [layoutStep, hp]
          simp only [keptC, hp, Option.isSome_some, if_true]
          refine ⟨_, e, ?_⟩
          have hic : icount (ks ++ [Code.COMMENT msg]) = icount ks := by
            rw [icount_append, icount_single]; simp [Code.isInstr]
          refine ⟨by simp [I.size], I.push_code ⟨n, .COMMENT msg, st.addr, some (hookRoots kinds)⟩ _ rfl rfl,
            by simp only; rw [I.addr, hic], ?_, I.addrs_snoc_noninstr rfl, ?_, ?_⟩
          · intro l'
            simp only
            rw [labIdx_snoc, if_neg (by simp)]
            simp only [Option.or_none]
            exact I.labels l'
          · simp only
            rw [pendOf_snoc, I.pend]
            rfl
          · simp only
            rw [firstLab_snoc, I.entry]
            simp [isLab]
    | _ => simp [Code.isInstr] at hins'

/-- the kept codes of parsed lines -/
def keptOf (lines : List (Nat × Code)) : List Code := (lines.map (·.2)).filter keptC

theorem linv_loop : ∀ (lines : List (Nat × Code)) (st : LayoutSt) (ks : List Code), LInv st ks →
    (∀ x ∈ lines, ¬ badHook x.2) →
    ∃ st', layoutLoop st lines = .ok st' ∧ LInv st' (ks ++ keptOf lines)
  | [], st, ks, I, _ => ⟨st, rfl, by simpa [keptOf] using I⟩
  | (n, c) :: rest, st, ks, I, hb => by
    obtain ⟨st1, h1, I1⟩ := linv_step I n c (hb (n, c) (by simp))
    obtain ⟨st', h2, I2⟩ := linv_loop rest st1 _ I1 (fun x hx => hb x (by simp [hx]))
    refine ⟨st', by simp only [layoutLoop, h1]; exact h2, ?_⟩
    by_cases hk : keptC c = true
    · simp only [hk, if_true, List.append_assoc, List.singleton_append] at I2
      simpa [keptOf, hk] using I2
    · simp only [hk, if_false, Bool.false_eq_true] at I2
      simpa [keptOf, hk] using I2

/-! ## loaded programs -/

/-- the program holds the kept codes `ks` -/
structure Loaded (p : Program) (ks : List Code) : Prop where
  size : p.items.size = ks.length
  code : ∀ i (h : i < ks.length), ∃ it, p.items[i]? = some it ∧ it.code = ks[i] ∧
    it.addr = codeBase + 4 * icount (ks.take i)
  labels : ∀ l, p.labelIdx[l]? = labIdx ks l
  addrs : ∀ j (h : j < ks.length), ks[j].isInstr = true →
    p.addrIdx[codeBase + 4 * icount (ks.take j)]? = some ((pendOf (ks.take j)).getD j)
  /-- the address after the last instruction belongs to the labels at the very end -/
  endAddr : ∀ i, pendOf ks = some i → p.addrIdx[codeBase + 4 * icount ks]? = some i
  entry : p.entry = firstLab ks

/-- THE LOADER on parsed lines: `layout` succeeds unless a hook comment is malformed, and the program holds
the kept codes -/
theorem loaded_layout (lines : List (Nat × Code)) (hb : ∀ x ∈ lines, ¬ badHook x.2) :
    ∃ p, layout lines = .ok p ∧ Loaded p (keptOf lines) := by
  obtain ⟨st, h1, I⟩ := linv_loop lines {} [] linv_init hb
  simp only [List.nil_append] at I
  refine ⟨_, by simp only [layout, h1]; rfl, ⟨I.size, I.code, I.labels, ?_, ?_, I.entry⟩⟩
  · intro j h hj
    simp only
    cases hp : st.pendingLabel with
    | none => simp only; exact I.addrs j h hj
    | some i =>
      simp only
      rw [Std.HashMap.getElem?_insert]
      have hlt := icount_take_lt h hj
      have hne : (st.addr == codeBase + 4 * icount ((keptOf lines).take j)) = false := by
        rw [I.addr]; simp; omega
      rw [hne]
      simp only [Bool.false_eq_true, if_false]
      exact I.addrs j h hj
  · intro i hi
    simp only
    rw [I.pend, hi]
    simp only
    rw [← I.addr, Std.HashMap.getElem?_insert_self]

theorem Loaded.labelAddr {p : Program} {ks : List Code} (L : Loaded p ks) {l : String} {i : Nat}
    (h : labIdx ks l = some i) : p.labelAddr l = some (codeBase + 4 * icount (ks.take i)) := by
  have hi : i < ks.length := by
    unfold labIdx at h
    exact (List.findIdx?_eq_some_iff_getElem.1 h).1
  obtain ⟨it, h1, _, h3⟩ := L.code i hi
  unfold Program.labelAddr
  rw [L.labels l, h]
  simp [h1, h3]

/-! ## comments up to their text; dropping comments -/

/-- comments carry no semantics: codes are compared up to the text of comments -/
def stripC : Code → Code
  | .COMMENT _ => .COMMENT ""
  | c => c

theorem stripC_noncomment {c : Code} (h : c.isComment = false) : stripC c = c := by
  cases c <;> first | rfl | (simp [Code.isComment] at h)

theorem stripC_eq_noncomment {c d : Code} (h : d.isComment = false) (e : stripC c = stripC d) : c = d := by
  rw [stripC_noncomment h] at e
  cases c <;> first | exact e | (simp only [stripC] at e; rw [← e] at h; simp [Code.isComment] at h)

theorem stripC_eq_comment {c : Code} {m : String} (e : stripC c = stripC (.COMMENT m)) : ∃ m', c = .COMMENT m' := by
  cases c <;> first | exact ⟨_, rfl⟩ | (simp [stripC] at e)

/-- `ks` is `cs` without some of its comments (comments up to their text) -/
inductive Keeps : List Code → List Code → Prop where
  | nil : Keeps [] []
  | keep {c : Code} {cs ks : List Code} : c.isComment = false → Keeps cs ks → Keeps (c :: cs) (c :: ks)
  | drop {m : String} {cs ks : List Code} : Keeps cs ks → Keeps (.COMMENT m :: cs) ks
  | keepC {m m' : String} {cs ks : List Code} : Keeps cs ks → Keeps (.COMMENT m :: cs) (.COMMENT m' :: ks)

theorem keeps_filter : ∀ (cs : List Code), Keeps cs (cs.filter keptC)
  | [] => .nil
  | c :: cs => by
    by_cases hc : c.isComment = true
    · cases c <;> simp [Code.isComment] at hc
      rename_i m
      by_cases hk : keptC (.COMMENT m) = true
      · rw [List.filter_cons_of_pos hk]; exact .keepC (keeps_filter cs)
      · rw [List.filter_cons_of_neg hk]; exact .drop (keeps_filter cs)
    · have hc' : c.isComment = false := by simpa using hc
      have hk : keptC c = true := by cases c <;> first | rfl | (simp [Code.isComment] at hc')
      rw [List.filter_cons_of_pos hk]
      exact .keep hc' (keeps_filter cs)

/-- the relation does not see the text of comments -/
theorem Keeps.of_strip : ∀ {ls ks : List Code}, Keeps ls ks → ∀ {cs : List Code},
    ls.map stripC = cs.map stripC → Keeps cs ks := by
  intro ls ks h
  induction h with
  | nil =>
    intro cs e
    have : cs = [] := by simpa using e.symm
    subst this; exact .nil
  | @keep c ls ks hc _ ih =>
    intro cs e
    cases cs with
    | nil => simp at e
    | cons d cs =>
      simp only [List.map_cons, List.cons.injEq] at e
      have : d = c := stripC_eq_noncomment hc e.1.symm
      subst this
      exact .keep hc (ih e.2)
  | @drop m ls ks _ ih =>
    intro cs e
    cases cs with
    | nil => simp at e
    | cons d cs =>
      simp only [List.map_cons, List.cons.injEq] at e
      obtain ⟨m', rfl⟩ := stripC_eq_comment e.1.symm
      exact .drop (ih e.2)
  | @keepC m m1 ls ks _ ih =>
    intro cs e
    cases cs with
    | nil => simp at e
    | cons d cs =>
      simp only [List.map_cons, List.cons.injEq] at e
      obtain ⟨m', rfl⟩ := stripC_eq_comment e.1.symm
      exact .keepC (ih e.2)

theorem Keeps.strip : ∀ {cs ks : List Code}, Keeps cs ks → stripComments ks = stripComments cs := by
  intro cs ks h
  induction h with
  | nil => rfl
  | keep hc _ ih => simp [stripComments, hc] at ih ⊢; exact ih
  | drop _ ih => simp [stripComments, Code.isComment] at ih ⊢; exact ih
  | keepC _ ih => simp [stripComments, Code.isComment] at ih ⊢; exact ih

/-- splitting at a boundary of the emitted code -/
theorem Keeps.append_inv : ∀ {a b ks : List Code}, Keeps (a ++ b) ks →
    ∃ ka kb, ks = ka ++ kb ∧ Keeps a ka ∧ Keeps b kb
  | [], b, ks, h => ⟨[], ks, rfl, .nil, h⟩
  | c :: a, b, ks, h => by
    cases h with
    | keep hc h' =>
      obtain ⟨ka, kb, e, h1, h2⟩ := Keeps.append_inv h'
      exact ⟨c :: ka, kb, by rw [e]; rfl, .keep hc h1, h2⟩
    | drop h' =>
      obtain ⟨ka, kb, e, h1, h2⟩ := Keeps.append_inv h'
      exact ⟨ka, kb, e, .drop h1, h2⟩
    | keepC h' =>
      obtain ⟨ka, kb, e, h1, h2⟩ := Keeps.append_inv h'
      exact ⟨_ :: ka, kb, by rw [e]; rfl, .keepC h1, h2⟩

theorem Keeps.append : ∀ {a ka b kb : List Code}, Keeps a ka → Keeps b kb → Keeps (a ++ b) (ka ++ kb) := by
  intro a ka b kb h1 h2
  induction h1 with
  | nil => exact h2
  | keep hc _ ih => exact .keep hc ih
  | drop _ ih => exact .drop ih
  | keepC _ ih => exact .keepC ih

/-- a non-comment in front is kept -/
theorem Keeps.cons_inv {c : Code} {cs ks : List Code} (hc : c.isComment = false) (h : Keeps (c :: cs) ks) :
    ∃ ks', ks = c :: ks' ∧ Keeps cs ks' := by
  cases h with
  | keep _ h' => exact ⟨_, rfl, h'⟩
  | drop _ => simp [Code.isComment] at hc
  | keepC _ => simp [Code.isComment] at hc

theorem Keeps.length_le : ∀ {cs ks : List Code}, Keeps cs ks → ks.length ≤ cs.length := by
  intro cs ks h
  induction h with
  | nil => exact Nat.le_refl _
  | keep _ _ ih => simp; exact ih
  | drop _ ih => simp; omega
  | keepC _ ih => simp; exact ih

/-- the labels defined -/
def labs (cs : List Code) : List String := cs.filterMap fun c => match c with | .LAB l => some l | _ => none

theorem labs_append (a b : List Code) : labs (a ++ b) = labs a ++ labs b := by simp [labs]

theorem Keeps.labs : ∀ {cs ks : List Code}, Keeps cs ks → labs ks = labs cs := by
  intro cs ks h
  induction h with
  | nil => rfl
  | @keep c _ _ hc _ ih => simp only [Ref.labs, List.filterMap_cons] at ih ⊢; rw [ih]
  | drop _ ih => simp only [Ref.labs, List.filterMap_cons] at ih ⊢; exact ih
  | keepC _ ih => simp only [Ref.labs, List.filterMap_cons] at ih ⊢; exact ih

theorem Keeps.mem_noncomment : ∀ {cs ks : List Code}, Keeps cs ks → ∀ c ∈ ks, c.isComment = false → c ∈ cs := by
  intro cs ks h
  induction h with
  | nil => intro c hc; simp at hc
  | keep _ _ ih =>
    intro c hc hn
    rcases List.mem_cons.1 hc with rfl | hc
    · simp
    · exact List.mem_cons_of_mem _ (ih c hc hn)
  | drop _ ih => intro c hc hn; exact List.mem_cons_of_mem _ (ih c hc hn)
  | keepC _ ih =>
    intro c hc hn
    rcases List.mem_cons.1 hc with rfl | hc
    · simp [Code.isComment] at hn
    · exact List.mem_cons_of_mem _ (ih c hc hn)

/-- with pairwise distinct labels, a label resolves to the item that defines it -/
theorem labIdx_of_nodup : ∀ {ks : List Code} {i : Nat} {l : String}, (labs ks).Nodup →
    ks[i]? = some (.LAB l) → labIdx ks l = some i := by
  intro ks i l hnd hi
  have hlt : i < ks.length := by
    rcases Nat.lt_or_ge i ks.length with h | h
    · exact h
    · rw [List.getElem?_eq_none h] at hi; cases hi
  have hget : ks[i] = Code.LAB l := by
    rw [List.getElem?_eq_getElem hlt] at hi; exact Option.some.inj hi
  unfold labIdx
  rw [List.findIdx?_eq_some_iff_getElem]
  refine ⟨hlt, by simp [hget], ?_⟩
  intro j hj
  simp only [decide_eq_true_eq]
  intro hjl
  -- two definitions of `l`
  have hsplit : ks = ks.take j ++ Code.LAB l :: (ks.drop (j + 1)) := by
    have hjlt : j < ks.length := by omega
    conv => lhs; rw [← List.take_append_drop j ks, List.drop_eq_getElem_cons hjlt, hjl]
  have hmem : Code.LAB l ∈ ks.drop (j + 1) := by
    have : (ks.drop (j + 1))[i - (j + 1)]? = some (Code.LAB l) := by
      rw [List.getElem?_drop]
      have : j + 1 + (i - (j + 1)) = i := by omega
      rw [this]; exact hi
    exact List.mem_of_getElem? this
  rw [hsplit, labs_append] at hnd
  have hnd2 := (List.nodup_append.1 hnd).2.1
  simp only [labs, List.filterMap_cons] at hnd2
  have hin : l ∈ (ks.drop (j + 1)).filterMap (fun c => match c with | .LAB l => some l | _ => none) :=
    List.mem_filterMap.2 ⟨_, hmem, rfl⟩
  exact (List.nodup_cons.1 hnd2).1 hin

end Scc.RV.Ref
