/-
  Scc.RV.RefInit — Theorem B (RV64), the INITIAL STATE: the entry state of the machine (`runProgram`:
  `X2 = heapBase`, `X3 = heapBase + 64`, argument i in `X(2i + 5)` = the word register of position i, empty
  memory) represents the initial configuration of the abstract backend machine (`initConfig`: argument i in
  the word part of position i, empty heap) and the initial state of the block-level heap model
  (`Scc.Heap.init`): the three-way relation `X3` for the entry definition (`x3_init`).
-/
import Scc.RV.RefSubst

set_option linter.unusedVariables false
set_option linter.unusedSimpArgs false

namespace Scc.RV.Ref

open Scc.AxCut Scc.AxCut.Pos Scc.Backend Scc.Backend.Abs Scc.Backend.Sim Scc.Backend.Sim2 Scc.RV
open Scc.Heap (HState InvS InvW)
open Scc.Heap.Refine (HRef FrLe Room)

/-! ## the entry registers -/

theorem entryRegs_go_spec : ∀ (as : List Word) (i : Nat) (r : Array (Option Word)), r.size = 32 →
    i + as.length ≤ 14 →
    ∃ r', entryRegs.go as i r = some r' ∧ r'.size = 32 ∧
      (∀ j (hj : j < as.length), r'[2 * (i + j) + 5]? = some (some as[j])) ∧
      (∀ u, (∀ j, j < as.length → u ≠ 2 * (i + j) + 5) → r'[u]? = r[u]?)
  | [], i, r, hr, _ => ⟨r, rfl, hr, fun j hj => by simp at hj, fun _ _ => rfl⟩
  | a :: as, i, r, hr, hle => by
    simp only [List.length_cons] at hle
    have hlt : 2 * i + 1 + reserved < registerNum := by simp only [reserved, registerNum]; omega
    obtain ⟨r', h1, h2, h3, h4⟩ := entryRegs_go_spec as (i + 1)
      (r.setIfInBounds (2 * i + 1 + reserved) (some a)) (by simp [hr]) (by omega)
    refine ⟨r', by simp only [entryRegs.go, hlt, if_true]; exact h1, h2, ?_, ?_⟩
    · intro j hj
      cases j with
      | zero =>
        simp only [Nat.add_zero, List.getElem_cons_zero]
        rw [h4 _ (fun j hj e => by omega)]
        rw [Array.getElem?_setIfInBounds]
        simp [reserved, hr]; omega
      | succ j =>
        have := h3 j (by simpa using hj)
        simp only [List.getElem_cons_succ]
        rw [show i + (j + 1) = i + 1 + j by omega]
        exact this
    · intro u hu
      rw [h4 u (fun j hj e => hu (j + 1) (by simp; omega) (by omega))]
      rw [Array.getElem?_setIfInBounds]
      have : ¬ 2 * i + 1 + reserved = u := by
        have := hu 0 (by simp)
        simp only [reserved]; omega
      simp [this]

/-- the register file at entry -/
theorem entryRegs_spec (args : List Word) (hle : args.length ≤ 14) :
    ∃ r, entryRegs args = some r ∧ r.size = 32 ∧
      (∀ j (hj : j < args.length), r[2 * j + 5]? = some (some args[j])) ∧
      r[2]? = some (some (BitVec.ofNat 64 heapBase)) ∧
      r[3]? = some (some (BitVec.ofNat 64 (heapBase + blockBytes))) := by
  obtain ⟨r, h1, h2, h3, h4⟩ := entryRegs_go_spec args 0
    (((Array.replicate registerNum none).setIfInBounds HEAP.n (some (BitVec.ofNat 64 heapBase))).setIfInBounds
      FREE.n (some (BitVec.ofNat 64 (heapBase + blockBytes)))) (by simp [registerNum]) (by omega)
  refine ⟨r, h1, h2, fun j hj => by simpa using h3 j hj, ?_, ?_⟩
  · rw [h4 2 (fun j _ => by omega)]
    simp [registerNum, Array.getElem?_setIfInBounds]
  · rw [h4 3 (fun j _ => by omega)]
    simp [registerNum, Array.getElem?_setIfInBounds]

/-! ## the initial configuration of the abstract machine -/

theorem initTemps_get_inv : ∀ (args : List Word) (k t : Nat) (v : Word),
    (initTemps args k).get t = some v → ∃ i, ∃ (hi : i < args.length), t = 2 * (k + i) + 1 ∧ v = args[i]
  | [], k, t, v, h => by simp [initTemps, Temps.get] at h
  | w :: ws, k, t, v, h => by
    simp only [initTemps, Temps.get, List.find?_cons] at h
    by_cases e : (2 * k + 1 == t) = true
    · simp only [e] at h
      simp only [beq_iff_eq] at e
      injection h with h
      exact ⟨0, by simp, by omega, by simp [h]⟩
    · simp only [e] at h
      obtain ⟨i, hi, ht, hv⟩ := initTemps_get_inv ws (k + 1) t v h
      exact ⟨i + 1, by simpa using hi, by omega, by simpa using hv⟩

theorem href_init' {base limit : Nat} (ι : Nat → Nat) (hb : 0 < base) (hl : base + 128 ≤ limit) :
    HRef [] [] 1 (Scc.Heap.init base limit) ι := by
  refine ⟨⟨by omega, by simp, by simp, by simp, ?_⟩, by simp, ?_, by simp, by simp⟩
  · intro id hid
    simp [Scc.Backend.Sim.refCount] at hid
  · exact ⟨[base], [], [], base + 64, Scc.Heap.init_inv hb hl⟩

theorem room_init {base limit n : Nat} (hb : 0 < base) (hl : base + 128 ≤ limit) (hn : base + 64 + n ≤ limit) :
    Room (Scc.Heap.init base limit) n := by
  intro rs lin lazy live Fr J
  have := (Scc.Heap.InvS.witness_unique (Scc.Heap.init_inv hb hl) J).2.2
  have hlim : (Scc.Heap.init base limit).limit = limit := rfl
  omega

/-- the entry state of the machine: integer parameters in the word registers, empty heap -/
theorem x3_init {mc : MonCfg} {cw : Nat → Word} {τ : Nat → Nat → Word} {args : List Word} {regs : Array (Option Word)} {e a : Nat}
    {Γ : Ctx} (hr : entryRegs args = some regs) (hlen : Γ.length = args.length)
    (hext : ∀ b ∈ Γ, b.chi = .ext) (hcap : Γ.length ≤ 14) (htop : heapBase + mc.heapBytes ≤ 2 ^ 63)
    (hl : 128 ≤ mc.heapBytes) (ι : Nat → Nat) :
    X3 mc cw τ Γ (initConfig a args) (Scc.Heap.init heapBase (heapBase + mc.heapBytes)) ι
      { regs := regs, mem := ∅, pc := e } := by
  obtain ⟨r, h1, hsz, hargs, hH, hF⟩ := entryRegs_spec args (by omega)
  rw [hr] at h1
  injection h1 with h1
  subst h1
  have hroots : roots Γ (initConfig a args).temps = [] := roots_go_all_ext _ Γ 0 hext
  have hwf : State.WF { regs := regs, mem := ∅, pc := e } := hsz
  unfold X3
  rw [hroots]
  refine ⟨⟨hwf, htop⟩, hcap, ?_, ?_, ?_, href_init' ι (by decide) (by omega)⟩
  · intro i hi w hw
    have hc : Γ[i].chi = .ext := hext _ (List.getElem_mem hi)
    rw [hc]
    obtain ⟨j, hj, ht, hv⟩ := initTemps_get_inv args 0 _ _ hw
    have hij : j = i := by omega
    subst hij
    show ((regs[posReg (2 * j + 1)]?).join) = some (trW .ext w (cw j))
    have : posReg (2 * j + 1) = 2 * j + 5 := by unfold posReg; omega
    rw [this, hargs j hj, hv]
    rfl
  · intro i hi hc
    exact absurd (hext _ (List.getElem_mem hi)) hc
  · refine ⟨rfl, rfl, fun a' => ?_, ⟨BitVec.ofNat 64 heapBase, ?_,
        show (BitVec.ofNat 64 heapBase).toNat = heapBase by decide⟩,
      ⟨BitVec.ofNat 64 (heapBase + blockBytes), ?_,
        show (BitVec.ofNat 64 (heapBase + blockBytes)).toNat = heapBase + Scc.Heap.blockSize by decide⟩⟩
    · simp [Scc.Heap.init]
    · simp only [State.readReg, HEAP]
      simp [hH]
    · simp only [State.readReg, FREE]
      simp [hF]

end Scc.RV.Ref
