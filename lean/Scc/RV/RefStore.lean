/-
  Scc.RV.RefStore — the abstract machine's `store` against the RV64 code of `Memory::store` (rung 4 of
  Theorem B, allocation): from related states (`X3`), whenever the abstract machine stores the last `k`
  positions of the context into a fresh object, the emitted code runs to its end and the states are related
  again (roots: the remaining variables and the new object).  Composition of `store_contract` (machine ⟷
  block-level heap, Scc/RV/MemProofsStore.lean = Props/C08RV.lean `C08_store_correct`) and `href_store`
  (block-level heap ⟷ abstract heap, Scc/Heap/RefineStoreObj.lean).
-/
import Scc.RV.RefSubst
import Scc.Backend.ProofsHeap2
import Scc.Heap.RefineFrontier

set_option linter.unusedVariables false
set_option linter.unusedSimpArgs false

namespace Scc.RV.Ref

open Scc.AxCut Scc.Backend Scc.Backend.Abs Scc.Backend.Sim Scc.RV
open Scc.Heap (HState InvS InvW)
open Scc.Heap.Refine (HRef imgW fieldImg kindB href_store FrLe Room frLe_store)

/-! ## the fields the machine holds -/

variable {mc : MonCfg} {cw : Nat → Word} {τ : Nat → Nat → Word}

theorem kindB_trF (m : Word) (f : Abs.Field) : kindB (trF m f) = kindB f := rfl

theorem chi_bne_iff (c : Chi) : (c != Chi.ext) = !(c == Chi.ext) := rfl

theorem trFieldsP_shift (mw : Nat → Word) (n : Nat) : ∀ (k : Nat) (fs : List Abs.Field),
    trFieldsP (fun j => mw (n + j)) k fs = trFieldsP mw (n + k) fs
  | _, [] => rfl
  | k, f :: fs => by
    simp only [trFieldsP]
    rw [trFieldsP_shift mw n (k + 1) fs]
    rfl

/-- the closure words of the fields of the object that `store` creates: those of the stored positions -/
def storeTau (τ : Nat → Nat → Word) (next : Nat) (cw : Nat → Word) (n : Nat) : Nat → Nat → Word :=
  fun id j => if id = next then cw (n + j) else τ id j

/-- the variables `Δ` at positions `k, k+1, …` hold, on the machine, the images of the fields that the
abstract `store` reads -/
theorem envFields_of_read {st : State} {ι : Nat → Nat} {σ : Temps} :
    ∀ (Δ : Ctx) (k : Nat) (fields : List Abs.Field),
    readFields σ (Mock.kindsOf Δ) k = some fields →
    (∀ j (hj : j < Δ.length) a, σ.get (2 * (k + j) + 1) = some a →
      rv st (2 * (k + j) + 1) = some (trW Δ[j].chi a (cw (k + j)))) →
    (∀ j (hj : j < Δ.length), Δ[j].chi ≠ .ext → ∀ r, σ.get (2 * (k + j)) = some r →
      rv st (2 * (k + j)) = some (imgWord ι r) ∧ (r ≠ 0 → ι r.toNat < 2 ^ 64)) →
    EnvFields (mview st) k Δ ((trFieldsP cw k fields).map (fieldImg ι))
  | [], k, fields, hf, _, _ => by
    simp only [Mock.kindsOf, List.map_nil, readFields, Option.some.injEq] at hf
    subst hf
    trivial
  | b :: Δ, k, fields, hf, hw, hp => by
    simp only [Mock.kindsOf, List.map_cons, readFields] at hf
    cases hg : σ.get (2 * k + 1) with
    | none => simp [hg] at hf
    | some w =>
      cases hr : readFields σ (Δ.map (·.chi)) (k + 1) with
      | none => simp [hg, hr] at hf
      | some rest =>
        have ih := envFields_of_read (st := st) (ι := ι) Δ (k + 1) rest hr
          (fun j hj a ha => by
            have := hw (j + 1) (by simpa using hj) a (by rw [show k + (j + 1) = k + 1 + j by omega]; exact ha)
            rw [show k + (j + 1) = k + 1 + j by omega] at this
            simpa using this)
          (fun j hj hc r hr' => by
            have := hp (j + 1) (by simpa using hj) (by simpa using hc) r
              (by rw [show k + (j + 1) = k + 1 + j by omega]; exact hr')
            rw [show k + (j + 1) = k + 1 + j by omega] at this
            exact this)
        have hw0 := hw 0 (by simp) w (by simpa using hg)
        simp only [Nat.add_zero, List.getElem_cons_zero] at hw0
        simp only [hg, hr] at hf
        by_cases hext : (b.chi == .ext) = true
        · rw [if_pos hext] at hf
          injection hf with hf
          subst hf
          refine ⟨?_, ih⟩
          unfold FieldAt
          rw [if_pos hext]
          refine ⟨trW b.chi w (cw k), ?_, hw0⟩
          have hk : kindB (trF (cw k) ⟨b.chi, 0, w⟩) = false := by
            show (b.chi != Chi.ext) = false
            rw [chi_bne_iff, hext]; rfl
          simp only [fieldImg, hk, Bool.false_eq_true, if_false]
          rfl
        · rw [if_neg hext] at hf
          cases hp0 : σ.get (2 * k) with
          | none => simp [hp0] at hf
          | some p =>
            simp only [hp0] at hf
            injection hf with hf
            subst hf
            have hne : b.chi ≠ .ext := fun e => hext (by rw [e]; rfl)
            obtain ⟨hpv, hlt⟩ := hp 0 (by simp) (by simpa using hne) p (by simpa using hp0)
            simp only [Nat.add_zero] at hpv
            refine ⟨?_, ih⟩
            unfold FieldAt
            rw [if_neg hext]
            refine ⟨imgWord ι p, trW b.chi w (cw k), ?_, hpv, hw0⟩
            have hk : kindB (trF (cw k) ⟨b.chi, p, w⟩) = true := by
              show (b.chi != Chi.ext) = true
              rw [chi_bne_iff]
              simp only [Bool.not_eq_true']
              simpa using hext
            simp only [fieldImg, hk, if_true]
            rw [imgWord_toNat hlt]
            rfl


/-! ## `store` -/

theorem roots_split (σ : Temps) (Γ : Ctx) (n : Nat) (hn : n ≤ Γ.length) :
    roots Γ σ = roots (Γ.take n) σ ++ roots.go σ (Γ.drop n) n := by
  unfold roots
  conv => lhs; rw [← List.take_append_drop n Γ]
  rw [roots_go_append]
  simp [Nat.min_eq_left hn]

theorem ofNat_of_toNat {w : Word} {p : Nat} (h : w.toNat = p) : w = BitVec.ofNat 64 p := by
  apply BitVec.eq_of_toNat_eq
  rw [BitVec.toNat_ofNat, ← h, Nat.mod_eq_of_lt w.isLt]

/-- what `store` leaves alone: the registers of the positions below the stored ones -/
theorem storedReg_keep {st st' : State} {n len : Nat}
    (FT : FrameR st st' (fun u => u = TEMP.n ∨ u = HEAP.n ∨ u = FREE.n ∨ StoredReg n len u))
    {t : Nat} (ht : t < 2 * n) (h28 : t < 28) : rv st' t = rv st t := by
  apply frameR_rv FT h28
  intro hc
  rcases hc with e | e | e | ⟨j, _, e | e⟩
  · simp [posReg] at e
  · simp [posReg] at e
  · simp [posReg] at e
  · have := posReg_inj.1 e; omega
  · have := posReg_inj.1 e; omega

/-- THE ABSTRACT `store` (at least one field) AGAINST `Memory::store` -/
theorem store_x3 {la : String → Option Nat}
    {Γ : Ctx} {cfg cfg1 : Config} {hs : HState} {ι : Nat → Nat} {st : State}
    (X : X3 mc cw τ Γ cfg hs ι st) {n : Nat} (hn : n < Γ.length) {fields : List Abs.Field}
    (hf : readFields cfg.temps (Mock.kindsOf (Γ.drop n)) n = some fields)
    (hch : Obj.children ⟨0, fields⟩ = roots.go cfg.temps (Γ.drop n) n)
    (hnext : cfg.next < 2 ^ 64)
    (hlow : ∀ t, t < 2 * n → cfg1.temps.get t = cfg.temps.get t)
    (hheap : cfg1.heap = (cfg.next, ⟨0, fields⟩) :: cfg.heap) (hnx : cfg1.next = cfg.next + 1)
    (hroom : Room hs (64 * (Γ.length - n) + 64)) (kk : Nat) :
    ∃ code kk', (store (Γ.drop n) (Γ.take n)).run kk = .ok (code, kk') ∧ MemFree code ∧
      Code.LAB "cleanup" ∉ code ∧
      ∃ st' hs' p, execFwd mc la code st = .ok (st', .fall) ∧
        X3R mc cw (storeTau τ cfg.next cw n) (Γ.take n) cfg1 (roots (Γ.take n) cfg.temps ++ [cfg.next]) hs'
          (fun i => if i = cfg.next then p else ι i) st' ∧
        rv st' (2 * n) = some (BitVec.ofNat 64 p) ∧ p ≠ 0 ∧ p < 2 ^ 64 ∧
        FrLe hs hs' (64 * (Γ.length - n)) := by
  have hcap := X.cap
  have hlim := X.limit_le
  have hnle : n ≤ Γ.length := Nat.le_of_lt hn
  have hlenT : (Γ.take n).length = n := by simp [Nat.min_eq_left hnle]
  have hlenD : (Γ.drop n).length = Γ.length - n := by simp
  have hsplit := roots_split cfg.temps Γ n hnle
  -- what the machine holds
  have hE : EnvFields (mview st) n (Γ.drop n) ((trFieldsP cw n fields).map (fieldImg ι)) := by
    apply envFields_of_read (Γ.drop n) n fields hf
    · intro j hj a ha
      have hj' : n + j < Γ.length := by rw [hlenD] at hj; omega
      have := X.words (n + j) hj' a ha
      simpa using this
    · intro j hj hc r hr
      have hj' : n + j < Γ.length := by rw [hlenD] at hj; omega
      have hc' : Γ[n + j].chi ≠ .ext := by simpa using hc
      exact ⟨X.ptrs (n + j) hj' hc' r hr, fun h0 => (X3R.ref_lt X hj' hc' hr h0).1⟩
  have hflen : fields.length = Γ.length - n := by
    have := hE.length_eq
    simp only [List.length_map, trFieldsP_length] at this
    rw [← this, hlenD]
  -- the block-level store
  have hcho : Obj.children ⟨0, trFieldsP cw n fields⟩ = roots.go cfg.temps (Γ.drop n) n := by
    rw [← hch]; exact trFieldsP_children cw 0 n fields
  have R0 : HRef (trHeap τ cfg.heap) (roots (Γ.take n) cfg.temps ++ Obj.children ⟨0, trFieldsP cw n fields⟩) cfg.next
      hs ι := by
    rw [hcho, ← hsplit]; exact X.href
  obtain ⟨hs', p, hop, R1⟩ := href_store (o := ⟨0, trFieldsP cw n fields⟩) rfl
    (by
      intro e
      have : fields.length = 0 := by
        have := congrArg List.length e
        simpa [trFieldsP_length] using this
      omega)
    hnext R0
    (by
      obtain ⟨lin, lazy, live, Fr, I⟩ := X.href.conc
      refine ⟨lin, lazy, live, Fr, ?_, ?_⟩
      · rw [hcho, ← hsplit]; exact I
      · simp only [trFieldsP_length]; rw [hflen]; have := hroom _ _ _ _ _ I; omega)
  have hfr : FrLe hs hs' (64 * (Γ.length - n)) := by
    have := frLe_store (o := ⟨0, trFieldsP cw n fields⟩) R0
      (by simp only [trFieldsP_length]; rw [hflen]; exact hroom) hop
    simpa [hflen, trFieldsP_length] using this
  -- the machine
  obtain ⟨code, kk', hrun, hle, hlabs, st', hx, B', HR', ⟨w, hw, ew⟩, FT⟩ :=
    store_contract (la := la) X.bnd X.hrel (toStore := Γ.drop n) (rem := Γ.take n)
      (by rw [hlenT, hlenD]; omega) (by rw [hlenT]; omega) (by rw [hlenT]; exact hE) hop kk
  rw [hlenT] at hw FT
  have hnew : (cfg.next, (⟨0, trFieldsP cw n fields⟩ : Obj)) ∈
      (cfg.next, (⟨0, trFieldsP cw n fields⟩ : Obj)) :: trHeap τ cfg.heap :=
    List.mem_cons_self
  have hp0 : p ≠ 0 := by
    have := (R1.shape _ hnew).pos
    simpa using this
  have hplt : p < 2 ^ 64 := by
    have h1 := href_head_lt R1 hnew
    simp only [if_true] at h1
    have h2 := HR'.limit
    have h3 := B'.top
    omega
  have hkeep : ∀ t, t < 2 * n → rv st' t = rv st t := fun t ht => storedReg_keep FT ht (by omega)
  refine ⟨code, kk', hrun, store_free _ _ kk code _ hrun, noCleanup_of_labsIn hlabs, st', hs', p, hx, ?_,
    by rw [rv_of_readReg hw, ofNat_of_toNat ew], hp0, hplt, hfr⟩
  refine ⟨B', by rw [hlenT]; omega, ?_, ?_, HR', ?_⟩
  · intro i hi a ha
    rw [hlenT] at hi
    rw [hlow _ (by omega)] at ha
    rw [hkeep _ (by omega)]
    have := X.words i (by omega) a ha
    simpa using this
  · intro i hi hc r hr
    rw [hlenT] at hi
    have hi' : i < Γ.length := by omega
    have hc' : Γ[i].chi ≠ .ext := by simpa using hc
    rw [hlow _ (by omega)] at hr
    rw [hkeep _ (by omega), X.ptrs i hi' hc' r hr]
    congr 1
    unfold imgWord
    by_cases h0 : r = 0
    · simp [h0]
    · rw [if_neg h0, if_neg h0]
      have := (X3R.ref_lt X hi' hc' hr h0).2
      show _ = BitVec.ofNat 64 (if r.toNat = cfg.next then p else ι r.toNat)
      rw [if_neg (by omega)]
  · rw [hheap, hnx, trHeap_cons]
    have e1 : trO (storeTau τ cfg.next cw n) cfg.next ⟨0, fields⟩ = ⟨0, trFieldsP cw n fields⟩ := by
      have e0 : storeTau τ cfg.next cw n cfg.next = fun j => cw (n + j) := by
        funext j; simp [storeTau]
      simp only [trO, e0]
      rw [trFieldsP_shift cw n 0 fields, Nat.add_zero]
    have e2 : trHeap (storeTau τ cfg.next cw n) cfg.heap = trHeap τ cfg.heap := by
      apply trHeap_congr
      intro e he j _
      have hlt : e.1 < cfg.next := by
        have := X.href.abs.ids (e.1, trO τ e.1 e.2) (List.mem_map.2 ⟨e, he, rfl⟩)
        exact this.2.1
      simp only [storeTau]
      rw [if_neg (by omega)]
    rw [e1, e2]
    exact R1

end Scc.RV.Ref
