/-
  Scc.RV.RefCloDefs — Theorem B (RV64), CLOSURES: the representation of values WITH the machine words of the
  closures.  Theorem A's `RepV` (Backend/SimDefs2.lean) says that a closure value is represented by a block
  reference and the ABSTRACT code address `a` of its methods (`MethodsAt P … a envCtx' clauses`, with a hidden
  environment context `envCtx'`).  On the RV64 machine the word of a closure is the address of the label of
  its method table; there is no function from abstract code addresses to RV64 addresses that could be shown to
  be correct (the code generators are run with different label counters), so the machine word of a closure is
  kept PER LOCATION: `cw i` for position `i` of the context, `τ id j` for field `j` of heap object `id`
  (RefDefs.lean), and the relation `CV` below — `RepV` with one more index, the machine word — records for
  every closure value at every location that the RV64 code at its machine word is the code of ITS methods for
  THE SAME environment context as the abstract code (`Q m envCtx' clauses`).

  `CV.transfer`, `CV.kept`: the twins of `RepV.transfer` / `RepV.kept` (Backend/ProofsRep2.lean).
-/
import Scc.RV.RefTr
import Scc.Backend.ProofsRep2
import Scc.Backend.ProofsLoad

set_option linter.unusedVariables false
set_option linter.unusedSimpArgs false

namespace Scc.RV.Ref

open Scc.AxCut Scc.AxCut.Pos Scc.Backend Scc.Backend.Abs Scc.Backend.Sim Scc.Backend.Sim2

section Defs

variable (P : Abs.Program) (hooks : Bool) (types : List TypeDecl) (Q : Word → Ctx → Clauses → Prop)

mutual
  /-- `CV … τ h v ptr w m`: `RepV … h v ptr w`, and `m` is the machine word of `v` if `v` is a closure; the
  closures in the fields of heap object `id` have the machine words `τ id ·` -/
  inductive CV (τ : Nat → Nat → Word) (h : Heap) : Value → Option Word → Word → Word → Prop where
    | int (n : Word) (p : Option Word) (m : Word) : CV τ h (.int n) p n m
    | obj (tag : Nat) (fields : List Value) (r : Word) (m : Word) :
      CB τ h fields r → CV τ h (.obj tag fields) (some r) (BitVec.ofNat 64 tag) m
    | clo (envCtx envCtx' : Ctx) (env : List Value) (clauses : Clauses) (r : Word) (a : Nat) (m : Word) :
      envCtx'.keys = envCtx.keys →
      CB τ h env r → MethodsAt P hooks types a envCtx' clauses → Q m envCtx' clauses →
      CV τ h (.clo envCtx env clauses) (some r) (BitVec.ofNat 64 a) m
  inductive CB (τ : Nat → Nat → Word) (h : Heap) : List Value → Word → Prop where
    | empty : CB τ h [] 0
    | block (v : Value) (vs : List Value) (r : Word) (o : Obj) :
      r ≠ 0 → h.get r.toNat = some o → CF τ h (v :: vs) o.fields (τ r.toNat) 0 →
      CB τ h (v :: vs) r
  /-- the values `vs` are the fields `fs`, the closures among them with the machine words `mw k, mw (k+1), …` -/
  inductive CF (τ : Nat → Nat → Word) (h : Heap) : List Value → List Field → (Nat → Word) → Nat → Prop where
    | nil (mw : Nat → Word) (k : Nat) : CF τ h [] [] mw k
    | cons (v : Value) (vs : List Value) (f : Field) (fs : List Field) (mw : Nat → Word) (k : Nat) :
      CV τ h v (if f.chi == .ext then none else some f.ptr) f.val (mw k) →
      f.chi = Sim2.kindOf v →
      CF τ h vs fs mw (k + 1) → CF τ h (v :: vs) (f :: fs) mw k
end

/-- the twin of `ValsOK2`: position `i` of the environment, with the machine word `cw i` -/
def CVals (cw : Nat → Word) (τ : Nat → Nat → Word) (h : Heap) (σ : Temps) (Γ : Ctx) (ρ : List Value) : Prop :=
  ∀ i (h1 : i < Γ.length) (h2 : i < ρ.length),
    CV P hooks types Q τ h ρ[i] (if Γ[i].chi == .ext then none else σ.get (2 * i))
      ((σ.get (2 * i + 1)).getD 0) (cw i)

end Defs

variable {P : Abs.Program} {hooks : Bool} {types : List TypeDecl} {Q : Word → Ctx → Clauses → Prop}

/-! ## forgetting the machine words -/

mutual
theorem CV.rep {τ : Nat → Nat → Word} {h : Heap} : ∀ {v : Value} {p : Option Word} {w m : Word},
    CV P hooks types Q τ h v p w m → RepV P hooks types h v p w
  | _, _, _, _, .int n p m => .int n p
  | _, _, _, _, .obj tag fields r m hb => .obj tag fields r (CB.rep hb)
  | _, _, _, _, .clo ec ec' env cl r a m hk hb hm hq => .clo ec ec' env cl r a hk (CB.rep hb) hm
theorem CB.rep {τ : Nat → Nat → Word} {h : Heap} : ∀ {vs : List Value} {r : Word},
    CB P hooks types Q τ h vs r → RepB P hooks types h vs r
  | _, _, .empty => .empty
  | _, _, .block v vs r o hr hg hf => .block v vs r o hr hg (CF.rep hf)
theorem CF.rep {τ : Nat → Nat → Word} {h : Heap} : ∀ {vs : List Value} {fs : List Field} {mw : Nat → Word}
    {k : Nat}, CF P hooks types Q τ h vs fs mw k → RepF P hooks types h vs fs
  | _, _, _, _, .nil mw k => .nil
  | _, _, _, _, .cons v vs f fs mw k hv hk hr => .cons v vs f fs (CV.rep hv) hk (CF.rep hr)
end

/-! ## the machine word only matters for closures -/

theorem CV.word_irrel {τ : Nat → Nat → Word} {h : Heap} {v : Value} {p : Option Word} {w m m' : Word}
    (hv : CV P hooks types Q τ h v p w m) (hk : Sim2.kindOf v ≠ Chi.cns) : CV P hooks types Q τ h v p w m' := by
  cases hv with
  | int n p m => exact .int _ _ m'
  | obj tag fields r m hb => exact .obj tag fields r m' hb
  | clo => exact absurd rfl hk

/-- the machine words of the fields may be given by another function that agrees on the positions read -/
theorem CF.congr_mw {τ : Nat → Nat → Word} {h : Heap} : ∀ {vs : List Value} {fs : List Field}
    {mw mw' : Nat → Word} {k k' : Nat}, CF P hooks types Q τ h vs fs mw k →
    (∀ j, j < fs.length → mw (k + j) = mw' (k' + j)) → CF P hooks types Q τ h vs fs mw' k'
  | _, _, _, _, _, _, .nil mw k, _ => .nil _ _
  | _, _, _, mw', _, k', .cons v vs f fs mw k hv hk hr, he => by
    refine .cons v vs f fs mw' k' ?_ hk (CF.congr_mw hr (fun j hj => ?_))
    · have := he 0 (by simp)
      simp only [Nat.add_zero] at this
      rw [← this]; exact hv
    · have := he (j + 1) (by simp; omega)
      rw [show k + 1 + j = k + (j + 1) by omega, show k' + 1 + j = k' + (j + 1) by omega]
      exact this

/-! ## transfer along a change of the heap (twin of `RepV.transfer`) -/

mutual
theorem CV.transfer {τ τ' : Nat → Nat → Word} {h h' : Heap} {x : Nat}
    (hk : FieldsKept h h' x) (hu : Unref h x) (hτ : ∀ id o, id ≠ x → h.get id = some o → τ' id = τ id) :
    ∀ {v : Value} {p : Option Word} {w m : Word},
    CV P hooks types Q τ h v p w m → (∀ r, p = some r → r ≠ 0 → r.toNat ≠ x) →
    CV P hooks types Q τ' h' v p w m
  | _, _, _, _, .int n p m, _ => .int n p m
  | _, _, _, _, .obj tag fields r m hb, hp =>
    .obj tag fields r m (CB.transfer hk hu hτ hb (hp r rfl))
  | _, _, _, _, .clo envCtx envCtx' env clauses r a m hkeys hb hm hq, hp =>
    .clo envCtx envCtx' env clauses r a m hkeys (CB.transfer hk hu hτ hb (hp r rfl)) hm hq
theorem CB.transfer {τ τ' : Nat → Nat → Word} {h h' : Heap} {x : Nat}
    (hk : FieldsKept h h' x) (hu : Unref h x) (hτ : ∀ id o, id ≠ x → h.get id = some o → τ' id = τ id) :
    ∀ {vs : List Value} {r : Word},
    CB P hooks types Q τ h vs r → (r ≠ 0 → r.toNat ≠ x) → CB P hooks types Q τ' h' vs r
  | _, _, .empty, _ => .empty
  | _, _, .block v vs r o hr hg hf, hp => by
    obtain ⟨o', hg', hfe⟩ := hk _ _ (hp hr) hg
    refine .block v vs r o' hr hg' ?_
    rw [hfe, hτ _ _ (hp hr) hg]
    exact CF.transfer hk hu hτ hf (fun f hfm hc hp0 => by
      intro e
      exact hu _ _ hg (e ▸ mem_children hfm hc hp0))
theorem CF.transfer {τ τ' : Nat → Nat → Word} {h h' : Heap} {x : Nat}
    (hk : FieldsKept h h' x) (hu : Unref h x) (hτ : ∀ id o, id ≠ x → h.get id = some o → τ' id = τ id) :
    ∀ {vs : List Value} {fs : List Field} {mw : Nat → Word} {k : Nat},
    CF P hooks types Q τ h vs fs mw k → (∀ f ∈ fs, f.chi ≠ .ext → f.ptr ≠ 0 → f.ptr.toNat ≠ x) →
    CF P hooks types Q τ' h' vs fs mw k
  | _, _, _, _, .nil mw k, _ => .nil mw k
  | _, _, _, _, .cons v vs f fs mw k hv hkind hr, hp => by
    refine .cons v vs f fs mw k ?_ hkind (CF.transfer hk hu hτ hr (fun f' hf' => hp f' (by simp [hf'])))
    refine CV.transfer hk hu hτ hv ?_
    intro r hr' hr0
    by_cases hc : (f.chi == .ext) = true
    · simp [hc] at hr'
    · simp only [hc, Bool.false_eq_true, if_false, Option.some.injEq] at hr'
      subst hr'
      exact hp f (by simp) (fun e => hc ((Sim2.chi_beq_ext _).mpr e)) hr0
end

theorem CV.kept {τ τ' : Nat → Nat → Word} {h h' : Heap}
    (hk : AllFieldsKept h h') (hτ : ∀ id o, h.get id = some o → τ' id = τ id)
    {v : Value} {p : Option Word} {w m : Word}
    (hv : CV P hooks types Q τ h v p w m) : CV P hooks types Q τ' h' v p w m := by
  refine CV.transfer (x := 2 ^ 64) (fun id o _ hg => hk id o hg) ?_ (fun id o _ hg => hτ id o hg) hv ?_
  · intro id o hg hm
    exact absurd (children_lt hm) (Nat.lt_irrefl _)
  · intro r _ _ e
    have := r.isLt
    omega

theorem CB.kept {τ τ' : Nat → Nat → Word} {h h' : Heap}
    (hk : AllFieldsKept h h') (hτ : ∀ id o, h.get id = some o → τ' id = τ id)
    {vs : List Value} {r : Word}
    (hv : CB P hooks types Q τ h vs r) : CB P hooks types Q τ' h' vs r := by
  refine CB.transfer (x := 2 ^ 64) (fun id o _ hg => hk id o hg) ?_ (fun id o _ hg => hτ id o hg) hv ?_
  · intro id o hg hm
    exact absurd (children_lt hm) (Nat.lt_irrefl _)
  · intro _ e
    have := r.isLt
    omega

theorem CF.kept {τ τ' : Nat → Nat → Word} {h h' : Heap}
    (hk : AllFieldsKept h h') (hτ : ∀ id o, h.get id = some o → τ' id = τ id)
    {vs : List Value} {fs : List Field} {mw : Nat → Word} {k : Nat}
    (hv : CF P hooks types Q τ h vs fs mw k) : CF P hooks types Q τ' h' vs fs mw k := by
  refine CF.transfer (x := 2 ^ 64) (fun id o _ hg => hk id o hg) ?_ (fun id o _ hg => hτ id o hg) hv ?_
  · intro id o hg hm
    exact absurd (children_lt hm) (Nat.lt_irrefl _)
  · intro f _ _ _ e
    have := f.ptr.isLt
    omega

/-! ## index-wise reading, inversion -/

theorem CF.length_eq {τ : Nat → Nat → Word} {h : Heap} : ∀ {vs : List Value} {fs : List Field}
    {mw : Nat → Word} {k : Nat}, CF P hooks types Q τ h vs fs mw k → vs.length = fs.length
  | _, _, _, _, .nil _ _ => rfl
  | _, _, _, _, .cons v vs f fs mw k _ _ hr => by simp [CF.length_eq hr]

theorem CF.get {τ : Nat → Nat → Word} {h : Heap} : ∀ {vs : List Value} {fs : List Field} {mw : Nat → Word}
    {k : Nat}, CF P hooks types Q τ h vs fs mw k →
    ∀ j (h1 : j < vs.length) (h2 : j < fs.length),
      CV P hooks types Q τ h vs[j] (if fs[j].chi == .ext then none else some fs[j].ptr) fs[j].val (mw (k + j))
  | _, _, _, _, .nil _ _, j, h1, _ => by simp at h1
  | _, _, _, _, .cons v vs f fs mw k hv hk hr, 0, _, _ => hv
  | _, _, _, _, .cons v vs f fs mw k hv hk hr, j + 1, h1, h2 => by
    have := CF.get hr j (by simpa using h1) (by simpa using h2)
    rw [show k + 1 + j = k + (j + 1) by omega] at this
    simpa using this

theorem CV.obj_inv {τ : Nat → Nat → Word} {h : Heap} {tag : Nat} {fields : List Value} {p : Option Word}
    {w m : Word} (hv : CV P hooks types Q τ h (.obj tag fields) p w m) :
    ∃ r, p = some r ∧ CB P hooks types Q τ h fields r ∧ w = BitVec.ofNat 64 tag := by
  cases hv with
  | obj _ _ r _ hb => exact ⟨r, rfl, hb, rfl⟩

theorem CV.clo_inv {τ : Nat → Nat → Word} {h : Heap} {envCtx : Ctx} {env : List Value} {clauses : Clauses}
    {p : Option Word} {w m : Word} (hv : CV P hooks types Q τ h (.clo envCtx env clauses) p w m) :
    ∃ r a envCtx', p = some r ∧ CB P hooks types Q τ h env r ∧ w = BitVec.ofNat 64 a ∧
      envCtx'.keys = envCtx.keys ∧ MethodsAt P hooks types a envCtx' clauses ∧ Q m envCtx' clauses := by
  cases hv with
  | clo _ envCtx' _ _ r a _ hk hb hm hq => exact ⟨r, a, envCtx', rfl, hb, rfl, hk, hm, hq⟩

/-! ## frame lemmas for `CVals` (twins of those for `ValsOK2`) -/

theorem CVals.congr {cw cw' : Nat → Word} {τ : Nat → Nat → Word} {h : Heap} {σ σ' : Temps} {Γ : Ctx}
    {ρ : List Value} (V : CVals P hooks types Q cw τ h σ Γ ρ)
    (hσ : ∀ t, t < 2 * Γ.length → σ'.get t = σ.get t) (hcw : ∀ i, i < Γ.length → cw' i = cw i) :
    CVals P hooks types Q cw' τ h σ' Γ ρ := by
  intro i h1 h2
  have e0 := hσ (2 * i) (by omega)
  have e1 := hσ (2 * i + 1) (by omega)
  rw [e0, e1, hcw i h1]
  exact V i h1 h2

theorem CVals.snoc {cw : Nat → Word} {τ : Nat → Nat → Word} {h : Heap} {σ σ' : Temps} {Γ : Ctx}
    {ρ : List Value} (V : CVals P hooks types Q cw τ h σ Γ ρ) (hlen : ρ.length = Γ.length)
    (hσ : ∀ t, t < 2 * Γ.length → σ'.get t = σ.get t) (b : Binding) (v : Value) (w : Word)
    (hw : σ'.get (2 * Γ.length + 1) = some w)
    (hv : CV P hooks types Q τ h v (if b.chi == .ext then none else σ'.get (2 * Γ.length)) w (cw Γ.length)) :
    CVals P hooks types Q cw τ h σ' (Γ ++ [b]) (ρ ++ [v]) := by
  intro i h1 h2
  by_cases hi : i < Γ.length
  · have hi2 : i < ρ.length := by omega
    have e0 := hσ (2 * i) (by omega)
    have e1 := hσ (2 * i + 1) (by omega)
    rw [e0, e1]
    have g1 : (Γ ++ [b])[i] = Γ[i] := List.getElem_append_left hi
    have g2 : (ρ ++ [v])[i] = ρ[i] := List.getElem_append_left hi2
    rw [g1, g2]
    exact V i hi hi2
  · have hi' : i = Γ.length := by simp at h1; omega
    subst hi'
    have g1 : (Γ ++ [b])[Γ.length] = b := by simp
    have g2 : (ρ ++ [v])[Γ.length] = v := by
      rw [List.getElem_append_right (by omega)]; simp [hlen]
    rw [g1, g2, hw]
    simpa using hv

theorem CVals.snoc_int {cw : Nat → Word} {τ : Nat → Nat → Word} {h : Heap} {σ σ' : Temps} {Γ : Ctx}
    {ρ : List Value} (V : CVals P hooks types Q cw τ h σ Γ ρ) (hlen : ρ.length = Γ.length)
    (hσ : ∀ t, t < 2 * Γ.length → σ'.get t = σ.get t) (b : Binding) (hb : b.chi = .ext) (w : Word)
    (hw : σ'.get (2 * Γ.length + 1) = some w) :
    CVals P hooks types Q cw τ h σ' (Γ ++ [b]) (ρ ++ [.int w]) := by
  apply CVals.snoc V hlen hσ b (.int w) w hw
  exact CV.int w _ _

theorem CVals.take {cw : Nat → Word} {τ : Nat → Nat → Word} {h : Heap} {σ : Temps} {Γ : Ctx}
    {ρ : List Value} (V : CVals P hooks types Q cw τ h σ Γ ρ) (n : Nat) :
    CVals P hooks types Q cw τ h σ (Γ.take n) (ρ.take n) := by
  intro i h1 h2
  have h1' : i < Γ.length := by simp at h1; omega
  have h2' : i < ρ.length := by simp at h2; omega
  have g1 : (Γ.take n)[i] = Γ[i] := by simp
  have g2 : (ρ.take n)[i] = ρ[i] := by simp
  rw [g1, g2]
  exact V i h1' h2'

theorem CVals.chi {cw : Nat → Word} {τ : Nat → Nat → Word} {h : Heap} {σ : Temps} {Γ Δ : Ctx}
    {ρ : List Value} (V : CVals P hooks types Q cw τ h σ Γ ρ)
    (hc : Γ.map (·.chi) = Δ.map (·.chi)) : CVals P hooks types Q cw τ h σ Δ ρ := by
  intro i h1 h2
  have hlen : Γ.length = Δ.length := by simpa using congrArg List.length hc
  have h1' : i < Γ.length := by omega
  have e : Γ[i].chi = Δ[i].chi := by
    have := congrArg (fun l => l[i]?) hc
    simp only [List.getElem?_map, List.getElem?_eq_getElem h1', List.getElem?_eq_getElem h1,
      Option.map_some, Option.some.injEq] at this
    exact this
  rw [← e]
  exact V i h1' h2

theorem CVals.transfer {cw : Nat → Word} {τ τ' : Nat → Nat → Word} {h h' : Heap} {σ : Temps} {Γ : Ctx}
    {ρ : List Value} {x : Nat} (V : CVals P hooks types Q cw τ h σ Γ ρ)
    (hk : FieldsKept h h' x) (hu : Unref h x) (hτ : ∀ id o, id ≠ x → h.get id = some o → τ' id = τ id)
    (hroot : ∀ i (hi : i < Γ.length), Γ[i].chi ≠ .ext → ∀ p, σ.get (2 * i) = some p → p ≠ 0 →
      p.toNat ≠ x) :
    CVals P hooks types Q cw τ' h' σ Γ ρ := by
  intro i h1 h2
  refine CV.transfer hk hu hτ (V i h1 h2) ?_
  intro r hr hr0
  by_cases hc : (Γ[i].chi == .ext) = true
  · simp [hc] at hr
  · simp only [hc, Bool.false_eq_true, if_false] at hr
    exact hroot i h1 (fun e => hc ((Sim2.chi_beq_ext _).mpr e)) r hr hr0

theorem CVals.kept {cw : Nat → Word} {τ τ' : Nat → Nat → Word} {h h' : Heap} {σ : Temps} {Γ : Ctx}
    {ρ : List Value} (V : CVals P hooks types Q cw τ h σ Γ ρ) (hk : AllFieldsKept h h')
    (hτ : ∀ id o, h.get id = some o → τ' id = τ id) :
    CVals P hooks types Q cw τ' h' σ Γ ρ := by
  intro i h1 h2
  exact CV.kept hk hτ (V i h1 h2)

theorem CVals.append {cw : Nat → Word} {τ : Nat → Nat → Word} {h : Heap} {σ : Temps} {Γ Δ : Ctx}
    {ρ vs : List Value} (V : CVals P hooks types Q cw τ h σ Γ ρ) (hlen : ρ.length = Γ.length)
    (hΔ : ∀ j (h1 : j < Δ.length) (h2 : j < vs.length),
      CV P hooks types Q τ h vs[j] (if Δ[j].chi == .ext then none else σ.get (2 * (Γ.length + j)))
        ((σ.get (2 * (Γ.length + j) + 1)).getD 0) (cw (Γ.length + j))) :
    CVals P hooks types Q cw τ h σ (Γ ++ Δ) (ρ ++ vs) := by
  intro i h1 h2
  by_cases hi : i < Γ.length
  · have hi2 : i < ρ.length := by omega
    have g1 : (Γ ++ Δ)[i] = Γ[i] := List.getElem_append_left hi
    have g2 : (ρ ++ vs)[i] = ρ[i] := List.getElem_append_left hi2
    rw [g1, g2]
    exact V i hi hi2
  · have hi' : Γ.length ≤ i := by omega
    have h1' : i - Γ.length < Δ.length := by simp at h1; omega
    have h2' : i - Γ.length < vs.length := by simp at h2; omega
    have g1 : (Γ ++ Δ)[i] = Δ[i - Γ.length] := List.getElem_append_right hi'
    have g2 : (ρ ++ vs)[i] = vs[i - Γ.length] := by
      rw [List.getElem_append_right (by omega)]
      simp [hlen]
    rw [g1, g2]
    have := hΔ (i - Γ.length) h1' h2'
    rw [show Γ.length + (i - Γ.length) = i by omega] at this
    exact this

end Scc.RV.Ref
