/-
  Scc.RV.RefLet — THREE-WAY SIMULATION of `let` (allocation of an object) on RV64:
  positional machine ⟷ abstract backend machine ⟷ RV64 machine.  The left half is Theorem A's `sim2_let`
  (Scc/Backend/ProofsHeap2.lean); the right half runs the emitted `Memory::store` (`store_x3`, RefStore.lean)
  and the tag load (`LI t (4·pos)`) on the machine and re-establishes `X3`.
-/
import Scc.RV.RefLoad

set_option linter.unusedVariables false
set_option linter.unusedSimpArgs false

namespace Scc.RV.Ref

open Scc.AxCut Scc.AxCut.Pos Scc.Backend Scc.Backend.Abs Scc.Backend.Sim Scc.Backend.Sim2 Scc.RV
open Scc.Heap (HState InvS InvW)
open Scc.Heap.Refine (HRef imgW fieldImg kindB FrLe Room)

variable {mc : MonCfg} {cw : Nat → Word} {τ : Nat → Nat → Word}

/-! ## `store` of no field: the null pointer -/

theorem storeObj_nil (hs : HState) : Scc.Heap.storeObj hs [] = .ok (hs, 0) := by
  unfold Scc.Heap.storeObj
  rw [Scc.Heap.storeFields]
  simp

theorem store_x3_empty {la : String → Option Nat}
    {Γ : Ctx} {cfg cfg1 : Config} {hs : HState} {ι : Nat → Nat} {st : State}
    (X : X3 mc cw τ Γ cfg hs ι st) (hlt : Γ.length < 14)
    (hlow : ∀ t, t < 2 * Γ.length → cfg1.temps.get t = cfg.temps.get t)
    (hheap : cfg1.heap = cfg.heap) (hnx : cfg1.next = cfg.next) (kk : Nat) :
    ∃ code kk', (store [] Γ).run kk = .ok (code, kk') ∧ MemFree code ∧ Code.LAB "cleanup" ∉ code ∧
      ∃ st', execFwd mc la code st = .ok (st', .fall) ∧
        X3R mc cw τ Γ cfg1 (roots Γ cfg.temps) hs ι st' ∧
        rv st' (2 * Γ.length) = some 0 := by
  obtain ⟨code, kk', hrun, hle, hlabs, st', hx, B', HR', ⟨w, hw, ew⟩, FT⟩ :=
    store_contract (la := la) X.bnd X.hrel (toStore := []) (rem := Γ) (fs := [])
      (by simp; omega) hlt trivial (storeObj_nil hs) kk
  have hkeep : ∀ t, t < 2 * Γ.length → rv st' t = rv st t := fun t ht => storedReg_keep FT ht (by omega)
  have hw0 : w = 0 := by
    apply BitVec.eq_of_toNat_eq; rw [ew]; rfl
  refine ⟨code, kk', hrun, store_free _ _ kk code _ hrun, noCleanup_of_labsIn hlabs, st', hx, ?_,
    by rw [rv_of_readReg hw, hw0]⟩
  refine ⟨B', X.cap, ?_, ?_, HR', ?_⟩
  · intro i hi a ha
    rw [hlow _ (by omega)] at ha
    rw [hkeep _ (by omega)]
    exact X.words i hi a ha
  · intro i hi hc r hr
    rw [hlow _ (by omega)] at hr
    rw [hkeep _ (by omega)]
    exact X.ptrs i hi hc r hr
  · rw [hheap, hnx]
    exact X.href

/-- the tag as the RV64 machine holds it -/
theorem trW_prd_tag (pos : Nat) (m : Word) :
    BitVec.ofInt 64 (rvBackend.jumpLength pos) = trW .prd (BitVec.ofInt 64 (pos : Int)) m := by
  show BitVec.ofInt 64 ((4 : Int) * (pos : Int)) = BitVec.ofInt 64 pos * 4#64
  rw [BitVec.ofInt_mul, BitVec.mul_comm]
  rfl

/-- the closure words of the heap fields after `let` / `create`: the new object (if there is one) gets
those of the stored positions -/
def letTau (τ : Nat → Nat → Word) (next : Nat) (cw : Nat → Word) (N nargs : Nat) : Nat → Nat → Word :=
  if nargs = 0 then τ else storeTau τ next cw N

section Let3

variable {pr : RV.Program} {ks : List Code} (L : Loaded pr ks) (hnd : (labs ks).Nodup)
  (hheap : mc.heap = false)

include L hnd hheap in
/-- the `store` of `let` / `create` on both machines: the last `nargs` variables go to a fresh object (or
nothing is allocated), the new variable `b` at position `N` references it -/
theorem store_mid_x3 {P : Abs.Program} {hooks : Bool} {prog : AxCut.Prog} {Γ : Ctx} {ρ : List Value} {s : Stmt}
    {cfg cA : Config} {N nargs : Nat} {x : Ident} {chi : Chi} {ty : Ty}
    (R : RelX P hooks prog ⟨Γ, ρ, s⟩ cfg) (hN : Γ.length - nargs = N) (hk : nargs ≤ Γ.length)
    (hchi : chi ≠ .ext) (hN14 : N < 14)
    (hcap : 2 * (N + 1) + 2 < Mock.T_TEMP) (hnext : cfg.next < 2 ^ 64)
    (hstore : P.code[cfg.pc]? = some (.store (Mock.kindsOf (Γ.drop N)) N))
    (hsA : Abs.step P cfg = .next cA)
    {hs : HState} {ι : Nat → Nat} {st0 : State} (X0 : X3 mc cw τ Γ cfg hs ι st0)
    {k kst : Nat} {cst more : List Code}
    (hstX : (store (Γ.drop N) (Γ.take N)).run k = .ok (cst, kst))
    (hat1 : KAt ks st0.pc (cst ++ more))
    (hroom : Room hs (64 * nargs + 64)) :
    ∃ st1 hs' ι', Reach pr mc st0 st1 ∧ KAt ks st1.pc more ∧
      X3R mc cw (letTau τ cfg.next cw N nargs) (Γ.take N) cA
        (roots (Γ.take N) cA.temps ++ rootOf cA.temps ⟨x, chi, ty⟩ N) hs' ι' st1 ∧
      (∀ r, cA.temps.get (2 * N) = some r → rv st1 (2 * N) = some (imgWord ι' r)) ∧
      cA.pc = cfg.pc + 1 ∧ cA.out = cfg.out ∧ FrLe hs hs' (64 * nargs) := by
  have hNle : N ≤ Γ.length := by omega
  have hlenρ : (ρ.drop N).length = (Γ.drop N).length := by
    have := R.len; simp only at this; simp [this]
  obtain ⟨fields, hf, hrep, hch⟩ := readFields_ok2 (Γ.drop N) (ρ.drop N) N (R.vals.slice N) hlenρ
  have hlenTake : (Γ.take N).length = N := by simp; omega
  cases hΔ : Γ.drop N with
  | nil =>
    have hNΓ : N = Γ.length := by
      have := congrArg List.length hΔ
      simp at this; omega
    rw [hΔ] at hstore hstX
    have hT : Γ.take N = Γ := by rw [hNΓ]; exact List.take_length
    rw [hT] at hstX ⊢
    have hτ0 : letTau τ cfg.next cw N nargs = τ := by
      unfold letTau; rw [if_pos (by omega)]
    rw [hτ0]
    have hA := step_store_empty P cfg N hstore
    rw [hsA] at hA
    injection hA with hA
    have hlow : ∀ t, t < 2 * Γ.length → cA.temps.get t = cfg.temps.get t := by
      intro t ht
      rw [hA]
      simp only
      rw [get_set_other _ _ (by omega), get_clobberTemp _ (by unfold Mock.T_TEMP; have := X0.cap; omega)]
    obtain ⟨code, kk', hrunS, hfree, hncl, st1, hx, X1, hv1⟩ :=
      store_x3_empty (la := pr.labelAddr) X0 (by omega) hlow (by rw [hA]) (by rw [hA]) k
    have hcode : code = cst ∧ kk' = kst := by
      have : (store [] Γ).run k = .ok (cst, kst) := hstX
      rw [hrunS] at this
      injection this with this
      injection this with e1 e2
      exact ⟨e1, e2⟩
    obtain ⟨rfl, rfl⟩ := hcode
    obtain ⟨pc1, steps1, hn1, hat2⟩ := exec_block L hnd hheap hat1 hfree hncl hx
    have h2n : cA.temps.get (2 * N) = some 0 := by
      rw [hA]; simp only; exact get_set_same _ _ _
    refine ⟨setPS st1 pc1 steps1, hs, ι, hn1, hat2, ?_, ?_, by rw [hA], by rw [hA], by
      have : nargs = 0 := by omega
      rw [this]; exact Scc.Heap.Refine.FrLe.refl hs⟩
    · have hr : rootOf cA.temps ⟨x, chi, ty⟩ N = [] := by
        unfold rootOf; rw [h2n]; simp
      rw [hr, List.append_nil, roots_congr _ _ _ (fun i hi => hlow (2 * i) (by omega))]
      exact X3R.setPS X1 _ _
    · intro r hr
      rw [h2n] at hr
      injection hr with hr
      subst hr
      rw [rv_setPS, hNΓ, hv1]
      simp [imgWord]
  | cons b Δ =>
    rw [hΔ] at hstore
    have hfc : readFields cfg.temps (b.chi :: Mock.kindsOf Δ) N = some fields := by
      rw [hΔ] at hf; exact hf
    have hA := step_store_cons P cfg b.chi (Mock.kindsOf Δ) N fields hstore hfc
    rw [hsA] at hA
    injection hA with hA
    have hNlt : N < Γ.length := by
      have := congrArg List.length hΔ
      simp at this; omega
    have hτ0 : letTau τ cfg.next cw N nargs = storeTau τ cfg.next cw N := by
      unfold letTau; rw [if_neg (by omega)]
    rw [hτ0]
    have hlow : ∀ t, t < 2 * N → cA.temps.get t = cfg.temps.get t := by
      intro t ht
      rw [hA]
      simp only
      rw [get_set_other _ _ (by omega), get_clearPositions, if_neg (by omega),
        get_clobberTemp _ (by unfold Mock.T_TEMP; have := X0.cap; omega)]
    obtain ⟨code, kk', hrunS, hfree, hncl, st1, hs', p, hx, X1, hv1, hp0, hplt, hfrS⟩ :=
      store_x3 (la := pr.labelAddr) X0 hNlt hf (hch 0) hnext hlow (by rw [hA]) (by rw [hA])
        (by rw [show Γ.length - N = nargs by omega]; exact hroom) k
    have hcode : code = cst ∧ kk' = kst := by
      have : (store (Γ.drop N) (Γ.take N)).run k = .ok (cst, kst) := hstX
      rw [hrunS] at this
      injection this with this
      injection this with e1 e2
      exact ⟨e1, e2⟩
    obtain ⟨rfl, rfl⟩ := hcode
    obtain ⟨pc1, steps1, hn1, hat2⟩ := exec_block L hnd hheap hat1 hfree hncl hx
    have h2n : cA.temps.get (2 * N) = some (BitVec.ofNat 64 cfg.next) := by
      rw [hA]; simp only; exact get_set_same _ _ _
    have hr0 : BitVec.ofNat 64 cfg.next ≠ 0 := ofNat_ne_zero X0.href.abs.pos hnext
    have hrt : (BitVec.ofNat 64 cfg.next).toNat = cfg.next := ofNat_toNat_lt hnext
    refine ⟨setPS st1 pc1 steps1, hs', (fun i => if i = cfg.next then p else ι i), hn1, hat2, ?_, ?_,
      by rw [hA], by rw [hA], by rw [show Γ.length - N = nargs by omega] at hfrS; exact hfrS⟩
    · have hr : rootOf cA.temps ⟨x, chi, ty⟩ N = [cfg.next] := by
        unfold rootOf
        rw [h2n]
        have h1 : (chi != Chi.ext) = true := (Scc.Backend.Sim2.chi_bne_ext _).mpr hchi
        have h2 : (BitVec.ofNat 64 cfg.next != 0) = true := by rw [bne_iff_ne]; exact hr0
        simp only [h1, h2, if_true, hrt]
      rw [hr, roots_congr _ _ _ (fun i hi => hlow (2 * i) (by rw [hlenTake] at hi; omega))]
      exact X3R.setPS X1 _ _
    · intro r hr
      rw [h2n] at hr
      injection hr with hr
      subst hr
      rw [rv_setPS, hv1]
      unfold imgWord
      rw [if_neg hr0, hrt]
      simp

include L hnd hheap in
/-- THREE-WAY SIMULATION OF `let` -/
theorem let_x3 {P : Abs.Program} {hooks : Bool} {prog : AxCut.Prog} {Γ : Ctx} {ρ : List Value} {x : Ident}
    {ty : Ty} {tag : Ident} {args : Ctx} {next : Stmt} {fv : FV} {cfg : Config} {pos : Nat}
    (R : RelX P hooks prog ⟨Γ, ρ, .letS x ty tag args next fv⟩ cfg)
    (hk : args.length ≤ Γ.length)
    (hfresh : ∀ b ∈ Γ.take (Γ.length - args.length), b.var.id ≠ x.id)
    (hpos : Pos.tagPosition prog.types ty tag = .ok pos)
    (hcap : 2 * (Γ.length - args.length + 1) + 2 < Mock.T_TEMP)
    (hnext : cfg.next < 2 ^ 64)
    {hs : HState} {ι : Nat → Nat} {st : State} (X : X3 mc cw τ Γ cfg hs ι st)
    {k k' : Nat} {items : List Code}
    (hrun : (codeStatementR rvBackend hooks natRen prog.types (.letS x ty tag args next fv) Γ).run k =
      .ok (items, k'))
    (hat : KAt ks st.pc items)
    (hroom : Room hs (64 * args.length + 64)) :
    ∃ cfg' st' hs' ι', stepsTo P 2 cfg cfg' ∧ Reach pr mc st st' ∧ FrLe hs hs' (64 * args.length) ∧
      cfg'.out = cfg.out ∧ cfg'.next ≤ cfg.next + 1 ∧
      RelX P hooks prog ⟨Γ.take (Γ.length - args.length) ++ [⟨x, .prd, ty⟩],
        ρ.take (Γ.length - args.length) ++ [.obj pos (ρ.drop (Γ.length - args.length))], next⟩ cfg' ∧
      X3 mc cw (letTau τ cfg.next cw (Γ.length - args.length) args.length)
        (Γ.take (Γ.length - args.length) ++ [⟨x, .prd, ty⟩]) cfg' hs' ι' st' ∧
      ∃ k1 k1' items', (codeStatementR rvBackend hooks natRen prog.types next
          (Γ.take (Γ.length - args.length) ++ [⟨x, .prd, ty⟩])).run k1 = .ok (items', k1') ∧
        KAt ks st'.pc items' := by
  obtain ⟨cfg', hst, hout', hnx', R'⟩ := sim2_let R hk hfresh hpos hcap hnext
  -- the mock code at the program counter (as in `sim2_let`)
  obtain ⟨c, c', ops, hrunM, hatM⟩ := R.code
  obtain ⟨d, hd, hxp⟩ := tagPosition_ok hpos
  simp only [codeStatementR, run_bind_ok, run_pure_ok, lookupTypeDeclM_run_ok, xtorPositionM_run_ok,
    splitOffLast_run_ok, mockSym_store, mockSym_variableTemporary, vt_run_ok] at hrunM
  obtain ⟨decl, k1, ⟨hd', rfl⟩, pos', k2, ⟨hx', rfl⟩, sp, k3, ⟨_, rfl, rfl⟩, c1, k4, ⟨rfl, rfl⟩, t, k5,
    ⟨p, hp, rfl, rfl⟩, c3, k6, h3, rfl, rfl⟩ := hrunM
  rw [hd] at hd'; cases hd'
  rw [hxp] at hx'; cases hx'
  have hn : (Γ.take (Γ.length - args.length)).length = Γ.length - args.length := by simp
  have hp' : p = Γ.length - args.length := by
    rw [ctxPosition_eq_posOf] at hp
    have := posOf_append_fresh (Γ.take (Γ.length - args.length)) ⟨x, .prd, ty⟩ hfresh
    simp only at hp
    rw [this, hn] at hp
    exact (Option.some.inj hp).symm
  subst hp'
  simp only [mockSym_comment, mockSym_loadImmediate, mockSym_jumpLength, List.append_assoc,
    CodeAt_hook] at hatM
  simp only [List.cons_append, List.nil_append, CodeAt, TempNum.toNat] at hatM
  obtain ⟨hstore, hli, hat3⟩ := hatM
  rw [hn] at hstore
  -- the RV code at the program counter
  simp only [codeStatementR, run_bind_ok, run_pure_ok, lookupTypeDeclM_run_ok, xtorPositionM_run_ok,
    splitOffLast_run_ok] at hrun
  obtain ⟨declX, _, ⟨hdX, rfl⟩, posX, _, ⟨hxX, rfl⟩, spX, _, ⟨_, rfl, rfl⟩, cst, kst, hstX, tX, _, htX,
    c3X, k6X, h3X, rfl, rfl⟩ := hrun
  rw [hd] at hdX; cases hdX
  rw [hxp] at hxX; cases hxX
  obtain ⟨pX, hpX, hltX, rfl, rfl⟩ := (rv_vt_run_ok _ _ _ _ _ _).1 htX
  have hpX' : pX = Γ.length - args.length := by
    have := posOf_append_fresh (Γ.take (Γ.length - args.length)) ⟨x, .prd, ty⟩ hfresh
    simp only at hpX
    rw [this, hn] at hpX
    exact (Option.some.inj hpX).symm
  subst hpX'
  simp only [TempNum.toNat] at hltX
  generalize hN : Γ.length - args.length = N at *
  have hNle : N ≤ Γ.length := by omega
  -- the two abstract steps, explicitly
  obtain ⟨cA, hsA, cB, hsB, hcB⟩ := hst
  have hcB' : cB = cfg' := hcB
  subst hcB'
  -- layout of the RV items
  simp only [] at hstX h3X htX hat h3 hp hpX
  have hxc : rvBackend.comment "#load tag" = Code.COMMENT "#load tag" := rfl
  have hxl : rvBackend.loadImmediate (posTemp (2 * N + TempNum.snd.toNat)) (rvBackend.jumpLength pos) =
      [Code.LI (posTemp (2 * N + 1)) (rvBackend.jumpLength pos)] := rfl
  rw [hxc, hxl] at hat
  generalize hc0 : hookCode rvBackend hooks Γ ++ [rvBackend.comment
      ("let " ++ x.print ++ ": " ++ tyPrint ty ++ " = " ++ tag.print ++ "(" ++ varsPrint args ++ ");")] = c0 at hat
  have hc0c : ∀ y ∈ c0, ∃ m', y = Code.COMMENT m' := by rw [← hc0]; exact hook_comments hooks Γ _
  have hatA : KAt ks st.pc (c0 ++ (cst ++ ([Code.COMMENT "#load tag"] ++
      ([Code.LI (posTemp (2 * N + 1)) (rvBackend.jumpLength pos)] ++ c3X)))) := by
    simpa [List.append_assoc] using hat
  -- the comments
  obtain ⟨pc0, k0, hk0, hat1⟩ := pass_comments L hnd hheap hatA hc0c
  have X0 : X3 mc cw τ Γ cfg hs ι (setPS st pc0 k0) := X3R.setPS X _ _
  replace hat1 : KAt ks (setPS st pc0 k0).pc (cst ++ ([Code.COMMENT "#load tag"] ++
      ([Code.LI (posTemp (2 * N + 1)) (rvBackend.jumpLength pos)] ++ c3X))) := hat1
  generalize setPS st pc0 k0 = st0 at hk0 X0 hat1
  -- the fields read by the abstract `store`
  have hlenρ : (ρ.drop N).length = (Γ.drop N).length := by
    have := R.len; simp only at this; simp [this]
  obtain ⟨fields, hf, hrep, hch⟩ := readFields_ok2 (Γ.drop N) (ρ.drop N) N (R.vals.slice N) hlenρ
  have hlenTake : (Γ.take N).length = N := hn
  -- the store on both machines
  obtain ⟨st1, hs', ι', hn1, hat2, X1, hptr1, hpcA, _, hfrM⟩ :=
    store_mid_x3 L hnd hheap (x := x) (chi := .prd) (ty := ty) R hN hk (by decide) (by omega) hcap hnext hstore hsA X0 hstX hat1 hroom
  -- the tag
  have hB := step_li P cA (2 * N + 1) pos (by rw [hpcA]; exact hli) (by unfold Mock.T_TEMP; omega)
  rw [hsB] at hB
  injection hB with hB
  obtain ⟨pc2, k2, hk2, hat3'⟩ := pass_comments L hnd hheap hat2 (fun y hy => by simp at hy; exact ⟨_, hy⟩)
  have X1' : X3R mc cw (letTau τ cfg.next cw N args.length) (Γ.take N) cA (roots (Γ.take N) cA.temps ++ rootOf cA.temps ⟨x, .prd, ty⟩ N) hs' ι'
      (setPS st1 pc2 k2) := X3R.setPS X1 _ _
  obtain ⟨pc3, k3', hk3, hat4⟩ := exec_block L hnd hheap (s := setPS st1 pc2 k2) hat3'
    (fun c hc => by simp at hc; subst hc; rfl) (by simp)
    (execFwd_single (show exec mc pr.labelAddr 0 (Code.LI (posTemp (2 * N + 1)) (rvBackend.jumpLength pos)) _ =
      .ok (_, .fall) from rfl))
  have K := keep_writeReg X1'.bnd.wf (posTemp (2 * N + 1)) (imm (rvBackend.jumpLength pos))
  have X2 : X3R mc cw (letTau τ cfg.next cw N args.length) (Γ.take N ++ [⟨x, .prd, ty⟩]) cB
      (roots (Γ.take N) cA.temps ++ rootOf cA.temps ⟨x, .prd, ty⟩ N) hs' ι'
      ((setPS st1 pc2 k2).writeReg (posTemp (2 * N + 1)) (imm (rvBackend.jumpLength pos))) := by
    refine X3R.snoc X1' (by rw [hlenTake]; omega) (by rw [hlenTake]; exact K) (a := BitVec.ofInt 64 pos)
      (by
        rw [hlenTake, rv_writeReg_same X1'.bnd.wf (by omega)]
        exact congrArg some (trW_prd_tag pos _)) (by rw [hB, hlenTake])
      (by rw [hB]) (by rw [hB]) ?_
    intro _ r hr
    rw [hlenTake] at hr ⊢
    rw [rv_setPS]
    exact hptr1 r hr
  have hrootsB : roots (Γ.take N ++ [⟨x, .prd, ty⟩]) cB.temps =
      roots (Γ.take N) cA.temps ++ rootOf cA.temps ⟨x, .prd, ty⟩ N := by
    have hgetB : ∀ t, t ≠ 2 * N + 1 → t < 28 → cB.temps.get t = cA.temps.get t := by
      intro t hne ht
      rw [hB]
      simp only
      rw [get_set_other _ _ hne, get_clobberTemp _ (by unfold Mock.T_TEMP; omega)]
    rw [roots_snoc, hlenTake]
    congr 1
    · exact roots_congr _ _ _ (fun i hi => hgetB (2 * i) (by omega) (by rw [hlenTake] at hi; omega))
    · unfold rootOf
      rw [hgetB (2 * N) (by omega) (by omega)]
  refine ⟨cB, _, hs', ι', ⟨cA, hsA, cB, hsB, rfl⟩, hk0.trans (hn1.trans (hk2.trans hk3)), hfrM,
    hout', hnx', R', ?_, kst, k6X, c3X, h3X, hat4⟩
  show X3R mc cw _ _ cB (roots _ cB.temps) hs' ι' _
  rw [hrootsB]
  exact X3R.setPS X2 _ _

end Let3

end Scc.RV.Ref
