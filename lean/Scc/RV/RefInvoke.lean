/-
  Scc.RV.RefInvoke — Theorem B (RV64), CLOSURES: `invoke`.
  * `rv_codeMethods_nth` / `rv_codeMethods_head`: where the code of a method is in the RV64 code of the methods;
  * `invoke_nav_abs`: the abstract machine from the `invoke` to the `load` of the selected method (the first
    part of `sim2_invoke`, with the witness — address and environment context — of `CV`, not that of `RepV`);
  * `invoke_nav_rv`: the RV64 machine from the `invoke` (`JALR` through the word of the closure, or
    `add_and_jump` through the method table) to the `load` of the selected method;
  * `load_enter_x3`: the `load` at the head of a clause / method on the three machines;
  * `invoke_x3`: THREE-WAY SIMULATION OF `invoke`.
-/
import Scc.RV.RefCreate
import Scc.RV.RefSwitch
import Scc.RV.RefJump

set_option linter.unusedVariables false
set_option linter.unusedSimpArgs false

namespace Scc.RV.Ref

open Scc.AxCut Scc.AxCut.Pos Scc.Backend Scc.Backend.Abs Scc.Backend.Sim Scc.Backend.Sim2 Scc.RV
open Scc.Heap (HState InvS InvW)
open Scc.Heap.Refine (HRef FrLe Room loadAbs)

/-! ## where the code of a method is -/

theorem rv_codeMethods_nth (hooks : Bool) (ren : Nat → String) (types : List TypeDecl) (env : Ctx) :
    ∀ (clauses : Clauses) (base : String) (i : Nat) (c : Clause) (k : Nat) (code : List Code) (k' : Nat),
    (codeMethodsR rvBackend hooks ren types env clauses base).run k = .ok (code, k') →
    nthClause clauses i = some c →
    ∃ pre post kl kl' lcode kb' body,
      code = pre ++ Code.LAB (clauseLabel base c.xtor) :: (lcode ++ (body ++ post)) ∧
      (load env c.ctx).run kl = .ok (lcode, kl') ∧
      (codeStatementR rvBackend hooks ren types c.body (c.ctx ++ env)).run kl' = .ok (body, kb')
  | .nil, _, _, _, _, _, _, _, h => by simp [nthClause] at h
  | .cons x ctx body rest, base, i, c, k, code, k', hrun, h => by
    simp only [codeMethodsR, run_bind_ok, run_pure_ok] at hrun
    obtain ⟨c1, k1, h1, c2, k2, h2, c3, k3, h3, rfl, rfl⟩ := hrun
    cases i with
    | zero =>
      simp only [nthClause, Option.some.injEq] at h
      subst h
      exact ⟨[], c3, k, k1, c1, k2, c2, by simp; rfl, h1, h2⟩
    | succ i =>
      simp only [nthClause] at h
      obtain ⟨pre, post, kl, kl', lcode, kb', b, e, hl, hb⟩ :=
        rv_codeMethods_nth hooks ren types env rest base i c _ _ _ h3 h
      refine ⟨Code.LAB (clauseLabel base x) :: (c1 ++ c2) ++ pre, post, kl, kl', lcode, kb', b, ?_, hl, hb⟩
      rw [e]
      show Code.LAB _ :: (c1 ++ c2 ++ _) = _
      simp

theorem rv_codeMethods_head (hooks : Bool) (ren : Nat → String) (types : List TypeDecl) (env : Ctx)
    (clauses : Clauses) (base : String) (c : Clause) (k : Nat) (code : List Code) (k' : Nat)
    (hrun : (codeMethodsR rvBackend hooks ren types env clauses base).run k = .ok (code, k'))
    (h : nthClause clauses 0 = some c) :
    ∃ post kl' lcode kb' body,
      code = Code.LAB (clauseLabel base c.xtor) :: (lcode ++ (body ++ post)) ∧
      (load env c.ctx).run k = .ok (lcode, kl') ∧
      (codeStatementR rvBackend hooks ren types c.body (c.ctx ++ env)).run kl' = .ok (body, kb') := by
  cases clauses with
  | nil => simp [nthClause] at h
  | cons x ctx body rest =>
    simp only [codeMethodsR, run_bind_ok, run_pure_ok] at hrun
    obtain ⟨c1, k1, h1, c2, k2, h2, c3, k3, h3, rfl, rfl⟩ := hrun
    simp only [nthClause, Option.some.injEq] at h
    subst h
    exact ⟨c3, k1, c1, k2, c2, by simp; rfl, h1, h2⟩


/-! ## an entry of a jump table in the kept codes -/

theorem kat_table_entry {ks : List Code} {i : Nat} {base : String} {table rest : List Code} {pos : Nat} {e : Code}
    (hat : KAt ks i (Code.LAB base :: (table ++ rest))) (htins : ∀ y ∈ table, y.isInstr = true)
    (htab : table[pos]? = some e) :
    ks[i]? = some (Code.LAB base) ∧ ks[i + 1 + pos]? = some e ∧
      icount (ks.take (i + 1 + pos)) = icount (ks.take i) + pos ∧ KAt ks (i + 1 + table.length) rest := by
  obtain ⟨hgL, hatT⟩ := hat.head rfl
  obtain ⟨kt, ⟨kT1, kTrest, ekT, hkT1⟩, hkt, hatC⟩ := hatT.split
  have hkt' : table = kt := (hkt.noncomments (fun y hy => by
    have := htins y hy
    cases y <;> first | rfl | (simp [Code.isInstr] at this))).symm
  subst hkt'
  have hposlt : pos < table.length := (List.getElem?_eq_some_iff.1 htab).1
  have hilt : i < ks.length := (List.getElem?_eq_some_iff.1 hgL).1
  have hgj : ks[i + 1 + pos]? = some e := by
    rw [ekT, List.append_assoc, List.getElem?_append_right (by omega), hkT1]
    simp only [Nat.add_sub_cancel_left]
    rw [List.getElem?_append_left (by omega)]
    exact htab
  have hk1 : kT1 = ks.take (i + 1) := by
    rw [ekT, List.append_assoc, List.take_left' hkT1]
  have htakeL : ks.take (i + 1) = ks.take i ++ [Code.LAB base] := by
    rw [List.take_succ_eq_append_getElem hilt]
    rw [List.getElem?_eq_getElem hilt] at hgL
    injection hgL with hgL
    rw [hgL]
  have htakej : ks.take (i + 1 + pos) = ks.take (i + 1) ++ table.take pos := by
    rw [← hk1]
    conv => lhs; rw [ekT, List.append_assoc, ← hkT1, List.take_length_add_append]
    rw [List.take_append_of_le_length (by omega)]
  refine ⟨hgL, hgj, ?_, hatC⟩
  rw [htakej, htakeL, icount_append, icount_append, icount_single,
    icount_all_instr (fun y hy => htins y (List.mem_of_mem_take hy))]
  simp [Code.isInstr]
  omega


/-! ## the RV64 machine up to the `load` of the method -/

section Nav

variable {mc : MonCfg} {cw : Nat → Word} {τ : Nat → Nat → Word} {pr : RV.Program} {ks : List Code}
  (L : Loaded pr ks) (hnd : (labs ks).Nodup) (hheap : mc.heap = false)
  (hfitX : codeBase + 4 * icount ks < 2 ^ 64)
  (hcl : ∀ t, t + 1 < ks.length → ks[t]? ≠ some (Code.LAB "cleanup"))

include L hnd hheap hfitX hcl in
/-- the machine from the `invoke` to the `load` of the selected method -/
theorem invoke_nav_rv {hooks : Bool} {types : List TypeDecl} {Γa : Ctx} {b : Binding} {cfg : Config}
    {hs : HState} {ι : Nat → Nat} {st : State} {x tag : Ident} {ty : Ty} {args : Ctx} {clauses : Clauses}
    {pos : Nat} {c : Clause} {d : TypeDecl} {ec' : Ctx} {m : Word}
    (X : X3 mc cw τ (Γa ++ [b]) cfg hs ι st)
    (hb : b.var.id = x.id) (hfresh : ∀ b' ∈ Γa, b'.var.id ≠ x.id)
    (hd : lookupTypeDecl types ty = some d) (hx : xtorPosition d tag = some pos)
    (hclause : nthClause clauses pos = some c) (hlc : clauses.length = d.xtors.length)
    (hrv : rv st (2 * Γa.length + 1) = some m) (hK : KMethodsAt ks hooks types m ec' clauses)
    {k k' : Nat} {items : List Code}
    (hrun : (codeStatementR rvBackend hooks natRen types (.invoke x tag ty args) (Γa ++ [b])).run k =
      .ok (items, k'))
    (hat : KAt ks st.pc items) :
    ∃ st4 kl kl' lcode kb' body, Reach pr mc st st4 ∧ X3 mc cw τ (Γa ++ [b]) cfg hs ι st4 ∧
      (load ec' c.ctx).run kl = .ok (lcode, kl') ∧
      (codeStatementR rvBackend hooks natRen types c.body (c.ctx ++ ec')).run kl' = .ok (body, kb') ∧
      KAt ks st4.pc (lcode ++ body) := by
  obtain ⟨base, i, km, km', mcode, hbase, hidx, hm, hmrun, hatM⟩ := hK
  have hposlt := nthClause_lt clauses pos c hclause
  have hclne : clauseLabel base c.xtor ≠ "cleanup" := by
    unfold clauseLabel; exact tableLabel_ne_cleanup _ _
  generalize hA : codeBase + 4 * icount (ks.take i) = A at hm
  have hAlt : A < 2 ^ 64 := by
    have := icount_take_le ks i
    omega
  have hAeven : A % 2 = 0 := by rw [← hA]; unfold codeBase; omega
  have hgi : ks[i]? = some (Code.LAB base) := (hatM.head rfl).1
  have hilt : i < ks.length := (List.getElem?_eq_some_iff.1 hgi).1
  have hcl' : ∀ j, j < ks.length → ∀ t, t < j → ks[t]? ≠ some (Code.LAB "cleanup") :=
    fun j hj t ht => hcl t (by omega)
  -- decode the code
  simp only [codeStatementR, run_bind_ok, run_pure_ok, lookupTypeDeclM_run_ok] at hrun
  obtain ⟨tX, _, htX, decl, _, ⟨hd', rfl⟩, hrun⟩ := hrun
  rw [hd] at hd'; cases hd'
  obtain ⟨q, hq, hlt, rfl, rfl⟩ := (rv_vt_run_ok _ _ _ _ _ _).1 htX
  have hq' : q = Γa.length := by
    have := posOf_append_fresh Γa b (fun b' hb' => by rw [hb]; exact hfresh b' hb')
    rw [hb] at this
    rw [this] at hq
    exact (Option.some.inj hq).symm
  subst hq'
  simp only [TempNum.toNat] at hlt
  generalize hc0 : hookCode rvBackend hooks (Γa ++ [b]) ++ [rvBackend.comment (invokePrint x tag args)] = c0 at hrun
  have hc0c : ∀ y ∈ c0, ∃ m', y = Code.COMMENT m' := by rw [← hc0]; exact hook_comments hooks _ _
  have hrt : st.readReg (posTemp (2 * Γa.length + 1)) = .ok (BitVec.ofNat 64 A) := by
    rw [← hm]; exact readReg_of_rv hrv
  by_cases hle : d.xtors.length ≤ 1
  · -- a single method: the jump goes to the label of the (empty) table
    have hpos0 : pos = 0 := by omega
    subst hpos0
    simp only [hle, if_true, run_pure_ok] at hrun
    obtain ⟨rfl, rfl⟩ := hrun
    have hgt : ¬ (clauses.length > 1) := by omega
    simp only [hgt, if_false, List.nil_append] at hatM
    obtain ⟨post0, kl0', lcode0, kb0', body0, hc30, hload0, hbody0⟩ :=
      rv_codeMethods_head hooks natRen types ec' clauses base c _ _ _ hmrun hclause
    rw [hc30] at hatM
    have hatN : KAt ks st.pc ((c0 ++ [Code.COMMENT "#there is only one clause, so we can jump there directly"]) ++
        [Code.JALR ZERO (posTemp (2 * Γa.length + 1)) 0]) := hat
    obtain ⟨pc0, k0, hr0, hat0⟩ := pass_comments L hnd hheap hatN (by
      intro y hy
      simp only [List.mem_append, List.mem_cons, List.not_mem_nil, or_false] at hy
      rcases hy with hy | rfl
      · exact hc0c y hy
      · exact ⟨_, rfl⟩)
    have hjx : ∀ a', exec mc pr.labelAddr a' (Code.JALR ZERO (posTemp (2 * Γa.length + 1)) 0) (setPS st pc0 k0) =
        .ok (setPS st pc0 k0, .addr (BitVec.ofNat 64 A)) := fun a' =>
      exec_JALR_zero mc pr.labelAddr a' (s := setPS st pc0 k0) (by rw [readReg_setPS]; exact hrt) hAeven
    have hr1 := jump_reach L hheap (s := setPS st pc0 k0) hat0 rfl hjx hilt
      (Or.inr ⟨base, by rw [List.getElem?_eq_getElem hilt] at hgi; injection hgi⟩)
      (by rw [ofNat_toNat_lt hAlt, hA]) (hcl' i hilt)
    have hatM' : KAt ks (setPS (setPS st pc0 k0) i ((setPS st pc0 k0).steps + 1)).pc
        (Code.LAB base :: (Code.LAB (clauseLabel base c.xtor) :: (lcode0 ++ (body0 ++ post0)))) := hatM
    have X1 : X3 mc cw τ (Γa ++ [b]) cfg hs ι (setPS (setPS st pc0 k0) i ((setPS st pc0 k0).steps + 1)) :=
      X3R.setPS (X3R.setPS X _ _) _ _
    generalize setPS (setPS st pc0 k0) i ((setPS st pc0 k0).steps + 1) = s1 at hr1 hatM' X1
    obtain ⟨hr2, hat2⟩ := pass_label L (cfg := mc) hatM' hbase
    obtain ⟨hr3, hat3⟩ := pass_label L (cfg := mc) (s := setPS s1 (s1.pc + 1) s1.steps) hat2 hclne
    refine ⟨_, _, _, lcode0, _, body0, hr0.trans (hr1.trans (hr2.trans hr3)),
      X3R.setPS (X3R.setPS X1 _ _) _ _, hload0, hbody0, ?_⟩
    have : KAt ks (setPS (setPS s1 (s1.pc + 1) s1.steps) ((setPS s1 (s1.pc + 1) s1.steps).pc + 1)
        (setPS s1 (s1.pc + 1) s1.steps).steps).pc ((lcode0 ++ body0) ++ post0) := by
      rw [List.append_assoc]; exact hat3
    exact this.left
  · -- through the method table
    have hgt : clauses.length > 1 := by omega
    simp only [hle, if_false, run_bind_ok, run_pure_ok, xtorPositionM_run_ok] at hrun
    obtain ⟨pos', _, ⟨hx', rfl⟩, rfl, rfl⟩ := hrun
    rw [hx] at hx'; cases hx'
    simp only [hgt, if_true] at hatM
    generalize hT : codeTable rvBackend clauses base = table at hatM
    have htab : table[pos]? = some (.JAL ZERO (clauseLabel base c.xtor)) := by
      rw [← hT]; exact rv_codeTable_nth base clauses pos c hclause
    have htlen : table.length = clauses.length := by rw [← hT]; exact rv_codeTable_length base clauses
    have htins : ∀ y ∈ table, y.isInstr = true := by rw [← hT]; exact rv_codeTable_instr base clauses
    obtain ⟨pre, post, kl, kl', lcode, kb', body, hc3, hload, hbody⟩ :=
      rv_codeMethods_nth hooks natRen types ec' clauses base pos c _ _ _ hmrun hclause
    rw [hc3] at hatM
    obtain ⟨_, hgj, hicj, hatC⟩ := kat_table_entry hatM htins htab
    have hj : i + 1 + pos < ks.length := (List.getElem?_eq_some_iff.1 hgj).1
    have hbound : A + 4 * pos < 2 ^ 64 := by
      have := icount_take_le ks (i + 1 + pos)
      rw [hicj] at this
      omega
    have hatN : KAt ks st.pc (c0 ++ ([Code.ADDI TEMP (posTemp (2 * Γa.length + 1)) (rvBackend.jumpLength pos)] ++
        [Code.JALR ZERO TEMP 0])) := by
      have : rvBackend.addAndJump (posTemp (2 * Γa.length + TempNum.snd.toNat)) (rvBackend.jumpLength pos) =
          [Code.ADDI TEMP (posTemp (2 * Γa.length + 1)) (rvBackend.jumpLength pos)] ++ [Code.JALR ZERO TEMP 0] := rfl
      rw [← this]
      exact hat
    obtain ⟨pca, ka, hra, hata⟩ := pass_comments L hnd hheap hatN hc0c
    have Xa : X3 mc cw τ (Γa ++ [b]) cfg hs ι (setPS st pca ka) := X3R.setPS X _ _
    have hrta : (setPS st pca ka).readReg (posTemp (2 * Γa.length + 1)) = .ok (BitVec.ofNat 64 A) := by
      rw [readReg_setPS]; exact hrt
    replace hata : KAt ks (setPS st pca ka).pc
        ([Code.ADDI TEMP (posTemp (2 * Γa.length + 1)) (rvBackend.jumpLength pos)] ++ [Code.JALR ZERO TEMP 0]) := hata
    generalize setPS st pca ka = sa at hra Xa hata hrta
    have hwf := Xa.bnd.wf
    -- the address computation
    have hk : rvBackend.jumpLength pos = ((4 * pos : Nat) : Int) := by
      show jumpLength pos = _
      simp [jumpLength]
    have hsum : BitVec.ofNat 64 A + imm (rvBackend.jumpLength pos) = BitVec.ofNat 64 (A + 4 * pos) := by
      rw [hk, imm_natCast]; simp [BitVec.ofNat_add]
    have hex1 : exec mc pr.labelAddr 0 (Code.ADDI TEMP (posTemp (2 * Γa.length + 1)) (rvBackend.jumpLength pos)) sa =
        .ok (sa.writeReg TEMP (BitVec.ofNat 64 (A + 4 * pos)), .fall) := by
      rw [exec_ADDI mc pr.labelAddr 0 _ hrta, hsum]
    generalize hsb : sa.writeReg TEMP (BitVec.ofNat 64 (A + 4 * pos)) = sb at hex1
    have hKb : Keep sa sb (fun u => u = 1) := by
      rw [← hsb]
      have := keep_writeReg hwf TEMP (BitVec.ofNat 64 (A + 4 * pos))
      exact ⟨this.wf, this.mem, fun r h1 h2 hc => this.regs r h1 h2 (fun h => hc h)⟩
    have hrb : sb.readReg TEMP = .ok (BitVec.ofNat 64 (A + 4 * pos)) := by
      rw [← hsb]; exact readReg_writeReg_same hwf temp_usable _
    obtain ⟨pcb, kb, hrb', hatb⟩ := exec_block L hnd hheap hata
      (fun y hy => by simp at hy; subst hy; rfl) (by simp) (execFwd_single hex1)
    have Xb : X3 mc cw τ (Γa ++ [b]) cfg hs ι (setPS sb pcb kb) :=
      X3R.setPS (X3R.keep Xa hKb (fun t _ => by simp [posReg]) (by decide) (by decide)) _ _
    -- the jump through TEMP lands on the table entry
    have hjx : ∀ a', exec mc pr.labelAddr a' (Code.JALR ZERO TEMP 0) (setPS sb pcb kb) =
        .ok (setPS sb pcb kb, .addr (BitVec.ofNat 64 (A + 4 * pos))) := fun a' =>
      exec_JALR_zero mc pr.labelAddr a' (s := setPS sb pcb kb) (by rw [readReg_setPS]; exact hrb) (by omega)
    have hji : ks[i + 1 + pos].isInstr = true := by
      rw [List.getElem?_eq_getElem hj] at hgj
      injection hgj with hgj
      rw [hgj]; rfl
    have hrc := jump_reach L hheap (s := setPS sb pcb kb) hatb rfl hjx hj (Or.inl hji)
      (by rw [ofNat_toNat_lt hbound, hicj, ← hA]; omega) (hcl' _ hj)
    generalize hsc : setPS (setPS sb pcb kb) (i + 1 + pos) ((setPS sb pcb kb).steps + 1) = sc at hrc
    have Xc : X3 mc cw τ (Γa ++ [b]) cfg hs ι sc := by rw [← hsc]; exact X3R.setPS Xb _ _
    have hscpc : sc.pc = i + 1 + pos := by rw [← hsc]; rfl
    -- the table entry jumps to the method
    have hatE : KAt ks sc.pc (Code.JAL ZERO (clauseLabel base c.xtor) :: []) := by
      rw [hscpc]
      refine ⟨ks.take (i + 1 + pos), [Code.JAL ZERO (clauseLabel base c.xtor)], ks.drop (i + 1 + pos + 1),
        ?_, by simp [List.length_take]; omega, .keep rfl .nil⟩
      rw [List.append_assoc, List.singleton_append]
      have := List.getElem?_eq_getElem hj
      rw [hgj] at this
      injection this with this
      rw [this, ← List.drop_eq_getElem_cons hj, List.take_append_drop]
    obtain ⟨iC, hgC, hatB⟩ := hatC.lab_at
    have hrd := step_label L (cfg := mc) (s := sc) (s1 := sc) (l := clauseLabel base c.xtor) (i := iC) hatE rfl
      (fun a' => exec_JAL_zero mc _ a' _ _) (labIdx_of_nodup hnd hgC)
    have hatCl : KAt ks (setPS sc iC (sc.steps + 1)).pc
        (Code.LAB (clauseLabel base c.xtor) :: (lcode ++ (body ++ post))) := KAt.of_label hgC hatB
    obtain ⟨hre, hatF⟩ := pass_label L (cfg := mc) hatCl hclne
    refine ⟨_, kl, kl', lcode, kb', body,
      hra.trans (hrb'.trans (hrc.trans (hrd.trans hre))),
      X3R.setPS (X3R.setPS Xc _ _) _ _, hload, hbody, ?_⟩
    have : KAt ks (setPS (setPS sc iC (sc.steps + 1)) ((setPS sc iC (sc.steps + 1)).pc + 1)
        (setPS sc iC (sc.steps + 1)).steps).pc ((lcode ++ body) ++ post) := by
      rw [List.append_assoc]; exact hatF
    exact this.left

end Nav


/-! ## the `load` at the head of a clause / method, on the three machines -/

section LoadEnter

variable {mc : MonCfg} {cw : Nat → Word} {τ : Nat → Nat → Word} {pr : RV.Program} {ks : List Code}
  (L : Loaded pr ks) (hnd : (labs ks).Nodup) (hheap : mc.heap = false)

include L hnd hheap in
/-- both machines are at the `load` of a clause / method (after the jumps of `switch` / `invoke`, which only
change the scratch register): the fields of the block referenced by the last position are loaded -/
theorem load_enter_x3 {P : Abs.Program} {hooks : Bool} {prog : AxCut.Prog} {Q : Word → Ctx → Clauses → Prop}
    {Γ' Γ'' Δ : Ctx} {b : Binding}
    {ρ' vs : List Value} {v : Value} {s s' : Stmt} {cfg cfg4 : Config} {r : Word} {k4 : Nat}
    (R : RelX P hooks prog ⟨Γ' ++ [b], ρ' ++ [v], s⟩ cfg)
    (hchi : Γ'.map (·.chi) = Γ''.map (·.chi))
    (hbne : b.chi ≠ .ext)
    (hr : cfg.temps.get (2 * Γ'.length) = some r)
    (hCB : CB P hooks prog.types Q τ cfg.heap vs r)
    (hkinds : vs.map Sim2.kindOf = Mock.kindsOf Δ)
    (hcap : 2 * (Γ'.length + Δ.length) + 2 < Mock.T_TEMP)
    (hst4 : stepsTo P k4 cfg cfg4)
    (h4heap : cfg4.heap = cfg.heap) (h4next : cfg4.next = cfg.next) (h4out : cfg4.out = cfg.out)
    (h4temps : ∀ t, t < 2 * (Γ'.length + 1) → cfg4.temps.get t = cfg.temps.get t)
    (hloadM : P.code[cfg4.pc]? = some (.load (Mock.kindsOf Δ) Γ'.length))
    (hcode : ∃ c c' ops, (codeStatementR mockSym hooks natRen prog.types s' (Γ'' ++ Δ)).run c = .ok (ops, c') ∧
      CodeAt P (cfg4.pc + 1) ops)
    {hs : HState} {ι : Nat → Nat} {st4 : State} (X4 : X3 mc cw τ (Γ' ++ [b]) cfg hs ι st4)
    {kl kl' : Nat} {lcode body : List Code}
    (hload : (load Δ Γ'').run kl = .ok (lcode, kl'))
    (hat4 : KAt ks st4.pc (lcode ++ body))
    (hcapX : Γ'.length + Δ.length ≤ 14)
    (CV0 : CVals P hooks prog.types Q cw τ cfg.heap cfg.temps Γ' ρ') :
    ∃ cfg' st' hs', stepsTo P (k4 + 1) cfg cfg' ∧ Reach pr mc st4 st' ∧ FrLe hs hs' 0 ∧
      cfg'.out = cfg.out ∧ cfg'.next = cfg.next ∧
      RelX P hooks prog ⟨Γ'' ++ Δ, ρ' ++ vs, s'⟩ cfg' ∧
      X3 mc (loadCw cw Γ'.length (τ r.toNat)) τ (Γ'' ++ Δ) cfg' hs' ι st' ∧
      CVals P hooks prog.types Q (loadCw cw Γ'.length (τ r.toNat)) τ cfg'.heap cfg'.temps (Γ'' ++ Δ) (ρ' ++ vs) ∧
      KAt ks st'.pc body := by
  have hlen'' : Γ'.length = Γ''.length := by simpa using congrArg List.length hchi
  have hB : RepB P hooks prog.types cfg.heap vs r := hCB.rep
  obtain ⟨cfg', hstep, hout', hnext', R'⟩ := load_enter (Γ'' := Γ'') (s' := s') (cfg4 := cfg4) R hchi hbne hr
    hB hkinds hcap h4heap h4next h4out h4temps hloadM hcode
  have hn1 : Γ'.length < (Γ' ++ [b]).length := by simp
  have hlenρ : ρ'.length = Γ'.length := by have := R.len; simpa using this
  have X4' : X3 mc cw τ (Γ'' ++ [b]) cfg hs ι st4 :=
    X4.ctxCongr (by simp only [List.map_append, hchi])
  have hst' : stepsTo P (k4 + 1) cfg cfg' := stepsTo_trans P _ _ _ _ _ hst4 (stepsTo_one P _ _ hstep)
  cases hctx : Δ with
  | nil =>
    -- no field: nothing is loaded, no code
    have hf0 : vs = [] := by
      have := congrArg List.length hkinds
      rw [hctx] at this
      simpa [Mock.kindsOf] using this
    subst hf0
    have hr0 : r = 0 := by cases hB; rfl
    subst hr0
    rw [hctx] at hloadM hload
    have hA := step_load_empty P cfg4 _ hloadM
    rw [hstep] at hA
    injection hA with hA
    have hl0 : lcode = [] := by
      have : (load [] Γ'').run kl = .ok ([], kl) := rfl
      rw [this] at hload
      injection hload with hload
      injection hload with e1 _
      exact e1.symm
    subst hl0
    rw [hctx] at R' hcapX
    rw [List.nil_append] at hat4
    have hlow : ∀ t, t < 2 * (Γ'.length + 1) → cfg'.temps.get t = cfg.temps.get t := by
      intro t ht
      rw [hA]
      simp only
      rw [get_clobberTemp _ (by unfold Mock.T_TEMP; omega), h4temps t ht]
    refine ⟨cfg', st4, hs, hst', Reach.refl _ _ _, Scc.Heap.Refine.FrLe.refl hs, hout', hnext', R', ?_, ?_, hat4⟩
    · rw [List.append_nil]
      refine ⟨X4'.bnd, by omega, ?_, ?_, X4'.hrel, ?_⟩
      · intro i hi a ha
        rw [hlow _ (by omega)] at ha
        have := X4'.words i (by simp; omega) a ha
        rw [List.getElem_append_left hi] at this
        simp only [loadCw]
        rw [if_pos (by omega)]
        exact this
      · intro i hi hc r' hr'
        rw [hlow _ (by omega)] at hr'
        exact X4'.ptrs i (by simp; omega) (by rw [List.getElem_append_left hi]; exact hc) r' hr'
      · have e1 : cfg'.heap = cfg.heap := by rw [hA]; exact h4heap
        have e2 : cfg'.next = cfg.next := by rw [hA]; exact h4next
        have e3 : roots (Γ'' ++ [b]) cfg.temps = roots Γ'' cfg'.temps := by
          rw [roots_snoc]
          have : rootOf cfg.temps b Γ''.length = [] := by
            unfold rootOf; rw [← hlen'', hr]; simp
          rw [this, List.append_nil]
          exact (roots_congr _ _ _ (fun i hi => hlow (2 * i) (by omega))).symm
        rw [e1, e2, ← e3]
        exact X4'.href
    · rw [List.append_nil, List.append_nil]
      have e1 : cfg'.heap = cfg.heap := by rw [hA]; exact h4heap
      rw [e1]
      exact (CV0.congr (fun t ht => hlow t (by omega)) (fun i hi => by simp only [loadCw]; rw [if_pos hi])).chi hchi
  | cons b0 Δ0 =>
    rw [hctx] at hkinds
    cases hCB with
    | empty => simp [Mock.kindsOf] at hkinds
    | block v0 vs0 _ o hr0 hg hF =>
      have hk : o.fields.map (·.chi) = Mock.kindsOf Δ := by
        rw [RepF.kinds hF.rep, hctx]; exact hkinds
      have hne : o.fields ≠ [] := by
        intro e
        rw [e, hctx] at hk
        simp [Mock.kindsOf] at hk
      have hr4 : cfg4.temps.get (2 * Γ'.length) = some r := by rw [h4temps _ (by omega)]; exact hr
      have hg4 : cfg4.heap.get r.toNat = some o := by rw [h4heap]; exact hg
      have hk4 : o.fields.map (·.chi) = b0.chi :: Mock.kindsOf Δ0 := by rw [hk, hctx]; rfl
      have hloadM' : P.code[cfg4.pc]? = some (.load (b0.chi :: Mock.kindsOf Δ0) Γ'.length) := by
        rw [hloadM, hctx]; rfl
      -- the abstract step, explicitly
      have hexp : ∃ h', loadAbs cfg.heap r.toNat o = .ok h' ∧ cfg' =
          { cfg4 with pc := cfg4.pc + 1, temps := writeFields (clobberTemp cfg4.temps) o.fields Γ'.length, heap := h' } := by
        by_cases hc0 : o.count = 0
        · have hA := step_load_unique P cfg4 _ _ _ r o hloadM' hr4 hr0 hg4 hk4 hc0
          rw [hstep] at hA
          injection hA with hA
          refine ⟨cfg.heap.remove r.toNat, ?_, by rw [hA, h4heap]⟩
          unfold loadAbs
          simp [hc0]
        · cases hsh : (cfg4.heap.set r.toNat { o with count := o.count - 1 }).shareAll o.children with
          | error e =>
            exfalso
            have h1 : (r == 0) = false := by rw [beq_eq_false_iff_ne]; exact hr0
            have h2 : (o.fields.map (·.chi) != b0.chi :: Mock.kindsOf Δ0) = false := by rw [hk4]; exact kinds_bne_self _
            have h3 : (o.count == 0) = false := by rw [beq_eq_false_iff_ne]; exact hc0
            simp only [Abs.step, hloadM', getT, hr4, h1, hg4, h2, h3, hsh, Bool.false_eq_true, if_false,
              stuck] at hstep
            cases hstep
          | ok h' =>
            have hA := step_load_shared P cfg4 _ _ _ r o h' hloadM' hr4 hr0 hg4 hk4 hc0 hsh
            rw [hstep] at hA
            injection hA with hA
            refine ⟨h', ?_, hA⟩
            unfold loadAbs
            have : (o.count == 0) = false := by rw [beq_eq_false_iff_ne]; exact hc0
            rw [if_neg (by rw [this]; simp), ← h4heap]
            exact hsh
      obtain ⟨h', hlo, hcfg'⟩ := hexp
      have hr'' : cfg.temps.get (2 * Γ''.length) = some r := by rw [← hlen'']; exact hr
      obtain ⟨code, kk', hrunL, hfree, hncl, st5, hs', hx, X5, hfrL⟩ :=
        load_x3 (la := pr.labelAddr) (Δ := Δ) (cfg' := cfg') X4' hbne hr'' hr0 hg hk hne (by rw [← hlen'']; exact hcapX) h4next
          (by rw [← hlen'']; exact h4temps) hlo (by rw [← hlen'']; exact hcfg') kl
      have hcode' : code = lcode := by
        rw [hload] at hrunL
        injection hrunL with hrunL
        injection hrunL with e1 _
        exact e1.symm
      subst hcode'
      obtain ⟨pc5, steps5, hn5, hat5⟩ := exec_block L hnd hheap hat4 hfree hncl hx
      refine ⟨cfg', setPS st5 pc5 steps5, hs', hst', hn5, hfrL, hout', hnext', ?_, ?_, ?_, hat5⟩
      · rw [← hctx]; exact R'
      · rw [← hctx, hlen'']; exact X3R.setPS X5 _ _
      · rw [← hctx]
        have hroots : roots (Γ' ++ [b]) cfg.temps = roots Γ' cfg.temps ++ [r.toNat] := by
          rw [Scc.Backend.Sim2.roots_snoc]
          congr 1
          unfold Scc.Backend.Sim2.rootOf
          have h1 : (b.chi != Chi.ext) = true := (Scc.Backend.Sim2.chi_bne_ext _).mpr hbne
          have h2 : (r != 0) = true := by rw [bne_iff_ne]; exact hr0
          simp only [h1, hr, h2, if_true]
        have H0 := R.heap
        simp only at H0
        rw [hroots] at H0
        have := load_cv (Δ := Δ) (σ4 := cfg4.temps) CV0 hlenρ hcap hr0 hg hF hk H0
          (fun t ht => h4temps t (by omega)) hlo
        rw [hcfg']
        exact this.chi (by simp only [List.map_append, hchi])

end LoadEnter



/-! ## the abstract machine up to the `load` of the method (the first part of `sim2_invoke`) -/

theorem invoke_nav_abs {P : Abs.Program} {hooks : Bool} {prog : AxCut.Prog} {Γa : Ctx} {b : Binding}
    {ρa : List Value} {v : Value} {clauses : Clauses} {x tag : Ident} {ty : Ty}
    {args : Ctx} {cfg : Config} {c : Clause} {pos a : Nat} {ec' : Ctx}
    (R : RelX P hooks prog ⟨Γa ++ [b], ρa ++ [v], .invoke x tag ty args⟩ cfg)
    (hfits : Fits P)
    (hb : b.var.id = x.id) (hfresh : ∀ b' ∈ Γa, b'.var.id ≠ x.id)
    (hpos : Pos.tagPosition prog.types ty tag = .ok pos)
    (hclause : nthClause clauses pos = some c)
    (hlenc : ∀ d, lookupTypeDecl prog.types ty = some d → clauses.length = d.xtors.length)
    (hlenA : Γa.length = c.ctx.length)
    (hword : cfg.temps.get (2 * Γa.length + 1) = some (BitVec.ofNat 64 a))
    (hmeth : MethodsAt P hooks prog.types a ec' clauses) :
    ∃ k4 cfg4, stepsTo P k4 cfg cfg4 ∧ cfg4.heap = cfg.heap ∧ cfg4.next = cfg.next ∧ cfg4.out = cfg.out ∧
      (∀ t, t < 2 * (Γa.length + 1) → cfg4.temps.get t = cfg.temps.get t) ∧
      P.code[cfg4.pc]? = some (.load (Mock.kindsOf ec') Γa.length) ∧
      ∃ c0 c0' ops, (codeStatementR mockSym hooks natRen prog.types c.body (c.ctx ++ ec')).run c0 = .ok (ops, c0') ∧
        CodeAt P (cfg4.pc + 1) ops := by
  obtain ⟨k0, k0', ops, hrun, hat⟩ := R.code
  obtain ⟨base, km, km', mcode, hmrun, hmat⟩ := hmeth
  simp only [CodeAt] at hmat
  obtain ⟨_, hmat⟩ := hmat
  have hcapR := R.cap
  simp only [List.length_append, List.length_singleton] at hcapR
  obtain ⟨d, hd, hx⟩ := tagPosition_ok hpos
  have hlc := hlenc d hd
  have hposlt := nthClause_lt clauses pos c hclause
  -- decode the code
  simp only [codeStatementR, run_bind_ok, run_pure_ok, mockSym_variableTemporary, vt_run_ok,
    lookupTypeDeclM_run_ok] at hrun
  obtain ⟨tt, k1, ⟨p, hp, rfl, rfl⟩, decl, k2, ⟨hd', rfl⟩, hrun⟩ := hrun
  rw [hd] at hd'; cases hd'
  have hp' : p = Γa.length := by
    rw [ctxPosition_eq_posOf] at hp
    have := posOf_append_fresh Γa b (fun b' hb' => by rw [hb]; exact hfresh b' hb')
    rw [hb] at this
    rw [this] at hp
    exact (Option.some.inj hp).symm
  subst hp'
  by_cases hle : d.xtors.length ≤ 1
  · -- a single method: jump to it directly
    have hpos0 : pos = 0 := by omega
    subst hpos0
    simp only [hle, if_true, run_pure_ok] at hrun
    obtain ⟨rfl, rfl⟩ := hrun
    simp only [mockSym_comment, mockSym_jump, List.append_assoc, CodeAt_hook] at hat
    simp only [List.cons_append, List.nil_append, CodeAt, TempNum.toNat] at hat
    obtain ⟨hjmp, _⟩ := hat
    have hgt : ¬ (clauses.length > 1) := by omega
    simp only [hgt, if_false, List.nil_append] at hmat
    obtain ⟨post0, kb0, kb0', body0, hc0, hbody0⟩ :=
      codeMethods_head hooks natRen prog.types _ clauses _ c _ _ _ hmrun hclause
    rw [hc0] at hmat
    obtain ⟨_, hload, hatb⟩ := clause_at hmat
    simp only [instrCount, Nat.add_zero] at hload hatb
    have ha : (BitVec.ofNat 64 a).toNat = a := by
      apply toNat_ofNat_lt
      have := code_lt_size hload
      unfold Fits at hfits
      omega
    let cfg1 : Config := { cfg with pc := a, temps := clobberTemp cfg.temps }
    have hs1 : Abs.step P cfg = .next cfg1 := by
      have := step_jump P cfg _ _ hjmp hword
      rw [ha] at this
      exact this
    refine ⟨1, cfg1, stepsTo_one P _ _ hs1, rfl, rfl, rfl, ?_, by rw [hlenA]; exact hload, _, _, body0, hbody0, hatb⟩
    intro t ht
    show (clobberTemp cfg.temps).get t = _
    rw [get_clobberTemp _ (by omega)]
  · -- through the method table
    have hgt : clauses.length > 1 := by omega
    simp only [hle, if_false, run_bind_ok, run_pure_ok, xtorPositionM_run_ok] at hrun
    obtain ⟨pos', k3, ⟨hx', rfl⟩, rfl, rfl⟩ := hrun
    rw [hx] at hx'; cases hx'
    simp only [mockSym_addAndJump, mockSym_jumpLength, List.append_assoc, CodeAt_hook] at hat
    simp only [List.cons_append, List.nil_append, CodeAt, TempNum.toNat] at hat
    obtain ⟨hjmp, _⟩ := hat
    simp only [hgt, if_true] at hmat
    have htab := codeTable_nth P _ clauses pos c _ _ hclause hmat
    rw [CodeAt_append] at hmat
    obtain ⟨_, hmat3⟩ := hmat
    obtain ⟨pre, post, kb, kb', body, hc3, hbody⟩ :=
      codeMethods_nth hooks natRen prog.types _ clauses _ pos c _ _ _ hmrun hclause
    rw [hc3] at hmat3
    obtain ⟨hclab, hload, hatb⟩ := clause_at hmat3
    generalize a + instrCount (codeTable mockSym clauses base) + instrCount pre = ca at hclab hload hatb
    have haddr : (BitVec.ofNat 64 a + BitVec.ofInt 64 (pos : Int)).toNat = a + pos := by
      have e : BitVec.ofInt 64 (pos : Int) = BitVec.ofNat 64 pos := by simp
      rw [e]
      apply toNat_add_ofNat
      have := code_lt_size htab
      unfold Fits at hfits
      omega
    let cfg1 : Config := { cfg with pc := a + pos, temps := clobberTemp cfg.temps }
    have hs1 : Abs.step P cfg = .next cfg1 := by
      have := step_addJump P cfg _ _ _ hjmp hword
      rw [haddr] at this
      exact this
    let cfg2 : Config := { cfg1 with pc := ca, temps := clobberTemp (clobberTemp cfg.temps) }
    have hs2 : Abs.step P cfg1 = .next cfg2 := step_jumpFixed P cfg1 _ _ htab hclab
    refine ⟨2, cfg2, ⟨cfg1, hs1, stepsTo_one P _ _ hs2⟩, rfl, rfl, rfl, ?_, by rw [hlenA]; exact hload, _, _, body,
      hbody, hatb⟩
    intro t ht
    show (clobberTemp (clobberTemp cfg.temps)).get t = _
    rw [get_clobberTemp _ (by omega), get_clobberTemp _ (by omega)]

/-! ## `invoke` on the three machines -/

section Invoke3

variable {mc : MonCfg} {cw : Nat → Word} {τ : Nat → Nat → Word} {pr : RV.Program} {ks : List Code}
  (L : Loaded pr ks) (hnd : (labs ks).Nodup) (hheap : mc.heap = false)
  (hfitX : codeBase + 4 * icount ks < 2 ^ 64)
  (hcl : ∀ t, t + 1 < ks.length → ks[t]? ≠ some (Code.LAB "cleanup"))

include L hnd hheap hfitX hcl in
/-- THREE-WAY SIMULATION OF `invoke`: the jump through the word of the closure (directly, or through the
method table), the `load` of the closure environment -/
theorem invoke_x3 {P : Abs.Program} {hooks : Bool} {prog : AxCut.Prog} {Γa : Ctx} {b : Binding}
    {ρa : List Value} {Γc : Ctx} {ρc : List Value} {clauses : Clauses} {x tag : Ident} {ty : Ty}
    {args : Ctx} {cfg : Config} {c : Clause} {pos : Nat}
    (R : RelX P hooks prog ⟨Γa ++ [b], ρa ++ [.clo Γc ρc clauses], .invoke x tag ty args⟩ cfg)
    (hfits : Fits P)
    (hb : b.var.id = x.id) (hfresh : ∀ b' ∈ Γa, b'.var.id ≠ x.id)
    (hpos : Pos.tagPosition prog.types ty tag = .ok pos)
    (hclause : nthClause clauses pos = some c)
    (hlenc : ∀ d, lookupTypeDecl prog.types ty = some d → clauses.length = d.xtors.length)
    (hargs : Γa.map (·.chi) = c.ctx.map (·.chi))
    (hkinds : ρc.map Sim2.kindOf = Mock.kindsOf Γc)
    (hcap : 2 * (c.ctx.length + Γc.length) + 2 < Mock.T_TEMP)
    {hs : HState} {ι : Nat → Nat} {st : State} (X : X3 mc cw τ (Γa ++ [b]) cfg hs ι st)
    {k k' : Nat} {items : List Code}
    (hrun : (codeStatementR rvBackend hooks natRen prog.types (.invoke x tag ty args) (Γa ++ [b])).run k =
      .ok (items, k'))
    (hat : KAt ks st.pc items)
    (hcapX : c.ctx.length + Γc.length ≤ 14)
    (CVh : CVals P hooks prog.types (KMethodsAt ks hooks prog.types) cw τ cfg.heap cfg.temps (Γa ++ [b])
      (ρa ++ [.clo Γc ρc clauses])) :
    ∃ kk cfg' st' hs' envCtx', Ctx.keys envCtx' = Γc.keys ∧ stepsTo P kk cfg cfg' ∧ Reach pr mc st st' ∧
      FrLe hs hs' 0 ∧ cfg'.out = cfg.out ∧ cfg'.next = cfg.next ∧
      RelX P hooks prog ⟨c.ctx ++ envCtx', ρa ++ ρc, c.body⟩ cfg' ∧
      (∃ r, cfg.temps.get (2 * Γa.length) = some r ∧
        X3 mc (loadCw cw Γa.length (τ r.toNat)) τ (c.ctx ++ envCtx') cfg' hs' ι st' ∧
        CVals P hooks prog.types (KMethodsAt ks hooks prog.types) (loadCw cw Γa.length (τ r.toNat)) τ cfg'.heap
          cfg'.temps (c.ctx ++ envCtx') (ρa ++ ρc)) ∧
      ∃ k1 k1' items', (codeStatementR rvBackend hooks natRen prog.types c.body (c.ctx ++ envCtx')).run k1 =
          .ok (items', k1') ∧ KAt ks st'.pc items' := by
  have hlen : ρa.length = Γa.length := by have := R.len; simpa using this
  have hlenA : Γa.length = c.ctx.length := by simpa using congrArg List.length hargs
  -- the closure position
  have hn1 : Γa.length < (Γa ++ [b]).length := by simp
  have hn2 : Γa.length < (ρa ++ [Value.clo Γc ρc clauses]).length := by simp [hlen]
  obtain ⟨_, hsome, hkind, _⟩ := R.vals Γa.length hn1 hn2
  have hcv := CVh Γa.length hn1 hn2
  have g1 : (Γa ++ [b])[Γa.length] = b := by simp
  have g2 : (ρa ++ [Value.clo Γc ρc clauses])[Γa.length] = .clo Γc ρc clauses := by
    rw [List.getElem_append_right (by omega)]; simp [hlen]
  simp only [g1, g2] at hcv hkind
  have hbchi : b.chi = .cns := hkind
  have hbne : b.chi ≠ .ext := by rw [hbchi]; decide
  have hbe : (b.chi == .ext) = false := (Sim2.chi_beq_ext_false _).mpr hbne
  simp only [hbe, Bool.false_eq_true, if_false] at hcv
  obtain ⟨r, a, envCtx', hr, hCB, hw, hkeys, hmeth, hK⟩ := hcv.clo_inv
  have hword : cfg.temps.get (2 * Γa.length + 1) = some (BitVec.ofNat 64 a) := by
    cases hg : cfg.temps.get (2 * Γa.length + 1) with
    | none => simp [hg] at hsome
    | some w => simp only [hg, Option.getD_some] at hw; rw [hw]
  have hkenv : Mock.kindsOf envCtx' = Mock.kindsOf Γc := kinds_of_keys hkeys
  have hlenv : envCtx'.length = Γc.length := length_of_keys hkeys
  have hkinds' : ρc.map Sim2.kindOf = Mock.kindsOf envCtx' := by rw [hkenv]; exact hkinds
  have hcap' : 2 * (Γa.length + envCtx'.length) + 2 < Mock.T_TEMP := by rw [hlenA, hlenv]; exact hcap
  obtain ⟨d, hd, hx⟩ := tagPosition_ok hpos
  -- the abstract machine to the `load`
  obtain ⟨k4, cfg4, hst4, h4heap, h4next, h4out, h4temps, hloadM, hcode⟩ :=
    invoke_nav_abs R hfits hb hfresh hpos hclause hlenc hlenA hword hmeth
  -- the RV64 machine to the `load`
  have hrv : rv st (2 * Γa.length + 1) = some (cw Γa.length) := by
    have := X.words Γa.length hn1 _ hword
    simpa [g1, hbchi, trW] using this
  obtain ⟨st4, kl, kl', lcode, kb', body, hn4, X4, hload, hbody, hat4⟩ :=
    invoke_nav_rv L hnd hheap hfitX hcl X hb hfresh hd hx hclause (hlenc d hd) hrv hK hrun hat
  -- the `load`
  have CV0 : CVals P hooks prog.types (KMethodsAt ks hooks prog.types) cw τ cfg.heap cfg.temps Γa ρa := by
    have := CVh.take Γa.length
    rw [List.take_left' rfl, List.take_left' hlen] at this
    exact this
  obtain ⟨cfg', st', hs', hst', hn5, hfr, hout', hnext', R', X', CV', hat5⟩ :=
    load_enter_x3 L hnd hheap (Γ'' := c.ctx) (Δ := envCtx') (s' := c.body) R hargs hbne hr hCB hkinds' hcap' hst4
      h4heap h4next h4out h4temps hloadM hcode X4 hload hat4 (by rw [hlenA, hlenv]; exact hcapX) CV0
  exact ⟨k4 + 1, cfg', st', hs', envCtx', hkeys, hst', hn4.trans hn5, hfr, hout', hnext', R',
    ⟨r, hr, X', CV'⟩, kl', kb', body, hbody, hat5⟩

end Invoke3

end Scc.RV.Ref
