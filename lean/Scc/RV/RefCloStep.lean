/-
  Scc.RV.RefCloStep — Theorem B (RV64), CLOSURES: the representation with machine words (`CVals`) along the
  steps of the abstract machine for `lit`, `op`, `ifc`, `call` (frame lemmas) and `let` (the twin of the
  `ValsOK2` parts of `store_sim2` / `sim2_let`, Backend/ProofsHeap2.lean).  The lemmas are stated for EVERY
  configuration reached by the abstract steps (the abstract machine is deterministic), so they combine with
  the three-way lemmas (`let_x3` …) without touching them.
-/
import Scc.RV.RefLet
import Scc.RV.RefCloHeap

set_option linter.unusedVariables false
set_option linter.unusedSimpArgs false

namespace Scc.RV.Ref

open Scc.AxCut Scc.AxCut.Pos Scc.Backend Scc.Backend.Abs Scc.Backend.Sim Scc.Backend.Sim2

variable {P : Abs.Program} {hooks : Bool} {types : List TypeDecl} {Q : Word → Ctx → Clauses → Prop}
  {cw : Nat → Word} {τ : Nat → Nat → Word}

/-! ## steps that keep the heap and the positions -/

theorem cvals_frame {cfg cfg' : Config} {Γ : Ctx} {ρ : List Value}
    (V : CVals P hooks types Q cw τ cfg.heap cfg.temps Γ ρ) (F : FrameFacts cfg cfg' Γ.length) :
    CVals P hooks types Q cw τ cfg'.heap cfg'.temps Γ ρ := by
  rw [F.heap]
  exact V.congr F.low (fun _ _ => rfl)

/-- an integer variable is appended (`lit`, `op`) -/
theorem cvals_frame_int {prog : AxCut.Prog} {cfg cfg' : Config} {Γ : Ctx} {ρ : List Value} {b : Binding}
    {v : Word} {s : Stmt}
    (V : CVals P hooks prog.types Q cw τ cfg.heap cfg.temps Γ ρ) (hlen : ρ.length = Γ.length)
    (F : FrameFacts cfg cfg' Γ.length) (hb : b.chi = .ext)
    (R' : RelX P hooks prog ⟨Γ ++ [b], ρ ++ [.int v], s⟩ cfg') :
    CVals P hooks prog.types Q cw τ cfg'.heap cfg'.temps (Γ ++ [b]) (ρ ++ [.int v]) := by
  rw [F.heap]
  obtain ⟨hrep, hsome, _, _⟩ := R'.vals Γ.length (by simp) (by simp [hlen])
  have g2 : (ρ ++ [Value.int v])[Γ.length]'(by simp [hlen]) = .int v := by
    rw [List.getElem_append_right (by omega)]; simp [hlen]
  simp only [g2] at hrep
  cases hg : cfg'.temps.get (2 * Γ.length + 1) with
  | none => simp [hg] at hsome
  | some w =>
    have hw : w = v := by
      rw [hg] at hrep
      simp only [Option.getD_some] at hrep
      cases hrep
      rfl
    subst hw
    exact V.snoc_int hlen F.low b hb w hg

/-! ## `store` -/

theorem storeTau_old {τ : Nat → Nat → Word} {next : Nat} {cw : Nat → Word} {N id : Nat} (h : id ≠ next) :
    storeTau τ next cw N id = τ id := by
  funext j
  simp only [storeTau]
  rw [if_neg h]

/-- twin of the representation part of `store_sim2`, for the configuration after the `store` instruction -/
theorem store_cv {Γ : Ctx} {ρ : List Value} {cfg cfg1 : Config} (k : Nat)
    (V : CVals P hooks types Q cw τ cfg.heap cfg.temps Γ ρ)
    (VR : ValsOK2 P hooks types cfg.heap cfg.temps Γ ρ) (hlen : ρ.length = Γ.length)
    (hcap : 2 * Γ.length + 2 < Mock.T_TEMP)
    (H : HeapOK cfg.heap (roots Γ cfg.temps) cfg.next) (hk : k ≤ Γ.length)
    (hnext : cfg.next < 2 ^ 64)
    (hc : P.code[cfg.pc]? = some (.store (Mock.kindsOf (Γ.drop (Γ.length - k))) (Γ.length - k)))
    (hstep : Abs.step P cfg = .next cfg1) :
    CVals P hooks types Q cw (letTau τ cfg.next cw (Γ.length - k) k) cfg1.heap cfg.temps
      (Γ.take (Γ.length - k)) (ρ.take (Γ.length - k)) ∧
    ∀ r, cfg1.temps.get (2 * (Γ.length - k)) = some r →
      CB P hooks types Q (letTau τ cfg.next cw (Γ.length - k) k) cfg1.heap (ρ.drop (Γ.length - k)) r := by
  generalize hN : Γ.length - k = N at *
  cases hΔ : Γ.drop N with
  | nil =>
    rw [hΔ] at hc
    have hk0 : k = 0 := by
      have := congrArg List.length hΔ
      simp at this; omega
    have hρ : ρ.drop N = [] := by
      apply List.eq_nil_of_length_eq_zero
      simp only [List.length_drop]
      omega
    have hA := step_store_empty P cfg N hc
    rw [hstep] at hA
    injection hA with hA
    have hτ : letTau τ cfg.next cw N k = τ := by unfold letTau; rw [if_pos hk0]
    rw [hτ, hA]
    refine ⟨V.take N, ?_⟩
    intro r hr
    simp only at hr
    rw [get_set_same] at hr
    injection hr with hr
    subst hr
    rw [hρ]
    exact .empty
  | cons b Δ =>
    rw [hΔ] at hc
    have hk0 : k ≠ 0 := by
      intro e
      have := congrArg List.length hΔ
      simp at this; omega
    have hτ : letTau τ cfg.next cw N k = storeTau τ cfg.next cw N := by unfold letTau; rw [if_neg hk0]
    have S := VR.slice N
    rw [hΔ] at S
    have hlenΔ : (ρ.drop N).length = (b :: Δ).length := by
      rw [← hΔ]; simp [hlen]
    obtain ⟨fields, hf, hrep, hch⟩ := readFields_ok2 (b :: Δ) _ _ S hlenΔ
    have hfresh : ∀ e ∈ cfg.heap, e.1 ≠ cfg.next := fun e he => Nat.ne_of_lt (H.ids e he).2.1
    have hext : HeapExt cfg.heap ((cfg.next, ⟨0, fields⟩) :: cfg.heap) := heapExt_cons hfresh
    have hr0 : BitVec.ofNat 64 cfg.next ≠ 0 := ofNat_ne_zero H.pos hnext
    have hrt : (BitVec.ofNat 64 cfg.next).toNat = cfg.next := ofNat_toNat_lt hnext
    have hA := step_store_cons P cfg _ _ _ fields hc hf
    rw [hstep] at hA
    injection hA with hA
    have hτold : ∀ id o, cfg.heap.get id = some o → storeTau τ cfg.next cw N id = τ id := by
      intro id o hg
      exact storeTau_old (hfresh _ (heap_get_mem hg))
    rw [hτ, hA]
    refine ⟨(V.take N).kept (AllFieldsKept.ofExt hext) hτold, ?_⟩
    intro r hr
    simp only at hr
    rw [get_set_same] at hr
    injection hr with hr
    subst hr
    have hF : CF P hooks types Q τ cfg.heap (ρ.drop N) fields cw N := by
      refine readFields_cv (b :: Δ) (ρ.drop N) N fields ?_ hlenΔ hf
      intro i h1 h2
      have h1' : N + i < Γ.length := by
        have : i < (Γ.drop N).length := by rw [hΔ]; exact h1
        simp at this; omega
      have h2' : N + i < ρ.length := by simp at h2; omega
      have g1 : (b :: Δ)[i] = Γ[N + i] := by
        have : (Γ.drop N)[i]'(by rw [hΔ]; exact h1) = Γ[N + i] := by simp
        rw [← this]
        congr 1
        exact hΔ.symm
      have g2 : (ρ.drop N)[i] = ρ[N + i] := by simp
      rw [g1, g2]
      exact ⟨V (N + i) h1' h2', (VR (N + i) h1' h2').2.2.1⟩
    cases hρ : ρ.drop N with
    | nil => rw [hρ] at hlenΔ; simp at hlenΔ
    | cons v vs =>
      rw [hρ] at hF
      refine .block v vs _ ⟨0, fields⟩ hr0 (by rw [hrt]; exact heap_get_cons_same) ?_
      refine CF.congr_mw (CF.kept (AllFieldsKept.ofExt hext) hτold hF) ?_
      intro j _
      rw [hrt]
      simp [storeTau]

/-! ## `let` -/

theorem let_cv {prog : AxCut.Prog} {Γ : Ctx} {ρ : List Value} {x : Ident} {ty : Ty} {tag : Ident} {args : Ctx}
    {next : Stmt} {fv : FV} {cfg : Config} {pos : Nat}
    (R : RelX P hooks prog ⟨Γ, ρ, .letS x ty tag args next fv⟩ cfg)
    (V : CVals P hooks prog.types Q cw τ cfg.heap cfg.temps Γ ρ)
    (hk : args.length ≤ Γ.length)
    (hfresh : ∀ b ∈ Γ.take (Γ.length - args.length), b.var.id ≠ x.id)
    (hpos : Pos.tagPosition prog.types ty tag = .ok pos)
    (hcap : 2 * (Γ.length - args.length + 1) + 2 < Mock.T_TEMP)
    (hnext : cfg.next < 2 ^ 64) {cfg' : Config} (hst : stepsTo P 2 cfg cfg') :
    CVals P hooks prog.types Q cw (letTau τ cfg.next cw (Γ.length - args.length) args.length) cfg'.heap cfg'.temps
      (Γ.take (Γ.length - args.length) ++ [⟨x, .prd, ty⟩])
      (ρ.take (Γ.length - args.length) ++ [.obj pos (ρ.drop (Γ.length - args.length))]) := by
  obtain ⟨c, c', ops, hrun, hat⟩ := R.code
  obtain ⟨d, hd, hx⟩ := tagPosition_ok hpos
  simp only [codeStatementR, run_bind_ok, run_pure_ok, lookupTypeDeclM_run_ok, xtorPositionM_run_ok,
    splitOffLast_run_ok, mockSym_store, mockSym_variableTemporary, vt_run_ok] at hrun
  obtain ⟨decl, k1, ⟨hd', rfl⟩, pos', k2, ⟨hx', rfl⟩, sp, k3, ⟨_, rfl, rfl⟩, c1, k4, ⟨rfl, rfl⟩, t, k5,
    ⟨p, hp, rfl, rfl⟩, c3, k6, h3, rfl, rfl⟩ := hrun
  rw [hd] at hd'; cases hd'
  rw [hx] at hx'; cases hx'
  have hn : (Γ.take (Γ.length - args.length)).length = Γ.length - args.length := by simp
  have hp' : p = Γ.length - args.length := by
    rw [ctxPosition_eq_posOf] at hp
    have := posOf_append_fresh (Γ.take (Γ.length - args.length)) ⟨x, .prd, ty⟩ hfresh
    simp only at hp
    rw [this, hn] at hp
    exact (Option.some.inj hp).symm
  subst hp'
  simp only [mockSym_comment, mockSym_loadImmediate, mockSym_jumpLength, List.append_assoc,
    CodeAt_hook] at hat
  simp only [List.cons_append, List.nil_append, CodeAt, TempNum.toNat] at hat
  obtain ⟨hstore, hli, hat3⟩ := hat
  obtain ⟨cfg1, r, hstep1, hpc1, hout1, hr, hblock, hlow, hext, hheap, hnx⟩ :=
    store_sim2 args.length R.vals R.len R.cap R.heap hk hnext hstore
  rw [hn] at hstore
  obtain ⟨V1, B1⟩ := store_cv (Q := Q) (cw := cw) (τ := τ) args.length V R.vals R.len R.cap R.heap hk hnext hstore
    hstep1
  have hli' : P.code[cfg1.pc]? = some (.li (2 * (Γ.length - args.length) + 1) (pos : Int)) := by
    rw [hpc1]; exact hli
  have ht : 2 * (Γ.length - args.length) + 1 ≠ Mock.T_TEMP := by omega
  have hstep2 := step_li P cfg1 _ _ hli' ht
  obtain ⟨cA, hsA, cB, hsB, hcB⟩ := hst
  rw [hstep1] at hsA
  injection hsA with hsA
  subst hsA
  rw [hstep2] at hsB
  injection hsB with hsB
  have hcB' : cB = cfg' := hcB
  subst hcB'
  subst hsB
  have hlenT : (ρ.take (Γ.length - args.length)).length = (Γ.take (Γ.length - args.length)).length := by
    simp [R.len]
  have hσ : ∀ t, t < 2 * (Γ.take (Γ.length - args.length)).length →
      ((clobberTemp cfg1.temps).set (2 * (Γ.length - args.length) + 1) (BitVec.ofInt 64 pos)).get t =
        cfg.temps.get t := by
    intro t ht'
    rw [hn] at ht'
    have h1 : t ≠ 2 * (Γ.length - args.length) + 1 := by omega
    have h2 : t ≠ Mock.T_TEMP := by omega
    rw [get_set_other _ _ h1, get_clobberTemp _ h2, hlow t ht']
  have hget2n : ((clobberTemp cfg1.temps).set (2 * (Γ.length - args.length) + 1)
      (BitVec.ofInt 64 pos)).get (2 * (Γ.length - args.length)) = some r := by
    have h1 : 2 * (Γ.length - args.length) ≠ 2 * (Γ.length - args.length) + 1 := by omega
    have h2 : 2 * (Γ.length - args.length) ≠ Mock.T_TEMP := by omega
    rw [get_set_other _ _ h1, get_clobberTemp _ h2, hr]
  have hprd : (Chi.prd == Chi.ext) = false := by decide
  show CVals P hooks prog.types Q cw _ cfg1.heap _ _ _
  apply CVals.snoc V1 hlenT hσ _ _ (BitVec.ofInt 64 pos)
  · rw [hn]; exact get_set_same _ _ _
  · rw [hn, hget2n]
    simp only [hprd, Bool.false_eq_true, if_false]
    have : BitVec.ofInt 64 (pos : Int) = BitVec.ofNat 64 pos := by simp
    rw [this]
    exact .obj pos _ r _ (B1 r hr)

end Scc.RV.Ref
