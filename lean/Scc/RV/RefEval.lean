/-
  Scc.RV.RefEval — EVALUATING the RV64 code generator in the kernel.  `store_fields` / `load_fields`
  (Scc/RV/Backend.lean) are defined by well-founded recursion (on the length of the context), which neither
  `rfl` nor `decide` can unfold.  Here: structurally recursive clones with fuel (`storeFieldsF`,
  `loadFieldsF`), proved EQUAL to the originals (`storeF_eq`, `loadF_eq`), and the backend record with the
  clones (`rvBackendF = rvBackend`).  So `compile rvBackend hooks p` can be computed by `rfl` / `decide` as
  `compile rvBackendF hooks p` (used by the non-vacuity examples of Props/C08RVHeap.lean).
-/
import Scc.RV.MemProofsLoad

set_option linter.unusedVariables false
set_option linter.unusedSimpArgs false

namespace Scc.RV

open Scc.AxCut Scc.Backend

/-- `store_fields` with fuel (structural recursion) -/
def storeFieldsF : Nat → Ctx → Ctx → BlockPosition → GenM (List Code)
  | 0, _, _, _ => throw "storeFieldsF: out of fuel"
  | n + 1, toStore, remainingContext, blockPosition =>
    if toStore.isEmpty then
      if blockPosition == .last then do
        let t ← freshTemporary .fst remainingContext
        pure [.COMMENT "#mark no allocation", .MV t ZERO]
      else pure []
    else do
      let remainingPlusToStore := remainingContext ++ toStore
      let c1 ← if blockPosition == .other then do
          let c ← storeField .fst remainingPlusToStore HEAP (fieldsPerBlock - 1)
          pure [.COMMENT "##store link to previous block", c]
        else pure []
      let rl := restLength toStore.length blockPosition
      let toStoreNext := toStore.drop rl
      let toStore' := toStore.take rl
      let remainingPlusRest := remainingContext ++ toStore'
      let c2 : List Code := if blockPosition == .last then [.COMMENT "#allocate memory"] else []
      let c3 ← storeValues toStoreNext remainingPlusRest HEAP (fieldsPerBlock - blockPosition.toNat)
      let nb ← freshTemporary .fst remainingPlusRest
      let at' ← freshTemporary .snd remainingPlusRest
      let c4 ← acquireBlock nb at'
      let c5 ← storeFieldsF n toStore' remainingContext .other
      pure (c1 ++ c2 ++ c3 ++ [.COMMENT "##acquire free block from heap register"] ++ c4 ++ c5)

theorem storeFieldsF_eq : ∀ (n : Nat) (toStore rem : Ctx) (pos : BlockPosition), toStore.length < n →
    storeFieldsF n toStore rem pos = storeFields toStore rem pos
  | 0, _, _, _, h => by omega
  | n + 1, toStore, rem, pos, h => by
    rw [storeFields, storeFieldsF]
    by_cases he : toStore.isEmpty = true
    · simp only [he, if_true, dite_true]
    · have he' : toStore.isEmpty = false := by simpa using he
      simp only [he', Bool.false_eq_true, if_false, dite_false]
      have hpos : 0 < toStore.length := by
        cases toStore with
        | nil => simp at he'
        | cons _ _ => simp
      have hlt := restLength_lt toStore.length pos hpos
      have ih := storeFieldsF_eq n (toStore.take (restLength toStore.length pos)) rem .other
        (by simp [List.length_take]; omega)
      rw [ih]

/-- `Memory::store` through the clone -/
def storeF (toStore remainingContext : Ctx) : GenM (List Code) :=
  storeFieldsF (toStore.length + 1) toStore remainingContext .last

theorem storeF_eq : storeF = store := by
  funext a b
  exact storeFieldsF_eq _ a b .last (Nat.lt_succ_self _)

/-- `load_fields` with fuel (structural recursion) -/
def loadFieldsF : Nat → Ctx → Ctx → BlockPosition → LoadMode → GenM (List Code)
  | 0, _, _, _, _ => throw "loadFieldsF: out of fuel"
  | n + 1, toLoad, existingContext, blockPosition, loadMode =>
    if toLoad.isEmpty then pure []
    else do
      let existingPlusToLoad := existingContext ++ toLoad
      let rl := restLength toLoad.length blockPosition
      let toLoadNext := toLoad.drop rl
      let toLoad' := toLoad.take rl
      let existingPlusRest := existingContext ++ toLoad'
      let c1 ← loadFieldsF n toLoad' existingContext .other loadMode
      let memoryBlock ← freshTemporary .fst existingPlusRest
      let c2 : List Code :=
        if loadMode == .release then .COMMENT "###release block" :: releaseBlock memoryBlock else []
      let c3 ← if blockPosition == .other then do
          let c ← loadField .fst existingPlusToLoad memoryBlock (fieldsPerBlock - 1)
          pure [.COMMENT "###load link to next block", c]
        else pure []
      let c4 ← loadValues toLoadNext existingPlusRest memoryBlock
        (fieldsPerBlock - blockPosition.toNat) loadMode
      pure (c1 ++ c2 ++ c3 ++ c4)

theorem loadFieldsF_eq : ∀ (n : Nat) (toLoad ex : Ctx) (pos : BlockPosition) (mode : LoadMode),
    toLoad.length < n → loadFieldsF n toLoad ex pos mode = loadFields toLoad ex pos mode
  | 0, _, _, _, _, h => by omega
  | n + 1, toLoad, ex, pos, mode, h => by
    rw [loadFields, loadFieldsF]
    by_cases he : toLoad.isEmpty = true
    · simp only [he, if_true, dite_true]
    · have he' : toLoad.isEmpty = false := by simpa using he
      simp only [he', Bool.false_eq_true, if_false, dite_false]
      have hpos : 0 < toLoad.length := by
        cases toLoad with
        | nil => simp at he'
        | cons _ _ => simp
      have hlt := restLength_lt toLoad.length pos hpos
      have ih := loadFieldsF_eq n (toLoad.take (restLength toLoad.length pos)) ex .other mode
        (by simp [List.length_take]; omega)
      rw [ih]

/-- `Memory::load` through the clone -/
def loadF (toLoad existingContext : Ctx) : GenM (List Code) :=
  if toLoad.isEmpty then pure []
  else do
    let memoryBlock ← freshTemporary .fst existingContext
    let c0 : List Code :=
      [.COMMENT "#load from memory", .LW TEMP memoryBlock referenceCountOffset]
    let c1 ← loadFieldsF (toLoad.length + 1) toLoad existingContext .last .release
    let thenBranch : List Code :=
      .COMMENT "##... or release blocks onto linear free list when loading" :: c1
    let c2 ← loadFieldsF (toLoad.length + 1) toLoad existingContext .last .share
    let elseBranch : List Code :=
      [.COMMENT "##either decrement refcount and share children...",
       .ADDI TEMP TEMP (-1), .SW TEMP memoryBlock referenceCountOffset] ++ c2
    let c3 ← ifZeroThenElse TEMP thenBranch elseBranch
    pure (c0 ++ [.COMMENT "##check refcount"] ++ c3)

theorem loadF_eq : loadF = load := by
  funext a b
  unfold loadF load
  rw [loadFieldsF_eq _ a b .last .release (Nat.lt_succ_self _),
    loadFieldsF_eq _ a b .last .share (Nat.lt_succ_self _)]

/-- the backend record with the structurally recursive clones of `store` / `load` -/
def rvBackendF : Scc.Backend.Backend Code Register := { rvBackend with store := storeF, load := loadF }

/-- … is the backend -/
theorem rvBackendF_eq : rvBackendF = rvBackend := by
  unfold rvBackendF
  rw [storeF_eq, loadF_eq]
  rfl

end Scc.RV
