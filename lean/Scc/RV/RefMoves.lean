/-
  Scc.RV.RefMoves — PARALLEL MOVES of ALL temporaries of positions (pointer parts and word parts), the move
  block of `subst`, on RV64.  There are no spills: `mov t s` is `MV X(t+4) X(s+4)`, the saved value of a
  cycle lives in TEMP (`MV X1 t` / `MV t X1`), and `MV` copies a register whether it is defined or not —
  like the abstract machine's `mov`/`save`/`restore`.  The relation `MRel` looks at nothing but the
  temporaries and the scratch cell — moves are agnostic of what the words mean — and records what the
  block leaves alone (`Keep`: memory, HEAP, FREE).
  * `MOpRel`/`MSeg`: the RV code renders a list of `comment`/`mov`/`save`/`restore`.
  * `mrep_mov`, `mrep_save`, `mrep_restore`: one instruction.
  * `mseg_follow`: a rendered block is executed by both machines in lockstep.
  * `mseg_parallelMoves`, `connections_go_relT`, `mseg_codeExchange`: the RV code of `code_exchange` renders
    the mock code (parametricity of parallel_moves.rs in the backend, Scc/X86/RefPM.lean, all bindings).
-/
import Scc.RV.RefCall
import Scc.X86.RefPM
import Scc.X86.ProofsWfProg
import Scc.Backend.ProofsPM
import Scc.Backend.ProofsSubstObj
import Scc.RV.Total

set_option linter.unusedVariables false
set_option linter.unusedSimpArgs false

namespace Scc.RV.Ref

open Scc.AxCut Scc.Backend Scc.Backend.Abs Scc.Backend.Sim Scc.RV Scc.Backend.PM
open Scc.X86 (TreeOK TreesOK RootOK PmOK ConnsOK)
open Scc.X86.Ref (TempMap mapT mapTs mapR mapPM)

/-- a temporary of a position within the capacity of utils.rs (14 variables) -/
def PosT (t : Nat) : Prop := t < 28

theorem posT_ne_temp {t : Nat} (h : PosT t) : t ≠ Mock.T_TEMP := by
  unfold PosT at h; unfold Mock.T_TEMP; omega

/-! ## `posTemp` preserves order and equality -/

theorem tempMap_posTemp : TempMap mockSym rvBackend posTemp where
  lt := fun a b => by
    show decide ((posTemp a).n < (posTemp b).n) = decide (a < b)
    simp [posReg]
  eq := fun a b => by
    show rvBackend.tempEq (posTemp a) (posTemp b) = (a == b)
    by_cases h : a = b
    · subst h
      rw [(Scc.RV.Total.rv_tempEq_iff _ _).2 rfl]; simp
    · have : posTemp a ≠ posTemp b := fun e => h (by injection e with e; exact posReg_inj.1 e)
      have h2 : rvBackend.tempEq (posTemp a) (posTemp b) = false := by
        cases hx : rvBackend.tempEq (posTemp a) (posTemp b)
        · rfl
        · exact absurd ((Scc.RV.Total.rv_tempEq_iff _ _).1 hx) this
      rw [h2]; simp [h]

theorem step_mov' (P : Abs.Program) (cfg : Config) (t s : Nat)
    (hc : P.code[cfg.pc]? = some (.mov t s)) (ht : t ≠ Mock.T_TEMP) :
    Abs.step P cfg = .next
      { cfg with pc := cfg.pc + 1, temps := (clobberTemp cfg.temps).put t (cfg.temps.get s) } := by
  have : (t == Abs.T_TEMP) = false := by simp [Abs.T_TEMP, ht]
  simp [Abs.step, hc, this]

theorem step_save' (P : Abs.Program) (cfg : Config) (t : Nat) (sp : Bool)
    (hc : P.code[cfg.pc]? = some (.save t sp)) :
    Abs.step P cfg = .next
      { cfg with pc := cfg.pc + 1, temps := clobberTemp cfg.temps, scratch := cfg.temps.get t } := by
  simp [Abs.step, hc]

theorem step_restore' (P : Abs.Program) (cfg : Config) (t : Nat) (sp : Bool)
    (hc : P.code[cfg.pc]? = some (.restore t sp)) (ht : t ≠ Mock.T_TEMP) :
    Abs.step P cfg = .next
      { cfg with pc := cfg.pc + 1, temps := (clobberTemp cfg.temps).put t cfg.scratch } := by
  have : (t == Abs.T_TEMP) = false := by simp [Abs.T_TEMP, ht]
  simp [Abs.step, hc, this]

/-- `blk` renders the move instruction `op` -/
def MOpRel (op : MockOp) (blk : List Code) : Prop :=
  match op with
  | .comment m => blk = [.COMMENT m]
  | .mov t s => PosT t ∧ PosT s ∧ blk = [.MV (posTemp t) (posTemp s)]
  | .save t _ => PosT t ∧ blk = [.MV TEMP (posTemp t)]
  | .restore t _ => PosT t ∧ blk = [.MV (posTemp t) TEMP]
  | _ => False

inductive MSeg : List MockOp → List Code → Prop where
  | nil : MSeg [] []
  | cons {op : MockOp} {blk : List Code} {ops : List MockOp} {cs : List Code} :
      MOpRel op blk → MSeg ops cs → MSeg (op :: ops) (blk ++ cs)

theorem MSeg.append {o1 o2 : List MockOp} {c1 c2 : List Code}
    (h1 : MSeg o1 c1) (h2 : MSeg o2 c2) : MSeg (o1 ++ o2) (c1 ++ c2) := by
  induction h1 with
  | nil => simpa using h2
  | cons hop _ ih =>
    rw [List.cons_append, List.append_assoc]
    exact MSeg.cons hop ih

theorem MSeg.single {op : MockOp} {blk : List Code} (h : MOpRel op blk) : MSeg [op] blk := by
  have := MSeg.cons h MSeg.nil
  simpa using this

/-- the registers a block of moves may change: TEMP and the registers of positions -/
def MoveReg (u : Nat) : Prop := u = 1 ∨ ∃ t, t < 28 ∧ u = posReg t

/-- the relation of the move block: a (shadow) configuration of the abstract machine and the machine agree
on every temporary of a position and on the scratch cell (which lives in TEMP) -/
structure MRel (st0 : State) (cfg : Config) (st : State) : Prop where
  temps : ∀ t v, PosT t → cfg.temps.get t = some v → rv st t = some v
  scratch : ∀ w, cfg.scratch = some w → (mview st).val 1 = some w
  keep : Keep st0 st MoveReg

theorem MRel.setPS {st0 : State} {cfg : Config} {st : State}
    (R : MRel st0 cfg st) (pc k : Nat) : MRel st0 cfg (setPS st pc k) :=
  ⟨R.temps, R.scratch, R.keep.setPS pc k⟩

theorem keep_move_step {st0 st : State} (K : Keep st0 st MoveReg) {x y : Register} (hx : MoveReg x.n) :
    Keep st0 (st.copyReg x y) MoveReg := by
  have := K.trans (keep_copyReg K.wf x y)
  refine ⟨this.wf, this.mem, fun r h1 h2 hc => this.regs r h1 h2 (fun h => ?_)⟩
  rcases h with h | h
  · exact hc h
  · exact hc (h ▸ hx)

section Ops

variable {mc : MonCfg} {la : String → Option Nat} {st0 : State} {cfg : Config} {st : State}

theorem rv_copy_other {x y : Register} (hwf : st.WF) {t : Nat} (ht : t < 28) (hne : posReg t ≠ x.n) :
    rv (st.copyReg x y) t = rv st t :=
  (keep_copyReg hwf x y).rv ht hne

/-- `mov t s` of parallel moves -/
theorem mrep_mov (R : MRel st0 cfg st) {t s : Nat} (ht : PosT t) (hs : PosT s) (pc' : Nat) :
    MRel st0 { cfg with pc := pc', temps := (clobberTemp cfg.temps).put t (cfg.temps.get s) }
      (st.copyReg (posTemp t) (posTemp s)) := by
  have hwf := R.keep.wf
  have hsame : rv (st.copyReg (posTemp t) (posTemp s)) t = rv st s :=
    val_copyReg_same hwf (by simp [posReg]) (by unfold PosT at ht; simp [posReg]; omega) (by simp [posReg])
      (by unfold PosT at hs; simp [posReg]; omega)
  refine ⟨?_, ?_, keep_move_step R.keep (Or.inr ⟨t, ht, rfl⟩)⟩
  · intro t' v' ht' hg
    by_cases e' : t' = t
    · subst e'
      simp only at hg
      rw [get_put_same] at hg
      rw [hsame]; exact R.temps s v' hs hg
    · rw [get_put_other _ _ e', get_clobberTemp _ (posT_ne_temp ht')] at hg
      rw [rv_copy_other hwf ht' (by simp; exact fun e => e' (posReg_inj.1 e))]
      exact R.temps t' v' ht' hg
  · intro w hw
    have : (mview (st.copyReg (posTemp t) (posTemp s))).val 1 = (mview st).val 1 := by
      simp only [mview]
      rw [(keep_copyReg hwf (posTemp t) (posTemp s)).regs 1 (by omega) (by omega) (by simp [posReg])]
    rw [this]
    exact R.scratch w hw

/-- `save t`: the scratch cell (TEMP) := t -/
theorem mrep_save (R : MRel st0 cfg st) {t : Nat} (ht : PosT t) (pc' : Nat) :
    MRel st0 { cfg with pc := pc', temps := clobberTemp cfg.temps, scratch := cfg.temps.get t }
      (st.copyReg TEMP (posTemp t)) := by
  have hwf := R.keep.wf
  refine ⟨?_, ?_, keep_move_step R.keep (Or.inl rfl)⟩
  · intro t' v' ht' hg
    simp only at hg
    rw [get_clobberTemp _ (posT_ne_temp ht')] at hg
    rw [rv_copy_other hwf ht' (by simp [posReg])]
    exact R.temps t' v' ht' hg
  · intro w hw
    simp only at hw
    have := val_copyReg_same hwf (x := TEMP) (y := posTemp t) (by decide) (by decide) (by simp [posReg])
      (by unfold PosT at ht; simp [posReg]; omega)
    rw [show TEMP.n = 1 from rfl] at this
    rw [this]
    exact R.temps t w ht hw

/-- `restore t`: t := the scratch cell -/
theorem mrep_restore (R : MRel st0 cfg st) {t : Nat} (ht : PosT t) (pc' : Nat) :
    MRel st0 { cfg with pc := pc', temps := (clobberTemp cfg.temps).put t cfg.scratch }
      (st.copyReg (posTemp t) TEMP) := by
  have hwf := R.keep.wf
  have hsame : rv (st.copyReg (posTemp t) TEMP) t = (mview st).val 1 :=
    val_copyReg_same hwf (by simp [posReg]) (by unfold PosT at ht; simp [posReg]; omega) (by decide) (by decide)
  refine ⟨?_, ?_, keep_move_step R.keep (Or.inr ⟨t, ht, rfl⟩)⟩
  · intro t' v' ht' hg
    by_cases e' : t' = t
    · subst e'
      simp only at hg
      rw [get_put_same] at hg
      rw [hsame]; exact R.scratch v' hg
    · rw [get_put_other _ _ e', get_clobberTemp _ (posT_ne_temp ht')] at hg
      rw [rv_copy_other hwf ht' (by simp; exact fun e => e' (posReg_inj.1 e))]
      exact R.temps t' v' ht' hg
  · intro w hw
    have : (mview (st.copyReg (posTemp t) TEMP)).val 1 = (mview st).val 1 := by
      simp only [mview]
      rw [(keep_copyReg hwf (posTemp t) TEMP).regs 1 (by omega) (by omega) (by simp [posReg])]
    rw [this]
    exact R.scratch w hw

end Ops

/-! ## a rendered block of moves on both machines -/

section Follow

variable {mc : MonCfg} {p : RV.Program} {ks : List Code} (L : Loaded p ks) (hndL : (labs ks).Nodup)
  (hheap : mc.heap = false) {P : Abs.Program} {st0 : State}

include L hndL hheap in
/-- one `MV` at the program counter -/
theorem step_MV {x y : Register} {more : List Code} {s : State} (hat : KAt ks s.pc ([Code.MV x y] ++ more)) :
    ∃ pc' k', Reach p mc s (setPS (s.copyReg x y) pc' k') ∧ KAt ks pc' more :=
  exec_block L hndL hheap hat (fun c hc => by simp at hc; subst hc; rfl) (by simp)
    (execFwd_single (show exec mc p.labelAddr 0 (Code.MV x y) s = .ok (_, .fall) from rfl))

include L hndL hheap in
/-- the abstract machine (on ANY configuration: moves copy possibly undefined temporaries) and the RV64
machine execute a rendered block of moves in lockstep -/
theorem mseg_follow {ops : List MockOp} {items : List Code} (S : MSeg ops items) :
    ∀ (more : List Code) (cfg : Config) (st : State), CodeAt P cfg.pc ops → KAt ks st.pc (items ++ more) →
    MRel st0 cfg st →
    ∃ cfg' st', stepsTo P (instrCount ops) cfg cfg' ∧ Reach p mc st st' ∧
      KAt ks st'.pc more ∧ MRel st0 cfg' st' ∧ cfg'.pc = cfg.pc + instrCount ops := by
  induction S with
  | nil =>
    intro more cfg st _ hat R
    exact ⟨cfg, st, rfl, Reach.refl _ _ _, by simpa using hat, R, by simp [instrCount]⟩
  | @cons op blk ops cs' hop S ih =>
    intro more cfg st hat hatX R
    have hatX' : KAt ks st.pc (blk ++ (cs' ++ more)) := by simpa [List.append_assoc] using hatX
    -- one instruction
    have one : ∃ cfg1 st1, stepsTo P (instrCount [op]) cfg cfg1 ∧ Reach p mc st st1 ∧
        KAt ks st1.pc (cs' ++ more) ∧ MRel st0 cfg1 st1 ∧ cfg1.pc = cfg.pc + instrCount [op] ∧
        CodeAt P cfg1.pc ops := by
      cases op <;> simp only [MOpRel] at hop
      case comment m =>
        subst hop
        simp only [CodeAt] at hat
        obtain ⟨pc0, k0, hr0, hat0⟩ := pass_comments L hndL hheap hatX' (fun y hy => by simp at hy; exact ⟨_, hy⟩)
        exact ⟨cfg, _, rfl, hr0, hat0, R.setPS _ _, by simp [instrCount], hat⟩
      case mov t s =>
        obtain ⟨ht, hs, rfl⟩ := hop
        simp only [CodeAt] at hat
        obtain ⟨hc, hat'⟩ := hat
        obtain ⟨pc1, k1, hr1, hat1⟩ := step_MV L hndL hheap hatX'
        exact ⟨_, _, stepsTo_one P _ _ (step_mov' P cfg t s hc (posT_ne_temp ht)), hr1, hat1,
          (mrep_mov R ht hs (cfg.pc + 1)).setPS _ _, rfl, hat'⟩
      case save t sp =>
        obtain ⟨ht, rfl⟩ := hop
        simp only [CodeAt] at hat
        obtain ⟨hc, hat'⟩ := hat
        obtain ⟨pc1, k1, hr1, hat1⟩ := step_MV L hndL hheap hatX'
        exact ⟨_, _, stepsTo_one P _ _ (step_save' P cfg t sp hc), hr1, hat1,
          (mrep_save R ht (cfg.pc + 1)).setPS _ _, rfl, hat'⟩
      case restore t sp =>
        obtain ⟨ht, rfl⟩ := hop
        simp only [CodeAt] at hat
        obtain ⟨hc, hat'⟩ := hat
        obtain ⟨pc1, k1, hr1, hat1⟩ := step_MV L hndL hheap hatX'
        exact ⟨_, _, stepsTo_one P _ _ (step_restore' P cfg t sp hc (posT_ne_temp ht)), hr1, hat1,
          (mrep_restore R ht (cfg.pc + 1)).setPS _ _, rfl, hat'⟩
    obtain ⟨cfg1, st1, hs1, hn1, hat1, R1, hpcA, hatc1⟩ := one
    obtain ⟨cfg2, st2, hs2, hn2, hat2, R2, hpcB⟩ := ih more cfg1 st1 hatc1 hat1 R1
    have hic : instrCount (op :: ops) = instrCount [op] + instrCount ops := by
      rw [show op :: ops = [op] ++ ops from rfl, Scc.Backend.Subst.instrCount_append]
    refine ⟨cfg2, st2, ?_, hn1.trans hn2, hat2, R2, ?_⟩
    · rw [hic]
      exact stepsTo_trans P _ _ _ _ _ hs1 hs2
    · rw [hpcB, hpcA, hic]; omega

end Follow

/-! ## the RV moves render the mock moves (parametricity, all temporaries) -/

mutual
  theorem mseg_treeMoves (b : Bool) (parent : Nat) (hp : PosT parent) : ∀ (tr : Tree Nat),
      TreeOK PosT tr →
      MSeg (treeMoves mockSym parent false tr) (treeMoves rvBackend (posTemp parent) b (mapT posTemp tr))
    | .backEdge, _ => by
      simp only [treeMoves, mapT]
      exact MSeg.single (show MOpRel (.save parent false) [.MV TEMP (posTemp parent)] from ⟨hp, rfl⟩)
    | .node target kids, hw => by
      simp only [treeMoves, mapT]
      have hk := mseg_treeMovesList b target hw.1 kids hw.2
      refine MSeg.append hk (MSeg.single ?_)
      show MOpRel (.mov target parent) [.MV (posTemp target) (posTemp parent)]
      exact ⟨hw.1, hp, rfl⟩
  theorem mseg_treeMovesList (b : Bool) (parent : Nat) (hp : PosT parent) :
      ∀ (l : List (Tree Nat)), TreesOK PosT l →
      MSeg (treeMovesList mockSym parent false l)
        (treeMovesList rvBackend (posTemp parent) b (mapTs posTemp l))
    | [], _ => by
      simp only [treeMovesList, mapTs]
      exact MSeg.nil
    | k :: ks, hw => by
      simp only [treeMovesList, mapTs]
      exact MSeg.append (mseg_treeMoves b parent hp k hw.1) (mseg_treeMovesList b parent hp ks hw.2)
end

theorem mseg_rootMoves (r : Root Nat) (hw : RootOK PosT r) :
    MSeg (rootMoves mockSym r) (rootMoves rvBackend (mapR posTemp r)) := by
  cases r with
  | startNode t kids =>
    simp only [rootMoves, mapR, mockSym_containsSpillEdge, Scc.X86.Ref.anyRefersBack_map]
    have hk := mseg_treeMovesList (rvBackend.containsSpillEdge (Root.startNode (posTemp t) (mapTs posTemp kids)))
      t hw.1 kids hw.2
    refine MSeg.append hk ?_
    by_cases hr : Tree.anyRefersBack kids = true
    · simp only [hr, if_true]
      exact MSeg.single (show MOpRel (.restore t false) [.MV (posTemp t) TEMP] from ⟨hw.1, rfl⟩)
    · simp only [hr, if_false, Bool.false_eq_true]
      exact MSeg.nil

theorem mseg_flatten_rootMoves : ∀ (forest : List (Root Nat)), (∀ r ∈ forest, RootOK PosT r) →
    MSeg (forest.map (rootMoves mockSym)).flatten
      ((forest.map (mapR posTemp)).map (rootMoves rvBackend)).flatten
  | [], _ => MSeg.nil
  | r :: rs, h => by
    simp only [List.map_cons, List.flatten_cons]
    exact MSeg.append (mseg_rootMoves r (h r (by simp)))
      (mseg_flatten_rootMoves rs (fun x hx => h x (by simp [hx])))

/-! ## `parallel_moves` -/

theorem mseg_parallelMoves (pm : List (Nat × List Nat)) (hk : ∀ e ∈ pm, PosT e.1) (hpm : PmOK PosT pm)
    {code : List Code} (h : parallelMoves rvBackend (mapPM posTemp pm) = .ok code) :
    ∃ ops, parallelMoves mockSym pm = .ok ops ∧ MSeg ops code := by
  unfold parallelMoves at h ⊢
  rw [Scc.X86.Ref.spanningForest_map tempMap_posTemp] at h
  cases hf : spanningForest mockSym pm with
  | error e => rw [hf] at h; simp [Except.map] at h
  | ok forest =>
    rw [hf] at h
    simp only [Except.map, Except.ok.injEq] at h
    have hroots : ∀ r ∈ forest, RootOK PosT r := by
      unfold spanningForest at hf
      exact Scc.X86.spanningForestLoop_ok (B := mockSym) _ _ _ forest
        (fun k hk' => by
          obtain ⟨e, he, rfl⟩ := List.mem_map.1 hk'
          exact hk e he) hpm hf
    refine ⟨_, rfl, ?_⟩
    rw [← h]
    have hall : (forest.map (mapR posTemp)).all Root.noTargets = forest.all Root.noTargets := by
      rw [List.all_map]
      congr 1
      funext r
      exact Scc.X86.Ref.noTargets_map r
    rw [hall]
    refine MSeg.append ?_ (mseg_flatten_rootMoves forest hroots)
    split
    · exact MSeg.single (show MOpRel (.comment "#move variables") [.COMMENT "#move variables"] from rfl)
    · exact MSeg.nil

/-! ## `connections` / `code_exchange` for all bindings -/

/-- the mock run that corresponds to a successful RV run of `variable_temporary` -/
theorem vt_rel {num : TempNum} {ctx : Ctx} {id : Nat} {c : Nat} {t : Register} {c' : Nat}
    (h : (rvBackend.variableTemporary num ctx id).run c = .ok (t, c')) :
    ∃ pos, Pos.posOf ctx id = some pos ∧ 2 * pos + num.toNat < 28 ∧ t = posTemp (2 * pos + num.toNat) ∧
      c' = c ∧ (mockSym.variableTemporary num ctx id).run c = .ok (2 * pos + num.toNat, c) := by
  obtain ⟨pos, hp, hlt, rfl, rfl⟩ := (rv_vt_run_ok num ctx id c t c').1 h
  refine ⟨pos, hp, hlt, rfl, rfl, ?_⟩
  rw [mockSym_variableTemporary, vt_run_ok]
  exact ⟨pos, by rw [ctxPosition_eq_posOf]; exact hp, rfl, rfl⟩

theorem mapMGen_vt_relT (num : TempNum) (ctx : Ctx) : ∀ (ids : List Nat) (c : Nat) (ts : List Register) (c' : Nat),
    (mapMGen (fun id => rvBackend.variableTemporary num ctx id) ids).run c = .ok (ts, c') →
    ∃ tsM, (mapMGen (fun id => mockSym.variableTemporary num ctx id) ids).run c = .ok (tsM, c) ∧
      ts = tsM.map posTemp ∧ c' = c ∧ ∀ t ∈ tsM, PosT t
  | [], c, ts, c', h => by
    simp only [mapMGen, run_pure_ok] at h
    obtain ⟨rfl, rfl⟩ := h
    exact ⟨[], rfl, rfl, rfl, by simp⟩
  | id :: rest, c, ts, c', h => by
    simp only [mapMGen, run_bind_ok, run_pure_ok] at h
    obtain ⟨t, c1, h1, bs, c2, h2, rfl, rfl⟩ := h
    obtain ⟨pos, hp, hlt, rfl, rfl, hm⟩ := vt_rel h1
    obtain ⟨tsM, hM, rfl, rfl, hw⟩ := mapMGen_vt_relT num ctx rest _ _ _ h2
    refine ⟨(2 * pos + num.toNat) :: tsM, ?_, rfl, rfl, ?_⟩
    · simp only [mapMGen, run_bind_ok, run_pure_ok]
      exact ⟨_, _, hm, _, _, hM, rfl, rfl⟩
    · intro t ht
      simp only [List.mem_cons] at ht
      rcases ht with rfl | ht
      · exact hlt
      · exact hw t ht

theorem connections_go_relT (Γ newΓ : Ctx) : ∀ (tm : List (Binding × List Nat))
    (accM : List (Nat × List Nat)) (c : Nat) (connsX : List (Register × List Register)) (c' : Nat),
    ConnsOK PosT accM →
    (connections.go rvBackend Γ newΓ tm (mapPM posTemp accM)).run c = .ok (connsX, c') →
    ∃ connsM, (connections.go mockSym Γ newΓ tm accM).run c = .ok (connsM, c) ∧
      connsX = mapPM posTemp connsM ∧ c' = c ∧ ConnsOK PosT connsM
  | [], accM, c, connsX, c', hacc, h => by
    simp only [connections.go, run_pure_ok] at h
    obtain ⟨rfl, rfl⟩ := h
    exact ⟨accM, rfl, rfl, rfl, hacc⟩
  | (b, targets) :: rest, accM, c, connsX, c', hacc, h => by
    unfold connections.go at h ⊢
    by_cases hbe : (b.chi == Chi.ext) = true
    · simp only [hbe, if_true, run_bind_ok] at h ⊢
      obtain ⟨k, c1, h1, ts, c2, h2, h3⟩ := h
      obtain ⟨pos, hp, hlt, rfl, rfl, hm⟩ := vt_rel h1
      obtain ⟨tsM, hM, rfl, rfl, hw⟩ := mapMGen_vt_relT .snd newΓ targets _ _ _ h2
      rw [Scc.X86.Ref.setOfList_map tempMap_posTemp, Scc.X86.Ref.mapInsert_map tempMap_posTemp] at h3
      obtain ⟨connsM, hgo, e1, e2, hok⟩ := connections_go_relT Γ newΓ rest _ _ _ _
        (Scc.X86.mem_mapInsert _ _ _ (QK := PosT) (QV := fun l => ∀ t ∈ l, PosT t) hlt
          (Scc.X86.mem_setOfList (B := mockSym) (TOK := PosT) hw) accM hacc) h3
      exact ⟨connsM, ⟨_, _, hm, _, _, hM, hgo⟩, e1, e2, hok⟩
    · simp only [hbe, if_false, Bool.false_eq_true, run_bind_ok] at h ⊢
      obtain ⟨k1, c1, h1, ts1, c2, h2, k2, c3, h3, ts2, c4, h4, h5⟩ := h
      obtain ⟨pos1, hp1, hlt1, rfl, rfl, hm1⟩ := vt_rel h1
      obtain ⟨tsM1, hM1, rfl, rfl, hw1⟩ := mapMGen_vt_relT .fst newΓ targets _ _ _ h2
      obtain ⟨pos2, hp2, hlt2, rfl, rfl, hm2⟩ := vt_rel h3
      obtain ⟨tsM2, hM2, rfl, rfl, hw2⟩ := mapMGen_vt_relT .snd newΓ targets _ _ _ h4
      rw [Scc.X86.Ref.setOfList_map tempMap_posTemp, Scc.X86.Ref.setOfList_map tempMap_posTemp,
        Scc.X86.Ref.mapInsert_map tempMap_posTemp, Scc.X86.Ref.mapInsert_map tempMap_posTemp] at h5
      obtain ⟨connsM, hgo, e1, e2, hok⟩ := connections_go_relT Γ newΓ rest _ _ _ _
        (Scc.X86.mem_mapInsert _ _ _ (QK := PosT) (QV := fun l => ∀ t ∈ l, PosT t) hlt2
          (Scc.X86.mem_setOfList (B := mockSym) (TOK := PosT) hw2) _
          (Scc.X86.mem_mapInsert _ _ _ (QK := PosT) (QV := fun l => ∀ t ∈ l, PosT t) hlt1
            (Scc.X86.mem_setOfList (B := mockSym) (TOK := PosT) hw1) accM hacc)) h5
      exact ⟨connsM, ⟨_, _, hm1, _, _, hM1, _, _, hm2, _, _, hM2, hgo⟩, e1, e2, hok⟩

/-- `code_exchange`, all bindings: the RV code renders the mock code -/
theorem mseg_codeExchange (tm : List (Binding × List Nat)) (Γ newΓ : Ctx)
    {c : Nat} {code : List Code} {c' : Nat}
    (h : (codeExchange rvBackend tm Γ newΓ).run c = .ok (code, c')) :
    ∃ ops, (codeExchange mockSym tm Γ newΓ).run c = .ok (ops, c') ∧ MSeg ops code := by
  unfold codeExchange connections at h ⊢
  simp only [run_bind_ok] at h ⊢
  obtain ⟨connsX, c1, h1, h2⟩ := h
  obtain ⟨connsM, hgo, rfl, rfl, hok⟩ := connections_go_relT Γ newΓ tm [] c connsX c1
    (fun _ h => by simp at h) h1
  cases hpm : parallelMoves rvBackend (mapPM posTemp connsM) with
  | error e => rw [hpm] at h2; simp [run_throw_ok] at h2
  | ok code' =>
    rw [hpm] at h2
    simp only [run_pure_ok] at h2
    obtain ⟨rfl, rfl⟩ := h2
    obtain ⟨ops, hops, S⟩ := mseg_parallelMoves connsM (fun e he => (hok e he).1) (fun e he => (hok e he).2) hpm
    refine ⟨ops, ⟨connsM, _, hgo, ?_⟩, S⟩
    rw [hops]
    rfl

end Scc.RV.Ref
