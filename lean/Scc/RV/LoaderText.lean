/-
  Scc.RV.LoaderText — the loader `parseText` (Scc/RV/Machine.lean) on the text of a whole routine printed by
  `intoRoutine` (Scc/RV/Backend.lean: `into_rv64_routine`):

  * `CodeOK c` (proof side of the decidable `codeTextOK`, Scc/RV/LoaderCheck.lean): the registers exist, a
    referenced label is a token, a defined label moreover does not start with `//`, a comment has no line
    break and — as the loader reads it — is not a malformed `#ctx [` hook;
  * `codeLines c` / `codeParsed c`: the lines of a printed item and what the loader reads them as
    (`LAB l` = an empty line, skipped, and `l:`); `parse_codeLines`;
  * `HeadLabel instrs`: the routine is empty or starts with a label.  `into_rv64_routine` glues the header
    comment `// actual code` and the first printed item together WITHOUT a line break; only because a label is
    printed with a leading line break does the first item stand on a line of its own
    (`intoRoutine_lines`; without `HeadLabel` the first item is swallowed by the comment: Props/C14LoaderRV.lean);
  * `numberOpt n rs`: the read items with their line numbers (blank lines count, but are dropped);
  * `parseText_intoRoutine`: THE ROUND TRIP — `parseText (intoRoutine instrs) = .ok (numberOpt 1 (routineParsed instrs))`;
  * `routine_codes`: the read items are `// actual code`, the items of the routine (`parsedCode`), `cleanup:`;
    `routine_no_badHook`; `textLoads`: the three facts the run theorems need.
  Proof file: core imports only.
-/
import Scc.RV.LoaderInstr
import Scc.RV.Backend

namespace Scc.RV.Loader

open Scc.RV Scc.RV.Ref Scc.Str

set_option linter.unusedSimpArgs false
set_option linter.unusedVariables false

/-! ## text-safety of one item -/

def NoNL (s : String) : Prop := '\n' ∉ s.toList

/-- a comment as the loader reads it is not a malformed hook -/
def HookOK (m : String) : Prop := parseHookL (rtrimList m.toList) ≠ some none

/-- text-safety of one item -/
structure CodeOK (c : Code) : Prop where
  regs : RegsOK c
  ref : ∀ l, c.labelRef? = some l → LabelOK l
  lab : ∀ l, c = .LAB l → LabelDefOK l
  com : ∀ m, c = .COMMENT m → NoNL m ∧ HookOK m

/-! ## the lines of one item -/

/-- the lines of a printed item -/
def codeLines : Code → List String
  | .LAB l => ["", l ++ ":"]
  | c => [printCode c]

/-- what the loader reads the lines of an item as (`none` = a blank line, skipped) -/
def codeParsed : Code → List (Option Code)
  | .LAB l => [none, some (.LAB l)]
  | c => [some (parsedCode c)]

theorem codeLines_ne_nil (c : Code) : codeLines c ≠ [] := by cases c <;> simp [codeLines]

theorem printCode_lines (c : Code) : printCode c = "\n".intercalate (codeLines c) := by
  cases c with
  | LAB l =>
    rw [printCode_LAB]
    apply String.ext
    simp [codeLines, String.toList_intercalate, String.toList_append]
  | _ =>
    apply String.ext
    simp [codeLines, String.toList_intercalate]

theorem parse_codeLines (c : Code) (h : CodeOK c) :
    (codeLines c).map parseLine = (codeParsed c).map some ∧ ∀ l ∈ codeLines c, '\n' ∉ l.toList := by
  by_cases hi : c.isInstr = true
  · have hr := reads_instr c hi h.regs h.ref
    have e1 : codeLines c = [printCode c] := by cases c <;> first | rfl | cases hi
    have e2 : codeParsed c = [some c] := by cases c <;> first | rfl | cases hi
    rw [e1, e2]
    refine ⟨by simp [hr.1], ?_⟩
    intro l hl
    simp only [List.mem_singleton] at hl
    subst hl; exact hr.2
  · cases c with
    | LAB l =>
      have hl := h.lab l rfl
      refine ⟨by simp [codeLines, codeParsed, parseLine_empty, parseLine_label hl], ?_⟩
      intro x hx
      simp only [codeLines, List.mem_cons, List.not_mem_nil, or_false] at hx
      rcases hx with rfl | rfl
      · simp
      · exact label_no_nl hl
    | COMMENT m =>
      have hm := h.com m rfl
      refine ⟨by simp [codeLines, codeParsed, printCode_COMMENT, parseLine_comment, parsedCode], ?_⟩
      intro x hx
      simp only [codeLines, List.mem_singleton] at hx
      subst hx
      rw [printCode_COMMENT, String.toList_append]
      intro hmem
      simp only [List.mem_append] at hmem
      rcases hmem with hmem | hmem
      · revert hmem; decide
      · exact hm.1 hmem
    | _ => exact absurd rfl hi

/-! ## numbered items -/

/-- the read lines with their numbers: every line counts, blank lines are dropped -/
def numberOpt : Nat → List (Option Code) → List (Nat × Code)
  | _, [] => []
  | n, none :: rs => numberOpt (n + 1) rs
  | n, some c :: rs => (n, c) :: numberOpt (n + 1) rs

theorem map_snd_numberOpt (n : Nat) (rs : List (Option Code)) :
    (numberOpt n rs).map (·.2) = rs.filterMap id := by
  induction rs generalizing n with
  | nil => rfl
  | cons r rs ih =>
    cases r with
    | none => simp [numberOpt, ih]
    | some c => simp [numberOpt, ih]

theorem numberOpt_lines (n : Nat) (rs : List (Option Code)) :
    ∀ x ∈ numberOpt n rs, n ≤ x.1 ∧ x.1 < n + rs.length := by
  induction rs generalizing n with
  | nil => intro x hx; simp [numberOpt] at hx
  | cons r rs ih =>
    intro x hx
    cases r with
    | none =>
      simp only [numberOpt] at hx
      have := ih (n + 1) x hx
      simp only [List.length_cons]; omega
    | some c =>
      simp only [numberOpt, List.mem_cons] at hx
      rcases hx with rfl | hx
      · simp
      · have := ih (n + 1) x hx
        simp only [List.length_cons]; omega

theorem parseLines_of (lines : List String) (rs : List (Option Code))
    (h : lines.map parseLine = rs.map some) : ∀ n, parseLines n lines = .ok (numberOpt n rs) := by
  induction lines generalizing rs with
  | nil =>
    intro n
    cases rs with
    | nil => rfl
    | cons _ _ => simp at h
  | cons l ls ih =>
    intro n
    cases rs with
    | nil => simp at h
    | cons r rs =>
      simp only [List.map_cons, List.cons.injEq] at h
      rw [parseLines]
      cases r with
      | none => simp only [h.1, numberOpt]; exact ih rs h.2 (n + 1)
      | some c => simp only [h.1, numberOpt, ih rs h.2 (n + 1)]

/-! ## the lines of a printed routine -/

/-- the routine is empty or starts with a label -/
def HeadLabel (instrs : List Code) : Prop := instrs = [] ∨ ∃ l rest, instrs = .LAB l :: rest

/-- the lines of the text of a routine -/
def routineLines (instrs : List Code) : List String :=
  "// actual code" :: ((instrs.flatMap codeLines).drop 1 ++ ["", "cleanup:"])

/-- what the loader reads them as -/
def routineParsed (instrs : List Code) : List (Option Code) :=
  some (.COMMENT "actual code") :: ((instrs.flatMap codeParsed).drop 1 ++ [none, some (.LAB "cleanup")])

theorem toList_intoRoutine (instrs : List Code) :
    (intoRoutine instrs).toList
      = "// actual code".toList ++ ['\n'].intercalate ((instrs.map printCode).map String.toList)
        ++ ['\n', '\n'] ++ "cleanup:".toList := by
  unfold intoRoutine
  simp only [String.toList_intercalate, String.toList_append, List.map_cons, List.map_nil]
  rw [intercalate_cons_cons', intercalate_singleton']
  simp

theorem intercalate_printed (instrs : List Code) :
    ['\n'].intercalate ((instrs.map printCode).map String.toList)
      = ['\n'].intercalate ((instrs.flatMap codeLines).map String.toList) := by
  have e1 : (instrs.map printCode).map String.toList
      = (instrs.map (fun c => (codeLines c).map String.toList)).map (fun l => ['\n'].intercalate l) := by
    rw [List.map_map, List.map_map]
    apply List.map_congr_left
    intro c _
    simp only [Function.comp]
    rw [printCode_lines c, String.toList_intercalate]; rfl
  rw [e1, intercalate_flatten' ['\n'] _ (by
    intro l hl
    obtain ⟨c, _, rfl⟩ := List.mem_map.1 hl
    have := codeLines_ne_nil c
    cases hc : codeLines c with
    | nil => exact absurd hc this
    | cons _ _ => simp)]
  congr 1
  simp [List.flatMap, List.map_flatten, List.map_map, Function.comp_def]

/-- the text of a routine that starts with a label (or is empty) is its lines joined by line breaks -/
theorem intoRoutine_lines {instrs : List Code} (h : HeadLabel instrs) :
    intoRoutine instrs = "\n".intercalate (routineLines instrs) := by
  apply String.ext
  have hn : "\n".toList = ['\n'] := rfl
  rw [toList_intoRoutine, intercalate_printed, String.toList_intercalate, hn]
  unfold routineLines
  rcases h with rfl | ⟨l, rest, rfl⟩
  · simp [intercalate_cons_cons', intercalate_singleton', intercalate_nil']
  · have e : (Code.LAB l :: rest).flatMap codeLines = "" :: (l ++ ":") :: rest.flatMap codeLines := by
      simp [List.flatMap_cons, codeLines]
    rw [e]
    simp only [List.drop_succ_cons, List.drop_zero, List.map_cons, List.map_append, List.map_nil,
      List.cons_append]
    rw [intercalate_cons_cons', intercalate_cons_cons' _ "// actual code".toList]
    have hne : ((l ++ ":").toList :: List.map String.toList (List.flatMap codeLines rest)) ≠ [] := by simp
    have hsplit := intercalate_append' ['\n'] ((l ++ ":").toList :: List.map String.toList (List.flatMap codeLines rest))
      ["".toList, "cleanup:".toList] hne (by simp)
    simp only [List.cons_append] at hsplit
    rw [hsplit, intercalate_cons_cons', intercalate_singleton']
    simp

theorem splitOn_intoRoutine {instrs : List Code} (h : HeadLabel instrs)
    (hnl : ∀ l ∈ routineLines instrs, '\n' ∉ l.toList) :
    (intoRoutine instrs).splitOn "\n" = routineLines instrs := by
  rw [intoRoutine_lines h]
  unfold routineLines at hnl ⊢
  exact splitOn_newline_intercalate _ _ hnl

/-! ## reading the lines -/

theorem map_parseLine_flatMap (cs : List Code) (h : ∀ c ∈ cs, CodeOK c) :
    (cs.flatMap codeLines).map parseLine = (cs.flatMap codeParsed).map some := by
  induction cs with
  | nil => rfl
  | cons c cs ih =>
    simp only [List.flatMap_cons, List.map_append]
    rw [(parse_codeLines c (h c (by simp))).1, ih (fun x hx => h x (by simp [hx]))]

theorem rtrimS_actual : rtrimS "actual code" = "actual code" := by
  unfold rtrimS
  rw [ofList_eq_iff]
  decide

theorem parseLine_header : parseLine "// actual code" = some (some (.COMMENT "actual code")) := by
  have := parseLine_comment "actual code"
  rw [rtrimS_actual] at this
  exact this

theorem labelDefOK_cleanup : LabelDefOK "cleanup" := ⟨tok_of_check (by decide), noSlash_of_head (by decide)⟩

theorem parseLine_cleanup : parseLine "cleanup:" = some (some (.LAB "cleanup")) := by
  have e : ("cleanup:" : String) = "cleanup" ++ ":" := by
    apply String.ext; rw [String.toList_append]; rfl
  rw [e]
  exact parseLine_label labelDefOK_cleanup

theorem routineLines_parse (instrs : List Code) (h : ∀ c ∈ instrs, CodeOK c) :
    (routineLines instrs).map parseLine = (routineParsed instrs).map some := by
  unfold routineLines routineParsed
  simp only [List.map_cons, List.map_append, List.map_nil, parseLine_header, parseLine_empty, parseLine_cleanup,
    List.map_drop, map_parseLine_flatMap instrs h]

theorem routineLines_no_nl (instrs : List Code) (h : ∀ c ∈ instrs, CodeOK c) :
    ∀ l ∈ routineLines instrs, '\n' ∉ l.toList := by
  intro l hl
  unfold routineLines at hl
  simp only [List.mem_cons, List.mem_append, List.not_mem_nil, or_false] at hl
  rcases hl with rfl | hl | rfl | rfl
  · decide
  · obtain ⟨c, hc, hlc⟩ := List.mem_flatMap.1 (List.mem_of_mem_drop hl)
    exact (parse_codeLines c (h c hc)).2 l hlc
  · simp
  · decide

/-- **THE ROUND TRIP**: the loader reads the text of a text-safe routine that starts with a label as its
    items, with their line numbers -/
theorem parseText_intoRoutine (instrs : List Code) (hh : HeadLabel instrs) (h : ∀ c ∈ instrs, CodeOK c) :
    parseText (intoRoutine instrs) = .ok (numberOpt 1 (routineParsed instrs)) := by
  unfold parseText
  rw [splitOn_intoRoutine hh (routineLines_no_nl instrs h)]
  exact parseLines_of _ _ (routineLines_parse instrs h) 1

/-! ## the read items -/

theorem filterMap_codeParsed (cs : List Code) : (cs.flatMap codeParsed).filterMap id = cs.map parsedCode := by
  induction cs with
  | nil => rfl
  | cons c cs ih =>
    rw [List.flatMap_cons, List.filterMap_append, ih]
    cases c <;> rfl

/-- the read items: the header comment, the items of the routine, the label `cleanup` -/
theorem routine_codes {instrs : List Code} (hh : HeadLabel instrs) :
    (numberOpt 1 (routineParsed instrs)).map (·.2)
      = [Code.COMMENT "actual code"] ++ instrs.map parsedCode ++ [Code.LAB "cleanup"] := by
  rw [map_snd_numberOpt]
  unfold routineParsed
  have key : ((instrs.flatMap codeParsed).drop 1).filterMap id = instrs.map parsedCode := by
    rcases hh with rfl | ⟨l, rest, rfl⟩
    · rfl
    · rw [← filterMap_codeParsed]
      simp [List.flatMap_cons, codeParsed]
  simp only [List.filterMap_cons, id, List.filterMap_append, key, List.filterMap_nil]
  rfl

theorem parseHook_header : parseHook "actual code" = none := by
  rw [parseHook_eq]; decide

theorem badHook_parsedCode {c : Code} (h : CodeOK c) : ¬ badHook (parsedCode c) := by
  cases c with
  | COMMENT m =>
    simp only [parsedCode, badHook]
    rw [parseHook_eq]
    unfold rtrimS
    rw [String.toList_ofList]
    exact (h.com m rfl).2
  | _ => simp [parsedCode, badHook]

/-- no read item is a malformed hook -/
theorem routine_no_badHook {instrs : List Code} (hh : HeadLabel instrs) (h : ∀ c ∈ instrs, CodeOK c) :
    ∀ x ∈ numberOpt 1 (routineParsed instrs), ¬ badHook x.2 := by
  intro x hx
  have hm : x.2 ∈ (numberOpt 1 (routineParsed instrs)).map (·.2) := List.mem_map.2 ⟨x, hx, rfl⟩
  rw [routine_codes hh] at hm
  simp only [List.mem_append, List.mem_singleton, List.mem_map] at hm
  rcases hm with (hm | ⟨c, hc, hm⟩) | hm
  · rw [hm]; simp only [badHook]; rw [parseHook_header]; simp
  · rw [← hm]; exact badHook_parsedCode (h c hc)
  · rw [hm]; simp [badHook]

/-- the three facts the run theorems of C08 need of the text of a routine -/
theorem textLoads (instrs : List Code) (hh : HeadLabel instrs) (h : ∀ c ∈ instrs, CodeOK c) :
    ∃ lines, parseText (intoRoutine instrs) = .ok lines ∧
      (lines.map (·.2)).map stripC = ([Code.COMMENT "actual code"] ++ instrs ++ [Code.LAB "cleanup"]).map stripC ∧
      ∀ x ∈ lines, ¬ badHook x.2 := by
  refine ⟨_, parseText_intoRoutine instrs hh h, ?_, routine_no_badHook hh h⟩
  rw [routine_codes hh]
  simp only [List.map_append, List.map_map]
  congr 2
  apply List.map_congr_left
  intro c _
  exact stripC_parsedCode c

/-! ## a routine that does NOT start with a label: its first item is swallowed by the header comment -/

theorem intercalate_head_append {α : Type} (sep a p : List α) (rest : List (List α)) :
    sep.intercalate ((a ++ p) :: rest) = a ++ sep.intercalate (p :: rest) := by
  cases rest with
  | nil => simp [intercalate_singleton']
  | cons r rs => simp [intercalate_cons_cons']

/-- the lines of the text of a routine whose first item `c` is not a label: the header comment and the printed
    `c` are ONE line -/
theorem intoRoutine_swallow (c : Code) (cs : List Code) (hc : codeLines c = [printCode c]) :
    intoRoutine (c :: cs)
      = "\n".intercalate (("// actual code" ++ printCode c) :: (cs.flatMap codeLines ++ ["", "cleanup:"])) := by
  apply String.ext
  have hn : "\n".toList = ['\n'] := rfl
  rw [toList_intoRoutine, intercalate_printed, String.toList_intercalate, hn, List.flatMap_cons, hc]
  simp only [List.map_cons, List.map_append, List.map_nil, List.cons_append, List.nil_append,
    String.toList_append]
  rw [intercalate_head_append]
  have hsplit := intercalate_append' ['\n'] ((printCode c).toList :: List.map String.toList (List.flatMap codeLines cs))
    ["".toList, "cleanup:".toList] (by simp) (by simp)
  simp only [List.cons_append] at hsplit
  rw [hsplit, intercalate_cons_cons', intercalate_singleton']
  simp

/-- … and the loader reads that line as a comment: the routine has one item fewer than it should -/
theorem parseText_swallow (c : Code) (cs : List Code) (hc : codeLines c = [printCode c])
    (h : ∀ x ∈ c :: cs, CodeOK x) :
    parseText (intoRoutine (c :: cs))
      = .ok (numberOpt 1 (some (.COMMENT (rtrimS ("actual code" ++ printCode c))) ::
          (cs.flatMap codeParsed ++ [none, some (.LAB "cleanup")]))) := by
  have hcl := parse_codeLines c (h c (by simp))
  rw [hc] at hcl
  have hnl : ∀ l ∈ ("// actual code" ++ printCode c) :: (cs.flatMap codeLines ++ ["", "cleanup:"]),
      '\n' ∉ l.toList := by
    intro l hl
    simp only [List.mem_cons, List.mem_append, List.not_mem_nil, or_false] at hl
    rcases hl with rfl | hl | rfl | rfl
    · rw [String.toList_append]
      intro hm
      simp only [List.mem_append] at hm
      rcases hm with hm | hm
      · revert hm; decide
      · exact hcl.2 _ (by simp) hm
    · obtain ⟨x, hx, hlx⟩ := List.mem_flatMap.1 hl
      exact (parse_codeLines x (h x (by simp [hx]))).2 l hlx
    · simp
    · decide
  unfold parseText
  rw [intoRoutine_swallow c cs hc, splitOn_newline_intercalate _ _ hnl]
  refine parseLines_of _ _ ?_ 1
  have e : "// actual code" ++ printCode c = "// " ++ ("actual code" ++ printCode c) := by
    apply String.ext; simp [String.toList_append]
  simp only [List.map_cons, List.map_append, List.map_nil, parseLine_empty, parseLine_cleanup,
    map_parseLine_flatMap cs (fun x hx => h x (by simp [hx]))]
  rw [e, parseLine_comment]

theorem swallow_length (cs : List Code) (m : String) :
    (numberOpt 1 (some (.COMMENT m) :: (cs.flatMap codeParsed ++ [none, some (.LAB "cleanup")]))).length
      = cs.length + 2 := by
  have := congrArg List.length (map_snd_numberOpt 1
    (some (Code.COMMENT m) :: (cs.flatMap codeParsed ++ [none, some (Code.LAB "cleanup")])))
  rw [List.length_map] at this
  rw [this]
  simp only [List.filterMap_cons, id, List.filterMap_append, filterMap_codeParsed, List.filterMap_nil,
    List.length_cons, List.length_append, List.length_map, List.length_nil]

end Scc.RV.Loader
