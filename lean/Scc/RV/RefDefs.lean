/-
  Scc.RV.RefDefs — SPEC definitions for Theorem B on RV64 (C08): the right half of the three-way relation
        AxCut positional machine  ⟷  abstract backend machine  ⟷  RV64 machine
  at STATEMENT BOUNDARIES (the left half is Theorem A's relation `Sim2.RelX`, Props/C06Generic.lean).
  The relation `X3` is typed by the context `Γ` of the positional machine, because the word part of a
  value is represented differently on the two machines:
    * an integer (`ext`): the same word;
    * the tag of an object (`prd`): the abstract machine holds the xtor position `n` (the mock backend's
      `jump_length n = n`), the RV64 machine `jump_length n = 4·n` (the byte offset of the n-th `JAL` of
      the table);
    * the code address of a closure (`cns`): an address of the abstract program resp. the byte address
      `α a` of the corresponding label of the RV64 program (a parameter);
  and the pointer part is an object id on the abstract machine and the address `ι id` of the head block
  on the RV64 machine.  There are no spills on RV64: temporary `t` of a position is register `X(t + 4)`
  (`posReg`, utils.rs), a context has at most 14 variables.  The abstract heap is represented by the
  machine memory through the two existing layers
        `Abs.Heap` —[`HRef`, Scc/Heap/Refine*.lean]→ `Scc.Heap.HState` —[`HeapRel`, Scc/RV/MemProofs*.lean]→ memory,
  applied to the abstract heap with TRANSLATED word parts (`trHeap`).
  Core imports only besides the files defining the relations used.
-/
import Scc.RV.MemProofsLoad
import Scc.Heap.RefineDefs
import Scc.Backend.SimDefs2

namespace Scc.RV.Ref

open Scc.AxCut Scc.Backend Scc.Backend.Abs Scc.Backend.Sim Scc.RV
open Scc.Heap (HState)
open Scc.Heap.Refine (HRef)

/-- the RV64 representation of the word part of a value of kind `chi` whose representation on the abstract
machine is `a` (`α`: code addresses) -/
def trW (α : Word → Word) (chi : Chi) (a : Word) : Word :=
  match chi with
  | .prd => a * 4#64
  | .cns => α a
  | .ext => a

/-- translation of a heap field -/
def trF (α : Word → Word) (f : Abs.Field) : Abs.Field := { f with val := trW α f.chi f.val }

def trO (α : Word → Word) (o : Obj) : Obj := { o with fields := o.fields.map (trF α) }

/-- the abstract heap with the word parts as the RV64 machine holds them -/
def trHeap (α : Word → Word) (h : Heap) : Heap := h.map fun e => (e.1, trO α e.2)

/-- the RV64 representation of a reference: null ↦ null, `id ↦ ι id` -/
def imgWord (ι : Nat → Nat) (r : Word) : Word := if r = 0 then 0 else BitVec.ofNat 64 (ι r.toNat)

/-- the content of the register of temporary `t` of a position (`none`: undefined) -/
def rv (st : State) (t : Nat) : Option Word := (mview st).val (posReg t)

/-- THE RIGHT HALF OF THE THREE-WAY RELATION: position `i` of the abstract machine (temporaries `2i`,
`2i+1`) is held by the registers `X(2i+4)`, `X(2i+5)`; the machine memory represents the block-level heap
`hs`, which represents the (translated) abstract heap under the address map `ι` -/
structure X3R (mc : MonCfg) (α : Word → Word) (Γ : Ctx) (cfg : Config) (rs : List Nat) (hs : HState)
    (ι : Nat → Nat) (st : State) : Prop where
  bnd : Boundary mc st
  /-- the capacity of utils.rs: 14 variables -/
  cap : Γ.length ≤ 14
  /-- word parts -/
  words : ∀ i (hi : i < Γ.length) a, cfg.temps.get (2 * i + 1) = some a →
    rv st (2 * i + 1) = some (trW α Γ[i].chi a)
  /-- pointer parts -/
  ptrs : ∀ i (hi : i < Γ.length), Γ[i].chi ≠ .ext → ∀ r, cfg.temps.get (2 * i) = some r →
    rv st (2 * i) = some (imgWord ι r)
  hrel : HeapRel mc st hs
  /-- `rs`: the non-null references held (at a statement boundary: by the variables of `Γ`) -/
  href : HRef (trHeap α cfg.heap) rs cfg.next hs ι

/-- at a statement boundary the roots are the references held by the variables of the context -/
def X3 (mc : MonCfg) (α : Word → Word) (Γ : Ctx) (cfg : Config) (hs : HState) (ι : Nat → Nat)
    (st : State) : Prop :=
  X3R mc α Γ cfg (roots Γ cfg.temps) hs ι st

end Scc.RV.Ref
