/-
  Scc.RV.RefDefs — SPEC definitions for Theorem B on RV64 (C08): the right half of the three-way relation
        AxCut positional machine  ⟷  abstract backend machine  ⟷  RV64 machine
  at STATEMENT BOUNDARIES (the left half is Theorem A's relation `Sim2.RelX`, Props/C06Generic.lean).
  The relation `X3` is typed by the context `Γ` of the positional machine, because the word part of a
  value is represented differently on the two machines:
    * an integer (`ext`): the same word;
    * the tag of an object (`prd`): the abstract machine holds the xtor position `n` (the mock backend's
      `jump_length n = n`), the RV64 machine `jump_length n = 4·n` (the byte offset of the n-th `JAL` of
      the table);
    * the code address of a closure (`cns`): an address of the abstract program resp. the byte address of
      the method table in the RV64 program — kept per LOCATION (`cw i` for context position `i`, `τ id j`
      for field `j` of heap object `id`), because nothing forces two closures with the same abstract code
      address to have the same machine code address;
  and the pointer part is an object id on the abstract machine and the address `ι id` of the head block
  on the RV64 machine.  There are no spills on RV64: temporary `t` of a position is register `X(t + 4)`
  (`posReg`, utils.rs), a context has at most 14 variables.  The abstract heap is represented by the
  machine memory through the two existing layers
        `Abs.Heap` —[`HRef`, Scc/Heap/Refine*.lean]→ `Scc.Heap.HState` —[`HeapRel`, Scc/RV/MemProofs*.lean]→ memory,
  applied to the abstract heap with TRANSLATED word parts (`trHeap`).
  Core imports only besides the files defining the relations used.
-/
import Scc.RV.MemProofsLoad
import Scc.Heap.RefineDefs
import Scc.Backend.SimDefs2

namespace Scc.RV.Ref

open Scc.AxCut Scc.Backend Scc.Backend.Abs Scc.Backend.Sim Scc.RV
open Scc.Heap (HState)
open Scc.Heap.Refine (HRef)

/-- the RV64 representation of the word part of a value of kind `chi` whose representation on the abstract
machine is `a`; `m`: the machine word of a closure (`cns`: the byte address of its method table), which is
kept per LOCATION (context position / heap field), not as a function of the abstract code address -/
def trW (chi : Chi) (a m : Word) : Word :=
  match chi with
  | .prd => a * 4#64
  | .cns => m
  | .ext => a

/-- translation of a heap field (`m`: the machine word, used for `cns` fields) -/
def trF (m : Word) (f : Abs.Field) : Abs.Field := { f with val := trW f.chi f.val m }

/-- translation of the fields of an object; field `j` (counted from `k`) takes its closure word from `mw j` -/
def trFieldsP (mw : Nat → Word) : Nat → List Abs.Field → List Abs.Field
  | _, [] => []
  | k, f :: fs => trF (mw k) f :: trFieldsP mw (k + 1) fs

/-- `τ id j`: the machine word held by field `j` of object `id` (for `cns` fields) -/
def trO (τ : Nat → Nat → Word) (id : Nat) (o : Obj) : Obj := { o with fields := trFieldsP (τ id) 0 o.fields }

/-- the abstract heap with the word parts as the RV64 machine holds them -/
def trHeap (τ : Nat → Nat → Word) (h : Heap) : Heap := h.map fun e => (e.1, trO τ e.1 e.2)

/-- the RV64 representation of a reference: null ↦ null, `id ↦ ι id` -/
def imgWord (ι : Nat → Nat) (r : Word) : Word := if r = 0 then 0 else BitVec.ofNat 64 (ι r.toNat)

/-- the content of the register of temporary `t` of a position (`none`: undefined) -/
def rv (st : State) (t : Nat) : Option Word := (mview st).val (posReg t)

/-- THE RIGHT HALF OF THE THREE-WAY RELATION: position `i` of the abstract machine (temporaries `2i`,
`2i+1`) is held by the registers `X(2i+4)`, `X(2i+5)` (`cw i`: the machine word of a closure at position `i`);
the machine memory represents the block-level heap `hs`, which represents the (translated) abstract heap under
the address map `ι` -/
structure X3R (mc : MonCfg) (cw : Nat → Word) (τ : Nat → Nat → Word) (Γ : Ctx) (cfg : Config) (rs : List Nat)
    (hs : HState) (ι : Nat → Nat) (st : State) : Prop where
  bnd : Boundary mc st
  /-- the capacity of utils.rs: 14 variables -/
  cap : Γ.length ≤ 14
  /-- word parts -/
  words : ∀ i (hi : i < Γ.length) a, cfg.temps.get (2 * i + 1) = some a →
    rv st (2 * i + 1) = some (trW Γ[i].chi a (cw i))
  /-- pointer parts -/
  ptrs : ∀ i (hi : i < Γ.length), Γ[i].chi ≠ .ext → ∀ r, cfg.temps.get (2 * i) = some r →
    rv st (2 * i) = some (imgWord ι r)
  hrel : HeapRel mc st hs
  /-- `rs`: the non-null references held (at a statement boundary: by the variables of `Γ`) -/
  href : HRef (trHeap τ cfg.heap) rs cfg.next hs ι

/-- at a statement boundary the roots are the references held by the variables of the context -/
def X3 (mc : MonCfg) (cw : Nat → Word) (τ : Nat → Nat → Word) (Γ : Ctx) (cfg : Config) (hs : HState)
    (ι : Nat → Nat) (st : State) : Prop :=
  X3R mc cw τ Γ cfg (roots Γ cfg.temps) hs ι st

end Scc.RV.Ref
