/-
  Scc.RV.ConcJump — PROGRESS of the RV64 machine in the two statements that leave the current code: `call` and
  `invoke` make the machine consume AT LEAST ONE unit of fuel (`ReachP`: `stepN … k … = .inl …` with `1 ≤ k` — the
  `JAL` resp. the `JALR`, and the label passed behind it).  `call_x3Q`, `invoke_nav_rvP`, `invoke_x3P` are `call_x3`
  (Scc/RV/RefCall.lean), `invoke_nav_rv`, `invoke_x3` (Scc/RV/RefInvoke.lean) with `ReachP` in place of `Reach` (same
  proofs; the last item passed — a label — is passed by exactly one step: `pass_labelP`).  This is what the
  progress argument of the all-fuel theorems needs (as `IsJump` on x86-64, Scc/X86/ConcKStep.lean): every other step
  of the positional machine moves to a strictly smaller statement.
-/
import Scc.RV.RefRun

set_option linter.unusedVariables false
set_option linter.unusedSimpArgs false

namespace Scc.RV.Ref

open Scc.AxCut Scc.AxCut.Pos Scc.Backend Scc.Backend.Abs Scc.Backend.Sim Scc.Backend.Sim2 Scc.RV
open Scc.Heap (HState InvS InvW)
open Scc.Heap.Refine (HRef FrLe Room)

/-- the run loop gets from `s` to `s'` and consumes at least one unit of fuel -/
def ReachP (p : Program) (cfg : MonCfg) (s s' : State) : Prop :=
  ∃ k, 1 ≤ k ∧ stepN p cfg k s = .inl s'

theorem ReachP.reach {p : Program} {cfg : MonCfg} {s s' : State} (h : ReachP p cfg s s') : Reach p cfg s s' := by
  obtain ⟨k, _, hk⟩ := h
  exact ⟨k, hk⟩

theorem Reach.transP {p : Program} {cfg : MonCfg} {s1 s2 s3 : State} (h1 : Reach p cfg s1 s2)
    (h2 : ReachP p cfg s2 s3) : ReachP p cfg s1 s3 := by
  obtain ⟨k1, h1⟩ := h1
  obtain ⟨k2, hk2, h2⟩ := h2
  exact ⟨k1 + k2, by omega, stepN_trans p cfg h1 h2⟩

theorem ReachP.trans_reach {p : Program} {cfg : MonCfg} {s1 s2 s3 : State} (h1 : ReachP p cfg s1 s2)
    (h2 : Reach p cfg s2 s3) : ReachP p cfg s1 s3 := by
  obtain ⟨k1, hk1, h1⟩ := h1
  obtain ⟨k2, h2⟩ := h2
  exact ⟨k1 + k2, by omega, stepN_trans p cfg h1 h2⟩

theorem ReachP.of_step {p : Program} {cfg : MonCfg} {s s' : State} (h : step p cfg s = .inl s') :
    ReachP p cfg s s' := ⟨1, Nat.le_refl _, by rw [stepN_one]; exact h⟩

section Bridge

variable {p : Program} {cfg : MonCfg} {ks : List Code} (L : Loaded p ks)

include L in
/-- a label (not `cleanup`) at the program counter is passed, by one step -/
theorem pass_labelP {l : String} {more : List Code} {s : State} (hat : KAt ks s.pc (Code.LAB l :: more))
    (hl : l ≠ "cleanup") : ReachP p cfg s (setPS s (s.pc + 1) s.steps) ∧ KAt ks (s.pc + 1) more := by
  obtain ⟨hg, hm⟩ := hat.head rfl
  obtain ⟨it, h1, h2, _⟩ := loaded_item L hg
  refine ⟨ReachP.of_step ?_, hm⟩
  exact Scc.RV.step_of_label p cfg s h1 h2 hl

end Bridge

section Call3

variable {mc : MonCfg} {cw : Nat → Word} {τ : Nat → Nat → Word} {p : RV.Program} {ks : List Code} (L : Loaded p ks)
  (hndL : (labs ks).Nodup) (hheap : mc.heap = false)

include L hndL hheap in
/-- THREE-WAY SIMULATION OF `call`; the machine makes at least one transition (the `JAL`) -/
theorem call_x3Q {P : Abs.Program} {hooks : Bool} {prog : AxCut.Prog} {Γ : Ctx} {ρ : List Value} {l : Ident}
    {args : Ctx} {cfg : Config} {d : Def}
    (R : RelX P hooks prog ⟨Γ, ρ, .call l args⟩ cfg) (D : DefsAt P hooks prog) (DX : KDefsAt ks hooks prog)
    (hd : Pos.findDef prog.defs l = some d) (hchi : Pos.chiTys Γ = Pos.chiTys d.ctx)
    {hs : HState} {ι : Nat → Nat} {st : State} (X : X3 mc cw τ Γ cfg hs ι st)
    {kx kx' : Nat} {items : List Code}
    (hrunX : (codeStatementR rvBackend hooks natRen prog.types (.call l args) Γ).run kx = .ok (items, kx'))
    (hatX : KAt ks st.pc items) :
    ∃ cfg' st', stepsTo P 1 cfg cfg' ∧ ReachP p mc st st' ∧
      cfg'.out = cfg.out ∧ cfg'.next = cfg.next ∧ FrameFacts cfg cfg' Γ.length ∧
      RelX P hooks prog ⟨d.ctx, ρ, d.body⟩ cfg' ∧ X3 mc cw τ d.ctx cfg' hs ι st' ∧
      ∃ k1 k1' items', (codeStatementR rvBackend hooks natRen prog.types d.body d.ctx).run k1 = .ok (items', k1') ∧
        KAt ks st'.pc items' := by
  obtain ⟨cfg', hst, hout, hnext, R'⟩ := sim2_call R D hd hchi
  have hstep := stepsTo_one_inv hst
  have J : JumpFacts cfg cfg' := by
    obtain ⟨c, c', ops, hrun, hat⟩ := R.code
    simp only [codeStatementR, run_pure_ok] at hrun
    obtain ⟨rfl, rfl⟩ := hrun
    simp only [mockSym_comment, mockSym_jumpLabel, List.append_assoc, CodeAt_hook] at hat
    simp only [List.cons_append, List.nil_append, CodeAt] at hat
    exact step_jumpLabel_facts hat.1 hstep
  have hmem : d ∈ prog.defs := List.mem_of_find?_eq_some hd
  have hname : d.name = l := by
    have := List.find?_some hd
    exact Ident.eq_of_beq this
  obtain ⟨i, k1, k1', ditems, hidx, hlab, hdrun, hdat⟩ := DX d hmem
  -- the RV code
  simp only [codeStatementR, run_pure_ok] at hrunX
  obtain ⟨rfl, rfl⟩ := hrunX
  generalize hc0 : hookCode rvBackend hooks Γ ++ [rvBackend.comment (l.print ++ "(...)")] = c0 at hatX
  have hc0c : ∀ y ∈ c0, ∃ m', y = Code.COMMENT m' := by rw [← hc0]; exact hook_comments hooks Γ _
  replace hatX : KAt ks st.pc (c0 ++ [Code.JAL ZERO (l.print ++ "_")]) := hatX
  obtain ⟨pc0, k0, hr0, hat0⟩ := pass_comments L hndL hheap hatX hc0c
  have X0 : X3 mc cw τ Γ cfg hs ι (setPS st pc0 k0) := X3R.setPS X _ _
  have hr1 := step_label L (cfg := mc) (s := setPS st pc0 k0) (s1 := setPS st pc0 k0) (l := l.print ++ "_")
    (i := i) hat0 rfl (fun a => exec_JAL_zero mc _ a _ _) (by rw [← hname]; exact hidx)
  -- the label of the definition
  have hkeys : Γ.map (·.chi) = d.ctx.map (·.chi) := by
    have := congrArg (List.map Prod.fst) hchi
    simp only [Pos.chiTys, List.map_map] at this
    exact this
  have X1 : X3 mc cw τ d.ctx cfg' hs ι (setPS (setPS st pc0 k0) i ((setPS st pc0 k0).steps + 1)) :=
    X3R.setPS ((X0.jump J).ctxCongr hkeys) _ _
  have hati : KAt ks (setPS (setPS st pc0 k0) i ((setPS st pc0 k0).steps + 1)).pc
      (Code.LAB (d.name.print ++ "_") :: ditems) := KAt.of_label hlab hdat
  generalize setPS (setPS st pc0 k0) i ((setPS st pc0 k0).steps + 1) = s1 at hr1 X1 hati
  obtain ⟨hr2, hat2⟩ := pass_labelP L (cfg := mc) hati (defLabel_ne_cleanup _)
  exact ⟨cfg', _, hst, hr0.transP (hr1.transP hr2), hout, hnext,
    J.frame (by have := X.cap; unfold Mock.T_TEMP; omega), R', X3R.setPS X1 _ _, _, _, ditems, hdrun, hat2⟩

end Call3

section Nav

variable {mc : MonCfg} {cw : Nat → Word} {τ : Nat → Nat → Word} {pr : RV.Program} {ks : List Code}
  (L : Loaded pr ks) (hnd : (labs ks).Nodup) (hheap : mc.heap = false)
  (hfitX : codeBase + 4 * icount ks < 2 ^ 64)
  (hcl : ∀ t, t + 1 < ks.length → ks[t]? ≠ some (Code.LAB "cleanup"))

include L hnd hheap hfitX hcl in
/-- the machine from the `invoke` to the `load` of the selected method: at least one transition -/
theorem invoke_nav_rvP {hooks : Bool} {types : List TypeDecl} {Γa : Ctx} {b : Binding} {cfg : Config}
    {hs : HState} {ι : Nat → Nat} {st : State} {x tag : Ident} {ty : Ty} {args : Ctx} {clauses : Clauses}
    {pos : Nat} {c : Clause} {d : TypeDecl} {ec' : Ctx} {m : Word}
    (X : X3 mc cw τ (Γa ++ [b]) cfg hs ι st)
    (hb : b.var.id = x.id) (hfresh : ∀ b' ∈ Γa, b'.var.id ≠ x.id)
    (hd : lookupTypeDecl types ty = some d) (hx : xtorPosition d tag = some pos)
    (hclause : nthClause clauses pos = some c) (hlc : clauses.length = d.xtors.length)
    (hrv : rv st (2 * Γa.length + 1) = some m) (hK : KMethodsAt ks hooks types m ec' clauses)
    {k k' : Nat} {items : List Code}
    (hrun : (codeStatementR rvBackend hooks natRen types (.invoke x tag ty args) (Γa ++ [b])).run k =
      .ok (items, k'))
    (hat : KAt ks st.pc items) :
    ∃ st4 kl kl' lcode kb' body, ReachP pr mc st st4 ∧ X3 mc cw τ (Γa ++ [b]) cfg hs ι st4 ∧
      (load ec' c.ctx).run kl = .ok (lcode, kl') ∧
      (codeStatementR rvBackend hooks natRen types c.body (c.ctx ++ ec')).run kl' = .ok (body, kb') ∧
      KAt ks st4.pc (lcode ++ body) := by
  obtain ⟨base, i, km, km', mcode, hbase, hidx, hm, hmrun, hatM⟩ := hK
  have hposlt := nthClause_lt clauses pos c hclause
  have hclne : clauseLabel base c.xtor ≠ "cleanup" := by
    unfold clauseLabel; exact tableLabel_ne_cleanup _ _
  generalize hA : codeBase + 4 * icount (ks.take i) = A at hm
  have hAlt : A < 2 ^ 64 := by
    have := icount_take_le ks i
    omega
  have hAeven : A % 2 = 0 := by rw [← hA]; unfold codeBase; omega
  have hgi : ks[i]? = some (Code.LAB base) := (hatM.head rfl).1
  have hilt : i < ks.length := (List.getElem?_eq_some_iff.1 hgi).1
  have hcl' : ∀ j, j < ks.length → ∀ t, t < j → ks[t]? ≠ some (Code.LAB "cleanup") :=
    fun j hj t ht => hcl t (by omega)
  -- decode the code
  simp only [codeStatementR, run_bind_ok, run_pure_ok, lookupTypeDeclM_run_ok] at hrun
  obtain ⟨tX, _, htX, decl, _, ⟨hd', rfl⟩, hrun⟩ := hrun
  rw [hd] at hd'; cases hd'
  obtain ⟨q, hq, hlt, rfl, rfl⟩ := (rv_vt_run_ok _ _ _ _ _ _).1 htX
  have hq' : q = Γa.length := by
    have := posOf_append_fresh Γa b (fun b' hb' => by rw [hb]; exact hfresh b' hb')
    rw [hb] at this
    rw [this] at hq
    exact (Option.some.inj hq).symm
  subst hq'
  simp only [TempNum.toNat] at hlt
  generalize hc0 : hookCode rvBackend hooks (Γa ++ [b]) ++ [rvBackend.comment (invokePrint x tag args)] = c0 at hrun
  have hc0c : ∀ y ∈ c0, ∃ m', y = Code.COMMENT m' := by rw [← hc0]; exact hook_comments hooks _ _
  have hrt : st.readReg (posTemp (2 * Γa.length + 1)) = .ok (BitVec.ofNat 64 A) := by
    rw [← hm]; exact readReg_of_rv hrv
  by_cases hle : d.xtors.length ≤ 1
  · -- a single method: the jump goes to the label of the (empty) table
    have hpos0 : pos = 0 := by omega
    subst hpos0
    simp only [hle, if_true, run_pure_ok] at hrun
    obtain ⟨rfl, rfl⟩ := hrun
    have hgt : ¬ (clauses.length > 1) := by omega
    simp only [hgt, if_false, List.nil_append] at hatM
    obtain ⟨post0, kl0', lcode0, kb0', body0, hc30, hload0, hbody0⟩ :=
      rv_codeMethods_head hooks natRen types ec' clauses base c _ _ _ hmrun hclause
    rw [hc30] at hatM
    have hatN : KAt ks st.pc ((c0 ++ [Code.COMMENT "#there is only one clause, so we can jump there directly"]) ++
        [Code.JALR ZERO (posTemp (2 * Γa.length + 1)) 0]) := hat
    obtain ⟨pc0, k0, hr0, hat0⟩ := pass_comments L hnd hheap hatN (by
      intro y hy
      simp only [List.mem_append, List.mem_cons, List.not_mem_nil, or_false] at hy
      rcases hy with hy | rfl
      · exact hc0c y hy
      · exact ⟨_, rfl⟩)
    have hjx : ∀ a', exec mc pr.labelAddr a' (Code.JALR ZERO (posTemp (2 * Γa.length + 1)) 0) (setPS st pc0 k0) =
        .ok (setPS st pc0 k0, .addr (BitVec.ofNat 64 A)) := fun a' =>
      exec_JALR_zero mc pr.labelAddr a' (s := setPS st pc0 k0) (by rw [readReg_setPS]; exact hrt) hAeven
    have hr1 := jump_reach L hheap (s := setPS st pc0 k0) hat0 rfl hjx hilt
      (Or.inr ⟨base, by rw [List.getElem?_eq_getElem hilt] at hgi; injection hgi⟩)
      (by rw [ofNat_toNat_lt hAlt, hA]) (hcl' i hilt)
    have hatM' : KAt ks (setPS (setPS st pc0 k0) i ((setPS st pc0 k0).steps + 1)).pc
        (Code.LAB base :: (Code.LAB (clauseLabel base c.xtor) :: (lcode0 ++ (body0 ++ post0)))) := hatM
    have X1 : X3 mc cw τ (Γa ++ [b]) cfg hs ι (setPS (setPS st pc0 k0) i ((setPS st pc0 k0).steps + 1)) :=
      X3R.setPS (X3R.setPS X _ _) _ _
    generalize setPS (setPS st pc0 k0) i ((setPS st pc0 k0).steps + 1) = s1 at hr1 hatM' X1
    obtain ⟨hr2, hat2⟩ := pass_label L (cfg := mc) hatM' hbase
    obtain ⟨hr3, hat3⟩ := pass_labelP L (cfg := mc) (s := setPS s1 (s1.pc + 1) s1.steps) hat2 hclne
    refine ⟨_, _, _, lcode0, _, body0, hr0.transP (hr1.transP (hr2.transP hr3)),
      X3R.setPS (X3R.setPS X1 _ _) _ _, hload0, hbody0, ?_⟩
    have : KAt ks (setPS (setPS s1 (s1.pc + 1) s1.steps) ((setPS s1 (s1.pc + 1) s1.steps).pc + 1)
        (setPS s1 (s1.pc + 1) s1.steps).steps).pc ((lcode0 ++ body0) ++ post0) := by
      rw [List.append_assoc]; exact hat3
    exact this.left
  · -- through the method table
    have hgt : clauses.length > 1 := by omega
    simp only [hle, if_false, run_bind_ok, run_pure_ok, xtorPositionM_run_ok] at hrun
    obtain ⟨pos', _, ⟨hx', rfl⟩, rfl, rfl⟩ := hrun
    rw [hx] at hx'; cases hx'
    simp only [hgt, if_true] at hatM
    generalize hT : codeTable rvBackend clauses base = table at hatM
    have htab : table[pos]? = some (.JAL ZERO (clauseLabel base c.xtor)) := by
      rw [← hT]; exact rv_codeTable_nth base clauses pos c hclause
    have htlen : table.length = clauses.length := by rw [← hT]; exact rv_codeTable_length base clauses
    have htins : ∀ y ∈ table, y.isInstr = true := by rw [← hT]; exact rv_codeTable_instr base clauses
    obtain ⟨pre, post, kl, kl', lcode, kb', body, hc3, hload, hbody⟩ :=
      rv_codeMethods_nth hooks natRen types ec' clauses base pos c _ _ _ hmrun hclause
    rw [hc3] at hatM
    obtain ⟨_, hgj, hicj, hatC⟩ := kat_table_entry hatM htins htab
    have hj : i + 1 + pos < ks.length := (List.getElem?_eq_some_iff.1 hgj).1
    have hbound : A + 4 * pos < 2 ^ 64 := by
      have := icount_take_le ks (i + 1 + pos)
      rw [hicj] at this
      omega
    have hatN : KAt ks st.pc (c0 ++ ([Code.ADDI TEMP (posTemp (2 * Γa.length + 1)) (rvBackend.jumpLength pos)] ++
        [Code.JALR ZERO TEMP 0])) := by
      have : rvBackend.addAndJump (posTemp (2 * Γa.length + TempNum.snd.toNat)) (rvBackend.jumpLength pos) =
          [Code.ADDI TEMP (posTemp (2 * Γa.length + 1)) (rvBackend.jumpLength pos)] ++ [Code.JALR ZERO TEMP 0] := rfl
      rw [← this]
      exact hat
    obtain ⟨pca, ka, hra, hata⟩ := pass_comments L hnd hheap hatN hc0c
    have Xa : X3 mc cw τ (Γa ++ [b]) cfg hs ι (setPS st pca ka) := X3R.setPS X _ _
    have hrta : (setPS st pca ka).readReg (posTemp (2 * Γa.length + 1)) = .ok (BitVec.ofNat 64 A) := by
      rw [readReg_setPS]; exact hrt
    replace hata : KAt ks (setPS st pca ka).pc
        ([Code.ADDI TEMP (posTemp (2 * Γa.length + 1)) (rvBackend.jumpLength pos)] ++ [Code.JALR ZERO TEMP 0]) := hata
    generalize setPS st pca ka = sa at hra Xa hata hrta
    have hwf := Xa.bnd.wf
    -- the address computation
    have hk : rvBackend.jumpLength pos = ((4 * pos : Nat) : Int) := by
      show jumpLength pos = _
      simp [jumpLength]
    have hsum : BitVec.ofNat 64 A + imm (rvBackend.jumpLength pos) = BitVec.ofNat 64 (A + 4 * pos) := by
      rw [hk, imm_natCast]; simp [BitVec.ofNat_add]
    have hex1 : exec mc pr.labelAddr 0 (Code.ADDI TEMP (posTemp (2 * Γa.length + 1)) (rvBackend.jumpLength pos)) sa =
        .ok (sa.writeReg TEMP (BitVec.ofNat 64 (A + 4 * pos)), .fall) := by
      rw [exec_ADDI mc pr.labelAddr 0 _ hrta, hsum]
    generalize hsb : sa.writeReg TEMP (BitVec.ofNat 64 (A + 4 * pos)) = sb at hex1
    have hKb : Keep sa sb (fun u => u = 1) := by
      rw [← hsb]
      have := keep_writeReg hwf TEMP (BitVec.ofNat 64 (A + 4 * pos))
      exact ⟨this.wf, this.mem, fun r h1 h2 hc => this.regs r h1 h2 (fun h => hc h)⟩
    have hrb : sb.readReg TEMP = .ok (BitVec.ofNat 64 (A + 4 * pos)) := by
      rw [← hsb]; exact readReg_writeReg_same hwf temp_usable _
    obtain ⟨pcb, kb, hrb', hatb⟩ := exec_block L hnd hheap hata
      (fun y hy => by simp at hy; subst hy; rfl) (by simp) (execFwd_single hex1)
    have Xb : X3 mc cw τ (Γa ++ [b]) cfg hs ι (setPS sb pcb kb) :=
      X3R.setPS (X3R.keep Xa hKb (fun t _ => by simp [posReg]) (by decide) (by decide)) _ _
    -- the jump through TEMP lands on the table entry
    have hjx : ∀ a', exec mc pr.labelAddr a' (Code.JALR ZERO TEMP 0) (setPS sb pcb kb) =
        .ok (setPS sb pcb kb, .addr (BitVec.ofNat 64 (A + 4 * pos))) := fun a' =>
      exec_JALR_zero mc pr.labelAddr a' (s := setPS sb pcb kb) (by rw [readReg_setPS]; exact hrb) (by omega)
    have hji : ks[i + 1 + pos].isInstr = true := by
      rw [List.getElem?_eq_getElem hj] at hgj
      injection hgj with hgj
      rw [hgj]; rfl
    have hrc := jump_reach L hheap (s := setPS sb pcb kb) hatb rfl hjx hj (Or.inl hji)
      (by rw [ofNat_toNat_lt hbound, hicj, ← hA]; omega) (hcl' _ hj)
    generalize hsc : setPS (setPS sb pcb kb) (i + 1 + pos) ((setPS sb pcb kb).steps + 1) = sc at hrc
    have Xc : X3 mc cw τ (Γa ++ [b]) cfg hs ι sc := by rw [← hsc]; exact X3R.setPS Xb _ _
    have hscpc : sc.pc = i + 1 + pos := by rw [← hsc]; rfl
    -- the table entry jumps to the method
    have hatE : KAt ks sc.pc (Code.JAL ZERO (clauseLabel base c.xtor) :: []) := by
      rw [hscpc]
      refine ⟨ks.take (i + 1 + pos), [Code.JAL ZERO (clauseLabel base c.xtor)], ks.drop (i + 1 + pos + 1),
        ?_, by simp [List.length_take]; omega, .keep rfl .nil⟩
      rw [List.append_assoc, List.singleton_append]
      have := List.getElem?_eq_getElem hj
      rw [hgj] at this
      injection this with this
      rw [this, ← List.drop_eq_getElem_cons hj, List.take_append_drop]
    obtain ⟨iC, hgC, hatB⟩ := hatC.lab_at
    have hrd := step_label L (cfg := mc) (s := sc) (s1 := sc) (l := clauseLabel base c.xtor) (i := iC) hatE rfl
      (fun a' => exec_JAL_zero mc _ a' _ _) (labIdx_of_nodup hnd hgC)
    have hatCl : KAt ks (setPS sc iC (sc.steps + 1)).pc
        (Code.LAB (clauseLabel base c.xtor) :: (lcode ++ (body ++ post))) := KAt.of_label hgC hatB
    obtain ⟨hre, hatF⟩ := pass_labelP L (cfg := mc) hatCl hclne
    refine ⟨_, kl, kl', lcode, kb', body,
      hra.transP (hrb'.transP (hrc.transP (hrd.transP hre))),
      X3R.setPS (X3R.setPS Xc _ _) _ _, hload, hbody, ?_⟩
    have : KAt ks (setPS (setPS sc iC (sc.steps + 1)) ((setPS sc iC (sc.steps + 1)).pc + 1)
        (setPS sc iC (sc.steps + 1)).steps).pc ((lcode ++ body) ++ post) := by
      rw [List.append_assoc]; exact hatF
    exact this.left

end Nav

section Invoke3

variable {mc : MonCfg} {cw : Nat → Word} {τ : Nat → Nat → Word} {pr : RV.Program} {ks : List Code}
  (L : Loaded pr ks) (hnd : (labs ks).Nodup) (hheap : mc.heap = false)
  (hfitX : codeBase + 4 * icount ks < 2 ^ 64)
  (hcl : ∀ t, t + 1 < ks.length → ks[t]? ≠ some (Code.LAB "cleanup"))

include L hnd hheap hfitX hcl in
/-- THREE-WAY SIMULATION OF `invoke`, with at least one transition of the machine: the jump through the word of the closure (directly, or through the
method table), the `load` of the closure environment -/
theorem invoke_x3P {P : Abs.Program} {hooks : Bool} {prog : AxCut.Prog} {Γa : Ctx} {b : Binding}
    {ρa : List Value} {Γc : Ctx} {ρc : List Value} {clauses : Clauses} {x tag : Ident} {ty : Ty}
    {args : Ctx} {cfg : Config} {c : Clause} {pos : Nat}
    (R : RelX P hooks prog ⟨Γa ++ [b], ρa ++ [.clo Γc ρc clauses], .invoke x tag ty args⟩ cfg)
    (hfits : Fits P)
    (hb : b.var.id = x.id) (hfresh : ∀ b' ∈ Γa, b'.var.id ≠ x.id)
    (hpos : Pos.tagPosition prog.types ty tag = .ok pos)
    (hclause : nthClause clauses pos = some c)
    (hlenc : ∀ d, lookupTypeDecl prog.types ty = some d → clauses.length = d.xtors.length)
    (hargs : Γa.map (·.chi) = c.ctx.map (·.chi))
    (hkinds : ρc.map Sim2.kindOf = Mock.kindsOf Γc)
    (hcap : 2 * (c.ctx.length + Γc.length) + 2 < Mock.T_TEMP)
    {hs : HState} {ι : Nat → Nat} {st : State} (X : X3 mc cw τ (Γa ++ [b]) cfg hs ι st)
    {k k' : Nat} {items : List Code}
    (hrun : (codeStatementR rvBackend hooks natRen prog.types (.invoke x tag ty args) (Γa ++ [b])).run k =
      .ok (items, k'))
    (hat : KAt ks st.pc items)
    (hcapX : c.ctx.length + Γc.length ≤ 14)
    (CVh : CVals P hooks prog.types (KMethodsAt ks hooks prog.types) cw τ cfg.heap cfg.temps (Γa ++ [b])
      (ρa ++ [.clo Γc ρc clauses])) :
    ∃ kk cfg' st' hs' envCtx', Ctx.keys envCtx' = Γc.keys ∧ stepsTo P kk cfg cfg' ∧ ReachP pr mc st st' ∧
      FrLe hs hs' 0 ∧ cfg'.out = cfg.out ∧ cfg'.next = cfg.next ∧
      RelX P hooks prog ⟨c.ctx ++ envCtx', ρa ++ ρc, c.body⟩ cfg' ∧
      (∃ r, cfg.temps.get (2 * Γa.length) = some r ∧
        X3 mc (loadCw cw Γa.length (τ r.toNat)) τ (c.ctx ++ envCtx') cfg' hs' ι st' ∧
        CVals P hooks prog.types (KMethodsAt ks hooks prog.types) (loadCw cw Γa.length (τ r.toNat)) τ cfg'.heap
          cfg'.temps (c.ctx ++ envCtx') (ρa ++ ρc)) ∧
      ∃ k1 k1' items', (codeStatementR rvBackend hooks natRen prog.types c.body (c.ctx ++ envCtx')).run k1 =
          .ok (items', k1') ∧ KAt ks st'.pc items' := by
  have hlen : ρa.length = Γa.length := by have := R.len; simpa using this
  have hlenA : Γa.length = c.ctx.length := by simpa using congrArg List.length hargs
  -- the closure position
  have hn1 : Γa.length < (Γa ++ [b]).length := by simp
  have hn2 : Γa.length < (ρa ++ [Value.clo Γc ρc clauses]).length := by simp [hlen]
  obtain ⟨_, hsome, hkind, _⟩ := R.vals Γa.length hn1 hn2
  have hcv := CVh Γa.length hn1 hn2
  have g1 : (Γa ++ [b])[Γa.length] = b := by simp
  have g2 : (ρa ++ [Value.clo Γc ρc clauses])[Γa.length] = .clo Γc ρc clauses := by
    rw [List.getElem_append_right (by omega)]; simp [hlen]
  simp only [g1, g2] at hcv hkind
  have hbchi : b.chi = .cns := hkind
  have hbne : b.chi ≠ .ext := by rw [hbchi]; decide
  have hbe : (b.chi == .ext) = false := (Sim2.chi_beq_ext_false _).mpr hbne
  simp only [hbe, Bool.false_eq_true, if_false] at hcv
  obtain ⟨r, a, envCtx', hr, hCB, hw, hkeys, hmeth, hK⟩ := hcv.clo_inv
  have hword : cfg.temps.get (2 * Γa.length + 1) = some (BitVec.ofNat 64 a) := by
    cases hg : cfg.temps.get (2 * Γa.length + 1) with
    | none => simp [hg] at hsome
    | some w => simp only [hg, Option.getD_some] at hw; rw [hw]
  have hkenv : Mock.kindsOf envCtx' = Mock.kindsOf Γc := kinds_of_keys hkeys
  have hlenv : envCtx'.length = Γc.length := Sim2.length_of_keys hkeys
  have hkinds' : ρc.map Sim2.kindOf = Mock.kindsOf envCtx' := by rw [hkenv]; exact hkinds
  have hcap' : 2 * (Γa.length + envCtx'.length) + 2 < Mock.T_TEMP := by rw [hlenA, hlenv]; exact hcap
  obtain ⟨d, hd, hx⟩ := tagPosition_ok hpos
  -- the abstract machine to the `load`
  obtain ⟨k4, cfg4, hst4, h4heap, h4next, h4out, h4temps, hloadM, hcode⟩ :=
    invoke_nav_abs R hfits hb hfresh hpos hclause hlenc hlenA hword hmeth
  -- the RV64 machine to the `load`
  have hrv : rv st (2 * Γa.length + 1) = some (cw Γa.length) := by
    have := X.words Γa.length hn1 _ hword
    simpa [g1, hbchi, trW] using this
  obtain ⟨st4, kl, kl', lcode, kb', body, hn4, X4, hload, hbody, hat4⟩ :=
    invoke_nav_rvP L hnd hheap hfitX hcl X hb hfresh hd hx hclause (hlenc d hd) hrv hK hrun hat
  -- the `load`
  have CV0 : CVals P hooks prog.types (KMethodsAt ks hooks prog.types) cw τ cfg.heap cfg.temps Γa ρa := by
    have := CVh.take Γa.length
    rw [List.take_left' rfl, List.take_left' hlen] at this
    exact this
  obtain ⟨cfg', st', hs', hst', hn5, hfr, hout', hnext', R', X', CV', hat5⟩ :=
    load_enter_x3 L hnd hheap (Γ'' := c.ctx) (Δ := envCtx') (s' := c.body) R hargs hbne hr hCB hkinds' hcap' hst4
      h4heap h4next h4out h4temps hloadM hcode X4 hload hat4 (by rw [hlenA, hlenv]; exact hcapX) CV0
  exact ⟨k4 + 1, cfg', st', hs', envCtx', hkeys, hst', hn4.trans_reach hn5, hfr, hout', hnext', R',
    ⟨r, hr, X', CV'⟩, kl', kb', body, hbody, hat5⟩

end Invoke3

end Scc.RV.Ref
