/-
  Scc.RV.Total — "total or capacity" for the RISC-V backend model `rvBackend` (Scc/RV/Backend.lean):
  the instance of `Scc.Backend.Total.TotalBackend` (Scc/Backend/TotalDefs.lean; property C12, link
  `codegen_total`).

  Proved (for all arguments, all values of the label counter):
  * `rv_total : TotalBackend rvBackend capRV (fun _ => True)` — the only error messages reachable from the
    methods of the RISC-V backend are "Out of registers" (utils.rs `assert!(register_number < REGISTER_NUM)`)
    and "not implemented in RISC-V backend" (code.rs `print_i64`).  In particular
      - `variable_temporary` on a variable of the context never panics "Variable … not found in context";
      - `store`/`load` never hit `free_fields - 1` at `free_fields = 0` ("attempt to subtract with overflow"):
        `store_values`/`load_values` are always called with `free_fields ≥` the number of bindings, because
        `rest_length` leaves at most `FIELDS_PER_BLOCK - block_position` of them (`length_drop_restLength`);
      - `variable_temporary number Γ id` is `X(2 * pos + number + RESERVED)` with `pos` the FIRST position of
        `id` in `Γ` (`getPosition_go_some`), hence injective in `(number, id)` and counter independent.
  * `compileRoutine_resOk` — the same for the line function `compileRoutine` given it for `compile`.
  * `rv_total_fits : TotalBackend rvBackend (· = "not implemented in RISC-V backend") fitsRV` with
    `fitsRV n := 2 * n + reserved ≤ registerNum`, i.e. `n ≤ 14` (`fitsRV_iff`, `fitsRV_of_le`: `2 * n ≤ 28`;
    tight: `not_fitsRV_15` and `vt_fails_15`, `store_fails_14`, `load_fails_15`; `fitsRV_iff_positions`:
    `fitsRV n` iff `positionRegister` succeeds at all positions `< n`): when the contexts fit, the only error
    left is the unimplemented print.  Moreover `rv_store_ok`, `rv_load_ok`, `rv_vt_ok`: within the capacity
    these methods SUCCEED from every counter value (`Tot (fun _ => False)`).
  Both instances come from ONE family of lemmas, parametrised by the set `okp` of positions at which
  `positionRegister` is known to be total-or-`cap` (`okp = everything` resp. `okp pos = pos ≤ 13`).
  Proof file, core imports only.
-/
import Scc.Backend.TotalDefs
import Scc.RV.Backend

set_option linter.unusedSimpArgs false
set_option linter.unusedVariables false

namespace Scc.RV.Total

open Scc.AxCut Scc.Backend Scc.Backend.Total Scc.RV

/-- the error messages of the RISC-V backend that are reachable from its methods -/
def capRV (e : String) : Prop := e = "Out of registers" ∨ e = "not implemented in RISC-V backend"

/-! ## utils.rs -/

theorem toNat_le_one (number : TempNum) : number.toNat ≤ 1 := by
  cases number <;> simp [TempNum.toNat]

theorem toNat_inj {n n' : TempNum} (h : n.toNat = n'.toNat) : n = n' := by
  cases n <;> cases n' <;> simp [TempNum.toNat] at h ⊢

/-- `get_position` returns the FIRST position of the variable -/
theorem getPosition_go_some (id : Nat) : ∀ (ctx : Ctx) (i p : Nat), getPosition.go id ctx i = some p →
    i ≤ p ∧ p - i < ctx.length ∧ (∃ b, ctx[p - i]? = some b ∧ b.var.id = id) ∧
      ∀ j b, j < p - i → ctx[j]? = some b → b.var.id ≠ id
  | [], i, p, h => by simp [getPosition.go] at h
  | b :: bs, i, p, h => by
    simp only [getPosition.go] at h
    split at h
    · rename_i hb
      injection h with h
      subst h
      refine ⟨Nat.le_refl _, by simp, ⟨b, by simp, by simpa using hb⟩, ?_⟩
      intro j b' hj; omega
    · rename_i hb
      obtain ⟨h1, h2, ⟨b', h3, h4⟩, h5⟩ := getPosition_go_some id bs (i + 1) p h
      have e : p - i = (p - (i + 1)) + 1 := by omega
      refine ⟨by omega, by simp only [List.length_cons]; omega, ⟨b', by rw [e]; simpa using h3, h4⟩, ?_⟩
      intro j b'' hj hb''
      cases j with
      | zero =>
        simp only [List.getElem?_cons_zero, Option.some.injEq] at hb''
        subst hb''
        simpa using hb
      | succ j =>
        simp only [List.getElem?_cons_succ] at hb''
        exact h5 j b'' (by omega) hb''

theorem getPosition_go_none (id : Nat) : ∀ (ctx : Ctx) (i : Nat), getPosition.go id ctx i = none →
    ∀ b ∈ ctx, b.var.id ≠ id
  | [], _, _ => by simp
  | b :: bs, i, h => by
    simp only [getPosition.go] at h
    split at h
    · cases h
    · rename_i hb
      intro b' hb'
      rcases List.mem_cons.mp hb' with rfl | hb'
      · simpa using hb
      · exact getPosition_go_none id bs (i + 1) h b' hb'

/-- `get_position` finds every variable of the context, below the length of the context -/
theorem getPosition_of_mem {Γ : Ctx} {id : Nat} (h : ∃ b ∈ Γ, b.var.id = id) :
    ∃ p, getPosition Γ id = some p ∧ p < Γ.length := by
  unfold getPosition
  cases hg : getPosition.go id Γ 0 with
  | none =>
    obtain ⟨b, hb, hid⟩ := h
    exact absurd hid (getPosition_go_none id Γ 0 hg b hb)
  | some p =>
    have := (getPosition_go_some id Γ 0 p hg).2.1
    exact ⟨p, rfl, by simpa using this⟩

/-- two variables with the same first position are equal -/
theorem getPosition_inj {Γ : Ctx} {id id' p : Nat} (h : getPosition Γ id = some p)
    (h' : getPosition Γ id' = some p) : id = id' := by
  unfold getPosition at h h'
  obtain ⟨b, hb, hid⟩ := (getPosition_go_some id Γ 0 p h).2.2.1
  obtain ⟨b', hb', hid'⟩ := (getPosition_go_some id' Γ 0 p h').2.2.1
  rw [hb] at hb'
  injection hb' with hb'
  subst hb'
  rw [← hid, ← hid']

theorem positionRegister_run_ok {n : TempNum} {pos c k : Nat} {t : Register}
    (h : (positionRegister n pos).run c = .ok (t, k)) : t = ⟨2 * pos + n.toNat + reserved⟩ := by
  unfold positionRegister at h
  dsimp only at h
  split at h
  · have h : (Except.ok ((⟨2 * pos + n.toNat + reserved⟩ : Register), c) : Except String _) = .ok (t, k) := h
    injection h with h
    injection h with h _
    exact h.symm
  · have h : (Except.error "Out of registers" : Except String (Register × Nat)) = .ok (t, k) := h
    cases h

/-- `positionRegister` fails only with "Out of registers" -/
theorem positionRegister_tot {cap : String → Prop} (hc : cap "Out of registers") (n : TempNum) (pos : Nat) :
    Tot cap (positionRegister n pos) := by
  unfold positionRegister
  dsimp only
  exact TotP.ite (fun _ => Tot.pure _) (fun _ => TotP.throw hc)

/-- below the capacity `positionRegister` does not fail at all -/
theorem positionRegister_tot_fits {cap : String → Prop} (n : TempNum) (pos : Nat) (h : pos ≤ 13) :
    Tot cap (positionRegister n pos) := by
  unfold positionRegister
  dsimp only
  have hn := toNat_le_one n
  refine TotP.ite (fun _ => Tot.pure _) (fun hh => ?_)
  simp only [reserved, registerNum] at hh
  omega

theorem variableTemporary_run_ok {n : TempNum} {Γ : Ctx} {id c k : Nat} {t : Register}
    (h : (variableTemporary n Γ id).run c = .ok (t, k)) :
    ∃ p, getPosition Γ id = some p ∧ t = ⟨2 * p + n.toNat + reserved⟩ := by
  unfold variableTemporary at h
  cases hg : getPosition Γ id with
  | none =>
    rw [hg] at h
    have h : (Except.error _ : Except String (Register × Nat)) = .ok (t, k) := h
    cases h
  | some p =>
    rw [hg] at h
    exact ⟨p, rfl, positionRegister_run_ok h⟩

theorem isVT_iff {n : TempNum} {Γ : Ctx} {id : Nat} {t : Register} (h : IsVT rvBackend n Γ id t) :
    ∃ p, getPosition Γ id = some p ∧ t = ⟨2 * p + n.toNat + reserved⟩ := by
  obtain ⟨c, k, h⟩ := h
  exact variableTemporary_run_ok h

theorem rv_vt_inj {Γ : Ctx} {n n' : TempNum} {id id' : Nat} {t : Register}
    (h : IsVT rvBackend n Γ id t) (h' : IsVT rvBackend n' Γ id' t) : n = n' ∧ id = id' := by
  obtain ⟨p, hp, ht⟩ := isVT_iff h
  obtain ⟨p', hp', ht'⟩ := isVT_iff h'
  rw [ht] at ht'
  injection ht' with ht'
  have h1 := toNat_le_one n
  have h2 := toNat_le_one n'
  have hpp : p = p' := by omega
  subst hpp
  exact ⟨toNat_inj (by omega), getPosition_inj hp hp'⟩

theorem rv_vt_det {Γ : Ctx} {n : TempNum} {id : Nat} {t t' : Register}
    (h : IsVT rvBackend n Γ id t) (h' : IsVT rvBackend n Γ id t') : t = t' := by
  obtain ⟨p, hp, ht⟩ := isVT_iff h
  obtain ⟨p', hp', ht'⟩ := isVT_iff h'
  rw [hp] at hp'
  injection hp' with hp'
  subst hp'
  rw [ht, ht']

theorem rv_tempEq_iff (a b : Register) : rvBackend.tempEq a b = true ↔ a = b := by
  show (a == b) = true ↔ a = b
  cases a with | mk x => cases b with | mk y =>
  simp [BEq.beq, instBEqRegister.beq]

/-! ## memory.rs, for any set `okp` of positions at which `positionRegister` is total-or-`cap` -/

section
variable {cap : String → Prop} {okp : Nat → Prop}

theorem tot_freshTemporary (hpr : ∀ n pos, okp pos → Tot cap (positionRegister n pos))
    (n : TempNum) (Γ : Ctx) (h : okp Γ.length) : Tot cap (freshTemporary n Γ) :=
  hpr n _ h

theorem tot_skipIfZero (condition : Register) (toSkip : List Code) : Tot cap (skipIfZero condition toSkip) := by
  unfold skipIfZero
  exact Tot.bind Tot.freshLabel fun _ => Tot.pure _

theorem tot_ifZeroThenElse (condition : Register) (t e : List Code) : Tot cap (ifZeroThenElse condition t e) := by
  unfold ifZeroThenElse
  exact Tot.bind Tot.freshLabel fun _ => Tot.bind Tot.freshLabel fun _ => Tot.pure _

theorem tot_eraseBlock (r : Register) : Tot cap (Scc.RV.eraseBlock r) := by
  unfold Scc.RV.eraseBlock
  exact Tot.bind (tot_ifZeroThenElse _ _ _) fun _ => tot_skipIfZero _ _

theorem tot_shareBlockN (r : Register) (n : Nat) : Tot cap (Scc.RV.shareBlockN r n) := by
  unfold Scc.RV.shareBlockN
  exact tot_skipIfZero _ _

theorem tot_eraseFields (a b : Register) : ∀ (k offset : Nat), Tot cap (eraseFields a b k offset)
  | 0, _ => Tot.pure _
  | k + 1, offset => by
    unfold eraseFields
    exact Tot.bind (tot_eraseBlock _) fun _ => Tot.bind (tot_eraseFields a b k (offset + 1)) fun _ => Tot.pure _

theorem tot_acquireBlock (a b : Register) : Tot cap (acquireBlock a b) := by
  unfold acquireBlock
  exact Tot.bind (tot_eraseFields _ _ _ _) fun _ => Tot.bind (tot_ifZeroThenElse _ _ _) fun _ =>
    Tot.bind (tot_ifZeroThenElse _ _ _) fun _ => Tot.pure _

theorem tot_pred1 {ff : Nat} (h : 0 < ff) : TotP cap (fun k => k + 1 = ff) (pred1 ff) := by
  cases ff with
  | zero => omega
  | succ k => exact TotP.pure rfl

variable (hpr : ∀ n pos, okp pos → Tot cap (positionRegister n pos))
include hpr

theorem tot_storeField (n : TempNum) (Γ : Ctx) (mb : Register) (off : Nat) (h : okp Γ.length) :
    Tot cap (storeField n Γ mb off) := by
  unfold storeField
  exact Tot.bind (tot_freshTemporary hpr n Γ h) fun _ => Tot.pure _

theorem tot_loadField (n : TempNum) (Γ : Ctx) (mb : Register) (off : Nat) (h : okp Γ.length) :
    Tot cap (loadField n Γ mb off) := by
  unfold loadField
  exact Tot.bind (tot_freshTemporary hpr n Γ h) fun _ => Tot.pure _

theorem tot_storeValue (b : Binding) (Γ : Ctx) (mb : Register) (off : Nat) (h : okp Γ.length) :
    Tot cap (storeValue b Γ mb off) := by
  unfold storeValue
  refine Tot.bind (tot_storeField hpr _ Γ mb off h) fun _ => ?_
  refine TotP.ite (fun _ => Tot.pure _) (fun _ => ?_)
  exact Tot.bind (tot_storeField hpr _ Γ mb off h) fun _ => Tot.pure _

theorem tot_loadValue (b : Binding) (Γ : Ctx) (mb : Register) (off : Nat) (mode : LoadMode)
    (h : okp Γ.length) : Tot cap (loadValue b Γ mb off mode) := by
  unfold loadValue
  refine Tot.bind (tot_loadField hpr _ Γ mb off h) fun _ => ?_
  refine TotP.ite (fun _ => ?_) (fun _ => Tot.pure _)
  refine Tot.bind (tot_loadField hpr _ Γ mb off h) fun _ => ?_
  refine TotP.ite (fun _ => ?_) (fun _ => Tot.pure _)
  refine Tot.bind (tot_freshTemporary hpr _ Γ h) fun _ => ?_
  exact Tot.bind (tot_shareBlockN _ _) fun _ => Tot.pure _

/-- the `while let` loop of `store_values` never underflows `free_fields` when it starts with at least as
    many free fields as bindings; the positions requested are those of the bindings -/
theorem tot_storeValuesLoop (rem : Ctx) (mb : Register) : ∀ (rev : List Binding) (ff : Nat),
    rev.length ≤ ff → (∀ pos, pos < rem.length + rev.length → okp pos) →
    Tot cap (storeValuesLoop rem mb rev ff)
  | [], ff, _, _ => Tot.pure _
  | b :: rest, ff, hlen, hok => by
    unfold storeValuesLoop
    simp only [List.length_cons] at hlen hok
    refine TotP.bind (tot_pred1 (by omega)) fun off hoff => ?_
    refine Tot.bind (tot_storeValue hpr _ _ _ _ (hok _ (by simp))) fun _ => ?_
    refine Tot.bind (tot_storeValuesLoop rem mb rest off (by omega) fun pos hp => hok pos (by omega)) fun _ => ?_
    exact Tot.pure _

theorem tot_storeValues (toStore rem : Ctx) (mb : Register) (ff : Nat) (hlen : toStore.length ≤ ff)
    (hok : ∀ pos, pos < rem.length + toStore.length → okp pos) : Tot cap (storeValues toStore rem mb ff) := by
  unfold storeValues
  refine Tot.bind (tot_storeValuesLoop hpr rem mb _ ff (by simpa using hlen) (by simpa using hok)) fun _ => ?_
  exact Tot.pure _

theorem tot_loadValuesLoop (ex : Ctx) (mb : Register) (mode : LoadMode) : ∀ (rev : List Binding) (ff : Nat),
    rev.length ≤ ff → (∀ pos, pos < ex.length + rev.length → okp pos) →
    Tot cap (loadValuesLoop ex mb mode rev ff)
  | [], ff, _, _ => Tot.pure _
  | b :: rest, ff, hlen, hok => by
    unfold loadValuesLoop
    simp only [List.length_cons] at hlen hok
    refine TotP.bind (tot_pred1 (by omega)) fun off hoff => ?_
    refine Tot.bind (tot_loadValue hpr _ _ _ _ _ (hok _ (by simp))) fun _ => ?_
    refine Tot.bind (tot_loadValuesLoop ex mb mode rest off (by omega) fun pos hp => hok pos (by omega)) fun _ => ?_
    exact Tot.pure _

theorem tot_loadValues (toLoad ex : Ctx) (mb : Register) (ff : Nat) (mode : LoadMode)
    (hlen : toLoad.length ≤ ff) (hok : ∀ pos, pos < ex.length + toLoad.length → okp pos) :
    Tot cap (loadValues toLoad ex mb ff mode) := by
  unfold loadValues
  refine Tot.bind (tot_loadValuesLoop hpr ex mb mode _ ff (by simpa using hlen) (by simpa using hok)) fun _ => ?_
  exact Tot.pure _

omit hpr in
/-- `rest_length` leaves at most `FIELDS_PER_BLOCK - block_position` bindings for the current block -/
theorem length_drop_restLength (l : Ctx) (bp : BlockPosition) :
    (l.drop (restLength l.length bp)).length ≤ fieldsPerBlock - bp.toNat := by
  simp only [List.length_drop]
  unfold restLength
  split <;> omega

omit hpr in
theorem restLength_lt' (l : Ctx) (bp : BlockPosition) (h : l ≠ []) : restLength l.length bp < l.length := by
  apply restLength_lt
  cases l with
  | nil => exact absurd rfl h
  | cons _ _ => simp

/-- `store_fields`: all positions requested are `≤ |remaining| + |to_store|` -/
theorem tot_storeFields : ∀ (k : Nat) (toStore rem : Ctx) (bp : BlockPosition), toStore.length ≤ k →
    (∀ pos, pos ≤ rem.length + toStore.length → okp pos) → Tot cap (storeFields toStore rem bp)
  | k, toStore, rem, bp, hk, hok => by
    rw [storeFields]
    split
    · rename_i hem
      have : toStore = [] := by simpa using hem
      subst this
      refine TotP.ite (fun _ => ?_) (fun _ => Tot.pure _)
      exact Tot.bind (tot_freshTemporary hpr _ _ (hok _ (by simp))) fun _ => Tot.pure _
    · rename_i hem
      have hne : toStore ≠ [] := by simpa using hem
      have hrl := restLength_lt' toStore bp hne
      have htake : (toStore.take (restLength toStore.length bp)).length = restLength toStore.length bp := by
        simp only [List.length_take]; omega
      have hdrop : (toStore.drop (restLength toStore.length bp)).length =
          toStore.length - restLength toStore.length bp := by simp
      have hSV : Tot cap (storeValues (toStore.drop (restLength toStore.length bp))
          (rem ++ toStore.take (restLength toStore.length bp)) HEAP (fieldsPerBlock - bp.toNat)) := by
        refine tot_storeValues hpr _ _ _ _ (length_drop_restLength toStore bp) ?_
        intro pos hp
        apply hok
        simp only [List.length_append, htake, hdrop] at hp
        omega
      have hpos : okp (rem ++ toStore.take (restLength toStore.length bp)).length := by
        apply hok
        simp only [List.length_append, htake]
        omega
      have hrec : Tot cap (storeFields (toStore.take (restLength toStore.length bp)) rem .other) := by
        cases k with
        | zero =>
          have : toStore.length = 0 := by omega
          exact absurd (List.length_eq_zero_iff.mp this) hne
        | succ k =>
          refine tot_storeFields k _ rem .other (by rw [htake]; omega) ?_
          intro pos hp
          apply hok
          rw [htake] at hp
          omega
      dsimp only
      split
      · exact Tot.bind (tot_storeField hpr _ _ _ _ (hok _ (by simp))) fun _ => Tot.bind (Tot.pure _) fun _ =>
          Tot.bind hSV fun _ => Tot.bind (tot_freshTemporary hpr _ _ hpos) fun _ =>
          Tot.bind (tot_freshTemporary hpr _ _ hpos) fun _ => Tot.bind (tot_acquireBlock _ _) fun _ =>
          Tot.bind hrec fun _ => Tot.pure _
      · exact Tot.bind (Tot.pure _) fun _ =>
          Tot.bind hSV fun _ => Tot.bind (tot_freshTemporary hpr _ _ hpos) fun _ =>
          Tot.bind (tot_freshTemporary hpr _ _ hpos) fun _ => Tot.bind (tot_acquireBlock _ _) fun _ =>
          Tot.bind hrec fun _ => Tot.pure _

/-- `load_fields`: all positions requested are `< |existing| + |to_load|` for the last block, `≤` for the
    others (the link to the next block is loaded into the first temporary of the next variable) -/
theorem tot_loadFields (mode : LoadMode) : ∀ (k : Nat) (toLoad ex : Ctx) (bp : BlockPosition),
    toLoad.length ≤ k → (∀ pos, pos < ex.length + toLoad.length + bp.toNat → okp pos) →
    Tot cap (loadFields toLoad ex bp mode)
  | k, toLoad, ex, bp, hk, hok => by
    rw [loadFields]
    split
    · exact Tot.pure _
    · rename_i hem
      have hne : toLoad ≠ [] := by simpa using hem
      have hrl := restLength_lt' toLoad bp hne
      have htake : (toLoad.take (restLength toLoad.length bp)).length = restLength toLoad.length bp := by
        simp only [List.length_take]; omega
      have hdrop : (toLoad.drop (restLength toLoad.length bp)).length =
          toLoad.length - restLength toLoad.length bp := by simp
      have hLV : ∀ mb, Tot cap (loadValues (toLoad.drop (restLength toLoad.length bp))
          (ex ++ toLoad.take (restLength toLoad.length bp)) mb (fieldsPerBlock - bp.toNat) mode) := by
        intro mb
        refine tot_loadValues hpr _ _ _ _ _ (length_drop_restLength toLoad bp) ?_
        intro pos hp
        apply hok
        simp only [List.length_append, htake, hdrop] at hp
        omega
      have hpos : okp (ex ++ toLoad.take (restLength toLoad.length bp)).length := by
        apply hok
        simp only [List.length_append, htake]
        omega
      have hrec : Tot cap (loadFields (toLoad.take (restLength toLoad.length bp)) ex .other mode) := by
        cases k with
        | zero =>
          have : toLoad.length = 0 := by omega
          exact absurd (List.length_eq_zero_iff.mp this) hne
        | succ k =>
          refine tot_loadFields mode k _ ex .other (by rw [htake]; omega) ?_
          intro pos hp
          apply hok
          rw [htake] at hp
          simp only [BlockPosition.toNat] at hp
          omega
      dsimp only
      refine Tot.bind hrec fun c1 => ?_
      refine Tot.bind (tot_freshTemporary hpr _ _ hpos) fun mb => ?_
      split
      · rename_i hbp
        have hbp : bp = .other := by simpa using hbp
        subst hbp
        exact Tot.bind (tot_loadField hpr _ _ _ _ (hok _ (by simp [BlockPosition.toNat]))) fun _ =>
          Tot.bind (Tot.pure _) fun _ => Tot.bind (hLV _) fun _ => Tot.pure _
      · exact Tot.bind (Tot.pure _) fun _ => Tot.bind (hLV _) fun _ => Tot.pure _

theorem tot_store (a b : Ctx) (hok : ∀ pos, pos ≤ a.length + b.length → okp pos) : Tot cap (store a b) := by
  unfold store
  exact tot_storeFields hpr a.length a b .last (Nat.le_refl _) fun pos hp => hok pos (by omega)

theorem tot_load (a b : Ctx) (hok : ∀ pos, pos < a.length + b.length → okp pos) : Tot cap (load a b) := by
  unfold load
  refine TotP.ite (fun _ => Tot.pure _) (fun hem => ?_)
  have hne : a ≠ [] := by simpa using hem
  have hpos : 0 < a.length := by
    cases a with
    | nil => exact absurd rfl hne
    | cons _ _ => simp
  have hlf : ∀ mode, Tot cap (loadFields a b .last mode) := fun mode =>
    tot_loadFields hpr mode a.length a b .last (Nat.le_refl _) fun pos hp => hok pos (by
      simp only [BlockPosition.toNat] at hp; omega)
  refine Tot.bind (tot_freshTemporary hpr _ _ (hok _ (by omega))) fun mb => ?_
  refine Tot.bind (hlf _) fun c1 => ?_
  refine Tot.bind (hlf _) fun c2 => ?_
  exact Tot.bind (tot_ifZeroThenElse _ _ _) fun c3 => Tot.pure _

end

/-! ## Part 1: the unconditional instance -/

theorem rv_vt_total {cap : String → Prop} {okp : Nat → Prop}
    (hpr : ∀ n pos, okp pos → Tot cap (positionRegister n pos)) (n : TempNum) (Γ : Ctx) (id : Nat)
    (hmem : ∃ b ∈ Γ, b.var.id = id) (hok : ∀ pos, pos < Γ.length → okp pos) :
    Tot cap (variableTemporary n Γ id) := by
  obtain ⟨p, hp, hlt⟩ := getPosition_of_mem hmem
  unfold variableTemporary
  rw [hp]
  exact hpr n p (hok p hlt)

/-- TOTAL OR CAPACITY, RISC-V: no error message other than "Out of registers" and
    "not implemented in RISC-V backend" is reachable from the methods of the backend. -/
theorem rv_total : TotalBackend rvBackend capRV (fun _ => True) where
  fits_mono := fun _ _ => trivial
  tempEq_iff := rv_tempEq_iff
  vt_total := fun n Γ id hmem _ =>
    rv_vt_total (okp := fun _ => True) (fun n pos _ => positionRegister_tot (Or.inl rfl) n pos) n Γ id hmem
      (fun _ _ => trivial)
  vt_inj := rv_vt_inj
  vt_det := rv_vt_det
  printI64 := fun _ _ _ _ => TotP.throw (Or.inr rfl)
  eraseBlock := fun t => tot_eraseBlock t
  shareBlockN := fun t n => tot_shareBlockN t n
  store := fun a b _ =>
    tot_store (okp := fun _ => True) (fun n pos _ => positionRegister_tot (Or.inl rfl) n pos) a b
      (fun _ _ => trivial)
  load := fun a b _ =>
    tot_load (okp := fun _ => True) (fun n pos _ => positionRegister_tot (Or.inl rfl) n pos) a b
      (fun _ _ => trivial)

/-- the line function `compileRoutine` fails exactly when `compile` does, with the same message -/
theorem compileRoutine_resOk (p : Prog) (hooks : Bool) (c : Nat) :
    ResOk capRV ((Scc.Backend.compile rvBackend hooks p).run c) → ResOk capRV (compileRoutine p hooks c) := by
  intro h
  unfold compileRoutine
  cases hr : (Scc.Backend.compile rvBackend hooks p).run c with
  | error e => rw [hr] at h; exact h
  | ok r => obtain ⟨⟨ins, n⟩, k⟩ := r; trivial

example : capRV "Out of registers" := Or.inl rfl

/-! ## Part 2: within the capacity the only error left is the unimplemented print -/

/-- a context of `n` variables fits into the registers: both temporaries of every position `< n` are below
    `REGISTER_NUM` (`2 * (n - 1) + 1 + RESERVED < REGISTER_NUM`) -/
def fitsRV (n : Nat) : Prop := 2 * n + reserved ≤ registerNum

instance (n : Nat) : Decidable (fitsRV n) := by unfold fitsRV; exact inferInstance

theorem fitsRV_iff (n : Nat) : fitsRV n ↔ n ≤ 14 := by
  unfold fitsRV reserved registerNum
  omega

/-- the numeric bound: `K = 28 = REGISTER_NUM - RESERVED` -/
theorem fitsRV_of_le {n : Nat} (h : 2 * n ≤ 28) : fitsRV n := (fitsRV_iff n).mpr (by omega)

theorem le_of_fitsRV {n : Nat} (h : fitsRV n) : 2 * n ≤ 28 := by have := (fitsRV_iff n).mp h; omega

/-- `fitsRV n` says exactly that `positionRegister` succeeds at every position below `n`, for both numbers -/
theorem fitsRV_iff_positions (n : Nat) :
    fitsRV n ↔ ∀ num pos, pos < n → Tot (fun _ => False) (positionRegister num pos) := by
  rw [fitsRV_iff]
  constructor
  · intro h num pos hp
    exact positionRegister_tot_fits num pos (by omega)
  · intro h
    cases n with
    | zero => omega
    | succ n =>
      have h1 := h .snd n (by omega) 0
      by_cases hlt : 2 * n + 1 + 4 < 32
      · omega
      · exfalso
        unfold positionRegister at h1
        dsimp only at h1
        rw [if_neg (show ¬ (2 * n + TempNum.snd.toNat + reserved < registerNum) from hlt)] at h1
        exact h1

example : fitsRV 5 := fitsRV_of_le (by decide)
example : fitsRV 14 := by decide

/-- tight: 15 variables do not fit … -/
theorem not_fitsRV_15 : ¬ fitsRV 15 := by decide

def ctxOf (n : Nat) : Ctx := (List.range n).map fun i => ⟨⟨"x", i⟩, .ext, .i64⟩

/-- … and `variable_temporary` of the 15th variable of a context is the "Out of registers" panic, -/
theorem vt_fails_15 (c : Nat) :
    (rvBackend.variableTemporary .fst (ctxOf 15) 14).run c = .error "Out of registers" := rfl

/-- `store` of nothing on top of 14 variables requests the temporary of position 14 = |a| + |b|
    (so `fits (|a| + |b| + 1)` cannot be replaced by `fits (|a| + |b|)`), -/
theorem store_fails_14 (c : Nat) : (rvBackend.store [] (ctxOf 14)).run c = .error "Out of registers" := by
  show (storeFields [] (ctxOf 14) .last).run c = _
  rw [storeFields]
  rfl

/-- while 14 variables are fine. -/
example (c : Nat) : (rvBackend.variableTemporary .snd (ctxOf 14) 13).run c = .ok (⟨31⟩, c) := rfl

/-- `load` of one variable on top of 14 requests the temporary of position 14 = |a| + |b| - 1. -/
theorem load_fails_15 (c : Nat) : (rvBackend.load (ctxOf 1) (ctxOf 14)).run c = .error "Out of registers" := rfl

/-- NO ERROR BUT THE UNIMPLEMENTED PRINT, RISC-V, when the contexts fit (at most 14 variables; for `store`,
    the stored and the kept variables and the one bound next). -/
theorem rv_total_fits :
    TotalBackend rvBackend (fun e => e = "not implemented in RISC-V backend") fitsRV where
  fits_mono := fun hmn h => (fitsRV_iff _).mpr (by have := (fitsRV_iff _).mp h; omega)
  tempEq_iff := rv_tempEq_iff
  vt_total := fun n Γ id hmem hfit =>
    rv_vt_total (okp := fun pos => pos ≤ 13) (fun n pos h => positionRegister_tot_fits n pos h) n Γ id hmem
      (fun pos hp => by have := (fitsRV_iff _).mp hfit; show pos ≤ 13; omega)
  vt_inj := rv_vt_inj
  vt_det := rv_vt_det
  printI64 := fun _ _ _ _ => TotP.throw rfl
  eraseBlock := fun t => tot_eraseBlock t
  shareBlockN := fun t n => tot_shareBlockN t n
  store := fun a b hfit =>
    tot_store (okp := fun pos => pos ≤ 13) (fun n pos h => positionRegister_tot_fits n pos h) a b
      (fun pos hp => by have := (fitsRV_iff _).mp hfit; show pos ≤ 13; omega)
  load := fun a b hfit =>
    tot_load (okp := fun pos => pos ≤ 13) (fun n pos h => positionRegister_tot_fits n pos h) a b
      (fun pos hp => by have := (fitsRV_iff _).mp hfit; show pos ≤ 13; omega)

/-- a generator that is total with NO permitted error succeeds from every counter value -/
theorem run_ok_of_tot {α : Type} {m : GenM α} (h : Tot (fun _ => False) m) (c : Nat) :
    ∃ r, m.run c = .ok r := by
  have h1 := h c
  cases hr : m.run c with
  | error e => rw [hr] at h1; exact absurd h1 (fun h => h)
  | ok r => exact ⟨r, rfl⟩

/-- within the capacity `store`, `load` and `variable_temporary` (of a variable of the context) succeed -/
theorem rv_store_ok (a b : Ctx) (hfit : fitsRV (a.length + b.length + 1)) (c : Nat) :
    ∃ r, (rvBackend.store a b).run c = .ok r :=
  run_ok_of_tot (tot_store (okp := fun pos => pos ≤ 13) (fun n pos h => positionRegister_tot_fits n pos h) a b
    (fun pos hp => by have := (fitsRV_iff _).mp hfit; show pos ≤ 13; omega)) c

theorem rv_load_ok (a b : Ctx) (hfit : fitsRV (a.length + b.length)) (c : Nat) :
    ∃ r, (rvBackend.load a b).run c = .ok r :=
  run_ok_of_tot (tot_load (okp := fun pos => pos ≤ 13) (fun n pos h => positionRegister_tot_fits n pos h) a b
    (fun pos hp => by have := (fitsRV_iff _).mp hfit; show pos ≤ 13; omega)) c

theorem rv_vt_ok (n : TempNum) (Γ : Ctx) (id : Nat) (hmem : ∃ b ∈ Γ, b.var.id = id) (hfit : fitsRV Γ.length)
    (c : Nat) : ∃ r, (rvBackend.variableTemporary n Γ id).run c = .ok r :=
  run_ok_of_tot (rv_vt_total (okp := fun pos => pos ≤ 13) (fun n pos h => positionRegister_tot_fits n pos h)
    n Γ id hmem (fun pos hp => by have := (fitsRV_iff _).mp hfit; show pos ≤ 13; omega)) c

/-- non-vacuity: a store of 7 variables (three blocks) keeping 6, and the load back -/
example : ∃ r, (rvBackend.store (ctxOf 7) (ctxOf 6)).run 0 = .ok r := rv_store_ok _ _ (by decide) 0
example : ∃ r, (rvBackend.load (ctxOf 7) (ctxOf 7)).run 0 = .ok r := rv_load_ok _ _ (by decide) 0

#print axioms rv_total
#print axioms rv_total_fits
#print axioms compileRoutine_resOk

end Scc.RV.Total
