/-
  Scc.RV.ConcCheck — the EXECUTABLE heap monitor of the RV64 SPEC machine (`heapMonitor`, Scc/RV/Machine.lean)
  succeeds wherever its predicate holds (the port of Scc/X86/ConcCheck.lean / `heapCheck_boundary`,
  Scc/X86/ConcKHook.lean): `HeapInvAt` (ConcInv.lean) for the full heap region, plus the monitor's window (the
  monitor checks the invariant for the region up to 8 blocks above the highest block ever stored to:
  `limit = heapBase + min heapBytes (⌈maxHeapWritten/64⌉·64 + 512)`).  From the COMPLETENESS of `invCheckFn`
  (Scc/Heap/ProofsCheckComplete.lean).

  TECHNICAL: `heapBase` is the literal 0x10000000 on this machine, and a proof whose kernel check has to reduce a
  `match` on `invCheckFn … heapBase …` runs into "(kernel) deep recursion" (`x - 268435456` with symbolic `x` is
  unfolded 2^28 times).  So everything is proved for `heapMonitorG base` (Scc/RV/ConcStep.lean), the monitor with the
  heap base as a PARAMETER, and transferred by `heapMonitor_eqG : heapMonitor = heapMonitorG heapBase` (`rfl`: the
  two bodies are syntactically equal, nothing is reduced).
-/
import Scc.RV.ConcC10
import Scc.X86.ConcCheck

set_option linter.unusedVariables false
set_option linter.unusedSimpArgs false

namespace Scc.RV.Conc

open Scc Scc.AxCut Scc.Backend Scc.Backend.Abs Scc.RV Scc.RV.Ref
open Scc.Heap (InvW invCheckFn_complete)
open Scc.X86.Conc (invW_window ctxKinds)

theorem heapMonitorG_ok {base : Nat} {mc : MonCfg} {X : State} {rs : List Nat} {roots : List Word} {h f : Word}
    {lin lazy live : List Nat} {F : Nat}
    (hr : rs.mapM (fun r => X.readReg ⟨r⟩) = .ok roots)
    (hh : X.readReg HEAP = .ok h) (hf : X.readReg FREE = .ok f)
    (I : InvW (memFn X) base (base + mc.heapBytes) h.toNat f.toNat
      (roots.map (·.toNat)) [] lin lazy live F)
    (hw : F + 64 ≤ base + ((X.maxHeapWritten + 63) / 64 * 64 + 8 * 64)) :
    heapMonitorG base mc X rs = .ok { X with blocksBelow := max X.blocksBelow ((F - base) / blockBytes) } := by
  have hFr := I.frontier_room
  have I' := invW_window (limit' := base + min mc.heapBytes ((X.maxHeapWritten + 63) / 64 * 64 + 8 * 64))
    I (by have := Nat.min_le_left mc.heapBytes ((X.maxHeapWritten + 63) / 64 * 64 + 8 * 64); omega)
    (by
      rcases Nat.le_total mc.heapBytes ((X.maxHeapWritten + 63) / 64 * 64 + 8 * 64) with h1 | h1
      · rw [Nat.min_eq_left h1]; exact hFr
      · rw [Nat.min_eq_right h1]; exact hw)
  obtain ⟨live', hc, _⟩ := invCheckFn_complete I'
  unfold heapMonitorG
  rw [hr]
  simp only [hh, hf]
  have hc' : Scc.Heap.invCheckFn (fun a => (X.mem.getD a 0).toNat) base
      (base + min mc.heapBytes ((X.maxHeapWritten + 63) / 64 * 64 + 8 * 64)) h.toNat f.toNat
      (roots.map (·.toNat)) [] = .ok (lin, lazy, live', F) := hc
  rw [hc']

/-- THE MONITOR'S CHECK SUCCEEDS where the invariant holds and the frontier lies inside the monitor's window; it
records the number of blocks below the frontier -/
theorem heapMonitor_ok {mc : MonCfg} {X : State} {rs : List Nat} {roots : List Word} {h f : Word}
    {lin lazy live : List Nat} {F : Nat}
    (hr : rs.mapM (fun r => X.readReg ⟨r⟩) = .ok roots)
    (hh : X.readReg HEAP = .ok h) (hf : X.readReg FREE = .ok f)
    (I : InvW (memFn X) heapBase (heapBase + mc.heapBytes) h.toNat f.toNat
      (roots.map (·.toNat)) [] lin lazy live F)
    (hw : F + 64 ≤ heapBase + ((X.maxHeapWritten + 63) / 64 * 64 + 8 * 64)) :
    heapMonitor mc X rs = .ok { X with blocksBelow := max X.blocksBelow ((F - heapBase) / blockBytes) } := by
  rw [heapMonitor_eqG]
  exact heapMonitorG_ok hr hh hf I hw

/-- THE EXECUTABLE HEAP MONITOR SUCCEEDS AT EVERY STATEMENT BOUNDARY (inside its window), all programs: run with
the roots of the kinds of the boundary's context, it returns the state with the monitor's counter raised to the
number of blocks below the frontier -/
theorem heapMonitor_boundary {p : AxCut.Prog} {hooks : Bool} {ks : List Code} {ops : List MockOp}
    {mc : MonCfg} {st : Pos.State} {X : State} (B : BoundaryOf p hooks ks ops mc st X) :
    ∃ below inUse, HeapShapeAt mc X below inUse ∧
      (64 * below + 64 ≤ (X.maxHeapWritten + 63) / 64 * 64 + 8 * 64 →
        heapMonitor mc X (hookRoots (ctxKinds st.ctx)) = .ok { X with blocksBelow := max X.blocksBelow below }) := by
  obtain ⟨roots, h, f, lin, lazy, live, F, hr, hh, hf, I⟩ := heapInvAt_of_boundary B
  refine ⟨(F - heapBase) / 64, live.length, ⟨h, f, _, lin, lazy, live, F, hh, hf, I, rfl, rfl⟩, ?_⟩
  intro hw
  apply heapMonitor_ok hr hh hf I
  have hFb := I.frontier_block
  unfold Scc.Heap.IsBlock at hFb
  omega

end Scc.RV.Conc
