/-
  Scc.RV.LoaderCheck — the DECIDABLE text-safety predicates of the RISC-V loader round trip
  (Props/C14LoaderRV.lean), their soundness w.r.t. the proof-side `CodeOK` / `HeadLabel` (LoaderText.lean), and
  the facts needed to establish them without evaluation:

  * `regOKB`, `labelOKB`, `labelDefOKB`, `commentOKB`, `nmR` (the strings of an item), `regsOKB` (its registers),
    `itemTextOK = regsOKB && nmR`, `headLabelB`, `routineTextOK`;
  * `codeOK_of_itemTextOK`, `headLabel_of_B`, `textLoads_of_routineTextOK` (soundness);
  * `commentOKB_plain` (a comment that does not start with `#ctx [`), `commentOKB_hook` (the hook comment
    `ctxHookComment ctx` of a context with white-space-free names).
  Everything is defined on character lists: `decide` evaluates it in the kernel.
  Proof file.
-/
import Scc.RV.LoaderText
import Scc.Backend.Generic

namespace Scc.RV.Loader

open Scc.RV Scc.RV.Ref Scc.Str

set_option linter.unusedSimpArgs false
set_option linter.unusedVariables false

/-! ## the decidable predicates -/

/-- the register is one of `X0 .. X31` -/
def regOKB (r : Register) : Bool := decide (r.n < registerNum)

/-- a referenced label: not empty, no white space -/
def labelOKB (l : String) : Bool := !l.toList.isEmpty && l.toList.all (fun c => !c.isWhitespace)

/-- a defined label: moreover it does not start with `//` (the loader would take the line for a comment) -/
def labelDefOKB (l : String) : Bool := labelOKB l && !(['/', '/'].isPrefixOf l.toList)

/-- a comment: no line break, and what the loader reads it as (the text without trailing white space) is not
    a malformed `#ctx [` hook -/
def commentOKB (m : String) : Bool :=
  m.toList.all (· != '\n') && (parseHookL (rtrimList m.toList) != some none)

/-- the strings of one item are text-safe -/
def nmR : Code → Bool
  | .JAL _ l | .LA _ l | .BEQ _ _ l | .BNE _ _ l | .BLT _ _ l | .BLE _ _ l | .BGT _ _ l | .BGE _ _ l => labelOKB l
  | .LAB l => labelDefOKB l
  | .COMMENT m => commentOKB m
  | _ => true

/-- the registers of one item exist -/
def regsOKB (c : Code) : Bool := (regsOf c).all regOKB

/-- **text-safety of one item** -/
def itemTextOK (c : Code) : Bool := regsOKB c && nmR c

/-- the routine is empty or starts with a label -/
def headLabelB : List Code → Bool
  | [] => true
  | .LAB _ :: _ => true
  | _ => false

/-- **text-safety of a routine** -/
def routineTextOK (instrs : List Code) : Bool := headLabelB instrs && instrs.all itemTextOK

/-! ## soundness -/

theorem labelOKB_sound {l : String} (h : labelOKB l = true) : LabelOK l := tok_of_check h

theorem labelDefOKB_sound {l : String} (h : labelDefOKB l = true) : LabelDefOK l := by
  simp only [labelDefOKB, Bool.and_eq_true, Bool.not_eq_true'] at h
  refine ⟨labelOKB_sound h.1, ?_⟩
  intro hp
  have := List.isPrefixOf_iff_prefix.2 hp
  rw [this] at h; exact absurd h.2 (by simp)

theorem commentOKB_sound {m : String} (h : commentOKB m = true) : NoNL m ∧ HookOK m := by
  simp only [commentOKB, Bool.and_eq_true, List.all_eq_true, bne_iff_ne, ne_eq] at h
  exact ⟨fun hm => h.1 _ hm rfl, h.2⟩

theorem regsOKB_sound {c : Code} (h : regsOKB c = true) : RegsOK c := by
  simp only [regsOKB, List.all_eq_true, regOKB, decide_eq_true_eq] at h
  exact h

theorem codeOK_of_itemTextOK {c : Code} (h : itemTextOK c = true) : CodeOK c := by
  simp only [itemTextOK, Bool.and_eq_true] at h
  refine ⟨regsOKB_sound h.1, ?_, ?_, ?_⟩
  · intro l hl
    cases c <;> simp only [Code.labelRef?, Option.some.injEq] at hl <;>
      first | (subst hl; exact labelOKB_sound h.2) | cases hl
  · intro l hl; subst hl; exact labelDefOKB_sound h.2
  · intro m hm; subst hm; exact commentOKB_sound h.2

theorem headLabel_of_B {instrs : List Code} (h : headLabelB instrs = true) : HeadLabel instrs := by
  cases instrs with
  | nil => exact Or.inl rfl
  | cons c cs =>
    cases c <;> first | exact Or.inr ⟨_, _, rfl⟩ | (simp [headLabelB] at h)

/-- the text of a text-safe routine loads -/
theorem textLoads_of_routineTextOK (instrs : List Code) (h : routineTextOK instrs = true) :
    ∃ lines, parseText (intoRoutine instrs) = .ok lines ∧
      (lines.map (·.2)).map stripC = ([Code.COMMENT "actual code"] ++ instrs ++ [Code.LAB "cleanup"]).map stripC ∧
      ∀ x ∈ lines, ¬ badHook x.2 := by
  simp only [routineTextOK, Bool.and_eq_true, List.all_eq_true] at h
  exact textLoads instrs (headLabel_of_B h.1) (fun c hc => codeOK_of_itemTextOK (h.2 c hc))

/-! ## completeness on the labels and comments the backend emits -/

theorem labelOKB_of_chars {l : String} (hne : l.toList ≠ []) (h : ∀ c ∈ l.toList, c.isWhitespace = false) :
    labelOKB l = true := by
  simp only [labelOKB, Bool.and_eq_true, Bool.not_eq_true', List.all_eq_true]
  refine ⟨?_, h⟩
  cases hl : l.toList with
  | nil => exact absurd hl hne
  | cons _ _ => rfl

theorem labelDefOKB_of_chars {l : String} (hne : l.toList ≠ [])
    (h : ∀ c ∈ l.toList, c.isWhitespace = false ∧ c ≠ '/') : labelDefOKB l = true := by
  simp only [labelDefOKB, Bool.and_eq_true, Bool.not_eq_true']
  refine ⟨labelOKB_of_chars hne (fun c hc => (h c hc).1), ?_⟩
  cases hp : ['/', '/'].isPrefixOf l.toList with
  | false => rfl
  | true =>
    obtain ⟨t, ht⟩ := List.isPrefixOf_iff_prefix.1 hp
    exact absurd rfl (h '/' (by rw [← ht]; simp)).2

theorem labelOKB_of_def {l : String} (h : labelDefOKB l = true) : labelOKB l = true := by
  simp only [labelDefOKB, Bool.and_eq_true] at h; exact h.1

/-- the text the loader reads is a prefix of the comment -/
theorem rtrimList_prefix (l : List Char) : rtrimList l <+: l := by
  obtain ⟨b, hb⟩ := dropEndWhileList_prefix (p := Char.isWhitespace) l
  exact ⟨b, hb.symm⟩

/-- a comment without line break that does not start with `#ctx [` -/
theorem commentOKB_plain {m : String} (h1 : '\n' ∉ m.toList) (h2 : ¬ "#ctx [".toList <+: m.toList) :
    commentOKB m = true := by
  simp only [commentOKB, Bool.and_eq_true, List.all_eq_true, bne_iff_ne, ne_eq]
  refine ⟨fun c hc e => h1 (e ▸ hc), ?_⟩
  have hp : "#ctx [".toList.isPrefixOf (rtrimList m.toList) = false := by
    cases hp : "#ctx [".toList.isPrefixOf (rtrimList m.toList) with
    | false => rfl
    | true => exact absurd ((List.isPrefixOf_iff_prefix.1 hp).trans (rtrimList_prefix _)) h2
  unfold parseHookL
  rw [hp]
  simp

/-! ### the hook comment -/

/-- one binding of a hook: `name:kind` -/
def hookWordC (b : Scc.AxCut.Binding) : List Char := b.var.print.toList ++ ':' :: (Scc.Backend.chiStr b.chi).toList

theorem ctxHookComment_toList (ctx : Scc.AxCut.Ctx) :
    (Scc.Backend.ctxHookComment ctx).toList
      = "#ctx [".toList ++ ([' '].intercalate (ctx.map hookWordC) ++ [']']) := by
  unfold Scc.Backend.ctxHookComment
  simp only [String.toList_append, String.toList_intercalate, List.map_map, List.append_assoc]
  congr 2
  · congr 1
    apply List.map_congr_left
    intro b _
    simp [hookWordC, String.toList_append]

/-- the kind of a binding as the hook reports it: `true` = a heap pointer (`prd`, `cns`), `false` = `ext` -/
def chiPtr : Scc.AxCut.Chi → Bool
  | .ext => false
  | _ => true

theorem chiStr_chars (chi : Scc.AxCut.Chi) :
    (∀ c ∈ (Scc.Backend.chiStr chi).toList, c.isWhitespace = false) ∧ ':' ∉ (Scc.Backend.chiStr chi).toList ∧
      kindL (Scc.Backend.chiStr chi).toList = some (chiPtr chi) := by
  cases chi <;> decide

theorem mapM_map_some {α β γ : Type} (f : β → Option γ) (g : α → β) (k : α → γ) (l : List α)
    (h : ∀ a ∈ l, f (g a) = some (k a)) : (l.map g).mapM f = some (l.map k) := by
  induction l with
  | nil => rfl
  | cons a as ih =>
    rw [List.map_cons, List.mapM_cons, h a (by simp), ih (fun x hx => h x (by simp [hx]))]
    rfl

theorem hookWord_kind (b : Scc.AxCut.Binding) : hookKindL (hookWordC b) = some (chiPtr b.chi) := by
  unfold hookKindL hookWordC
  rw [splitList_append_sep', splitList_of_not_mem _ _ (chiStr_chars b.chi).2.1]
  simp only [List.getLast?_append, List.getLast?_singleton, Option.some_or]
  exact (chiStr_chars b.chi).2.2

/-- the hook comment of a context whose variable names contain no white space: its character list, as the
    loader reads it, is the hook of the context's kinds -/
theorem parseHookL_hook (ctx : Scc.AxCut.Ctx) (h : ∀ b ∈ ctx, ∀ c ∈ b.var.print.toList, c.isWhitespace = false) :
    '\n' ∉ (Scc.Backend.ctxHookComment ctx).toList ∧
    rtrimList (Scc.Backend.ctxHookComment ctx).toList = (Scc.Backend.ctxHookComment ctx).toList ∧
    parseHookL (Scc.Backend.ctxHookComment ctx).toList = some (some (ctx.map fun b => chiPtr b.chi)) := by
  have htokw : ∀ b ∈ ctx, Tok (hookWordC b) := by
    intro b hb
    refine ⟨by simp [hookWordC], ?_⟩
    intro c hc
    simp only [hookWordC, List.mem_append, List.mem_cons] at hc
    rcases hc with hc | rfl | hc
    · exact h b hb c hc
    · decide
    · exact (chiStr_chars b.chi).1 c hc
  have hnlw : '\n' ∉ [' '].intercalate (ctx.map hookWordC) := by
    cases hctx : ctx with
    | nil => simp [intercalate_nil']
    | cons b bs =>
      have := tokLine_no_nl (hookWordC b) (bs.map hookWordC) (by
        intro x hx
        rw [← List.map_cons] at hx
        obtain ⟨b', hb', rfl⟩ := List.mem_map.1 hx
        exact htokw b' (by rw [hctx]; exact hb'))
      simpa [tokLine] using this
  rw [ctxHookComment_toList]
  refine ⟨?_, ?_, ?_⟩
  · intro hc
    simp only [List.mem_append, List.mem_singleton] at hc
    rcases hc with hc | hc | hc
    · revert hc; decide
    · exact hnlw hc
    · revert hc; decide
  · apply rtrimList_of_last
    intro c hc
    rw [← List.append_assoc, List.getLast?_append] at hc
    simp at hc
    subst hc; decide
  · unfold parseHookL
    have hp : "#ctx [".toList.isPrefixOf ("#ctx [".toList ++ ([' '].intercalate (ctx.map hookWordC) ++ [']'])) = true :=
      List.isPrefixOf_iff_prefix.2 ⟨_, rfl⟩
    have hl : (("#ctx [".toList ++ ([' '].intercalate (ctx.map hookWordC) ++ [']'])).getLast? == some ']') = true := by
      rw [← List.append_assoc, List.getLast?_append]; simp
    have hinner : (("#ctx [".toList ++ ([' '].intercalate (ctx.map hookWordC) ++ [']'])).drop 6).dropLast
        = [' '].intercalate (ctx.map hookWordC) := by
      have : ("#ctx [".toList ++ ([' '].intercalate (ctx.map hookWordC) ++ [']'])).drop 6
          = [' '].intercalate (ctx.map hookWordC) ++ [']'] := rfl
      rw [this, List.dropLast_concat]
    simp only [hp, hl, Bool.and_self, if_true, hinner]
    have hwords : wordsL ([' '].intercalate (ctx.map hookWordC)) = ctx.map hookWordC := by
      cases hctx : ctx with
      | nil => rfl
      | cons b bs =>
        rw [List.map_cons]
        apply wordsL_intercalate
        intro x hx
        rw [← List.map_cons] at hx
        obtain ⟨b', hb', rfl⟩ := List.mem_map.1 hx
        exact htokw b' (by rw [hctx]; exact hb')
    rw [hwords, mapM_map_some hookKindL hookWordC (fun b => chiPtr b.chi) ctx (fun b _ => hookWord_kind b)]

/-- … so it passes the comment check -/
theorem commentOKB_hook (ctx : Scc.AxCut.Ctx) (h : ∀ b ∈ ctx, ∀ c ∈ b.var.print.toList, c.isWhitespace = false) :
    commentOKB (Scc.Backend.ctxHookComment ctx) = true := by
  obtain ⟨h1, h2, h3⟩ := parseHookL_hook ctx h
  simp only [commentOKB, Bool.and_eq_true, List.all_eq_true, bne_iff_ne, ne_eq]
  refine ⟨fun c hc e => h1 (e ▸ hc), ?_⟩
  rw [h2, h3]
  simp

end Scc.RV.Loader
