/-
  Scc.RV.Instr — the instruction type of the RISC-V backend and its printed form, from
  /repo/lang/axcut2rv64/src/code.rs (`enum Code`, `impl Display for Code`) and config.rs
  (`impl Display for Register`).   Core imports only; executable.

  The printed form is NOT standard RISC-V assembly syntax: operands are separated by blanks (no
  commas), `ADDI` is printed with the mnemonic `ADD` (third operand a number), loads and stores are
  printed `LW rd offset base` / `SW rs offset base` (no parentheses), labels are preceded by an
  empty line, comments start with `// `.
-/
import Scc.RV.Consts

namespace Scc.RV

/-- config.rs: impl Display for Register -/
def Register.print (r : Register) : String := "X" ++ toString r.n

/-- code.rs: enum Code (immediates are `Int`, always within i64 in generated code) -/
inductive Code where
  | ADD (x y z : Register)
  | ADDI (x y : Register) (c : Int)
  | SUB (x y z : Register)
  | MUL (x y z : Register)
  | DIV (x y z : Register)
  | REM (x y z : Register)
  | JAL (x : Register) (l : String)
  | JALR (x y : Register) (c : Int)
  | LA (x : Register) (l : String)
  | LI (x : Register) (c : Int)
  | MV (x y : Register)
  | LW (x y : Register) (c : Int)
  | SW (x y : Register) (c : Int)
  | BEQ (x y : Register) (l : String)
  | BNE (x y : Register) (l : String)
  | BLT (x y : Register) (l : String)
  | BLE (x y : Register) (l : String)
  | BGT (x y : Register) (l : String)
  | BGE (x y : Register) (l : String)
  | LAB (l : String)
  | COMMENT (msg : String)
  deriving DecidableEq, Repr, BEq, Inhabited

/-- code.rs: impl Display for Code -/
def printCode : Code → String
  | .ADD x y z => s!"ADD {x.print} {y.print} {z.print}"
  | .ADDI x y c => s!"ADD {x.print} {y.print} {c}"
  | .SUB x y z => s!"SUB {x.print} {y.print} {z.print}"
  | .MUL x y z => s!"MUL {x.print} {y.print} {z.print}"
  | .DIV x y z => s!"DIV {x.print} {y.print} {z.print}"
  | .REM x y z => s!"REM {x.print} {y.print} {z.print}"
  | .JAL x l => s!"JAL {x.print} {l}"
  | .JALR x y c => s!"JALR {x.print} {y.print} {c}"
  | .LA x l => s!"LA {x.print} {l}"
  | .LI x c => s!"LI {x.print} {c}"
  | .MV x y => s!"MV {x.print} {y.print}"
  | .LW x y c => s!"LW {x.print} {c} {y.print}"
  | .SW x y c => s!"SW {x.print} {c} {y.print}"
  | .BEQ x y l => s!"BEQ {x.print} {y.print} {l}"
  | .BNE x y l => s!"BNE {x.print} {y.print} {l}"
  | .BLT x y l => s!"BLT {x.print} {y.print} {l}"
  | .BLE x y l => s!"BLE {x.print} {y.print} {l}"
  | .BGT x y l => s!"BGT {x.print} {y.print} {l}"
  | .BGE x y l => s!"BGE {x.print} {y.print} {l}"
  | .LAB l => s!"\n{l}:"
  | .COMMENT msg => s!"// {msg}"

/-- Does the code occupy space in the instruction stream (4 bytes)?  Labels and comments do not. -/
def Code.isInstr : Code → Bool
  | .LAB _ | .COMMENT _ => false
  | _ => true

end Scc.RV
