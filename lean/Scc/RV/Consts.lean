/-
  Scc.RV.Consts — the constants of the RISC-V (RV64) backend, from
  /repo/lang/axcut2rv64/src/config.rs (REGISTER_NUM, RESERVED, ZERO, TEMP, HEAP, FREE, RETURN1,
  RETURN2, FIELD_SLOT_SIZE, address, FIELDS_PER_BLOCK, REFERENCE_COUNT_OFFSET, NEXT_ELEMENT_OFFSET,
  field_offset, jump_length).   Core imports only; executable.

  NOTE (aliasing): RETURN1 = X10 and RETURN2 = X11 are NOT reserved registers: X10/X11 are the two
  temporaries of the variable at position 3 (2*3 + 0 + RESERVED, 2*3 + 1 + RESERVED).  The only use
  of RETURN1 in the generic code generator is `exit` (`MV X10 <snd temporary of the result>` directly
  followed by the jump to `cleanup`), so a live variable at position 3 is overwritten only when the
  program is over.  RETURN2 is never used.
-/
namespace Scc.RV

/-- config.rs: struct Register(pub usize); printed `X<n>` -/
structure Register where
  n : Nat
  deriving DecidableEq, Repr, BEq, Inhabited, Hashable

/-- config.rs: REGISTER_NUM -/
def registerNum : Nat := 32
/-- config.rs: RESERVED -/
def reserved : Nat := 4
/-- config.rs: ZERO -/
def ZERO : Register := ⟨0⟩
/-- config.rs: TEMP -/
def TEMP : Register := ⟨1⟩
/-- config.rs: HEAP -/
def HEAP : Register := ⟨2⟩
/-- config.rs: FREE -/
def FREE : Register := ⟨3⟩
/-- config.rs: RETURN1 -/
def RETURN1 : Register := ⟨10⟩
/-- config.rs: RETURN2 -/
def RETURN2 : Register := ⟨11⟩

/-- config.rs: FIELD_SLOT_SIZE -/
def fieldSlotSize : Nat := 8
/-- config.rs: fn address -/
def address (n : Int) : Int := (fieldSlotSize : Int) * n
/-- config.rs: FIELDS_PER_BLOCK -/
def fieldsPerBlock : Nat := 3
/-- config.rs: REFERENCE_COUNT_OFFSET -/
def referenceCountOffset : Int := address 0
/-- config.rs: NEXT_ELEMENT_OFFSET -/
def nextElementOffset : Int := address 0
/-- config.rs: fn field_offset; `number` = 0 for Fst, 1 for Snd -/
def fieldOffset (number : Nat) (field : Nat) : Int := address (2 + 2 * (field : Int) + (number : Int))
/-- config.rs: fn jump_length -/
def jumpLength (n : Nat) : Int := 4 * (n : Int)

/-- The maximal number of variables in an environment: positions 0..13 have both temporaries
below REGISTER_NUM (`2*13 + 1 + 4 = 31`). -/
def maxVariables : Nat := 14

end Scc.RV
