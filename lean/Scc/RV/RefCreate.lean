/-
  Scc.RV.RefCreate — Theorem B (RV64), CLOSURES: `create`.
  * `KMethodsAt ks hooks types m ec cl`: the machine word `m` is the address of a label of the kept codes `ks`
    at which the RV64 code of the methods `cl` for the closure environment `ec` stands (the counterpart of
    Theorem A's `MethodsAt`);
  * `create_x3`: the abstract `store` + `ll` (load label) against `Memory::store` + `LA`: the new variable holds
    the block with the closure environment and the ADDRESS OF THE METHOD TABLE, and `KMethodsAt` holds for it;
  * `create_cv`: the representation with machine words after `create` (twin of the `ValsOK2` part of
    `sim2_create`).
-/
import Scc.RV.RefCloStep
import Scc.RV.RefSwitch

set_option linter.unusedVariables false
set_option linter.unusedSimpArgs false

namespace Scc.RV.Ref

open Scc.AxCut Scc.AxCut.Pos Scc.Backend Scc.Backend.Abs Scc.Backend.Sim Scc.Backend.Sim2 Scc.RV
open Scc.Heap (HState InvS InvW)
open Scc.Heap.Refine (HRef FrLe Room)

/-- the RV64 code of the methods `cl` of a closure with environment `ec` stands at the label whose address is
the machine word `m` -/
def KMethodsAt (ks : List Code) (hooks : Bool) (types : List TypeDecl) (m : Word) (ec : Ctx) (cl : Clauses) :
    Prop :=
  ∃ (base : String) (i k k' : Nat) (code : List Code), base ≠ "cleanup" ∧ labIdx ks base = some i ∧
    m = BitVec.ofNat 64 (codeBase + 4 * icount (ks.take i)) ∧
    (codeMethodsR rvBackend hooks natRen types ec cl base).run k = .ok (code, k') ∧
    KAt ks i (Code.LAB base :: ((if cl.length > 1 then codeTable rvBackend cl base else []) ++ code))

/-- the machine words of the positions after `create`: position `N` gets `m` -/
def cwSet (cw : Nat → Word) (N : Nat) (m : Word) : Nat → Word := fun i => if i = N then m else cw i

theorem cwSet_same (cw : Nat → Word) (N : Nat) (m : Word) : cwSet cw N m N = m := by simp [cwSet]

theorem cwSet_other (cw : Nat → Word) {N i : Nat} (m : Word) (h : i ≠ N) : cwSet cw N m i = cw i := by
  simp [cwSet, h]

variable {mc : MonCfg} {cw : Nat → Word} {τ : Nat → Nat → Word}

/-- `X3R` looks at the machine words of the positions of the context only -/
theorem X3R.cwCongr {cw' : Nat → Word} {Γ : Ctx} {cfg : Config} {rs : List Nat} {hs : HState} {ι : Nat → Nat}
    {st : State} (X : X3R mc cw τ Γ cfg rs hs ι st) (h : ∀ i, i < Γ.length → cw' i = cw i) :
    X3R mc cw' τ Γ cfg rs hs ι st :=
  ⟨X.bnd, X.cap, fun i hi a ha => by rw [h i hi]; exact X.words i hi a ha, X.ptrs, X.hrel, X.href⟩

/-- a label inside code that lies in the kept codes: its index, and the code from the label on -/
theorem KAt.lab_from {ks : List Code} {pc : Nat} {a b : List Code} {l : String}
    (h : KAt ks pc (a ++ Code.LAB l :: b)) : ∃ j, ks[j]? = some (Code.LAB l) ∧ KAt ks j (Code.LAB l :: b) := by
  obtain ⟨ka, _, _, h2⟩ := h.split
  exact ⟨_, (h2.head rfl).1, h2⟩

/-! ## the representation after `create` -/

theorem create_cv {P : Abs.Program} {hooks : Bool} {Q : Word → Ctx → Clauses → Prop}
    {prog : AxCut.Prog} {Γ : Ctx} {ρ : List Value} {x : Ident} {ty : Ty} {Γc : Ctx} {clauses : Clauses}
    {next : Stmt} {f1 f2 : FV} {cfg : Config}
    (R : RelX P hooks prog ⟨Γ, ρ, .create x ty (some Γc) clauses next f1 f2⟩ cfg)
    (V : CVals P hooks prog.types Q cw τ cfg.heap cfg.temps Γ ρ)
    (hk : Γc.length ≤ Γ.length)
    (hkeys : Ctx.keys (Γ.drop (Γ.length - Γc.length)) = Γc.keys)
    (hfresh : ∀ b ∈ Γ.take (Γ.length - Γc.length), b.var.id ≠ x.id)
    (hcap : 2 * (Γ.length - Γc.length + 1) + 2 < Mock.T_TEMP)
    (hnext : cfg.next < 2 ^ 64) {m : Word}
    (hQ : Q m (Γ.drop (Γ.length - Γc.length)) clauses)
    {cfg' : Config} (hst : stepsTo P 2 cfg cfg') :
    CVals P hooks prog.types Q (cwSet cw (Γ.length - Γc.length) m)
      (letTau τ cfg.next cw (Γ.length - Γc.length) Γc.length) cfg'.heap cfg'.temps
      (Γ.take (Γ.length - Γc.length) ++ [⟨x, .cns, ty⟩])
      (ρ.take (Γ.length - Γc.length) ++ [.clo Γc (ρ.drop (Γ.length - Γc.length)) clauses]) := by
  obtain ⟨c, c', ops, hrun, hat⟩ := R.code
  simp only [codeStatementR, run_bind_ok, run_pure_ok, freshLabelStr_run_ok, splitOffLast_run_ok,
    mockSym_store, mockSym_variableTemporary, vt_run_ok] at hrun
  obtain ⟨sp, k1, ⟨_, rfl, rfl⟩, c1, k2, ⟨rfl, rfl⟩, num, k3, ⟨rfl, rfl⟩, t, k4, ⟨p, hp, rfl, rfl⟩,
    c3, k5, h3, c5, k6, h5, rfl, rfl⟩ := hrun
  have hn : (Γ.take (Γ.length - Γc.length)).length = Γ.length - Γc.length := by simp
  have hp' : p = Γ.length - Γc.length := by
    rw [ctxPosition_eq_posOf] at hp
    have := posOf_append_fresh (Γ.take (Γ.length - Γc.length)) ⟨x, .cns, ty⟩ hfresh
    simp only at hp
    rw [this, hn] at hp
    exact (Option.some.inj hp).symm
  subst hp'
  simp only [mockSym_comment, mockSym_loadLabel, mockSym_label, List.append_assoc, CodeAt_hook] at hat
  simp only [List.cons_append, List.nil_append, CodeAt, TempNum.toNat] at hat
  obtain ⟨hstore, hll, hat'⟩ := hat
  rw [CodeAt_append] at hat'
  obtain ⟨hat3, hat45⟩ := hat'
  simp only [CodeAt] at hat45
  obtain ⟨hlab, hat45'⟩ := hat45
  obtain ⟨cfg1, r, hstep1, hpc1, hout1, hr, hblock, hlow, hext, hheap, hnx⟩ :=
    store_sim2 Γc.length R.vals R.len R.cap R.heap hk hnext hstore
  rw [hn] at hstore
  obtain ⟨V1, B1⟩ := store_cv (Q := Q) (cw := cw) (τ := τ) Γc.length V R.vals R.len R.cap R.heap hk hnext hstore
    hstep1
  have hll' : P.code[cfg1.pc]? = some (.ll (2 * (Γ.length - Γc.length) + 1)
      (mangleTy ty ++ "_" ++ natRen (c + 1))) := by
    rw [hpc1]; exact hll
  have ht : 2 * (Γ.length - Γc.length) + 1 ≠ Mock.T_TEMP := by omega
  have hstep2 := step_ll P cfg1 _ _ _ hll' ht hlab
  obtain ⟨cA, hsA, cB, hsB, hcB⟩ := hst
  rw [hstep1] at hsA
  injection hsA with hsA
  subst hsA
  rw [hstep2] at hsB
  injection hsB with hsB
  have hcB' : cB = cfg' := hcB
  subst hcB'
  subst hsB
  have hlenT : (ρ.take (Γ.length - Γc.length)).length = (Γ.take (Γ.length - Γc.length)).length := by
    simp [R.len]
  have hσ : ∀ t, t < 2 * (Γ.take (Γ.length - Γc.length)).length →
      ((clobberTemp cfg1.temps).set (2 * (Γ.length - Γc.length) + 1)
        (BitVec.ofNat 64 (cfg.pc + 1 + 1 + instrCount c3))).get t = cfg.temps.get t := by
    intro t ht'
    rw [hn] at ht'
    have h1 : t ≠ 2 * (Γ.length - Γc.length) + 1 := by omega
    have h2 : t ≠ Mock.T_TEMP := by omega
    rw [get_set_other _ _ h1, get_clobberTemp _ h2, hlow t ht']
  have hget2n : ((clobberTemp cfg1.temps).set (2 * (Γ.length - Γc.length) + 1)
      (BitVec.ofNat 64 (cfg.pc + 1 + 1 + instrCount c3))).get (2 * (Γ.length - Γc.length)) = some r := by
    have h1 : 2 * (Γ.length - Γc.length) ≠ 2 * (Γ.length - Γc.length) + 1 := by omega
    have h2 : 2 * (Γ.length - Γc.length) ≠ Mock.T_TEMP := by omega
    rw [get_set_other _ _ h1, get_clobberTemp _ h2, hr]
  have hcns : (Chi.cns == Chi.ext) = false := by decide
  have hmeth : MethodsAt P hooks prog.types (cfg.pc + 1 + 1 + instrCount c3)
      (Γ.drop (Γ.length - Γc.length)) clauses := by
    refine ⟨mangleTy ty ++ "_" ++ natRen (c + 1), k5, k6, c5, ?_, ?_⟩
    · simpa using h5
    · simp only [CodeAt]
      exact ⟨hlab, hat45'⟩
  have V1' : CVals P hooks prog.types Q (cwSet cw (Γ.length - Γc.length) m)
      (letTau τ cfg.next cw (Γ.length - Γc.length) Γc.length) cfg1.heap cfg.temps
      (Γ.take (Γ.length - Γc.length)) (ρ.take (Γ.length - Γc.length)) :=
    V1.congr (fun _ _ => rfl) (fun i hi => cwSet_other cw m (by rw [hn] at hi; omega))
  show CVals P hooks prog.types Q _ _ cfg1.heap _ _ _
  apply CVals.snoc V1' hlenT hσ _ _ (BitVec.ofNat 64 (cfg.pc + 1 + 1 + instrCount c3))
  · rw [hn]; exact get_set_same _ _ _
  · rw [hn, hget2n, cwSet_same]
    simp only [hcns, Bool.false_eq_true, if_false]
    exact .clo Γc (Γ.drop (Γ.length - Γc.length)) _ clauses r _ m hkeys (B1 r hr) hmeth hQ

/-! ## `create` on the three machines -/

section Create3

variable {pr : RV.Program} {ks : List Code} (L : Loaded pr ks) (hnd : (labs ks).Nodup)
  (hheap : mc.heap = false)

include L hnd hheap in
/-- THREE-WAY SIMULATION OF `create` -/
theorem create_x3 {P : Abs.Program} {hooks : Bool} {prog : AxCut.Prog} {Γ : Ctx} {ρ : List Value} {x : Ident}
    {ty : Ty} {Γc : Ctx} {clauses : Clauses} {next : Stmt} {f1 f2 : FV} {cfg : Config}
    (R : RelX P hooks prog ⟨Γ, ρ, .create x ty (some Γc) clauses next f1 f2⟩ cfg)
    (hk : Γc.length ≤ Γ.length)
    (hkeys : Ctx.keys (Γ.drop (Γ.length - Γc.length)) = Γc.keys)
    (hfresh : ∀ b ∈ Γ.take (Γ.length - Γc.length), b.var.id ≠ x.id)
    (hcap : 2 * (Γ.length - Γc.length + 1) + 2 < Mock.T_TEMP)
    (hnext : cfg.next < 2 ^ 64)
    {hs : HState} {ι : Nat → Nat} {st : State} (X : X3 mc cw τ Γ cfg hs ι st)
    {k k' : Nat} {items : List Code}
    (hrun : (codeStatementR rvBackend hooks natRen prog.types (.create x ty (some Γc) clauses next f1 f2) Γ).run k =
      .ok (items, k'))
    (hat : KAt ks st.pc items)
    (hroom : Room hs (64 * Γc.length + 64)) :
    ∃ cfg' st' hs' ι' m, stepsTo P 2 cfg cfg' ∧ Reach pr mc st st' ∧ FrLe hs hs' (64 * Γc.length) ∧
      cfg'.out = cfg.out ∧ cfg'.next ≤ cfg.next + 1 ∧
      RelX P hooks prog ⟨Γ.take (Γ.length - Γc.length) ++ [⟨x, .cns, ty⟩],
        ρ.take (Γ.length - Γc.length) ++ [.clo Γc (ρ.drop (Γ.length - Γc.length)) clauses], next⟩ cfg' ∧
      KMethodsAt ks hooks prog.types m (Γ.drop (Γ.length - Γc.length)) clauses ∧
      X3 mc (cwSet cw (Γ.length - Γc.length) m) (letTau τ cfg.next cw (Γ.length - Γc.length) Γc.length)
        (Γ.take (Γ.length - Γc.length) ++ [⟨x, .cns, ty⟩]) cfg' hs' ι' st' ∧
      ∃ k1 k1' items', (codeStatementR rvBackend hooks natRen prog.types next
          (Γ.take (Γ.length - Γc.length) ++ [⟨x, .cns, ty⟩])).run k1 = .ok (items', k1') ∧
        KAt ks st'.pc items' := by
  obtain ⟨cfg', hst, hout', hnx', R'⟩ := sim2_create R hk hkeys hfresh hcap hnext
  -- the mock code at the program counter (as in `sim2_create`)
  obtain ⟨c, c', ops, hrunM, hatM⟩ := R.code
  simp only [codeStatementR, run_bind_ok, run_pure_ok, freshLabelStr_run_ok, splitOffLast_run_ok,
    mockSym_store, mockSym_variableTemporary, vt_run_ok] at hrunM
  obtain ⟨sp, k1, ⟨_, rfl, rfl⟩, c1, k2, ⟨rfl, rfl⟩, num, k3, ⟨rfl, rfl⟩, t, k4, ⟨p, hp, rfl, rfl⟩,
    c3, k5, h3, c5, k6, h5, rfl, rfl⟩ := hrunM
  have hn : (Γ.take (Γ.length - Γc.length)).length = Γ.length - Γc.length := by simp
  have hp' : p = Γ.length - Γc.length := by
    rw [ctxPosition_eq_posOf] at hp
    have := posOf_append_fresh (Γ.take (Γ.length - Γc.length)) ⟨x, .cns, ty⟩ hfresh
    simp only at hp
    rw [this, hn] at hp
    exact (Option.some.inj hp).symm
  subst hp'
  simp only [mockSym_comment, mockSym_loadLabel, mockSym_label, List.append_assoc, CodeAt_hook] at hatM
  simp only [List.cons_append, List.nil_append, CodeAt, TempNum.toNat] at hatM
  obtain ⟨hstore, hll, hatM'⟩ := hatM
  rw [CodeAt_append] at hatM'
  obtain ⟨hat3, hat45⟩ := hatM'
  simp only [CodeAt] at hat45
  obtain ⟨hlab, _⟩ := hat45
  rw [hn] at hstore
  -- the RV code at the program counter
  simp only [codeStatementR, run_bind_ok, run_pure_ok, freshLabelStr_run_ok, splitOffLast_run_ok] at hrun
  obtain ⟨spX, _, ⟨_, rfl, rfl⟩, cst, kst, hstX, numX, _, ⟨rfl, rfl⟩, tX, _, htX, c3X, k5X, h3X, c5X, k6X, h5X,
    rfl, rfl⟩ := hrun
  obtain ⟨pX, hpX, hltX, rfl, rfl⟩ := (rv_vt_run_ok _ _ _ _ _ _).1 htX
  have hpX' : pX = Γ.length - Γc.length := by
    have := posOf_append_fresh (Γ.take (Γ.length - Γc.length)) ⟨x, .cns, ty⟩ hfresh
    simp only at hpX
    rw [this, hn] at hpX
    exact (Option.some.inj hpX).symm
  subst hpX'
  simp only [TempNum.toNat] at hltX
  generalize hN : Γ.length - Γc.length = N at *
  -- the two abstract steps, explicitly
  obtain ⟨cA, hsA, cB, hsB, hcB⟩ := hst
  have hcB' : cB = cfg' := hcB
  subst hcB'
  -- layout of the RV items
  simp only [] at hstX h3X h5X hat
  generalize hlbl : mangleTy ty ++ "_" ++ natRen (kst + 1) = lbl at *
  have hxc : rvBackend.comment "#load tag" = Code.COMMENT "#load tag" := rfl
  have hxl : rvBackend.loadLabel (posTemp (2 * N + TempNum.snd.toNat)) lbl =
      [Code.LA (posTemp (2 * N + 1)) lbl] := rfl
  have hxlab : rvBackend.label lbl = Code.LAB lbl := rfl
  rw [hxc, hxl, hxlab] at hat
  generalize hc0 : hookCode rvBackend hooks Γ ++ [rvBackend.comment
      ("create " ++ x.print ++ ": " ++ tyPrint ty ++ " = (" ++ varsPrint Γc ++ ")\\{ ... \\};")] = c0 at hat
  have hc0c : ∀ y ∈ c0, ∃ m', y = Code.COMMENT m' := by rw [← hc0]; exact hook_comments hooks Γ _
  generalize htab : (if clauses.length > 1 then codeTable rvBackend clauses lbl else []) = table at hat
  have hatA : KAt ks st.pc (c0 ++ (cst ++ ([Code.COMMENT "#load tag"] ++
      ([Code.LA (posTemp (2 * N + 1)) lbl] ++ (c3X ++ Code.LAB lbl :: (table ++ c5X)))))) := by
    simpa [List.append_assoc] using hat
  -- the comments
  obtain ⟨pc0, k0, hk0, hat1⟩ := pass_comments L hnd hheap hatA hc0c
  have X0 : X3 mc cw τ Γ cfg hs ι (setPS st pc0 k0) := X3R.setPS X _ _
  replace hat1 : KAt ks (setPS st pc0 k0).pc (cst ++ ([Code.COMMENT "#load tag"] ++
      ([Code.LA (posTemp (2 * N + 1)) lbl] ++ (c3X ++ Code.LAB lbl :: (table ++ c5X))))) := hat1
  generalize setPS st pc0 k0 = st0 at hk0 X0 hat1
  have hlenTake : (Γ.take N).length = N := hn
  -- the store on both machines
  obtain ⟨st1, hs', ι', hn1, hat2, X1, hptr1, hpcA, _, hfrM⟩ :=
    store_mid_x3 L hnd hheap (x := x) (chi := .cns) (ty := ty) R hN hk (by decide) (by omega) hcap hnext hstore hsA
      X0 hstX (more := [Code.COMMENT "#load tag"] ++
        ([Code.LA (posTemp (2 * N + 1)) lbl] ++ (c3X ++ Code.LAB lbl :: (table ++ c5X)))) hat1 hroom
  -- the label of the method table
  have hatLab : KAt ks st1.pc (([Code.COMMENT "#load tag"] ++ ([Code.LA (posTemp (2 * N + 1)) lbl] ++ c3X)) ++
      Code.LAB lbl :: (table ++ c5X)) := by
    simpa [List.append_assoc] using hat2
  obtain ⟨j, hj, hatj⟩ := hatLab.lab_from
  have hidx := labIdx_of_nodup hnd hj
  have hla := L.labelAddr hidx
  have hB := step_ll P cA (2 * N + 1) _ _ (by rw [hpcA]; exact hll) (by unfold Mock.T_TEMP; omega) hlab
  rw [hsB] at hB
  injection hB with hB
  obtain ⟨pc2, k2, hk2, hat3'⟩ := pass_comments L hnd hheap hat2 (fun y hy => by simp at hy; exact ⟨_, hy⟩)
  generalize hm : BitVec.ofNat 64 (codeBase + 4 * icount (ks.take j)) = m
  have X1' : X3R mc (cwSet cw N m) (letTau τ cfg.next cw N Γc.length) (Γ.take N) cA
      (roots (Γ.take N) cA.temps ++ rootOf cA.temps ⟨x, .cns, ty⟩ N) hs' ι' (setPS st1 pc2 k2) :=
    (X3R.setPS X1 _ _).cwCongr (fun i hi => cwSet_other cw m (by rw [hlenTake] at hi; omega))
  have hex : exec mc pr.labelAddr 0 (Code.LA (posTemp (2 * N + 1)) lbl) (setPS st1 pc2 k2) =
      .ok ((setPS st1 pc2 k2).writeReg (posTemp (2 * N + 1)) m, .fall) := by
    simp only [exec, hla, hm]
  obtain ⟨pc3, k3', hk3, hat4⟩ := exec_block L hnd hheap (s := setPS st1 pc2 k2) hat3'
    (fun c hc => by simp at hc; subst hc; rfl) (by simp) (execFwd_single hex)
  have K := keep_writeReg X1'.bnd.wf (posTemp (2 * N + 1)) m
  have X2 : X3R mc (cwSet cw N m) (letTau τ cfg.next cw N Γc.length) (Γ.take N ++ [⟨x, .cns, ty⟩]) cB
      (roots (Γ.take N) cA.temps ++ rootOf cA.temps ⟨x, .cns, ty⟩ N) hs' ι'
      ((setPS st1 pc2 k2).writeReg (posTemp (2 * N + 1)) m) := by
    refine X3R.snoc X1' (by rw [hlenTake]; omega) (by rw [hlenTake]; exact K)
      (a := BitVec.ofNat 64 (cfg.pc + 1 + 1 + instrCount c3))
      (by
        rw [hlenTake, rv_writeReg_same X1'.bnd.wf (by omega), cwSet_same]
        rfl) (by rw [hB, hlenTake])
      (by rw [hB]) (by rw [hB]) ?_
    intro _ r hr
    rw [hlenTake] at hr ⊢
    rw [rv_setPS]
    exact hptr1 r hr
  have hrootsB : roots (Γ.take N ++ [⟨x, .cns, ty⟩]) cB.temps =
      roots (Γ.take N) cA.temps ++ rootOf cA.temps ⟨x, .cns, ty⟩ N := by
    have hgetB : ∀ t, t ≠ 2 * N + 1 → t < 28 → cB.temps.get t = cA.temps.get t := by
      intro t hne ht
      rw [hB]
      simp only
      rw [get_set_other _ _ hne, get_clobberTemp _ (by unfold Mock.T_TEMP; omega)]
    rw [roots_snoc, hlenTake]
    congr 1
    · exact roots_congr _ _ _ (fun i hi => hgetB (2 * i) (by omega) (by rw [hlenTake] at hi; omega))
    · unfold rootOf
      rw [hgetB (2 * N) (by omega) (by omega)]
  refine ⟨cB, _, hs', ι', m, ⟨cA, hsA, cB, hsB, rfl⟩, hk0.trans (hn1.trans (hk2.trans hk3)), hfrM,
    hout', hnx', R', ?_, ?_, kst + 1, k5X, c3X, h3X, hat4.left⟩
  · exact ⟨lbl, j, k5X, k6X, c5X, by rw [← hlbl]; exact tableLabel_ne_cleanup _ _, hidx, hm.symm, h5X,
      by rw [htab]; exact hatj⟩
  · show X3R mc _ _ _ cB (roots _ cB.temps) hs' ι' _
    rw [hrootsB]
    exact X3R.setPS X2 _ _

end Create3

end Scc.RV.Ref
