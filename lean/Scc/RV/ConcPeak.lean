/-
  Scc.RV.ConcPeak — the three-way simulation of the two ALLOCATING statements on RV64 (`let`: Scc/RV/RefLet.lean,
  `create`: Scc/RV/RefCreate.lean; both through `Memory::store`, Scc/RV/RefStore.lean) with the C10 bookkeeping
  that `FrLe` does not carry: the allocation frontier moves ONLY when both free lists are exhausted afterwards
  (`FrPk`, Scc/X86/ConcPeak.lean — block level, backend-independent; from `storeObj_spec` through `frPk_store`:
  fresh memory is taken only when both lists are empty).
  `store_x3P`, `store_mid_x3P`, `let_x3P`, `create_x3P` are `store_x3`, `store_mid_x3`, `let_x3`, `create_x3`
  with this one more conjunct (same proofs, as on x86-64: Scc/X86/ConcPeak.lean, ConcKPeak.lean).
-/
import Scc.RV.RefRun
import Scc.X86.ConcPeak

set_option linter.unusedVariables false
set_option linter.unusedSimpArgs false

namespace Scc.RV.Ref

open Scc.AxCut Scc.AxCut.Pos Scc.Backend Scc.Backend.Abs Scc.Backend.Sim Scc.Backend.Sim2 Scc.RV
open Scc.Heap (HState InvS InvW)
open Scc.Heap.Refine (HRef imgW fieldImg kindB href_store FrLe Room frLe_store FrPk frPk_store)

variable {mc : MonCfg} {cw : Nat → Word} {τ : Nat → Nat → Word}

/-- THE ABSTRACT `store` (at least one field) AGAINST `Memory::store`, with `FrPk` -/
theorem store_x3P {la : String → Option Nat}
    {Γ : Ctx} {cfg cfg1 : Config} {hs : HState} {ι : Nat → Nat} {st : State}
    (X : X3 mc cw τ Γ cfg hs ι st) {n : Nat} (hn : n < Γ.length) {fields : List Abs.Field}
    (hf : readFields cfg.temps (Mock.kindsOf (Γ.drop n)) n = some fields)
    (hch : Obj.children ⟨0, fields⟩ = roots.go cfg.temps (Γ.drop n) n)
    (hnext : cfg.next < 2 ^ 64)
    (hlow : ∀ t, t < 2 * n → cfg1.temps.get t = cfg.temps.get t)
    (hheap : cfg1.heap = (cfg.next, ⟨0, fields⟩) :: cfg.heap) (hnx : cfg1.next = cfg.next + 1)
    (hroom : Room hs (64 * (Γ.length - n) + 64)) (kk : Nat) :
    ∃ code kk', (store (Γ.drop n) (Γ.take n)).run kk = .ok (code, kk') ∧ MemFree code ∧
      Code.LAB "cleanup" ∉ code ∧
      ∃ st' hs' p, execFwd mc la code st = .ok (st', .fall) ∧
        X3R mc cw (storeTau τ cfg.next cw n) (Γ.take n) cfg1 (roots (Γ.take n) cfg.temps ++ [cfg.next]) hs'
          (fun i => if i = cfg.next then p else ι i) st' ∧
        rv st' (2 * n) = some (BitVec.ofNat 64 p) ∧ p ≠ 0 ∧ p < 2 ^ 64 ∧
        FrLe hs hs' (64 * (Γ.length - n)) ∧ FrPk hs hs' := by
  have hcap := X.cap
  have hlim := X.limit_le
  have hnle : n ≤ Γ.length := Nat.le_of_lt hn
  have hlenT : (Γ.take n).length = n := by simp [Nat.min_eq_left hnle]
  have hlenD : (Γ.drop n).length = Γ.length - n := by simp
  have hsplit := roots_split cfg.temps Γ n hnle
  -- what the machine holds
  have hE : EnvFields (mview st) n (Γ.drop n) ((trFieldsP cw n fields).map (fieldImg ι)) := by
    apply envFields_of_read (Γ.drop n) n fields hf
    · intro j hj a ha
      have hj' : n + j < Γ.length := by rw [hlenD] at hj; omega
      have := X.words (n + j) hj' a ha
      simpa using this
    · intro j hj hc r hr
      have hj' : n + j < Γ.length := by rw [hlenD] at hj; omega
      have hc' : Γ[n + j].chi ≠ .ext := by simpa using hc
      exact ⟨X.ptrs (n + j) hj' hc' r hr, fun h0 => (X3R.ref_lt X hj' hc' hr h0).1⟩
  have hflen : fields.length = Γ.length - n := by
    have := hE.length_eq
    simp only [List.length_map, trFieldsP_length] at this
    rw [← this, hlenD]
  -- the block-level store
  have hcho : Obj.children ⟨0, trFieldsP cw n fields⟩ = roots.go cfg.temps (Γ.drop n) n := by
    rw [← hch]; exact trFieldsP_children cw 0 n fields
  have R0 : HRef (trHeap τ cfg.heap) (roots (Γ.take n) cfg.temps ++ Obj.children ⟨0, trFieldsP cw n fields⟩) cfg.next
      hs ι := by
    rw [hcho, ← hsplit]; exact X.href
  obtain ⟨hs', p, hop, R1⟩ := href_store (o := ⟨0, trFieldsP cw n fields⟩) rfl
    (by
      intro e
      have : fields.length = 0 := by
        have := congrArg List.length e
        simpa [trFieldsP_length] using this
      omega)
    hnext R0
    (by
      obtain ⟨lin, lazy, live, Fr, I⟩ := X.href.conc
      refine ⟨lin, lazy, live, Fr, ?_, ?_⟩
      · rw [hcho, ← hsplit]; exact I
      · simp only [trFieldsP_length]; rw [hflen]; have := hroom _ _ _ _ _ I; omega)
  have hfr : FrLe hs hs' (64 * (Γ.length - n)) := by
    have := frLe_store (o := ⟨0, trFieldsP cw n fields⟩) R0
      (by simp only [trFieldsP_length]; rw [hflen]; exact hroom) hop
    simpa [hflen, trFieldsP_length] using this
  have hpk : FrPk hs hs' := frPk_store (o := ⟨0, trFieldsP cw n fields⟩) R0
    (by simp only [trFieldsP_length]; rw [hflen]; exact hroom) hop
  -- the machine
  obtain ⟨code, kk', hrun, hle, hlabs, st', hx, B', HR', ⟨w, hw, ew⟩, FT⟩ :=
    store_contract (la := la) X.bnd X.hrel (toStore := Γ.drop n) (rem := Γ.take n)
      (by rw [hlenT, hlenD]; omega) (by rw [hlenT]; omega) (by rw [hlenT]; exact hE) hop kk
  rw [hlenT] at hw FT
  have hnew : (cfg.next, (⟨0, trFieldsP cw n fields⟩ : Obj)) ∈
      (cfg.next, (⟨0, trFieldsP cw n fields⟩ : Obj)) :: trHeap τ cfg.heap :=
    List.mem_cons_self
  have hp0 : p ≠ 0 := by
    have := (R1.shape _ hnew).pos
    simpa using this
  have hplt : p < 2 ^ 64 := by
    have h1 := href_head_lt R1 hnew
    simp only [if_true] at h1
    have h2 := HR'.limit
    have h3 := B'.top
    omega
  have hkeep : ∀ t, t < 2 * n → rv st' t = rv st t := fun t ht => storedReg_keep FT ht (by omega)
  refine ⟨code, kk', hrun, store_free _ _ kk code _ hrun, noCleanup_of_labsIn hlabs, st', hs', p, hx, ?_,
    by rw [rv_of_readReg hw, ofNat_of_toNat ew], hp0, hplt, hfr, hpk⟩
  refine ⟨B', by rw [hlenT]; omega, ?_, ?_, HR', ?_⟩
  · intro i hi a ha
    rw [hlenT] at hi
    rw [hlow _ (by omega)] at ha
    rw [hkeep _ (by omega)]
    have := X.words i (by omega) a ha
    simpa using this
  · intro i hi hc r hr
    rw [hlenT] at hi
    have hi' : i < Γ.length := by omega
    have hc' : Γ[i].chi ≠ .ext := by simpa using hc
    rw [hlow _ (by omega)] at hr
    rw [hkeep _ (by omega), X.ptrs i hi' hc' r hr]
    congr 1
    unfold imgWord
    by_cases h0 : r = 0
    · simp [h0]
    · rw [if_neg h0, if_neg h0]
      have := (X3R.ref_lt X hi' hc' hr h0).2
      show _ = BitVec.ofNat 64 (if r.toNat = cfg.next then p else ι r.toNat)
      rw [if_neg (by omega)]
  · rw [hheap, hnx, trHeap_cons]
    have e1 : trO (storeTau τ cfg.next cw n) cfg.next ⟨0, fields⟩ = ⟨0, trFieldsP cw n fields⟩ := by
      have e0 : storeTau τ cfg.next cw n cfg.next = fun j => cw (n + j) := by
        funext j; simp [storeTau]
      simp only [trO, e0]
      rw [trFieldsP_shift cw n 0 fields, Nat.add_zero]
    have e2 : trHeap (storeTau τ cfg.next cw n) cfg.heap = trHeap τ cfg.heap := by
      apply trHeap_congr
      intro e he j _
      have hlt : e.1 < cfg.next := by
        have := X.href.abs.ids (e.1, trO τ e.1 e.2) (List.mem_map.2 ⟨e, he, rfl⟩)
        exact this.2.1
      simp only [storeTau]
      rw [if_neg (by omega)]
    rw [e1, e2]
    exact R1


section Let3P

variable {pr : RV.Program} {ks : List Code} (L : Loaded pr ks) (hnd : (labs ks).Nodup)
  (hheap : mc.heap = false)

include L hnd hheap in
/-- the `store` of `let` / `create` on both machines: the last `nargs` variables go to a fresh object (or
nothing is allocated), the new variable `b` at position `N` references it -/
theorem store_mid_x3P {P : Abs.Program} {hooks : Bool} {prog : AxCut.Prog} {Γ : Ctx} {ρ : List Value} {s : Stmt}
    {cfg cA : Config} {N nargs : Nat} {x : Ident} {chi : Chi} {ty : Ty}
    (R : RelX P hooks prog ⟨Γ, ρ, s⟩ cfg) (hN : Γ.length - nargs = N) (hk : nargs ≤ Γ.length)
    (hchi : chi ≠ .ext) (hN14 : N < 14)
    (hcap : 2 * (N + 1) + 2 < Mock.T_TEMP) (hnext : cfg.next < 2 ^ 64)
    (hstore : P.code[cfg.pc]? = some (.store (Mock.kindsOf (Γ.drop N)) N))
    (hsA : Abs.step P cfg = .next cA)
    {hs : HState} {ι : Nat → Nat} {st0 : State} (X0 : X3 mc cw τ Γ cfg hs ι st0)
    {k kst : Nat} {cst more : List Code}
    (hstX : (store (Γ.drop N) (Γ.take N)).run k = .ok (cst, kst))
    (hat1 : KAt ks st0.pc (cst ++ more))
    (hroom : Room hs (64 * nargs + 64)) :
    ∃ st1 hs' ι', Reach pr mc st0 st1 ∧ KAt ks st1.pc more ∧
      X3R mc cw (letTau τ cfg.next cw N nargs) (Γ.take N) cA
        (roots (Γ.take N) cA.temps ++ rootOf cA.temps ⟨x, chi, ty⟩ N) hs' ι' st1 ∧
      (∀ r, cA.temps.get (2 * N) = some r → rv st1 (2 * N) = some (imgWord ι' r)) ∧
      cA.pc = cfg.pc + 1 ∧ cA.out = cfg.out ∧ FrLe hs hs' (64 * nargs) ∧ FrPk hs hs' := by
  have hNle : N ≤ Γ.length := by omega
  have hlenρ : (ρ.drop N).length = (Γ.drop N).length := by
    have := R.len; simp only at this; simp [this]
  obtain ⟨fields, hf, hrep, hch⟩ := readFields_ok2 (Γ.drop N) (ρ.drop N) N (R.vals.slice N) hlenρ
  have hlenTake : (Γ.take N).length = N := by simp; omega
  cases hΔ : Γ.drop N with
  | nil =>
    have hNΓ : N = Γ.length := by
      have := congrArg List.length hΔ
      simp at this; omega
    rw [hΔ] at hstore hstX
    have hT : Γ.take N = Γ := by rw [hNΓ]; exact List.take_length
    rw [hT] at hstX ⊢
    have hτ0 : letTau τ cfg.next cw N nargs = τ := by
      unfold letTau; rw [if_pos (by omega)]
    rw [hτ0]
    have hA := step_store_empty P cfg N hstore
    rw [hsA] at hA
    injection hA with hA
    have hlow : ∀ t, t < 2 * Γ.length → cA.temps.get t = cfg.temps.get t := by
      intro t ht
      rw [hA]
      simp only
      rw [get_set_other _ _ (by omega), get_clobberTemp _ (by unfold Mock.T_TEMP; have := X0.cap; omega)]
    obtain ⟨code, kk', hrunS, hfree, hncl, st1, hx, X1, hv1⟩ :=
      store_x3_empty (la := pr.labelAddr) X0 (by omega) hlow (by rw [hA]) (by rw [hA]) k
    have hcode : code = cst ∧ kk' = kst := by
      have : (store [] Γ).run k = .ok (cst, kst) := hstX
      rw [hrunS] at this
      injection this with this
      injection this with e1 e2
      exact ⟨e1, e2⟩
    obtain ⟨rfl, rfl⟩ := hcode
    obtain ⟨pc1, steps1, hn1, hat2⟩ := exec_block L hnd hheap hat1 hfree hncl hx
    have h2n : cA.temps.get (2 * N) = some 0 := by
      rw [hA]; simp only; exact get_set_same _ _ _
    refine ⟨setPS st1 pc1 steps1, hs, ι, hn1, hat2, ?_, ?_, by rw [hA], by rw [hA], by
      have : nargs = 0 := by omega
      rw [this]; exact Scc.Heap.Refine.FrLe.refl hs, FrPk.refl hs⟩
    · have hr : rootOf cA.temps ⟨x, chi, ty⟩ N = [] := by
        unfold rootOf; rw [h2n]; simp
      rw [hr, List.append_nil, roots_congr _ _ _ (fun i hi => hlow (2 * i) (by omega))]
      exact X3R.setPS X1 _ _
    · intro r hr
      rw [h2n] at hr
      injection hr with hr
      subst hr
      rw [rv_setPS, hNΓ, hv1]
      simp [imgWord]
  | cons b Δ =>
    rw [hΔ] at hstore
    have hfc : readFields cfg.temps (b.chi :: Mock.kindsOf Δ) N = some fields := by
      rw [hΔ] at hf; exact hf
    have hA := step_store_cons P cfg b.chi (Mock.kindsOf Δ) N fields hstore hfc
    rw [hsA] at hA
    injection hA with hA
    have hNlt : N < Γ.length := by
      have := congrArg List.length hΔ
      simp at this; omega
    have hτ0 : letTau τ cfg.next cw N nargs = storeTau τ cfg.next cw N := by
      unfold letTau; rw [if_neg (by omega)]
    rw [hτ0]
    have hlow : ∀ t, t < 2 * N → cA.temps.get t = cfg.temps.get t := by
      intro t ht
      rw [hA]
      simp only
      rw [get_set_other _ _ (by omega), get_clearPositions, if_neg (by omega),
        get_clobberTemp _ (by unfold Mock.T_TEMP; have := X0.cap; omega)]
    obtain ⟨code, kk', hrunS, hfree, hncl, st1, hs', p, hx, X1, hv1, hp0, hplt, hfrS, hpkS⟩ :=
      store_x3P (la := pr.labelAddr) X0 hNlt hf (hch 0) hnext hlow (by rw [hA]) (by rw [hA])
        (by rw [show Γ.length - N = nargs by omega]; exact hroom) k
    have hcode : code = cst ∧ kk' = kst := by
      have : (store (Γ.drop N) (Γ.take N)).run k = .ok (cst, kst) := hstX
      rw [hrunS] at this
      injection this with this
      injection this with e1 e2
      exact ⟨e1, e2⟩
    obtain ⟨rfl, rfl⟩ := hcode
    obtain ⟨pc1, steps1, hn1, hat2⟩ := exec_block L hnd hheap hat1 hfree hncl hx
    have h2n : cA.temps.get (2 * N) = some (BitVec.ofNat 64 cfg.next) := by
      rw [hA]; simp only; exact get_set_same _ _ _
    have hr0 : BitVec.ofNat 64 cfg.next ≠ 0 := ofNat_ne_zero X0.href.abs.pos hnext
    have hrt : (BitVec.ofNat 64 cfg.next).toNat = cfg.next := ofNat_toNat_lt hnext
    refine ⟨setPS st1 pc1 steps1, hs', (fun i => if i = cfg.next then p else ι i), hn1, hat2, ?_, ?_,
      by rw [hA], by rw [hA], by rw [show Γ.length - N = nargs by omega] at hfrS; exact hfrS, hpkS⟩
    · have hr : rootOf cA.temps ⟨x, chi, ty⟩ N = [cfg.next] := by
        unfold rootOf
        rw [h2n]
        have h1 : (chi != Chi.ext) = true := (Scc.Backend.Sim2.chi_bne_ext _).mpr hchi
        have h2 : (BitVec.ofNat 64 cfg.next != 0) = true := by rw [bne_iff_ne]; exact hr0
        simp only [h1, h2, if_true, hrt]
      rw [hr, roots_congr _ _ _ (fun i hi => hlow (2 * i) (by rw [hlenTake] at hi; omega))]
      exact X3R.setPS X1 _ _
    · intro r hr
      rw [h2n] at hr
      injection hr with hr
      subst hr
      rw [rv_setPS, hv1]
      unfold imgWord
      rw [if_neg hr0, hrt]
      simp

include L hnd hheap in
/-- THREE-WAY SIMULATION OF `let` -/
theorem let_x3P {P : Abs.Program} {hooks : Bool} {prog : AxCut.Prog} {Γ : Ctx} {ρ : List Value} {x : Ident}
    {ty : Ty} {tag : Ident} {args : Ctx} {next : Stmt} {fv : FV} {cfg : Config} {pos : Nat}
    (R : RelX P hooks prog ⟨Γ, ρ, .letS x ty tag args next fv⟩ cfg)
    (hk : args.length ≤ Γ.length)
    (hfresh : ∀ b ∈ Γ.take (Γ.length - args.length), b.var.id ≠ x.id)
    (hpos : Pos.tagPosition prog.types ty tag = .ok pos)
    (hcap : 2 * (Γ.length - args.length + 1) + 2 < Mock.T_TEMP)
    (hnext : cfg.next < 2 ^ 64)
    {hs : HState} {ι : Nat → Nat} {st : State} (X : X3 mc cw τ Γ cfg hs ι st)
    {k k' : Nat} {items : List Code}
    (hrun : (codeStatementR rvBackend hooks natRen prog.types (.letS x ty tag args next fv) Γ).run k =
      .ok (items, k'))
    (hat : KAt ks st.pc items)
    (hroom : Room hs (64 * args.length + 64)) :
    ∃ cfg' st' hs' ι', stepsTo P 2 cfg cfg' ∧ Reach pr mc st st' ∧ FrLe hs hs' (64 * args.length) ∧ FrPk hs hs' ∧
      cfg'.out = cfg.out ∧ cfg'.next ≤ cfg.next + 1 ∧
      RelX P hooks prog ⟨Γ.take (Γ.length - args.length) ++ [⟨x, .prd, ty⟩],
        ρ.take (Γ.length - args.length) ++ [.obj pos (ρ.drop (Γ.length - args.length))], next⟩ cfg' ∧
      X3 mc cw (letTau τ cfg.next cw (Γ.length - args.length) args.length)
        (Γ.take (Γ.length - args.length) ++ [⟨x, .prd, ty⟩]) cfg' hs' ι' st' ∧
      ∃ k1 k1' items', (codeStatementR rvBackend hooks natRen prog.types next
          (Γ.take (Γ.length - args.length) ++ [⟨x, .prd, ty⟩])).run k1 = .ok (items', k1') ∧
        KAt ks st'.pc items' := by
  obtain ⟨cfg', hst, hout', hnx', R'⟩ := sim2_let R hk hfresh hpos hcap hnext
  -- the mock code at the program counter (as in `sim2_let`)
  obtain ⟨c, c', ops, hrunM, hatM⟩ := R.code
  obtain ⟨d, hd, hxp⟩ := tagPosition_ok hpos
  simp only [codeStatementR, run_bind_ok, run_pure_ok, lookupTypeDeclM_run_ok, xtorPositionM_run_ok,
    splitOffLast_run_ok, mockSym_store, mockSym_variableTemporary, vt_run_ok] at hrunM
  obtain ⟨decl, k1, ⟨hd', rfl⟩, pos', k2, ⟨hx', rfl⟩, sp, k3, ⟨_, rfl, rfl⟩, c1, k4, ⟨rfl, rfl⟩, t, k5,
    ⟨p, hp, rfl, rfl⟩, c3, k6, h3, rfl, rfl⟩ := hrunM
  rw [hd] at hd'; cases hd'
  rw [hxp] at hx'; cases hx'
  have hn : (Γ.take (Γ.length - args.length)).length = Γ.length - args.length := by simp
  have hp' : p = Γ.length - args.length := by
    rw [ctxPosition_eq_posOf] at hp
    have := posOf_append_fresh (Γ.take (Γ.length - args.length)) ⟨x, .prd, ty⟩ hfresh
    simp only at hp
    rw [this, hn] at hp
    exact (Option.some.inj hp).symm
  subst hp'
  simp only [mockSym_comment, mockSym_loadImmediate, mockSym_jumpLength, List.append_assoc,
    CodeAt_hook] at hatM
  simp only [List.cons_append, List.nil_append, CodeAt, TempNum.toNat] at hatM
  obtain ⟨hstore, hli, hat3⟩ := hatM
  rw [hn] at hstore
  -- the RV code at the program counter
  simp only [codeStatementR, run_bind_ok, run_pure_ok, lookupTypeDeclM_run_ok, xtorPositionM_run_ok,
    splitOffLast_run_ok] at hrun
  obtain ⟨declX, _, ⟨hdX, rfl⟩, posX, _, ⟨hxX, rfl⟩, spX, _, ⟨_, rfl, rfl⟩, cst, kst, hstX, tX, _, htX,
    c3X, k6X, h3X, rfl, rfl⟩ := hrun
  rw [hd] at hdX; cases hdX
  rw [hxp] at hxX; cases hxX
  obtain ⟨pX, hpX, hltX, rfl, rfl⟩ := (rv_vt_run_ok _ _ _ _ _ _).1 htX
  have hpX' : pX = Γ.length - args.length := by
    have := posOf_append_fresh (Γ.take (Γ.length - args.length)) ⟨x, .prd, ty⟩ hfresh
    simp only at hpX
    rw [this, hn] at hpX
    exact (Option.some.inj hpX).symm
  subst hpX'
  simp only [TempNum.toNat] at hltX
  generalize hN : Γ.length - args.length = N at *
  have hNle : N ≤ Γ.length := by omega
  -- the two abstract steps, explicitly
  obtain ⟨cA, hsA, cB, hsB, hcB⟩ := hst
  have hcB' : cB = cfg' := hcB
  subst hcB'
  -- layout of the RV items
  simp only [] at hstX h3X htX hat h3 hp hpX
  have hxc : rvBackend.comment "#load tag" = Code.COMMENT "#load tag" := rfl
  have hxl : rvBackend.loadImmediate (posTemp (2 * N + TempNum.snd.toNat)) (rvBackend.jumpLength pos) =
      [Code.LI (posTemp (2 * N + 1)) (rvBackend.jumpLength pos)] := rfl
  rw [hxc, hxl] at hat
  generalize hc0 : hookCode rvBackend hooks Γ ++ [rvBackend.comment
      ("let " ++ x.print ++ ": " ++ tyPrint ty ++ " = " ++ tag.print ++ "(" ++ varsPrint args ++ ");")] = c0 at hat
  have hc0c : ∀ y ∈ c0, ∃ m', y = Code.COMMENT m' := by rw [← hc0]; exact hook_comments hooks Γ _
  have hatA : KAt ks st.pc (c0 ++ (cst ++ ([Code.COMMENT "#load tag"] ++
      ([Code.LI (posTemp (2 * N + 1)) (rvBackend.jumpLength pos)] ++ c3X)))) := by
    simpa [List.append_assoc] using hat
  -- the comments
  obtain ⟨pc0, k0, hk0, hat1⟩ := pass_comments L hnd hheap hatA hc0c
  have X0 : X3 mc cw τ Γ cfg hs ι (setPS st pc0 k0) := X3R.setPS X _ _
  replace hat1 : KAt ks (setPS st pc0 k0).pc (cst ++ ([Code.COMMENT "#load tag"] ++
      ([Code.LI (posTemp (2 * N + 1)) (rvBackend.jumpLength pos)] ++ c3X))) := hat1
  generalize setPS st pc0 k0 = st0 at hk0 X0 hat1
  -- the fields read by the abstract `store`
  have hlenρ : (ρ.drop N).length = (Γ.drop N).length := by
    have := R.len; simp only at this; simp [this]
  obtain ⟨fields, hf, hrep, hch⟩ := readFields_ok2 (Γ.drop N) (ρ.drop N) N (R.vals.slice N) hlenρ
  have hlenTake : (Γ.take N).length = N := hn
  -- the store on both machines
  obtain ⟨st1, hs', ι', hn1, hat2, X1, hptr1, hpcA, _, hfrM, hpkM⟩ :=
    store_mid_x3P L hnd hheap (x := x) (chi := .prd) (ty := ty) R hN hk (by decide) (by omega) hcap hnext hstore hsA X0 hstX hat1 hroom
  -- the tag
  have hB := step_li P cA (2 * N + 1) pos (by rw [hpcA]; exact hli) (by unfold Mock.T_TEMP; omega)
  rw [hsB] at hB
  injection hB with hB
  obtain ⟨pc2, k2, hk2, hat3'⟩ := pass_comments L hnd hheap hat2 (fun y hy => by simp at hy; exact ⟨_, hy⟩)
  have X1' : X3R mc cw (letTau τ cfg.next cw N args.length) (Γ.take N) cA (roots (Γ.take N) cA.temps ++ rootOf cA.temps ⟨x, .prd, ty⟩ N) hs' ι'
      (setPS st1 pc2 k2) := X3R.setPS X1 _ _
  obtain ⟨pc3, k3', hk3, hat4⟩ := exec_block L hnd hheap (s := setPS st1 pc2 k2) hat3'
    (fun c hc => by simp at hc; subst hc; rfl) (by simp)
    (execFwd_single (show exec mc pr.labelAddr 0 (Code.LI (posTemp (2 * N + 1)) (rvBackend.jumpLength pos)) _ =
      .ok (_, .fall) from rfl))
  have K := keep_writeReg X1'.bnd.wf (posTemp (2 * N + 1)) (imm (rvBackend.jumpLength pos))
  have X2 : X3R mc cw (letTau τ cfg.next cw N args.length) (Γ.take N ++ [⟨x, .prd, ty⟩]) cB
      (roots (Γ.take N) cA.temps ++ rootOf cA.temps ⟨x, .prd, ty⟩ N) hs' ι'
      ((setPS st1 pc2 k2).writeReg (posTemp (2 * N + 1)) (imm (rvBackend.jumpLength pos))) := by
    refine X3R.snoc X1' (by rw [hlenTake]; omega) (by rw [hlenTake]; exact K) (a := BitVec.ofInt 64 pos)
      (by
        rw [hlenTake, rv_writeReg_same X1'.bnd.wf (by omega)]
        exact congrArg some (trW_prd_tag pos _)) (by rw [hB, hlenTake])
      (by rw [hB]) (by rw [hB]) ?_
    intro _ r hr
    rw [hlenTake] at hr ⊢
    rw [rv_setPS]
    exact hptr1 r hr
  have hrootsB : roots (Γ.take N ++ [⟨x, .prd, ty⟩]) cB.temps =
      roots (Γ.take N) cA.temps ++ rootOf cA.temps ⟨x, .prd, ty⟩ N := by
    have hgetB : ∀ t, t ≠ 2 * N + 1 → t < 28 → cB.temps.get t = cA.temps.get t := by
      intro t hne ht
      rw [hB]
      simp only
      rw [get_set_other _ _ hne, get_clobberTemp _ (by unfold Mock.T_TEMP; omega)]
    rw [roots_snoc, hlenTake]
    congr 1
    · exact roots_congr _ _ _ (fun i hi => hgetB (2 * i) (by omega) (by rw [hlenTake] at hi; omega))
    · unfold rootOf
      rw [hgetB (2 * N) (by omega) (by omega)]
  refine ⟨cB, _, hs', ι', ⟨cA, hsA, cB, hsB, rfl⟩, hk0.trans (hn1.trans (hk2.trans hk3)), hfrM, hpkM,
    hout', hnx', R', ?_, kst, k6X, c3X, h3X, hat4⟩
  show X3R mc cw _ _ cB (roots _ cB.temps) hs' ι' _
  rw [hrootsB]
  exact X3R.setPS X2 _ _

end Let3P

section Create3P

variable {pr : RV.Program} {ks : List Code} (L : Loaded pr ks) (hnd : (labs ks).Nodup)
  (hheap : mc.heap = false)

include L hnd hheap in
/-- THREE-WAY SIMULATION OF `create` -/
theorem create_x3P {P : Abs.Program} {hooks : Bool} {prog : AxCut.Prog} {Γ : Ctx} {ρ : List Value} {x : Ident}
    {ty : Ty} {Γc : Ctx} {clauses : Clauses} {next : Stmt} {f1 f2 : FV} {cfg : Config}
    (R : RelX P hooks prog ⟨Γ, ρ, .create x ty (some Γc) clauses next f1 f2⟩ cfg)
    (hk : Γc.length ≤ Γ.length)
    (hkeys : Ctx.keys (Γ.drop (Γ.length - Γc.length)) = Γc.keys)
    (hfresh : ∀ b ∈ Γ.take (Γ.length - Γc.length), b.var.id ≠ x.id)
    (hcap : 2 * (Γ.length - Γc.length + 1) + 2 < Mock.T_TEMP)
    (hnext : cfg.next < 2 ^ 64)
    {hs : HState} {ι : Nat → Nat} {st : State} (X : X3 mc cw τ Γ cfg hs ι st)
    {k k' : Nat} {items : List Code}
    (hrun : (codeStatementR rvBackend hooks natRen prog.types (.create x ty (some Γc) clauses next f1 f2) Γ).run k =
      .ok (items, k'))
    (hat : KAt ks st.pc items)
    (hroom : Room hs (64 * Γc.length + 64)) :
    ∃ cfg' st' hs' ι' m, stepsTo P 2 cfg cfg' ∧ Reach pr mc st st' ∧ FrLe hs hs' (64 * Γc.length) ∧ FrPk hs hs' ∧
      cfg'.out = cfg.out ∧ cfg'.next ≤ cfg.next + 1 ∧
      RelX P hooks prog ⟨Γ.take (Γ.length - Γc.length) ++ [⟨x, .cns, ty⟩],
        ρ.take (Γ.length - Γc.length) ++ [.clo Γc (ρ.drop (Γ.length - Γc.length)) clauses], next⟩ cfg' ∧
      KMethodsAt ks hooks prog.types m (Γ.drop (Γ.length - Γc.length)) clauses ∧
      X3 mc (cwSet cw (Γ.length - Γc.length) m) (letTau τ cfg.next cw (Γ.length - Γc.length) Γc.length)
        (Γ.take (Γ.length - Γc.length) ++ [⟨x, .cns, ty⟩]) cfg' hs' ι' st' ∧
      ∃ k1 k1' items', (codeStatementR rvBackend hooks natRen prog.types next
          (Γ.take (Γ.length - Γc.length) ++ [⟨x, .cns, ty⟩])).run k1 = .ok (items', k1') ∧
        KAt ks st'.pc items' := by
  obtain ⟨cfg', hst, hout', hnx', R'⟩ := sim2_create R hk hkeys hfresh hcap hnext
  -- the mock code at the program counter (as in `sim2_create`)
  obtain ⟨c, c', ops, hrunM, hatM⟩ := R.code
  simp only [codeStatementR, run_bind_ok, run_pure_ok, freshLabelStr_run_ok, splitOffLast_run_ok,
    mockSym_store, mockSym_variableTemporary, vt_run_ok] at hrunM
  obtain ⟨sp, k1, ⟨_, rfl, rfl⟩, c1, k2, ⟨rfl, rfl⟩, num, k3, ⟨rfl, rfl⟩, t, k4, ⟨p, hp, rfl, rfl⟩,
    c3, k5, h3, c5, k6, h5, rfl, rfl⟩ := hrunM
  have hn : (Γ.take (Γ.length - Γc.length)).length = Γ.length - Γc.length := by simp
  have hp' : p = Γ.length - Γc.length := by
    rw [ctxPosition_eq_posOf] at hp
    have := posOf_append_fresh (Γ.take (Γ.length - Γc.length)) ⟨x, .cns, ty⟩ hfresh
    simp only at hp
    rw [this, hn] at hp
    exact (Option.some.inj hp).symm
  subst hp'
  simp only [mockSym_comment, mockSym_loadLabel, mockSym_label, List.append_assoc, CodeAt_hook] at hatM
  simp only [List.cons_append, List.nil_append, CodeAt, TempNum.toNat] at hatM
  obtain ⟨hstore, hll, hatM'⟩ := hatM
  rw [CodeAt_append] at hatM'
  obtain ⟨hat3, hat45⟩ := hatM'
  simp only [CodeAt] at hat45
  obtain ⟨hlab, _⟩ := hat45
  rw [hn] at hstore
  -- the RV code at the program counter
  simp only [codeStatementR, run_bind_ok, run_pure_ok, freshLabelStr_run_ok, splitOffLast_run_ok] at hrun
  obtain ⟨spX, _, ⟨_, rfl, rfl⟩, cst, kst, hstX, numX, _, ⟨rfl, rfl⟩, tX, _, htX, c3X, k5X, h3X, c5X, k6X, h5X,
    rfl, rfl⟩ := hrun
  obtain ⟨pX, hpX, hltX, rfl, rfl⟩ := (rv_vt_run_ok _ _ _ _ _ _).1 htX
  have hpX' : pX = Γ.length - Γc.length := by
    have := posOf_append_fresh (Γ.take (Γ.length - Γc.length)) ⟨x, .cns, ty⟩ hfresh
    simp only at hpX
    rw [this, hn] at hpX
    exact (Option.some.inj hpX).symm
  subst hpX'
  simp only [TempNum.toNat] at hltX
  generalize hN : Γ.length - Γc.length = N at *
  -- the two abstract steps, explicitly
  obtain ⟨cA, hsA, cB, hsB, hcB⟩ := hst
  have hcB' : cB = cfg' := hcB
  subst hcB'
  -- layout of the RV items
  simp only [] at hstX h3X h5X hat
  generalize hlbl : mangleTy ty ++ "_" ++ natRen (kst + 1) = lbl at *
  have hxc : rvBackend.comment "#load tag" = Code.COMMENT "#load tag" := rfl
  have hxl : rvBackend.loadLabel (posTemp (2 * N + TempNum.snd.toNat)) lbl =
      [Code.LA (posTemp (2 * N + 1)) lbl] := rfl
  have hxlab : rvBackend.label lbl = Code.LAB lbl := rfl
  rw [hxc, hxl, hxlab] at hat
  generalize hc0 : hookCode rvBackend hooks Γ ++ [rvBackend.comment
      ("create " ++ x.print ++ ": " ++ tyPrint ty ++ " = (" ++ varsPrint Γc ++ ")\\{ ... \\};")] = c0 at hat
  have hc0c : ∀ y ∈ c0, ∃ m', y = Code.COMMENT m' := by rw [← hc0]; exact hook_comments hooks Γ _
  generalize htab : (if clauses.length > 1 then codeTable rvBackend clauses lbl else []) = table at hat
  have hatA : KAt ks st.pc (c0 ++ (cst ++ ([Code.COMMENT "#load tag"] ++
      ([Code.LA (posTemp (2 * N + 1)) lbl] ++ (c3X ++ Code.LAB lbl :: (table ++ c5X)))))) := by
    simpa [List.append_assoc] using hat
  -- the comments
  obtain ⟨pc0, k0, hk0, hat1⟩ := pass_comments L hnd hheap hatA hc0c
  have X0 : X3 mc cw τ Γ cfg hs ι (setPS st pc0 k0) := X3R.setPS X _ _
  replace hat1 : KAt ks (setPS st pc0 k0).pc (cst ++ ([Code.COMMENT "#load tag"] ++
      ([Code.LA (posTemp (2 * N + 1)) lbl] ++ (c3X ++ Code.LAB lbl :: (table ++ c5X))))) := hat1
  generalize setPS st pc0 k0 = st0 at hk0 X0 hat1
  have hlenTake : (Γ.take N).length = N := hn
  -- the store on both machines
  obtain ⟨st1, hs', ι', hn1, hat2, X1, hptr1, hpcA, _, hfrM, hpkM⟩ :=
    store_mid_x3P L hnd hheap (x := x) (chi := .cns) (ty := ty) R hN hk (by decide) (by omega) hcap hnext hstore hsA
      X0 hstX (more := [Code.COMMENT "#load tag"] ++
        ([Code.LA (posTemp (2 * N + 1)) lbl] ++ (c3X ++ Code.LAB lbl :: (table ++ c5X)))) hat1 hroom
  -- the label of the method table
  have hatLab : KAt ks st1.pc (([Code.COMMENT "#load tag"] ++ ([Code.LA (posTemp (2 * N + 1)) lbl] ++ c3X)) ++
      Code.LAB lbl :: (table ++ c5X)) := by
    simpa [List.append_assoc] using hat2
  obtain ⟨j, hj, hatj⟩ := hatLab.lab_from
  have hidx := labIdx_of_nodup hnd hj
  have hla := L.labelAddr hidx
  have hB := step_ll P cA (2 * N + 1) _ _ (by rw [hpcA]; exact hll) (by unfold Mock.T_TEMP; omega) hlab
  rw [hsB] at hB
  injection hB with hB
  obtain ⟨pc2, k2, hk2, hat3'⟩ := pass_comments L hnd hheap hat2 (fun y hy => by simp at hy; exact ⟨_, hy⟩)
  generalize hm : BitVec.ofNat 64 (codeBase + 4 * icount (ks.take j)) = m
  have X1' : X3R mc (cwSet cw N m) (letTau τ cfg.next cw N Γc.length) (Γ.take N) cA
      (roots (Γ.take N) cA.temps ++ rootOf cA.temps ⟨x, .cns, ty⟩ N) hs' ι' (setPS st1 pc2 k2) :=
    (X3R.setPS X1 _ _).cwCongr (fun i hi => cwSet_other cw m (by rw [hlenTake] at hi; omega))
  have hex : exec mc pr.labelAddr 0 (Code.LA (posTemp (2 * N + 1)) lbl) (setPS st1 pc2 k2) =
      .ok ((setPS st1 pc2 k2).writeReg (posTemp (2 * N + 1)) m, .fall) := by
    simp only [exec, hla, hm]
  obtain ⟨pc3, k3', hk3, hat4⟩ := exec_block L hnd hheap (s := setPS st1 pc2 k2) hat3'
    (fun c hc => by simp at hc; subst hc; rfl) (by simp) (execFwd_single hex)
  have K := keep_writeReg X1'.bnd.wf (posTemp (2 * N + 1)) m
  have X2 : X3R mc (cwSet cw N m) (letTau τ cfg.next cw N Γc.length) (Γ.take N ++ [⟨x, .cns, ty⟩]) cB
      (roots (Γ.take N) cA.temps ++ rootOf cA.temps ⟨x, .cns, ty⟩ N) hs' ι'
      ((setPS st1 pc2 k2).writeReg (posTemp (2 * N + 1)) m) := by
    refine X3R.snoc X1' (by rw [hlenTake]; omega) (by rw [hlenTake]; exact K)
      (a := BitVec.ofNat 64 (cfg.pc + 1 + 1 + instrCount c3))
      (by
        rw [hlenTake, rv_writeReg_same X1'.bnd.wf (by omega), cwSet_same]
        rfl) (by rw [hB, hlenTake])
      (by rw [hB]) (by rw [hB]) ?_
    intro _ r hr
    rw [hlenTake] at hr ⊢
    rw [rv_setPS]
    exact hptr1 r hr
  have hrootsB : roots (Γ.take N ++ [⟨x, .cns, ty⟩]) cB.temps =
      roots (Γ.take N) cA.temps ++ rootOf cA.temps ⟨x, .cns, ty⟩ N := by
    have hgetB : ∀ t, t ≠ 2 * N + 1 → t < 28 → cB.temps.get t = cA.temps.get t := by
      intro t hne ht
      rw [hB]
      simp only
      rw [get_set_other _ _ hne, get_clobberTemp _ (by unfold Mock.T_TEMP; omega)]
    rw [roots_snoc, hlenTake]
    congr 1
    · exact roots_congr _ _ _ (fun i hi => hgetB (2 * i) (by omega) (by rw [hlenTake] at hi; omega))
    · unfold rootOf
      rw [hgetB (2 * N) (by omega) (by omega)]
  refine ⟨cB, _, hs', ι', m, ⟨cA, hsA, cB, hsB, rfl⟩, hk0.trans (hn1.trans (hk2.trans hk3)), hfrM, hpkM,
    hout', hnx', R', ?_, ?_, kst + 1, k5X, c3X, h3X, hat4.left⟩
  · exact ⟨lbl, j, k5X, k6X, c5X, by rw [← hlbl]; exact tableLabel_ne_cleanup _ _, hidx, hm.symm, h5X,
      by rw [htab]; exact hatj⟩
  · show X3R mc _ _ _ cB (roots _ cB.temps) hs' ι' _
    rw [hrootsB]
    exact X3R.setPS X2 _ _

end Create3P

end Scc.RV.Ref
