/-
  Scc.RV.ConcStep — THE RUN LOOP OF THE RV64 SPEC MACHINE (Scc/RV/Machine.lean `runLoop`) AS AN ITERATED
  TRANSITION FUNCTION.  `runLoop` consumes one unit of fuel per item traversed; `step p cfg s` is what it
  does with one unit (`.inl s'`: the loop continues with `s'`; `.inr r`: the run ends with the result `r`),
  `stepN` its iteration.  `runLoop_succ`, `runLoop_stepN`: the loop IS the iteration of `step` (a second,
  proof-friendly function proved equal to the executable one; no executable definition is changed).
  With it "the machine passes through the state `s'`" can be SAID: `stepN p cfg k s = .inl s'`
  (`Scc.RV.Ref.Reach`, Scc/RV/RefBridge.lean).
  `step` is split by the kind of the item at the program counter (`stepLab`, `stepHook`, `stepInstr`; `step_lab`,
  `step_hook`, `step_instr`) so that proofs about it need not unfold the whole case analysis.
-/
import Scc.RV.MemProofsRun

set_option linter.unusedVariables false
set_option linter.unusedSimpArgs false

namespace Scc.RV

/-- what the run loop does with an instruction `it` at the program counter -/
def stepInstr (p : Program) (cfg : MonCfg) (s : State) (it : Item) : State ⊕ RunResult :=
  match exec cfg p.labelAddr it.addr it.code s with
  | .error e => .inr (s.result (.fault e it.line))
  | .ok (s1, next) =>
    let s2 := { s1 with steps := s1.steps + 1 }
    match next with
    | .fall => .inl { s2 with pc := s.pc + 1 }
    | .label l =>
      match p.labelIdx[l]? with
      | none => .inr (s2.result (.fault s!"undefined-label {l}" it.line))
      | some i => .inl { s2 with pc := i }
    | .addr a =>
      match p.addrIdx[a.toNat]? with
      | none => .inr (s2.result (.fault "jump-to-non-instruction" it.line))
      | some i => .inl { s2 with pc := i }

/-- what the run loop does with a kept hook comment at the program counter -/
def stepHook (cfg : MonCfg) (s : State) (it : Item) : State ⊕ RunResult :=
  match it.roots with
  | some rs =>
    if cfg.heap then
      match heapMonitor cfg s rs with
      | .error e => .inr (s.result (.invFail e it.line))
      | .ok s1 => .inl { s1 with pc := s.pc + 1 }
    else .inl { s with pc := s.pc + 1 }
  | none => .inl { s with pc := s.pc + 1 }

/-- what the run loop does with a label at the program counter -/
def stepLab (s : State) (it : Item) (l : String) : State ⊕ RunResult :=
  if l == "cleanup" then
    match s.readReg RETURN1 with
    | .ok v => .inr (s.result (.done v))
    | .error e => .inr (s.result (.fault e it.line))
  else .inl { s with pc := s.pc + 1 }

/-- one unit of fuel of `runLoop`: one item (instruction, label, kept comment) -/
def step (p : Program) (cfg : MonCfg) (s : State) : State ⊕ RunResult :=
  match p.items[s.pc]? with
  | none => .inr (s.result (.fault "fell-off-end" 0))
  | some it =>
    match it.code with
    | .LAB l => stepLab s it l
    | .COMMENT _ => stepHook cfg s it
    | _ => stepInstr p cfg s it

/-- `n` units of fuel -/
def stepN (p : Program) (cfg : MonCfg) : Nat → State → State ⊕ RunResult
  | 0, s => .inl s
  | n + 1, s =>
    match step p cfg s with
    | .inl s' => stepN p cfg n s'
    | .inr r => .inr r

/-- THE RUN LOOP IS THE ITERATION OF `step` -/
theorem runLoop_succ (p : Program) (cfg : MonCfg) (fuel : Nat) (s : State) :
    runLoop p cfg (fuel + 1) s = match step p cfg s with
      | .inl s' => runLoop p cfg fuel s'
      | .inr r => r := by
  unfold step
  rw [runLoop]
  cases hit : p.items[s.pc]? with
  | none => rfl
  | some it =>
    simp only
    cases hc : it.code with
    | LAB l =>
      simp only [stepLab]
      by_cases hl : (l == "cleanup") = true
      · simp only [hl, if_true]
        cases s.readReg RETURN1 <;> rfl
      · simp only [hl]
        rfl
    | COMMENT m =>
      simp only [stepHook]
      cases it.roots with
      | none => rfl
      | some rs =>
        simp only
        cases cfg.heap with
        | false => rfl
        | true =>
          simp only [if_true]
          cases heapMonitor cfg s rs <;> rfl
    | _ =>
      simp only [stepInstr, hc]
      cases exec cfg p.labelAddr it.addr _ s with
      | error e => rfl
      | ok r =>
        obtain ⟨s1, next⟩ := r
        simp only
        cases next with
        | fall => rfl
        | label l => simp only; cases p.labelIdx[l]? <;> rfl
        | addr a => simp only; cases p.addrIdx[a.toNat]? <;> rfl

/-! ## `step` by the kind of the item at the program counter -/

theorem step_none {p : Program} {cfg : MonCfg} {s : State} (hit : p.items[s.pc]? = none) :
    step p cfg s = .inr (s.result (.fault "fell-off-end" 0)) := by
  simp only [step, hit]

theorem step_lab {p : Program} {cfg : MonCfg} {s : State} {it : Item} {l : String}
    (hit : p.items[s.pc]? = some it) (hc : it.code = .LAB l) : step p cfg s = stepLab s it l := by
  simp only [step, hit, hc]

theorem step_hook {p : Program} {cfg : MonCfg} {s : State} {it : Item} {m : String}
    (hit : p.items[s.pc]? = some it) (hc : it.code = .COMMENT m) : step p cfg s = stepHook cfg s it := by
  simp only [step, hit, hc]

theorem step_instr {p : Program} {cfg : MonCfg} {s : State} {it : Item}
    (hit : p.items[s.pc]? = some it) (hi : it.code.isInstr = true) : step p cfg s = stepInstr p cfg s it := by
  simp only [step, hit]
  cases hc : it.code <;> first | rfl | (rw [hc] at hi; simp [Code.isInstr] at hi)

/-- the item at the program counter is a label, a comment or an instruction -/
theorem code_kind (c : Code) : (∃ l, c = .LAB l) ∨ (∃ m, c = .COMMENT m) ∨ c.isInstr = true := by
  cases c <;> simp [Code.isInstr]

theorem stepN_zero (p : Program) (cfg : MonCfg) (s : State) : stepN p cfg 0 s = .inl s := rfl

theorem stepN_one (p : Program) (cfg : MonCfg) (s : State) : stepN p cfg 1 s = step p cfg s := by
  simp only [stepN]
  cases step p cfg s <;> rfl

theorem stepN_succ_of_step {p : Program} {cfg : MonCfg} {s s1 : State} (h : step p cfg s = .inl s1) (n : Nat) :
    stepN p cfg (n + 1) s = stepN p cfg n s1 := by
  simp only [stepN, h]

theorem stepN_trans (p : Program) (cfg : MonCfg) : ∀ {n m : Nat} {s s1 s2 : State},
    stepN p cfg n s = .inl s1 → stepN p cfg m s1 = .inl s2 → stepN p cfg (n + m) s = .inl s2
  | 0, m, s, s1, s2, h1, h2 => by
    simp only [stepN, Sum.inl.injEq] at h1
    subst h1
    rw [Nat.zero_add]; exact h2
  | n + 1, m, s, s1, s2, h1, h2 => by
    rw [show n + 1 + m = (n + m) + 1 by omega]
    simp only [stepN] at h1 ⊢
    cases hs : step p cfg s with
    | inr r => rw [hs] at h1; cases h1
    | inl s' =>
      rw [hs] at h1
      simp only
      exact stepN_trans p cfg h1 h2

/-- … with a final result -/
theorem stepN_trans_inr (p : Program) (cfg : MonCfg) : ∀ {n m : Nat} {s s1 : State} {r : RunResult},
    stepN p cfg n s = .inl s1 → stepN p cfg m s1 = .inr r → stepN p cfg (n + m) s = .inr r
  | 0, m, s, s1, r, h1, h2 => by
    simp only [stepN, Sum.inl.injEq] at h1
    subst h1
    rw [Nat.zero_add]; exact h2
  | n + 1, m, s, s1, r, h1, h2 => by
    rw [show n + 1 + m = (n + m) + 1 by omega]
    simp only [stepN] at h1 ⊢
    cases hs : step p cfg s with
    | inr r => rw [hs] at h1; cases h1
    | inl s' =>
      rw [hs] at h1
      simp only
      exact stepN_trans_inr p cfg h1 h2

/-- a prefix of a run that has not ended has not ended -/
theorem stepN_split (p : Program) (cfg : MonCfg) : ∀ (n m : Nat) {s s2 : State},
    stepN p cfg (n + m) s = .inl s2 → ∃ s1, stepN p cfg n s = .inl s1 ∧ stepN p cfg m s1 = .inl s2
  | 0, m, s, s2, h => ⟨s, rfl, by rw [Nat.zero_add] at h; exact h⟩
  | n + 1, m, s, s2, h => by
    rw [show n + 1 + m = (n + m) + 1 by omega] at h
    simp only [stepN] at h ⊢
    cases hs : step p cfg s with
    | inr r => rw [hs] at h; cases h
    | inl s' =>
      rw [hs] at h
      simp only
      exact stepN_split p cfg n m h

/-- the run loop after `k` steps that do not end the run -/
theorem runLoop_stepN (p : Program) (cfg : MonCfg) : ∀ (k fuel : Nat) {s s' : State},
    stepN p cfg k s = .inl s' → runLoop p cfg (fuel + k) s = runLoop p cfg fuel s'
  | 0, fuel, s, s', h => by
    simp only [stepN, Sum.inl.injEq] at h
    subst h; rfl
  | k + 1, fuel, s, s', h => by
    simp only [stepN] at h
    rw [← Nat.add_assoc, runLoop_succ]
    cases hs : step p cfg s with
    | inr r => rw [hs] at h; cases h
    | inl s1 =>
      rw [hs] at h
      simp only
      exact runLoop_stepN p cfg k fuel h

/-- … and when they do -/
theorem runLoop_stepN_inr (p : Program) (cfg : MonCfg) : ∀ (k fuel : Nat) {s : State} {r : RunResult},
    stepN p cfg k s = .inr r → runLoop p cfg (fuel + k) s = r
  | 0, fuel, s, r, h => by simp [stepN] at h
  | k + 1, fuel, s, r, h => by
    simp only [stepN] at h
    rw [← Nat.add_assoc, runLoop_succ]
    cases hs : step p cfg s with
    | inr r' =>
      rw [hs] at h
      simp only
      injection h
    | inl s1 =>
      rw [hs] at h
      simp only
      exact runLoop_stepN_inr p cfg k fuel h

theorem runLoop_zero (p : Program) (cfg : MonCfg) (s : State) : runLoop p cfg 0 s = s.result .outOfFuel := by
  rw [runLoop]

/-- the loop with `k` units of fuel, in terms of `stepN` -/
theorem runLoop_eq_stepN (p : Program) (cfg : MonCfg) (k : Nat) (s : State) :
    runLoop p cfg k s = match stepN p cfg k s with
      | .inl s' => s'.result .outOfFuel
      | .inr r => r := by
  cases h : stepN p cfg k s with
  | inl s' =>
    have := runLoop_stepN p cfg k 0 h
    rw [Nat.zero_add] at this
    rw [this, runLoop_zero]
  | inr r =>
    have := runLoop_stepN_inr p cfg k 0 h
    rw [Nat.zero_add] at this
    exact this

/-- a state from which every positive amount of fuel gives `done v` ends the run in one step -/
theorem step_done_of_runLoop {p : Program} {cfg : MonCfg} {s : State} {v : Word}
    (h : (runLoop p cfg 1 s).res = .done v) : ∃ r, step p cfg s = .inr r ∧ r.res = .done v := by
  have := runLoop_succ p cfg 0 s
  cases hs : step p cfg s with
  | inl s' =>
    rw [hs] at this
    simp only at this
    rw [this, runLoop_zero] at h
    cases h
  | inr r =>
    rw [hs] at this
    simp only at this
    rw [this] at h
    exact ⟨r, rfl, h⟩

/-! ## single items as steps -/

section Items
variable (p : Program) (cfg : MonCfg)

theorem step_of_label (s : State) {it : Item} {l : String} (hit : p.items[s.pc]? = some it)
    (hc : it.code = .LAB l) (hl : l ≠ "cleanup") : step p cfg s = .inl { s with pc := s.pc + 1 } := by
  have : (l == "cleanup") = false := by simpa using hl
  rw [step_lab hit hc]
  simp only [stepLab, this, Bool.false_eq_true, if_false]

theorem step_of_fall (s s1 : State) {it : Item} (hit : p.items[s.pc]? = some it) (hi : it.code.isInstr = true)
    (hx : exec cfg p.labelAddr it.addr it.code s = .ok (s1, .fall)) :
    step p cfg s = .inl (setPS s1 (s.pc + 1) (s.steps + 1)) := by
  obtain ⟨_, hst⟩ := exec_pc_steps hx
  rw [step_instr hit hi]
  simp only [stepInstr, hx, setPS, hst]

theorem step_of_jump (s s1 : State) {it : Item} {l : String} {i : Nat} (hit : p.items[s.pc]? = some it)
    (hi : it.code.isInstr = true) (hx : exec cfg p.labelAddr it.addr it.code s = .ok (s1, .label l))
    (hl : p.labelIdx[l]? = some i) : step p cfg s = .inl (setPS s1 i (s.steps + 1)) := by
  obtain ⟨_, hst⟩ := exec_pc_steps hx
  rw [step_instr hit hi]
  simp only [stepInstr, hx, hl, setPS, hst]

theorem step_of_addr (s s1 : State) {it : Item} {a : Word} {i : Nat} (hit : p.items[s.pc]? = some it)
    (hi : it.code.isInstr = true) (hx : exec cfg p.labelAddr it.addr it.code s = .ok (s1, .addr a))
    (hl : p.addrIdx[a.toNat]? = some i) : step p cfg s = .inl (setPS s1 i (s.steps + 1)) := by
  obtain ⟨_, hst⟩ := exec_pc_steps hx
  rw [step_instr hit hi]
  simp only [stepInstr, hx, hl, setPS, hst]

/-- a kept comment (a hook) does nothing when the heap monitor is off -/
theorem step_of_comment (hheap : cfg.heap = false) (s : State) {it : Item} {m : String}
    (hit : p.items[s.pc]? = some it) (hc : it.code = .COMMENT m) :
    step p cfg s = .inl (setPS s (s.pc + 1) s.steps) := by
  rw [step_hook hit hc]
  simp only [stepHook, hheap]
  cases it.roots <;> simp [setPS]

end Items

/-! ## the heap monitor with the heap base as a parameter

`heapBase` is the LITERAL 0x10000000 on this machine; a proof whose kernel check has to reduce a `match` on
`invCheckFn … heapBase …` runs into "(kernel) deep recursion" (`x - 268435456` with symbolic `x` is unfolded 2^28
times).  Facts about `heapMonitor` are therefore proved for `heapMonitorG base` and transferred by
`heapMonitor_eqG` (`rfl`: syntactically equal bodies, nothing is reduced). -/

/-- `heapMonitor` with the heap base as a parameter -/
def heapMonitorG (base : Nat) (cfg : MonCfg) (s : State) (rootRegs : List Nat) : Except String State :=
  match rootRegs.mapM (fun r => s.readReg ⟨r⟩) with
  | .error e => .error s!"root {e}"
  | .ok roots =>
    match s.readReg HEAP, s.readReg FREE with
    | .ok h, .ok f =>
      let ext := (s.maxHeapWritten + 63) / 64 * 64 + 8 * 64
      let limit := base + min cfg.heapBytes ext
      match Scc.Heap.invCheckFn (fun a => (s.mem.getD a 0).toNat) base limit
          h.toNat f.toNat (roots.map (·.toNat)) [] with
      | .error e => .error e
      | .ok (_, _, _, frontier) =>
        .ok { s with blocksBelow := max s.blocksBelow ((frontier - base) / blockBytes) }
    | _, _ => .error "HEAP or FREE register undefined"

theorem heapMonitor_eqG (cfg : MonCfg) (s : State) (rs : List Nat) :
    heapMonitor cfg s rs = heapMonitorG heapBase cfg s rs := rfl

/-- a successful check changes nothing but the monitor's counter -/
theorem heapMonitorG_frame {base : Nat} {mc : MonCfg} {s s1 : State} {rs : List Nat}
    (h : heapMonitorG base mc s rs = .ok s1) : ∃ b, s1 = { s with blocksBelow := b } := by
  unfold heapMonitorG at h
  cases h1 : rs.mapM (fun r => s.readReg ⟨r⟩) with
  | error e => rw [h1] at h; cases h
  | ok roots =>
    rw [h1] at h; dsimp only at h
    cases h2 : s.readReg HEAP with
    | error e => rw [h2] at h; cases h
    | ok hh =>
      cases h3 : s.readReg FREE with
      | error e => rw [h2, h3] at h; cases h
      | ok ff =>
        rw [h2, h3] at h; dsimp only at h
        generalize Scc.Heap.invCheckFn _ _ _ _ _ _ _ = r at h
        cases r with
        | error e => cases h
        | ok q =>
          obtain ⟨a, b, c, d⟩ := q
          simp only [Except.ok.injEq] at h
          exact ⟨_, h.symm⟩

theorem heapMonitor_frame {mc : MonCfg} {s s1 : State} {rs : List Nat}
    (h : heapMonitor mc s rs = .ok s1) : ∃ b, s1 = { s with blocksBelow := b } := by
  rw [heapMonitor_eqG] at h
  exact heapMonitorG_frame h

end Scc.RV
