/-
  Scc.RV.WfFinal — C14 for RV64: the RV64 instances of the generic label theorems of
  Scc/Backend/ProofsRefs.lean and of the generic operand lifting of Scc/X86/ProofsWfProg.lean (`OpsSat`), the
  validator `wfLines` (Scc/RV/Machine.lean) characterised on the proof side, and the resulting facts about the
  ROUTINE (`// actual code`, the body, `cleanup:`):

  * `refOps_rv`   which labels the codes returned by every method of `rvBackend` refer to (memory methods: only
                  the local labels `lab<n>` they define themselves);
  * `opsSat_rv`   every method returns codes whose operands are in range (`Code.operandsOk`: 12-bit signed
                  immediates of `ADDI`/`JALR`/`LW`/`SW`, 64-bit `LI`), for literals within i64, at most 512
                  xtors per type and at most 2048 pairs per substitution (the sharp capacity limits of the
                  backend: `C14RV_addAndJump_limit`, `C14RV_share_limit`, Props/C14RV.lean);
  * `wfLines_eq_tablesOk`  if the labels are pairwise distinct, every referenced label is defined and every
                  operand is in range, `wfLines lines` is its last test `tablesOk`;
  * `routine_facts`  these three hypotheses for the routine of every `LabelSafe`, linearly typed program in range.
  One walk through memory.rs (`MW`: operands of every item + closedness of the references).
  Proof file.
-/
import Scc.Backend.ProofsRefs
import Scc.RV.RefSideLabels
import Scc.RV.Machine

set_option linter.unusedVariables false
set_option linter.unusedSimpArgs false

namespace Scc.RV.Wf

open Scc.AxCut Scc.Backend Scc.RV Scc.RV.Ref
open Scc.Backend.Refs
open Scc.X86 (Post AllP OpsSat ProgB StmtB ClausesB)

/-! ## the label view -/

def dfn : Code → Option String
  | .LAB l => some l
  | _ => none

def V : View Code := ⟨dfn, Code.labelRef?⟩

theorem V_labs (l : List Code) : V.labs l = labs l := rfl

/-- plain items: operands in range, no label defined, no label referenced -/
def plB (c : Code) : Bool := c.operandsOk && (dfn c).isNone && (c.labelRef?).isNone

abbrev PL (l : List Code) : Prop := l.all plB = true

theorem pl_append {a b : List Code} : PL (a ++ b) ↔ PL a ∧ PL b := by simp [PL, List.all_append]
theorem pl_cons {c : Code} {l : List Code} : PL (c :: l) ↔ plB c = true ∧ PL l := by simp [PL, List.all_cons]
theorem pl_nil : PL [] := rfl
theorem pl_single {c : Code} (h : plB c = true) : PL [c] := pl_cons.2 ⟨h, pl_nil⟩

theorem PL.noRefs {l : List Code} (h : PL l) : NoRefs V l := by
  apply noRefs_of_forall
  intro c hc
  simp only [PL, List.all_eq_true] at h
  have := h c hc
  simp only [plB, Bool.and_eq_true, Option.isNone_iff_eq_none] at this
  exact this.2

theorem PL.ops {l : List Code} (h : PL l) : l.all Code.operandsOk = true := by
  simp only [PL, List.all_eq_true] at h ⊢
  intro c hc
  have := h c hc
  simp only [plB, Bool.and_eq_true] at this
  exact this.1.1

/-! ## operand ranges of the field offsets -/

theorem fitsI12_fieldOffset {number field : Nat} (hn : number ≤ 1) (hf : field ≤ 3) :
    fitsI12 (fieldOffset number field) = true := by
  simp only [fitsI12, fieldOffset, address, fieldSlotSize, Bool.and_eq_true]
  constructor <;> (apply decide_eq_true; omega)

theorem tempNum_le (n : TempNum) : n.toNat ≤ 1 := by cases n <;> simp [TempNum.toNat]

/-! ## memory.rs: operands and closedness -/

/-- every item has operands in range and every referenced label is defined in the list -/
def MW (l : List Code) : Prop := l.all Code.operandsOk = true ∧ Closed V l

theorem PL.mw {l : List Code} (h : PL l) : MW l := ⟨h.ops, h.noRefs.closed⟩

theorem MW.nil : MW [] := pl_nil.mw

theorem MW.append {a b : List Code} (ha : MW a) (hb : MW b) : MW (a ++ b) :=
  ⟨by rw [List.all_append, ha.1, hb.1]; rfl, ha.2.append hb.2⟩

abbrev PostMW (m : GenM (List Code)) : Prop := Post m MW

theorem postMW_skipIfZero (cond : Register) {body : List Code} (hb : MW body) :
    PostMW (skipIfZero cond body) := by
  unfold skipIfZero
  refine Post.bind (Post.true _) fun l _ => Post.pure ?_
  refine ⟨?_, ?_⟩
  · simp only [List.all_append, Bool.and_eq_true]
    exact ⟨⟨rfl, hb.1⟩, rfl⟩
  · intro r hr
    have e1 : V.refs [Code.BEQ cond ZERO (labName l)] = [labName l] := rfl
    have e2 : V.refs [Code.LAB (labName l)] = [] := rfl
    have e3 : V.labs [Code.LAB (labName l)] = [labName l] := rfl
    rw [Refs.refs_append, Refs.refs_append, e1, e2] at hr
    rw [Refs.labs_append, Refs.labs_append, e3]
    simp only [List.append_nil, List.singleton_append, List.mem_cons] at hr
    simp only [List.mem_append, List.mem_singleton]
    rcases hr with rfl | hr
    · exact Or.inr rfl
    · exact Or.inl (Or.inr (hb.2 r hr))

theorem postMW_ifZeroThenElse (cond : Register) {tb eb : List Code} (ht : MW tb) (he : MW eb) :
    PostMW (ifZeroThenElse cond tb eb) := by
  unfold ifZeroThenElse
  refine Post.bind (Post.true _) fun l1 _ => Post.bind (Post.true _) fun l2 _ => Post.pure ?_
  refine ⟨?_, ?_⟩
  · simp only [List.all_append, List.all_cons, List.all_nil, Bool.and_eq_true]
    exact ⟨⟨⟨⟨⟨rfl, trivial⟩, he.1⟩, rfl, rfl, trivial⟩, ht.1⟩, rfl, trivial⟩
  · intro r hr
    have e1 : V.refs [Code.BEQ cond ZERO (labName l1)] = [labName l1] := rfl
    have e2 : V.refs [Code.JAL ZERO (labName l2), Code.LAB (labName l1)] = [labName l2] := rfl
    have e3 : V.refs [Code.LAB (labName l2)] = [] := rfl
    have e4 : V.labs [Code.JAL ZERO (labName l2), Code.LAB (labName l1)] = [labName l1] := rfl
    have e5 : V.labs [Code.LAB (labName l2)] = [labName l2] := rfl
    rw [Refs.refs_append, Refs.refs_append, Refs.refs_append, Refs.refs_append, e1, e2, e3] at hr
    rw [Refs.labs_append, Refs.labs_append, Refs.labs_append, Refs.labs_append, e4, e5]
    simp only [List.append_nil, List.mem_append, List.mem_singleton] at hr ⊢
    rcases hr with ((rfl | hr) | rfl) | hr
    · exact Or.inl (Or.inl (Or.inr rfl))
    · exact Or.inl (Or.inl (Or.inl (Or.inr (he.2 r hr))))
    · exact Or.inr rfl
    · exact Or.inl (Or.inr (ht.2 r hr))

theorem postMW_eraseBlock (t : Register) : PostMW (eraseBlock t) := by
  unfold eraseBlock
  dsimp only
  refine Post.bind (postMW_ifZeroThenElse _ (PL.mw (l := [_, _, _]) rfl) (PL.mw (l := [_, _, _]) rfl))
    fun c hc => ?_
  exact postMW_skipIfZero _ (MW.append (PL.mw (l := [_, _]) rfl) hc)

theorem postMW_shareBlockN (t : Register) {n : Nat} (hn : n ≤ 2047) : PostMW (shareBlockN t n) := by
  unfold shareBlockN
  refine postMW_skipIfZero _ (PL.mw ?_)
  simp only [PL, List.all_cons, List.all_nil, Bool.and_eq_true, and_true]
  refine ⟨rfl, rfl, ?_, rfl⟩
  simp only [plB, Code.operandsOk, dfn, Code.labelRef?, fitsI12, Option.isNone_none, Bool.and_true,
    Bool.and_eq_true, decide_eq_true_eq]
  omega

theorem postMW_shareBlock (t : Register) : PostMW (shareBlock t) := postMW_shareBlockN t (by decide)

theorem pl_checkChild (k : Nat) (a r : Register) {off : Nat} (ho : off ≤ 3) :
    PL [Code.COMMENT ("#####check child " ++ toString k ++ " for erasure"), Code.LW a r (fieldOffset 0 off)] := by
  refine pl_cons.2 ⟨rfl, pl_single ?_⟩
  simp only [plB, Code.operandsOk, dfn, Code.labelRef?, Option.isNone_none, Bool.and_true]
  exact fitsI12_fieldOffset (by decide) ho

theorem postMW_eraseFields (r a : Register) : ∀ (n offset : Nat), offset + n ≤ 3 → PostMW (eraseFields r a n offset)
  | 0, _, _ => by unfold eraseFields; exact Post.pure MW.nil
  | n + 1, offset, h => by
    unfold eraseFields
    exact Post.bind (postMW_eraseBlock _) fun c hc =>
      Post.bind (postMW_eraseFields r a n (offset + 1) (by omega)) fun rest hrest =>
        Post.pure (MW.append (MW.append (pl_checkChild _ _ _ (by omega)).mw hc) hrest)

theorem postMW_acquireBlock (nb a : Register) : PostMW (acquireBlock nb a) := by
  unfold acquireBlock
  dsimp only
  refine Post.bind (postMW_eraseFields _ _ _ _ (by decide)) fun erased he => ?_
  refine Post.bind (postMW_ifZeroThenElse _ (PL.mw (l := [_, _]) rfl)
    (MW.append (PL.mw (l := [_, _, _]) rfl) he)) fun inner hi => ?_
  refine Post.bind (postMW_ifZeroThenElse _ (MW.append (PL.mw (l := [_, _, _]) rfl) hi)
    (PL.mw (l := [_, _]) rfl)) fun outer ho => ?_
  exact Post.pure (MW.append (PL.mw (l := [_, _, _, _]) rfl) ho)

theorem pl_releaseBlock (r : Register) : PL (releaseBlock r) := rfl

theorem pl_storeZero (r : Register) {off : Nat} (ho : off ≤ 3) : PL (storeZero r off) := by
  refine pl_single ?_
  simp only [plB, Code.operandsOk, dfn, Code.labelRef?, Option.isNone_none, Bool.and_true]
  exact fitsI12_fieldOffset (by decide) ho

theorem pl_storeZeros {k : Nat} (hk : k ≤ 3) (r : Register) : PL (storeZeros k r) := by
  unfold storeZeros
  simp only [PL, List.all_eq_true]
  intro c hc
  obtain ⟨o, ho, hco⟩ := List.mem_flatMap.1 hc
  have := List.mem_range.1 ho
  have h := pl_storeZero r (off := o) (by omega)
  simp only [PL, List.all_eq_true] at h
  exact h c hco

theorem post_storeField (n : TempNum) (ctx : Ctx) (r : Register) {off : Nat} (ho : off ≤ 3) :
    Post (storeField n ctx r off) (fun c => plB c = true) := by
  unfold storeField
  refine Post.bind (Post.true _) fun t _ => Post.pure ?_
  simp only [plB, Code.operandsOk, dfn, Code.labelRef?, Option.isNone_none, Bool.and_true]
  exact fitsI12_fieldOffset (tempNum_le n) ho

theorem post_loadField (n : TempNum) (ctx : Ctx) (r : Register) {off : Nat} (ho : off ≤ 3) :
    Post (loadField n ctx r off) (fun c => plB c = true) := by
  unfold loadField
  refine Post.bind (Post.true _) fun t _ => Post.pure ?_
  simp only [plB, Code.operandsOk, dfn, Code.labelRef?, Option.isNone_none, Bool.and_true]
  exact fitsI12_fieldOffset (tempNum_le n) ho

theorem postPL_storeValue (b : Binding) (ctx : Ctx) (r : Register) {off : Nat} (ho : off ≤ 3) :
    Post (storeValue b ctx r off) PL := by
  unfold storeValue
  refine Post.bind (post_storeField _ _ _ ho) fun c1 h1 => ?_
  split
  · exact Post.pure (pl_cons.2 ⟨h1, pl_storeZero _ ho⟩)
  · exact Post.bind (post_storeField _ _ _ ho) fun c2 h2 => Post.pure (pl_cons.2 ⟨h1, pl_single h2⟩)

theorem postMW_loadValue (b : Binding) (ctx : Ctx) (r : Register) {off : Nat} (ho : off ≤ 3) (mode : LoadMode) :
    PostMW (loadValue b ctx r off mode) := by
  unfold loadValue
  refine Post.bind (post_loadField _ _ _ ho) fun c1 h1 => ?_
  split
  · refine Post.bind (post_loadField _ _ _ ho) fun c2 h2 => ?_
    split
    · refine Post.bind (Post.true _) fun t _ => ?_
      exact Post.bind (postMW_shareBlock _) fun c3 h3 =>
        Post.pure (MW.append (PL.mw (pl_cons.2 ⟨h1, pl_single h2⟩)) h3)
    · exact Post.pure (PL.mw (pl_cons.2 ⟨h1, pl_single h2⟩))
  · exact Post.pure (PL.mw (pl_single h1))

theorem post_pred1 (n : Nat) : Post (pred1 n) (fun k => k + 1 = n) := by
  unfold pred1
  cases n with
  | zero => exact Post.throw
  | succ k => exact Post.pure rfl

theorem postPL_storeValuesLoop (ctx : Ctx) (r : Register) : ∀ (l : List Binding) (ff : Nat), ff ≤ 3 →
    Post (storeValuesLoop ctx r l ff) (fun res => PL res.1 ∧ res.2 ≤ 3)
  | [], ff, h => by unfold storeValuesLoop; exact Post.pure ⟨pl_nil, h⟩
  | b :: rest, ff, h => by
    unfold storeValuesLoop
    dsimp only
    refine Post.bind (post_pred1 _) fun off hoff => ?_
    refine Post.bind (postPL_storeValue _ _ _ (by omega)) fun c hc => ?_
    refine Post.bind (postPL_storeValuesLoop ctx r rest off (by omega)) fun res hres => ?_
    obtain ⟨cs, ff'⟩ := res
    exact Post.pure ⟨pl_append.2 ⟨hc, hres.1⟩, hres.2⟩

theorem postPL_storeValues (toStore ctx : Ctx) (r : Register) {ff : Nat} (hff : ff ≤ 3) :
    Post (storeValues toStore ctx r ff) PL := by
  unfold storeValues
  refine Post.bind (postPL_storeValuesLoop _ _ _ _ hff) fun res hres => ?_
  obtain ⟨cs, ff'⟩ := res
  refine Post.pure ?_
  simp only [pl_append]
  refine ⟨⟨⟨by decide, hres.1⟩, ?_⟩, pl_storeZeros hres.2 _⟩
  split
  · decide
  · rfl

theorem postMW_loadValuesLoop (ctx : Ctx) (r : Register) (mode : LoadMode) : ∀ (l : List Binding) (ff : Nat),
    ff ≤ 3 → PostMW (loadValuesLoop ctx r mode l ff)
  | [], ff, _ => by unfold loadValuesLoop; exact Post.pure MW.nil
  | b :: rest, ff, h => by
    unfold loadValuesLoop
    dsimp only
    refine Post.bind (post_pred1 _) fun off hoff => ?_
    refine Post.bind (postMW_loadValue _ _ _ (by omega) _) fun c hc => ?_
    refine Post.bind (postMW_loadValuesLoop ctx r mode rest off (by omega)) fun cs hcs => ?_
    exact Post.pure (MW.append hc hcs)

theorem postMW_loadValues (toLoad ctx : Ctx) (r : Register) {ff : Nat} (hff : ff ≤ 3) (mode : LoadMode) :
    PostMW (loadValues toLoad ctx r ff mode) := by
  unfold loadValues
  exact Post.bind (postMW_loadValuesLoop _ _ _ _ _ hff) fun cs hcs =>
    Post.pure (MW.append (PL.mw (l := [_]) rfl) hcs)

theorem fpb_sub_le (bp : BlockPosition) : fieldsPerBlock - bp.toNat ≤ 3 := by
  cases bp <;> decide

theorem postMW_storeFieldsF : ∀ (fuel : Nat) (toStore ctx : Ctx) (pos : BlockPosition),
    PostMW (storeFieldsF fuel toStore ctx pos)
  | 0, _, _, _ => by unfold storeFieldsF; exact Post.throw
  | fuel + 1, toStore, ctx, pos => by
    unfold storeFieldsF
    split
    · split
      · exact Post.bind (Post.true _) fun t _ => Post.pure (PL.mw (l := [_, _]) rfl)
      · exact Post.pure MW.nil
    · dsimp only
      have tail : ∀ c1, PL c1 →
          (∀ c3 c4 c5, PL c3 → MW c4 → MW c5 → MW (c1 ++
            (if (pos == BlockPosition.last) = true then [Code.COMMENT "#allocate memory"] else []) ++
            c3 ++ [Code.COMMENT "##acquire free block from heap register"] ++ c4 ++ c5)) := by
        intro c1 h1 c3 c4 c5 h3 h4 h5
        have hpl : PL (c1 ++ (if (pos == BlockPosition.last) = true then [Code.COMMENT "#allocate memory"] else []) ++
            c3 ++ [Code.COMMENT "##acquire free block from heap register"]) := by
          simp only [pl_append]
          refine ⟨⟨⟨h1, ?_⟩, h3⟩, by decide⟩
          split
          · decide
          · rfl
        exact MW.append (MW.append hpl.mw h4) h5
      split
      · refine Post.bind (post_storeField _ _ _ (by decide)) fun c hc => ?_
        refine Post.bind (Post.pure (pl_cons.2 ⟨rfl, pl_single hc⟩)) fun c1 h1 => ?_
        refine Post.bind (postPL_storeValues _ _ _ (fpb_sub_le pos)) fun c3 h3 => ?_
        refine Post.bind (Post.true _) fun nb _ => ?_
        refine Post.bind (Post.true _) fun at' _ => ?_
        refine Post.bind (postMW_acquireBlock _ _) fun c4 h4 => ?_
        refine Post.bind (postMW_storeFieldsF fuel _ _ _) fun c5 h5 => ?_
        exact Post.pure (tail c1 h1 c3 c4 c5 h3 h4 h5)
      · refine Post.bind (Post.pure pl_nil) fun c1 h1 => ?_
        refine Post.bind (postPL_storeValues _ _ _ (fpb_sub_le pos)) fun c3 h3 => ?_
        refine Post.bind (Post.true _) fun nb _ => ?_
        refine Post.bind (Post.true _) fun at' _ => ?_
        refine Post.bind (postMW_acquireBlock _ _) fun c4 h4 => ?_
        refine Post.bind (postMW_storeFieldsF fuel _ _ _) fun c5 h5 => ?_
        exact Post.pure (tail c1 h1 c3 c4 c5 h3 h4 h5)

theorem postMW_store (toStore ctx : Ctx) : PostMW (store toStore ctx) := by
  rw [← storeF_eq]
  exact postMW_storeFieldsF _ _ _ _

theorem postMW_loadFieldsF : ∀ (fuel : Nat) (toLoad ctx : Ctx) (pos : BlockPosition) (mode : LoadMode),
    PostMW (loadFieldsF fuel toLoad ctx pos mode)
  | 0, _, _, _, _ => by unfold loadFieldsF; exact Post.throw
  | fuel + 1, toLoad, ctx, pos, mode => by
    unfold loadFieldsF
    split
    · exact Post.pure MW.nil
    · dsimp only
      refine Post.bind (postMW_loadFieldsF fuel _ _ _ _) fun c1 h1 => ?_
      refine Post.bind (Post.true _) fun mb _ => ?_
      have h2 : PL (if (mode == LoadMode.release) = true then
          Code.COMMENT "###release block" :: releaseBlock mb else []) := by
        split
        · exact pl_cons.2 ⟨rfl, pl_releaseBlock _⟩
        · rfl
      split
      · refine Post.bind (post_loadField _ _ _ (by decide)) fun c hc => ?_
        refine Post.bind (Post.pure (pl_cons.2 ⟨rfl, pl_single hc⟩)) fun c3 h3 => ?_
        refine Post.bind (postMW_loadValues _ _ _ (fpb_sub_le pos) _) fun c4 h4 => Post.pure ?_
        exact MW.append (MW.append (MW.append h1 h2.mw) (PL.mw h3)) h4
      · refine Post.bind (Post.pure pl_nil) fun c3 h3 => ?_
        refine Post.bind (postMW_loadValues _ _ _ (fpb_sub_le pos) _) fun c4 h4 => Post.pure ?_
        exact MW.append (MW.append (MW.append h1 h2.mw) (PL.mw h3)) h4

theorem postMW_load (toLoad ctx : Ctx) : PostMW (load toLoad ctx) := by
  rw [← loadF_eq]
  unfold loadF
  split
  · exact Post.pure MW.nil
  · refine Post.bind (Post.true _) fun mb _ => ?_
    dsimp only
    refine Post.bind (postMW_loadFieldsF _ _ _ _ _) fun c1 h1 => ?_
    refine Post.bind (postMW_loadFieldsF _ _ _ _ _) fun c2 h2 => ?_
    refine Post.bind (postMW_ifZeroThenElse _ (MW.append (PL.mw (l := [_]) rfl) h1)
      (MW.append (PL.mw (l := [_, _, _]) rfl) h2)) fun c3 h3 => ?_
    exact Post.pure (MW.append (MW.append (PL.mw (l := [_, _]) rfl) (PL.mw (l := [_]) rfl)) h3)

/-! ## the instances -/

theorem refsTo_single {c : Code} {l : String} (h : c.labelRef? = some l) : RefsTo V l [c] := by
  intro r hr
  simpa [View.refs, V, h] using hr

theorem noRefs_single' {c : Code} (h : c.labelRef? = none) : NoRefs V [c] := noRefs_single (V := V) h

theorem refOps_rv : RefOps rvBackend V where
  comment := fun _ => ⟨rfl, rfl⟩
  label := fun _ => ⟨rfl, rfl⟩
  jump := fun t => noRefs_single' rfl
  jumpLabel := fun l => refsTo_single (c := .JAL ZERO l) rfl
  jumpLabelFixed := fun l => refsTo_single (c := .JAL ZERO l) rfl
  jumpLabelIf := fun s a b l => by
    show RefsTo V l (jumpLabelIf s a b l)
    cases s <;> exact refsTo_single rfl
  jumpLabelIfZero := fun s a l => by
    show RefsTo V l (jumpLabelIf s a ZERO l)
    cases s <;> exact refsTo_single rfl
  loadImmediate := fun t n => noRefs_single' rfl
  loadLabel := fun t l => refsTo_single (c := .LA t l) rfl
  addAndJump := fun t n => noRefs_of_forall (V := V) (by
    intro c hc
    simp only [rvBackend, addAndJump, List.mem_cons, List.not_mem_nil, or_false] at hc
    rcases hc with rfl | rfl <;> rfl)
  binop := fun o t a b => by
    show NoRefs V (binop o t a b)
    cases o <;> exact noRefs_single' rfl
  mov := fun t s => noRefs_single' rfl
  printI64 := fun nl t ctx => Post.throw
  eraseBlock := fun t => (postMW_eraseBlock t).mono fun _ h => h.2
  shareBlockN := fun t n => by
    show Post (shareBlockN t n) (Closed V)
    unfold shareBlockN
    refine Post.bind (Post.true _) fun l _ => Post.pure ?_
    intro r hr
    have : r = labName l := by
      simpa [View.refs, V, Code.labelRef?] using hr
    subst this
    simp [View.labs, V, dfn]
  store := fun a b => (postMW_store a b).mono fun _ h => h.2
  load := fun a b => (postMW_load a b).mono fun _ h => h.2
  storeTemporary := fun t sp => noRefs_single' rfl
  restoreTemporary := fun t sp => noRefs_single' rfl

theorem allP_of_all {l : List Code} (h : l.all Code.operandsOk = true) : AllP (fun c => c.operandsOk = true) l := by
  simpa [AllP, List.all_eq_true] using h

def maxTagsRV : Nat := 512
def maxSubstRV : Nat := 2048

theorem opsSat_rv : OpsSat rvBackend (fun c => c.operandsOk = true) (fun _ => True)
    (fun n => fitsI64 n = true) maxTagsRV maxSubstRV where
  temp := trivial
  return1 := trivial
  vt := fun _ _ _ => Post.true _
  comment := fun _ => rfl
  label := fun _ => rfl
  jump := fun t _ => allP_of_all rfl
  jumpLabel := fun l => allP_of_all rfl
  jumpLabelFixed := fun l => allP_of_all rfl
  jumpLabelIf := fun s a b l _ _ => by
    show AllP _ (jumpLabelIf s a b l)
    cases s <;> exact allP_of_all rfl
  jumpLabelIfZero := fun s a l _ => by
    show AllP _ (jumpLabelIf s a ZERO l)
    cases s <;> exact allP_of_all rfl
  loadImmediate := fun t n _ hn => allP_of_all (by
    show ([Code.LI t n].all Code.operandsOk) = true
    simp only [List.all_cons, List.all_nil, Code.operandsOk, Bool.and_true]; exact hn)
  tagLit := fun k hk => by
    show fitsI64 (jumpLength k) = true
    simp only [maxTagsRV] at hk
    have hk' : (k : Int) < 512 := by omega
    show (decide (-9223372036854775808 ≤ 4 * (k : Int)) && decide (4 * (k : Int) ≤ 9223372036854775807)) = true
    rw [Bool.and_eq_true]
    exact ⟨decide_eq_true (by omega), decide_eq_true (by omega)⟩
  loadLabel := fun t l _ => allP_of_all rfl
  addAndJump := fun t k _ hk => allP_of_all (by
    show ((addAndJump t (jumpLength k)).all Code.operandsOk) = true
    simp only [maxTagsRV] at hk
    simp only [addAndJump, List.all_cons, List.all_nil, Code.operandsOk, fitsI12, jumpLength, Bool.and_true,
      Bool.and_eq_true, decide_eq_true_eq]
    omega)
  binop := fun o t a b _ _ _ => by
    show AllP _ (binop o t a b)
    cases o <;> exact allP_of_all rfl
  mov := fun t s _ _ => allP_of_all rfl
  printI64 := fun _ _ _ _ => Post.throw
  eraseBlock := fun t _ => (postMW_eraseBlock t).mono fun _ h => allP_of_all h.1
  shareBlockN := fun t n _ hn => (postMW_shareBlockN t (by simp only [maxSubstRV] at hn; omega)).mono
    fun _ h => allP_of_all h.1
  store := fun a b => (postMW_store a b).mono fun _ h => allP_of_all h.1
  load := fun a b => (postMW_load a b).mono fun _ h => allP_of_all h.1
  storeTemporary := fun t sp _ => allP_of_all rfl
  restoreTemporary := fun t sp _ => allP_of_all rfl

/-- the bounds of a program (decidable: `inRangeB`) -/
def ProgInRangeRV (p : AxCut.Prog) : Prop := ProgB (fun n => fitsI64 n = true) maxTagsRV maxSubstRV p

mutual
  def stmtRangeB : Stmt → Bool
    | .subst pairs next => decide (pairs.length ≤ maxSubstRV) && stmtRangeB next
    | .call _ _ => true
    | .letS _ _ _ _ next _ => stmtRangeB next
    | .switch _ _ clauses _ => clausesRangeB clauses
    | .create _ _ _ clauses next _ _ => clausesRangeB clauses && stmtRangeB next
    | .invoke _ _ _ _ => true
    | .lit _ n next _ => fitsI64 n && stmtRangeB next
    | .op _ _ _ _ next _ => stmtRangeB next
    | .print _ _ next _ => stmtRangeB next
    | .ifc _ _ _ thenc elsec => stmtRangeB thenc && stmtRangeB elsec
    | .exit _ => true
  def clausesRangeB : Clauses → Bool
    | .nil => true
    | .cons _ _ body rest => stmtRangeB body && clausesRangeB rest
end

/-- THE DECIDABLE PER-PROGRAM CHECK of the RV64 backend for C14: literals are i64 values, at most 512 xtors per
    type, at most 2048 pairs per substitution -/
def inRangeB (p : AxCut.Prog) : Bool :=
  p.types.all (fun d => decide (d.xtors.length ≤ maxTagsRV)) && p.defs.all (fun d => stmtRangeB d.body)

mutual
  theorem stmtRange_sound : ∀ s : AxCut.Stmt, stmtRangeB s = true → StmtB (fun n => fitsI64 n = true) maxSubstRV s
    | .subst pairs next, h => by
      simp only [stmtRangeB, Bool.and_eq_true, decide_eq_true_eq] at h
      simp only [StmtB]
      exact ⟨h.1, stmtRange_sound next h.2⟩
    | .call _ _, _ => by simp [StmtB]
    | .letS _ _ _ _ next _, h => by
      simp only [stmtRangeB] at h; simp only [StmtB]; exact stmtRange_sound next h
    | .switch _ _ cl _, h => by
      simp only [stmtRangeB] at h; simp only [StmtB]; exact clausesRange_sound cl h
    | .create _ _ _ cl next _ _, h => by
      simp only [stmtRangeB, Bool.and_eq_true] at h
      simp only [StmtB]
      exact ⟨clausesRange_sound cl h.1, stmtRange_sound next h.2⟩
    | .invoke _ _ _ _, _ => by simp [StmtB]
    | .lit _ n next _, h => by
      simp only [stmtRangeB, Bool.and_eq_true] at h
      simp only [StmtB]
      exact ⟨h.1, stmtRange_sound next h.2⟩
    | .op _ _ _ _ next _, h => by
      simp only [stmtRangeB] at h; simp only [StmtB]; exact stmtRange_sound next h
    | .print _ _ next _, h => by
      simp only [stmtRangeB] at h; simp only [StmtB]; exact stmtRange_sound next h
    | .ifc _ _ _ t e, h => by
      simp only [stmtRangeB, Bool.and_eq_true] at h
      simp only [StmtB]
      exact ⟨stmtRange_sound t h.1, stmtRange_sound e h.2⟩
    | .exit _, _ => by simp [StmtB]
  theorem clausesRange_sound : ∀ cl : AxCut.Clauses, clausesRangeB cl = true →
      ClausesB (fun n => fitsI64 n = true) maxSubstRV cl
    | .nil, _ => by simp [ClausesB]
    | .cons _ _ body rest, h => by
      simp only [clausesRangeB, Bool.and_eq_true] at h
      simp only [ClausesB]
      exact ⟨stmtRange_sound body h.1, clausesRange_sound rest h.2⟩
end

theorem progInRange_of_check {p : AxCut.Prog} (h : inRangeB p = true) : ProgInRangeRV p := by
  simp only [inRangeB, Bool.and_eq_true, List.all_eq_true, decide_eq_true_eq] at h
  exact ⟨fun d hd => h.1 d hd, fun d hd => stmtRange_sound d.body (h.2 d hd)⟩

/-! ## the validator -/

/-- the labels whose address is taken -/
def takenOf (codes : List Code) : List String :=
  codes.filterMap fun c => match c with | .LA _ l => some l | _ => none

theorem firstDuplicate_none : ∀ {l : List String}, l.Nodup → firstDuplicate l = none
  | [], _ => rfl
  | x :: xs, h => by
    simp only [List.nodup_cons] at h
    simp only [firstDuplicate]
    have : xs.contains x = false := by simpa using h.1
    rw [this]
    exact firstDuplicate_none h.2

theorem find?_none_of {α : Type} {p : α → Bool} {l : List α} (h : ∀ a ∈ l, p a = false) : l.find? p = none := by
  rw [List.find?_eq_none]
  intro a ha
  simp [h a ha]

/-- if the labels are pairwise distinct, the referenced labels defined and the operands in range, the
    validator is its last test, the jump tables -/
theorem wfLines_eq_tablesOk (lines : List (Nat × Code))
    (hnd : (labs (lines.map (·.2))).Nodup)
    (hrefs : ∀ c ∈ lines.map (·.2), ∀ l, c.labelRef? = some l → l ∈ labs (lines.map (·.2)))
    (hops : ∀ c ∈ lines.map (·.2), c.operandsOk = true) :
    wfLines lines = tablesOk (labs (lines.map (·.2))) (takenOf (lines.map (·.2))) lines := by
  have h1 := firstDuplicate_none hnd
  have h2 : lines.find? (fun lc => match lc.2.labelRef? with
      | some l => !(labs (lines.map (·.2))).contains l | none => false) = none := by
    apply find?_none_of
    intro x hx
    cases hr : x.2.labelRef? with
    | none => rfl
    | some l =>
      have := hrefs x.2 (List.mem_map.2 ⟨x, hx, rfl⟩) l hr
      have : (labs (lines.map (·.2))).contains l = true := by simpa using this
      show (!(labs (lines.map (·.2))).contains l) = false
      rw [this]; rfl
  have h3 : lines.find? (fun lc => !lc.2.operandsOk) = none := by
    apply find?_none_of
    intro x hx
    rw [hops x.2 (List.mem_map.2 ⟨x, hx, rfl⟩)]; rfl
  unfold wfLines
  dsimp only
  generalize hL : (List.filterMap _ lines : List String) = L
  have hL' : L = labs (lines.map (·.2)) := by
    rw [← hL]; unfold labs; rw [List.filterMap_map]; rfl
  subst hL'
  generalize hT : (List.filterMap _ lines : List String) = T
  have hT' : T = takenOf (lines.map (·.2)) := by
    rw [← hT]; unfold takenOf; rw [List.filterMap_map]; rfl
  subst hT'
  rw [h1]
  dsimp only
  split
  · rename_i line c heq; exact absurd (h2.symm.trans heq) (by simp)
  · split
    · rename_i line c heq; exact absurd (h3.symm.trans heq) (by simp)
    · rfl

/-! ## comments -/

theorem labs_map_stripC (codes : List Code) : labs (codes.map stripC) = labs codes := by
  unfold labs
  rw [List.filterMap_map]
  congr 1
  funext c
  cases c <;> rfl

theorem labelRef_stripC (c : Code) : (stripC c).labelRef? = c.labelRef? := by cases c <;> rfl
theorem operandsOk_stripC (c : Code) : (stripC c).operandsOk = c.operandsOk := by cases c <;> rfl

/-- the three hypotheses of `wfLines_eq_tablesOk` do not depend on the text of comments -/
theorem facts_of_stripC {codes codes' : List Code} (e : codes'.map stripC = codes.map stripC)
    (hnd : (labs codes).Nodup)
    (hrefs : ∀ c ∈ codes, ∀ l, c.labelRef? = some l → l ∈ labs codes)
    (hops : ∀ c ∈ codes, c.operandsOk = true) :
    (labs codes').Nodup ∧ (∀ c ∈ codes', ∀ l, c.labelRef? = some l → l ∈ labs codes') ∧
      (∀ c ∈ codes', c.operandsOk = true) := by
  have hl : labs codes' = labs codes := by rw [← labs_map_stripC codes', e, labs_map_stripC]
  have hmem : ∀ c ∈ codes', ∃ c0 ∈ codes, stripC c = stripC c0 := by
    intro c hc
    have : stripC c ∈ codes.map stripC := by rw [← e]; exact List.mem_map.2 ⟨c, hc, rfl⟩
    obtain ⟨c0, h0, e0⟩ := List.mem_map.1 this
    exact ⟨c0, h0, e0.symm⟩
  refine ⟨hl ▸ hnd, ?_, ?_⟩
  · intro c hc l hr
    obtain ⟨c0, h0, e0⟩ := hmem c hc
    rw [hl]
    exact hrefs c0 h0 l (by rw [← labelRef_stripC, ← e0, labelRef_stripC]; exact hr)
  · intro c hc
    obtain ⟨c0, h0, e0⟩ := hmem c hc
    rw [← operandsOk_stripC, e0, operandsOk_stripC]
    exact hops c0 h0

/-! ## the routine -/

open Scc.Props.C14Generic (LabelSafe)

/-- **the routine of every `LabelSafe` program in range whose called definitions exist (e.g. a linearly typed
    one, `callsDefined_of_linTyped`): labels pairwise distinct, referenced labels defined, operands in range** -/
theorem routine_facts {p : AxCut.Prog} {hooks : Bool} {k : Nat} {body : List Code} {nargs k' : Nat}
    (hsafe : LabelSafe p = true) (hcalls : ∀ f ∈ defsCalls p.defs, f ∈ p.defs.map (·.name.print))
    (hrange : ProgInRangeRV p)
    (h : (compile rvBackend hooks p).run k = .ok ((body, nargs), k')) :
    let routine := [Code.COMMENT "actual code"] ++ body ++ [Code.LAB "cleanup"]
    (labs routine).Nodup ∧ (∀ c ∈ routine, ∀ l, c.labelRef? = some l → l ∈ labs routine) ∧
      (∀ c ∈ routine, c.operandsOk = true) := by
  intro routine
  have hnd := labels_unique_rv hsafe h
  have h1 := refs_defined refOps_rv hooks natRen p hcalls k _ k' h
  have h2 := Scc.X86.post_compileR opsSat_rv hooks natRen p hrange k _ k' h
  have hlabs : labs routine = labs (body ++ [Code.LAB "cleanup"]) := by
    show labs ([Code.COMMENT "actual code"] ++ body ++ [Code.LAB "cleanup"]) = _
    rw [List.append_assoc, Ref.labs_append]; rfl
  refine ⟨hlabs ▸ hnd, ?_, ?_⟩
  · intro c hc l hr
    rw [hlabs, Ref.labs_append]
    have hc' : c = Code.COMMENT "actual code" ∨ c ∈ body ∨ c = Code.LAB "cleanup" := by
      simpa [routine] using hc
    rcases hc' with rfl | hc' | rfl
    · cases hr
    · have hm : l ∈ V.refs body := List.mem_filterMap.2 ⟨c, hc', hr⟩
      rcases h1 l hm with h3 | h3
      · exact List.mem_append_left _ h3
      · subst h3; exact List.mem_append_right _ (by simp [labs])
    · cases hr
  · intro c hc
    have hc' : c = Code.COMMENT "actual code" ∨ c ∈ body ∨ c = Code.LAB "cleanup" := by
      simpa [routine] using hc
    rcases hc' with rfl | hc' | rfl
    · rfl
    · exact h2 c hc'
    · rfl

end Scc.RV.Wf
