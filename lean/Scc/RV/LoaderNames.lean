/-
  Scc.RV.LoaderNames — EVERY ROUTINE THE RISC-V BACKEND MODEL EMITS IS TEXT-SAFE (`routineTextOK`,
  Scc/RV/LoaderCheck.lean), from a decidable check on the names of the program:

  * `okcR`: the character class of names (no white space, not `/`, not `#`), `okcSpecR`;
    `labelDefOKB_genLabel` (the labels of the generic generator), `commentOKB_of_commentOK` (its comments);
  * the memory methods of the backend (memory.rs: `erase_block`, `share_block_n`, `store`, `load` with all their
    helpers) in ONE traversal: `GoodC h c` = the strings of `c` are text-safe, and IF `h` (the registers handed to
    the method exist) THEN the registers of `c` exist.  Internal labels are `lab<n>`, internal comments are
    literals or `#####check child <k> for erasure`, internal registers are `X0..X3` or fresh temporaries
    (`positionRegister`, which panics instead of returning a register beyond `X31`);
  * `opsNamesC_rv`: the instance of `Backend.NamesC.OpsNamesC` (names; Scc/Backend/LoaderNamesC.lean),
    `opsSat_rv`: the instance of `X86.OpsSat` (registers; Scc/X86/ProofsWfProg.lean) — no bounds on the program are
    needed for the existence of registers (`progB_exists`);
  * `post_compileR_head`: the emitted code starts with the label of the first definition;
  * `progNamesOK_mono`: the names check is monotone in the character class (so every program that passes the
    AArch64 check `progNamesOK okcA` passes `progNamesOK okcR`);
  * `compile_textOK`: `routineTextOK instrs = true` for every `instrs` the backend model emits for a program whose
    names pass `progNamesOK okcR`.
  Proof file.
-/
import Scc.Backend.LoaderNamesC
import Scc.RV.LoaderCheck

set_option linter.unusedVariables false
set_option linter.unusedSimpArgs false

namespace Scc.RV.Loader

open Scc.AxCut Scc.Backend Scc.RV Scc.Backend.NamesC Scc.Str
open Scc.X86 (AllP Post OpsSat ProgB StmtB ClausesB post_compileR)
open Scc.X86.Loader (StrOK OkcSpec GenLabel CtxVars identOK progNamesOK strOK_print natToString_toList)

/-! ## the character class of names -/

/-- characters of a name that is safe in RISC-V labels and hook comments -/
def okcR (c : Char) : Bool := !c.isWhitespace && c != '/' && c != '#'

theorem okcR_facts {c : Char} (h : okcR c = true) : c.isWhitespace = false ∧ c ≠ '/' ∧ c ≠ '#' := by
  simp only [okcR, Bool.and_eq_true, bne_iff_ne, ne_eq, Bool.not_eq_true'] at h
  exact ⟨h.1.1, h.1.2, h.2⟩

theorem okcR_digit {c : Char} (h : c.isDigit = true) : okcR c = true := by
  have hr : 48 ≤ c.val ∧ c.val ≤ 57 := by simpa [Char.isDigit] using h
  have key : ∀ d : Char, (d.val < 48 ∨ 57 < d.val) → c ≠ d := by
    intro d hd e; subst e
    rcases hd with hd | hd
    · exact absurd hr.1 (by simpa using hd)
    · exact absurd hr.2 (by simpa using hd)
  simp only [okcR, Bool.and_eq_true, bne_iff_ne, ne_eq, Bool.not_eq_true']
  exact ⟨⟨(isDigit_facts h).1, key _ (by decide)⟩, key _ (by decide)⟩

theorem okcSpecR : OkcSpec okcR where
  nl := by intro c h e; subst e; revert h; decide
  us := by decide
  digit := fun c hc => okcR_digit hc

theorem okcR_hash : okcR '#' = false := by decide

theorem strOK_natRenR (n : Nat) : StrOK okcR (natRen n) := Scc.X86.Loader.strOK_natToString okcSpecR n

/-! ## labels and comments of the generator -/

theorem labelDefOKB_of_strOK {l : String} (h : StrOK okcR l) (hne : l.toList ≠ []) : labelDefOKB l = true :=
  labelDefOKB_of_chars hne (fun c hc => ⟨(okcR_facts (h c hc)).1, (okcR_facts (h c hc)).2.1⟩)

theorem strOK_lab (n : Nat) : StrOK okcR ("lab" ++ toString n) := by
  intro c hc
  rw [String.toList_append, natToString_toList] at hc
  rcases List.mem_append.1 hc with hc | hc
  · have : ∀ c ∈ "lab".toList, okcR c = true := by decide
    exact this c hc
  · exact okcR_digit (isDigit_toDigits n c hc)

theorem labelDefOKB_lab (n : Nat) : labelDefOKB ("lab" ++ toString n) = true :=
  labelDefOKB_of_strOK (strOK_lab n) (by rw [String.toList_append]; simp)

theorem labelOKB_lab (n : Nat) : labelOKB ("lab" ++ toString n) = true := labelOKB_of_def (labelDefOKB_lab n)

theorem labelDefOKB_genLabel {l : String} (h : GenLabel okcR natRen l) : labelDefOKB l = true := by
  rcases h with ⟨h1, h2⟩ | ⟨n, rfl⟩ | rfl
  · exact labelDefOKB_of_strOK h1 (fun e => by rw [e] at h2; simp at h2)
  · exact labelDefOKB_lab n
  · decide

theorem labelOKB_genLabel {l : String} (h : GenLabel okcR natRen l) : labelOKB l = true :=
  labelOKB_of_def (labelDefOKB_genLabel h)

theorem commentOKB_of_commentOK {m : String} (h : CommentOK okcR m) : commentOKB m = true := by
  obtain ⟨h1, h2 | ⟨ctx, hc, rfl⟩⟩ := h
  · exact commentOKB_plain h1 h2
  · apply commentOKB_hook
    intro b hb c hcm
    exact (okcR_facts (strOK_print okcSpecR (hc b hb) c hcm)).1

/-! ## one item: names, and registers if the given registers exist -/

/-- the register exists -/
abbrev TOK (r : Register) : Prop := r.n < 32

/-- the strings of the item are text-safe; if `h` (the registers handed to the method exist), so are its
    registers -/
def GoodC (h : Prop) (c : Code) : Prop := nmR c = true ∧ (h → regsOKB c = true)

abbrev GoodL (h : Prop) (l : List Code) : Prop := AllP (GoodC h) l

theorem GoodC.mono {h h' : Prop} {c : Code} (hh : h' → h) (g : GoodC h c) : GoodC h' c :=
  ⟨g.1, fun x => g.2 (hh x)⟩

theorem GoodL.mono {h h' : Prop} {l : List Code} (hh : h' → h) (g : GoodL h l) : GoodL h' l :=
  fun c hc => (g c hc).mono hh

theorem regsOKB_iff (c : Code) : regsOKB c = true ↔ ∀ r ∈ regsOf c, TOK r := by
  simp only [regsOKB, regOKB, List.all_eq_true, registerNum, TOK]
  constructor
  · intro h r hr; exact of_decide_eq_true (h r hr)
  · intro h r hr; exact decide_eq_true (h r hr)

/-- an instruction without strings -/
theorem good_plain {h : Prop} {c : Code} (hn : nmR c = true) (hr : h → ∀ r ∈ regsOf c, TOK r) : GoodC h c :=
  ⟨hn, fun hh => (regsOKB_iff c).2 (hr hh)⟩

theorem good_comment {h : Prop} {m : String} (hm : commentOKB m = true) : GoodC h (.COMMENT m) :=
  ⟨hm, fun _ => rfl⟩

theorem good_lab {h : Prop} (n : Nat) : GoodC h (.LAB (labName n)) := ⟨labelDefOKB_lab n, fun _ => rfl⟩

theorem tok_zero : TOK ZERO := by decide
theorem tok_temp : TOK TEMP := by decide
theorem tok_heap : TOK HEAP := by decide
theorem tok_free : TOK FREE := by decide

/-- a register that is a constant or known to exist -/
local macro "tk" : tactic =>
  `(tactic| first
      | exact tok_zero | exact tok_temp | exact tok_heap | exact tok_free | assumption
      | exact (And.left ‹_ ∧ _›) | exact (And.right ‹_ ∧ _›))

/-- prove `GoodC h c` for an instruction `c` whose registers are constants or known to exist -/
local macro "gd" : tactic =>
  `(tactic| (
      refine good_plain (by first | rfl | exact labelOKB_lab _) (fun hh => ?_)
      intro r hr
      simp only [regsOf, List.mem_cons, List.not_mem_nil, or_false] at hr
      first
        | (rcases hr with h1 | h1 | h1 <;> subst h1 <;> tk)
        | (rcases hr with h1 | h1 <;> subst h1 <;> tk)
        | (subst hr; tk)))

/-! ## utils.rs: temporaries exist -/

theorem post_positionRegister (n : TempNum) (pos : Nat) : Post (positionRegister n pos) TOK := by
  unfold positionRegister
  dsimp only
  split
  · rename_i hlt; exact Post.pure (by simpa [TOK, registerNum] using hlt)
  · exact Post.throw

theorem post_freshTemporary (n : TempNum) (ctx : Ctx) : Post (freshTemporary n ctx) TOK :=
  post_positionRegister n _

theorem post_variableTemporary (n : TempNum) (ctx : Ctx) (id : Nat) : Post (variableTemporary n ctx id) TOK := by
  unfold variableTemporary
  split
  · exact Post.throw
  · exact post_positionRegister n _

/-! ## memory.rs -/

theorem post_skipIfZero {h : Prop} (cond : Register) {body : List Code} (hc : h → TOK cond) (hb : GoodL h body) :
    Post (skipIfZero cond body) (GoodL h) := by
  unfold skipIfZero
  refine Post.bind (Post.true _) fun l _ => Post.pure ?_
  refine AllP.append (AllP.append (AllP.single ?_) hb) (AllP.single (good_lab l))
  refine good_plain (labelOKB_lab _) (fun hh => ?_)
  have := hc hh
  intro r hr
  simp only [regsOf, List.mem_cons, List.not_mem_nil, or_false] at hr
  rcases hr with rfl | rfl <;> tk

theorem post_ifZeroThenElse {h : Prop} (cond : Register) {tb eb : List Code} (hc : h → TOK cond)
    (ht : GoodL h tb) (he : GoodL h eb) : Post (ifZeroThenElse cond tb eb) (GoodL h) := by
  unfold ifZeroThenElse
  refine Post.bind (Post.true _) fun l1 _ => Post.bind (Post.true _) fun l2 _ => Post.pure ?_
  refine AllP.append (AllP.append (AllP.append (AllP.append (AllP.single ?_) he)
    (AllP.cons ?_ (AllP.single (good_lab l1)))) ht) (AllP.single (good_lab l2))
  · refine good_plain (labelOKB_lab _) (fun hh => ?_)
    have := hc hh
    intro r hr
    simp only [regsOf, List.mem_cons, List.not_mem_nil, or_false] at hr
    rcases hr with rfl | rfl <;> tk
  · gd

theorem post_eraseBlock (t : Register) : Post (eraseBlock t) (GoodL (TOK t)) := by
  unfold eraseBlock
  dsimp only
  refine Post.bind (post_ifZeroThenElse (h := TOK t) TEMP (fun _ => tok_temp) ?_ ?_) fun c hc => ?_
  · exact AllP.cons (good_comment (by decide)) (AllP.cons (by gd) (AllP.single (by gd)))
  · exact AllP.cons (good_comment (by decide)) (AllP.cons (by gd) (AllP.single (by gd)))
  · refine post_skipIfZero t (fun hh => hh) (AllP.append ?_ hc)
    exact AllP.cons (good_comment (by decide)) (AllP.single (by gd))

theorem post_shareBlockN (t : Register) (n : Nat) : Post (shareBlockN t n) (GoodL (TOK t)) := by
  unfold shareBlockN
  refine post_skipIfZero t (fun hh => hh) ?_
  exact AllP.cons (good_comment (by decide)) (AllP.cons (by gd) (AllP.cons (by gd) (AllP.single (by gd))))

theorem post_shareBlock (t : Register) : Post (shareBlock t) (GoodL (TOK t)) := post_shareBlockN t 1

theorem commentOKB_checkChild (k : Nat) :
    commentOKB ("#####check child " ++ toString k ++ " for erasure") = true :=
  commentOKB_plain
    (Scc.X86.Loader.noNL_append.2 ⟨Scc.X86.Loader.noNL_append.2 ⟨by decide, Scc.X86.Loader.noNL_natToString k⟩,
      by decide⟩)
    (mm_not_prefix (mm_append (mm_append (by decide))))

theorem post_eraseFields (a b : Register) : ∀ (k offset : Nat),
    Post (eraseFields a b k offset) (GoodL (TOK a ∧ TOK b))
  | 0, _ => by unfold eraseFields; exact Post.pure AllP.nil
  | k + 1, offset => by
    unfold eraseFields
    refine Post.bind (post_eraseBlock b) fun c hc => ?_
    refine Post.bind (post_eraseFields a b k (offset + 1)) fun rest hrest => Post.pure ?_
    refine AllP.append (AllP.append (AllP.cons (good_comment (commentOKB_checkChild _)) (AllP.single ?_))
      (GoodL.mono (fun hh => hh.2) hc)) hrest
    gd

theorem post_acquireBlock (nb at' : Register) : Post (acquireBlock nb at') (GoodL (TOK nb ∧ TOK at')) := by
  unfold acquireBlock
  dsimp only
  refine Post.bind (post_eraseFields HEAP at' _ _) fun erase he => ?_
  have he' : GoodL (TOK nb ∧ TOK at') erase := GoodL.mono (fun hh => ⟨tok_heap, hh.2⟩) he
  refine Post.bind (post_ifZeroThenElse (h := TOK nb ∧ TOK at') FREE (fun _ => tok_free) ?_ ?_) fun inner hi => ?_
  · exact AllP.cons (good_comment (by decide)) (AllP.single (by gd))
  · exact AllP.append (AllP.cons (good_comment (by decide)) (AllP.cons (by gd)
      (AllP.single (good_comment (by decide))))) he'
  refine Post.bind (post_ifZeroThenElse (h := TOK nb ∧ TOK at') HEAP (fun _ => tok_heap) ?_ ?_) fun outer ho => ?_
  · exact AllP.append (AllP.cons (good_comment (by decide)) (AllP.cons (by gd) (AllP.single (by gd)))) hi
  · exact AllP.cons (good_comment (by decide)) (AllP.single (by gd))
  refine Post.pure (AllP.append ?_ ho)
  exact AllP.cons (by gd) (AllP.cons (good_comment (by decide)) (AllP.cons (good_comment (by decide))
    (AllP.single (by gd))))

theorem good_releaseBlock (r : Register) : GoodL (TOK r) (releaseBlock r) := by
  unfold releaseBlock
  exact AllP.cons (by gd) (AllP.single (by gd))

theorem good_storeZero (r : Register) (off : Nat) : GoodL (TOK r) (storeZero r off) := by
  unfold storeZero
  exact AllP.single (by gd)

theorem good_storeZeros (k : Nat) (r : Register) : GoodL (TOK r) (storeZeros k r) := by
  unfold storeZeros
  intro c hc
  obtain ⟨o, _, hco⟩ := List.mem_flatMap.1 hc
  exact good_storeZero r o c hco

theorem post_storeField (n : TempNum) (ctx : Ctx) (r : Register) (off : Nat) :
    Post (storeField n ctx r off) (GoodC (TOK r)) := by
  unfold storeField
  refine Post.bind (post_freshTemporary _ _) fun t ht => Post.pure ?_
  gd

theorem post_loadField (n : TempNum) (ctx : Ctx) (r : Register) (off : Nat) :
    Post (loadField n ctx r off) (GoodC (TOK r)) := by
  unfold loadField
  refine Post.bind (post_freshTemporary _ _) fun t ht => Post.pure ?_
  gd

theorem post_storeValue (b : Binding) (ctx : Ctx) (r : Register) (off : Nat) :
    Post (storeValue b ctx r off) (GoodL (TOK r)) := by
  unfold storeValue
  refine Post.bind (post_storeField _ _ _ _) fun c1 h1 => ?_
  split
  · exact Post.pure (AllP.cons h1 (good_storeZero _ _))
  · exact Post.bind (post_storeField _ _ _ _) fun c2 h2 => Post.pure (AllP.cons h1 (AllP.single h2))

theorem post_loadValue (b : Binding) (ctx : Ctx) (r : Register) (off : Nat) (mode : LoadMode) :
    Post (loadValue b ctx r off mode) (GoodL (TOK r)) := by
  unfold loadValue
  refine Post.bind (post_loadField _ _ _ _) fun c1 h1 => ?_
  split
  · refine Post.bind (post_loadField _ _ _ _) fun c2 h2 => ?_
    split
    · refine Post.bind (post_freshTemporary _ _) fun t ht => ?_
      refine Post.bind (post_shareBlock t) fun c3 h3 => Post.pure ?_
      exact AllP.append (AllP.cons h1 (AllP.single h2)) (GoodL.mono (fun _ => ht) h3)
    · exact Post.pure (AllP.cons h1 (AllP.single h2))
  · exact Post.pure (AllP.single h1)

theorem post_pred1 (ff : Nat) : Post (pred1 ff) (fun _ => True) := Post.true _

theorem post_storeValuesLoop (ctx : Ctx) (r : Register) : ∀ (l : List Binding) (ff : Nat),
    Post (storeValuesLoop ctx r l ff) (fun res => GoodL (TOK r) res.1)
  | [], ff => by unfold storeValuesLoop; exact Post.pure AllP.nil
  | b :: rest, ff => by
    unfold storeValuesLoop
    dsimp only
    refine Post.bind (post_pred1 ff) fun off _ => ?_
    refine Post.bind (post_storeValue _ _ _ _) fun c hc => ?_
    refine Post.bind (post_storeValuesLoop ctx r rest off) fun res hres => ?_
    obtain ⟨cs, ff'⟩ := res
    exact Post.pure (AllP.append hc hres)

theorem post_storeValues (toStore ctx : Ctx) (r : Register) (ff : Nat) :
    Post (storeValues toStore ctx r ff) (GoodL (TOK r)) := by
  unfold storeValues
  refine Post.bind (post_storeValuesLoop _ _ _ _) fun res hres => ?_
  obtain ⟨cs, ff'⟩ := res
  refine Post.pure (AllP.append (AllP.append (AllP.append (AllP.single (good_comment (by decide))) hres) ?_)
    (good_storeZeros _ _))
  exact AllP.ite (AllP.single (good_comment (by decide))) AllP.nil

theorem post_loadValuesLoop (ctx : Ctx) (r : Register) (mode : LoadMode) : ∀ (l : List Binding) (ff : Nat),
    Post (loadValuesLoop ctx r mode l ff) (GoodL (TOK r))
  | [], ff => by unfold loadValuesLoop; exact Post.pure AllP.nil
  | b :: rest, ff => by
    unfold loadValuesLoop
    dsimp only
    refine Post.bind (post_pred1 ff) fun off _ => ?_
    refine Post.bind (post_loadValue _ _ _ _ _) fun c hc => ?_
    refine Post.bind (post_loadValuesLoop ctx r mode rest off) fun cs hcs => ?_
    exact Post.pure (AllP.append hc hcs)

theorem post_loadValues (toLoad ctx : Ctx) (r : Register) (ff : Nat) (mode : LoadMode) :
    Post (loadValues toLoad ctx r ff mode) (GoodL (TOK r)) := by
  unfold loadValues
  exact Post.bind (post_loadValuesLoop _ _ _ _ _) fun cs hcs =>
    Post.pure (AllP.cons (good_comment (by decide)) hcs)

theorem good_true {l : List Code} {h : Prop} (hh : h) (g : GoodL h l) : GoodL True l :=
  GoodL.mono (fun _ => hh) g

theorem restLength_lt'' (l : Ctx) (bp : BlockPosition) (h : l ≠ []) : restLength l.length bp < l.length := by
  apply restLength_lt
  cases l with
  | nil => exact absurd rfl h
  | cons _ _ => simp

theorem post_storeFields : ∀ (k : Nat) (toStore rem : Ctx) (bp : BlockPosition), toStore.length ≤ k →
    Post (storeFields toStore rem bp) (GoodL True)
  | k, toStore, rem, bp, hk => by
    rw [storeFields]
    split
    · split
      · refine Post.bind (post_freshTemporary _ _) fun t ht => Post.pure ?_
        exact AllP.cons (good_comment (by decide)) (AllP.single (by gd))
      · exact Post.pure AllP.nil
    · rename_i hem
      have hne : toStore ≠ [] := by simpa using hem
      have hrl := restLength_lt'' toStore bp hne
      have hrec : Post (storeFields (toStore.take (restLength toStore.length bp)) rem .other) (GoodL True) := by
        cases k with
        | zero =>
          have : toStore.length = 0 := by omega
          exact absurd (List.length_eq_zero_iff.mp this) hne
        | succ k =>
          refine post_storeFields k _ rem .other ?_
          simp only [List.length_take]; omega
      have hcomm : GoodL True (if (bp == BlockPosition.last) = true then [Code.COMMENT "#allocate memory"] else []) :=
        AllP.ite (AllP.single (good_comment (by decide))) AllP.nil
      dsimp only
      split
      · refine Post.bind (post_storeField _ _ _ _) fun c hc => ?_
        refine Post.bind (Post.pure (Q := GoodL True)
          (AllP.cons (good_comment (by decide)) (AllP.single (hc.mono (fun _ => tok_heap))))) fun c1 h1 => ?_
        refine Post.bind (post_storeValues _ _ _ _) fun c3 h3 => ?_
        refine Post.bind (post_freshTemporary _ _) fun nb hnb => ?_
        refine Post.bind (post_freshTemporary _ _) fun at' hat => ?_
        refine Post.bind (post_acquireBlock nb at') fun c4 h4 => ?_
        refine Post.bind hrec fun c5 h5 => Post.pure ?_
        exact AllP.append (AllP.append (AllP.append (AllP.append (AllP.append h1 hcomm) (good_true tok_heap h3))
          (AllP.single (good_comment (by decide)))) (good_true ⟨hnb, hat⟩ h4)) h5
      · refine Post.bind (Post.pure (Q := GoodL True) AllP.nil) fun c1 h1 => ?_
        refine Post.bind (post_storeValues _ _ _ _) fun c3 h3 => ?_
        refine Post.bind (post_freshTemporary _ _) fun nb hnb => ?_
        refine Post.bind (post_freshTemporary _ _) fun at' hat => ?_
        refine Post.bind (post_acquireBlock nb at') fun c4 h4 => ?_
        refine Post.bind hrec fun c5 h5 => Post.pure ?_
        exact AllP.append (AllP.append (AllP.append (AllP.append (AllP.append h1 hcomm) (good_true tok_heap h3))
          (AllP.single (good_comment (by decide)))) (good_true ⟨hnb, hat⟩ h4)) h5

theorem post_store (a b : Ctx) : Post (store a b) (GoodL True) := by
  unfold store
  exact post_storeFields a.length a b .last (Nat.le_refl _)

theorem post_loadFields (mode : LoadMode) : ∀ (k : Nat) (toLoad ex : Ctx) (bp : BlockPosition), toLoad.length ≤ k →
    Post (loadFields toLoad ex bp mode) (GoodL True)
  | k, toLoad, ex, bp, hk => by
    rw [loadFields]
    split
    · exact Post.pure AllP.nil
    · rename_i hem
      have hne : toLoad ≠ [] := by simpa using hem
      have hrl := restLength_lt'' toLoad bp hne
      have hrec : Post (loadFields (toLoad.take (restLength toLoad.length bp)) ex .other mode) (GoodL True) := by
        cases k with
        | zero =>
          have : toLoad.length = 0 := by omega
          exact absurd (List.length_eq_zero_iff.mp this) hne
        | succ k =>
          refine post_loadFields mode k _ ex .other ?_
          simp only [List.length_take]; omega
      dsimp only
      refine Post.bind hrec fun c1 h1 => ?_
      refine Post.bind (post_freshTemporary _ _) fun mb hmb => ?_
      have hrel : GoodL True (if (mode == LoadMode.release) = true
          then Code.COMMENT "###release block" :: releaseBlock mb else []) :=
        AllP.ite (AllP.cons (good_comment (by decide)) (good_true hmb (good_releaseBlock mb))) AllP.nil
      split
      · refine Post.bind (post_loadField _ _ _ _) fun c hc => ?_
        refine Post.bind (Post.pure (Q := GoodL True)
          (AllP.cons (good_comment (by decide)) (AllP.single (hc.mono (fun _ => hmb))))) fun c3 h3 => ?_
        refine Post.bind (post_loadValues _ _ _ _ _) fun c4 h4 => Post.pure ?_
        exact AllP.append (AllP.append (AllP.append h1 hrel) h3) (good_true hmb h4)
      · refine Post.bind (Post.pure (Q := GoodL True) AllP.nil) fun c3 h3 => ?_
        refine Post.bind (post_loadValues _ _ _ _ _) fun c4 h4 => Post.pure ?_
        exact AllP.append (AllP.append (AllP.append h1 hrel) h3) (good_true hmb h4)

theorem post_load (a b : Ctx) : Post (load a b) (GoodL True) := by
  unfold load
  split
  · exact Post.pure AllP.nil
  · refine Post.bind (post_freshTemporary _ _) fun mb hmb => ?_
    dsimp only
    refine Post.bind (post_loadFields _ a.length a b .last (Nat.le_refl _)) fun c1 h1 => ?_
    refine Post.bind (post_loadFields _ a.length a b .last (Nat.le_refl _)) fun c2 h2 => ?_
    refine Post.bind (post_ifZeroThenElse (h := True) TEMP (fun _ => tok_temp) ?_ ?_) fun c3 h3 => Post.pure ?_
    · exact AllP.cons (good_comment (by decide)) h1
    · exact AllP.append (AllP.cons (good_comment (by decide)) (AllP.cons (by gd) (AllP.single (by gd)))) h2
    · exact AllP.append (AllP.append (AllP.cons (good_comment (by decide)) (AllP.single (by gd)))
        (AllP.single (good_comment (by decide)))) h3

/-! ## the instances -/

abbrev NmP (c : Code) : Prop := nmR c = true
abbrev RgP (c : Code) : Prop := regsOKB c = true

theorem nm_of_good {h : Prop} {l : List Code} (g : GoodL h l) : AllP NmP l := fun c hc => (g c hc).1
theorem rg_of_good {h : Prop} {l : List Code} (hh : h) (g : GoodL h l) : AllP RgP l := fun c hc => (g c hc).2 hh

/-- the strings of every item a backend method returns are text-safe (labels: `GenLabel`s, comments:
    `CommentOK`), whatever the registers are -/
theorem opsNamesC_rv : OpsNamesC rvBackend NmP (CommentOK okcR) (GenLabel okcR natRen) where
  comment := fun m hm => commentOKB_of_commentOK hm
  label := fun l hl => labelDefOKB_genLabel hl
  jump := fun t => AllP.single rfl
  jumpLabel := fun l hl => AllP.single (labelOKB_genLabel hl)
  jumpLabelFixed := fun l hl => AllP.single (labelOKB_genLabel hl)
  jumpLabelIf := fun s a b l hl => by cases s <;> exact AllP.single (labelOKB_genLabel hl)
  jumpLabelIfZero := fun s a l hl => by cases s <;> exact AllP.single (labelOKB_genLabel hl)
  loadImmediate := fun t n => AllP.single rfl
  loadLabel := fun t l hl => AllP.single (labelOKB_genLabel hl)
  addAndJump := fun t k => AllP.cons rfl (AllP.single rfl)
  binop := fun o t s1 s2 => by cases o <;> exact AllP.single rfl
  mov := fun t s => AllP.single rfl
  printI64 := fun nl t ctx => Post.throw
  eraseBlock := fun t => (post_eraseBlock t).mono fun _ => nm_of_good
  shareBlockN := fun t n => (post_shareBlockN t n).mono fun _ => nm_of_good
  store := fun a b => (post_store a b).mono fun _ => nm_of_good
  load := fun a b => (post_load a b).mono fun _ => nm_of_good
  storeTemporary := fun t sp => AllP.single rfl
  restoreTemporary := fun t sp => AllP.single rfl

/-- the registers of an instruction are constants or known to exist -/
local macro "rg" : tactic =>
  `(tactic| (
      refine (regsOKB_iff _).2 ?_
      intro r hr
      simp only [regsOf, List.mem_cons, List.not_mem_nil, or_false] at hr
      first
        | (rcases hr with h1 | h1 | h1 <;> subst h1 <;> tk)
        | (rcases hr with h1 | h1 <;> subst h1 <;> tk)
        | (subst hr; tk)))

/-- the registers of every item a backend method returns exist, if the registers it is handed exist — for
    programs of ANY size (the bounds `maxTags`, `maxSubst` of `OpsSat` are not needed) -/
theorem opsSat_rv (maxTags maxSubst : Nat) :
    OpsSat rvBackend RgP TOK (fun _ => True) maxTags maxSubst where
  temp := tok_temp
  return1 := by decide
  vt := fun n ctx id => post_variableTemporary n ctx id
  comment := fun m => rfl
  label := fun l => rfl
  jump := fun t ht => AllP.single (by rg)
  jumpLabel := fun l => AllP.single (by rg)
  jumpLabelFixed := fun l => AllP.single (by rg)
  jumpLabelIf := fun s a b l ha hb => by cases s <;> exact AllP.single (by rg)
  jumpLabelIfZero := fun s a l ha => by cases s <;> exact AllP.single (by rg)
  loadImmediate := fun t n ht _ => AllP.single (by rg)
  tagLit := fun _ _ => trivial
  loadLabel := fun t l ht => AllP.single (by rg)
  addAndJump := fun t k ht _ => AllP.cons (by rg) (AllP.single (by rg))
  binop := fun o t s1 s2 ht h1 h2 => by cases o <;> exact AllP.single (by rg)
  mov := fun t s ht hs => AllP.single (by rg)
  printI64 := fun nl t ctx ht => Post.throw
  eraseBlock := fun t ht => (post_eraseBlock t).mono fun _ => rg_of_good ht
  shareBlockN := fun t n ht _ => (post_shareBlockN t n).mono fun _ => rg_of_good ht
  store := fun a b => (post_store a b).mono fun _ => rg_of_good trivial
  load := fun a b => (post_load a b).mono fun _ => rg_of_good trivial
  storeTemporary := fun t sp ht => AllP.single (by rg)
  restoreTemporary := fun t sp ht => AllP.single (by rg)

/-! ## every program is within SOME bounds -/

mutual
  theorem stmtB_exists : ∀ s : Stmt, ∃ n, ∀ m, n ≤ m → StmtB (fun _ => True) m s
    | .subst pairs next => by
      obtain ⟨n, hn⟩ := stmtB_exists next
      exact ⟨n + pairs.length, fun m hm => by simp only [StmtB]; exact ⟨by omega, hn m (by omega)⟩⟩
    | .call _ _ => ⟨0, fun m _ => by simp [StmtB]⟩
    | .letS _ _ _ _ next _ => by
      obtain ⟨n, hn⟩ := stmtB_exists next
      exact ⟨n, fun m hm => by simp only [StmtB]; exact hn m hm⟩
    | .switch _ _ cl _ => by
      obtain ⟨n, hn⟩ := clausesB_exists cl
      exact ⟨n, fun m hm => by simp only [StmtB]; exact hn m hm⟩
    | .create _ _ _ cl next _ _ => by
      obtain ⟨n1, h1⟩ := clausesB_exists cl
      obtain ⟨n2, h2⟩ := stmtB_exists next
      exact ⟨n1 + n2, fun m hm => by simp only [StmtB]; exact ⟨h1 m (by omega), h2 m (by omega)⟩⟩
    | .invoke _ _ _ _ => ⟨0, fun m _ => by simp [StmtB]⟩
    | .lit _ _ next _ => by
      obtain ⟨n, hn⟩ := stmtB_exists next
      exact ⟨n, fun m hm => by simp only [StmtB]; exact ⟨trivial, hn m hm⟩⟩
    | .op _ _ _ _ next _ => by
      obtain ⟨n, hn⟩ := stmtB_exists next
      exact ⟨n, fun m hm => by simp only [StmtB]; exact hn m hm⟩
    | .print _ _ next _ => by
      obtain ⟨n, hn⟩ := stmtB_exists next
      exact ⟨n, fun m hm => by simp only [StmtB]; exact hn m hm⟩
    | .ifc _ _ _ t e => by
      obtain ⟨n1, h1⟩ := stmtB_exists t
      obtain ⟨n2, h2⟩ := stmtB_exists e
      exact ⟨n1 + n2, fun m hm => by simp only [StmtB]; exact ⟨h1 m (by omega), h2 m (by omega)⟩⟩
    | .exit _ => ⟨0, fun m _ => by simp [StmtB]⟩
  theorem clausesB_exists : ∀ c : Clauses, ∃ n, ∀ m, n ≤ m → ClausesB (fun _ => True) m c
    | .nil => ⟨0, fun m _ => by simp [ClausesB]⟩
    | .cons _ _ body rest => by
      obtain ⟨n1, h1⟩ := stmtB_exists body
      obtain ⟨n2, h2⟩ := clausesB_exists rest
      exact ⟨n1 + n2, fun m hm => by simp only [ClausesB]; exact ⟨h1 m (by omega), h2 m (by omega)⟩⟩
end

theorem defsB_exists : ∀ defs : List Def, ∃ n, ∀ m, n ≤ m → ∀ d ∈ defs, StmtB (fun _ => True) m d.body
  | [] => ⟨0, fun _ _ _ h => by simp at h⟩
  | d :: ds => by
    obtain ⟨n1, h1⟩ := stmtB_exists d.body
    obtain ⟨n2, h2⟩ := defsB_exists ds
    refine ⟨n1 + n2, fun m hm x hx => ?_⟩
    simp only [List.mem_cons] at hx
    rcases hx with rfl | hx
    · exact h1 m (by omega)
    · exact h2 m (by omega) x hx

theorem typesB_exists : ∀ types : List TypeDecl, ∃ n, ∀ d ∈ types, d.xtors.length ≤ n
  | [] => ⟨0, fun _ h => by simp at h⟩
  | d :: ds => by
    obtain ⟨n, hn⟩ := typesB_exists ds
    refine ⟨n + d.xtors.length, fun x hx => ?_⟩
    simp only [List.mem_cons] at hx
    rcases hx with rfl | hx
    · omega
    · have := hn x hx; omega

/-- every program is within SOME bounds -/
theorem progB_exists (p : AxCut.Prog) : ∃ mt ms, ProgB (fun _ => True) mt ms p := by
  obtain ⟨mt, ht⟩ := typesB_exists p.types
  obtain ⟨ms, hs⟩ := defsB_exists p.defs
  exact ⟨mt, ms, ht, hs ms (Nat.le_refl _)⟩

/-! ## the emitted code starts with a label -/

section Head

variable {Code T : Type} (B : Backend Code T)

theorem post_translateR_ne (hooks : Bool) (ren : Nat → String) (types : List TypeDecl) (d : Def) (ds : List Def) :
    Post (translateR B hooks ren types (d :: ds)) (fun blocks => ∃ b bs, blocks = b :: bs) := by
  simp only [translateR]
  exact Post.bind (Post.true _) fun is _ => Post.bind (Post.true _) fun rest _ => Post.pure ⟨is, rest, rfl⟩

/-- the code of a program starts with the label of its first definition -/
theorem post_compileR_head (hooks : Bool) (ren : Nat → String) (p : AxCut.Prog) :
    Post (compileR B hooks ren p) (fun r => ∃ l rest, r.1 = B.label l :: rest) := by
  unfold compileR
  cases hd : p.defs with
  | nil => exact Post.throw
  | cons d0 ds =>
    dsimp only
    refine Post.bind (post_translateR_ne B hooks ren p.types d0 ds) fun blocks hb => Post.pure ?_
    obtain ⟨b, bs, rfl⟩ := hb
    exact ⟨_, _, rfl⟩

end Head

/-! ## the names check is monotone in the character class -/

section Mono

open Scc.X86.Loader (tyLabelOK tyNoNL bindingOK ctxOK stmtNamesOK clausesNamesOK defNamesOK)

variable {okc1 okc2 : Char → Bool} (hsub : ∀ c, okc1 c = true → okc2 c = true)

include hsub

theorem identOK_mono {i : Ident} (h : identOK okc1 i = true) : identOK okc2 i = true := by
  simp only [identOK, List.all_eq_true] at h ⊢
  exact fun c hc => hsub c (h c hc)

theorem tyLabelOK_mono {ty : Ty} (h : tyLabelOK okc1 ty = true) : tyLabelOK okc2 ty = true := by
  simp only [tyLabelOK, List.all_eq_true] at h ⊢
  exact fun c hc => hsub c (h c hc)

theorem ctxOK_mono {c : Ctx} (h : ctxOK okc1 c = true) : ctxOK okc2 c = true := by
  simp only [ctxOK, List.all_eq_true, bindingOK, Bool.and_eq_true] at h ⊢
  exact fun b hb => ⟨identOK_mono hsub (h b hb).1, (h b hb).2⟩

mutual
  theorem stmtNamesOK_mono : ∀ s : Stmt, stmtNamesOK okc1 s = true → stmtNamesOK okc2 s = true
    | .subst pairs next, h => by
      simp only [stmtNamesOK, Bool.and_eq_true, List.all_eq_true] at h ⊢
      exact ⟨fun e he => ⟨identOK_mono hsub (h.1 e he).1, identOK_mono hsub (h.1 e he).2⟩,
        stmtNamesOK_mono next h.2⟩
    | .call _ _, h => by
      simp only [stmtNamesOK] at h ⊢; exact identOK_mono hsub h
    | .letS _ _ _ _ next _, h => by
      simp only [stmtNamesOK, Bool.and_eq_true] at h ⊢
      obtain ⟨⟨⟨⟨h1, h2⟩, h3⟩, h4⟩, h5⟩ := h
      exact ⟨⟨⟨⟨identOK_mono hsub h1, h2⟩, identOK_mono hsub h3⟩, ctxOK_mono hsub h4⟩, stmtNamesOK_mono next h5⟩
    | .switch _ _ cl _, h => by
      simp only [stmtNamesOK, Bool.and_eq_true] at h ⊢
      obtain ⟨⟨h1, h2⟩, h3⟩ := h
      exact ⟨⟨identOK_mono hsub h1, tyLabelOK_mono hsub h2⟩, clausesNamesOK_mono cl h3⟩
    | .create _ _ env cl next _ _, h => by
      simp only [stmtNamesOK, Bool.and_eq_true] at h ⊢
      obtain ⟨⟨⟨⟨⟨h1, h2⟩, h3⟩, h4⟩, h5⟩, h6⟩ := h
      refine ⟨⟨⟨⟨⟨identOK_mono hsub h1, h2⟩, tyLabelOK_mono hsub h3⟩, ?_⟩, clausesNamesOK_mono cl h5⟩,
        stmtNamesOK_mono next h6⟩
      cases env with
      | none => rfl
      | some e => exact ctxOK_mono hsub h4
    | .invoke _ _ _ _, h => by
      simp only [stmtNamesOK, Bool.and_eq_true] at h ⊢
      exact ⟨⟨identOK_mono hsub h.1.1, identOK_mono hsub h.1.2⟩, ctxOK_mono hsub h.2⟩
    | .lit _ _ next _, h => by
      simp only [stmtNamesOK, Bool.and_eq_true] at h ⊢
      exact ⟨identOK_mono hsub h.1, stmtNamesOK_mono next h.2⟩
    | .op _ _ _ _ next _, h => by
      simp only [stmtNamesOK, Bool.and_eq_true] at h ⊢
      exact ⟨⟨⟨identOK_mono hsub h.1.1.1, identOK_mono hsub h.1.1.2⟩, identOK_mono hsub h.1.2⟩,
        stmtNamesOK_mono next h.2⟩
    | .print _ _ next _, h => by
      simp only [stmtNamesOK, Bool.and_eq_true] at h ⊢
      exact ⟨identOK_mono hsub h.1, stmtNamesOK_mono next h.2⟩
    | .ifc _ _ snd t e, h => by
      simp only [stmtNamesOK, Bool.and_eq_true] at h ⊢
      obtain ⟨⟨⟨h1, h2⟩, h3⟩, h4⟩ := h
      refine ⟨⟨⟨identOK_mono hsub h1, ?_⟩, stmtNamesOK_mono t h3⟩, stmtNamesOK_mono e h4⟩
      cases snd with
      | none => rfl
      | some s => exact identOK_mono hsub h2
    | .exit _, h => by
      simp only [stmtNamesOK] at h ⊢; exact identOK_mono hsub h
  theorem clausesNamesOK_mono : ∀ c : Clauses, clausesNamesOK okc1 c = true → clausesNamesOK okc2 c = true
    | .nil, _ => by simp [clausesNamesOK]
    | .cons _ _ body rest, h => by
      simp only [clausesNamesOK, Bool.and_eq_true] at h ⊢
      obtain ⟨⟨⟨h1, h2⟩, h3⟩, h4⟩ := h
      exact ⟨⟨⟨identOK_mono hsub h1, ctxOK_mono hsub h2⟩, stmtNamesOK_mono body h3⟩, clausesNamesOK_mono rest h4⟩
end

/-- a program whose names pass the check for a character class passes it for every larger class -/
theorem progNamesOK_mono {p : AxCut.Prog} (h : progNamesOK okc1 p = true) : progNamesOK okc2 p = true := by
  simp only [progNamesOK, List.all_eq_true, defNamesOK, Bool.and_eq_true] at h ⊢
  intro d hd
  obtain ⟨⟨h1, h2⟩, h3⟩ := h d hd
  exact ⟨⟨identOK_mono hsub h1, ctxOK_mono hsub h2⟩, stmtNamesOK_mono hsub d.body h3⟩

end Mono

/-! ## whole programs -/

/-- **every routine the RISC-V backend model emits for a program with text-safe names is text-safe** -/
theorem compile_textOK {p : AxCut.Prog} {hooks : Bool} {c0 : Nat} {instrs : List Code} {nargs c' : Nat}
    (hp : progNamesOK okcR p = true)
    (h : (compile rvBackend hooks p).run c0 = .ok ((instrs, nargs), c')) : routineTextOK instrs = true := by
  have hn : AllP NmP instrs :=
    post_compileR_namesC okcSpecR okcR_hash strOK_natRenR opsNamesC_rv hooks p hp c0 _ c' h
  obtain ⟨mt, ms, hb⟩ := progB_exists p
  have hr : AllP RgP instrs := post_compileR (opsSat_rv mt ms) hooks natRen p hb c0 _ c' h
  obtain ⟨l, rest, hl⟩ := post_compileR_head rvBackend hooks natRen p c0 _ c' h
  simp only [routineTextOK, Bool.and_eq_true, List.all_eq_true, itemTextOK]
  refine ⟨?_, fun c hc => ⟨hr c hc, hn c hc⟩⟩
  simp only at hl
  rw [hl]; rfl

end Scc.RV.Loader
