/-
  Scc.RV.RefMem — MEMORY CONTRACTS of `erase_block` and `share_block_n` (memory.rs) on the RV64 machine
  against the heap model Scc/Heap/Model.lean (`Scc.Heap.eraseBlock`, `Scc.Heap.shareBlock`), in the
  vocabulary of Props/C08RV.lean (`Boundary` / `HeapRel` / `FrameR`): the two contracts that the three-way
  simulation of `subst` needs besides `store` / `load` (Scc/RV/MemProofs*.lean).
-/
import Scc.RV.MemProofsLoad
import Scc.RV.MemProofsFree

set_option linter.unusedVariables false
set_option linter.unusedSimpArgs false

namespace Scc.RV

open Scc.AxCut Scc.Backend

/-- the code of `share_block_n` for a pointer in register `r` (label `l`) -/
def shareNCode (r : Register) (n : Nat) (l : String) : List Code :=
  [.BEQ r ZERO l] ++
    [.COMMENT "####increment refcount", .LW TEMP r referenceCountOffset,
     .ADDI TEMP TEMP (n : Int), .SW TEMP r referenceCountOffset] ++ [.LAB l]

theorem shareBlockN_run' (r : Register) (n k : Nat) :
    (shareBlockN r n).run k = .ok (shareNCode r n (labName (k + 1)), k + 1) := rfl

theorem labsIn_shareNCode (r : Register) (n k : Nat) : LabsIn (shareNCode r n (labName (k + 1))) k (k + 1) := by
  intro l hl
  simp only [shareNCode, List.mem_cons, List.mem_append, reduceCtorEq, false_or, Code.LAB.injEq,
    List.not_mem_nil, or_false] at hl
  exact ⟨k + 1, hl, by omega, by omega⟩

section View
variable {cfg : MonCfg} {μ : MState} {h h' : Scc.Heap.HState}

/-- `share_block_n` on the view, pointer in any variable register: `n` more references -/
theorem m_shareN (C : CfgOK cfg) (H : HRelM cfg μ h) {r : Register} (h1 : 4 ≤ r.n) (h2 : r.n < 32) {p : Word}
    (hv : μ.val r.n = some p) {n : Nat} (hop : Scc.Heap.shareBlock h p.toNat n = .ok h')
    (hno : p ≠ 0 → h.mem.get p.toNat + n < 2 ^ 64) (l : String) :
    ∃ μ', mFwd cfg (shareNCode r n l) μ = some (μ', .fall) ∧ HRelM cfg μ' h' ∧
      (∀ u, u ≠ 1 → μ'.val u = μ.val u) := by
  have hrd : ∀ ν : MState, ν.rd r = ν.val r.n := fun ν => MState.rd_of (by omega) h2
  have h0 : ¬ r.n = 0 := by omega
  have hr1 : ¬ r.n = 1 := by omega
  by_cases hp : p = 0
  · subst hp
    have : h' = h := by
      simp [Scc.Heap.shareBlock] at hop
      exact hop.symm
    subst this
    refine ⟨μ, ?_, H, fun _ _ => rfl⟩
    unfold shareNCode
    exact mFwd_skip_taken cfg r _ _ μ (by rw [hrd, hv]) (by simp [skipTo])
  · have hp' : p.toNat ≠ 0 := fun e => hp (BitVec.eq_of_toNat_eq (by simpa using e))
    unfold Scc.Heap.shareBlock at hop
    rw [if_neg hp'] at hop
    cases hrdc : Scc.Heap.rd h p.toNat with
    | error f => simp [hrdc] at hop
    | ok cnt =>
      simp only [hrdc] at hop
      obtain ⟨hok, hcnt⟩ := rd_eq_ok.1 hrdc
      obtain ⟨_, rfl⟩ := wr_eq_ok.1 hop
      have ha : haddr cfg p 0 = some p.toNat := haddr_ok0 C H hok
      have hw : (μ.heap p.toNat + imm ((n : Nat) : Int)).toNat = cnt + n := by
        have := toNat_add_imm_nat (μ.heap p.toNat) n (by rw [← H.mem]; exact hno hp)
        rw [hcnt, H.mem]; exact this
      refine ⟨((μ.setT 1 (some (μ.heap p.toNat))).setT 1 (some (μ.heap p.toNat + imm ((n : Nat) : Int)))).setH
        p.toNat (μ.heap p.toNat + imm ((n : Nat) : Int)), ?_, ?_, fun u hu => by simp [hu]⟩
      · unfold shareNCode
        refine mFwd_skip_not_taken cfg r _ _ μ _ (by rw [hrd, hv]) hp ?_
        simp [mFwd_cons, mFwd_nil, mcont, mexecC, mexec, MState.rd, h0, h2, hr1, hv, ha]
      · have := ((H.setT (t := 1) (by decide) (by decide) (some (μ.heap p.toNat))).setT (t := 1) (by decide)
          (by decide) (some (μ.heap p.toNat + imm ((n : Nat) : Int)))).setH p.toNat
            (μ.heap p.toNat + imm ((n : Nat) : Int))
        rw [hw] at this
        exact this

end View

section Machine
variable {cfg : MonCfg} {la : String → Option Nat} {st : State}

/-- CONTRACT of `share_block_n` on the RV64 machine: the pointer in a variable register gets `n` more
references (`Scc.Heap.shareBlock`); only TEMP and the heap change -/
theorem shareBlockN_contract (B : Boundary cfg st) {h h' : Scc.Heap.HState} (R : HeapRel cfg st h)
    {r : Register} (h1 : 4 ≤ r.n) (h2 : r.n < 32) {p : Word} (hv : (mview st).val r.n = some p) {n : Nat}
    (hop : Scc.Heap.shareBlock h p.toNat n = .ok h') (hno : p ≠ 0 → h.mem.get p.toNat + n < 2 ^ 64) (k : Nat) :
    ∃ code, (shareBlockN r n).run k = .ok (code, k + 1) ∧ LabsIn code k (k + 1) ∧ MemFree code ∧
      ∃ st', execFwd cfg la code st = .ok (st', .fall) ∧ Boundary cfg st' ∧ HeapRel cfg st' h' ∧
        FrameR st st' (fun u => u = 1) := by
  obtain ⟨μ', hx, H', hfr⟩ := m_shareN B.top (heapRel_mview R) h1 h2 hv hop hno (labName (k + 1))
  obtain ⟨st', e, B', M', F⟩ := m_to_machine la B hx (changed := fun u => u = 1) (fun u hu => hfr u hu)
  exact ⟨_, shareBlockN_run' r n k, labsIn_shareNCode r n k, memFree_of_all rfl, st', e, B',
    heapRel_of_mrep M' H', F⟩

/-- CONTRACT of `erase_block` on the RV64 machine: the reference in a variable register is given up
(`Scc.Heap.eraseBlock`: count decremented, or the block goes onto the lazy free list); only TEMP, FREE and
the heap change -/
theorem eraseBlock_contract (B : Boundary cfg st) {h h' : Scc.Heap.HState} (R : HeapRel cfg st h)
    {r : Register} (h1 : 4 ≤ r.n) (h2 : r.n < 32) {p : Word} (hv : (mview st).val r.n = some p)
    (hop : Scc.Heap.eraseBlock h p.toNat = .ok h') (k : Nat) :
    ∃ code, (eraseBlock r).run k = .ok (code, k + 3) ∧ LabsIn code k (k + 3) ∧ MemFree code ∧
      ∃ st', execFwd cfg la code st = .ok (st', .fall) ∧ Boundary cfg st' ∧ HeapRel cfg st' h' ∧
        FrameR st st' (fun u => u = 1 ∨ u = 3) := by
  obtain ⟨μ', hx, H', hfr⟩ := m_erase B.top (heapRel_mview R) (by omega) h2 (by omega) hv hop
    (labName (k + 1)) (labName (k + 2)) (labName (k + 3))
    (fun e => by have := labName_inj.1 e; omega) (fun e => by have := labName_inj.1 e; omega)
    (fun e => by have := labName_inj.1 e; omega)
  obtain ⟨st', e, B', M', F⟩ := m_to_machine la B hx (changed := fun u => u = 1 ∨ u = 3)
    (fun u hu => hfr u (fun e => hu (Or.inr e)) (fun e => hu (Or.inl e)))
  exact ⟨_, eraseBlock_run r k, labsIn_eraseBlockCode r k, memFree_eraseBlockCode r _ _ _, st', e, B',
    heapRel_of_mrep M' H', F⟩

end Machine

end Scc.RV
