/-
  Scc.RV.MemProofsStore — the contract of `store` (memory.rs: store_field, store_zero(s),
  store_value(s), store_fields, Memory::store) against `Scc.Heap.storeObj`, for objects of ANY number
  of fields (one block or a chain of linked blocks), first on the view (MemProofsView.lean), then on
  the machine.

  Environment: the variable at context position `i` lives in the registers `posReg (2 i)` (pointer
  part, only for non-`ext` variables) and `posReg (2 i + 1)` (word part) — utils.rs: register
  `2 * position + number + RESERVED`; positions 0..13 (there are no spills on RV64).
-/
import Scc.RV.MemProofsHeap

set_option linter.unusedSimpArgs false
set_option linter.unusedVariables false

namespace Scc.RV

open Scc.AxCut
open Scc.Backend (GenM TempNum freshLabel)

/-! ## runs of generators -/

theorem genm_bind {α β : Type} {m : GenM α} {f : α → GenM β} {k k1 : Nat} {a : α}
    (h1 : m.run k = .ok (a, k1)) : (m >>= f).run k = (f a).run k1 := by
  rw [StateT.run_bind, h1]; rfl

theorem genm_pure {α : Type} (a : α) (k : Nat) : (pure a : GenM α).run k = .ok (a, k) := rfl

/-! ## registers of context positions (utils.rs) -/

/-- the register number of temporary `n` (= `2 * position + number`): `n + RESERVED` -/
def posReg (n : Nat) : Nat := n + 4

/-- … as a register -/
def posTemp (n : Nat) : Register := ⟨posReg n⟩

@[simp] theorem posTemp_n (n : Nat) : (posTemp n).n = posReg n := rfl

theorem posReg_inj {m n : Nat} : posReg m = posReg n ↔ m = n := by
  unfold posReg; omega

theorem posReg_ne_low (n : Nat) : posReg n ≠ 1 ∧ posReg n ≠ 2 ∧ posReg n ≠ 3 ∧ posReg n ≠ 0 := by
  unfold posReg; omega

theorem freshTemporary_run {num : TempNum} {ctx : Ctx} (k : Nat) (h : 2 * ctx.length + num.toNat < 28) :
    (freshTemporary num ctx).run k = .ok (posTemp (2 * ctx.length + num.toNat), k) := by
  unfold freshTemporary positionRegister
  have : 2 * ctx.length + num.toNat + reserved < registerNum := by
    simp only [reserved, registerNum]; omega
  rw [if_pos this]
  rfl

/-! ## store_field, store_zero -/

theorem storeField_run (num : TempNum) (ctx : Ctx) (blk : Register) (off k : Nat)
    (h : 2 * ctx.length + num.toNat < 28) :
    (storeField num ctx blk off).run k =
      .ok (.SW (posTemp (2 * ctx.length + num.toNat)) blk (fieldOffset num.toNat off), k) := by
  unfold storeField
  rw [genm_bind (freshTemporary_run k h)]
  rfl

section Prim
variable {cfg : MonCfg} {μ : MState} {h h' : Scc.Heap.HState}

/-- `[blk + off] := t` is the model's `wr` -/
theorem m_storeFieldCode (C : CfgOK cfg) (H : HRelM cfg μ h) {t : Register} {v : Word}
    (hv : μ.rd t = some v) {blk : Register} {b : Word} (hvb : μ.rd blk = some b) {off : Nat}
    (hwr : Scc.Heap.wr h (b.toNat + off) v.toNat = .ok h') :
    ∃ μ', mFwd cfg [.SW t blk (off : Int)] μ = some (μ', .fall) ∧ HRelM cfg μ' h' ∧ μ'.val = μ.val := by
  obtain ⟨hok, rfl⟩ := wr_eq_ok.1 hwr
  have ha := haddr_ok C H hok
  refine ⟨μ.setH (b.toNat + off) v, ?_, H.setH _ _, rfl⟩
  simp [mFwd_cons, mFwd_nil, mcont, mexecC, mexec, hv, hvb, ha]

/-- `store_zero`: `[blk + fst off] := 0` -/
theorem m_storeZero (C : CfgOK cfg) (H : HRelM cfg μ h) {blk : Register} {b : Word}
    (hvb : μ.rd blk = some b) {off : Nat}
    (hwr : Scc.Heap.wr h (b.toNat + Scc.Heap.fstOff off) 0 = .ok h') :
    ∃ μ', mFwd cfg (storeZero blk off) μ = some (μ', .fall) ∧ HRelM cfg μ' h' ∧ μ'.val = μ.val := by
  unfold storeZero
  rw [fieldOffset_fst]
  exact m_storeFieldCode C H (t := ZERO) (v := 0) (μ.rd_zero) hvb hwr

end Prim

/-! ## the environment: which model fields the variables of a context hold -/

/-- the variable `b` at context position `n` holds the model field `f`: an `ext` variable an integer
(word part), any other variable a pointer part and a word part -/
def FieldAt (μ : MState) (n : Nat) (b : Binding) (f : Scc.Heap.Field) : Prop :=
  if (b.chi == .ext) = true then ∃ w : Word, f = .int w.toNat ∧ μ.val (posReg (2 * n + 1)) = some w
  else ∃ p w : Word, f = .ptr p.toNat w.toNat ∧ μ.val (posReg (2 * n)) = some p ∧
    μ.val (posReg (2 * n + 1)) = some w

/-- the variables `Γ` at positions `n, n+1, …` hold the fields `fs` -/
def EnvFields (μ : MState) : Nat → Ctx → List Scc.Heap.Field → Prop
  | _, [], [] => True
  | n, b :: bs, f :: fs => FieldAt μ n b f ∧ EnvFields μ (n + 1) bs fs
  | _, _, _ => False

/-- the same for a REVERSED list (as the `pop` loops of memory.rs consume it): the head is the
variable at position `base + (length of the tail)` -/
def EnvFieldsRev (μ : MState) (base : Nat) : List Binding → List Scc.Heap.Field → Prop
  | [], [] => True
  | b :: bs, f :: fs => FieldAt μ (base + bs.length) b f ∧ EnvFieldsRev μ base bs fs
  | _, _ => False

theorem EnvFields.length_eq {μ : MState} : ∀ {n : Nat} {Γ : Ctx} {fs : List Scc.Heap.Field},
    EnvFields μ n Γ fs → Γ.length = fs.length
  | _, [], [], _ => rfl
  | _, [], _ :: _, h => h.elim
  | _, _ :: _, [], h => h.elim
  | _, _ :: _, _ :: _, h => by simp [EnvFields.length_eq h.2]

theorem EnvFields.snoc {μ : MState} : ∀ {n : Nat} {Γ : Ctx} {fs : List Scc.Heap.Field} {b : Binding}
    {f : Scc.Heap.Field}, EnvFields μ n Γ fs → FieldAt μ (n + Γ.length) b f →
    EnvFields μ n (Γ ++ [b]) (fs ++ [f])
  | _, [], [], _, _, _, h => ⟨by simpa using h, trivial⟩
  | _, [], _ :: _, _, _, h, _ => h.elim
  | _, _ :: _, [], _, _, h, _ => h.elim
  | n, _ :: bs, _ :: fs, b, f, h, hf =>
    ⟨h.1, EnvFields.snoc h.2 (by rw [List.length_cons] at hf; rw [show n + 1 + bs.length = n + (bs.length + 1) by omega]; exact hf)⟩

theorem EnvFields.unsnoc {μ : MState} : ∀ {n : Nat} {Γ : Ctx} {fs : List Scc.Heap.Field} {b : Binding}
    {f : Scc.Heap.Field}, Γ.length = fs.length → EnvFields μ n (Γ ++ [b]) (fs ++ [f]) →
    EnvFields μ n Γ fs ∧ FieldAt μ (n + Γ.length) b f
  | _, [], [], _, _, _, h => ⟨trivial, by simpa [EnvFields] using h.1⟩
  | _, [], _ :: _, _, _, hl, _ => by simp at hl
  | _, _ :: _, [], _, _, hl, _ => by simp at hl
  | n, _ :: bs, _ :: fs, b, f, hl, h => by
    have := EnvFields.unsnoc (n := n + 1) (Γ := bs) (fs := fs) (by simpa using hl) h.2
    refine ⟨⟨h.1, this.1⟩, ?_⟩
    rw [List.length_cons, show n + (bs.length + 1) = n + 1 + bs.length by omega]
    exact this.2

/-- front-to-back and reversed presentations agree -/
theorem envFields_rev_aux {μ : MState} (base : Nat) : ∀ (n : Nat) (Γ : Ctx) (fs : List Scc.Heap.Field),
    Γ.length = n → EnvFields μ base Γ fs → EnvFieldsRev μ base Γ.reverse fs.reverse := by
  intro n
  induction n with
  | zero =>
    intro Γ fs hn h
    have : Γ = [] := List.eq_nil_of_length_eq_zero hn
    subst this
    cases fs with
    | nil => trivial
    | cons _ _ => exact h.elim
  | succ n ih =>
    intro Γ fs hn h
    have hl := h.length_eq
    rcases List.eq_nil_or_concat Γ with rfl | ⟨bs, b, rfl⟩
    · simp at hn
    rcases List.eq_nil_or_concat fs with rfl | ⟨fs', f, rfl⟩
    · simp at hl
    · rw [List.concat_eq_append] at h hl hn ⊢
      rw [List.concat_eq_append] at h hl ⊢
      have hl' : bs.length = fs'.length := by simpa using hl
      obtain ⟨h1, h2⟩ := EnvFields.unsnoc hl' h
      rw [List.reverse_append, List.reverse_append]
      exact ⟨by simpa using h2, ih bs fs' (by simpa using hn) h1⟩

theorem envFields_rev {μ : MState} (base : Nat) (Γ : Ctx) (fs : List Scc.Heap.Field)
    (h : EnvFields μ base Γ fs) : EnvFieldsRev μ base Γ.reverse fs.reverse :=
  envFields_rev_aux base Γ.length Γ fs rfl h

theorem EnvFields.take {μ : MState} : ∀ {n : Nat} {Γ : Ctx} {fs : List Scc.Heap.Field} (k : Nat),
    EnvFields μ n Γ fs → EnvFields μ n (Γ.take k) (fs.take k)
  | _, [], [], _, _ => by simp [EnvFields]
  | _, [], _ :: _, _, h => h.elim
  | _, _ :: _, [], _, h => h.elim
  | _, _ :: _, _ :: _, 0, _ => by simp [EnvFields]
  | _, _ :: _, _ :: _, k + 1, h => ⟨h.1, EnvFields.take k h.2⟩

theorem EnvFields.drop {μ : MState} : ∀ {n : Nat} {Γ : Ctx} {fs : List Scc.Heap.Field} (k : Nat),
    EnvFields μ n Γ fs → EnvFields μ (n + min k Γ.length) (Γ.drop k) (fs.drop k)
  | _, [], [], _, _ => by simp [EnvFields]
  | _, [], _ :: _, _, h => h.elim
  | _, _ :: _, [], _, h => h.elim
  | _, _ :: _, _ :: _, 0, h => by simpa using h
  | n, _ :: bs, _ :: _, k + 1, h => by
    have := EnvFields.drop k h.2
    rw [List.drop_succ_cons, List.drop_succ_cons, List.length_cons,
      show n + min (k + 1) (bs.length + 1) = n + 1 + min k bs.length by omega]
    exact this

theorem FieldAt.congr {μ μ' : MState} {n : Nat} {b : Binding} {f : Scc.Heap.Field}
    (h : FieldAt μ n b f) (e0 : μ'.val (posReg (2 * n)) = μ.val (posReg (2 * n)))
    (e1 : μ'.val (posReg (2 * n + 1)) = μ.val (posReg (2 * n + 1))) : FieldAt μ' n b f := by
  unfold FieldAt at h ⊢
  rw [e0, e1]; exact h

theorem EnvFields.congr {μ μ' : MState} : ∀ {n : Nat} {Γ : Ctx} {fs : List Scc.Heap.Field},
    EnvFields μ n Γ fs → (∀ m, 2 * n ≤ m → m < 2 * (n + Γ.length) → μ'.val (posReg m) = μ.val (posReg m)) →
    EnvFields μ' n Γ fs
  | _, [], [], _, _ => trivial
  | _, [], _ :: _, h, _ => h.elim
  | _, _ :: _, [], h, _ => h.elim
  | n, _ :: bs, _ :: _, h, e =>
    ⟨h.1.congr (e _ (by omega) (by simp only [List.length_cons]; omega))
      (e _ (by omega) (by simp only [List.length_cons]; omega)),
     EnvFields.congr h.2 (fun m h1 h2 => e m (by omega) (by simp only [List.length_cons] at h2 ⊢; omega))⟩

theorem EnvFieldsRev.congr {μ μ' : MState} {base : Nat} : ∀ {Γ : List Binding} {fs : List Scc.Heap.Field},
    EnvFieldsRev μ base Γ fs →
    (∀ m, 2 * base ≤ m → m < 2 * (base + Γ.length) → μ'.val (posReg m) = μ.val (posReg m)) →
    EnvFieldsRev μ' base Γ fs
  | [], [], _, _ => trivial
  | [], _ :: _, h, _ => h.elim
  | _ :: _, [], h, _ => h.elim
  | _ :: bs, _ :: _, h, e =>
    ⟨h.1.congr (e _ (by omega) (by simp only [List.length_cons]; omega))
      (e _ (by omega) (by simp only [List.length_cons]; omega)),
     EnvFieldsRev.congr h.2 (fun m h1 h2 => e m h1 (by simp only [List.length_cons]; omega))⟩

/-! ## store_value, store_values -/

section Values
variable {cfg : MonCfg}

theorem noLab_storeZero (blk : Register) (off : Nat) : NoLab (storeZero blk off) := by
  intro l; simp [storeZero]

theorem posTemp_rd {μ : MState} {n : Nat} (h : n < 28) : μ.rd (posTemp n) = μ.val (posReg n) :=
  MState.rd_of (by simp [posReg]) (by simp [posReg]; omega)

/-- CONTRACT of `store_value`: the variable `b` (the last one of the context `ctx ++ [b]`, i.e. at
position `|ctx|`) goes into field `off` of the block in register `blk` -/
theorem m_storeValue (C : CfgOK cfg) {μ : MState} {h h' : Scc.Heap.HState} (H : HRelM cfg μ h)
    {b : Binding} {ctx : Ctx} {f : Scc.Heap.Field} (hf : FieldAt μ ctx.length b f)
    (hcap : 2 * ctx.length + 1 < 28) {blk : Register} {bw : Word}
    (hvb : μ.rd blk = some bw) {off : Nat}
    (hop : Scc.Heap.storeValue h f bw.toNat off = .ok h') (k : Nat) :
    ∃ code, (storeValue b ctx blk off).run k = .ok (code, k) ∧ NoLab code ∧
      ∃ μ', mFwd cfg code μ = some (μ', .fall) ∧ HRelM cfg μ' h' ∧ μ'.val = μ.val := by
  unfold storeValue
  rw [genm_bind (storeField_run .snd ctx blk off k (by simpa [TempNum.toNat] using hcap))]
  unfold FieldAt at hf
  simp only [TempNum.toNat]
  by_cases hχ : (b.chi == .ext) = true
  · rw [if_pos hχ] at hf
    obtain ⟨w, rfl, hw⟩ := hf
    simp only [hχ, if_true]
    refine ⟨_, genm_pure _ k, (fun l => by simp [storeZero]), ?_⟩
    simp only [Scc.Heap.storeValue] at hop
    cases hw1 : Scc.Heap.wr h (bw.toNat + Scc.Heap.sndOff off) w.toNat with
    | error e => simp [hw1] at hop
    | ok s1 =>
      simp only [hw1] at hop
      obtain ⟨μ1, x1, H1, F1⟩ := m_storeFieldCode C H (t := posTemp (2 * ctx.length + 1))
        (by rw [posTemp_rd hcap]; exact hw) hvb hw1
      obtain ⟨μ2, x2, H2, F2⟩ := m_storeZero C H1 (blk := blk) (by simpa [MState.rd, F1] using hvb) hop
      rw [fieldOffset_snd]
      exact ⟨μ2, mFwd_seq cfg (a := [_]) x1 x2, H2, by rw [F2, F1]⟩
  · rw [if_neg hχ] at hf
    obtain ⟨p, w, rfl, hp, hw⟩ := hf
    simp only [hχ, Bool.false_eq_true, ↓reduceIte]
    rw [genm_bind (storeField_run .fst ctx blk off k (by simp [TempNum.toNat]; omega))]
    refine ⟨_, genm_pure _ k, (fun l => by simp), ?_⟩
    simp only [Scc.Heap.storeValue] at hop
    cases hw1 : Scc.Heap.wr h (bw.toNat + Scc.Heap.sndOff off) w.toNat with
    | error e => simp [hw1] at hop
    | ok s1 =>
      simp only [hw1] at hop
      obtain ⟨μ1, x1, H1, F1⟩ := m_storeFieldCode C H (t := posTemp (2 * ctx.length + 1))
        (by rw [posTemp_rd hcap]; exact hw) hvb hw1
      obtain ⟨μ2, x2, H2, F2⟩ := m_storeFieldCode C H1 (t := posTemp (2 * ctx.length))
        (by rw [posTemp_rd (by omega), F1]; exact hp) (blk := blk) (by simpa [MState.rd, F1] using hvb) hop
      simp only [TempNum.toNat, Nat.add_zero]
      rw [fieldOffset_snd, fieldOffset_fst]
      exact ⟨μ2, mFwd_seq cfg (a := [_]) (b := [_]) x1 x2, H2, by rw [F2, F1]⟩

/-- `store_zeros` for the offsets `k0, k0+1, …` -/
theorem m_storeZerosFrom (C : CfgOK cfg) {blk : Register} {bw : Word} :
    ∀ (n k0 : Nat) (μ : MState) (h h' : Scc.Heap.HState), HRelM cfg μ h → μ.rd blk = some bw →
    Scc.Heap.storeZerosFrom h bw.toNat k0 n = .ok h' →
    ∃ μ', mFwd cfg ((List.range' k0 n).flatMap (storeZero blk)) μ = some (μ', .fall) ∧
      HRelM cfg μ' h' ∧ μ'.val = μ.val := by
  intro n
  induction n with
  | zero =>
    intro k0 μ h h' H hv hop
    simp only [Scc.Heap.storeZerosFrom, Except.ok.injEq] at hop
    subst hop
    exact ⟨μ, by simp [mFwd_nil], H, rfl⟩
  | succ n ih =>
    intro k0 μ h h' H hv hop
    simp only [Scc.Heap.storeZerosFrom] at hop
    cases hw : Scc.Heap.wr h (bw.toNat + Scc.Heap.fstOff k0) 0 with
    | error e => simp [hw] at hop
    | ok s1 =>
      simp only [hw] at hop
      obtain ⟨μ1, x1, H1, F1⟩ := m_storeZero C H hv hw
      obtain ⟨μ2, x2, H2, F2⟩ := ih (k0 + 1) μ1 s1 h' H1 (by simpa [MState.rd, F1] using hv) hop
      refine ⟨μ2, ?_, H2, by rw [F2, F1]⟩
      rw [List.range'_succ, List.flatMap_cons]
      exact mFwd_seq cfg x1 x2

theorem noLab_storeZeros (n : Nat) (blk : Register) : NoLab (storeZeros n blk) := by
  intro l hl
  simp only [storeZeros, List.mem_flatMap] at hl
  obtain ⟨off, _, h⟩ := hl
  exact noLab_storeZero blk off l h

/-- the `pop` loop of `store_values`, on the reversed list; the zeros are stored afterwards -/
theorem m_storeValuesLoop (C : CfgOK cfg) {rem : Ctx} {blk : Register} {bw : Word} :
    ∀ (bsRev : List Binding) (fsRev : List Scc.Heap.Field) (ff : Nat) (μ : MState)
    (h h' : Scc.Heap.HState) (k : Nat), HRelM cfg μ h → μ.rd blk = some bw →
    EnvFieldsRev μ rem.length bsRev fsRev → 2 * (rem.length + bsRev.length) ≤ 28 →
    Scc.Heap.storeValuesRev h bw.toNat fsRev ff = .ok h' →
    ∃ code ff', (storeValuesLoop rem blk bsRev ff).run k = .ok ((code, ff'), k) ∧ NoLab code ∧ ff' ≤ ff ∧
      ∃ μ' h1, mFwd cfg code μ = some (μ', .fall) ∧ HRelM cfg μ' h1 ∧
        Scc.Heap.storeZeros h1 ff' bw.toNat = .ok h' ∧ μ'.val = μ.val := by
  intro bsRev
  induction bsRev with
  | nil =>
    intro fsRev ff μ h h' k H hv hE _ hop
    cases fsRev with
    | cons _ _ => exact hE.elim
    | nil =>
      simp only [Scc.Heap.storeValuesRev] at hop
      exact ⟨[], ff, rfl, noLab_nil, Nat.le_refl _, μ, h, mFwd_nil cfg μ, H, hop, rfl⟩
  | cons b rest ih =>
    intro fsRev ff μ h h' k H hv hE hcap hop
    cases fsRev with
    | nil => exact hE.elim
    | cons f fs =>
      cases ff with
      | zero => simp [Scc.Heap.storeValuesRev] at hop
      | succ ff =>
        simp only [Scc.Heap.storeValuesRev] at hop
        cases hsv : Scc.Heap.storeValue h f bw.toNat ff with
        | error e => simp [hsv] at hop
        | ok s1 =>
          simp only [hsv] at hop
          have hlen : (rem ++ rest.reverse).length = rem.length + rest.length := by simp
          simp only [List.length_cons] at hcap
          obtain ⟨c1, hr1, hn1, μ1, x1, H1, F1⟩ := m_storeValue C H (b := b) (ctx := rem ++ rest.reverse)
            (by rw [hlen]; exact hE.1) (by rw [hlen]; omega) hv hsv k
          have hE1 : EnvFieldsRev μ1 rem.length rest fs :=
            hE.2.congr (fun m _ h2 => by rw [F1])
          obtain ⟨c2, ff', hr2, hn2, hle, μ2, h1, x2, H2, hz, F2⟩ :=
            ih fs ff μ1 s1 h' k H1 (by simpa [MState.rd, F1] using hv) hE1 (by omega) hop
          refine ⟨c1 ++ c2, ff', ?_, hn1.append hn2, by omega, μ2, h1, mFwd_seq cfg x1 x2, H2, hz,
            by rw [F2, F1]⟩
          simp only [storeValuesLoop]
          rw [genm_bind (show (pred1 (ff + 1)).run k = .ok (ff, k) from rfl), genm_bind hr1, genm_bind hr2]
          rfl

/-- CONTRACT of `store_values` -/
theorem m_storeValues (C : CfgOK cfg) {μ : MState} {h h' : Scc.Heap.HState} (H : HRelM cfg μ h)
    {toStore rem : Ctx} {fs : List Scc.Heap.Field} (hE : EnvFields μ rem.length toStore fs)
    (hcap : 2 * (rem.length + toStore.length) ≤ 28) {blk : Register}
    {bw : Word} (hv : μ.rd blk = some bw) {ff : Nat}
    (hop : Scc.Heap.storeValues h fs bw.toNat ff = .ok h') (k : Nat) :
    ∃ code, (storeValues toStore rem blk ff).run k = .ok (code, k) ∧ NoLab code ∧
      ∃ μ', mFwd cfg code μ = some (μ', .fall) ∧ HRelM cfg μ' h' ∧ μ'.val = μ.val := by
  obtain ⟨cs, ff', hr, hn, hle, μ1, h1, x1, H1, hz, F1⟩ := m_storeValuesLoop C (rem := rem) (blk := blk)
    toStore.reverse fs.reverse ff μ h h' k H hv (envFields_rev _ _ _ hE) (by simpa using hcap) hop
  obtain ⟨μ2, x2, H2, F2⟩ := m_storeZerosFrom C ff' 0 μ1 h1 h' H1 (by simpa [MState.rd, F1] using hv) hz
  rw [← List.range_eq_range'] at x2
  refine ⟨[.COMMENT "##store values"] ++ cs ++
    (if ff' > 0 then [Code.COMMENT "##mark unused fields with null"] else []) ++ storeZeros ff' blk,
    ?_, ?_, μ2, ?_, H2, by rw [F2, F1]⟩
  · unfold storeValues
    rw [genm_bind hr]
    rfl
  · refine ((NoLab.append (fun l => by simp) hn).append ?_).append (noLab_storeZeros ff' blk)
    intro l; split <;> simp
  · refine mFwd_seq cfg (mFwd_seq cfg (mFwd_seq cfg (a := [.COMMENT "##store values"]) (μ1 := μ)
      (mFwd_comment cfg _ μ) x1) ?_) x2
    split <;> simp [mFwd_cons, mFwd_nil, mcont, mexecC, mexec]

end Values

/-! ## store_fields, store -/

/-- memory.rs BlockPosition ↦ the model's -/
def posMap : BlockPosition → Scc.Heap.BlockPosition
  | .last => .last
  | .other => .other

theorem restLength_eq (n : Nat) (pos : BlockPosition) :
    restLength n pos = Scc.Heap.restLength n (posMap pos) := by
  cases pos <;> rfl

theorem fpb_eq (pos : BlockPosition) :
    fieldsPerBlock - pos.toNat = Scc.Heap.fieldsPerBlock - (posMap pos).toNat := by
  cases pos <;> rfl

theorem heap_storeFields_nil (s : Scc.Heap.HState) (pos : Scc.Heap.BlockPosition) (prev : Nat) :
    Scc.Heap.storeFields s [] pos prev = .ok (s, if pos = .last then 0 else prev) := by
  rw [Scc.Heap.storeFields]; simp

theorem heap_storeFields_cons (s : Scc.Heap.HState) (fs : List Scc.Heap.Field) (hne : fs ≠ [])
    (pos : Scc.Heap.BlockPosition) (prev : Nat) :
    Scc.Heap.storeFields s fs pos prev =
      match (if pos = .other then Scc.Heap.wr s (s.heap + Scc.Heap.fstOff (Scc.Heap.fieldsPerBlock - 1)) prev
             else .ok s) with
      | .error e => .error e
      | .ok s1 =>
        match Scc.Heap.storeValues s1 (fs.drop (Scc.Heap.restLength fs.length pos)) s1.heap
            (Scc.Heap.fieldsPerBlock - pos.toNat) with
        | .error e => .error e
        | .ok s2 =>
          match Scc.Heap.acquire s2 with
          | .error e => .error e
          | .ok (s3, new) =>
            Scc.Heap.storeFields s3 (fs.take (Scc.Heap.restLength fs.length pos)) .other new := by
  rw [Scc.Heap.storeFields]; simp only [dif_neg hne]; rfl

section Fields
variable {cfg : MonCfg}

/-- the registers of the stored positions: what `store_fields` may change besides TEMP, HEAP, FREE -/
def StoredReg (base len : Nat) (u : Nat) : Prop :=
  ∃ j, j ≤ len - 1 ∧ (u = posReg (2 * (base + j)) ∨ u = posReg (2 * (base + j) + 1))

/-- CONTRACT of `store_fields` on the view: ANY number of fields (the recursion allocates one block per
`FIELDS_PER_BLOCK - 1` further fields and links the blocks). -/
theorem m_storeFields (C : CfgOK cfg) : ∀ (n : Nat) (toStore rem : Ctx) (pos : BlockPosition)
    (fs : List Scc.Heap.Field) (prev : Nat) (μ : MState) (h h' : Scc.Heap.HState) (ptr k : Nat),
    toStore.length < n → HRelM cfg μ h → EnvFields μ rem.length toStore fs →
    2 * (rem.length + toStore.length) ≤ 28 → rem.length < 14 →
    (pos = .other → 2 * (rem.length + toStore.length) < 28 ∧
      ∃ w, μ.val (posReg (2 * (rem.length + toStore.length))) = some w ∧ w.toNat = prev) →
    Scc.Heap.storeFields h fs (posMap pos) prev = .ok (h', ptr) →
    ∃ code k', (storeFields toStore rem pos).run k = .ok (code, k') ∧ k ≤ k' ∧ LabsIn code k k' ∧
      ∃ μ', mFwd cfg code μ = some (μ', .fall) ∧ HRelM cfg μ' h' ∧
        (∃ w, μ'.val (posReg (2 * rem.length)) = some w ∧ w.toNat = ptr) ∧
        (∀ u, u ≠ 1 → u ≠ 2 → u ≠ 3 → ¬ StoredReg rem.length toStore.length u → μ'.val u = μ.val u) := by
  intro n
  induction n with
  | zero => intro toStore _ _ _ _ _ _ _ _ _ hf; exact absurd hf (Nat.not_lt_zero _)
  | succ n ih =>
    intro toStore rem pos fs prev μ h h' ptr k hfuel H hE hcap hrem hlink hop
    have hlen := hE.length_eq
    rw [storeFields]
    by_cases hne : toStore = []
    · -- no (more) fields
      subst hne
      have hfs : fs = [] := by
        cases fs with
        | nil => rfl
        | cons _ _ => exact hE.elim
      subst hfs
      rw [heap_storeFields_nil] at hop
      simp only [Except.ok.injEq, Prod.mk.injEq] at hop
      obtain ⟨rfl, rfl⟩ := hop
      simp only [List.isEmpty_nil, dite_true]
      cases pos with
      | last =>
        have hc0 : 2 * rem.length + TempNum.fst.toNat < 28 := by simp [TempNum.toNat]; omega
        simp only [beq_self_eq_true, if_true]
        rw [genm_bind (freshTemporary_run k hc0)]
        simp only [TempNum.toNat, Nat.add_zero] at hc0 ⊢
        obtain ⟨p1, p2, p3, p0⟩ := posReg_ne_low (2 * rem.length)
        refine ⟨_, k, genm_pure _ k, Nat.le_refl _, LabsIn.of_noLab _ _ (fun l => by simp),
          μ.setT (posReg (2 * rem.length)) (some 0#64), ?_, H.setT p2 p3 _, ⟨0#64, by simp, by simp [posMap]⟩, ?_⟩
        · have hle : 1 ≤ posReg (2 * rem.length) := by unfold posReg; omega
          have hlt : posReg (2 * rem.length) < 32 := by unfold posReg; omega
          simp [mFwd_cons, mFwd_nil, mcont, mexecC, mexec, hle, hlt, MState.rd]
        · intro u _ _ _ hj
          have : u ≠ posReg (2 * rem.length) := fun e => hj ⟨0, Nat.zero_le _, Or.inl (by simpa using e)⟩
          simp [this]
      | other =>
        have : (BlockPosition.other == BlockPosition.last) = false := rfl
        simp only [this, Bool.false_eq_true, if_false]
        obtain ⟨_, w, hw, ew⟩ := hlink rfl
        refine ⟨[], k, genm_pure _ k, Nat.le_refl _, LabsIn.nil _ _, μ, mFwd_nil cfg μ, H, ?_, fun _ _ _ _ _ => rfl⟩
        exact ⟨w, by simpa using hw, by simp [posMap, ew]⟩
    · -- a block of fields
      have hie : toStore.isEmpty = false := by cases toStore <;> simp_all
      have hfne : fs ≠ [] := fun e => hne (List.eq_nil_of_length_eq_zero (by rw [hlen, e]; rfl))
      have hpos : 0 < toStore.length := List.length_pos_iff.mpr hne
      rw [heap_storeFields_cons _ _ hfne] at hop
      have hrl : Scc.Heap.restLength fs.length (posMap pos) = restLength toStore.length pos := by
        rw [restLength_eq, hlen]
      have hrlt : restLength toStore.length pos < toStore.length := by
        rw [restLength_eq]; exact Scc.Heap.restLength_lt _ _ hpos
      rw [hrl] at hop
      simp only [hie, Bool.false_eq_true, dite_false]
      generalize hrl' : restLength toStore.length pos = rl at hop hrlt ⊢
      have hlt : (rem ++ toStore.take rl).length = rem.length + rl := by
        simp [List.length_take]; omega
      have hct : 2 * (rem ++ toStore.take rl).length + TempNum.fst.toNat < 28 := by
        rw [hlt]; simp [TempNum.toNat]; omega
      have hct1 : 2 * (rem ++ toStore.take rl).length + TempNum.snd.toNat < 28 := by
        rw [hlt]; simp [TempNum.toNat]; omega
      -- the common tail: values, acquire, the remaining fields
      have tail : ∀ (pre : List Code) (μ1 : MState) (s1 : Scc.Heap.HState), NoLab pre →
          mFwd cfg pre μ = some (μ1, .fall) → HRelM cfg μ1 s1 → μ1.val = μ.val →
          s1.heap = h.heap →
          (match Scc.Heap.storeValues s1 (fs.drop rl) s1.heap (Scc.Heap.fieldsPerBlock - (posMap pos).toNat) with
            | .error e => Except.error e
            | .ok s2 =>
              match Scc.Heap.acquire s2 with
              | .error e => Except.error e
              | .ok (s3, new) => Scc.Heap.storeFields s3 (fs.take rl) .other new) = .ok (h', ptr) →
          ∃ c3 c4 c5 k', (storeValues (toStore.drop rl) (rem ++ toStore.take rl) HEAP
                (fieldsPerBlock - pos.toNat)).run k = .ok (c3, k) ∧
            (acquireBlock (posTemp (2 * (rem.length + rl))) (posTemp (2 * (rem.length + rl) + 1))).run k =
              .ok (c4, k + 13) ∧
            (storeFields (toStore.take rl) rem .other).run (k + 13) = .ok (c5, k') ∧ k + 13 ≤ k' ∧
            LabsIn (pre ++ c3 ++ [.COMMENT "##acquire free block from heap register"] ++ c4 ++ c5) k k' ∧
            ∃ μ', mFwd cfg (pre ++ c3 ++ [.COMMENT "##acquire free block from heap register"] ++ c4 ++ c5) μ =
                some (μ', .fall) ∧ HRelM cfg μ' h' ∧
              (∃ w, μ'.val (posReg (2 * rem.length)) = some w ∧ w.toNat = ptr) ∧
              (∀ u, u ≠ 1 → u ≠ 2 → u ≠ 3 → ¬ StoredReg rem.length toStore.length u →
                μ'.val u = μ.val u) := by
        intro pre μ1 s1 hnl xpre H1 F1 hheap hop1
        obtain ⟨wH, hH, eH⟩ := H1.heap
        cases hsv : Scc.Heap.storeValues s1 (fs.drop rl) s1.heap
            (Scc.Heap.fieldsPerBlock - (posMap pos).toNat) with
        | error e => simp [hsv] at hop1
        | ok s2 =>
          simp only [hsv] at hop1
          cases hac : Scc.Heap.acquire s2 with
          | error e => simp [hac] at hop1
          | ok r =>
            obtain ⟨s3, new⟩ := r
            simp only [hac] at hop1
            -- store_values
            have hE1 : EnvFields μ1 (rem ++ toStore.take rl).length (toStore.drop rl) (fs.drop rl) := by
              have := (hE.drop rl).congr (μ' := μ1) (fun m _ h2 => by rw [F1])
              rw [hlt, show rem.length + rl = rem.length + min rl toStore.length by omega]
              exact this
            rw [← eH, ← fpb_eq] at hsv
            obtain ⟨c3, hr3, hn3, μ2, x2, H2, F2⟩ := m_storeValues C H1 hE1
              (by rw [hlt]; simp only [List.length_drop]; omega) (blk := HEAP)
              (by simpa [MState.rd] using hH) (ff := fieldsPerBlock - pos.toNat) hsv k
            -- acquire_block
            obtain ⟨c4, hr4, hl4, μ3, x3, H3, ⟨wn, hwn, ewn⟩, F3⟩ := m_acquire C H2
              (nb := posTemp (2 * (rem.length + rl))) (at' := posTemp (2 * (rem.length + rl) + 1))
              (by simp [posReg]) (by simp [posReg]; omega) (by simp [posReg]) (by simp [posReg]; omega)
              (by simp [posReg]) hac k
            simp only [posTemp_n] at hwn F3
            -- the remaining fields
            have hfr : ∀ m, m < 2 * (rem.length + rl) → μ3.val (posReg m) = μ.val (posReg m) := by
              intro m hm
              obtain ⟨n1, n2, n3, _⟩ := posReg_ne_low m
              rw [F3 _ (fun e => by have := posReg_inj.1 e; omega) (fun e => by have := posReg_inj.1 e; omega)
                n1 n2 n3, F2, F1]
            have hE3 : EnvFields μ3 rem.length (toStore.take rl) (fs.take rl) :=
              (hE.take rl).congr (fun m _ h2 => hfr m (by simp only [List.length_take] at h2; omega))
            have hlt2 : (toStore.take rl).length = rl := by simp [List.length_take]; omega
            obtain ⟨c5, k', hr5, hk5, hl5, μ4, x4, H4, hptr, F4⟩ := ih (toStore.take rl) rem .other (fs.take rl)
              new μ3 s3 h' ptr (k + 13) (by rw [hlt2]; omega) H3 hE3 (by rw [hlt2]; omega) hrem
              (fun _ => ⟨by rw [hlt2]; omega, wn, by rw [hlt2]; exact hwn, ewn⟩) hop1
            refine ⟨c3, c4, c5, k', hr3, hr4, hr5, hk5, ?_, μ4, ?_, H4, hptr, ?_⟩
            · exact ((((hnl.labsIn _ _).append (hn3.labsIn _ _)).append (LabsIn.of_noLab _ _ (by simp))).append
                (hl4.mono (Nat.le_refl _) hk5)).append (hl5.mono (by omega) (Nat.le_refl _))
            · exact mFwd_seq cfg (mFwd_seq cfg (mFwd_seq cfg (mFwd_seq cfg xpre x2) (mFwd_comment cfg _ μ2)) x3) x4
            · intro u hT hHp hFr hj
              rw [F4 u hT hHp hFr (fun ⟨j, hjl, hju⟩ => hj ⟨j, by rw [hlt2] at hjl; omega, hju⟩),
                F3 u (fun e => hj ⟨rl, by omega, Or.inl e⟩) (fun e => hj ⟨rl, by omega, Or.inr e⟩) hT hHp hFr,
                F2, F1]
      cases pos with
      | last =>
        have e1 : (BlockPosition.last == BlockPosition.other) = false := rfl
        simp only [e1, Bool.false_eq_true, if_false, beq_self_eq_true, if_true, posMap] at hop ⊢
        simp only [reduceCtorEq, if_false] at hop
        obtain ⟨c3, c4, c5, k', hr3, hr4, hr5, hk5, hl, μ', x, H', hptr, F'⟩ :=
          tail [.COMMENT "#allocate memory"] μ h (fun l => by simp) (mFwd_comment cfg _ μ) H rfl rfl hop
        refine ⟨_, k', ?_, by omega, hl, μ', x, H', hptr, F'⟩
        rw [genm_bind (genm_pure _ k), genm_bind hr3, genm_bind (freshTemporary_run k hct),
          genm_bind (freshTemporary_run k hct1)]
        simp only [TempNum.toNat, Nat.add_zero, hlt]
        rw [genm_bind hr4, genm_bind hr5]
        rfl
      | other =>
        have e1 : (BlockPosition.other == BlockPosition.last) = false := rfl
        simp only [e1, Bool.false_eq_true, if_false, beq_self_eq_true, if_true, posMap] at hop ⊢
        obtain ⟨hlk28, w, hw, ew⟩ := hlink rfl
        obtain ⟨wH, hH, eH⟩ := H.heap
        cases hwl : Scc.Heap.wr h (h.heap + Scc.Heap.fstOff (Scc.Heap.fieldsPerBlock - 1)) prev with
        | error e => simp [hwl] at hop
        | ok s1 =>
          simp only [hwl] at hop
          have hcl : 2 * (rem ++ toStore).length + TempNum.fst.toNat < 28 := by
            simp [TempNum.toNat]; omega
          have hlk : (rem ++ toStore).length = rem.length + toStore.length := by simp
          rw [← eH, ← ew] at hwl
          obtain ⟨μ1, x1, H1, F1⟩ := m_storeFieldCode C H (t := posTemp (2 * (rem.length + toStore.length)))
            (by rw [posTemp_rd hlk28]; exact hw) (blk := HEAP) (by simpa [MState.rd] using hH)
            (off := Scc.Heap.fstOff (Scc.Heap.fieldsPerBlock - 1)) hwl
          have hs1 : s1.heap = h.heap := by
            obtain ⟨_, rfl⟩ := wr_eq_ok.1 hwl; rfl
          obtain ⟨c3, c4, c5, k', hr3, hr4, hr5, hk5, hl, μ', x, H', hptr, F'⟩ :=
            tail ([.COMMENT "##store link to previous block",
                .SW (posTemp (2 * (rem.length + toStore.length))) HEAP
                  ((Scc.Heap.fstOff (Scc.Heap.fieldsPerBlock - 1) : Nat) : Int)] ++ [])
              μ1 s1 (fun l => by simp)
              (by rw [List.append_nil]; exact mFwd_seq cfg (mFwd_comment cfg _ μ) x1) H1 F1 hs1 hop
          refine ⟨_, k', ?_, by omega, hl, μ', x, H', hptr, F'⟩
          rw [genm_bind (storeField_run .fst (rem ++ toStore) HEAP (fieldsPerBlock - 1) k hcl)]
          rw [genm_bind (genm_pure _ k), genm_bind hr3, genm_bind (freshTemporary_run k hct),
            genm_bind (freshTemporary_run k hct1)]
          simp only [TempNum.toNat, Nat.add_zero, hlt, hlk]
          rw [genm_bind hr4, genm_bind hr5]
          rfl

end Fields

/-! ## Memory::store on the machine -/

/-- the environment as the MACHINE holds it (the view of the machine state) -/
def EnvFieldsM (st : State) (n : Nat) (Γ : Ctx) (fs : List Scc.Heap.Field) : Prop :=
  EnvFields (mview st) n Γ fs

/-- CONTRACT of `store` (memory.rs Memory::store) on the RV64 machine, for ANY number of fields: the
variables `toStore` (context positions `|rem| …`, holding the model fields `fs`) are stored as one
object — one block for up to `FIELDS_PER_BLOCK` fields, otherwise a chain of linked blocks, each block
taken by `acquire_block` — exactly as `Scc.Heap.storeObj` does on the abstract heap.  From every
boundary state representing a heap on which the model succeeds, the code runs to its end; the final
state is a boundary state, represents the model's result heap, and the first register of position
`|rem|` holds the object pointer (0 for an object without fields).
Changed: TEMP, HEAP, FREE, the heap, and registers of the stored positions (the targets and additional
temporaries of `acquire_block`; the first register of position `|rem|` alone for an object without
fields); every variable of `rem` and everything beyond the stored positions is preserved. -/
theorem store_contract {cfg : MonCfg} {la : String → Option Nat} {st : State}
    (B : Boundary cfg st) {h h' : Scc.Heap.HState} (R : HeapRel cfg st h)
    {toStore rem : Ctx} {fs : List Scc.Heap.Field} (hcap : 2 * (rem.length + toStore.length) ≤ 28)
    (hrem : rem.length < 14) (hE : EnvFieldsM st rem.length toStore fs) {ptr : Nat}
    (hop : Scc.Heap.storeObj h fs = .ok (h', ptr)) (k : Nat) :
    ∃ code k', (store toStore rem).run k = .ok (code, k') ∧ k ≤ k' ∧ LabsIn code k k' ∧
      ∃ st', execFwd cfg la code st = .ok (st', .fall) ∧ Boundary cfg st' ∧ HeapRel cfg st' h' ∧
        (∃ w, st'.readReg (posTemp (2 * rem.length)) = .ok w ∧ w.toNat = ptr) ∧
        FrameR st st' (fun u => u = TEMP.n ∨ u = HEAP.n ∨ u = FREE.n ∨
          StoredReg rem.length toStore.length u) := by
  obtain ⟨code, k', hrun, hk, hl, μ', hx, H', ⟨w, hw, ew⟩, hfr⟩ :=
    m_storeFields B.top (toStore.length + 1) toStore rem .last fs 0 (mview st) h h'
      ptr k (Nat.lt_succ_self _) (heapRel_mview R) hE hcap hrem (fun e => by cases e) hop
  obtain ⟨st', e, B', M', F⟩ := m_to_machine la B hx
    (changed := fun u => u = TEMP.n ∨ u = HEAP.n ∨ u = FREE.n ∨ StoredReg rem.length toStore.length u)
    (fun u hu => hfr u (fun e => hu (Or.inl e)) (fun e => hu (Or.inr (Or.inl e)))
      (fun e => hu (Or.inr (Or.inr (Or.inl e)))) (fun e => hu (Or.inr (Or.inr (Or.inr e)))))
  exact ⟨code, k', hrun, hk, hl, st', e, B', heapRel_of_mrep M' H',
    ⟨w, M'.readReg (by rw [posTemp_rd (by omega)]; exact hw), ew⟩, F⟩

end Scc.RV
