/-
  Scc.RV.ConcC10 — C10 (heap footprint) on concrete RV64 runs of ALL programs (integers, data types, closures):
  the port of Scc/X86/ConcKC10.lean.  Composition of the peak-based run (`run3_peak`, `run3_prefix`,
  ConcPeakRun.lean) with the entry (`entry_setup`, ConcRun.lean) and the generic machine facts of ConcMach.lean.
  * `HeapShapeAt mc X below inUse` — the heap of the machine state `X` is consistent (`InvW` for some roots) with
    `below` blocks below the allocation frontier, `inUse` of which are neither on the reusable nor on the deferred
    free list;
  * `PeakAtMost … Pk C` — at no statement boundary (`BoundaryOf`) of the machine's run are more than `Pk` blocks in
    use;
  * `programs_peak`, `programs_prefix`, `programs_peak_lines`, `runLines_larger_heap`.
-/
import Scc.RV.ConcPeakRun
import Scc.RV.ConcMach

set_option linter.unusedVariables false
set_option linter.unusedSimpArgs false

namespace Scc.RV.Conc

open Scc Scc.AxCut Scc.AxCut.Pos Scc.Backend Scc.Backend.Abs Scc.Backend.Sim Scc.Backend.Subst Scc.RV Scc.RV.Ref
open Scc.Backend.Sim2 Scc.Backend.Keys
open Scc.Props.C14Generic (LabelSafe)
open Scc.Props.C06Generic (outAfter WithinCapacity Reachable EnoughHeap CodeFits statesOf stopsWithin)
open Scc.Heap (HState InvS InvW Exhausted)
open Scc.Heap.Refine (HRef FrLe Room FrPk)
open Scc.X86.Conc (FrBound LiveLe LiveLe0)
open Scc.X86.Ref.K (allocArity AllocLe AllocLeClauses ValAll valAll_ints)

/-- the heap of the machine state `X` is consistent, with `below` blocks below the allocation frontier,
`inUse` of which are in use (neither on the reusable nor on the deferred free list: reachable, or waiting
beneath a deferred block) -/
def HeapShapeAt (mc : MonCfg) (X : State) (below inUse : Nat) : Prop :=
  ∃ (h f : Word) (roots lin lazy live : List Nat) (F : Nat),
    X.readReg HEAP = .ok h ∧ X.readReg FREE = .ok f ∧
    InvW (memFn X) heapBase (heapBase + mc.heapBytes) h.toNat f.toNat roots [] lin lazy live F ∧
    (F - heapBase) / 64 = below ∧ live.length = inUse

/-- the block-level state that a machine state represents has the machine's heap shape -/
theorem heapShapeAt_of_rel {mc : MonCfg} {X : State} {hs : HState} (HR : HeapRel mc X hs)
    {rs lin lazy live : List Nat} {F : Nat} (I : InvS hs rs [] lin lazy live F) :
    HeapShapeAt mc X ((F - hs.base) / 64) live.length := by
  obtain ⟨w, hw, ew⟩ := HR.heap
  obtain ⟨f, hf, ef⟩ := HR.free
  refine ⟨w, f, rs, lin, lazy, live, F, hw, hf, ?_, by rw [HR.base], rfl⟩
  have hmem : memFn X = hs.mem.get := by
    funext a; exact (HR.mem a).symm
  rw [hmem, ew, ef, ← HR.limit, ← HR.base]
  exact I

/-- the blocks in use lie below the frontier -/
theorem HeapShapeAt.inUse_le {mc : MonCfg} {X : State} {below inUse : Nat} (h : HeapShapeAt mc X below inUse) :
    inUse ≤ below := by
  obtain ⟨_, _, _, lin, lazy, live, F, _, _, I, h1, h2⟩ := h
  have := I.card
  omega

/-- THE PEAK HYPOTHESIS, all programs: at no statement boundary of the machine's run (from its initial state) are
more than `Pk` blocks in use.  Only boundaries with at most `C` blocks below the frontier matter (`C` = the trivial
bound `A·fuel + 1`: a step of the run moves the frontier by at most `A` blocks; no other boundary occurs) -/
def PeakAtMost (p : AxCut.Prog) (hooks : Bool) (ks : List Code) (ops : List MockOp) (mc : MonCfg)
    (pr : RV.Program) (X00 : State) (Pk C : Nat) : Prop :=
  ∀ n X st, stepN pr mc n X00 = .inl X →
    BoundaryOf p hooks ks ops mc st X → ∀ below inUse, HeapShapeAt mc X below inUse → below ≤ C →
    inUse ≤ Pk

/-- the peak hypothesis holds trivially for `Pk = C` -/
theorem peakAtMost_trivial (p : AxCut.Prog) (hooks : Bool) (ks : List Code) (ops : List MockOp)
    (mc : MonCfg) (pr : RV.Program) (X00 : State) (C : Nat) :
    PeakAtMost p hooks ks ops mc pr X00 C C :=
  fun _ _ _ _ _ _ _ h hb => Nat.le_trans h.inUse_le hb

/-- the peak hypothesis on block-level states, from the one on machine states -/
theorem peakFrom_of_peakAtMost {p : AxCut.Prog} {hooks : Bool} {ks : List Code} {ops : List MockOp}
    {mc : MonCfg} {pr : RV.Program} {X00 : State} {Pk C : Nat}
    (hP : PeakAtMost p hooks ks ops mc pr X00 Pk C) {n0 : Nat}
    {X0 : State} (h0 : stepN pr mc n0 X00 = .inl X0) (st : Pos.State) :
    PeakFrom mc pr ks (Program.ofOps ops) hooks p st X0 Pk C := by
  intro n X' st' cfg' hs' _ hn R hC rs lin live Fr I
  have hB : BoundaryOf p hooks ks ops mc st' X' := ⟨cfg', hs', R⟩
  obtain ⟨Γ', ι, cw, τ, _, _, X3h, _⟩ := R
  exact hP (n0 + n) X' st' (stepN_trans pr mc h0 hn) hB _ _
    (heapShapeAt_of_rel X3h.hrel I) (hC _ _ _ _ _ I)

/-- the frontier of the initial heap: one block -/
theorem frBound_init {base bytes B : Nat} (hb : 0 < base) (hl : 128 ≤ bytes) (hB : 1 ≤ B) :
    FrBound (Scc.Heap.init base (base + bytes)) B := by
  have hinit := Scc.Heap.init_inv (base := base) (limit := base + bytes) hb (by omega)
  intro rs lin lazy live Fr J
  have := (Scc.Heap.InvS.witness_unique hinit J).2.2
  have hbb : (Scc.Heap.init base (base + bytes)).base = base := rfl
  rw [hbb, this]
  omega

/-- the chain of block-level facts as a chain of facts about the raw machine states, using the peak
hypothesis at every state of the chain (they are all on the run) -/
theorem bchain_shape {p : AxCut.Prog} {hooks : Bool} {ks : List Code} {ops : List MockOp} {mc : MonCfg}
    {pr : RV.Program} {X00 : State} {Pk C : Nat}
    (hP : PeakAtMost p hooks ks ops mc pr X00 Pk C) :
    ∀ (sts : List Pos.State) (X : State) (k : Nat),
      stepN pr mc k X00 = .inl X →
      BChain pr mc (ChainRel mc ks (Program.ofOps ops) hooks p Pk C) sts X →
      BChain pr mc (fun st X => BoundaryOf p hooks ks ops mc st X ∧
        ∃ below inUse, HeapShapeAt mc X below inUse ∧ below ≤ Pk + 1 ∧ inUse ≤ Pk) sts X := by
  intro sts
  induction sts with
  | nil => intro X k _ _; trivial
  | cons st rest ih =>
    intro X k hk' hc
    obtain ⟨⟨cfgA, hs, R, hfb, hcC⟩, hrest⟩ := hc
    have hB : BoundaryOf p hooks ks ops mc st X := ⟨cfgA, hs, R⟩
    have hX3 : ∃ Γ' ι cw τ, X3 mc cw τ Γ' cfgA hs ι X := by
      obtain ⟨Γ', ι, cw, τ, _, _, X3h, _⟩ := R
      exact ⟨Γ', ι, cw, τ, X3h⟩
    obtain ⟨Γ', ι, cw, τ, X3h⟩ := hX3
    obtain ⟨lin, lazy, live, Fr, I⟩ := X3h.href.conc
    have hsh := heapShapeAt_of_rel X3h.hrel I
    refine ⟨⟨hB, _, _, hsh, hfb _ _ _ _ _ I, hP k X st hk' hB _ _ hsh (hcC _ _ _ _ _ I)⟩, ?_⟩
    rcases hrest with e | ⟨n', X', hn', hc'⟩
    · exact Or.inl e
    · exact Or.inr ⟨n', X', hn', ih X' (k + n') (stepN_trans pr mc hk' hn') hc'⟩

theorem mhwOK_init (mc : MonCfg) (regs : Array (Option Word)) (e : Nat) : MhwOK mc (initState regs e) :=
  Nat.zero_le _

/-- C10 ON THE MACHINE, all programs: the run under the footprint bound -/
theorem programs_peak (p : AxCut.Prog) (args : List Word) (hooks : Bool) (instrs hdr : List Code)
    (nargs cX : Nat) (d0 : Def) (ops : List MockOp) (c' : Nat)
    (hsafe : LabelSafe p = true) (htp : LinTypedProg p)
    (hcompM : (compile mockSym hooks p).run 0 = .ok ((ops, nargs), c')) (hfit : CodeFits ops)
    {cX0 : Nat} (hcompX : (compile rvBackend hooks p).run cX0 = .ok ((instrs, nargs), cX))
    (hnd : (labs (instrs ++ [Code.LAB "cleanup"])).Nodup) (hfitX : codeBase + 4 * instrs.length < 2 ^ 64)
    (hd : p.defs.head? = some d0) (hentry : ∀ b ∈ d0.ctx, b.chi = .ext ∧ b.ty = .i64)
    (hcap : ∀ st, Reachable p ⟨d0.ctx, args.map .int, d0.body⟩ st → st.ctx.length ≤ 14)
    (fuel : Nat) (v : Word) (hfuel : fuel + 1 < 2 ^ 64)
    (hrun : (Pos.run p args fuel).res = .done v)
    (mc : MonCfg) (hheap : mc.heap = false) (htop : heapBase + mc.heapBytes ≤ 2 ^ 63)
    (Pk A : Nat) (hA : ∀ d ∈ p.defs, AllocLe A d.body) (hbytes : 64 * (Pk + A + 2) ≤ mc.heapBytes)
    (lines : List (Nat × Code)) (hhdr : ∀ c ∈ hdr, c.isComment = true)
    (hlines : (lines.map (·.2)).map stripC = (hdr ++ instrs ++ [Code.LAB "cleanup"]).map stripC)
    (hhook : ∀ x ∈ lines, ¬ badHook x.2)
    (hP : ∀ pr e regs, layout lines = .ok pr → pr.entry = some e → entryRegs args = some regs →
      PeakAtMost p hooks (keptOf lines) ops mc pr (initState regs e) Pk (A * fuel + 1)) :
    ∃ pr e regs, layout lines = .ok pr ∧ pr.entry = some e ∧ entryRegs args = some regs ∧
      ∃ X0 n XL r, stepN pr mc 1 (initState regs e) = .inl X0 ∧
        BChain pr mc
          (fun st X => BoundaryOf p hooks (keptOf lines) ops mc st X ∧
            ∃ below inUse, HeapShapeAt mc X below inUse ∧ below ≤ Pk + 1 ∧ inUse ≤ Pk)
          (statesOf p fuel ⟨d0.ctx, args.map .int, d0.body⟩) X0 ∧
        stepN pr mc n X0 = .inl XL ∧ step pr mc XL = .inr r ∧ r.res = .done v ∧
        XL.maxHeapWritten ≤ mc.heapBytes := by
  have hmem : d0 ∈ p.defs := by
    cases hdefs : p.defs with
    | nil => rw [hdefs] at hd; simp at hd
    | cons d ds => rw [hdefs] at hd; simp at hd; subst hd; simp
  obtain ⟨hlen, hrun'⟩ := run_entry hd hrun
  have hc0 := hcap _ Reachable.refl
  simp only at hc0
  obtain ⟨pr, ic, e, regs, X0, a, En⟩ := entry_setup p args hooks instrs hdr nargs cX d0 ops c' hsafe htp hcompM
    hcompX hnd hfitX hd hentry hlen hc0 mc htop (by omega) lines hhdr hlines hhook
  have hP' := hP pr e regs En.lay En.entry En.hregs
  have hPF := peakFrom_of_peakAtMost hP' En.steps ⟨d0.ctx, args.map .int, d0.body⟩
  have hfb0 : FrBound (Scc.Heap.init heapBase (heapBase + mc.heapBytes)) (Pk + 1) :=
    frBound_init (by decide) (by omega) (by omega)
  have hcb0 : FrBound (Scc.Heap.init heapBase (heapBase + mc.heapBytes)) 1 :=
    frBound_init (by decide) (by omega) (Nat.le_refl _)
  obtain ⟨⟨n, XL, r, g1, g2, g3⟩, hch⟩ := run3_peak En.loaded En.nd hheap En.clean En.icl En.fit hooks p 0 ops nargs
    c' hcompM hsafe htp hfit En.defs Pk (A * fuel + 1) A hA hbytes fuel _ [] (initConfig a args) _ X0 v 1 En.typed
    hcap En.rel (hA d0 hmem) (valAll_ints _ args) (by rw [En.next1]; omega) hfb0 hcb0 (by omega) hPF hrun'
  refine ⟨pr, e, regs, En.lay, En.entry, En.hregs, X0, n, XL, r, En.steps,
    bchain_shape hP' _ X0 1 En.steps hch, g1, g2, g3, ?_⟩
  exact (stepN_mhw hheap (1 + n) (stepN_trans pr mc En.steps g1)).2 (mhwOK_init mc regs e)

/-- C09/C10 ON THE MACHINE FOR EVERY PREFIX OF EVERY RUN (terminating or not), all programs: for ANY number
`fuel` of steps of the positional machine, the machine started in its initial state passes — without fault —
through a boundary state for every state the positional machine goes through in `fuel` steps -/
theorem programs_prefix (p : AxCut.Prog) (args : List Word) (hooks : Bool) (instrs hdr : List Code)
    (nargs cX : Nat) (d0 : Def) (ops : List MockOp) (c' : Nat)
    (hsafe : LabelSafe p = true) (htp : LinTypedProg p)
    (hcompM : (compile mockSym hooks p).run 0 = .ok ((ops, nargs), c')) (hfit : CodeFits ops)
    {cX0 : Nat} (hcompX : (compile rvBackend hooks p).run cX0 = .ok ((instrs, nargs), cX))
    (hnd : (labs (instrs ++ [Code.LAB "cleanup"])).Nodup) (hfitX : codeBase + 4 * instrs.length < 2 ^ 64)
    (hd : p.defs.head? = some d0) (hentry : ∀ b ∈ d0.ctx, b.chi = .ext ∧ b.ty = .i64)
    (hlen : d0.ctx.length = args.length)
    (hcap : ∀ st, Reachable p ⟨d0.ctx, args.map .int, d0.body⟩ st → st.ctx.length ≤ 14)
    (fuel : Nat) (hfuel : fuel + 1 < 2 ^ 64)
    (mc : MonCfg) (hheap : mc.heap = false) (htop : heapBase + mc.heapBytes ≤ 2 ^ 63)
    (Pk A : Nat) (hA : ∀ d ∈ p.defs, AllocLe A d.body) (hbytes : 64 * (Pk + A + 2) ≤ mc.heapBytes)
    (lines : List (Nat × Code)) (hhdr : ∀ c ∈ hdr, c.isComment = true)
    (hlines : (lines.map (·.2)).map stripC = (hdr ++ instrs ++ [Code.LAB "cleanup"]).map stripC)
    (hhook : ∀ x ∈ lines, ¬ badHook x.2)
    (hP : ∀ pr e regs, layout lines = .ok pr → pr.entry = some e → entryRegs args = some regs →
      PeakAtMost p hooks (keptOf lines) ops mc pr (initState regs e) Pk (A * fuel + 1)) :
    ∃ pr e regs, layout lines = .ok pr ∧ pr.entry = some e ∧ entryRegs args = some regs ∧
      ∃ X0, stepN pr mc 1 (initState regs e) = .inl X0 ∧
        BChain pr mc
          (fun st X => BoundaryOf p hooks (keptOf lines) ops mc st X ∧
            ∃ below inUse, HeapShapeAt mc X below inUse ∧ below ≤ Pk + 1 ∧ inUse ≤ Pk)
          (statesOf p fuel ⟨d0.ctx, args.map .int, d0.body⟩) X0 := by
  have hmem : d0 ∈ p.defs := by
    cases hdefs : p.defs with
    | nil => rw [hdefs] at hd; simp at hd
    | cons d ds => rw [hdefs] at hd; simp at hd; subst hd; simp
  have hc0 := hcap _ Reachable.refl
  simp only at hc0
  obtain ⟨pr, ic, e, regs, X0, a, En⟩ := entry_setup p args hooks instrs hdr nargs cX d0 ops c' hsafe htp hcompM
    hcompX hnd hfitX hd hentry hlen hc0 mc htop (by omega) lines hhdr hlines hhook
  have hP' := hP pr e regs En.lay En.entry En.hregs
  have hPF := peakFrom_of_peakAtMost hP' En.steps ⟨d0.ctx, args.map .int, d0.body⟩
  have hfb0 : FrBound (Scc.Heap.init heapBase (heapBase + mc.heapBytes)) (Pk + 1) :=
    frBound_init (by decide) (by omega) (by omega)
  have hcb0 : FrBound (Scc.Heap.init heapBase (heapBase + mc.heapBytes)) 1 :=
    frBound_init (by decide) (by omega) (Nat.le_refl _)
  have hch := run3_prefix En.loaded En.nd hheap En.clean En.icl En.fit hooks p 0 ops nargs
    c' hcompM hsafe htp hfit En.defs Pk (A * fuel + 1) A hA hbytes fuel _ (initConfig a args) _ X0 1 En.typed
    hcap En.rel (hA d0 hmem) (valAll_ints _ args) (by rw [En.next1]; omega) hfb0 hcb0 (by omega) hPF
  exact ⟨pr, e, regs, En.lay, En.entry, En.hregs, X0, En.steps, bchain_shape hP' _ X0 1 En.steps hch⟩

/-! ## on the run loop -/

/-- the machine on parsed lines, when the lines load and the arguments fit -/
theorem runLines_eq {lines : List (Nat × Code)} {pr : RV.Program} {args : List Word} {e : Nat}
    {regs : Array (Option Word)} (hlay : layout lines = .ok pr) (he : pr.entry = some e)
    (hregs : entryRegs args = some regs) (fuel : Nat) (mc : MonCfg) :
    runLines lines args fuel mc = runLoop pr mc fuel (initState regs e) := by
  unfold runLines
  rw [hlay]
  simp only [runProgram, he, hregs]
  rfl

/-- … on the run loop: result and the highest heap address written -/
theorem programs_peak_lines (p : AxCut.Prog) (args : List Word) (hooks : Bool) (instrs hdr : List Code)
    (nargs cX : Nat) (d0 : Def) (ops : List MockOp) (c' : Nat)
    (hsafe : LabelSafe p = true) (htp : LinTypedProg p)
    (hcompM : (compile mockSym hooks p).run 0 = .ok ((ops, nargs), c')) (hfit : CodeFits ops)
    {cX0 : Nat} (hcompX : (compile rvBackend hooks p).run cX0 = .ok ((instrs, nargs), cX))
    (hnd : (labs (instrs ++ [Code.LAB "cleanup"])).Nodup) (hfitX : codeBase + 4 * instrs.length < 2 ^ 64)
    (hd : p.defs.head? = some d0) (hentry : ∀ b ∈ d0.ctx, b.chi = .ext ∧ b.ty = .i64)
    (hcap : ∀ st, Reachable p ⟨d0.ctx, args.map .int, d0.body⟩ st → st.ctx.length ≤ 14)
    (fuel : Nat) (v : Word) (hfuel : fuel + 1 < 2 ^ 64)
    (hrun : (Pos.run p args fuel).res = .done v)
    (mc : MonCfg) (hheap : mc.heap = false) (htop : heapBase + mc.heapBytes ≤ 2 ^ 63)
    (Pk A : Nat) (hA : ∀ d ∈ p.defs, AllocLe A d.body) (hbytes : 64 * (Pk + A + 2) ≤ mc.heapBytes)
    (lines : List (Nat × Code)) (hhdr : ∀ c ∈ hdr, c.isComment = true)
    (hlines : (lines.map (·.2)).map stripC = (hdr ++ instrs ++ [Code.LAB "cleanup"]).map stripC)
    (hhook : ∀ x ∈ lines, ¬ badHook x.2)
    (hP : ∀ pr e regs, layout lines = .ok pr → pr.entry = some e → entryRegs args = some regs →
      PeakAtMost p hooks (keptOf lines) ops mc pr (initState regs e) Pk (A * fuel + 1)) :
    ∃ fuel', (runLines lines args fuel' mc).res = .done v ∧
      (runLines lines args fuel' mc).maxHeapWritten ≤ mc.heapBytes := by
  obtain ⟨pr, e, regs, hlay, he, hregs, X0, n, XL, r, h0, _, g1, g2, g3, hm⟩ := programs_peak p args hooks instrs
    hdr nargs cX d0 ops c' hsafe htp hcompM hfit hcompX hnd hfitX hd hentry hcap fuel v hfuel hrun mc hheap htop
    Pk A hA hbytes lines hhdr hlines hhook hP
  refine ⟨(1 + n) + 1, ?_⟩
  rw [runLines_eq hlay he hregs]
  have hN : stepN pr mc ((1 + n) + 1) (initState regs e) = .inr r :=
    stepN_trans_inr pr mc (stepN_trans pr mc h0 g1) (by rw [stepN_one]; exact g2)
  have hrl := runLoop_stepN_inr pr mc ((1 + n) + 1) 0 hN
  rw [Nat.zero_add] at hrl
  rw [hrl]
  exact ⟨g3, by rw [step_done_mhw g2 g3]; exact hm⟩

/-- a run on the lines that ends with `done v` in a smaller heap is the same run in a larger heap -/
theorem runLines_larger_heap {mc' mc : MonCfg} (S : Sub mc' mc) (lines : List (Nat × Code)) (args : List Word)
    (f : Nat) (v : Word) (h : (runLines lines args f mc').res = .done v) :
    runLines lines args f mc = runLines lines args f mc' := by
  unfold runLines at *
  cases hlay : layout lines with
  | error e => rfl
  | ok pr =>
    rw [hlay] at h
    simp only at h ⊢
    unfold runProgram at *
    cases he : pr.entry with
    | none => rfl
    | some e =>
      cases hr : entryRegs args with
      | none => rfl
      | some regs =>
        rw [he, hr] at h
        simp only at h ⊢
        exact runLoop_larger_heap S pr f _ v h

end Scc.RV.Conc
