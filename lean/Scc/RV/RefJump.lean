/-
  Scc.RV.RefJump — Theorem B (RV64), CLOSURES: an indirect jump (`JALR`) to the address of ANY item of the
  kept codes — a label (the method table of a closure) or an instruction (an entry of the table) — reaches
  that item: the machine lands on the first label standing before it (RefLand.lean) and passes the labels and
  hook comments in between (`jump_reach`).
-/
import Scc.RV.RefLand
import Scc.RV.RefBridge

set_option linter.unusedVariables false
set_option linter.unusedSimpArgs false

namespace Scc.RV.Ref

open Scc.RV

/-- where a jump to the address of an instruction lands -/
theorem Loaded.land_instr {p : Program} {ks : List Code} (L : Loaded p ks) {j : Nat} (hj : j < ks.length)
    (hji : ks[j].isInstr = true) :
    ∃ m, p.addrIdx[codeBase + 4 * icount (ks.take j)]? = some m ∧ m ≤ j ∧
      ∀ t, m ≤ t → t < j → ∀ c, ks[t]? = some c → c.isInstr = false := by
  cases hp : pendOf (ks.take j) with
  | none =>
    refine ⟨j, by rw [L.addrs j hj hji, hp]; rfl, Nat.le_refl _, fun t h1 h2 => by omega⟩
  | some m =>
    obtain ⟨h1, _, h3⟩ := pendOf_spec (ks.take j) m hp
    have hmj : m < j := by simp at h1; omega
    refine ⟨m, by rw [L.addrs j hj hji, hp]; rfl, by omega, fun t ht1 ht2 c hc => ?_⟩
    exact h3 t ht1 (by simp; omega) c (by rw [List.getElem?_take]; simp [ht2, hc])

section Jump

variable {p : Program} {cfg : MonCfg} {ks : List Code} (L : Loaded p ks) (hnd : (labs ks).Nodup)
  (hheap : cfg.heap = false)

include L hheap in
/-- AN INDIRECT JUMP TO THE ADDRESS OF ITEM `j` (a label or an instruction) REACHES ITEM `j` -/
theorem jump_reach {c : Code} {more : List Code} {s s1 : State} {a : Word} {j : Nat}
    (hat : KAt ks s.pc (c :: more)) (hi : c.isInstr = true)
    (hx : ∀ a', exec cfg p.labelAddr a' c s = .ok (s1, .addr a))
    (hj : j < ks.length) (hjk : ks[j].isInstr = true ∨ ∃ l, ks[j] = Code.LAB l)
    (ha : a.toNat = codeBase + 4 * icount (ks.take j))
    (hcl : ∀ t, t < j → ks[t]? ≠ some (Code.LAB "cleanup")) :
    Reach p cfg s (setPS s1 j (s.steps + 1)) := by
  have hc : c.isComment = false := by cases c <;> first | rfl | (simp [Code.isInstr] at hi)
  obtain ⟨hg, _⟩ := hat.head hc
  obtain ⟨it, h1, h2, _⟩ := loaded_item L hg
  have hland : ∃ m, p.addrIdx[codeBase + 4 * icount (ks.take j)]? = some m ∧ m ≤ j ∧
      ∀ t, m ≤ t → t < j → ∀ c, ks[t]? = some c → c.isInstr = false := by
    rcases hjk with h | ⟨l, h⟩
    · exact L.land_instr hj h
    · exact L.land (l := l) (by rw [List.getElem?_eq_getElem hj, h])
  obtain ⟨m, hm, hmj, hbetween⟩ := hland
  have hr1 : Reach p cfg s (setPS s1 m (s.steps + 1)) := by
    refine Reach.of_step ?_
    exact Scc.RV.step_of_addr p cfg s s1 h1 (by rw [h2]; exact hi) (by rw [h2]; exact hx _) (by rw [ha]; exact hm)
  have hr2 := pass_items L hheap (setPS s1 m (s.steps + 1)) (j - m) m rfl (by omega)
    (fun t ht1 ht2 c hc => ⟨hbetween t ht1 (by omega) c hc, fun e => hcl t (by omega) (by rw [hc, e])⟩)
  have e : setPS (setPS s1 m (s.steps + 1)) (m + (j - m)) (setPS s1 m (s.steps + 1)).steps =
      setPS s1 j (s.steps + 1) := by
    simp only [setPS]
    rw [show m + (j - m) = j by omega]
  rw [e] at hr2
  exact hr1.trans hr2

end Jump

end Scc.RV.Ref
