/-
  Scc.RV.RefSideLabMem — SIDE HYPOTHESES of the RV64 run theorems (C08), part a: the labels DEFINED by the code
  of the memory methods of the RV64 backend (memory.rs: erase_block, share_block_n, store, load).  Every label
  definition of that code comes from `skip_if_zero` / `if_zero_then_else`, which define the labels `lab<n>` of
  the numbers they draw: for EVERY run of a memory method from the counter value `k` to `k'`, the labels
  defined by the code are `lab<n>` for pairwise distinct numbers `k < n ≤ k'` (`LFC`).  (The RV64 twin of
  Scc/X86/RefSideLabMem.lean; `store_fields` / `load_fields` through their fuel clones of Scc/RV/RefEval.lean.)
-/
import Scc.RV.RefLayout
import Scc.RV.RefEval
import Scc.RV.MemProofsLoad
import Scc.Backend.Proofs

set_option linter.unusedVariables false
set_option linter.unusedSimpArgs false

namespace Scc.RV.Ref

open Scc.AxCut Scc.Backend Scc.RV

/-- `L` lists the local labels `lab<n>` of pairwise distinct numbers in `(lo, hi]` -/
def LF (lo hi : Nat) (L : List String) : Prop :=
  ∃ ns : List Nat, L = ns.map labName ∧ ns.Nodup ∧ ∀ n ∈ ns, lo < n ∧ n ≤ hi

theorem LF.nil (lo hi : Nat) : LF lo hi [] := ⟨[], rfl, List.nodup_nil, fun _ h => by cases h⟩

theorem LF.mono {lo hi lo' hi' : Nat} {L : List String} (h : LF lo hi L) (h1 : lo' ≤ lo) (h2 : hi ≤ hi') :
    LF lo' hi' L := by
  obtain ⟨ns, e, nd, hr⟩ := h
  exact ⟨ns, e, nd, fun n hn => by have := hr n hn; omega⟩

theorem LF.append {a b c : Nat} {L1 L2 : List String} (h1 : LF a b L1) (h2 : LF b c L2) (hab : a ≤ b)
    (hbc : b ≤ c) : LF a c (L1 ++ L2) := by
  obtain ⟨n1, e1, d1, r1⟩ := h1
  obtain ⟨n2, e2, d2, r2⟩ := h2
  refine ⟨n1 ++ n2, by rw [e1, e2, List.map_append], ?_, ?_⟩
  · rw [List.nodup_append]
    refine ⟨d1, d2, ?_⟩
    intro x hx y hy e
    have := r1 x hx
    have := r2 y hy
    omega
  · intro n hn
    rcases List.mem_append.1 hn with h | h
    · have := r1 n h; omega
    · have := r2 n h; omega

/-- the same with the two parts in the other order in the code -/
theorem LF.append' {a b c : Nat} {L1 L2 : List String} (h1 : LF a b L1) (h2 : LF b c L2) (hab : a ≤ b)
    (hbc : b ≤ c) : LF a c (L2 ++ L1) := by
  obtain ⟨n1, e1, d1, r1⟩ := h1
  obtain ⟨n2, e2, d2, r2⟩ := h2
  refine ⟨n2 ++ n1, by rw [e1, e2, List.map_append], ?_, ?_⟩
  · rw [List.nodup_append]
    refine ⟨d2, d1, ?_⟩
    intro x hx y hy e
    have := r2 x hx
    have := r1 y hy
    omega
  · intro n hn
    rcases List.mem_append.1 hn with h | h
    · have := r2 n h; omega
    · have := r1 n h; omega

theorem LF.single (k : Nat) : LF k (k + 1) [labName (k + 1)] :=
  ⟨[k + 1], rfl, by simp, fun n hn => by simp at hn; omega⟩

/-- no label is defined -/
def NL (code : List Code) : Prop := ∀ l, Code.LAB l ∉ code

theorem NL.labs {code : List Code} (h : NL code) : labs code = [] := by
  unfold Ref.labs
  rw [List.filterMap_eq_nil_iff]
  intro c hc
  cases c <;> first | rfl | exact absurd hc (h _)

theorem NL.append {a b : List Code} (ha : NL a) (hb : NL b) : NL (a ++ b) := fun l h => by
  rcases List.mem_append.1 h with h | h
  · exact ha l h
  · exact hb l h

theorem NL.nil : NL [] := fun _ h => by cases h

theorem labs_cons_lab (l : String) (r : List Code) : labs (.LAB l :: r) = l :: labs r := rfl

theorem labs_cons_other {c : Code} (h : ∀ l, c ≠ .LAB l) (r : List Code) : labs (c :: r) = labs r := by
  unfold Ref.labs
  rw [List.filterMap_cons]
  cases c <;> first | rfl | exact absurd rfl (h _)

/-- the labels defined by `code`, generated from counter `k` to `k'` -/
def LFC (k k' : Nat) (code : List Code) : Prop := k ≤ k' ∧ LF k k' (labs code)

theorem LFC.of_nl {code : List Code} (h : NL code) (k : Nat) : LFC k k code :=
  ⟨Nat.le_refl _, by rw [h.labs]; exact LF.nil _ _⟩

theorem LFC.append {a b c : Nat} {c1 c2 : List Code} (h1 : LFC a b c1) (h2 : LFC b c c2) :
    LFC a c (c1 ++ c2) :=
  ⟨by have := h1.1; have := h2.1; omega, by rw [labs_append]; exact h1.2.append h2.2 h1.1 h2.1⟩

theorem LFC.nl_left {a b : Nat} {c1 c2 : List Code} (h1 : NL c1) (h2 : LFC a b c2) : LFC a b (c1 ++ c2) :=
  ⟨h2.1, by rw [labs_append, h1.labs]; exact h2.2⟩

theorem LFC.nl_right {a b : Nat} {c1 c2 : List Code} (h1 : LFC a b c1) (h2 : NL c2) : LFC a b (c1 ++ c2) :=
  ⟨h1.1, by rw [labs_append, h2.labs, List.append_nil]; exact h1.2⟩

/-! ## the two combinators -/

theorem labs_ifZeroThenElse (c0 c1 : Code) (h0 : ∀ l, c0 ≠ .LAB l) (h1 : ∀ l, c1 ≠ .LAB l) (tb eb : List Code)
    (l1 l2 : String) :
    labs ([c0] ++ eb ++ [c1, .LAB l1] ++ tb ++ [.LAB l2]) = labs eb ++ l1 :: (labs tb ++ [l2]) := by
  simp only [labs_append]
  have e1 : labs [c0] = [] := by rw [labs_cons_other h0]; rfl
  have e2 : labs [c1, Code.LAB l1] = [l1] := by rw [labs_cons_other h1]; rfl
  rw [e1, e2]
  simp only [List.nil_append, List.append_assoc]
  rfl

/-- `if_zero_then_else`: the branches were generated before, from `a` to `b` and from `b` to `k` (in any
order) -/
theorem lfc_ifZeroThenElse {r : Register} {tb eb : List Code} {a k : Nat}
    (hb : LF a k (labs eb ++ labs tb)) (hak : a ≤ k)
    {code : List Code} {k' : Nat} (h : (ifZeroThenElse r tb eb).run k = .ok (code, k')) : LFC a k' code := by
  rw [ifZeroThenElse_run] at h
  injection h with h
  injection h with h1 h2
  subst h1 h2
  refine ⟨by omega, ?_⟩
  rw [labs_ifZeroThenElse _ _ (fun _ => by simp) (fun _ => by simp)]
  obtain ⟨ns, e, nd, hr⟩ := hb
  -- split the number list along the two branches
  have hlen : (labs eb).length ≤ ns.length := by
    have := congrArg List.length e
    simp at this
    omega
  have e1 : labs eb = (ns.take (labs eb).length).map labName := by
    have := congrArg (List.take (labs eb).length) e
    rw [List.take_left' rfl, ← List.map_take] at this
    exact this
  have e2 : labs tb = (ns.drop (labs eb).length).map labName := by
    have := congrArg (List.drop (labs eb).length) e
    rw [List.drop_left' rfl, ← List.map_drop] at this
    exact this
  refine ⟨ns.take (labs eb).length ++ (k + 1) :: (ns.drop (labs eb).length ++ [k + 2]), ?_, ?_, ?_⟩
  · rw [List.map_append, List.map_cons, List.map_append, ← e1, ← e2]
    rfl
  · have hnd : (ns.take (labs eb).length ++ ns.drop (labs eb).length).Nodup := by
      rw [List.take_append_drop]; exact nd
    rw [List.nodup_append] at hnd ⊢
    obtain ⟨d1, d2, d3⟩ := hnd
    refine ⟨d1, ?_, ?_⟩
    · rw [List.nodup_cons, List.nodup_append]
      refine ⟨?_, d2, by simp, ?_⟩
      · intro hm
        rcases List.mem_append.1 hm with hm | hm
        · have := hr _ (List.mem_of_mem_drop hm); omega
        · simp at hm
      · intro x hx y hy exy
        simp at hy
        have := hr _ (List.mem_of_mem_drop hx); omega
    · intro x hx y hy exy
      have h1 := hr _ (List.mem_of_mem_take hx)
      rcases List.mem_cons.1 hy with hy | hy
      · omega
      · rcases List.mem_append.1 hy with hy | hy
        · exact d3 x hx y hy exy
        · simp at hy; omega
  · intro n hn
    rcases List.mem_append.1 hn with hn | hn
    · have := hr _ (List.mem_of_mem_take hn); omega
    · rcases List.mem_cons.1 hn with hn | hn
      · omega
      · rcases List.mem_append.1 hn with hn | hn
        · have := hr _ (List.mem_of_mem_drop hn); omega
        · simp at hn; omega

/-! ## erase_block, share_block_n, acquire_block: explicit code -/

theorem lfc_eraseBlock {t : Register} {k : Nat} {code : List Code} {k' : Nat}
    (h : (eraseBlock t).run k = .ok (code, k')) : LFC k k' code := by
  rw [eraseBlock_run] at h
  injection h with h
  injection h with h1 h2
  subst h1 h2
  refine ⟨by omega, [k + 1, k + 2, k + 3], rfl, by simp, ?_⟩
  intro n hn
  simp only [List.mem_cons, List.not_mem_nil, or_false] at hn
  omega

theorem lfc_shareBlockN {t : Register} {n k : Nat} {code : List Code} {k' : Nat}
    (h : (shareBlockN t n).run k = .ok (code, k')) : LFC k k' code := by
  rw [shareBlockN_run] at h
  injection h with h
  injection h with h1 h2
  subst h1 h2
  exact ⟨by omega, LF.single k⟩

theorem lfc_acquireBlock {t a : Register} {k : Nat} {code : List Code} {k' : Nat}
    (h : (acquireBlock t a).run k = .ok (code, k')) : LFC k k' code := by
  rw [acquireBlock_run] at h
  injection h with h
  injection h with h1 h2
  subst h1 h2
  refine ⟨by omega, [k + 12, k + 1, k + 2, k + 3, k + 3 + 1, k + 3 + 2, k + 3 + 3, k + 6 + 1, k + 6 + 2, k + 6 + 3,
    k + 10, k + 11, k + 13], rfl, by simp, ?_⟩
  intro n hn
  simp only [List.mem_cons, List.not_mem_nil, or_false] at hn
  omega

/-! ## counters of the auxiliary generators -/

theorem freshTemporary_k {n : TempNum} {Γ : Ctx} {k : Nat} {t : Register} {k' : Nat}
    (h : (freshTemporary n Γ).run k = .ok (t, k')) : k' = k := by
  unfold freshTemporary positionRegister at h
  simp only at h
  split at h
  · simp only [run_pure_ok] at h; exact h.2.symm
  · simp [run_throw_ok] at h

theorem pred1_k {n k m k' : Nat} (h : (pred1 n).run k = .ok (m, k')) : k' = k := by
  cases n with
  | zero => simp [pred1, run_throw_ok] at h
  | succ j => simp only [pred1, run_pure_ok] at h; exact h.2.symm

theorem storeField_nl {n : TempNum} {Γ : Ctx} {r : Register} {off k : Nat} {code : Code} {k' : Nat}
    (h : (storeField n Γ r off).run k = .ok (code, k')) : k' = k ∧ ∀ l, code ≠ .LAB l := by
  simp only [storeField, run_bind_ok, run_pure_ok] at h
  obtain ⟨t, k1, h1, rfl, rfl⟩ := h
  exact ⟨freshTemporary_k h1, fun _ => by simp⟩

theorem loadField_nl {n : TempNum} {Γ : Ctx} {r : Register} {off k : Nat} {code : Code} {k' : Nat}
    (h : (loadField n Γ r off).run k = .ok (code, k')) : k' = k ∧ ∀ l, code ≠ .LAB l := by
  simp only [loadField, run_bind_ok, run_pure_ok] at h
  obtain ⟨t, k1, h1, rfl, rfl⟩ := h
  exact ⟨freshTemporary_k h1, fun _ => by simp⟩

theorem nl_single {c : Code} (h : ∀ l, c ≠ .LAB l) : NL [c] := fun l hl => by
  simp only [List.mem_singleton] at hl
  exact h l hl.symm

theorem nl_cons {c : Code} {r : List Code} (h : ∀ l, c ≠ .LAB l) (hr : NL r) : NL (c :: r) := fun l hl => by
  rcases List.mem_cons.1 hl with e | hl
  · exact h l e.symm
  · exact hr l hl

theorem nl_storeZero (r : Register) (off : Nat) : NL (storeZero r off) := by
  intro l hl; simp [storeZero] at hl

theorem nl_storeZeros (n : Nat) (r : Register) : NL (storeZeros n r) := by
  intro l hl
  unfold storeZeros at hl
  rw [List.mem_flatMap] at hl
  obtain ⟨off, _, hcl⟩ := hl
  exact nl_storeZero r off l hcl

theorem storeValue_nl {b : Binding} {Γ : Ctx} {r : Register} {off k : Nat} {code : List Code} {k' : Nat}
    (h : (storeValue b Γ r off).run k = .ok (code, k')) : k' = k ∧ NL code := by
  simp only [storeValue, run_bind_ok] at h
  obtain ⟨c1, k1, h1, h2⟩ := h
  obtain ⟨rfl, n1⟩ := storeField_nl h1
  split at h2
  · simp only [run_pure_ok] at h2
    obtain ⟨rfl, rfl⟩ := h2
    exact ⟨rfl, nl_cons n1 (nl_storeZero r off)⟩
  · simp only [run_bind_ok, run_pure_ok] at h2
    obtain ⟨c2, k2, h3, rfl, rfl⟩ := h2
    obtain ⟨rfl, n2⟩ := storeField_nl h3
    exact ⟨rfl, nl_cons n1 (nl_single n2)⟩

theorem storeValuesLoop_nl (Γ : Ctx) (r : Register) : ∀ (bs : List Binding) (ff k : Nat) (res : List Code × Nat)
    (k' : Nat), (storeValuesLoop Γ r bs ff).run k = .ok (res, k') → k' = k ∧ NL res.1
  | [], ff, k, res, k', h => by
    simp only [storeValuesLoop, run_pure_ok] at h
    obtain ⟨rfl, rfl⟩ := h
    exact ⟨rfl, NL.nil⟩
  | b :: rest, ff, k, res, k', h => by
    simp only [storeValuesLoop, run_bind_ok, run_pure_ok] at h
    obtain ⟨off, k1, h1, c, k2, h2, ⟨cs, ff'⟩, k3, h3, rfl, rfl⟩ := h
    have := pred1_k h1
    subst this
    obtain ⟨rfl, n1⟩ := storeValue_nl h2
    obtain ⟨rfl, n2⟩ := storeValuesLoop_nl Γ r rest off _ _ _ h3
    exact ⟨rfl, n1.append n2⟩

theorem storeValues_nl {ts Γ : Ctx} {r : Register} {ff k : Nat} {code : List Code} {k' : Nat}
    (h : (storeValues ts Γ r ff).run k = .ok (code, k')) : k' = k ∧ NL code := by
  simp only [storeValues, run_bind_ok, run_pure_ok] at h
  obtain ⟨⟨cs, ff'⟩, k1, h1, rfl, rfl⟩ := h
  obtain ⟨rfl, n1⟩ := storeValuesLoop_nl Γ r _ _ _ _ _ h1
  refine ⟨rfl, ?_⟩
  refine NL.append (NL.append (NL.append (nl_single (fun _ => by simp)) n1) ?_) (nl_storeZeros _ _)
  split
  · exact nl_single (fun _ => by simp)
  · exact NL.nil

/-! ## store -/

theorem lfc_storeFieldsF : ∀ (fuel : Nat) (ts rem : Ctx) (bp : BlockPosition) (k : Nat) (code : List Code)
    (k' : Nat), (storeFieldsF fuel ts rem bp).run k = .ok (code, k') → LFC k k' code
  | 0, ts, rem, bp, k, code, k', h => by simp [storeFieldsF, run_throw_ok] at h
  | fuel + 1, ts, rem, bp, k, code, k', h => by
    simp only [storeFieldsF] at h
    split at h
    · split at h
      · simp only [run_bind_ok, run_pure_ok] at h
        obtain ⟨t, k1, h1, rfl, rfl⟩ := h
        have := freshTemporary_k h1
        subst this
        exact LFC.of_nl (nl_cons (fun _ => by simp) (nl_single (fun _ => by simp))) _
      · simp only [run_pure_ok] at h
        obtain ⟨rfl, rfl⟩ := h
        exact LFC.of_nl NL.nil _
    · have nc : NL [Code.COMMENT "##acquire free block from heap register"] := nl_single (fun _ => by simp)
      cases bp with
      | last =>
        simp only [reduceCtorEq, ↓reduceIte, beq_self_eq_true, run_bind_ok, run_pure_ok,
          show (BlockPosition.last == BlockPosition.other) = false from rfl, Bool.false_eq_true] at h
        obtain ⟨c1, k1, ⟨rfl, rfl⟩, c3, k3, h3, t, k4, h4, t', k4', h4', c4, k5, h5, c5, k6, h6, rfl, rfl⟩ := h
        obtain ⟨rfl, n3⟩ := storeValues_nl h3
        have := freshTemporary_k h4
        subst this
        have := freshTemporary_k h4'
        subst this
        have l4 := lfc_acquireBlock h5
        have l5 := lfc_storeFieldsF fuel _ _ _ _ _ _ h6
        have n2 : NL [Code.COMMENT "#allocate memory"] := nl_single (fun _ => by simp)
        exact (LFC.nl_left (((NL.nil.append n2).append n3).append nc) l4).append l5
      | other =>
        simp only [reduceCtorEq, ↓reduceIte, beq_self_eq_true, run_bind_ok, run_pure_ok,
          show (BlockPosition.other == BlockPosition.last) = false from rfl, Bool.false_eq_true] at h
        obtain ⟨c, kc, hc, c1, k1, ⟨rfl, rfl⟩, c3, k3, h3, t, k4, h4, t', k4', h4', c4, k5, h5, c5, k6, h6,
          rfl, rfl⟩ := h
        obtain ⟨rfl, n⟩ := storeField_nl hc
        have n1 : NL [Code.COMMENT "##store link to previous block", c] :=
          nl_cons (fun _ => by simp) (nl_single n)
        obtain ⟨rfl, n3⟩ := storeValues_nl h3
        have := freshTemporary_k h4
        subst this
        have := freshTemporary_k h4'
        subst this
        have l4 := lfc_acquireBlock h5
        have l5 := lfc_storeFieldsF fuel _ _ _ _ _ _ h6
        exact (LFC.nl_left (((n1.append NL.nil).append n3).append nc) l4).append l5

theorem lfc_store {ts rem : Ctx} {k : Nat} {code : List Code} {k' : Nat}
    (h : (store ts rem).run k = .ok (code, k')) : LFC k k' code := by
  rw [← storeF_eq] at h
  exact lfc_storeFieldsF _ _ _ _ _ _ _ h

/-! ## load -/

theorem lfc_loadValue {b : Binding} {Γ : Ctx} {r : Register} {off : Nat} {m : LoadMode} {k : Nat}
    {code : List Code} {k' : Nat} (h : (loadValue b Γ r off m).run k = .ok (code, k')) : LFC k k' code := by
  simp only [loadValue, run_bind_ok] at h
  obtain ⟨c1, k1, h1, h2⟩ := h
  obtain ⟨rfl, n1⟩ := loadField_nl h1
  split at h2
  · simp only [run_bind_ok] at h2
    obtain ⟨c2, k2, h3, h5⟩ := h2
    obtain ⟨rfl, n2⟩ := loadField_nl h3
    split at h5
    · simp only [run_bind_ok, run_pure_ok] at h5
      obtain ⟨t, k3, h4, c3, k4, h6, rfl, rfl⟩ := h5
      have := freshTemporary_k h4
      subst this
      exact LFC.nl_left (nl_cons n1 (nl_single n2)) (lfc_shareBlockN h6)
    · simp only [run_pure_ok] at h5
      obtain ⟨rfl, rfl⟩ := h5
      exact LFC.of_nl (nl_cons n1 (nl_single n2)) _
  · simp only [run_pure_ok] at h2
    obtain ⟨rfl, rfl⟩ := h2
    exact LFC.of_nl (nl_single n1) _

theorem lfc_loadValuesLoop (Γ : Ctx) (r : Register) (m : LoadMode) : ∀ (bs : List Binding) (ff k : Nat)
    (code : List Code) (k' : Nat), (loadValuesLoop Γ r m bs ff).run k = .ok (code, k') → LFC k k' code
  | [], ff, k, code, k', h => by
    simp only [loadValuesLoop, run_pure_ok] at h
    obtain ⟨rfl, rfl⟩ := h
    exact LFC.of_nl NL.nil _
  | b :: rest, ff, k, code, k', h => by
    simp only [loadValuesLoop, run_bind_ok, run_pure_ok] at h
    obtain ⟨off, k1, h1, c, k2, h2, cs, k3, h3, rfl, rfl⟩ := h
    have := pred1_k h1
    subst this
    exact (lfc_loadValue h2).append (lfc_loadValuesLoop Γ r m rest off _ _ _ h3)

theorem lfc_loadValues {tl Γ : Ctx} {r : Register} {ff : Nat} {m : LoadMode} {k : Nat} {code : List Code}
    {k' : Nat} (h : (loadValues tl Γ r ff m).run k = .ok (code, k')) : LFC k k' code := by
  simp only [loadValues, run_bind_ok, run_pure_ok] at h
  obtain ⟨cs, k1, h1, rfl, rfl⟩ := h
  have := lfc_loadValuesLoop _ _ _ _ _ _ _ _ h1
  exact ⟨this.1, by rw [labs_cons_other (fun _ => by simp)]; exact this.2⟩

theorem nl_releaseBlock (r : Register) : NL (releaseBlock r) := by
  intro l hl; simp [releaseBlock] at hl

theorem lfc_loadFieldsF : ∀ (fuel : Nat) (tl ex : Ctx) (bp : BlockPosition) (m : LoadMode) (k : Nat)
    (code : List Code) (k' : Nat), (loadFieldsF fuel tl ex bp m).run k = .ok (code, k') → LFC k k' code
  | 0, tl, ex, bp, m, k, code, k', h => by simp [loadFieldsF, run_throw_ok] at h
  | fuel + 1, tl, ex, bp, m, k, code, k', h => by
    simp only [loadFieldsF] at h
    split at h
    · simp only [run_pure_ok] at h
      obtain ⟨rfl, rfl⟩ := h
      exact LFC.of_nl NL.nil _
    · cases bp with
      | last =>
        simp only [run_bind_ok, run_pure_ok, show (BlockPosition.last == BlockPosition.other) = false from rfl,
          Bool.false_eq_true, ↓reduceIte] at h
        obtain ⟨c1, k1, h1, mb, k2, h2, c3, k3, ⟨rfl, rfl⟩, c4, k4, h4, rfl, rfl⟩ := h
        have l1 := lfc_loadFieldsF fuel _ _ _ _ _ _ _ h1
        have := freshTemporary_k h2
        subst this
        have n2 : NL (if (m == LoadMode.release) = true then Code.COMMENT "###release block" :: releaseBlock mb
            else []) := by
          split
          · exact nl_cons (fun _ => by simp) (nl_releaseBlock mb)
          · exact NL.nil
        have l4 := lfc_loadValues h4
        exact ((l1.nl_right n2).nl_right NL.nil).append l4
      | other =>
        simp only [run_bind_ok, run_pure_ok, beq_self_eq_true, ↓reduceIte] at h
        obtain ⟨c1, k1, h1, mb, k2, h2, c, kc, hc, c3, k3, ⟨rfl, rfl⟩, c4, k4, h4, rfl, rfl⟩ := h
        have l1 := lfc_loadFieldsF fuel _ _ _ _ _ _ _ h1
        have := freshTemporary_k h2
        subst this
        have n2 : NL (if (m == LoadMode.release) = true then Code.COMMENT "###release block" :: releaseBlock mb
            else []) := by
          split
          · exact nl_cons (fun _ => by simp) (nl_releaseBlock mb)
          · exact NL.nil
        obtain ⟨rfl, n⟩ := loadField_nl hc
        have n3 : NL [Code.COMMENT "###load link to next block", c] := nl_cons (fun _ => by simp) (nl_single n)
        have l4 := lfc_loadValues h4
        exact ((l1.nl_right n2).nl_right n3).append l4

theorem lfc_load {tl ex : Ctx} {k : Nat} {code : List Code} {k' : Nat}
    (h : (load tl ex).run k = .ok (code, k')) : LFC k k' code := by
  rw [← loadF_eq] at h
  simp only [loadF] at h
  split at h
  · simp only [run_pure_ok] at h
    obtain ⟨rfl, rfl⟩ := h
    exact LFC.of_nl NL.nil _
  · simp only [run_bind_ok, run_pure_ok] at h
    obtain ⟨mb, k1, h1, cT, k2, hT, cE, k3, hE, c, k4, h3, rfl, rfl⟩ := h
    have := freshTemporary_k h1
    subst this
    have lT := lfc_loadFieldsF _ _ _ _ _ _ _ _ hT
    have lE := lfc_loadFieldsF _ _ _ _ _ _ _ _ hE
    have hb : LF k1 k3 (labs ([Code.COMMENT "##either decrement refcount and share children...",
        Code.ADDI TEMP TEMP (-1), Code.SW TEMP mb referenceCountOffset] ++ cE) ++
        labs (Code.COMMENT "##... or release blocks onto linear free list when loading" :: cT)) := by
      have e1 : labs ([Code.COMMENT "##either decrement refcount and share children...",
          Code.ADDI TEMP TEMP (-1), Code.SW TEMP mb referenceCountOffset] ++ cE) = labs cE := by
        rw [labs_append]; rfl
      have e2 : labs (Code.COMMENT "##... or release blocks onto linear free list when loading" :: cT) = labs cT :=
        labs_cons_other (fun _ => by simp) _
      rw [e1, e2]
      exact lT.2.append' lE.2 lT.1 lE.1
    have := lfc_ifZeroThenElse hb (by have := lT.1; have := lE.1; omega) h3
    refine ⟨this.1, ?_⟩
    rw [labs_append, labs_append]
    have e0 : labs [Code.COMMENT "#load from memory", Code.LW TEMP mb referenceCountOffset] = [] := rfl
    have e1 : labs [Code.COMMENT "##check refcount"] = [] := rfl
    rw [e0, e1]
    exact this.2

end Scc.RV.Ref
